import Mutiny.Model.LockRing
import Mutiny.Model.U32
/-!
# M2/32 `LockRing32` — `FullSyncMove<T, N>` with the `u32` arithmetic the source really performs
  (`/repo/src/ogre_std/ogre_queues/full_sync/full_sync_move.rs`)

Same state type, program points and hook tags as model M2; `head` and `tail` are residues modulo 2^32 and every step uses
the operation of `Mutiny/Model/U32.lean` the source uses: `tail.overflowing_sub(head).0 < BUFFER_SIZE` (admission),
`available_elements_count() as i32 > 0` (emptiness, a SIGNED test), `x as usize % BUFFER_SIZE` (slot index),
`overflowing_add(1).0` (advance), `len_before + 1` (checked `+`: `none` = panic in a build with overflow checks).
`Mutiny/Proofs/LockRing32Sim.lean` proves it is the image modulo 2^32 of model M2.  Import-free.
-/
namespace Mutiny.LockRing32
open Mutiny.LockRing Mutiny.U32

def step32 (s : St) (t : Nat) : Option St :=
  match s.thr t with
  | .idle | .done _ => some s
  | .pLock v | .pSpin v =>
      some (if s.locked then setThr s t (.pSpin v) else setThr { s with locked := true } t (.pCheck v))
  | .pCheck v =>
      if fsAdmit32 s.tail s.head s.N then
        match cadd (len32 s.tail s.head) 1 with
        | none => none
        | some l => some (setThr s t (.pWrite v l))
      else some (setThr { s with locked := false } t .pFullUnlocked)
  | .pFullUnlocked => some (setThr s t (.done .full))
  | .pWrite v len => some (setThr (setBuf s (index32 s.tail s.N) v) t (.pPublish v len))
  | .pPublish v len =>
      some (setThr { s with tail := wadd s.tail 1, locked := false, accepted := s.accepted ++ [v] } t (.pUnlocked len))
  | .pUnlocked len => some (setThr s t (.done (.sent len)))
  | .cLock | .cSpin =>
      some (if s.locked then setThr s t .cSpin else setThr { s with locked := true } t .cLenT)
  | .cLenT => some (setThr s t .cLen)
  | .cLen =>
      if posI32 (len32 s.tail s.head) then some (setThr s t .cRead)
      else some (setThr { s with locked := false } t .cEmptyUnlocked)
  | .cEmptyUnlocked => some (setThr s t (.done .empty))
  | .cRead => some (setThr s t (.cRelease (s.buf (index32 s.head s.N))))
  | .cRelease v =>
      some (setThr { s with head := wadd s.head 1, locked := false, delivered := s.delivered ++ [(t, s.head, v)] } t (.cUnlocked v))
  | .cUnlocked v => some (setThr s t (.done (.got v)))
  | .lLen => some (setThr s t (.lLenH s.tail))
  | .lLenH tl => some (setThr s t (.done (.len (len32 tl s.head))))

def apply32 (s : St) : Act → Option St
  | .step t => step32 s t
  | a => some (LockRing.apply s a)

def run32 (s : St) : List Act → Option St
  | [] => some s
  | a :: as => match apply32 s a with
               | none => none
               | some s' => run32 s' as

def init32 (n o : Nat) : St := { LockRing.init n with head := o, tail := o }

/-- the image of an M2 state: the two counters (and the sequence numbers in the delivery log) modulo 2^32 -/
def imgLoc : Loc → Loc
  | .lLenH tl => .lLenH (wrap tl)
  | l => l

def img (s : St) : St :=
  { s with head := wrap s.head, tail := wrap s.tail, thr := fun t => imgLoc (s.thr t),
           delivered := s.delivered.map fun x => (x.1, wrap x.2.1, x.2.2) }

end Mutiny.LockRing32
