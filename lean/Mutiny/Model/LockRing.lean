import Mutiny.Model.U32
/-!
# M2 `LockRing` — small-step model of `FullSyncMove<T, N>` + `ogre_sync::{lock, unlock}`
  (`/repo/src/ogre_std/ogre_queues/full_sync/full_sync_move.rs`, `/repo/src/ogre_std/ogre_sync.rs`)

One spin flag guards plain `head` / `tail`.  Program points are the `vp!` hook tags (`fs.*`, `sync.*`); the step of a
point performs the accesses between that hook and the next one.  Import-free (the replay driver links it).
-/

namespace Mutiny.LockRing

inductive Res where
  | sent (lenAfter : Nat)
  | full
  | got (v : Nat)
  | empty
  | len (n : Nat)
  deriving DecidableEq, Repr

inductive Loc where
  | idle
  | done (r : Res)
  -- producer: `leak_slot_internal` + `publish_movable`
  | pLock (v : Nat)            -- `fs.p.lock`: about to call `lock()`
  | pSpin (v : Nat)            -- `sync.spin`: the flag was seen held
  | pCheck (v : Nat)           -- `fs.p.check`: flag held by me; read `tail`, `head`
  | pFullUnlocked              -- `sync.unlocked`: flag released on the full path
  | pWrite (v len : Nat)       -- `fs.p.write`
  | pPublish (v len : Nat)     -- `fs.p.publish`: `tail += 1`, `unlock()`
  | pUnlocked (len : Nat)      -- `sync.unlocked`
  -- consumer: `consume_leaking_internal` + `consume_movable`
  | cLock
  | cSpin
  | cLenT                      -- `fs.len` (inside `available_elements_count`, flag held): load `tail`
  | cLen                       -- `fs.len.head`: load `head`; anything to consume?  (under the flag nobody moves `tail` in between)
  | cEmptyUnlocked
  | cRead                      -- `fs.c.read`
  | cRelease (v : Nat)         -- `fs.c.release`: `head += 1`, `unlock()`
  | cUnlocked (v : Nat)
  -- `available_elements_count` (no lock): two plain loads, `tail` first
  | lLen                       -- `fs.len`: load `tail`
  | lLenH (tl : Nat)           -- `fs.len.head`: load `head`; `tail.overflowing_sub(head).0`
  deriving DecidableEq, Repr

structure St where
  N      : Nat
  head   : Nat
  tail   : Nat
  locked : Bool
  buf    : Nat → Nat
  thr    : Nat → Loc
  accepted  : List Nat
  delivered : List (Nat × Nat × Nat)

def init (n : Nat) : St :=
  { N := n, head := 0, tail := 0, locked := false, buf := fun _ => 0, thr := fun _ => .idle, accepted := [], delivered := [] }

def setThr (s : St) (t : Nat) (l : Loc) : St :=
  { s with thr := fun u => if u = t then l else s.thr u }

def setBuf (s : St) (i v : Nat) : St :=
  { s with buf := fun j => if j = i then v else s.buf j }

def step (s : St) (t : Nat) : St :=
  match s.thr t with
  | .idle | .done _ => s
  | .pLock v | .pSpin v =>
      if s.locked then setThr s t (.pSpin v) else setThr { s with locked := true } t (.pCheck v)
  | .pCheck v =>
      if s.tail - s.head < s.N then setThr s t (.pWrite v (s.tail - s.head + 1))
      else setThr { s with locked := false } t .pFullUnlocked
  | .pFullUnlocked => setThr s t (.done .full)
  | .pWrite v len => setThr (setBuf s (s.tail % s.N) v) t (.pPublish v len)
  | .pPublish v len =>
      setThr { s with tail := s.tail + 1, locked := false, accepted := s.accepted ++ [v] } t (.pUnlocked len)
  | .pUnlocked len => setThr s t (.done (.sent len))
  | .cLock | .cSpin =>
      if s.locked then setThr s t .cSpin else setThr { s with locked := true } t .cLenT
  | .cLenT => setThr s t .cLen
  | .cLen =>
      if s.tail - s.head > 0 then setThr s t .cRead
      else setThr { s with locked := false } t .cEmptyUnlocked
  | .cEmptyUnlocked => setThr s t (.done .empty)
  | .cRead => setThr s t (.cRelease (s.buf (s.head % s.N)))
  | .cRelease v =>
      setThr { s with head := s.head + 1, locked := false, delivered := s.delivered ++ [(t, s.head, v)] } t (.cUnlocked v)
  | .cUnlocked v => setThr s t (.done (.got v))
  | .lLen => setThr s t (.lLenH s.tail)
  -- (`head` may have passed the `tail` loaded before: the `u32` difference then wraps, as the source's does)
  | .lLenH tl => setThr s t (.done (.len (U32.wsub (U32.wrap tl) (U32.wrap s.head))))

inductive Act where
  | send (t v : Nat)
  | recv (t : Nat)
  | len  (t : Nat)
  | step (t : Nat)
  | ack  (t : Nat)
  deriving DecidableEq, Repr

def apply (s : St) : Act → St
  | .send t v => if s.thr t = .idle then setThr s t (.pLock v) else s
  | .recv t   => if s.thr t = .idle then setThr s t .cLock else s
  | .len t    => if s.thr t = .idle then setThr s t .lLen else s
  | .step t   => step s t
  | .ack t    => match s.thr t with
                 | .done _ => setThr s t .idle
                 | _ => s

def run (s : St) (as : List Act) : St := as.foldl apply s

def Reachable (n : Nat) (s : St) : Prop := ∃ as, s = run (init n) as

def abs (s : St) : List Nat := s.accepted.drop s.head

def tagOf : Loc → Option (String × Nat)
  | .pLock _ => some ("fs.p.lock", 0)
  | .pSpin _ => some ("sync.spin", 0)
  | .pCheck _ => some ("fs.p.check", 0)
  | .pFullUnlocked => some ("sync.unlocked", 0)
  | .pWrite _ _ => some ("fs.p.write", 0)
  | .pPublish _ _ => some ("fs.p.publish", 0)
  | .pUnlocked _ => some ("sync.unlocked", 0)
  | .cLock => some ("fs.c.lock", 0)
  | .cSpin => some ("sync.spin", 0)
  | .cLenT => some ("fs.len", 0)
  | .cLen => some ("fs.len.head", 0)
  | .cEmptyUnlocked => some ("sync.unlocked", 0)
  | .cRead => some ("fs.c.read", 0)
  | .cRelease _ => some ("fs.c.release", 0)
  | .cUnlocked _ => some ("sync.unlocked", 0)
  | .lLen => some ("fs.len", 0)
  | .lLenH _ => some ("fs.len.head", 0)
  | _ => none

def Res.show : Res → String
  | .sent n => s!"sent {n}"
  | .full => "full"
  | .got v => s!"got {v}"
  | .empty => "empty"
  | .len n => s!"len {n}"

end Mutiny.LockRing
