import Mutiny.Model.Multi
/-!
# `cancel_all_streams()` walking `used_streams` while listeners come and go  (finding D11, property C07)
  (`/repo/src/streams_manager.rs` `cancel_all_streams`, `cancel_stream`, `sync_vacant_and_used_streams`)

The stream-id bookkeeping is model M6 (`Mutiny/Model/Multi.lean`, one step per access of `used_streams_count`, the vacant
FIFO, the flags, `streams_lock` and every single entry of `used_streams`).  On top of it, one more kind of thread: the
walker of `cancel_all_streams()`, which reads the entries of `used_streams` one by one WITHOUT taking `streams_lock`
(hook `sm.cancelall.read`), stops at the sentinel, and clears the keep-running flag of each id it read (`sm.cancel`; the
wake-up that follows is model M8's).  Import-free.
-/
namespace Mutiny.CancelAll
open Mutiny

/-- program points of the walker -/
inductive WLoc where
  | idle
  /-- `sm.cancelall.read`: about to read entry `i` -/
  | read (i : Nat)
  /-- `sm.cancel`: about to clear the flag of stream `id` (read from entry `i`) -/
  | cancel (i id : Nat)
  | done
  deriving DecidableEq, Repr

structure St where
  m : Multi.St
  w : WLoc
  /-- ghost: ids whose flag the walker cleared, in order -/
  cancelled : List Nat

inductive Act where
  /-- an action of the bookkeeping / fan-out model (create, drop, their micro-steps, …) -/
  | multi (a : Multi.Act)
  | cancelAll
  | wstep
  deriving DecidableEq, Repr

def apply (s : St) : Act → St
  | .multi a => { s with m := Multi.apply s.m a }
  | .cancelAll => if s.w = .idle then { s with w := .read 0 } else s
  | .wstep =>
      match s.w with
      | .read i =>
          let id := s.m.used.getD i s.m.MAX
          if i ≥ s.m.MAX ∨ id = s.m.MAX then { s with w := .done } else { s with w := .cancel i id }
      | .cancel i id =>
          { s with m := Multi.apply s.m (.cancel id), cancelled := s.cancelled ++ [id], w := .read (i + 1) }
      | _ => s

def run (s : St) (as : List Act) : St := as.foldl apply s
def init (mx : Nat) : St := { m := Multi.init mx 8 .arc true, w := .idle, cancelled := [] }

end Mutiny.CancelAll
