import Mutiny.Model.U32
/-!
# M1 `Ring` — small-step interleaving model of `AtomicMove<T, N>`
  (`/repo/src/ogre_std/ogre_queues/atomic/atomic_move.rs`)

One shared-memory access per `step`; program points are named after the `vp!` hook tags of the source
(`am.p.fetch`, `am.p.loadhead`, …) — the driver checks that the code and the model are at the same point with the
same register value at every step of every replayed schedule.

Counters are `Nat` here (free running, never wrapping); the `u32` arithmetic the source really performs is related to
this model by `Mutiny/Model/U32.lean` + `Mutiny/Proofs/U32.lean` (property C15).

Ghost history (`accepted`, `delivered`) is part of the state and only ever appended to.

This file is import-free so that the replay driver links as a native executable.
-/

namespace Mutiny.Ring

/-- what an operation returns (compared verbatim with the implementation's result) -/
inductive Res where
  /-- `publish_movable` accepted: `Some(len_after)`, the length up to the published element as observed after the
      publication -/
  | sent (lenAfter : Nat)
  /-- `publish_movable` rejected: `(None, Some(item))` -/
  | full
  /-- `consume_movable` → `Some(v)` -/
  | got (v : Nat)
  /-- `consume_movable` → `None` -/
  | empty
  /-- `available_elements_count` -/
  | len (n : Nat)
  /-- `leak_slot_internal` → `Some((slot #idx, _, len_before))` (the caller keeps the reservation) -/
  | reserved (idx lenBefore : Nat)
  /-- `try_publish_leaked_internal_index` → `Some(len)` / `None` (retry later) -/
  | pubIdx (r : Option Nat)
  /-- `try_unleak_slot_index_internal` -/
  | canIdx (ok : Bool)
  deriving DecidableEq, Repr

/-- program points; the registers a thread carries are the constructor arguments -/
inductive Loc where
  | idle
  /-- operation finished, result not yet picked up by the caller -/
  | done (r : Res)
  -- producer: `leak_slot_internal` (+ `publish_movable` when `rsv = false`)
  | pFetch    (v : Nat) (rsv : Bool)
  | pLoadHead (v id : Nat) (rsv : Bool)
  /-- `w` is the ghost "when `head` was last loaded, all `N` sequence numbers `head .. head+N-1` had been claimed" -/
  | pRecede   (v id : Nat) (rsv : Bool) (w : Bool)
  | pWrite    (v id len : Nat)
  | pPublish  (v id len : Nat)
  /-- `len_after_publishing`: load `head` again, after the publication (the length observed at claim time, `len`, is
      no longer used: it may be out of date by then — see DESIGN.md, D5) -/
  | pLen      (id : Nat)
  -- reservation API (`reserve_slot` … `try_send_reserved` / `try_cancel_slot_reserve`)
  /-- a reservation is outstanding (no call in progress) -/
  | rHold (id : Nat)
  /-- a call returned `r`, the reservation is still outstanding -/
  | rRet  (id : Nat) (r : Res)
  | rPub  (id idx guess : Nat)
  /-- `am.r.len`: the index-based publication succeeded on sequence number `g`; about to load `head` for the length it answers -/
  | rLen  (g : Nat)
  | rCan  (id idx guess : Nat)
  -- consumer: `consume_leaking_internal` + `consume_movable`
  | cFetch
  | cLoadTail (id : Nat)
  | cRecede   (id : Nat)
  /-- after a successful recede: load `head` … -/
  | cChkHead
  /-- … then load `tail`; `w` is the ghost "the queue was empty when `head` was loaded" -/
  | cChkTail  (h : Nat) (w : Bool)
  | cRead     (id : Nat)
  | cRelease  (id v : Nat)
  -- `available_elements_count`: load `tail` …
  | lLen
  /-- … then load `head` (`am.len.head`); the answer is the `u32` difference of the two loads -/
  | lLenH (tl : Nat)
  deriving DecidableEq, Repr

structure St where
  N        : Nat
  head     : Nat
  tail     : Nat
  enqTail  : Nat
  deqHead  : Nat
  /-- slot contents, by index `0..N-1` -/
  buf      : Nat → Nat
  thr      : Nat → Loc
  /-- ghost: the value published with sequence number `k` is `accepted[k]` -/
  accepted  : List Nat
  /-- ghost: `(thread, sequence number, value)` in release order -/
  delivered : List (Nat × Nat × Nat)

def init (n : Nat) : St :=
  { N := n, head := 0, tail := 0, enqTail := 0, deqHead := 0, buf := fun _ => 0, thr := fun _ => .idle,
    accepted := [], delivered := [] }

def setThr (s : St) (t : Nat) (l : Loc) : St :=
  { s with thr := fun u => if u = t then l else s.thr u }

def setBuf (s : St) (i v : Nat) : St :=
  { s with buf := fun j => if j = i then v else s.buf j }

/-- one micro-step of thread `t`: exactly one shared-memory access (the one following the hook point the thread is
    parked at), plus the thread-local computation up to the next hook point -/
def step (s : St) (t : Nat) : St :=
  match s.thr t with
  | .idle | .done _ | .rHold _ | .rRet _ _ => s
  -- `enqueuer_tail.fetch_add(1)`
  | .pFetch v rsv => setThr { s with enqTail := s.enqTail + 1 } t (.pLoadHead v s.enqTail rsv)
  -- `head.load()`; `len_before = slot_id - head`; `len_before < BUFFER_SIZE`?
  | .pLoadHead v id rsv =>
      if id - s.head < s.N then
        if rsv then setThr s t (.rRet id (.reserved (id % s.N) (id - s.head)))
        else setThr s t (.pWrite v id (id - s.head))
      else setThr s t (.pRecede v id rsv (decide (s.head + s.N ≤ s.enqTail)))
  -- `enqueuer_tail.compare_exchange(slot_id+1, slot_id)`
  | .pRecede v id rsv _ =>
      if s.enqTail = id + 1 then setThr { s with enqTail := id } t (.done .full)
      else setThr s t (.pLoadHead v id rsv)
  -- `ptr::write(slot_ref, item)`
  | .pWrite v id len => setThr (setBuf s (id % s.N) v) t (.pPublish v id len)
  -- `tail.compare_exchange(slot_id, slot_id+1)` (spins on failure)
  | .pPublish v id len =>
      if s.tail = id then setThr { s with tail := id + 1, accepted := s.accepted ++ [v] } t (.pLen id)
      else s
  -- `head.load()`; `max(1, (slot_id + 1 - head) as i32)`
  | .pLen id => setThr s t (.done (.sent (max 1 (id + 1 - s.head))))
  -- `try_publish_leaked_internal_index`: CAS `tail` with the guessed id; re-guess from the lap of the reloaded tail
  | .rPub id idx g =>
      if s.tail = g then
        setThr { s with tail := g + 1, accepted := s.accepted ++ [s.buf idx] } t (.rLen g)
      else if s.tail / s.N > g / s.N then setThr s t (.rPub id idx (idx + (s.tail / s.N) * s.N))
      else setThr s t (.rRet id (.pubIdx none))
  -- `u32::max(1, previous_tail.overflowing_sub(head.load()).0)`: `head` is loaded AFTER the publication (no signed clamp here: when
  -- consumers moved `head` past `g` in between, the `u32` difference wraps and the answer is a huge number)
  | .rLen g => setThr s t (.done (.pubIdx (some (max 1 (U32.wsub (U32.wrap g) (U32.wrap s.head))))))
  -- `try_unleak_slot_index_internal`: CAS `enqueuer_tail` back; re-guess from the lap of `enqueuer_tail - 1`
  | .rCan id idx g =>
      if s.enqTail = g + 1 then setThr { s with enqTail := g } t (.done (.canIdx true))
      else if (s.enqTail - 1) / s.N > g / s.N then setThr s t (.rCan id idx (idx + ((s.enqTail - 1) / s.N) * s.N))
      else setThr s t (.rRet id (.canIdx false))
  -- `dequeuer_head.fetch_add(1)`
  | .cFetch => setThr { s with deqHead := s.deqHead + 1 } t (.cLoadTail s.deqHead)
  -- `tail.load()`; `(tail - slot_id) as i32 > 0`?
  | .cLoadTail id =>
      if id < s.tail then setThr s t (.cRead id) else setThr s t (.cRecede id)
  -- `dequeuer_head.compare_exchange(slot_id+1, slot_id)`
  | .cRecede id =>
      if s.deqHead = id + 1 then setThr { s with deqHead := id } t .cChkHead
      else setThr s t (.cLoadTail id)
  -- `head.load()`
  | .cChkHead => setThr s t (.cChkTail s.head (decide (s.head = s.tail)))
  -- `tail.load() == head`?  report empty : claim again
  | .cChkTail h _ =>
      if s.tail = h then setThr s t (.done .empty) else setThr s t .cFetch
  -- `ptr::read(slot_ref)`
  | .cRead id => setThr s t (.cRelease id (s.buf (id % s.N)))
  -- `head.compare_exchange(slot_id, slot_id+1)` (spins on failure)
  | .cRelease id v =>
      if s.head = id then
        setThr { s with head := id + 1, delivered := s.delivered ++ [(t, id, v)] } t (.done (.got v))
      else s
  -- `tail.load()` …
  | .lLen => setThr s t (.lLenH s.tail)
  -- … `.overflowing_sub(head.load()).0`: two loads at two instants; when receives moved `head` past the loaded `tail` in
  -- between, the `u32` difference wraps (the code does answer 4294967295 then)
  | .lLenH tl => setThr s t (.done (.len (U32.wsub (U32.wrap tl) (U32.wrap s.head))))

/-- actions of the environment + scheduler -/
inductive Act where
  | send    (t v : Nat)
  | recv    (t : Nat)
  | len     (t : Nat)
  | reserve (t : Nat)
  /-- write `v` through the reserved slot reference (thread-local until publication) -/
  | fill    (t v : Nat)
  | pubIdx  (t : Nat)
  | canIdx  (t : Nat)
  /-- the scheduler lets thread `t` perform its next shared access -/
  | step    (t : Nat)
  /-- the caller picks up the result -/
  | ack     (t : Nat)
  deriving DecidableEq, Repr

def apply (s : St) : Act → St
  | .send t v  => if s.thr t = .idle then setThr s t (.pFetch v false) else s
  | .recv t    => if s.thr t = .idle then setThr s t .cFetch else s
  | .len t     => if s.thr t = .idle then setThr s t .lLen else s
  | .reserve t => if s.thr t = .idle then setThr s t (.pFetch 0 true) else s
  | .fill t v  => match s.thr t with
                  | .rHold id => setBuf s (id % s.N) v
                  | _ => s
  | .pubIdx t  => match s.thr t with
                  | .rHold id => setThr s t (.rPub id (id % s.N) (id % s.N))
                  | _ => s
  | .canIdx t  => match s.thr t with
                  | .rHold id => setThr s t (.rCan id (id % s.N) (id % s.N))
                  | _ => s
  | .step t    => step s t
  | .ack t     => match s.thr t with
                  | .done _ => setThr s t .idle
                  | .rRet id _ => setThr s t (.rHold id)
                  | _ => s

def run (s : St) (as : List Act) : St := as.foldl apply s

/-- every state some execution reaches from the empty ring of size `n` -/
def Reachable (n : Nat) (s : St) : Prop := ∃ as, s = run (init n) as

/-- the abstract queue content: published and not yet released -/
def abs (s : St) : List Nat := (s.accepted.drop s.head)

/-- hook tag of the program point a thread is parked at (`none`: not inside a step-able point) and the register the
    hook reports -/
def tagOf : Loc → Option (String × Nat)
  | .pFetch _ _        => some ("am.p.fetch", 0)
  | .pLoadHead _ id _  => some ("am.p.loadhead", id)
  | .pRecede _ id _ _  => some ("am.p.recede", id)
  | .pWrite _ id _     => some ("am.p.write", id)
  | .pPublish _ id _   => some ("am.p.publish", id)
  | .pLen id           => some ("am.p.len", id)
  | .rPub _ _ g        => some ("am.r.publish", g)
  | .rLen g            => some ("am.r.len", g)
  | .rCan _ _ g        => some ("am.r.cancel", g)
  | .cFetch            => some ("am.c.fetch", 0)
  | .cLoadTail id      => some ("am.c.loadtail", id)
  | .cRecede id        => some ("am.c.recede", id)
  | .cChkHead          => some ("am.c.chkhead", 0)
  | .cChkTail h _      => some ("am.c.chktail", h)
  | .cRead id          => some ("am.c.read", id)
  | .cRelease id _     => some ("am.c.release", id)
  | .lLen              => some ("am.len", 0)
  | .lLenH _           => some ("am.len.head", 0)
  | _ => none

def Res.show : Res → String
  | .sent n => s!"sent {n}"
  | .full => "full"
  | .got v => s!"got {v}"
  | .empty => "empty"
  | .len n => s!"len {n}"
  | .reserved i l => s!"reserved {i} {l}"
  | .pubIdx (some n) => s!"pubidx {n}"
  | .pubIdx none => "pubidx none"
  | .canIdx b => s!"canidx {b}"

end Mutiny.Ring
