/-!
# M10 + M11 `Exec` — stream executors: per-item accounting, life cycle, graceful close
  (`/repo/src/stream_executor.rs` the four `spawn_*executor` kinds; `/repo/src/uni/uni.rs` `close`, `latch_callback_1p`;
   `/repo/src/streams_manager.rs` `end_all_streams`; `/repo/src/multi/multi.rs` close callbacks / sequential transition)

Three small machines (tokio's scheduler, `futures::StreamExt::for_each{,_concurrent}` and `tokio::time::timeout` are
external: their documented contracts are the *rules* below, named in the trusted base):

* `classify` / `account`: which counter an item's outcome feeds and whether the error callback fires (C11);
* `Ev`, `stepEv`, `accepts`: an event machine over the *observable* events of one executor and its channel
  (accepted / yielded / finished / close called / close returned / close callback): the real runs' event logs must be
  accepted by it (history-level correspondence), and the theorems say what every accepted log satisfies (C06, C12);
* `Status`, `latch`: the executor status word and the Uni's close-callback latch (C12).
Import-free.
-/

namespace Mutiny.Exec

/-! ### per-item accounting (C11) -/

/-- the four executor kinds -/
inductive Variant where
  /-- `spawn_executor`: items are futures of `Result` -/
  | futFallible
  /-- `spawn_futures_executor`: items are futures -/
  | fut
  /-- `spawn_fallibles_executor`: items are `Result`s -/
  | fallible
  /-- `spawn_non_futures_non_fallibles_executor` -/
  | plain
  deriving DecidableEq, Repr

/-- what an item does -/
inductive Outcome where
  | ok
  | err
  /-- takes longer than the configured timeout, then would succeed -/
  | slow
  /-- takes longer than the configured timeout, then would fail -/
  | slowErr
  deriving DecidableEq, Repr

inductive Effect where | ok | failed | timedOut
  deriving DecidableEq, Repr

/-- outcomes an item of this variant can have -/
def admissible : Variant → Outcome → Bool
  | .futFallible, _ => true
  | .fut, .ok | .fut, .slow => true
  | .fallible, .ok | .fallible, .err => true
  | .plain, .ok => true
  | _, _ => false

/-- the counter fed and whether `on_err_callback` is invoked (`timeout` = a non-zero futures timeout is configured) -/
def classify (v : Variant) (timeout : Bool) : Outcome → Effect × Bool
  | .ok => (.ok, false)
  | .err => (.failed, true)
  | .slow => if timeout && (v = .futFallible || v = .fut) then (.timedOut, false) else (.ok, false)
  | .slowErr => if timeout && (v = .futFallible || v = .fut) then (.timedOut, false) else (.failed, true)

structure Counts where
  ok : Nat := 0
  failed : Nat := 0
  timedOut : Nat := 0
  onErr : Nat := 0
  deriving DecidableEq, Repr

def Counts.add (c : Counts) : Effect × Bool → Counts
  | (.ok, e) => { c with ok := c.ok + 1, onErr := c.onErr + (if e then 1 else 0) }
  | (.failed, e) => { c with failed := c.failed + 1, onErr := c.onErr + (if e then 1 else 0) }
  | (.timedOut, e) => { c with timedOut := c.timedOut + 1, onErr := c.onErr + (if e then 1 else 0) }

/-- the executor processes EVERY item of the stream (a failed or timed-out item does not stop the fold) -/
def account (v : Variant) (timeout : Bool) (items : List Outcome) : Counts :=
  items.foldl (fun c o => c.add (classify v timeout o)) {}

/-! ### event machine of one executor + its channel (C06, C12) -/

structure Cfg where
  /-- item futures exist (`spawn_executor`, `spawn_futures_executor`); otherwise an item is processed inside the poll -/
  futures : Bool
  /-- `concurrency_limit` (1 ⇒ `for_each`, else `for_each_concurrent(limit)`) -/
  limit : Nat
  deriving DecidableEq, Repr

inductive Ev where
  /-- a send reported success -/
  | accepted (i : Nat)
  /-- the stream yielded event `i` to the pipeline (for non-future items this is also its processing) -/
  | yielded (i : Nat)
  /-- the item future of `i` completed (or was cancelled by the timeout) -/
  | finished (i : Nat)
  /-- `close(timeout)` was called (several calls may be outstanding) -/
  | closeCalled
  /-- a `close()` returned `true` -/
  | closeReturned
  /-- the executor's close callback ran -/
  | callback
  /-- the end signal was given from outside a graceful close: `cancel_all_streams()` -/
  | cancelAll
  /-- a bounded `close(timeout)` gave up and returned `false` (it has called `cancel_all_streams()` by then) -/
  | closeExpired
  deriving DecidableEq, Repr

structure St where
  pending  : List Nat := []
  inflight : List Nat := []
  finished : List Nat := []
  /-- events accepted before `closeCalled` -/
  beforeClose : List Nat := []
  closing  : Bool := false
  /-- the end signal was given while events may still be pending (`cancelAll`, `closeExpired`) -/
  signalled : Bool := false
  /-- close calls that have not returned yet -/
  closes   : Nat := 0
  /-- the streams were told to end with nothing pending: either the flush of a close saw nothing pending and called
      `cancel_all_streams`, or an earlier end signal is in effect and the queue ran empty -/
  cancelled : Bool := false
  /-- the `MutinyStream` was dropped (`running_streams_count` went to 0) -/
  dropped  : Bool := false
  closed   : Bool := false
  callbacks : Nat := 0
  deriving DecidableEq, Repr

/-- internal (unobservable) steps, fired as soon as they are enabled:
    * the flush of `end_all_streams` finds nothing pending → `cancel_all_streams` (or: an end signal given earlier is in effect
      and the queue ran empty);
    * the cancelled stream answers end-of-stream once nothing is buffered; `for_each` (limit 1) then waits for the item
      future in flight before it returns and the stream is dropped, `for_each_concurrent` drops the source stream as soon
      as it ends — item futures may still be in flight -/
def settle (c : Cfg) (s : St) : St :=
  let s1 := if (s.closing || s.signalled) && !s.cancelled && s.pending.isEmpty then { s with cancelled := true } else s
  if s1.cancelled && !s1.dropped && s1.pending.isEmpty && (c.limit > 1 || s1.inflight.isEmpty) then { s1 with dropped := true } else s1

def stepEv (c : Cfg) (s : St) : Ev → Option St
  | .accepted i => some (settle c { s with pending := s.pending ++ [i], beforeClose := if s.closing || s.signalled then s.beforeClose else s.beforeClose ++ [i] })
  | .yielded i =>
      match s.pending with
      | j :: rest =>
          if j = i ∧ !s.dropped ∧ (!c.futures ∨ s.inflight.length < max c.limit 1) then
            if c.futures then some (settle c { s with pending := rest, inflight := s.inflight ++ [i] })
            else some (settle c { s with pending := rest, finished := s.finished ++ [i] })
          else none
      | [] => none
  | .finished i =>
      if i ∈ s.inflight then some (settle c { s with inflight := s.inflight.erase i, finished := s.finished ++ [i] }) else none
  | .closeCalled => some (settle c { s with closing := true, closes := s.closes + 1 })
  | .closeReturned => if s.closes > 0 ∧ s.closing ∧ s.dropped then some { s with closed := true, closes := s.closes - 1 } else none
  | .cancelAll => some (settle c { s with signalled := true })
  | .closeExpired => if s.closes > 0 then some (settle c { s with signalled := true, closes := s.closes - 1 }) else none
  | .callback =>
      -- after `for_each*` completed: stream ended and nothing in flight
      if s.dropped ∧ s.inflight.isEmpty ∧ s.callbacks = 0 then some { s with callbacks := 1 } else none

def runEv (c : Cfg) (s : St) : List Ev → Option St
  | [] => some s
  | e :: es => match stepEv c s e with
               | some s' => runEv c s' es
               | none => none

/-- the log is a behaviour of the machine -/
def accepts (c : Cfg) (es : List Ev) : Bool := (runEv c {} es).isSome

/-- the property of C06 evaluated on a final state: when close returned, every event accepted before the call is processed -/
def closeOk (s : St) : Bool := !s.closed || s.beforeClose.all (fun i => s.finished.contains i)

/-! ### status word and latch (C12) -/

inductive Status where | notStarted | running | scheduledToFinish | programmaticallyEnded | streamEnded
  deriving DecidableEq, Repr

/-- `register_execution_finish`: `Running → StreamEnded`, `ScheduledToFinish → ProgrammaticallyEnded` (spins otherwise) -/
def finish : Status → Option Status
  | .running => some .streamEnded
  | .scheduledToFinish => some .programmaticallyEnded
  | _ => none

def isEnded : Status → Bool
  | .streamEnded | .programmaticallyEnded => true
  | _ => false

/-- `latch_callback_1p`: each of the `n` executors calls it once; `fetch_sub` returning 1 fires the user callback.
    State = remaining count; result = whether this call fires. -/
def latch (remaining : Nat) : Nat × Bool := (remaining - 1, remaining == 1)

/-- folding `k` calls from a latch of `n`: number of times the user callback fired -/
def latchFires (n : Nat) : Nat → Nat
  | 0 => 0
  | k + 1 => (if (n - k) == 1 then 1 else 0) + latchFires n k

end Mutiny.Exec
