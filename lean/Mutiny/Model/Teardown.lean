/-!
# Teardown (region) model for C05

A channel struct is dropped field by field in declaration order.  Dropping the field that owns the pool frees the pool
memory; dropping a field that still buffers `k > 0` pooled handles runs `OgreArc::drop` for each of them, which calls
`allocator.dealloc_id` — `drop_in_place` on the pool slot and a push onto the pool's free list: an access to the pool.
A pool access after the pool was freed is an error (use after free).
The field orders themselves are *generated* from `/repo`'s current source (`Mutiny/Generated/DropOrder.lean`).
Import-free.
-/
namespace Mutiny.Teardown

inductive Role where | allocator | handles | other
  deriving DecidableEq, Repr

structure TState where
  poolFreed : Bool := false
  /-- pool accesses performed after the pool was freed -/
  errors    : Nat := 0
  /-- buffered handles destroyed -/
  dropped   : Nat := 0
  deriving DecidableEq, Repr

/-- drop one field; `k` = number of handles each handle-holding field still buffers -/
def dropField (k : Nat) (st : TState) : Role → TState
  | .allocator => { st with poolFreed := true }
  | .handles   => { st with dropped := st.dropped + k, errors := if st.poolFreed then st.errors + k else st.errors }
  | .other     => st

def teardown (fields : List Role) (k : Nat) : TState := fields.foldl (dropField k) {}

/-- the decidable criterion: no handle-holding field is declared after the allocator -/
def orderOk : List Role → Bool
  | [] => true
  | .allocator :: rest => !rest.contains .handles
  | _ :: rest => orderOk rest

end Mutiny.Teardown
