import Mutiny.Model.Ring
/-!
# M4 `ZeroCopy` — `AtomicZeroCopy<T, OgreArrayPoolAllocator<T, AtomicMove<u32,N>, N>, N>` and the stand-alone
  `ogre_queues::atomic::NonBlockingQueue` built on it
  (`/repo/src/ogre_std/ogre_queues/atomic/atomic_zero_copy.rs`, `.../atomic/non_blocking_queue.rs`,
   `/repo/src/ogre_std/ogre_alloc/ogre_array_pool_allocator.rs`)

Two instances of ring model M1, composed exactly as the source composes them, at the same micro-step granularity:
* `free` — the pool's free list, a ring of slot ids that starts full (`0..N-1`);
* `q`    — the queue proper, a ring of slot ids;
* `pool` — the payload slots.
`enqueue v`  = `free.consume` (allocate an id) ; write `pool[id] := v` ; `q.publish id`.
`dequeue`    = `q.consume` (an id) ; read `pool[id]` ; `dealloc_id`: (`pa.dealloc.drop`) destructor ; (`pa.dealloc.free`) `free.publish id`.
A thread's position inside a ring operation is the ring's own `thr t`; the phase (which ring, what comes next) is `ZLoc`.
The hook tags of the two rings are the same (`am.*`); they are told apart by the phase: during an enqueue the consumer
tags belong to `free` and the producer tags to `q`, during a dequeue it is the other way round.  Import-free apart from M1.
-/

namespace Mutiny.ZeroCopy
open Mutiny

inductive Res where
  | enq (lenAfter : Nat)
  | full
  | deq (v : Nat)
  | empty
  | len (n : Nat)
  deriving DecidableEq, Repr

inductive ZLoc where
  | idle
  | done (r : Res)
  /-- enqueue, phase 1: `free.consume_movable()` in progress -/
  | eAlloc (v : Nat)
  /-- enqueue, phase 2: slot `id` written, `q.publish_movable(id)` in progress -/
  | ePub (v id : Nat)
  /-- enqueue, phase 3: `id` is published; `q`'s `len_after_publishing` (the length `publish_movable` reports) -/
  | ePubLen (v : Nat)
  /-- dequeue, phase 1: `q.consume_movable()` in progress -/
  | dCons
  /-- dequeue: `q` handed out `id`; at `am.len` (`consume` reports the length after dequeueing), then the payload is read -/
  | dLen (id : Nat)
  /-- the second load of that length query (`am.len.head`); then the payload is read -/
  | dLenH (id : Nat)
  /-- dequeue: value read from slot `id`; at `pa.dealloc.drop` -/
  | dDrop (id v : Nat)
  /-- at `pa.dealloc.free` -/
  | dFreeHook (id v : Nat)
  /-- dequeue, last phase: `free.publish_movable(id)` in progress -/
  | dFree (id v : Nat)
  /-- dequeue: `id` is back in the free list; the free list's `len_after_publishing` -/
  | dFreeLen (v : Nat)
  /-- `available_elements_count` of the queue ring -/
  | lLen
  /-- … its second load (`am.len.head`) -/
  | lLenH (tl : Nat)
  deriving DecidableEq, Repr

structure St where
  N    : Nat
  free : Ring.St
  q    : Ring.St
  pool : Nat → Nat
  thr  : Nat → ZLoc
  /-- ghost: values in the order their enqueue was accepted (`q`'s publication order) -/
  enqLog : List Nat
  /-- ghost: values in the order they were taken out of `q` -/
  deqLog : List Nat

/-- the free list starts with all ids published: as if `0, 1, …, N-1` had been sent to an empty ring -/
def fullRing (n : Nat) : Ring.St :=
  { Ring.init n with tail := n, enqTail := n, buf := fun i => i, accepted := List.range n }

def init (n : Nat) : St :=
  { N := n, free := fullRing n, q := Ring.init n, pool := fun _ => 0, thr := fun _ => .idle, enqLog := [], deqLog := [] }

def setThr (s : St) (t : Nat) (l : ZLoc) : St := { s with thr := fun u => if u = t then l else s.thr u }

/-- one micro-step of thread `t`: a step of the ring the current phase works on; when that ring operation finishes, the
    glue code up to the next hook point runs in the same step -/
def step (s : St) (t : Nat) : St :=
  match s.thr t with
  | .idle | .done _ => s
  | .eAlloc v =>
      let f := Ring.step s.free t
      match f.thr t with
      | .done (.got id) =>
          -- `alloc_ref` returned `id`: write the payload, start `q.publish_movable(id)`
          setThr { s with free := Ring.apply f (.ack t), pool := fun j => if j = id then v else s.pool j,
                          q := Ring.apply s.q (.send t id) } t (.ePub v id)
      | .done .empty => setThr { s with free := Ring.apply f (.ack t) } t (.done .full)
      | _ => { s with free := f }
  | .ePub v id =>
      let q' := Ring.step s.q t
      match q'.thr t with
      -- the publication CAS succeeded
      | .pLen _ => setThr { s with q := q', enqLog := s.enqLog ++ [v] } t (.ePubLen v)
      -- `publish_leaked_id` answering `None` is the `panic!("BUG…")` / `unwrap` branch of the callers
      | .done .full => setThr { s with q := Ring.apply q' (.ack t) } t (.done .full)
      | _ => { s with q := q' }
  | .ePubLen v =>
      let q' := Ring.step s.q t
      match q'.thr t with
      | .done (.sent len) => setThr { s with q := Ring.apply q' (.ack t) } t (.done (.enq len))
      | _ => { s with q := q' }
  | .dCons =>
      let q' := Ring.step s.q t
      match q'.thr t with
      | .done (.got id) => setThr { s with q := Ring.apply q' (.ack t) } t (.dLen id)
      | .done .empty => setThr { s with q := Ring.apply q' (.ack t) } t (.done .empty)
      | _ => { s with q := q' }
  | .dLen id => setThr s t (.dLenH id)
  | .dLenH id => setThr { s with deqLog := s.deqLog ++ [s.pool id] } t (.dDrop id (s.pool id))
  | .dDrop id v => setThr s t (.dFreeHook id v)
  | .dFreeHook id v => setThr { s with free := Ring.apply s.free (.send t id) } t (.dFree id v)
  | .dFree id v =>
      let f := Ring.step s.free t
      match f.thr t with
      | .pLen _ => setThr { s with free := f } t (.dFreeLen v)
      | .done .full => setThr { s with free := Ring.apply f (.ack t) } t (.done (.deq v))
      | _ => { s with free := f }
  | .dFreeLen v =>
      let f := Ring.step s.free t
      match f.thr t with
      | .done (.sent _) => setThr { s with free := Ring.apply f (.ack t) } t (.done (.deq v))
      | _ => { s with free := f }
  | .lLen => setThr s t (.lLenH s.q.tail)
  | .lLenH tl => setThr s t (.done (.len (U32.wsub (U32.wrap tl) (U32.wrap s.q.head))))

inductive Act where
  | enqueue (t v : Nat)
  | dequeue (t : Nat)
  | len (t : Nat)
  | step (t : Nat)
  | ack (t : Nat)
  deriving DecidableEq, Repr

def apply (s : St) : Act → St
  | .enqueue t v => if s.thr t = .idle then setThr { s with free := Ring.apply s.free (.recv t) } t (.eAlloc v) else s
  | .dequeue t   => if s.thr t = .idle then setThr { s with q := Ring.apply s.q (.recv t) } t .dCons else s
  | .len t       => if s.thr t = .idle then setThr s t .lLen else s
  | .step t      => step s t
  | .ack t       => match s.thr t with
                    | .done _ => setThr s t .idle
                    | _ => s

def run (s : St) (as : List Act) : St := as.foldl apply s
def Reachable (n : Nat) (s : St) : Prop := ∃ as, s = run (init n) as

/-- the abstract queue: the payloads of the ids published in `q` and not yet released from it -/
def abs (s : St) : List Nat := (Ring.abs s.q).map s.pool

def tagOf (s : St) (t : Nat) : Option (String × Nat) :=
  match s.thr t with
  | .eAlloc _ | .dFree _ _ | .dFreeLen _ => Ring.tagOf (s.free.thr t)
  | .ePub _ _ | .ePubLen _ | .dCons => Ring.tagOf (s.q.thr t)
  | .dLen _ => some ("am.len", 0)
  | .dLenH _ => some ("am.len.head", 0)
  | .dDrop id _ => some ("pa.dealloc.drop", id)
  | .dFreeHook id _ => some ("pa.dealloc.free", id)
  | .lLen => some ("am.len", 0)
  | .lLenH _ => some ("am.len.head", 0)
  | _ => none

def Res.show : Res → String
  | .enq _ => "enq true"
  | .full => "enq false"
  | .deq v => s!"deq {v}"
  | .empty => "deq none"
  | .len n => s!"len {n}"

end Mutiny.ZeroCopy
