/-!
# M8 `Wake` — a Uni channel as its streams and producers see it: the poll / park / wake protocol
  (`/repo/src/mutiny_stream.rs` `poll_next`; `/repo/src/streams_manager.rs` `wake_stream`, `register_stream_waker`,
   `keep_stream_running`, `cancel_stream`; the send paths of `/repo/src/uni/channels/*/*.rs`)

Granularity: the event queue is an exact bounded FIFO whose operations are single steps (the rings underneath are models
M1/M2, linearizable by C02); every access to `wakers[..]`, `keep_streams_running[..]` and `wakers_lock` is its own step —
one per `vp!` hook of `streams_manager.rs` / `mutiny_stream.rs` (`ms.poll`, `sm.flag`, `sm.reg.cmp`, `sm.reg.lock`,
`sm.reg.store`, `sm.reg.selfwake`, `sm.wake`, `sm.wake.lock`, `sm.wake.retry`, `sm.cancel`, `sync.spin`).

Streams `0 .. k-1` exist for the whole execution (the documented use of a Uni channel).  Each stream is driven by one
task; a task's waker is a *token*; `notified tok` is what `wake()` on that token sets and what the executor clears when it
polls the task again.  A parked task is polled again only if its token was notified — or spuriously (`Act.poll` on a
parked, un-notified task, optionally with a fresh token), which any executor may do.

Channel flavours differ only in *whom a producer wakes* and in what an asynchronous send holds while suspended.

The channels over the two-phase ring `AtomicMove` (uni movable / zero-copy atomic, Multi atomic) do not publish at the
call: `Act.claim` takes a sequence number, the publication happens in claim order (`PLoc.pClm`, the `tail` CAS) and the
length that decides the wake-up is measured afterwards by a fresh load of `head` (`PLoc.pSmp`, `len_after_publishing`).
At the coarse replay granularity (ring hooks are not yield points) the driver runs the three steps back to back.
Import-free.
-/

namespace Mutiny.Wake

/-- whom to wake after an event was published, as a function of the observed length -/
inductive Rule where
  /-- uni movable/zero-copy **full-sync**: `len_after ≤ MAX → wake(len_after-1)` -/
  | fs
  /-- uni movable/zero-copy **atomic**: additionally `len_after = MAX+1 → wake(len_after-2)` -/
  | atomic
  /-- `try_send_reserved` (as repaired, see DESIGN.md D5d): `len ≤ MAX → wake(len-1)`; the pinned source woke
      `len % MAX`, a stream that need not exist -/
  | rsv
  /-- uni **crossbeam** `send`: `len_before ≤ 2 → wake(0)` (length read before the insertion) -/
  | cb
  /-- a listener of a Multi **atomic** channel (arc / ogre_arc): `len_after ≤ 2 → wake(that listener)` -/
  | m2
  /-- a listener of a Multi **full-sync** channel: `len_after ≤ 1 → wake(that listener)` -/
  | m1
  /-- a listener of the **log (mmap)** Multi channel: every listed listener is woken after every publication -/
  | all
  deriving DecidableEq, Repr

/-- the channel's queue is the two-phase ring `AtomicMove`: publication and length measurement are separate steps -/
def Rule.twoPhase : Rule → Bool
  | .atomic | .m2 => true
  | _ => false

def Rule.target (r : Rule) (MAX lenAfter : Nat) : Option Nat :=
  match r with
  | .fs     => if lenAfter ≤ MAX then some (lenAfter - 1) else none
  | .atomic => if lenAfter ≤ MAX then some (lenAfter - 1) else if lenAfter = MAX + 1 then some (lenAfter - 2) else none
  | .rsv    => if lenAfter ≤ MAX then some (lenAfter - 1) else none
  | .cb     => if lenAfter - 1 ≤ 2 then some 0 else none
  | .m2     => if lenAfter ≤ 2 then some 0 else none
  | .m1     => if lenAfter ≤ 1 then some 0 else none
  | .all    => some 0

inductive Res where
  | ok
  | full
  | unit
  deriving DecidableEq, Repr

/-- producer-side program points -/
inductive PLoc where
  | idle
  | done (r : Res)
  /-- movable channels' `send_with_async`: slot reserved with `lenBefore` observed, setter suspended -/
  | aSusp (v lenBefore : Nat)
  /-- zero-copy channels' `send_with_async`: pool slot allocated, setter suspended -/
  | zSusp (v : Nat)
  /-- channels over the two-phase ring (`AtomicMove`): sequence number `slot` claimed and the payload written; at
      `am.p.publish`: publish once every earlier claim is published (spins until then) -/
  | pClm (v slot : Nat) (r : Rule)
  /-- … published; at `am.p.len` (`len_after_publishing`): load `head`, then decide whom to wake by rule `r` (the entry
      point's own: `send` / `send_with` use the channel's rule, the movable atomic `send_with_async` the plain window) -/
  | pSmp (slot : Nat) (r : Rule)
  /-- `sm.wake`: read `wakers[j]` -/
  | wWake (j : Nat) (r : Res)
  /-- `sm.wake.lock`: about to take `wakers_lock` -/
  | wLock (j : Nat) (r : Res)
  /-- `sync.spin` -/
  | wSpin (j : Nat) (r : Res)
  /-- `sm.wake.retry`: read again under the lock, release it -/
  | wRetry (j : Nat) (r : Res)
  /-- `sm.cancel`: `keep_streams_running[j] = false`, then `wake_stream(j)` -/
  | cCancel (j : Nat)
  deriving DecidableEq, Repr

/-- stream-task program points -/
inductive SLoc where
  /-- will be polled (first poll, or it just yielded an item) -/
  | ready
  /-- returned `Pending` -/
  | parked
  /-- `ms.poll`: about to call `consume` -/
  | sPoll
  /-- `sm.flag`: about to read `keep_streams_running[j]` -/
  | sFlag
  /-- `sm.reg.cmp`: about to compare `wakers[j]` with the task's waker -/
  | sCmp
  | sLock          -- `sm.reg.lock`
  | sSpin          -- `sync.spin`
  | sStore         -- `sm.reg.store`: store the waker, release the lock
  | sSelfWake      -- `sm.reg.selfwake`
  /-- answered end-of-stream -/
  | ended
  -- the stream object is dropped (`report_stream_dropped`): forget the waker under `wakers_lock`, then re-sync the
  -- stream-id lists under `streams_lock`
  | dLock          -- `sm.drop.lock`
  | dSpin          -- `sync.spin`
  | dWaker         -- `sm.drop.waker`: `wakers[j] = None`, release the lock
  | dSyncLock      -- `sm.sync.lock`
  | dSyncSpin      -- `sync.spin`
  | dSync          -- `sm.sync.peek`: rebuild the lists, release `streams_lock`
  | dropped
  deriving DecidableEq, Repr

structure St where
  N     : Nat
  MAX   : Nat
  /-- streams `0..k-1` exist -/
  k     : Nat
  rule  : Rule
  /-- capacity also counts delivered-but-unreleased payload handles (zero-copy channels) -/
  zc    : Bool
  q     : List Nat
  /-- outstanding movable-async reservations, oldest first: `(producer thread, value)` -/
  resv  : List (Nat × Nat)
  /-- pool slots held outside the queue: allocated-and-suspended async sends + delivered, unreleased handles -/
  held  : Nat
  waker : Nat → Option Nat
  keep  : Nat → Bool
  wlock : Bool
  /-- `streams_lock` -/
  slock : Bool
  /-- the token (waker identity) of the task driving stream `j` -/
  tok   : Nat → Nat
  notified : Nat → Bool
  sloc  : Nat → SLoc
  thr   : Nat → PLoc
  /-- ghost -/
  accepted  : List Nat
  delivered : List (Nat × Nat)
  /-- ghost: every `wake()` performed: `(token)` -/
  wakeLog   : List Nat

def init (n mx k : Nat) (rule : Rule) (zc : Bool) : St :=
  { N := n, MAX := mx, k := k, rule := rule, zc := zc, q := [], resv := [], held := 0,
    waker := fun _ => none, keep := fun j => decide (j < k), wlock := false, slock := false, tok := fun j => j,
    notified := fun _ => false, sloc := fun _ => .ready, thr := fun _ => .idle,
    accepted := [], delivered := [], wakeLog := [] }

def setThr (s : St) (t : Nat) (l : PLoc) : St := { s with thr := fun u => if u = t then l else s.thr u }
def setS (s : St) (j : Nat) (l : SLoc) : St := { s with sloc := fun u => if u = j then l else s.sloc u }
def notify (s : St) (tk : Nat) : St :=
  { s with notified := fun u => if u = tk then true else s.notified u, wakeLog := s.wakeLog ++ [tk] }

/-- slots in use -/
def used (s : St) : Nat := s.q.length + s.resv.length + (if s.zc then s.held else 0)

/-- the wake decision after a publication that observed `lenAfter` -/
def afterPublishR (s : St) (r : Rule) (t len : Nat) : St :=
  match r.target s.MAX len with
  | some j => setThr s t (.wWake j .ok)
  | none => setThr s t (.done .ok)

def afterPublish (s : St) (t lenAfter : Nat) : St :=
  match s.rule.target s.MAX lenAfter with
  | some j => setThr s t (.wWake j .ok)
  | none => setThr s t (.done .ok)

/-- one step of producer thread `t` -/
def stepP (s : St) (t : Nat) : St :=
  match s.thr t with
  | .idle | .done _ | .aSusp _ _ | .zSusp _ => s
  -- the in-order publication CAS: succeeds only for the oldest outstanding claim
  | .pClm v _ r =>
      match s.resv with
      | (t', _) :: rest =>
          if t' = t then
            setThr { s with q := s.q ++ [v], resv := rest, accepted := s.accepted ++ [v] } t (.pSmp s.accepted.length r)
          else s
      | [] => s
  -- `max(1, slot + 1 - head)`: the elements up to and including the own one that nobody took yet
  | .pSmp slot r => afterPublishR s r t (max 1 (slot + 1 - s.delivered.length))
  | .wWake j r =>
      match s.waker j with
      | some tk => setThr (notify s tk) t (.done r)
      | none => setThr s t (.wLock j r)
  | .wLock j r | .wSpin j r =>
      if s.wlock then setThr s t (.wSpin j r) else setThr { s with wlock := true } t (.wRetry j r)
  | .wRetry j r =>
      let s1 := match s.waker j with
                | some tk => notify s tk
                | none => s
      setThr { s1 with wlock := false } t (.done r)
  | .cCancel j => setThr { s with keep := fun u => if u = j then false else s.keep u } t (.wWake j .unit)

/-- one step of the task of stream `j` -/
def stepS (s : St) (j : Nat) : St :=
  match s.sloc j with
  | .ready | .parked | .ended | .dropped => s
  | .dLock | .dSpin => if s.wlock then setS s j .dSpin else setS { s with wlock := true } j .dWaker
  | .dWaker => setS { s with waker := fun u => if u = j then none else s.waker u, wlock := false } j .dSyncLock
  | .dSyncLock | .dSyncSpin => if s.slock then setS s j .dSyncSpin else setS { s with slock := true } j .dSync
  | .dSync => setS { s with slock := false } j .dropped
  | .sPoll =>
      match s.q with
      | v :: rest =>
          setS { s with q := rest, delivered := s.delivered ++ [(j, v)], held := if s.zc then s.held + 1 else s.held } j .ready
      | [] => setS s j .sFlag
  | .sFlag => if s.keep j then setS s j .sCmp else setS s j .ended
  | .sCmp => if s.waker j = some (s.tok j) then setS s j .parked else setS s j .sLock
  | .sLock | .sSpin => if s.wlock then setS s j .sSpin else setS { s with wlock := true } j .sStore
  | .sStore => setS { s with waker := fun u => if u = j then some (s.tok j) else s.waker u, wlock := false } j .sSelfWake
  | .sSelfWake => setS (notify s (s.tok j)) j .parked

inductive Act where
  /-- `send` / `send_with` / `try_send_reserved` (publication is one atomic queue step, performed at the call) -/
  | send (t v : Nat)
  /-- `send` / `send_with` of a channel over the two-phase ring: the call claims a sequence number and writes the payload;
      publication and length measurement are the steps `pClm`, `pSmp` of `stepP` -/
  | claim (t v : Nat)
  /-- `send_with`: as `send`, except that the crossbeam channel tests `is_full()` first and then returns without waking -/
  | sendWith (t v : Nat)
  /-- `reserve_slot` + fill + `try_send_reserved` answering `true` (one publication; rule `rsv`; the movable atomic
      channel reports `max 1 len_before` as its length, the zero-copy ones `len_before + 1`) -/
  | sendRsv (t v : Nat)
  /-- movable channel `send_with_async`: reserve, suspend -/
  | asyncMov (t v : Nat)
  /-- zero-copy channel `send_with_async`: allocate, suspend -/
  | asyncZc (t v : Nat)
  /-- the suspended setter completes: publish (movable: only the oldest reservation can), then the wake decision -/
  | resume (t : Nat)
  | cancel (t j : Nat)
  /-- the consumer releases one payload handle (zero-copy) -/
  | release
  /-- the executor polls the task of stream `j`: allowed when `ready`, or `parked` and notified, or spuriously
      (`parked`, any `newTok`: a spurious poll may come with a different waker) -/
  | poll (j : Nat) (newTok : Option Nat)
  /-- the stream object of an ended stream is dropped -/
  | dropS (j : Nat)
  | stepP (t : Nat)
  | stepS (j : Nat)
  | ack (t : Nat)
  deriving DecidableEq, Repr

def apply (s : St) : Act → St
  | .send t v =>
      if s.thr t = .idle then
        if used s < s.N then
          afterPublish { s with q := s.q ++ [v], accepted := s.accepted ++ [v] } t (s.q.length + 1)
        -- the crossbeam channel wakes stream 0 whenever the length it read was ≤ 2, also when the insertion then fails
        else if s.rule = .cb ∧ s.q.length ≤ 2 then setThr s t (.wWake 0 .full)
        else setThr s t (.done .full)
      else s
  | .sendWith t v =>
      if s.thr t = .idle then
        if used s < s.N then
          afterPublish { s with q := s.q ++ [v], accepted := s.accepted ++ [v] } t (s.q.length + 1)
        else setThr s t (.done .full)
      else s
  | .claim t v =>
      if s.thr t = .idle then
        if used s < s.N then setThr { s with resv := s.resv ++ [(t, v)] } t (.pClm v (s.accepted.length + s.resv.length) s.rule)
        else setThr s t (.done .full)
      else s
  | .sendRsv t v =>
      if s.thr t = .idle then
        if used s < s.N then
          afterPublishR { s with q := s.q ++ [v], accepted := s.accepted ++ [v] } .rsv t
            (if s.zc then s.q.length + 1 else max 1 s.q.length)
        else setThr s t (.done .full)
      else s
  | .asyncMov t v =>
      if s.thr t = .idle then
        if used s < s.N then setThr { s with resv := s.resv ++ [(t, v)] } t (.aSusp v (s.q.length + s.resv.length))
        else setThr s t (.done .full)
      else s
  | .asyncZc t v =>
      if s.thr t = .idle then
        if used s < s.N then setThr { s with held := s.held + 1 } t (.zSusp v) else setThr s t (.done .full)
      else s
  | .resume t =>
      match s.thr t with
      | .aSusp v lenBefore =>
          -- movable atomic channel: the setter completed, go on to publish (in claim order) and to measure the length
          if s.rule = .atomic then setThr s t (.pClm v (s.accepted.length + (s.resv.takeWhile (fun x => x.1 != t)).length) .fs)
          else
          -- movable full-sync channel (the queue-wide lock was held all along): publish, wake by the length seen at reservation
          match s.resv with
          | (t', _) :: rest =>
              if t' = t then
                let s1 := { s with q := s.q ++ [v], resv := rest, accepted := s.accepted ++ [v] }
                if lenBefore < s.MAX then setThr s1 t (.wWake lenBefore .ok) else setThr s1 t (.done .ok)
              else s
          | [] => s
      | .zSusp v =>
          -- the setter completed: hand the slot to the queue (over the two-phase ring: claim now, publish and measure next)
          if s.rule.twoPhase then
            setThr { s with resv := s.resv ++ [(t, v)], held := s.held - 1 } t (.pClm v (s.accepted.length + s.resv.length) s.rule)
          else
          afterPublish { s with q := s.q ++ [v], held := s.held - 1, accepted := s.accepted ++ [v] } t (s.q.length + 1)
      | _ => s
  | .cancel t j => if s.thr t = .idle ∧ j < s.k then setThr s t (.cCancel j) else s
  | .release => if s.zc ∧ s.held > 0 then { s with held := s.held - 1 } else s
  | .poll j newTok =>
      if j < s.k then
        match s.sloc j with
        | .ready => setS { s with notified := fun u => if u = s.tok j then false else s.notified u } j .sPoll
        | .parked =>
            let tk := match newTok with
                      | some n => n
                      | none => s.tok j
            setS { s with tok := fun u => if u = j then tk else s.tok u,
                          notified := fun u => if u = tk then false else s.notified u } j .sPoll
        | _ => s
      else s
  | .dropS j => if j < s.k ∧ s.sloc j = .ended then setS s j .dLock else s
  | .stepP t => stepP s t
  | .stepS j => stepS s j
  | .ack t => match s.thr t with
              | .done _ => setThr s t .idle
              | _ => s

def run (s : St) (as : List Act) : St := as.foldl apply s

/-- the executor only polls a parked task that was notified (`fair` executions: no spurious polls needed) -/
def pollEnabled (s : St) (j : Nat) : Bool :=
  j < s.k && (s.sloc j == .ready || (s.sloc j == .parked && s.notified (s.tok j)))

/-- a stream that will poll again without outside help -/
def armed (s : St) (j : Nat) : Bool :=
  match s.sloc j with
  | .ready => true
  | .parked => s.notified (s.tok j)
  | .sPoll => true
  -- will store its waker and wake itself -- or will park with the notification already in
  | .sFlag => s.keep j && (s.waker j != some (s.tok j) || s.notified (s.tok j))
  | .sCmp => s.waker j != some (s.tok j) || s.notified (s.tok j)
  | .sLock | .sSpin | .sStore | .sSelfWake => true
  | _ => false

/-- **stuck**: an accepted event is pending, every producer is at rest, and no live stream will ever poll again -/
def stuck (s : St) : Prop :=
  s.q ≠ [] ∧ (∀ t, s.thr t = .idle ∨ (∃ r, s.thr t = .done r)) ∧
  (∀ j, j < s.k → s.keep j = true → (s.sloc j = .parked ∧ s.notified (s.tok j) = false))

def tagOfP : PLoc → Option (String × Nat)
  | .wWake j _ => some ("sm.wake", j)
  | .wLock j _ => some ("sm.wake.lock", j)
  | .wSpin _ _ => some ("sync.spin", 0)
  | .wRetry j _ => some ("sm.wake.retry", j)
  | .cCancel j => some ("sm.cancel", j)
  | .pClm _ slot _ => some ("am.p.publish", slot)
  | .pSmp slot _ => some ("am.p.len", slot)
  | _ => none

def tagOfS (j : Nat) : SLoc → Option (String × Nat)
  | .sPoll => some ("ms.poll", j)
  | .sFlag => some ("sm.flag", j)
  | .sCmp => some ("sm.reg.cmp", j)
  | .sLock => some ("sm.reg.lock", j)
  | .sSpin => some ("sync.spin", 0)
  | .sStore => some ("sm.reg.store", j)
  | .sSelfWake => some ("sm.reg.selfwake", j)
  | .dLock => some ("sm.drop.lock", j)
  | .dSpin => some ("sync.spin", 0)
  | .dWaker => some ("sm.drop.waker", j)
  | .dSyncLock => some ("sm.sync.lock", 0)
  | .dSyncSpin => some ("sync.spin", 0)
  | .dSync => some ("sm.sync.peek", 0)
  | _ => none

def Res.show : Res → String
  | .ok => "ok"
  | .full => "full"
  | .unit => "unit"

end Mutiny.Wake
