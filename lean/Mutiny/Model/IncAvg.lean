/-!
# M12a `IncAvg` — `AtomicIncrementalAverage64` (`/repo/src/incremental_averages.rs`)

`(u32 counter, f32 average)` packed into one 64-bit cell; `inc` = load, compute, `compare_exchange`, retry with the
reloaded value.  The floating-point formula is a *parameter* (`avgUpd`, on bit patterns): the model is about the CAS
protocol; the driver instantiates it with the same IEEE single-precision formula (`Float32`).  Program points = hook
tags `ia.load`, `ia.cas`, `ia.probe`.  Import-free.
-/

namespace Mutiny.IncAvg

notation "W32" => (4294967296 : Nat)

/-- `join_split(counter, average)` -/
def join (c a : Nat) : Nat := c + a * W32
/-- `split_joined(joined)` -/
def split (j : Nat) : Nat × Nat := (j % W32, j / W32)

/-- the computation closure of `inc`: counter reset at `u32::MAX`, then `(counter+1, avgUpd counter average x)` -/
def upd (avgUpd : Nat → Nat → Nat → Nat) (j x : Nat) : Nat :=
  let (c, a) := split j
  let c := if c = W32 - 1 then 100 else c
  join (c + 1) (avgUpd c a x)

inductive Res where
  | unit
  | probed (c a : Nat)
  deriving DecidableEq, Repr

inductive Loc where
  | idle
  | done (r : Res)
  | iLoad (x : Nat)            -- `ia.load`: `joined.load()`
  | iCas (x cur : Nat)         -- `ia.cas`: `compare_exchange(current_joined, new_joined)`
  | pProbe                     -- `ia.probe`: `joined.load()`
  deriving DecidableEq, Repr

structure St where
  cell    : Nat
  thr     : Nat → Loc
  /-- ghost: measurements in the order their CAS succeeded -/
  commits : List Nat
  /-- ghost: every value the cell ever held, oldest first (starts with the initial 0) -/
  stored  : List Nat

def init : St := { cell := 0, thr := fun _ => .idle, commits := [], stored := [0] }

def setThr (s : St) (t : Nat) (l : Loc) : St :=
  { s with thr := fun u => if u = t then l else s.thr u }

def step (avgUpd : Nat → Nat → Nat → Nat) (s : St) (t : Nat) : St :=
  match s.thr t with
  | .idle | .done _ => s
  | .iLoad x => setThr s t (.iCas x s.cell)
  | .iCas x cur =>
      if s.cell = cur then
        let nj := upd avgUpd cur x
        setThr { s with cell := nj, commits := s.commits ++ [x], stored := s.stored ++ [nj] } t (.done .unit)
      else setThr s t (.iCas x s.cell)
  | .pProbe => setThr s t (.done (.probed (split s.cell).1 (split s.cell).2))

inductive Act where
  | inc (t x : Nat)
  | probe (t : Nat)
  | step (t : Nat)
  | ack (t : Nat)
  deriving DecidableEq, Repr

def apply (avgUpd : Nat → Nat → Nat → Nat) (s : St) : Act → St
  | .inc t x => if s.thr t = .idle then setThr s t (.iLoad x) else s
  | .probe t => if s.thr t = .idle then setThr s t .pProbe else s
  | .step t  => step avgUpd s t
  | .ack t   => match s.thr t with
                | .done _ => setThr s t .idle
                | _ => s

def run (avgUpd : Nat → Nat → Nat → Nat) (s : St) (as : List Act) : St := as.foldl (apply avgUpd) s

def Reachable (avgUpd : Nat → Nat → Nat → Nat) (s : St) : Prop := ∃ as, s = run avgUpd init as

/-- the cell content after the measurements `xs` were committed in that order -/
def fold (avgUpd : Nat → Nat → Nat → Nat) (xs : List Nat) : Nat := xs.foldl (upd avgUpd) 0

def tagOf : Loc → Option (String × Nat)
  | .iLoad _ => some ("ia.load", 0)
  | .iCas _ cur => some ("ia.cas", cur)
  | .pProbe => some ("ia.probe", 0)
  | _ => none

def Res.show : Res → String
  | .unit => "unit"
  | .probed c a => s!"probed {c} {a}"

end Mutiny.IncAvg
