import Mutiny.Model.Ring
import Mutiny.Model.U32
/-!
# M1/32 `Ring32` — `AtomicMove<T, N>` with the `u32` arithmetic the source really performs
  (`/repo/src/ogre_std/ogre_queues/atomic/atomic_move.rs`)

Same state type, same program points and same hook tags as model M1 (`Mutiny/Model/Ring.lean`), but the four counters
and every sequence number a thread keeps in a register are **residues modulo 2^32**, and each step computes with the
operations of `Mutiny/Model/U32.lean` exactly where the source uses them:

* `fetch_add(1)`, `slot_id.overflowing_add(1).0`            ↦ `wadd _ 1`
* `slot_id.overflowing_sub(head).0 < BUFFER_SIZE`            ↦ `admit32`, `lenBefore32`
* `tail.overflowing_sub(slot_id).0 as i32 > 0`               ↦ `hasItem32`
* `slot_id as usize % BUFFER_SIZE`                            ↦ `index32`
* `i32::max(1, slot_id.overflowing_add(1).0.overflowing_sub(head).0 as i32) as u32` ↦ `lenAfter32`
* `slot_index + (x / N) * N` (plain `+`,`*`: panic on overflow in a checked build) ↦ `cadd`, `cmul`
* `reloaded_enqueuer_tail.wrapping_sub(1)`                    ↦ `wsub _ 1`
* `compare_exchange(a, b)` succeeds iff the cell holds the residue `a`.

`step32` returns `none` when a checked operation overflows (the build with overflow checks panics there).

`Mutiny/Proofs/Ring32Sim.lean` proves that this machine is the image, under `x ↦ x % 2^32`, of model M1 run with
free-running naturals — for counters of any magnitude — so that everything proved about M1 holds for the `u32` code, and
the replay driver runs recorded traces of the real code on this machine from any sequence origin (C15).  Import-free.
-/

namespace Mutiny.Ring32
open Mutiny.Ring Mutiny.U32

/-- one micro-step of thread `t` over `u32` residues; `none` = a checked arithmetic operation panicked -/
def step32 (s : St) (t : Nat) : Option St :=
  match s.thr t with
  | .idle | .done _ | .rHold _ | .rRet _ _ => some s
  -- `enqueuer_tail.fetch_add(1)`
  | .pFetch v rsv => some (setThr { s with enqTail := wadd s.enqTail 1 } t (.pLoadHead v s.enqTail rsv))
  -- `head.load()`; `len_before = slot_id.overflowing_sub(head).0`; `len_before < BUFFER_SIZE`?
  | .pLoadHead v id rsv =>
      if admit32 id s.head s.N then
        if rsv then some (setThr s t (.rRet id (.reserved (index32 id s.N) (lenBefore32 id s.head))))
        else some (setThr s t (.pWrite v id (lenBefore32 id s.head)))
      else some (setThr s t (.pRecede v id rsv true))
  -- `enqueuer_tail.compare_exchange(slot_id.overflowing_add(1).0, slot_id)`
  | .pRecede v id rsv _ =>
      if s.enqTail = wadd id 1 then some (setThr { s with enqTail := id } t (.done .full))
      else some (setThr s t (.pLoadHead v id rsv))
  -- `ptr::write(buffer[slot_id as usize % BUFFER_SIZE], item)`
  | .pWrite v id len => some (setThr (setBuf s (index32 id s.N) v) t (.pPublish v id len))
  -- `tail.compare_exchange(slot_id, slot_id.overflowing_add(1).0)` (spins on failure)
  | .pPublish v id len =>
      if s.tail = id then some (setThr { s with tail := wadd id 1, accepted := s.accepted ++ [v] } t (.pLen id))
      else some s
  -- `len_after_publishing`: `head.load()`; `i32::max(1, slot_id.overflowing_add(1).0.overflowing_sub(head).0 as i32) as u32`
  | .pLen id => some (setThr s t (.done (.sent (lenAfter32 id s.head))))
  -- `try_publish_leaked_internal_index`
  | .rPub id idx g =>
      if s.tail = g then
        some (setThr { s with tail := wadd g 1, accepted := s.accepted ++ [s.buf idx] } t (.rLen g))
      else match pubReguess32 idx g s.tail s.N with
           | none => none
           | some (some g') => some (setThr s t (.rPub id idx g'))
           | some none => some (setThr s t (.rRet id (.pubIdx none)))
  -- `u32::max(1, previous_tail.overflowing_sub(head.load()).0)`, `head` loaded after the CAS
  | .rLen g => some (setThr s t (.done (.pubIdx (some (max 1 (wsub g s.head))))))
  -- `try_unleak_slot_index_internal`
  | .rCan id idx g =>
      if s.enqTail = wadd g 1 then some (setThr { s with enqTail := g } t (.done (.canIdx true)))
      else match canReguess32 idx g s.enqTail s.N with
           | none => none
           | some (some g') => some (setThr s t (.rCan id idx g'))
           | some none => some (setThr s t (.rRet id (.canIdx false)))
  -- `dequeuer_head.fetch_add(1)`
  | .cFetch => some (setThr { s with deqHead := wadd s.deqHead 1 } t (.cLoadTail s.deqHead))
  -- `tail.load()`; `tail.overflowing_sub(slot_id).0 as i32 > 0`?
  | .cLoadTail id =>
      if hasItem32 s.tail id then some (setThr s t (.cRead id)) else some (setThr s t (.cRecede id))
  -- `dequeuer_head.compare_exchange(slot_id.overflowing_add(1).0, slot_id)`
  | .cRecede id =>
      if s.deqHead = wadd id 1 then some (setThr { s with deqHead := id } t .cChkHead)
      else some (setThr s t (.cLoadTail id))
  | .cChkHead => some (setThr s t (.cChkTail s.head (decide (s.head = s.tail))))
  | .cChkTail h _ =>
      if s.tail = h then some (setThr s t (.done .empty)) else some (setThr s t .cFetch)
  | .cRead id => some (setThr s t (.cRelease id (s.buf (index32 id s.N))))
  -- `head.compare_exchange(slot_id, slot_id.overflowing_add(1).0)` (spins on failure)
  | .cRelease id v =>
      if s.head = id then
        some (setThr { s with head := wadd id 1, delivered := s.delivered ++ [(t, id, v)] } t (.done (.got v)))
      else some s
  -- `tail.load().overflowing_sub(head.load()).0`
  | .lLen => some (setThr s t (.lLenH s.tail))
  | .lLenH tl => some (setThr s t (.done (.len (len32 tl s.head))))

/-- environment actions: identical to M1's except that slot indices are taken from residues -/
def apply32 (s : St) : Act → Option St
  | .send t v  => some (if s.thr t = .idle then setThr s t (.pFetch v false) else s)
  | .recv t    => some (if s.thr t = .idle then setThr s t .cFetch else s)
  | .len t     => some (if s.thr t = .idle then setThr s t .lLen else s)
  | .reserve t => some (if s.thr t = .idle then setThr s t (.pFetch 0 true) else s)
  | .fill t v  => some (match s.thr t with
                  | .rHold id => setBuf s (index32 id s.N) v
                  | _ => s)
  | .pubIdx t  => some (match s.thr t with
                  | .rHold id => setThr s t (.rPub id (index32 id s.N) (index32 id s.N))
                  | _ => s)
  | .canIdx t  => some (match s.thr t with
                  | .rHold id => setThr s t (.rCan id (index32 id s.N) (index32 id s.N))
                  | _ => s)
  | .step t    => step32 s t
  | .ack t     => some (match s.thr t with
                  | .done _ => setThr s t .idle
                  | .rRet id _ => setThr s t (.rHold id)
                  | _ => s)

def run32 (s : St) : List Act → Option St
  | [] => some s
  | a :: as => match apply32 s a with
               | none => none
               | some s' => run32 s' as

/-- a ring whose four counters start at the residue `o` (the implementation's `verif_rebase(o)` on a fresh ring;
    `o = 0` is `AtomicMove::new()`) -/
def init32 (n o : Nat) : St :=
  { Ring.init n with head := o, tail := o, enqTail := o, deqHead := o }

/-! ## the image of an M1 state: every counter and every sequence-number register modulo 2^32 -/

def imgLoc : Loc → Loc
  | .pLoadHead v id rsv => .pLoadHead v (wrap id) rsv
  | .pRecede v id rsv w => .pRecede v (wrap id) rsv w
  | .pWrite v id len    => .pWrite v (wrap id) len
  | .pPublish v id len  => .pPublish v (wrap id) len
  | .pLen id            => .pLen (wrap id)
  | .rHold id           => .rHold (wrap id)
  | .rRet id r          => .rRet (wrap id) r
  | .rPub id idx g      => .rPub (wrap id) idx (wrap g)
  | .rLen g             => .rLen (wrap g)
  | .rCan id idx g      => .rCan (wrap id) idx (wrap g)
  | .cLoadTail id       => .cLoadTail (wrap id)
  | .cRecede id         => .cRecede (wrap id)
  | .cChkTail h w       => .cChkTail (wrap h) w
  | .cRead id           => .cRead (wrap id)
  | .cRelease id v      => .cRelease (wrap id) v
  | .lLenH tl           => .lLenH (wrap tl)
  | l => l

def img (s : St) : St :=
  { N := s.N, head := wrap s.head, tail := wrap s.tail, enqTail := wrap s.enqTail, deqHead := wrap s.deqHead,
    buf := s.buf, thr := fun t => imgLoc (s.thr t), accepted := s.accepted,
    delivered := s.delivered.map fun x => (x.1, wrap x.2.1, x.2.2) }

end Mutiny.Ring32
