/-!
# M3 + M5 `Handles` — pool allocator + `OgreArc` / `OgreUnique`
  (`/repo/src/ogre_std/ogre_alloc/{ogre_array_pool_allocator,ogre_arc,ogre_unique}.rs`)

Granularity: the pool's free list is an abstract FIFO of slot ids (each `alloc` / `dealloc` is one atomic step — the ring
underneath is models M1/M2, whose linearizability is property C02); the reference counter of a shared handle is accessed
in micro-steps, one per `vp!` hook of `ogre_arc.rs` (`oa.clone`, `oa.inc`, `oa.drop.dec`, `oa.drop.dealloc`,
`oa.drop.free`, `oa.count`); `dealloc_id` itself is two steps: the payload's destructor (`pa.dealloc.drop`), then the push of
the slot id onto the free list (`pa.dealloc.free`) — a slot is not allocatable while its destructor runs.

Handles are anonymous: a control block counts its `live` handles (ghost).  An operation in progress *borrows or consumes*
one handle (`lent`), which is how Rust's ownership rules are reflected: nobody can drop the handle another call is using.
Import-free (the replay driver links it).
-/

namespace Mutiny.Handles

/-- control block of a shared handle (`InnerOgreArc`) + ghost bookkeeping -/
structure CB where
  id    : Nat
  rc    : Nat
  /-- ghost: handles existing and not lent to a call in progress -/
  live  : Nat
  /-- ghost: handles lent to (or consumed by) a call in progress -/
  lent  : Nat
  /-- ghost: raw copies announced by `increment_references` and not materialised yet -/
  owed  : Nat
  /-- the control block was given back to the heap -/
  freed : Bool
  /-- ghost: value written when the slot was allocated -/
  val   : Nat
  /-- ghost: allocation generation of the slot -/
  gen   : Nat
  deriving DecidableEq, Repr

inductive Res where
  | arc (cb : Nat)
  | unique (id : Nat)
  | none
  | unit
  | count (n : Nat)
  | value (v : Nat)
  deriving DecidableEq, Repr

inductive Loc where
  | idle
  | done (r : Res)
  | clone (cb : Nat)          -- `oa.clone`: `fetch_add(1)`
  | inc (cb k : Nat)          -- `oa.inc`: `fetch_add(k)`
  | dDec (cb : Nat)           -- `oa.drop.dec`: `fetch_sub(1)`
  | dDealloc (cb : Nat)       -- `oa.drop.dealloc`: about to call `allocator.dealloc_id(data_id)`
  | dDestroy (cb : Nat)       -- `pa.dealloc.drop`: `drop_in_place(slot)` (the payload's destructor)
  | dRelease (cb : Nat)       -- `pa.dealloc.free`: the slot id goes back onto the free list
  | dFree (cb : Nat)          -- `oa.drop.free`: `Box::from_raw(inner)` dropped
  | uDestroy (id : Nat)       -- `pa.dealloc.drop` (unique handle / raw allocation being released)
  | uRelease (id : Nat)       -- `pa.dealloc.free`
  | count (cb : Nat)          -- `oa.count`: `load`
  deriving DecidableEq, Repr

structure St where
  N       : Nat
  /-- free list of the pool, oldest first -/
  free    : List Nat
  /-- slot contents -/
  slot    : Nat → Nat
  /-- ghost: the slot holds a constructed, not yet destroyed value -/
  alive   : Nat → Bool
  /-- ghost: generation of the value in the slot -/
  slotGen : Nat → Nat
  nextGen : Nat
  cbs     : List CB
  /-- ghost: slot ids owned by a unique handle / a raw allocation -/
  uniques : List Nat
  thr     : Nat → Loc
  /-- ghost: `(slot id, generation, value)` of every destructor run, in order -/
  dropLog : List (Nat × Nat × Nat)

def init (n : Nat) : St :=
  { N := n, free := List.range n, slot := fun _ => 0, alive := fun _ => false, slotGen := fun _ => 0, nextGen := 1,
    cbs := [], uniques := [], thr := fun _ => .idle, dropLog := [] }

def setThr (s : St) (t : Nat) (l : Loc) : St :=
  { s with thr := fun u => if u = t then l else s.thr u }

def updCB (s : St) (i : Nat) (f : CB → CB) : St :=
  { s with cbs := s.cbs.modify i f }

def getCB (s : St) (i : Nat) : CB :=
  s.cbs.getD i { id := 0, rc := 0, live := 0, lent := 0, owed := 0, freed := true, val := 0, gen := 0 }

/-- `alloc_ref` + write: pops the oldest free id -/
def allocWrite (s : St) (v : Nat) : Option (St × Nat) :=
  match s.free with
  | [] => none
  | id :: rest =>
    some ({ s with free := rest,
                   slot := fun j => if j = id then v else s.slot j,
                   alive := fun j => if j = id then true else s.alive j,
                   slotGen := fun j => if j = id then s.nextGen else s.slotGen j,
                   nextGen := s.nextGen + 1 }, id)

/-- first half of `dealloc_id`: run the destructor in place -/
def destroy (s : St) (id : Nat) : St :=
  { s with alive := fun j => if j = id then false else s.alive j,
           dropLog := s.dropLog ++ [(id, s.slotGen id, s.slot id)] }

/-- second half of `dealloc_id`: give the id back to the free list -/
def release (s : St) (id : Nat) : St := { s with free := s.free ++ [id] }

/-- `dealloc_id` as a whole -/
def dealloc (s : St) (id : Nat) : St := release (destroy s id) id

def step (s : St) (t : Nat) : St :=
  match s.thr t with
  | .idle | .done _ => s
  | .clone i => setThr (updCB s i fun c => { c with rc := c.rc + 1, lent := c.lent - 1, live := c.live + 2 }) t (.done (.arc i))
  | .inc i k => setThr (updCB s i fun c => { c with rc := c.rc + k, lent := c.lent - 1, live := c.live + 1, owed := c.owed + k }) t (.done .unit)
  | .dDec i =>
      let c := getCB s i
      let s' := updCB s i fun c => { c with rc := c.rc - 1, lent := c.lent - 1 }
      if c.rc = 1 then setThr s' t (.dDealloc i) else setThr s' t (.done .unit)
  | .dDealloc i => setThr s t (.dDestroy i)
  | .dDestroy i => setThr (destroy s (getCB s i).id) t (.dRelease i)
  | .dRelease i => setThr (release s (getCB s i).id) t (.dFree i)
  | .uDestroy id => setThr (destroy s id) t (.uRelease id)
  | .uRelease id => setThr (release s id) t (.done .unit)
  | .dFree i => setThr (updCB s i fun c => { c with freed := true }) t (.done .unit)
  | .count i => setThr (updCB s i fun c => { c with lent := c.lent - 1, live := c.live + 1 }) t (.done (.count (getCB s i).rc))

inductive Act where
  /-- `OgreArc::new_with_clones::<k>` (k ≥ 1; `new_with` is k = 1) -/
  | newArc (t v k : Nat)
  | clone (t cb : Nat)
  | incRefs (t cb k : Nat)
  /-- `raw_copy`: materialises one announced copy (no shared access) -/
  | rawCopy (t cb : Nat)
  | dropArc (t cb : Nat)
  | count (t cb : Nat)
  | deref (t cb : Nat)
  /-- `OgreUnique::new` / raw `alloc_with` -/
  | newUnique (t v : Nat)
  | dropUnique (t id : Nat)
  | derefUnique (t id : Nat)
  | intoArc (t id : Nat)
  | step (t : Nat)
  | ack (t : Nat)
  deriving DecidableEq, Repr

/-- a handle of control block `i` is available to be borrowed / consumed by a new call -/
def usable (s : St) (i : Nat) : Bool := i < s.cbs.length && (getCB s i).live > 0

def lend (s : St) (i : Nat) : St := updCB s i fun c => { c with live := c.live - 1, lent := c.lent + 1 }

def apply (s : St) : Act → St
  | .newArc t v k =>
      if s.thr t = .idle ∧ k > 0 then
        match allocWrite s v with
        | none => setThr s t (.done .none)
        | some (s', id) =>
          setThr { s' with cbs := s'.cbs ++ [{ id := id, rc := k, live := k, lent := 0, owed := 0, freed := false, val := v, gen := s.nextGen }] } t
                 (.done (.arc s.cbs.length))
      else s
  | .clone t i   => if s.thr t = .idle ∧ usable s i then setThr (lend s i) t (.clone i) else s
  | .incRefs t i k => if s.thr t = .idle ∧ usable s i then setThr (lend s i) t (.inc i k) else s
  | .rawCopy t i => if s.thr t = .idle ∧ i < s.cbs.length ∧ (getCB s i).owed > 0 then
                      setThr (updCB s i fun c => { c with owed := c.owed - 1, live := c.live + 1 }) t (.done (.arc i))
                    else s
  | .dropArc t i => if s.thr t = .idle ∧ usable s i then setThr (lend s i) t (.dDec i) else s
  | .count t i   => if s.thr t = .idle ∧ usable s i then setThr (lend s i) t (.count i) else s
  | .deref t i   => if s.thr t = .idle ∧ usable s i then setThr s t (.done (.value (s.slot (getCB s i).id))) else s
  | .newUnique t v =>
      if s.thr t = .idle then
        match allocWrite s v with
        | none => setThr s t (.done .none)
        | some (s', id) => setThr { s' with uniques := id :: s'.uniques } t (.done (.unique id))
      else s
  | .dropUnique t id =>
      if s.thr t = .idle ∧ id ∈ s.uniques then
        setThr { s with uniques := s.uniques.erase id } t (.uDestroy id)
      else s
  | .derefUnique t id =>
      if s.thr t = .idle ∧ id ∈ s.uniques then setThr s t (.done (.value (s.slot id))) else s
  | .intoArc t id =>
      if s.thr t = .idle ∧ id ∈ s.uniques then
        setThr { s with uniques := s.uniques.erase id,
                        cbs := s.cbs ++ [{ id := id, rc := 1, live := 1, lent := 0, owed := 0, freed := false, val := s.slot id, gen := s.slotGen id }] } t
               (.done (.arc s.cbs.length))
      else s
  | .step t => step s t
  | .ack t => match s.thr t with
              | .done _ => setThr s t .idle
              | _ => s

def run (s : St) (as : List Act) : St := as.foldl apply s

def Reachable (n : Nat) (s : St) : Prop := ∃ as, s = run (init n) as

def tagOf : Loc → Option (String × Nat)
  | .clone _ => some ("oa.clone", 0)
  | .inc _ k => some ("oa.inc", k)
  | .dDec _ => some ("oa.drop.dec", 0)
  | .dDealloc _ => some ("oa.drop.dealloc", 0)
  | .dDestroy _ => some ("pa.dealloc.drop", 0)
  | .dRelease _ => some ("pa.dealloc.free", 0)
  | .uDestroy id => some ("pa.dealloc.drop", id)
  | .uRelease id => some ("pa.dealloc.free", id)
  | .dFree _ => some ("oa.drop.free", 0)
  | .count _ => some ("oa.count", 0)
  | _ => none

def Res.show : Res → String
  | .arc i => s!"arc {i}"
  | .unique i => s!"unique {i}"
  | .none => "none"
  | .unit => "unit"
  | .count n => s!"count {n}"
  | .value v => s!"value {v}"

end Mutiny.Handles
