/-!
# M12b `Stack` — the two stand-alone non-blocking stacks of `ogre_std::ogre_stacks`
  (`non_blocking_atomic_stack.rs`: critical region guarded by `flag.swap(true)`;
   `non_blocking_parking_lot_stack.rs`: guarded by a parking-lot `RawMutex`, trusted to be a mutex, so that a whole
   operation is one step here: program points `plPush` / `plPop`)

Program points of the atomic-flag stack = hook tags `st.swap`, `st.crit`, `st.unlock`.  Import-free.
-/

namespace Mutiny.Stack

inductive Res where
  | pushed (ok : Bool)
  | popped (v : Option Nat)
  deriving DecidableEq, Repr

inductive Loc where
  | idle
  | done (r : Res)
  | pSwap (v : Nat)          -- `st.swap`: `flag.swap(true)`; spins while it returns `true`
  | pCrit (v : Nat)          -- `st.crit`: inside the region: `head >= BUFFER_SIZE`? write, `head += 1`
  | pUnlock (ok : Bool)      -- `st.unlock`: `flag.store(false)`
  | cSwap
  | cCrit
  | cUnlock (v : Option Nat)
  | plPush (v : Nat)         -- `pl.op`: lock; region; unlock   (parking-lot stack)
  | plPop
  deriving DecidableEq, Repr

structure St where
  N     : Nat
  flag  : Bool
  /-- bottom of the stack first; `head = items.length` -/
  items : List Nat
  thr   : Nat → Loc
  /-- ghost: linearized history, `(thread, op)` with `op = inl v` for a successful push of `v`, `inr v` for a pop of `v` -/
  hist  : List (Nat × (Nat ⊕ Nat))

def init (n : Nat) : St := { N := n, flag := false, items := [], thr := fun _ => .idle, hist := [] }

def setThr (s : St) (t : Nat) (l : Loc) : St :=
  { s with thr := fun u => if u = t then l else s.thr u }

def pushCrit (s : St) (t v : Nat) : St × Bool :=
  if s.items.length ≥ s.N then (s, false)
  else ({ s with items := s.items ++ [v], hist := s.hist ++ [(t, .inl v)] }, true)

def popCrit (s : St) (t : Nat) : St × Option Nat :=
  match s.items.getLast? with
  | none => (s, none)
  | some v => ({ s with items := s.items.dropLast, hist := s.hist ++ [(t, .inr v)] }, some v)

def step (s : St) (t : Nat) : St :=
  match s.thr t with
  | .idle | .done _ => s
  | .pSwap v => if s.flag then s else setThr { s with flag := true } t (.pCrit v)
  | .pCrit v => let (s', ok) := pushCrit s t v; setThr s' t (.pUnlock ok)
  | .pUnlock ok => setThr { s with flag := false } t (.done (.pushed ok))
  | .cSwap => if s.flag then s else setThr { s with flag := true } t .cCrit
  | .cCrit => let (s', r) := popCrit s t; setThr s' t (.cUnlock r)
  | .cUnlock r => setThr { s with flag := false } t (.done (.popped r))
  | .plPush v => let (s', ok) := pushCrit s t v; setThr s' t (.done (.pushed ok))
  | .plPop => let (s', r) := popCrit s t; setThr s' t (.done (.popped r))

inductive Act where
  | push (t v : Nat)
  | pop (t : Nat)
  | plPush (t v : Nat)
  | plPop (t : Nat)
  | step (t : Nat)
  | ack (t : Nat)
  deriving DecidableEq, Repr

def apply (s : St) : Act → St
  | .push t v   => if s.thr t = .idle then setThr s t (.pSwap v) else s
  | .pop t      => if s.thr t = .idle then setThr s t .cSwap else s
  | .plPush t v => if s.thr t = .idle then setThr s t (.plPush v) else s
  | .plPop t    => if s.thr t = .idle then setThr s t .plPop else s
  | .step t     => step s t
  | .ack t      => match s.thr t with
                   | .done _ => setThr s t .idle
                   | _ => s

def run (s : St) (as : List Act) : St := as.foldl apply s
def Reachable (n : Nat) (s : St) : Prop := ∃ as, s = run (init n) as

/-- the abstract bounded stack obtained by replaying the linearized history -/
def replay (n : Nat) : List (Nat × (Nat ⊕ Nat)) → Option (List Nat)
  | [] => some []
  | h :: rest =>
    -- processed oldest-first via the helper below
    (go n [] (h :: rest))
where
  go (n : Nat) (st : List Nat) : List (Nat × (Nat ⊕ Nat)) → Option (List Nat)
    | [] => some st
    | (_, .inl v) :: rest => if st.length < n then go n (st ++ [v]) rest else none
    | (_, .inr v) :: rest => if st.getLast? = some v then go n st.dropLast rest else none

def tagOf : Loc → Option (String × Nat)
  | .pSwap _ => some ("st.swap", 0)
  | .pCrit _ => some ("st.crit", 0)
  | .pUnlock _ => some ("st.unlock", 0)
  | .cSwap => some ("st.swap", 0)
  | .cCrit => some ("st.crit", 0)
  | .cUnlock _ => some ("st.unlock", 0)
  | .plPush _ => some ("pl.op", 0)
  | .plPop => some ("pl.op", 0)
  | _ => none

def Res.show : Res → String
  | .pushed b => s!"pushed {b}"
  | .popped (some v) => s!"popped {v}"
  | .popped none => "popped none"

end Mutiny.Stack
