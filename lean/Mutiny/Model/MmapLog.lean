/-!
# M9 `MmapLog` — the append-only log topic and its subscribers
  (`/repo/src/ogre_std/ogre_queues/log_topics/mmap_meta.rs` `publish`, `subscribe_to_*`, `consume` of the dynamic and the
   fixed subscriber; used by `/repo/src/multi/channels/reference/mmap_log.rs`)

`publisher_tail` hands out positions (`fetch_add`), the slot is written, then `consumer_tail` is advanced *in position
order* by CAS (spin).  A subscriber owns a cursor `head`; a *dynamic* one reads up to the current `consumer_tail`, a
*fixed* one up to the `consumer_tail` value loaded when it was created.  The memory-mapped file is a write-once array of
slots here.  Program points = hook tags `mm.p.fetch`, `mm.p.write`, `mm.p.publish`, `mm.s.load`, `mm.c.fetch`,
`mm.c.loadtail`, `mm.c.recede`, `mm.c.read`.  Import-free.
-/

namespace Mutiny.MmapLog

inductive SubKind where
  /-- reads `[start, consumer_tail)`, for ever -/
  | dyn
  /-- reads `[0, fixedTail)` and then ends -/
  | fixed (fixedTail : Nat)
  deriving DecidableEq, Repr

structure Sub where
  kind  : SubKind
  head  : Nat
  /-- ghost: first position this subscriber is entitled to -/
  start : Nat
  deriving DecidableEq, Repr

inductive Res where
  | unit
  /-- ids of the subscribers created -/
  | subs (a : Nat) (b : Option Nat)
  | item (v : Option Nat)
  deriving DecidableEq, Repr

inductive Loc where
  | idle
  | done (r : Res)
  | pFetch (v : Nat)                 -- `mm.p.fetch`
  | pWrite (v pos : Nat)             -- `mm.p.write`
  | pPublish (pos : Nat)             -- `mm.p.publish` (spins until `consumer_tail = pos`)
  /-- `mm.s.load`: load `consumer_tail`; `split` = create an (old, new) pair, else a new-events-only subscriber -/
  | sLoad (split : Bool)
  | cFetch (sub : Nat)               -- `mm.c.fetch`
  | cLoadTail (sub head : Nat)       -- `mm.c.loadtail` (dynamic subscriber)
  | cRecede (sub head : Nat)         -- `mm.c.recede`
  | cRead (sub head : Nat)           -- `mm.c.read`
  deriving DecidableEq, Repr

structure St where
  pubTail  : Nat
  consTail : Nat
  /-- slot contents by position (`none`: never written) -/
  slots    : Nat → Option Nat
  subs     : List Sub
  thr      : Nat → Loc
  /-- ghost: `(position, value)` in the order positions became visible -/
  log      : List (Nat × Nat)
  /-- ghost: `(subscriber, position, value)` in delivery order -/
  delivered : List (Nat × Nat × Nat)
  /-- ghost: number of writes each position received -/
  writes   : Nat → Nat

def init : St :=
  { pubTail := 0, consTail := 0, slots := fun _ => none, subs := [], thr := fun _ => .idle, log := [], delivered := [],
    writes := fun _ => 0 }

def setThr (s : St) (t : Nat) (l : Loc) : St := { s with thr := fun u => if u = t then l else s.thr u }

def getSub (s : St) (i : Nat) : Sub := s.subs.getD i { kind := .dyn, head := 0, start := 0 }
def setHead (s : St) (i h : Nat) : St := { s with subs := s.subs.modify i fun x => { x with head := h } }

def step (s : St) (t : Nat) : St :=
  match s.thr t with
  | .idle | .done _ => s
  | .pFetch v => setThr { s with pubTail := s.pubTail + 1 } t (.pWrite v s.pubTail)
  | .pWrite v pos =>
      setThr { s with slots := fun p => if p = pos then some v else s.slots p,
                      writes := fun p => if p = pos then s.writes p + 1 else s.writes p } t (.pPublish pos)
  | .pPublish pos =>
      if s.consTail = pos then
        setThr { s with consTail := pos + 1, log := s.log ++ [(pos, (s.slots pos).getD 0)] } t (.done .unit)
      else s
  | .sLoad split =>
      let tl := s.consTail
      let n := s.subs.length
      if split then
        setThr { s with subs := s.subs ++ [{ kind := .fixed tl, head := 0, start := 0 }, { kind := .dyn, head := tl, start := tl }] } t
               (.done (.subs n (some (n + 1))))
      else
        setThr { s with subs := s.subs ++ [{ kind := .dyn, head := tl, start := tl }] } t (.done (.subs n none))
  | .cFetch i =>
      let sb := getSub s i
      let s1 := setHead s i (sb.head + 1)
      match sb.kind with
      | .dyn => setThr s1 t (.cLoadTail i sb.head)
      | .fixed ft => if sb.head ≥ ft then setThr s1 t (.cRecede i sb.head) else setThr s1 t (.cRead i sb.head)
  | .cLoadTail i h =>
      if h ≥ s.consTail then setThr s t (.cRecede i h) else setThr s t (.cRead i h)
  | .cRecede i h =>
      if (getSub s i).head = h + 1 then setThr (setHead s i h) t (.done (.item none)) else s
  | .cRead i h =>
      let v := (s.slots h).getD 0
      setThr { s with delivered := s.delivered ++ [(i, h, v)] } t (.done (.item (some v)))

inductive Act where
  | send (t v : Nat)
  /-- `subscribe_to_new_events_only` -/
  | subNew (t : Nat)
  /-- `subscribe_to_separated_old_and_new_events` -/
  | subSplit (t : Nat)
  /-- `subscribe_to_joined_old_and_new_events` (no shared access: the cursor starts at 0) -/
  | subJoined (t : Nat)
  /-- the (only) consumer of subscriber `i` polls once -/
  | poll (t i : Nat)
  | step (t : Nat)
  | ack (t : Nat)
  deriving DecidableEq, Repr

def apply (s : St) : Act → St
  | .send t v   => if s.thr t = .idle then setThr s t (.pFetch v) else s
  | .subNew t   => if s.thr t = .idle then setThr s t (.sLoad false) else s
  | .subSplit t => if s.thr t = .idle then setThr s t (.sLoad true) else s
  | .subJoined t =>
      if s.thr t = .idle then
        setThr { s with subs := s.subs ++ [{ kind := .dyn, head := 0, start := 0 }] } t (.done (.subs s.subs.length none))
      else s
  | .poll t i   => if s.thr t = .idle ∧ i < s.subs.length then setThr s t (.cFetch i) else s
  | .step t     => step s t
  | .ack t      => match s.thr t with
                   | .done _ => setThr s t .idle
                   | _ => s

def run (s : St) (as : List Act) : St := as.foldl apply s
def Reachable (s : St) : Prop := ∃ as, s = run init as

def tagOf : Loc → Option (String × Nat)
  | .pFetch _ => some ("mm.p.fetch", 0)
  | .pWrite _ pos => some ("mm.p.write", pos)
  | .pPublish pos => some ("mm.p.publish", pos)
  | .sLoad _ => some ("mm.s.load", 0)
  | .cFetch _ => some ("mm.c.fetch", 0)
  | .cLoadTail _ h => some ("mm.c.loadtail", h)
  | .cRecede _ h => some ("mm.c.recede", h)
  | .cRead _ h => some ("mm.c.read", h)
  | _ => none

def Res.show : Res → String
  | .unit => "unit"
  | .subs a none => s!"subs {a}"
  | .subs a (some b) => s!"subs {a} {b}"
  | .item (some v) => s!"item {v}"
  | .item none => "item none"

end Mutiny.MmapLog
