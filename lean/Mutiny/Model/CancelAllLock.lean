import Mutiny.Model.Multi
/-!
# `cancel_all_streams()` as repaired (finding D11 fixed): the walk over `used_streams` holds `streams_lock`
  (`/repo/src/streams_manager.rs` `cancel_all_streams`, `cancel_stream`, `sync_vacant_and_used_streams`)

Same construction as `Mutiny/Model/CancelAll.lean` (which keeps the PINNED, unlocked walk and its counterexample): the
stream-id bookkeeping is model M6 (`Mutiny/Model/Multi.lean`: one step per access of `used_streams_count`, the vacant FIFO,
the flags, `streams_lock` and every single entry of `used_streams`), plus the walker of `cancel_all_streams()`:

* `lock` / `spin` (`sm.cancelall.lock` / `sync.spin`): `ogre_sync::lock(&self.streams_lock)` — waits while the flag is taken;
* `read i` (`sm.cancelall.read`): reads entry `i`, stops at the sentinel or after `MAX_STREAMS` entries;
* `cancel i id` (`sm.cancel`): clears the keep-running flag of `id` (the wake-up that follows is model M8's);
* `unlock` (`sm.cancelall.unlock`): releases the flag.

Any number of other threads create and remove listeners, send and poll meanwhile (`Act.multi`).  Import-free.
-/
namespace Mutiny.CancelAllLock
open Mutiny

/-- program points of the walker -/
inductive WLoc where
  | idle
  /-- `sm.cancelall.lock`: about to take `streams_lock` -/
  | lock
  /-- `sync.spin`: the flag was taken; waiting for it -/
  | spin
  /-- `sm.cancelall.read`: about to read entry `i` (lock held) -/
  | read (i : Nat)
  /-- `sm.cancel`: about to clear the flag of stream `id` (read from entry `i`; lock held) -/
  | cancel (i id : Nat)
  /-- about to release `streams_lock` -/
  | unlock
  | done
  deriving DecidableEq, Repr

structure St where
  m : Multi.St
  w : WLoc
  /-- ghost: ids whose flag the walker cleared, in order -/
  cancelled : List Nat
  /-- ghost: the content of `used_streams` at the instant the walker took the lock -/
  seen : List Nat

inductive Act where
  /-- an action of the bookkeeping / fan-out model (create, drop, their micro-steps, send, poll, …) -/
  | multi (a : Multi.Act)
  | cancelAll
  | wstep
  deriving DecidableEq, Repr

def apply (s : St) : Act → St
  | .multi a => { s with m := Multi.apply s.m a }
  | .cancelAll => if s.w = .idle then { s with w := .lock } else s
  | .wstep =>
      match s.w with
      | .lock | .spin =>
          if s.m.slock then { s with w := .spin } else { s with m := { s.m with slock := true }, w := .read 0, seen := s.m.used }
      | .read i =>
          let id := s.m.used.getD i s.m.MAX
          if i ≥ s.m.MAX ∨ id = s.m.MAX then { s with w := .unlock } else { s with w := .cancel i id }
      | .cancel i id =>
          { s with m := Multi.apply s.m (.cancel id), cancelled := s.cancelled ++ [id], w := .read (i + 1) }
      | .unlock => { s with m := { s.m with slock := false }, w := .done }
      | _ => s

def run (s : St) (as : List Act) : St := as.foldl apply s
def mk (m : Multi.St) : St := { m := m, w := .idle, cancelled := [], seen := [] }
def init (mx : Nat) : St := mk (Multi.init mx 8 .arc true)

/-- the entries a walk starting at entry `i` of `used` visits: up to the sentinel `mx`, at most `mx` entries in all -/
def walkFrom (used : List Nat) (mx i : Nat) : List Nat := ((used.drop i).take (mx - i)).takeWhile (· ≠ mx)

end Mutiny.CancelAllLock
