/-!
# `u32` arithmetic of the ring buffers, exactly as the Rust source writes it (property C15)

The interleaving models M1/M2 use free-running `Nat` counters.  The code uses `u32` counters that wrap; every decision it
takes from them is one of the functions below, written over residues `< 2^32` the way the source writes them
(`overflowing_sub` / `overflowing_add` = wrapping, `as i32 > 0` = signed test, `/ N`, `% N`, and the *checked* `+`/`-` of
a build with overflow checks, which return `none` for "panic").  `Mutiny/Props/C15.lean` proves that under the window
bounds the ring invariant provides, each of them computes what the `Nat` model computes, for counters of any magnitude
(so also after they wrapped), and that no checked operation panics.  Import-free.
-/

namespace Mutiny.U32

notation "M32" => (4294967296 : Nat)

/-- the `u32` image of a free-running counter -/
def wrap (x : Nat) : Nat := x % M32

/-- `a.overflowing_sub(b).0` -/
def wsub (a b : Nat) : Nat := (a + M32 - b) % M32
/-- `a.overflowing_add(b).0` -/
def wadd (a b : Nat) : Nat := (a + b) % M32
/-- checked `a - b` (panics on underflow in a build with overflow checks) -/
def csub (a b : Nat) : Option Nat := if b ≤ a then some (a - b) else none
/-- checked `a + b` -/
def cadd (a b : Nat) : Option Nat := if a + b < M32 then some (a + b) else none
/-- checked `a * b` -/
def cmul (a b : Nat) : Option Nat := if a * b < M32 then some (a * b) else none
/-- `(x as i32) > 0` -/
def posI32 (x : Nat) : Bool := 0 < x && x < 2147483648

/-- producer admission test: `slot_id.overflowing_sub(head).0 < BUFFER_SIZE` (atomic_move.rs `leak_slot_internal`) -/
def admit32 (id32 head32 N : Nat) : Bool := wsub id32 head32 < N
/-- `len_before` returned with an admitted slot -/
def lenBefore32 (id32 head32 : Nat) : Nat := wsub id32 head32
/-- `len_after_publishing`: `i32::max(1, slot_id.overflowing_add(1).0.overflowing_sub(head).0 as i32) as u32` -/
def lenAfter32 (id32 head32 : Nat) : Nat :=
  let d := wsub (wadd id32 1) head32
  if posI32 d then d else 1
/-- consumer emptiness test: `tail.overflowing_sub(slot_id).0 as i32 > 0` (`consume_leaking_internal`) -/
def hasItem32 (tail32 id32 : Nat) : Bool := posI32 (wsub tail32 id32)
/-- slot index: `slot_id as usize % BUFFER_SIZE` -/
def index32 (id32 N : Nat) : Nat := id32 % N
/-- `available_elements_count`: `tail.overflowing_sub(head).0` -/
def len32 (tail32 head32 : Nat) : Nat := wsub tail32 head32
/-- full-sync admission: `tail.overflowing_sub(head).0 < BUFFER_SIZE` -/
def fsAdmit32 (tail32 head32 N : Nat) : Bool := wsub tail32 head32 < N

/-- one iteration of `try_publish_leaked_internal_index` after a failed CAS that reloaded `tail32`:
    `some g'` = retry with the new guess, `none` = give up (`break None`).
    The guess `slot_index + (reloaded_tail / N) * N` uses checked `+` and `*`. -/
def pubReguess32 (idx g32 tail32 N : Nat) : Option (Option Nat) :=
  if tail32 / N > g32 / N then
    match cmul (tail32 / N) N with
    | none => none                       -- panic
    | some m => match cadd idx m with
                | none => none           -- panic
                | some g' => some (some g')
  else some none

/-- the whole call, for a `tail` that nobody else moves meanwhile: `some (some _)` = published by CAS on the guessed id,
    `some none` = "retry later", `none` = panic.  At most `fuel` iterations. -/
def pubIdx32 (idx tail32 N : Nat) : Nat → Nat → Option (Option Nat)
  | 0, _ => some none
  | fuel + 1, g32 =>
    if tail32 = g32 then some (some g32)
    else match pubReguess32 idx g32 tail32 N with
         | none => none
         | some none => some none
         | some (some g') => pubIdx32 idx tail32 N fuel g'

/-- `try_unleak_slot_index_internal`, PINNED source: the lap is taken from the checked `reloaded_enqueuer_tail - 1` -/
def canReguessPinned32 (idx g32 enq32 N : Nat) : Option (Option Nat) :=
  match csub enq32 1 with
  | none => none                         -- `attempt to subtract with overflow`
  | some e1 =>
    if e1 / N > g32 / N then
      match cmul (e1 / N) N with
      | none => none
      | some m => match cadd idx m with
                  | none => none
                  | some g' => some (some g')
    else some none

/-- the same with `wrapping_sub(1)` (the repaired source) -/
def canReguess32 (idx g32 enq32 N : Nat) : Option (Option Nat) :=
  let e1 := wsub enq32 1
  if e1 / N > g32 / N then
    match cmul (e1 / N) N with
    | none => none
    | some m => match cadd idx m with
                | none => none
                | some g' => some (some g')
  else some none

/-- the whole cancel call for an `enqueuer_tail` nobody else moves meanwhile; CAS succeeds when `enq32 = g32 + 1` (wrapping) -/
def canIdx32 (reguess : Nat → Nat → Nat → Nat → Option (Option Nat)) (idx enq32 N : Nat) : Nat → Nat → Option (Option Nat)
  | 0, _ => some none
  | fuel + 1, g32 =>
    if enq32 = wadd g32 1 then some (some g32)
    else match reguess idx g32 enq32 N with
         | none => none
         | some none => some none
         | some (some g') => canIdx32 reguess idx enq32 N fuel g'

end Mutiny.U32
