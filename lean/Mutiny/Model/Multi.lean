/-!
# M6 + M7 `Multi` — stream-id bookkeeping of `StreamsManagerBase` and the fan-out of the Multi channels
  (`/repo/src/streams_manager.rs` `create_stream_id`, `report_stream_dropped`, `sync_vacant_and_used_streams`;
   `/repo/src/multi/channels/{arc,ogre_arc}/*.rs` `send_derived`, `consume`, `drop_resources`)

Granularity: every access to `used_streams_count`, the vacant-id FIFO, `keep_streams_running[..]`, `streams_lock` and each
single entry of `used_streams[..]` is its own step (hook tags `sm.create.*`, `sm.drop.count`, `sm.drop.vacant`,
`sm.sync.*`, `sm.running`, `mc.fan.read`); a per-listener queue operation (publish / consume / drain) is one step
(rings M1/M2 or crossbeam underneath).  The wake-up protocol is model M8 and not repeated here.

Two fan-out flavours:
* `arc`     : iterate `used_streams` until the sentinel, publish a clone into each listed queue;
* `ogreArc` : read `used_streams_count`, add it to the reference counter, publish a raw copy into the queue of each of the
              first `count` entries that is not the sentinel, finally drop the producer's own handle.
The sentinel (`u32::MAX`) is represented by `MAX`.  Import-free.
-/

namespace Mutiny.Multi

inductive Flavor where | arc | ogreArc
  deriving DecidableEq, Repr

inductive Res where
  | id (j : Nat)
  | unit
  /-- `send` rejected: the payload pool is exhausted (ogre_arc) -/
  | full
  | item (ev : Option Nat)
  deriving DecidableEq, Repr

inductive Loc where
  | idle
  | done (r : Res)
  -- create_stream_id
  | cCount                      -- `sm.create.count`  : `used_streams_count += 1`
  | cVacant                     -- `sm.create.vacant` : pop the vacant FIFO
  | cFlag (id : Nat)            -- `sm.create.flag`   : `keep[id] = true`
  -- drop: (drain the listener's queue — `mc.drop.drain`, only where the source does it), then `report_stream_dropped`
  | dDrain (id : Nat)
  | dCount (id : Nat)           -- `sm.drop.count`  : `used_streams_count -= 1`
  | dVacant (id : Nat)          -- `sm.drop.vacant` : push onto the vacant FIFO
  -- sync_vacant_and_used_streams; `r` is what the enclosing call returns
  | yLock (r : Res)             -- `sm.sync.lock`
  | ySpin (r : Res)             -- `sync.spin`
  | yPeek (r : Res)             -- `sm.sync.peek` : snapshot of the vacant ids
  /-- `sm.sync.write` / `sm.sync.sentinel`: about to write entry `i`; `rest` = values still to be written -/
  | yWrite (r : Res) (i : Nat) (rest : List Nat)
  -- send_derived
  | fArc (ev i id : Nat)        -- `mc.fan.read` (arc): entry `i` was read as `id`
  | fCount (ev : Nat)           -- `sm.running` (ogre_arc): read the count, add it to the reference counter
  | fOgre (ev i cnt : Nat)      -- `mc.fan.read` (ogre_arc): about to read entry `i < cnt`
  -- consumer
  | pPoll (id : Nat)            -- `ms.poll`: consume from the listener's own queue
  deriving DecidableEq, Repr

structure St where
  MAX    : Nat
  /-- BUFFER_SIZE: slots of the payload pool (ogre_arc) -/
  N      : Nat
  flavor : Flavor
  /-- whether `drop_resources` empties the listener's queue before giving the id back -/
  drains : Bool
  vacant : List Nat
  /-- `used_streams`: exactly `MAX` entries, sentinel = `MAX` -/
  used   : List Nat
  count  : Nat
  keep   : Nat → Bool
  queues : Nat → List Nat
  slock  : Bool
  thr    : Nat → Loc
  /-- ghost: listener ids handed out by `create` and not yet given to `drop`, oldest first -/
  live     : List Nat
  /-- ghost: incarnation number of the listener currently (or last) owning a stream id -/
  inc      : Nat → Nat
  /-- ghost: `(stream id, incarnation, event)` in delivery order -/
  delivered : List (Nat × Nat × Nat)
  /-- ghost: `(event, stream id)` for every publication -/
  pubs     : List (Nat × Nat)
  /-- ghost (ogre_arc): reference counter of each event's payload -/
  refs     : Nat → Nat
  /-- ghost: events whose send completed -/
  sent     : List Nat
  /-- events whose payload was allocated (ogre_arc) -/
  started  : List Nat

def init (mx n : Nat) (f : Flavor) (drains : Bool) : St :=
  { MAX := mx, N := n, flavor := f, drains := drains, vacant := List.range mx, used := List.replicate mx mx, count := 0,
    keep := fun _ => false, queues := fun _ => [], slock := false, thr := fun _ => .idle,
    live := [], inc := fun _ => 0, delivered := [], pubs := [], refs := fun _ => 0, sent := [], started := [] }

def setThr (s : St) (t : Nat) (l : Loc) : St := { s with thr := fun u => if u = t then l else s.thr u }

def sortNat (l : List Nat) : List Nat := l.foldr (fun x acc => (acc.filter (· < x)) ++ [x] ++ (acc.filter (fun y => ¬ y < x))) []

/-- the values `sync_vacant_and_used_streams` is going to write, in order: the non-vacant ids ascending, then sentinels -/
def syncPlan (mx : Nat) (vacant : List Nat) : List Nat :=
  let usedIds := (List.range mx).filter (fun i => !vacant.contains i)
  usedIds ++ List.replicate (mx - usedIds.length) mx

def publish (s : St) (ev id : Nat) : St :=
  { s with queues := fun j => if j = id then s.queues j ++ [ev] else s.queues j, pubs := s.pubs ++ [(ev, id)] }

def step (s : St) (t : Nat) : St :=
  match s.thr t with
  | .idle | .done _ => s
  | .cCount => setThr { s with count := s.count + 1 } t .cVacant
  | .cVacant =>
      match s.vacant with
      | id :: rest => setThr { s with vacant := rest } t (.cFlag id)
      | [] => s                                   -- the source panics: "MAX_STREAMS … exhausted"
  | .cFlag id =>
      setThr { s with keep := fun j => if j = id then true else s.keep j, live := s.live ++ [id],
                      inc := fun j => if j = id then s.inc j + 1 else s.inc j } t (.yLock (.id id))
  | .dDrain id =>
      let dropped := s.queues id
      setThr { s with queues := fun j => if j = id then [] else s.queues j,
                      refs := fun e => s.refs e - dropped.count e } t (.dCount id)
  | .dCount id => setThr { s with count := s.count - 1 } t (.dVacant id)
  | .dVacant id => setThr { s with vacant := s.vacant ++ [id] } t (.yLock .unit)
  | .yLock r | .ySpin r => if s.slock then setThr s t (.ySpin r) else setThr { s with slock := true } t (.yPeek r)
  | .yPeek r =>
      match syncPlan s.MAX s.vacant with
      | [] => setThr { s with slock := false } t (.done r)
      | plan => setThr s t (.yWrite r 0 plan)
  | .yWrite r i rest =>
      match rest with
      | [] => setThr { s with slock := false } t (.done r)
      | [x] => setThr { s with used := s.used.set i x, slock := false } t (.done r)
      | x :: more => setThr { s with used := s.used.set i x } t (.yWrite r (i + 1) more)
  | .fArc ev i id =>
      if id = s.MAX then setThr { s with sent := s.sent ++ [ev] } t (.done .unit)
      else
        let s1 := publish s ev id
        if i + 1 < s.MAX then setThr s1 t (.fArc ev (i + 1) (s.used.getD (i + 1) s.MAX))
        else setThr { s1 with sent := s1.sent ++ [ev] } t (.done .unit)
  | .fCount ev =>
      let s1 := { s with refs := fun e => if e = ev then s.refs e + s.count else s.refs e }
      if s.count = 0 then setThr { s1 with refs := fun e => if e = ev then s1.refs e - 1 else s1.refs e, sent := s.sent ++ [ev] } t (.done .unit)
      else setThr s1 t (.fOgre ev 0 s.count)
  | .fOgre ev i cnt =>
      let id := s.used.getD i s.MAX
      let s1 := if id = s.MAX then s else publish s ev id
      if i + 1 < cnt then setThr s1 t (.fOgre ev (i + 1) cnt)
      else setThr { s1 with refs := fun e => if e = ev then s1.refs e - 1 else s1.refs e, sent := s1.sent ++ [ev] } t (.done .unit)
  | .pPoll id =>
      match s.queues id with
      | ev :: rest =>
          setThr { s with queues := fun j => if j = id then rest else s.queues j,
                          delivered := s.delivered ++ [(id, s.inc id, ev)] } t (.done (.item (some ev)))
      | [] => setThr s t (.done (.item none))

inductive Act where
  | create (t : Nat)
  /-- drop the stream of listener `id` (must be live, with no drop of it in progress) -/
  | drop (t id : Nat)
  | send (t ev : Nat)
  /-- the consumer of listener `id` polls once -/
  | poll (t id : Nat)
  /-- the consumer releases the payload handle of `ev` it received (ogre_arc) -/
  | release (ev : Nat)
  /-- `cancel_stream(id)`: the listener is told to end (`keep_streams_running[id] = false`; its wake-up is model M8's) -/
  | cancel (id : Nat)
  | step (t : Nat)
  | ack (t : Nat)
  deriving DecidableEq, Repr

def apply (s : St) : Act → St
  | .create t => if s.thr t = .idle then setThr s t .cCount else s
  | .drop t id =>
      if s.thr t = .idle ∧ id ∈ s.live then
        setThr { s with live := s.live.erase id } t (if s.drains then .dDrain id else .dCount id)
      else s
  | .send t ev =>
      if s.thr t = .idle then
        match s.flavor with
        | .arc => if s.MAX = 0 then setThr { s with sent := s.sent ++ [ev] } t (.done .unit)
                  else setThr s t (.fArc ev 0 (s.used.getD 0 s.MAX))
        | .ogreArc =>
            -- `OgreArc::new`: one pool slot per event whose reference counter is not back to 0
            if (s.started.filter (fun e => s.refs e > 0)).length < s.N then
              setThr { s with refs := fun e => if e = ev then 1 else s.refs e, started := s.started ++ [ev] } t (.fCount ev)
            else setThr s t (.done .full)
      else s
  | .poll t id => if s.thr t = .idle then setThr s t (.pPoll id) else s
  | .release ev => { s with refs := fun e => if e = ev then s.refs e - 1 else s.refs e }
  | .cancel id => { s with keep := fun j => if j = id then false else s.keep j }
  | .step t => step s t
  | .ack t => match s.thr t with
              | .done _ => setThr s t .idle
              | _ => s

def run (s : St) (as : List Act) : St := as.foldl apply s
def Reachable (mx n : Nat) (f : Flavor) (d : Bool) (s : St) : Prop := ∃ as, s = run (init mx n f d) as

def tagOf (mx : Nat) : Loc → Option (String × Nat)
  | .cCount => some ("sm.create.count", 0)
  | .cVacant => some ("sm.create.vacant", 0)
  | .cFlag id => some ("sm.create.flag", id)
  | .dDrain id => some ("mc.drop.drain", id)
  | .dCount id => some ("sm.drop.count", id)
  | .dVacant id => some ("sm.drop.vacant", id)
  | .yLock _ => some ("sm.sync.lock", 0)
  | .ySpin _ => some ("sync.spin", 0)
  | .yPeek _ => some ("sm.sync.peek", 0)
  | .yWrite _ i rest => some (if rest.head? = some mx then "sm.sync.sentinel" else "sm.sync.write", i)
  | .fArc _ _ id => some ("mc.fan.read", id)
  | .fCount _ => some ("sm.running", 0)
  | .fOgre _ i _ => some ("mc.fan.read", i)
  | .pPoll id => some ("ms.poll", id)
  | _ => none

def Res.show : Res → String
  | .id j => s!"id {j}"
  | .unit => "unit"
  | .full => "full"
  | .item (some e) => s!"item {e}"
  | .item none => "item none"

end Mutiny.Multi
