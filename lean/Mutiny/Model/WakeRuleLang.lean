/-!
# The tiny expression language in which `tools/extract.py` (G3) writes down the wake decisions it reads from the channel
  sources (`lean/Mutiny/Generated/WakeRules.lean`), and its evaluation.

A *chain* is an `if … else if …` cascade guarding `wake_stream(target)` calls (first guard that holds wins).
Lengths: the model's wake rules are functions of the length AFTER the publication; a guard over `len_before` is evaluated
with `len_before = len_after - 1`.  Import-free.
-/
namespace Mutiny.WakeRuleLang

inductive V where | lenAfter | lenBefore
  deriving DecidableEq, Repr

inductive E where
  /-- `MAX_STREAMS + plus` -/
  | max (plus : Nat)
  | const (k : Nat)
  deriving DecidableEq, Repr

inductive G where
  | le (v : V) (e : E)
  | lt (v : V) (e : E)
  | eq (v : V) (e : E)
  /-- `stream_id != u32::MAX` inside a loop over `used_streams` (wake every listed stream) -/
  | notSentinel
  /-- no guard at all -/
  | always
  /-- a condition the translator does not understand (verbatim) -/
  | other (text : String)
  deriving DecidableEq, Repr

inductive T where
  | varMinus (v : V) (k : Nat)
  | const (k : Nat)
  /-- the listener whose queue was just published to (Multi channels) -/
  | streamId
  | other (text : String)
  deriving DecidableEq, Repr

abbrev Chain := List (G × T)

def V.val (lenAfter : Nat) : V → Nat
  | .lenAfter => lenAfter
  | .lenBefore => lenAfter - 1

def E.val (MAX : Nat) : E → Nat
  | .max p => MAX + p
  | .const k => k

/-- `none`: not expressible -/
def G.holds (MAX lenAfter : Nat) : G → Option Bool
  | .le v e => some (decide (v.val lenAfter ≤ e.val MAX))
  | .lt v e => some (decide (v.val lenAfter < e.val MAX))
  | .eq v e => some (decide (v.val lenAfter = e.val MAX))
  | .notSentinel => some true
  | .always => some true
  | .other _ => none

/-- per-listener rules of the Multi channels talk about "that listener": stream 0 of the one-listener model -/
def T.val (lenAfter : Nat) : T → Option Nat
  | .varMinus v k => some (v.val lenAfter - k)
  | .const k => some k
  | .streamId => some 0
  | .other _ => none

/-- whom the chain wakes (`some none` = nobody); `none` = the chain contains something the translator could not express -/
def evalChain (MAX lenAfter : Nat) : Chain → Option (Option Nat)
  | [] => some none
  | (g, t) :: rest =>
      match g.holds MAX lenAfter with
      | none => none
      | some b => if b then (t.val lenAfter).map some else evalChain MAX lenAfter rest

end Mutiny.WakeRuleLang
