import Mutiny.Props.C01
import Mutiny.Props.C02
import Mutiny.Proofs.RingRsv

/-!
# C18 (queue part) — the stand-alone non-blocking *atomic* queue is linearizable w.r.t. a bounded FIFO

The stand-alone queue is exactly `publish_movable` / `consume_movable` / `available_elements_count` of the ring `M1`
(`Model/Ring.lean`; actions `send`, `recv`, `len`, `step`, `ack`).  This file only packages C02 and C01: every execution —
any number of threads, any schedule, any length — refines the bounded FIFO `abs s` (capacity `N`) with fixed linearization
points: the successful `tail` CAS (enqueue at the back; the call then returns `sent`), the successful `head` CAS (dequeue
of the front; the call returns exactly that element), the `head` load of the emptiness re-check (for `empty`) and the `head`
load of the failed admission test (for `full`).
-/

namespace Mutiny.Ring

variable {n : Nat} {s : St}

theorem c18_queue_linearizable (hn : 0 < n) :
    -- every execution of the queue API is in scope
    (∀ as : List Act, (∀ a ∈ as, queueAct a) → ReachableX n (run (init n) as)) ∧
    ∀ s, ReachableX n s →
      -- bounded
      (abs s).length ≤ s.N ∧
      -- each micro-step is invisible, or one enqueue at the back / one dequeue at the front returning the abstract result
      (∀ t, abs (step s t) = abs s
        ∨ (∃ v id len, s.thr t = .pPublish v id len ∧ abs (step s t) = abs s ++ [v] ∧ (abs s).length < s.N
              ∧ (step s t).thr t = .pLen id)
        ∨ (∃ id idx g, s.thr t = .rPub id idx g ∧ abs (step s t) = abs s ++ [s.buf idx] ∧ (abs s).length < s.N
              ∧ (step s t).thr t = .rLen g)
        ∨ (∃ id v, s.thr t = .cRelease id v ∧ abs s = v :: abs (step s t) ∧ (step s t).thr t = .done (.got v))) ∧
      -- calls and acknowledgements are invisible
      (∀ a, (∀ t, a ≠ .step t) → abs (apply s a) = abs s) ∧
      -- `empty` only with the witness "the queue was empty at the `head` load of this call"
      (∀ t, (s.thr t = .cChkHead → ((step s t).thr t = .cChkTail s.head true ↔ abs s = [])) ∧
            (∀ a, (apply s a).thr t = .done .empty → s.thr t = .done .empty ∨
                (a = .step t ∧ ∃ h, s.thr t = .cChkTail h true ∧ s.tail = h))) ∧
      -- `full` only with the witness "all `N` sequence numbers of the window were taken at the `head` load of this call"
      (∀ t, (∀ v id rsv, s.thr t = .pLoadHead v id rsv → ¬ (id - s.head < s.N) →
                (step s t).thr t = .pRecede v id rsv true ∧
                ∀ k, s.head ≤ k → k < s.head + s.N → k < s.tail ∨ ∃ u, u ≠ t ∧ holdsP (s.thr u) k) ∧
            (∀ a, (apply s a).thr t = .done .full → s.thr t = .done .full ∨
                (a = .step t ∧ ∃ v id rsv, s.thr t = .pRecede v id rsv true ∧ s.enqTail = id + 1))) ∧
      -- FIFO, exactly once
      s.delivered.map (·.2.2) = s.accepted.take s.head ∧ s.delivered.map (·.2.1) = List.range s.head ∧
      (s.delivered.map (·.2.1)).Nodup := by
  refine ⟨fun as h => reachableX_of_queueActs n as h, ?_⟩
  intro s hr
  refine ⟨(c02_capacity hn hr).2, fun t => c02_step_abs hn hr t, fun a h => c02_call_abs s a h, ?_, ?_,
    (c02_fifo hn hr).1, (c02_fifo hn hr).2, c01_delivered_distinct hn hr⟩
  · intro t
    have := c02_empty_witness hn hr t
    exact ⟨this.1, this.2.2.2⟩
  · intro t
    have := c02_full_witness hn hr t
    exact ⟨this.2.1, this.2.2⟩

/-! ## non-vacuity -/

/-- a queue-API execution reaching a full queue, and one delivering in FIFO order -/
example : (∀ a ∈ fullRun, queueAct a) ∧ (abs (run (init 2) fullRun)).length = 2 := by
  refine ⟨?_, by decide⟩
  intro a ha
  simp only [fullRun, List.mem_cons, List.not_mem_nil, or_false] at ha
  rcases ha with h | h | h | h | h | h | h | h | h | h | h | h | h | h <;> subst h <;> trivial

example : let s := run (init 2) (sendSolo 0 5 ++ [.ack 0] ++ sendSolo 0 6 ++ [.ack 0] ++ recvSolo 1 ++ [.ack 1] ++ recvSolo 1)
    s.delivered = [(1, 0, 5), (1, 1, 6)] ∧ abs s = [] := by decide

#print axioms c18_queue_linearizable

end Mutiny.Ring
