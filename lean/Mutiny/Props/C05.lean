import Mutiny.Proofs.HandlesProps
import Mutiny.Proofs.TeardownProps
import Mutiny.Generated.DropOrder

/-!
# C05 — a pooled payload is destroyed exactly once, its storage is never reused while a handle is left, and the
# teardown of the owning channel is safe

Scope: every `n`, every `s` with `Reachable n s` (any number of threads, any schedule).  `dropLog` records every destructor
run as `(slot id, allocation generation, value)`; generations are unique per allocation (`nextGen`).
Teardown is about the *declaration order* of the fields of the channel structs, extracted from the Rust source into
`Mutiny/Generated/DropOrder.lean`.
-/

namespace Mutiny.Handles

open Mutiny.Teardown

variable {n : Nat} {s : St}

/-- no allocation generation is destroyed twice, and only generations that were allocated are destroyed -/
theorem c05_drop_once (hr : Reachable n s) :
    (s.dropLog.map (·.2.1)).Nodup ∧ ∀ e ∈ s.dropLog, e.2.1 < s.nextGen :=
  ⟨(reachable_inv hr).logNodup, (reachable_inv hr).logLt⟩

/-- once a control block no longer owns its slot and its destructor run is not pending any more (`dDestroy`) — in
    particular once it was given back to the heap (`freed`) — its payload was destroyed exactly once, in its own slot,
    holding the value it was created with -/
theorem c05_destroyed_when_released (hr : Reachable n s) (i : Nat) (hlen : i < s.cbs.length) :
    (¬ Owning s i → (∀ t, s.thr t ≠ .dDestroy i) → (s.dropLog.map (·.2.1)).count (getCB s i).gen = 1 ∧
        ((getCB s i).id, (getCB s i).gen, (getCB s i).val) ∈ s.dropLog) ∧
    ((getCB s i).freed = true → ¬ Owning s i ∧ ∀ t, s.thr t ≠ .dDestroy i) ∧
    ((getCB s i).freed = true → (s.dropLog.map (·.2.1)).count (getCB s i).gen = 1) := by
  have hi := reachable_inv hr
  have h1 : ¬ Owning s i → (∀ t, s.thr t ≠ .dDestroy i) → (s.dropLog.map (·.2.1)).count (getCB s i).gen = 1 ∧
      ((getCB s i).id, (getCB s i).gen, (getCB s i).val) ∈ s.dropLog := by
    intro hno hnd
    have hm := hi.deadLogged i hlen (fun ho => by
      rcases (owns_iff hi i).1 ho with h' | ⟨t, ht⟩
      · exact hno h'
      · exact hnd t ht)
    refine ⟨?_, hm⟩
    rw [hi.logNodup.count, if_pos]
    exact List.mem_map.2 ⟨_, hm, rfl⟩
  have h2 : (getCB s i).freed = true → ¬ Owning s i ∧ ∀ t, s.thr t ≠ .dDestroy i := by
    intro hf
    refine ⟨fun ho => ?_, fun t ht => ?_⟩
    · have := owning_not_freed hi ho
      rw [hf] at this; cases this
    · have := (hi.tailOk t i (by simp [ht, tailOf])).2.1
      rw [hf] at this; cases this
  exact ⟨h1, h2, fun hf => (h1 (h2 hf).1 (h2 hf).2).1⟩

/-- while a handle of control block `i` is left (existing, in use by a call, or announced), no allocation returns its
    slot and nothing overwrites the slot -/
theorem c05_no_reuse_while_held (hr : Reachable n s) (i : Nat)
    (hh : (getCB s i).live + (getCB s i).lent + (getCB s i).owed > 0) :
    (∀ t v id, s.thr t = .idle → (apply s (.newUnique t v)).thr t = .done (.unique id) → id ≠ (getCB s i).id) ∧
    (∀ t v k j, s.thr t = .idle → k > 0 → (apply s (.newArc t v k)).thr t = .done (.arc j) →
        (getCB (apply s (.newArc t v k)) j).id ≠ (getCB s i).id) ∧
    (∀ a, (apply s a).slot (getCB s i).id = s.slot (getCB s i).id) ∧
    s.slot (getCB s i).id = (getCB s i).val ∧ s.alive (getCB s i).id = true := by
  have hi := reachable_inv hr
  have ho := held_owning hi hh
  have hown := owns_of_owning hi ho
  refine ⟨fun t v id ht hres e => ?_, fun t v k j ht hk hres e => ?_, fun a => ?_, (hi.ownOk i hown).2.2.2.2, hown.2.1⟩
  · cases hf : s.free with
    | nil => rw [newUnique_none v ht hf] at hres; simp at hres
    | cons x rest =>
      rw [newUnique_eq v ht hf] at hres
      simp only [thr_setThr, if_true, Loc.done.injEq, Res.unique.injEq] at hres
      exact (hi.ownOk i hown).2.2.1 (by rw [hf, ← e, ← hres]; exact List.mem_cons_self ..)
  · cases hf : s.free with
    | nil => rw [newArc_none v ht hk hf] at hres; simp at hres
    | cons x rest =>
      rw [newArc_eq v ht hk hf] at hres e
      simp only [thr_setThr, if_true, Loc.done.injEq, Res.arc.injEq] at hres
      subst hres
      simp only [getCB_setThr, getCB_pushCB, cbs_allocSt, if_true] at e
      exact (hi.ownOk i hown).2.2.1 (by rw [hf, ← e]; exact List.mem_cons_self ..)
  · exact slot_apply_of_not_free s a _ (hi.ownOk i hown).2.2.1

/-- the same for a slot held by a unique handle / raw allocation -/
theorem c05_no_reuse_while_held_unique (hr : Reachable n s) (u : Nat) (hu : u ∈ s.uniques) :
    (∀ t v id, s.thr t = .idle → (apply s (.newUnique t v)).thr t = .done (.unique id) → id ≠ u) ∧
    (∀ t v k j, s.thr t = .idle → k > 0 → (apply s (.newArc t v k)).thr t = .done (.arc j) →
        (getCB (apply s (.newArc t v k)) j).id ≠ u) ∧
    (∀ a, (apply s a).slot u = s.slot u) ∧ s.alive u = true := by
  have hi := reachable_inv hr
  have hnf := (hi.uniqOk u hu).2.1
  refine ⟨fun t v id ht hres e => ?_, fun t v k j ht hk hres e => ?_, fun a => ?_, (hi.uniqOk u hu).2.2⟩
  · cases hf : s.free with
    | nil => rw [newUnique_none v ht hf] at hres; simp at hres
    | cons x rest =>
      rw [newUnique_eq v ht hf] at hres
      simp only [thr_setThr, if_true, Loc.done.injEq, Res.unique.injEq] at hres
      exact hnf (by rw [hf, ← e, ← hres]; exact List.mem_cons_self ..)
  · cases hf : s.free with
    | nil => rw [newArc_none v ht hk hf] at hres; simp at hres
    | cons x rest =>
      rw [newArc_eq v ht hk hf] at hres e
      simp only [thr_setThr, if_true, Loc.done.injEq, Res.arc.injEq] at hres
      subst hres
      simp only [getCB_setThr, getCB_pushCB, cbs_allocSt, if_true] at e
      exact hnf (by rw [hf, ← e]; exact List.mem_cons_self ..)
  · exact slot_apply_of_not_free s a u hnf

/-- **the storage of a payload is never handed out before its destructor has finished**: while a thread is inside
    `dealloc_id` for slot `x` — destructor pending or running (`dDestroy i` / `uDestroy x`) or done with the free-list push
    still pending (`dRelease i` / `uRelease x`) — the slot is not in the free list, hence no `newArc` / `newUnique` of
    anybody returns it, and no action of anybody overwrites it.  (A `dealloc_id` that pushes the id before running the
    destructor violates exactly this.) -/
theorem c05_not_allocatable_while_destroyed (hr : Reachable n s) (u x : Nat)
    (hx : inTransitOf s (s.thr u) = some x) :
    x ∉ s.free ∧
    (∀ t v id, s.thr t = .idle → (apply s (.newUnique t v)).thr t = .done (.unique id) → id ≠ x) ∧
    (∀ t v k j, s.thr t = .idle → k > 0 → (apply s (.newArc t v k)).thr t = .done (.arc j) →
        (getCB (apply s (.newArc t v k)) j).id ≠ x) ∧
    (∀ a, (apply s a).slot x = s.slot x) ∧
    x ∉ s.uniques ∧ (∀ i, Owning s i → (getCB s i).id ≠ x) ∧
    (∀ w, inTransitOf s (s.thr w) = some x → w = u) := by
  have hi := reachable_inv hr
  have hok := inTransit_ok hi hx
  have hnf := hok.2.1
  refine ⟨hnf, fun t v id ht hres e => ?_, fun t v k j ht hk hres e => ?_, fun a => ?_, hok.2.2.1, hok.2.2.2,
    fun w hw => inTransit_inj hi hw hx⟩
  · cases hf : s.free with
    | nil => rw [newUnique_none v ht hf] at hres; simp at hres
    | cons y rest =>
      rw [newUnique_eq v ht hf] at hres
      simp only [thr_setThr, if_true, Loc.done.injEq, Res.unique.injEq] at hres
      exact hnf (by rw [hf, ← e, ← hres]; exact List.mem_cons_self ..)
  · cases hf : s.free with
    | nil => rw [newArc_none v ht hk hf] at hres; simp at hres
    | cons y rest =>
      rw [newArc_eq v ht hk hf] at hres e
      simp only [thr_setThr, if_true, Loc.done.injEq, Res.arc.injEq] at hres
      subst hres
      simp only [getCB_setThr, getCB_pushCB, cbs_allocSt, if_true] at e
      exact hnf (by rw [hf, ← e]; exact List.mem_cons_self ..)
  · exact slot_apply_of_not_free s a x hnf

/-- the four program points, spelled out; with the state of the payload at each -/
theorem c05_destroy_then_release (hr : Reachable n s) (t : Nat) :
    (∀ i, s.thr t = .dDestroy i → (getCB s i).id ∉ s.free ∧ s.alive (getCB s i).id = true ∧
        (getCB s i).gen ∉ s.dropLog.map (·.2.1)) ∧
    (∀ i, s.thr t = .dRelease i → (getCB s i).id ∉ s.free ∧ s.alive (getCB s i).id = false ∧
        (s.dropLog.map (·.2.1)).count (getCB s i).gen = 1) ∧
    (∀ x, s.thr t = .uDestroy x → x ∉ s.free ∧ s.alive x = true ∧ s.slotGen x ∉ s.dropLog.map (·.2.1)) ∧
    (∀ x, s.thr t = .uRelease x → x ∉ s.free ∧ s.alive x = false ∧
        (s.dropLog.map (·.2.1)).count (s.slotGen x) = 1) := by
  have hi := reachable_inv hr
  obtain ⟨h1, h2, h3, h4⟩ := inTransit_status hi t
  refine ⟨fun i hl => ?_, fun i hl => ?_, fun x hl => ?_, fun x hl => ?_⟩
  · exact ⟨(inTransit_ok hi (t := t) (by simp [hl, inTransitOf])).2.1, (h1 i hl).1, (h1 i hl).2.2⟩
  · exact ⟨(inTransit_ok hi (t := t) (by simp [hl, inTransitOf])).2.1, (h2 i hl).1, (h2 i hl).2.2⟩
  · exact ⟨(inTransit_ok hi (t := t) (by simp [hl, inTransitOf])).2.1, (h3 x hl).1, (h3 x hl).2⟩
  · exact ⟨(inTransit_ok hi (t := t) (by simp [hl, inTransitOf])).2.1, (h4 x hl).1, (h4 x hl).2.2⟩

/-- when every owner is gone and nobody is inside `dealloc_id` the pool is back at full capacity: nothing leaked -/
theorem c05_capacity_restored (hr : Reachable n s) (ho : ∀ i, ¬ Owning s i) (hu : s.uniques = [])
    (ht : ∀ t, inTransitOf s (s.thr t) = none) :
    s.free.length = s.N ∧ s.N = n ∧ ∀ x, x < n → x ∈ s.free := by
  have hi := reachable_inv hr
  obtain ⟨own, tr, h1, h1', h2, h2', h3, _, _, h6⟩ := pool_partition hi
  have hown : own = [] := by
    cases own with
    | nil => rfl
    | cons a _ => exact absurd ((h2 a).1 (List.mem_cons_self ..)) (ho a)
  have htr : tr = [] := by
    cases tr with
    | nil => rfl
    | cons a _ => have := (h2' a).1 (List.mem_cons_self ..); rw [ht a] at this; cases this
  subst hown; subst htr
  rw [hu] at h3 h6
  have hN := N_reachable hr
  refine ⟨by simpa using h3, hN, fun x hx => ?_⟩
  have : x ∈ List.range s.N := List.mem_range.2 (hN ▸ hx)
  simpa using h6.mem_iff.2 this

/-! ## teardown -/

/-- no pool access after the pool was freed — whatever number `k` of handles each handle-holding field still buffers —
    iff no handle-holding field is declared after the allocator; all buffered handles are destroyed -/
theorem c05_teardown_safe_iff (fields : List Role) :
    ((∀ k, (teardown fields k).errors = 0) ↔ orderOk fields = true) ∧
    (∀ k, (teardown fields k).dropped = k * handleCount fields) ∧
    (∀ k, (teardown fields k).errors = k * lateHandles fields) :=
  ⟨teardown_safe_iff fields, teardown_dropped fields, teardown_errors fields⟩

-- BEGIN c05_teardown_generated
/-- The instance on the tables GENERATED from the current Rust source (`tools/extract.py`, regenerated on every run):
    in every channel / container struct that owns a pool together with handles into it, every handle-holding field is
    declared (hence dropped) before the allocator.  On the pinned tree this was false for the two Multi ogre_arc channels
    (`allocator` declared before `dispatcher_managers`: use after free at teardown with buffered events, defect D2);
    reordering fields in the source changes the generated table and re-runs this obligation. -/
theorem c05_teardown_generated : ∀ p ∈ Mutiny.Generated.allStructs, orderOk (p.2.map (·.2)) = true := by decide
#print axioms c05_teardown_generated
/-- the defective order of the pinned tree, kept as a witness that the criterion is not vacuous -/
theorem c05_teardown_pinned_counterexample :
    (teardown ([("streams_manager", Role.other), ("allocator", .allocator), ("dispatcher_managers", .handles),
                ("_phanrom", .other)].map (·.2)) 1).errors = 1 := by decide
#print axioms c05_teardown_pinned_counterexample
-- END c05_teardown_generated

/-- the corrected order (handle-holding field before the allocator) is safe -/
example : orderOk [.other, .handles, .allocator, .other] = true := by decide
example : ∀ k, (teardown [.other, .handles, .allocator, .other] k).errors = 0 :=
  (teardown_safe_iff _).2 (by decide)
/-- … and the instance theorem goes through, verbatim, on the tables with `dispatcher_managers` moved up -/
example : ∀ p ∈ [("multiOgreArcAtomic", [("streams_manager", Role.other), ("dispatcher_managers", .handles),
      ("allocator", .allocator), ("_phanrom", .other)]), ("uniZeroCopyAtomic", Mutiny.Generated.uniZeroCopyAtomic),
      ("atomicZeroCopy", Mutiny.Generated.atomicZeroCopy)], orderOk (p.2.map (·.2)) = true := by decide
/-- the four tables that are fine today -/
example : ∀ p ∈ [Mutiny.Generated.uniZeroCopyAtomic, Mutiny.Generated.uniZeroCopyFullSync,
    Mutiny.Generated.atomicZeroCopy, Mutiny.Generated.fullSyncZeroCopy], orderOk (p.map (·.2)) = true := by decide

/-! ## non-vacuity -/

/-- a shared value with two handles: destroyed once, when the last one goes; then the control block is freed and the
    pool is whole again -/
example : let s := run (init 2) [.newArc 0 7 2, .ack 0, .dropArc 0 0, .step 0, .ack 0, .dropArc 1 0, .step 1, .step 1, .step 1,
      .step 1, .step 1]
    Reachable 2 s ∧ s.dropLog = [(0, 1, 7)] ∧ (getCB s 0).freed = true ∧ s.free = [1, 0] ∧ s.uniques = [] :=
  ⟨⟨_, rfl⟩, by decide, by decide, by decide, by decide⟩

/-- held: one handle left after the first drop — nothing destroyed, slot intact, an allocation gets the *other* slot -/
example : let s := run (init 2) [.newArc 0 7 2, .ack 0, .dropArc 0 0, .step 0, .ack 0, .newUnique 1 9]
    s.dropLog = [] ∧ (getCB s 0).live = 1 ∧ s.slot 0 = 7 ∧ s.thr 1 = .done (.unique 1) := by decide

/-- the seeded bug's window: thread 1 is between destructor and push for slot 0 — slot 0 is not allocatable, the
    allocation of thread 0 gets slot 1 -/
example : let s := run (init 2) [.newArc 0 7 1, .ack 0, .dropArc 1 0, .step 1, .step 1, .step 1, .newUnique 0 9]
    Reachable 2 s ∧ s.thr 1 = .dRelease 0 ∧ s.dropLog = [(0, 1, 7)] ∧ s.free = [] ∧ s.thr 0 = .done (.unique 1) ∧
    s.slot 0 = 7 := ⟨⟨_, rfl⟩, by decide, by decide, by decide, by decide, by decide⟩

#print axioms c05_drop_once
#print axioms c05_destroyed_when_released
#print axioms c05_no_reuse_while_held
#print axioms c05_no_reuse_while_held_unique
#print axioms c05_not_allocatable_while_destroyed
#print axioms c05_destroy_then_release
#print axioms c05_capacity_restored
#print axioms c05_teardown_safe_iff

end Mutiny.Handles
