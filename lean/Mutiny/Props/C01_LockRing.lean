import Mutiny.Proofs.LockRingProps

/-!
# C01 on the `LockRing` model (`FullSyncMove`): no loss, no duplication, no invention

`accepted` is the ghost list of every value whose `send` passed its `pPublish` step (index = sequence number);
`delivered` is the ghost list of `(consumer, sequence number, value)` appended at every `cRelease` step.
Theorems without a `Reachable` hypothesis hold in *every* state.
-/

namespace Mutiny.LockRing

/-- No duplication: every sequence number is delivered at most once. -/
theorem c01_delivered_distinct {n : Nat} {s : St} (hn : 0 < n) (h : Reachable n s) :
    (s.delivered.map (·.2.1)).Nodup :=
  delivered_distinct_of_inv (reachable_inv hn h)

/-- No invention / no corruption: a delivered `(t, k, v)` is the `k`-th accepted value. -/
theorem c01_delivered_was_accepted {n : Nat} {s : St} (hn : 0 < n) (h : Reachable n s) {t k v : Nat}
    (hm : (t, k, v) ∈ s.delivered) : s.accepted[k]? = some v :=
  delivered_was_accepted_of_inv (reachable_inv hn h) hm

/-- No loss: every accepted sequence number was either delivered or still sits in its slot of the buffer. -/
theorem c01_no_loss {n : Nat} {s : St} (hn : 0 < n) (h : Reachable n s) :
    ∀ k, k < s.tail →
      (∃ t v, (t, k, v) ∈ s.delivered) ∨ (s.head ≤ k ∧ s.accepted[k]? = some (s.buf (k % s.N))) :=
  no_loss_of_inv (reachable_inv hn h)

/-- Every accepted value has a sequence number below `tail` (so `c01_no_loss` covers all of `accepted`). -/
theorem c01_accepted_length {n : Nat} {s : St} (hn : 0 < n) (h : Reachable n s) :
    s.accepted.length = s.tail :=
  (reachable_inv hn h).accLen

/-- `accepted` only grows, and only at the `pPublish` step, by the value being sent (any state). -/
theorem c01_accept_only_by_publish (s : St) (t : Nat) :
    (step s t).accepted = s.accepted
    ∨ (∃ v len, s.thr t = .pPublish v len ∧ (step s t).accepted = s.accepted ++ [v]) :=
  accept_only_by_publish s t

/-- A `send` on its way to the `full` exit (or still waiting for the flag) touches nothing of the ring (any state). -/
theorem c01_reject_untouched (s : St) (t : Nat)
    (ht : (∃ v, s.thr t = .pLock v) ∨ (∃ v, s.thr t = .pSpin v) ∨ (∃ v, s.thr t = .pCheck v)
          ∨ s.thr t = .pFullUnlocked) :
    (step s t).buf = s.buf ∧ (step s t).accepted = s.accepted ∧ (step s t).tail = s.tail
    ∧ (step s t).head = s.head ∧ (step s t).delivered = s.delivered :=
  reject_untouched s t ht

/-! ## non-vacuity -/

/-- Capacity 2, three sends and two receives by different threads: slot reuse (`k = 2` lands in slot 0), one element
delivered twice is impossible, the third is still buffered. -/
example :
    let s := run (init 2) [.send 0 7, .step 0, .step 0, .step 0, .step 0, .step 0, .ack 0,
                           .send 0 8, .step 0, .step 0, .step 0, .step 0, .step 0, .ack 0,
                           .recv 1, .step 1, .step 1, .step 1, .step 1, .step 1, .step 1, .ack 1,
                           .send 0 9, .step 0, .step 0, .step 0, .step 0, .step 0, .ack 0,
                           .recv 2, .step 2, .step 2, .step 2, .step 2, .step 2, .step 2]
    Reachable 2 s ∧ s.delivered = [(1, 0, 7), (2, 1, 8)] ∧ s.accepted = [7, 8, 9] ∧ s.tail = 3 ∧ s.head = 2
      ∧ s.buf (2 % s.N) = 9 ∧ s.thr 2 = .done (.got 8) := by
  refine ⟨⟨_, rfl⟩, ?_⟩; decide

/-- A rejected `send` (ring full) on each of the four program points of `c01_reject_untouched`. -/
example :
    let s := run (init 1) [.send 0 7, .step 0, .step 0, .step 0, .step 0, .step 0, .ack 0, .send 1 8]
    Reachable 1 s ∧ s.thr 1 = .pLock 8 ∧ (step s 1).thr 1 = .pCheck 8
      ∧ (step (step s 1) 1).thr 1 = .pFullUnlocked ∧ (step (step (step s 1) 1) 1).thr 1 = .done .full := by
  refine ⟨⟨_, rfl⟩, ?_⟩; decide

end Mutiny.LockRing

open Mutiny.LockRing in
#print axioms c01_delivered_distinct
open Mutiny.LockRing in
#print axioms c01_delivered_was_accepted
open Mutiny.LockRing in
#print axioms c01_no_loss
open Mutiny.LockRing in
#print axioms c01_accepted_length
open Mutiny.LockRing in
#print axioms c01_accept_only_by_publish
open Mutiny.LockRing in
#print axioms c01_reject_untouched
