import Mutiny.Proofs.LockRingProps

/-!
# C02 on the `LockRing` model (`FullSyncMove`): bounded FIFO queue, fixed linearization points, exact `empty`/`full`

`abs s = accepted.drop head` is the abstract queue.  All theorems hold for every capacity `n > 0`, every number of
threads, every schedule (`Reachable n s`).  Theorems without a `Reachable` hypothesis hold in *every* state.
-/

namespace Mutiny.LockRing

/-- The occupancy never exceeds the capacity. -/
theorem c02_capacity {n : Nat} {s : St} (hn : 0 < n) (h : Reachable n s) :
    s.tail - s.head ≤ s.N ∧ (abs s).length ≤ s.N :=
  capacity_of_inv (reachable_inv hn h)

/-- Fixed linearization points: a step either leaves the abstract queue alone, or is the `pPublish` step of a `send`
(enqueue of `v` at the back; there was room; the reported `len` is the exact abstract length after enqueueing), or is the
`cRelease` step of a `recv` (dequeue of `v` from the front). -/
theorem c02_step_abs {n : Nat} {s : St} (hn : 0 < n) (h : Reachable n s) (t : Nat) :
    abs (step s t) = abs s
    ∨ (∃ v len, s.thr t = .pPublish v len ∧ abs (step s t) = abs s ++ [v] ∧ (abs s).length < s.N
          ∧ len = (abs s).length + 1)
    ∨ (∃ v, s.thr t = .cRelease v ∧ abs s = v :: abs (step s t)) :=
  step_abs_of_inv (reachable_inv hn h) t

/-- Determinate form of `c02_step_abs`: the effect on `abs` is a function of the program point. -/
theorem c02_step_abs_exact {n : Nat} {s : St} (hn : 0 < n) (h : Reachable n s) (t : Nat) :
    match s.thr t with
    | .pPublish v len => abs (step s t) = abs s ++ [v] ∧ (abs s).length < s.N ∧ len = (abs s).length + 1
    | .cRelease v => abs s = v :: abs (step s t)
    | _ => abs (step s t) = abs s :=
  step_abs_exact (reachable_inv hn h) t

/-- The result `sent len` reported later is the `len` fixed at the linearization point (`pPublish → pUnlocked → done`). -/
theorem c02_sent_len_carried (s : St) (t : Nat) :
    (∀ v len, s.thr t = .pPublish v len → (step s t).thr t = .pUnlocked len)
    ∧ (∀ len, s.thr t = .pUnlocked len → (step s t).thr t = .done (.sent len)) := by
  refine ⟨fun v len h => ?_, fun len h => ?_⟩
  · simp [step_pPublish h]
  · simp [step_pUnlocked h]

/-- Call / acknowledge actions never touch the abstract queue (any state). -/
theorem c02_call_abs (s : St) (a : Act) (ha : ∀ t, a ≠ .step t) : abs (apply s a) = abs s :=
  call_abs s a ha

/-- `recv` takes the `empty` exit exactly when the abstract queue is empty at its `cLen` step. -/
theorem c02_empty_witness {n : Nat} {s : St} (hn : 0 < n) (h : Reachable n s) {t : Nat} (ht : s.thr t = .cLen) :
    (step s t).thr t = .cEmptyUnlocked ↔ abs s = [] :=
  empty_witness_of_inv (reachable_inv hn h) ht

/-- `.done .empty` is only entered from `.cEmptyUnlocked`, by a step of the same thread (any state, any action). -/
theorem c02_empty_only_from_unlocked (s : St) (a : Act) (t : Nat)
    (h1 : (apply s a).thr t = .done .empty) (h2 : s.thr t ≠ .done .empty) :
    a = .step t ∧ s.thr t = .cEmptyUnlocked :=
  done_empty_only_from s a t h1 h2

/-- `.cEmptyUnlocked` is only entered from `.cLen`, by a step of the same thread (any state, any action). -/
theorem c02_unlocked_only_from_cLen (s : St) (a : Act) (t : Nat)
    (h1 : (apply s a).thr t = .cEmptyUnlocked) (h2 : s.thr t ≠ .cEmptyUnlocked) :
    a = .step t ∧ s.thr t = .cLen :=
  cEmptyUnlocked_only_from s a t h1 h2

/-- The `step`-only reading of the two previous facts. -/
theorem c02_empty_structural (s : St) (t : Nat) :
    ((step s t).thr t = .done .empty → s.thr t ≠ .done .empty → s.thr t = .cEmptyUnlocked)
    ∧ ((step s t).thr t = .cEmptyUnlocked → s.thr t = .cLen) := by
  refine ⟨fun h1 h2 => (done_empty_only_from s (.step t) t h1 h2).2, fun h1 => ?_⟩
  by_cases h2 : s.thr t = .cEmptyUnlocked
  · simp [step_cEmptyUnlocked h2] at h1
  · exact (cEmptyUnlocked_only_from s (.step t) t h1 h2).2

/-- `send` takes the `full` exit exactly when the abstract queue holds `N` elements at its `pCheck` step. -/
theorem c02_full_witness {n : Nat} {s : St} (hn : 0 < n) (h : Reachable n s) {t v : Nat}
    (ht : s.thr t = .pCheck v) :
    (step s t).thr t = .pFullUnlocked ↔ (abs s).length = s.N :=
  full_witness_of_inv (reachable_inv hn h) ht

/-- `.done .full` is only entered from `.pFullUnlocked`, by a step of the same thread (any state, any action). -/
theorem c02_full_only_from_unlocked (s : St) (a : Act) (t : Nat)
    (h1 : (apply s a).thr t = .done .full) (h2 : s.thr t ≠ .done .full) :
    a = .step t ∧ s.thr t = .pFullUnlocked :=
  done_full_only_from s a t h1 h2

/-- `.pFullUnlocked` is only entered from `.pCheck`, by a step of the same thread (any state, any action). -/
theorem c02_unlocked_only_from_pCheck (s : St) (a : Act) (t : Nat)
    (h1 : (apply s a).thr t = .pFullUnlocked) (h2 : s.thr t ≠ .pFullUnlocked) :
    a = .step t ∧ ∃ v, s.thr t = .pCheck v :=
  pFullUnlocked_only_from s a t h1 h2

/-- The `step`-only reading of the two previous facts. -/
theorem c02_full_structural (s : St) (t : Nat) :
    ((step s t).thr t = .done .full → s.thr t ≠ .done .full → s.thr t = .pFullUnlocked)
    ∧ ((step s t).thr t = .pFullUnlocked → ∃ v, s.thr t = .pCheck v) := by
  refine ⟨fun h1 h2 => (done_full_only_from s (.step t) t h1 h2).2, fun h1 => ?_⟩
  by_cases h2 : s.thr t = .pFullUnlocked
  · simp [step_pFullUnlocked h2] at h1
  · exact (pFullUnlocked_only_from s (.step t) t h1 h2).2

/-- FIFO: the `i`-th delivery carries sequence number `i` and the `i`-th accepted value. -/
theorem c02_fifo {n : Nat} {s : St} (hn : 0 < n) (h : Reachable n s) :
    s.delivered.map (·.2.2) = s.accepted.take s.head ∧ s.delivered.map (·.2.1) = List.range s.head :=
  ⟨(reachable_inv hn h).delVal, (reachable_inv hn h).delIdx⟩

/-! ## non-vacuity -/

/-- A full ring of capacity 2 with a third `send` sitting at its `pCheck`: the `full` witness fires. -/
example :
    let s := run (init 2) [.send 0 7, .step 0, .step 0, .step 0, .step 0, .step 0, .ack 0,
                           .send 0 8, .step 0, .step 0, .step 0, .step 0, .step 0, .ack 0,
                           .send 1 9, .step 1]
    Reachable 2 s ∧ s.thr 1 = .pCheck 9 ∧ abs s = [7, 8] ∧ (abs s).length = s.N
      ∧ (step s 1).thr 1 = .pFullUnlocked := by
  refine ⟨⟨_, rfl⟩, ?_⟩; decide

/-- Both linearization points are reachable: a `pPublish` step enqueues, a `cRelease` step dequeues. -/
example :
    let s := run (init 2) [.send 0 7, .step 0, .step 0, .step 0]
    let s' := run s [.step 0, .step 0, .recv 1, .step 1, .step 1, .step 1, .step 1]
    Reachable 2 s ∧ s.thr 0 = .pPublish 7 1 ∧ abs s = [] ∧ abs (step s 0) = [7]
      ∧ s'.thr 1 = .cRelease 7 ∧ abs s' = [7] ∧ abs (step s' 1) = [] := by
  refine ⟨⟨_, rfl⟩, ?_⟩; decide

/-- An empty ring with a `recv` at `cLen`: the `empty` witness fires. -/
example :
    let s := run (init 2) [.recv 0, .step 0, .step 0]
    s.thr 0 = .cLen ∧ abs s = [] ∧ (step s 0).thr 0 = .cEmptyUnlocked
      ∧ (step (step s 0) 0).thr 0 = .done .empty := by decide

end Mutiny.LockRing

open Mutiny.LockRing in
#print axioms c02_capacity
open Mutiny.LockRing in
#print axioms c02_step_abs
open Mutiny.LockRing in
#print axioms c02_step_abs_exact
open Mutiny.LockRing in
#print axioms c02_sent_len_carried
open Mutiny.LockRing in
#print axioms c02_call_abs
open Mutiny.LockRing in
#print axioms c02_empty_witness
open Mutiny.LockRing in
#print axioms c02_empty_only_from_unlocked
open Mutiny.LockRing in
#print axioms c02_unlocked_only_from_cLen
open Mutiny.LockRing in
#print axioms c02_empty_structural
open Mutiny.LockRing in
#print axioms c02_full_witness
open Mutiny.LockRing in
#print axioms c02_full_only_from_unlocked
open Mutiny.LockRing in
#print axioms c02_unlocked_only_from_pCheck
open Mutiny.LockRing in
#print axioms c02_full_structural
open Mutiny.LockRing in
#print axioms c02_fifo
