import Mutiny.Props.C09

/-!
# C17 on the log channel — listener churn never disturbs another listener

The queue-per-listener Multi channels violate C17 (known findings D7-*, `Props/C17.lean`).  The mmap-log channel does not: its listeners share
nothing but the append-only log, and creating a listener (at ANY instant, by any thread, of any of the three subscription kinds) only appends
a cursor to the subscriber table; removing one touches no shared state of the log at all (the stream-id bookkeeping decides whom `send` WAKES,
which is C04's business).  Model M9 (`Mutiny/Model/MmapLog.lean`) has every access of the log topic as its own step and lets subscriptions,
publications and polls of any number of threads interleave freely, so the statement below quantifies over all of that:

* `c17_log_listener_unaffected` — in EVERY reachable state, for EVERY subscriber `i`, whatever other subscribers were created meanwhile: what
  `i` received is literally the segment `log[start_i, cur_i)` of the one shared log — positions `start_i, start_i + 1, …` each exactly once, in
  order, with the log's values; nothing else was ever delivered to it; its cursor never passed the visible tail.
* the listener being ADDED yields a suffix of the events without gap or repeat: its `start` is the value of `consumer_tail` its subscription
  loaded (`c09_new_only`, `c09_split_created`), and from there on it is an ordinary subscriber (previous item).
-/

namespace Mutiny.MmapLog
open Mutiny

variable {s : St}

/-- **C17 for the log channel, every interleaving of publications, polls and listener creations.** -/
theorem c17_log_listener_unaffected (hr : ReachableX s) (i : Nat) (hi : i < s.subs.length) :
    delPV s i = (s.log.drop (getSub s i).start).take (cur s i - (getSub s i).start) ∧
    delOf s i = List.range' (getSub s i).start (cur s i - (getSub s i).start) ∧
    (∀ p v, (i, p, v) ∈ s.delivered ↔ (getSub s i).start ≤ p ∧ p < cur s i ∧ s.log[p]? = some (p, v)) ∧
    Bound s.consTail (getSub s i).kind (cur s i) := by
  have h := reachable_inv hr
  obtain ⟨h1, h2, h3⟩ := subOk_cur h hi
  exact ⟨delPV_eq h hi, h3, fun p v => mem_delivered_iff h hi p v, h2⟩

set_option maxRecDepth 8192 in
/-- non-vacuity: the run of `Props/C09.lean` — listeners 0 / 1 (a split taken while a publication was in flight), 2 (joined) and 3 (new events
    only) are created at four different instants while three events are sent; each of the four holds exactly its segment of the one log -/
example : let s := run init (demoA ++ demoB ++ [.step 2] ++ demoC ++ demoD ++ [.step 6] ++ demoE)
    ReachableX s ∧ s.subs.length = 4 ∧ s.log = [(0, 10), (1, 11), (2, 12)] ∧
    (List.range 4).map (fun i => ((getSub s i).start, delPV s i)) =
      [(0, [(0, 10)]), (1, [(1, 11)]), (0, [(0, 10), (1, 11)]), (2, [(2, 12)])] :=
  ⟨demo_reachable _ (by decide), by decide, by decide, by decide⟩

#print axioms c17_log_listener_unaffected

end Mutiny.MmapLog
