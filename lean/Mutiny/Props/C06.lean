import Mutiny.Proofs.ExecProps

/-!
# C06 — graceful close: when `close()` returns (successfully), every event accepted before the call was fully processed

Model: the event machine `stepEv` / `runEv` of `Mutiny/Model/Exec.lean` (one executor and its channel; `Uni::close`
→ `gracefully_end_all_streams` → `StreamsManager::end_all_streams`: flush, `cancel_all_streams`, wait until
`running_streams_count() == 0`).  `closeReturned` is the *successful* return of `close` (stream dropped); a close that
gives up on its timeout is outside the machine.
Scope: every configuration `c`, every accepted log `es` (`runEv c {} es = some s`) of any length, any interleaving of
sends, processing steps and the close.

FULL PROPERTY (intent): for every `c` and every reachable `s`: `closeOk s = true`, i.e. if `s.closed` then every `i` in
`s.beforeClose` is in `s.finished`.
WHAT HOLDS: the full property for `c.limit ≤ 1 ∨ c.futures = false` (`c06_close_sequential` = `c06_partial`).
WHAT IS MISSING: `c.futures = true ∧ c.limit > 1`.  There the property is FALSE of the model and of the real code
(recorded finding D6, `c06_concurrent_counterexample`): `for_each_concurrent` drops the source stream as soon as it
ends, `running_streams_count` goes to 0 and `close` returns while item futures are still in flight.  What still holds in
that case (`c06_close_concurrent_weak`): when close returned, every event accepted before the call was *yielded* (is in
flight or finished), and all of them are finished when the executor's close callback runs (`C12`).

CAVEAT `limit = 0`: the hypothesis `c.limit ≤ 1` includes `limit = 0`, for which the theorem is true *of the model*
(`settle` / `stepEv` treat 0 like 1), but the real code then calls `for_each_concurrent(0, ..)`, which in `futures 0.3`
means NO limit, i.e. behaves like `limit > 1` (D6 applies).  The harness only runs `limit ≥ 1`; read the theorem as
`limit = 1 ∨ ¬futures`.

The ghost fields are tied to the log by `c06_ghost_fields`; `c06_close_sequential_log` restates the property on the log alone.
No hypothesis on the ids is needed except for `c06_close_sequential_nodup` (distinct ids, as the harness uses).
-/

namespace Mutiny.Exec

/-- with `for_each` (limit ≤ 1) or with items that are not futures: in every reachable state `closeOk` holds, and when
    close returned, everything accepted before the call is finished, nothing is in flight, the stream was cancelled and
    dropped.
    (`s.pending = []` is NOT claimed: it is false, see `c06_pending_after_close_counterexample` — a send accepted after the
    close call stays pending for ever; `c06_close_sequential_nodup` says what holds of `pending`.) -/
theorem c06_close_sequential (c : Cfg) (hc : c.limit ≤ 1 ∨ c.futures = false) (es : List Ev) (s : St)
    (h : runEv c {} es = some s) :
    closeOk s = true ∧
    (s.closed = true → (∀ i ∈ s.beforeClose, i ∈ s.finished) ∧ s.inflight = [] ∧ s.dropped = true ∧
      s.cancelled = true ∧ s.closing = true) := by
  have hi := inv_run h
  exact ⟨(closeOk_iff s).2 (fun hcl => (inv_close_sequential hi hc hcl).1), inv_close_sequential hi hc⟩

/-- see the header: the full property (all `c`) is false for `futures = true ∧ limit > 1` -/
theorem c06_partial (c : Cfg) (hc : c.limit ≤ 1 ∨ c.futures = false) (es : List Ev) (s : St)
    (h : runEv c {} es = some s) : closeOk s = true :=
  (c06_close_sequential c hc es s h).1

/-- with distinct accepted ids (the harness uses distinct ids): when close returned, no event accepted before the call
    is still pending or in flight — the only things left pending were accepted after the close call -/
theorem c06_close_sequential_nodup (c : Cfg) (hc : c.limit ≤ 1 ∨ c.futures = false) (es : List Ev) (s : St)
    (h : runEv c {} es = some s) (hnd : (acceptedIds es).Nodup) (hcl : s.closed = true) :
    ∀ i ∈ s.beforeClose, i ∈ s.finished ∧ i ∉ s.pending ∧ i ∉ s.inflight := by
  intro i hi
  have hfin := (inv_close_sequential (inv_run h) hc hcl).1 i hi
  have hp : (held s).Perm (acceptedIds es) := by simpa [held] using perm_run h
  have hnd' : (s.pending ++ s.inflight ++ s.finished).Nodup := hp.nodup_iff.2 hnd
  rw [List.nodup_append] at hnd'
  have hdis := hnd'.2.2
  refine ⟨hfin, fun hpe => ?_, fun hin => ?_⟩
  · exact hdis i (List.mem_append_left _ hpe) i hfin rfl
  · exact hdis i (List.mem_append_right _ hin) i hfin rfl

/-- RECORDED FINDING D6.  `futures = true`, `limit = 2`: event 1 is accepted and yielded (its item future is running),
    `close` is called and returns: the log is accepted by the machine (and produced by the real code), and `closeOk`
    is false — close returned while the item future of event 1 was still running. -/
theorem c06_concurrent_counterexample :
    accepts { futures := true, limit := 2 } [.accepted 1, .yielded 1, .closeCalled, .closeReturned] = true ∧
    (runEv { futures := true, limit := 2 } {} [.accepted 1, .yielded 1, .closeCalled, .closeReturned]).map closeOk
      = some false ∧
    (runEv { futures := true, limit := 2 } {} [.accepted 1, .yielded 1, .closeCalled, .closeReturned]).map (·.inflight)
      = some [1] := by decide

/-- what remains true for every configuration (in particular `futures ∧ limit > 1`): when close returned, every event
    accepted before the call has at least been yielded to the pipeline (in flight or finished) -/
theorem c06_close_concurrent_weak (c : Cfg) (es : List Ev) (s : St) (h : runEv c {} es = some s)
    (hcl : s.closed = true) :
    s.dropped = true ∧ s.cancelled = true ∧ ∀ i ∈ s.beforeClose, i ∈ s.inflight ∨ i ∈ s.finished := by
  have hi := inv_run h
  have hd := (hi.clos hcl).1
  exact ⟨hd, (hi.drop hd).1, (hi.canc (hi.drop hd).1).2⟩

/-- no accepted event is ever discarded (nor duplicated): in every reachable state `pending ++ inflight ++ finished`
    is a permutation of the ids accepted so far; in particular every accepted id is in one of the three, for ever
    (no distinctness of ids needed) -/
theorem c06_never_discarded (c : Cfg) (es : List Ev) (s : St) (h : runEv c {} es = some s) :
    (s.pending ++ s.inflight ++ s.finished).Perm (acceptedIds es) ∧
    ∀ i, .accepted i ∈ es → i ∈ s.pending ∨ i ∈ s.inflight ∨ i ∈ s.finished := by
  have hp : (s.pending ++ s.inflight ++ s.finished).Perm (acceptedIds es) := by simpa [held] using perm_run h
  refine ⟨hp, fun i hi => ?_⟩
  have : i ∈ acceptedIds es := by
    clear hp h
    induction es with
    | nil => cases hi
    | cons e es ih =>
      rw [acceptedIds_cons]
      rcases List.mem_cons.1 hi with rfl | hi
      · simp [acceptedIds]
      · exact List.mem_append_right _ (ih hi)
  have := hp.mem_iff.2 this
  simpa [List.mem_append, or_assoc] using this

/-- the ghost fields of the final state are functions of the log alone: `finished` = the ids of the `finished` events
    (and of the `yielded` events when items are not futures), in order; `beforeClose` = the ids accepted before the
    first `closeCalled` / `cancelAll` / `closeExpired`; "a close was called or an end signal given" = the log contains one of
    these -/
theorem c06_ghost_fields (c : Cfg) (es : List Ev) (s : St) (h : runEv c {} es = some s) :
    s.finished = processedIds c es ∧ s.beforeClose = acceptedBeforeClose es ∧
    (s.closing || s.signalled) = es.any isSignal := by
  obtain ⟨h1, h2, h3, -⟩ := ghost_run h
  exact ⟨by simpa using h1, by simpa using h2, by simpa using h3⟩

/-- C06 on the log alone: in an accepted log (limit ≤ 1 or no item futures), every event accepted before `closeCalled`
    has its processing completed *before* `closeReturned` -/
theorem c06_close_sequential_log (c : Cfg) (hc : c.limit ≤ 1 ∨ c.futures = false) (es₁ es₂ : List Ev)
    (h : accepts c (es₁ ++ .closeReturned :: es₂) = true) :
    ∀ i ∈ acceptedBeforeClose es₁, i ∈ processedIds c es₁ := by
  simp only [accepts, Option.isSome_iff_exists] at h
  obtain ⟨s, hs⟩ := h
  obtain ⟨s1, h1, h2⟩ := runEv_append (a := es₁ ++ [.closeReturned]) (b := es₂) (by simpa using hs)
  obtain ⟨s0, h3, h4⟩ := runEv_append h1
  obtain ⟨g1, g2, -⟩ := c06_ghost_fields c es₁ s0 h3
  have hcl : s1.closed = true ∧ s1.finished = s0.finished ∧ s1.beforeClose = s0.beforeClose := by
    obtain ⟨s2, h5, h6⟩ := runEv_cons h4
    cases h6
    rcases stepEv_cases h5 with ⟨i, h, -⟩ | ⟨i, rest, h, -⟩ | ⟨i, rest, h, -⟩ | ⟨i, h, -⟩ | ⟨h, -⟩ |
        ⟨-, -, -, -, rfl⟩ | ⟨h, -⟩ | ⟨h, -⟩ | ⟨h, -⟩
    all_goals first | cases h | skip
    exact ⟨rfl, rfl, rfl⟩
  have := (c06_close_sequential c hc _ s1 h1).2 hcl.1
  rw [← g1, ← g2, ← hcl.2.1, ← hcl.2.2]
  exact this.1

/-! ### non-vacuity / sanity -/

-- a sequential run with a close that returns: accepted, and everything accepted before the close is finished
example : (runEv { futures := true, limit := 1 } {}
    [.accepted 1, .accepted 2, .yielded 1, .closeCalled, .accepted 3, .finished 1, .yielded 2, .finished 2,
     .yielded 3, .finished 3, .closeReturned]).map (fun s => (s.closed, s.beforeClose, s.finished))
    = some (true, [1, 2], [1, 2, 3]) := by decide
-- with limit 1 close cannot return while the item future is running
example : accepts { futures := true, limit := 1 } [.accepted 1, .yielded 1, .closeCalled, .closeReturned] = false := by
  decide
-- non-future items, limit 2: accepted and closed
example : (runEv { futures := false, limit := 2 } {} [.accepted 1, .closeCalled, .yielded 1, .closeReturned]).map
    (fun s => (s.closed, closeOk s)) = some (true, true) := by decide
/-- `pending = []` does not hold when close returned: a send accepted after the close call (the stream is already
    cancelled and dropped) stays pending and is never processed -/
theorem c06_pending_after_close_counterexample :
    (runEv { futures := true, limit := 1 } {} [.closeCalled, .accepted 1, .closeReturned]).map
      (fun s => (s.closed, s.pending, s.beforeClose)) = some (true, [1], []) := by decide
-- hypothesis of `c06_close_sequential_nodup` is satisfiable
example : (acceptedIds [.accepted 1, .accepted 2, .yielded 1, .closeCalled, .accepted 3]).Nodup := by decide
-- `c06_close_sequential_log` is not vacuous
example : accepts { futures := true, limit := 1 }
    ([.accepted 1, .yielded 1, .closeCalled, .finished 1] ++ .closeReturned :: [.callback]) = true := by decide

/-! ### the end signal given before the graceful close: `cancel_all_streams()`, a bounded close that expired, several closes -/

-- after `cancel_all_streams()` with an item in flight, an unbounded close may NOT return before that item finished …
example : accepts { futures := true, limit := 1 }
    [.accepted 1, .accepted 2, .yielded 1, .cancelAll, .closeCalled, .closeReturned] = false := by decide
-- … it returns after the buffered events were yielded and finished
example : (runEv { futures := true, limit := 1 } {}
    [.accepted 1, .accepted 2, .yielded 1, .cancelAll, .closeCalled, .finished 1, .yielded 2, .finished 2, .closeReturned]).map
    (fun s => (s.closed, closeOk s, s.beforeClose, s.finished)) = some (true, true, [1, 2], [1, 2]) := by decide
-- a bounded close that expired (it has cancelled the streams by then) followed by an unbounded one: same
example : accepts { futures := true, limit := 1 }
    [.accepted 1, .yielded 1, .closeCalled, .closeExpired, .closeCalled, .closeReturned] = false := by decide
example : accepts { futures := true, limit := 1 }
    [.accepted 1, .yielded 1, .closeCalled, .closeExpired, .closeCalled, .finished 1, .closeReturned, .callback] = true := by decide
-- two closes outstanding: both return only when everything is processed
example : accepts { futures := true, limit := 1 }
    [.accepted 1, .yielded 1, .closeCalled, .closeCalled, .finished 1, .closeReturned, .closeReturned] = true := by decide
example : accepts { futures := true, limit := 1 }
    [.accepted 1, .yielded 1, .closeCalled, .closeCalled, .closeReturned] = false := by decide
-- a close cannot return more often than it was called
example : accepts { futures := true, limit := 1 } [.closeCalled, .closeReturned, .closeReturned] = false := by decide

#print axioms c06_close_sequential
#print axioms c06_partial
#print axioms c06_close_sequential_nodup
#print axioms c06_concurrent_counterexample
#print axioms c06_close_concurrent_weak
#print axioms c06_never_discarded
#print axioms c06_ghost_fields
#print axioms c06_close_sequential_log
#print axioms c06_pending_after_close_counterexample

end Mutiny.Exec
