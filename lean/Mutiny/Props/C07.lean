import Mutiny.Proofs.WakeCancelInv

/-!
# C07 — `cancel_stream(j)` terminates exactly the targeted stream

Model M8 (`Mutiny/Model/Wake.lean`).  Scope: ARBITRARY executions from `init n mx k rule zc` — every `N`, `MAX`, `k`,
wake rule, any number of producer threads, sends of every flavour including the asynchronous ones, cancels, drops,
spurious polls, any schedule of any length.  One assumption, `TokRun`: tokens are task identities, i.e. a spurious poll
with a new token never hands a stream the token another existing stream currently owns (the harness uses
`10 + 100·j + m`).  Without it the claim is false of the model (`c07_shared_token_counterexample`).

* `c07_cancel_terminates`: a cancelled stream is never stranded (parked un-notified with no wake on its way);
* `c07_ends_on_first_empty` / `c07_cancelled_poll_ends`: a cancelled stream that is polled delivers what is buffered,
  in order, and answers end-of-stream at the first empty poll;
* `c07_untargeted_keep_flag`: the cancel / wake steps for `j` touch nothing of any other stream, and not the queue;
* `c07_keep_monotone`: the flag is only ever cleared;
* `c07_uni_subset_counterexample` (**recorded finding**): for a Uni channel the untargeted streams do NOT keep being
  served — the wake rule chooses its target by queue length, so after stream 0 alone was cancelled the next event on an
  empty queue wakes the dead stream 0 and the live stream 1 sleeps on a non-empty queue.
-/

namespace Mutiny.Wake

/-- **C07 (termination).**  Once `keep_streams_running[j]` is false and no producer is inside the cancel / a
    `wake_stream` of `j`, stream `j` is not stranded: it is not (parked and un-notified).  The wake may come from the
    cancel itself or from any send that targets `j`; a spurious poll after the cancel clears the notification but then
    the task is in the middle of a poll that ends at `sFlag`.  (The `cCancel` part of the hypothesis is not needed.) -/
theorem c07_cancel_terminates (n mx k : Nat) (rule : Rule) (zc : Bool) (as : List Act)
    (htok : TokRun (init n mx k rule zc) as) :
    let s := run (init n mx k rule zc) as
    ∀ j, j < k → s.keep j = false →
      (∀ t, s.thr t ≠ .cCancel j ∧
        ∀ r, s.thr t ≠ .wWake j r ∧ s.thr t ≠ .wLock j r ∧ s.thr t ≠ .wSpin j r ∧ s.thr t ≠ .wRetry j r) →
      ¬ (s.sloc j = .parked ∧ s.notified (s.tok j) = false) := by
  intro s j hj hk hp ⟨h1, h2⟩
  have hi := cinv_run _ as (cinv_init n mx k rule zc) htok
  have hjk : j < s.k := by show j < (run _ as).k; rw [k_run]; exact hj
  rcases hi.c7 j hjk hk with h | ⟨t, h⟩
  · have h' : safe7 s j := h
    simp only [safe7, h1] at h'
    rw [h2] at h'; cases h'
  · obtain ⟨r, hr⟩ := (inWake_iff _ _).1 h
    have hp' := (hp t).2 r
    rcases hr with hr | hr | hr | hr
    · exact hp'.1 hr
    · exact hp'.2.1 hr
    · exact hp'.2.2.1 hr
    · exact hp'.2.2.2 hr

/-- the invariant itself: a cancelled stream is, at every moment, in a phase that ends (`ready`/`sPoll`/`sFlag`: the
    next `sFlag` reads `false`; `ended`, dropping), or parked notified, or at the waker comparison notified or about to
    store-and-self-wake, or locking/storing/self-waking — or a producer is inside `wake_stream(j)` -/
theorem c07_cancel_invariant (n mx k : Nat) (rule : Rule) (zc : Bool) (as : List Act)
    (htok : TokRun (init n mx k rule zc) as) :
    let s := run (init n mx k rule zc) as
    ∀ j, j < k → s.keep j = false →
      (s.sloc j = .parked → s.notified (s.tok j) = true ∨
          ∃ t r, s.thr t = .wWake j r ∨ s.thr t = .wLock j r ∨ s.thr t = .wSpin j r ∨ s.thr t = .wRetry j r) ∧
      (s.sloc j = .sCmp → s.notified (s.tok j) = true ∨ s.waker j ≠ some (s.tok j) ∨
          ∃ t r, s.thr t = .wWake j r ∨ s.thr t = .wLock j r ∨ s.thr t = .wSpin j r ∨ s.thr t = .wRetry j r) ∧
      (s.sloc j = .parked ∨ s.sloc j = .sSelfWake → s.waker j = some (s.tok j)) := by
  intro s j hj hk
  have hi := cinv_run _ as (cinv_init n mx k rule zc) htok
  have hjk : j < s.k := by show j < (run _ as).k; rw [k_run]; exact hj
  refine ⟨fun h1 => ?_, fun h1 => ?_, hi.w2 j⟩
  · rcases hi.c7 j hjk hk with h | ⟨t, h⟩
    · have h' : safe7 s j := h
      simp only [safe7, h1] at h'; exact .inl h'
    · obtain ⟨r, hr⟩ := (inWake_iff _ _).1 h; exact .inr ⟨t, r, hr⟩
  · rcases hi.c7 j hjk hk with h | ⟨t, h⟩
    · have h' : safe7 s j := h
      simp only [safe7, h1] at h'
      rcases h' with h' | h'
      · exact .inl h'
      · exact .inr (.inl h')
    · obtain ⟨r, hr⟩ := (inWake_iff _ _).1 h; exact .inr (.inr ⟨t, r, hr⟩)

/-- **C07 (what a cancelled stream still yields).**  `sm.flag` with the flag cleared answers end-of-stream; `ms.poll`
    on the empty queue goes to `sm.flag` delivering nothing; `ms.poll` on `v :: rest` delivers exactly `v`, the first
    buffered event; no other stream micro-step delivers anything or touches the queue. -/
theorem c07_ends_on_first_empty (s : St) (j : Nat) :
    (s.sloc j = .sFlag → s.keep j = false → (stepS s j).sloc j = .ended) ∧
    (s.sloc j = .sPoll → s.q = [] →
        (stepS s j).sloc j = .sFlag ∧ (stepS s j).delivered = s.delivered ∧ (stepS s j).q = []) ∧
    (∀ v rest, s.sloc j = .sPoll → s.q = v :: rest →
        (stepS s j).sloc j = .ready ∧ (stepS s j).q = rest ∧ (stepS s j).delivered = s.delivered ++ [(j, v)]) ∧
    (s.sloc j ≠ .sPoll → (stepS s j).delivered = s.delivered ∧ (stepS s j).q = s.q) ∧
    (s.sloc j = .ended → stepS s j = s ∧ ∀ nt, apply s (.poll j nt) = s) := by
  refine ⟨fun h1 h2 => ?_, fun h1 h2 => ?_, fun v rest h1 h2 => ?_, fun h1 => ?_, fun h1 => ?_⟩
  · simp [stepS, h1, h2, setS]
  · simp [stepS, h1, h2, setS]
  · simp [stepS, h1, h2, setS]
  · cases hl : s.sloc j <;> simp only [stepS, hl] <;> first | exact absurd hl h1 | (repeat' split) <;> simp [setS, notify]
  · refine ⟨by simp [stepS, h1], fun nt => ?_⟩
    simp only [apply, h1]; split <;> rfl

/-- a cancelled stream at rest that is polled on the empty queue answers end-of-stream within that poll -/
theorem c07_cancelled_poll_ends (s : St) (j : Nat) (nt : Option Nat) (hj : j < s.k) (hk : s.keep j = false)
    (hq : s.q = []) (hl : s.sloc j = .ready ∨ s.sloc j = .parked) :
    (run s [.poll j nt, .stepS j, .stepS j]).sloc j = .ended := by
  rcases hl with hl | hl <;> simp [run, apply, hj, hl, stepS, setS, hq, hk]

/-- **C07 (frame).**  A cancel / wake micro-step for stream `j` changes no stream's program point, token or registered
    waker, not the queue, no other stream's flag, and notifies at most the token registered for `j`. -/
theorem c07_untargeted_keep_flag (s : St) (t j : Nat)
    (h : s.thr t = .cCancel j ∨
      ∃ r, s.thr t = .wWake j r ∨ s.thr t = .wLock j r ∨ s.thr t = .wSpin j r ∨ s.thr t = .wRetry j r) :
    (stepP s t).q = s.q ∧ (stepP s t).sloc = s.sloc ∧ (stepP s t).tok = s.tok ∧ (stepP s t).waker = s.waker ∧
    (∀ i, i ≠ j → (stepP s t).keep i = s.keep i) ∧
    (∀ tk, (stepP s t).notified tk = true → s.notified tk = true ∨ s.waker j = some tk) ∧
    (∀ tk, s.notified tk = true → (stepP s t).notified tk = true) := by
  rcases h with h | ⟨r, h | h | h | h⟩ <;> simp only [stepP, h] <;> (repeat' split) <;>
    simp only [setThr, notify, true_and] <;> grind

/-- the `cancel` call itself only moves the calling producer -/
theorem c07_cancel_call_frame (s : St) (t j : Nat) :
    let s' := apply s (.cancel t j)
    s'.q = s.q ∧ s'.sloc = s.sloc ∧ s'.tok = s.tok ∧ s'.waker = s.waker ∧ s'.keep = s.keep ∧
      s'.notified = s.notified ∧ ∀ u, u ≠ t → s'.thr u = s.thr u := by
  simp only [apply]; split <;> simp [setThr] <;> grind

/-- `keep_streams_running[j]` is only ever cleared, never set again -/
theorem c07_keep_monotone (s : St) (as : List Act) (j : Nat) (h : s.keep j = false) : (run s as).keep j = false :=
  keep_run_false s as j h

/-! ## non-vacuity -/

/-- a `TokRun` with a cancel, sends, an asynchronous send and a spurious poll with a fresh token, ending in a state in
    which the hypotheses of `c07_cancel_terminates` hold for stream 0 (parked, notified) -/
example :
    let as := parkActs 0 ++ parkActs 1 ++ [.poll 1 (some 110), .asyncMov 2 5, .cancel 0 0, .stepP 0, .stepP 0]
    let s := run (init 8 2 2 .fs false) as
    s.keep 0 = false ∧ s.sloc 0 = .parked ∧ s.notified (s.tok 0) = true ∧ s.thr 0 = .done .unit ∧
      s.thr 2 = .aSusp 5 0 ∧ s.tok 1 = 110 := by
  decide

example : TokRun (init 8 2 2 .fs false)
    (parkActs 0 ++ parkActs 1 ++ [.poll 1 (some 110), .asyncMov 2 5, .cancel 0 0, .stepP 0, .stepP 0]) := by
  simp only [parkActs, List.cons_append, List.nil_append, TokRun, tokFresh, and_true, true_and]
  decide

/-- executions that never change tokens are `TokRun`s -/
example (s : St) (as : List Act) (h : ∀ a ∈ as, noNewTok a) : TokRun s as := tokRun_of_noNewTok s as h

/-- `c07_ends_on_first_empty` / `c07_cancelled_poll_ends`: the cancelled stream 0 of the run above is polled and ends -/
example :
    let as := parkActs 0 ++ [.send 1 7, .stepP 1, .cancel 0 0, .stepP 0, .stepP 0,
      .poll 0 none, .stepS 0, .poll 0 none, .stepS 0, .stepS 0]
    let s := run (init 8 2 1 .fs false) as
    s.sloc 0 = .ended ∧ s.delivered = [(0, 7)] ∧ s.q = [] := by
  decide

/-- `c07_untargeted_keep_flag`: its hypothesis is reachable -/
example : (run (init 8 2 2 .fs false) [.cancel 0 1]).thr 0 = .cCancel 1 := by decide

/-! ## recorded findings -/

/-- both streams park; stream 0 is cancelled, polled, ends; then an event is sent on the empty queue -/
def uniSubsetWitness : List Act :=
  parkActs 0 ++ parkActs 1 ++
    [.cancel 0 0, .stepP 0, .stepP 0, .poll 0 none, .stepS 0, .stepS 0, .send 1 10, .stepP 1]

/-- **finding (Uni channel, cancelling a subset of the streams).**  `k = 2`, `MAX = 2`, rule `fs`: after stream 0 alone
    was cancelled and has ended, `send` on the empty queue observes length 1 and wakes stream 0 — the dead one.  The
    event stays queued, every producer is done, the live stream 1 is parked un-notified: `stuck`.  (No `asyncMov`, no
    `dropS`, every poll is a fair one, tokens never change.) -/
theorem c07_uni_subset_counterexample :
    stuck (run (init 8 2 2 .fs false) uniSubsetWitness) ∧ (∀ a ∈ uniSubsetWitness, noNewTok a) :=
  ⟨stuck_run_of_check 8 2 2 .fs false uniSubsetWitness 2 (by decide) (by decide), by decide⟩

/-- the concrete facts of that state -/
theorem c07_uni_subset_counterexample_state :
    let s := run (init 8 2 2 .fs false) uniSubsetWitness
    s.q = [10] ∧ s.keep 0 = false ∧ s.sloc 0 = .ended ∧ s.keep 1 = true ∧ s.sloc 1 = .parked ∧
      s.notified (s.tok 1) = false ∧ s.thr 0 = .done .unit ∧ s.thr 1 = .done .ok ∧ s.wakeLog = [0, 1, 0, 0] := by
  decide

/-- both streams park; stream 0 is cancelled and woken; then stream 1 is polled spuriously *with stream 0's token* -/
def sharedTokenWitness : List Act :=
  parkActs 0 ++ parkActs 1 ++ [.cancel 0 0, .stepP 0, .stepP 0, .poll 1 (some 0)]

/-- **model remark (why `TokRun`).**  If a spurious poll may hand stream 1 the token stream 0 owns, the executor's
    clearing of that token's notification swallows the wake of `cancel_stream(0)`: stream 0 is cancelled, parked,
    un-notified, and no producer is inside its wake.  (Two streams driven by ONE task would behave like this in the
    real code as well; the model — and the documented use — has one task per stream.) -/
theorem c07_shared_token_counterexample :
    let s := run (init 8 2 2 .fs false) sharedTokenWitness
    s.keep 0 = false ∧ s.sloc 0 = .parked ∧ s.notified (s.tok 0) = false ∧
      s.thr 0 = .done .unit ∧ (∀ t, t ≠ 0 → s.thr t = .idle) ∧ ¬ TokRun (init 8 2 2 .fs false) sharedTokenWitness := by
  refine ⟨by decide, by decide, by decide, by decide, fun t ht => ?_, ?_⟩
  · rw [thr_run_of_ne]
    · rfl
    · intro a ha e
      have : ∀ a ∈ sharedTokenWitness, a.thread = none ∨ a.thread = some 0 := by decide
      rcases this a ha with h | h <;> rw [h] at e <;> simp at e
      exact ht e.symm
  · simp only [sharedTokenWitness, parkActs, List.cons_append, List.nil_append, TokRun, tokFresh, and_true, true_and]
    decide

end Mutiny.Wake

#print axioms Mutiny.Wake.c07_cancel_terminates
#print axioms Mutiny.Wake.c07_cancel_invariant
#print axioms Mutiny.Wake.c07_ends_on_first_empty
#print axioms Mutiny.Wake.c07_cancelled_poll_ends
#print axioms Mutiny.Wake.c07_untargeted_keep_flag
#print axioms Mutiny.Wake.c07_cancel_call_frame
#print axioms Mutiny.Wake.c07_keep_monotone
#print axioms Mutiny.Wake.c07_uni_subset_counterexample
#print axioms Mutiny.Wake.c07_uni_subset_counterexample_state
#print axioms Mutiny.Wake.c07_shared_token_counterexample
