import Mutiny.Proofs.RingRsv

/-!
# C08 — reserved slots: publish / cancel by index are exact, the slot is private, nothing leaks

Scope: every `n > 0`, every `s` with `ReachableX n s` (`Proofs/RingInv.lean`).  The cancel theorems carry the hypothesis
`AllAdmitted s` (every producer-side holder is past its admission test); `c08_sequential_in_scope` shows that it holds at
every cancel step of every run whose producer-side calls are sequential (`SeqP`; consumers unrestricted), and that such runs
are inside `ReachableX`.  Without it the cancel is NOT exact: `cancel_steals` (KNOWN FINDING, `Proofs/RingInv.lean`).
-/

namespace Mutiny.Ring

variable {n : Nat} {s : St}

/-- publish-by-index: the CAS succeeds only on the caller's own sequence number (whatever the counters' magnitude and
    however often the ring lapped), and what is accepted under that number is the content of the reserved slot;
    conversely, while it is not the caller's turn the step publishes nothing and keeps the reservation -/
theorem c08_publish_idx_exact (hn : 0 < n) (hr : ReachableX n s) (t id idx g : Nat) (ht : s.thr t = .rPub id idx g) :
    (s.tail = g → g = id ∧ idx = id % s.N ∧ (step s t).accepted = s.accepted ++ [s.buf (id % s.N)] ∧
        (step s t).accepted[id]? = some (s.buf (id % s.N)) ∧ (step s t).tail = id + 1 ∧
        (step s t).thr t = .rLen id) ∧
    (s.tail ≠ id → (step s t).accepted = s.accepted ∧ (step s t).tail = s.tail ∧ holdsP ((step s t).thr t) id) := by
  have hi := reachable_inv hn hr
  constructor
  · intro he
    obtain ⟨rfl, hidx⟩ := rPub_exact s hi t id idx g ht he
    have hacc : (step s t).accepted = s.accepted ++ [s.buf (g % s.N)] := by simp [step, ht, he, hidx]
    refine ⟨rfl, hidx, hacc, ?_, by simp [step, ht, he], by simp [step, ht, he]⟩
    rw [hacc, ← he, ← hi.accLen, List.getElem?_concat_length]
  · intro hne
    have hg : s.tail ≠ g := fun he => hne (he.trans (rPub_exact s hi t id idx g ht he).1)
    simp only [step, ht, hg, if_false]
    split <;> simp [holdsP]

/-- the length a successful publish-by-index answers: `u32::max(1, previous_tail - head)` with `head` loaded AFTER the publication and no
    signed clamp.  If no consumer moved `head` past the published sequence number in between (`head ≤ g`, within the `u32` window) the answer is
    the number of unreleased elements in front of it, at least 1; otherwise the `u32` difference wraps (the example below: 4294967295) — harmless
    where the crate uses it (the wake rule then wakes nobody, and the element is already with a consumer), recorded in DESIGN.md 11.9 -/
theorem c08_publish_idx_len (s : St) (t g : Nat) (ht : s.thr t = .rLen g) :
    (step s t).thr t = .done (.pubIdx (some (max 1 (U32.wsub (U32.wrap g) (U32.wrap s.head))))) ∧
    (s.head ≤ g → g - s.head < 4294967296 → (step s t).thr t = .done (.pubIdx (some (max 1 (g - s.head))))) := by
  refine ⟨by simp [step, ht], ?_⟩
  intro h1 h2
  have : U32.wsub (U32.wrap g) (U32.wrap s.head) = g - s.head := by
    simp only [U32.wsub, U32.wrap]; omega
  simp [step, ht, this]

set_option maxRecDepth 16384 in
/-- the wrap is real: a consumer takes the just-published element between the publication CAS and the `head` load -/
example : let s := run (init 2) [.reserve 0, .step 0, .step 0, .ack 0, .fill 0 9, .pubIdx 0, .step 0,
                                  .recv 1, .step 1, .step 1, .step 1, .step 1, .step 0]
    s.thr 0 = .done (.pubIdx (some 4294967295)) ∧ s.thr 1 = .done (.got 9) := by decide +kernel

/-- cancel-by-index is exact when every other producer-side holder is admitted: the CAS succeeds only on the caller's own
    sequence number; it then gives exactly that number back and changes nothing else -/
theorem c08_cancel_exact (hn : 0 < n) (hr : ReachableX n s) (hadm : AllAdmitted s) (t id idx g : Nat)
    (ht : s.thr t = .rCan id idx g) (he : s.enqTail = g + 1) :
    g = id ∧ (step s t).enqTail = id ∧ (step s t).thr t = .done (.canIdx true) ∧ (∀ k, ¬ holdsP ((step s t).thr t) k) ∧
    (step s t).tail = s.tail ∧ (step s t).head = s.head ∧ (step s t).deqHead = s.deqHead ∧ (step s t).buf = s.buf ∧
    (step s t).accepted = s.accepted ∧ (step s t).delivered = s.delivered ∧
    (∀ u, u ≠ t → (step s t).thr u = s.thr u) ∧ ReachableX n (step s t) := by
  have hi := reachable_inv hn hr
  have hex := canExact_of_allAdmitted s (.step t) hi hadm
  obtain rfl := hex t id idx g rfl ht he
  obtain ⟨f1, f2, f3, f4, f5, f6, f7⟩ := rCan_frame s t g idx g ht
  have hs := rCan_success s t g idx g ht he
  refine ⟨rfl, by rw [hs]; rfl, by rw [hs]; simp, ?_, f3, f4, f5, f6, f1, f2, f7, hr.apply (.step t) hex⟩
  intro k; rw [hs]; simp [holdsP]

/-- runs with sequential producer-side calls are in scope: `SeqP` gives `AllAdmitted` at every cancel step, hence
    `CanExact`; `SeqP` is kept as long as no producer-side call is started while another one is in progress; and a run all
    of whose states are `SeqP` is a `ReachableX` run -/
theorem c08_sequential_in_scope (hn : 0 < n) :
    (∀ s : St, SeqP s → ∀ t id idx g, s.thr t = .rCan id idx g → AllAdmitted s) ∧
    (∀ (s : St) (a : Act), Inv s → SeqP s → CanExact s a) ∧
    (∀ (s : St) (a : Act), SeqP s → (startsP a → ∀ u, ¬ callP (s.thr u)) → SeqP (apply s a)) ∧
    (∀ as, RunSeqP (init n) as → ReachableX n (run (init n) as)) :=
  ⟨fun s hs t id idx g ht => allAdmitted_of_seqP s hs t id idx g ht,
   fun s a hi hs => canExact_of_seqP s a hi hs,
   fun s a hs ha => seqP_apply s a hs ha,
   fun as hs => reachableX_of_runSeqP hn as hs⟩

/-- while `t` holds an admitted sequence number `id`, its slot `id % N` is private: no action of another thread changes
    it, the owner's own actions other than `fill` (and its own `pWrite`) do not change it, and `fill t v` sets it to `v`.
    With `c08_publish_idx_exact` and C01: what is delivered for a sent reservation is the last value written through it. -/
theorem c08_slot_private (hn : 0 < n) (hr : ReachableX n s) (t id : Nat) (hp : passedP (s.thr t) id) :
    (∀ a, a.thread ≠ t → (apply s a).buf (id % s.N) = s.buf (id % s.N)) ∧
    (∀ a, a.thread = t → (∀ u v, a ≠ .fill u v) → (a = .step t → ∀ v id len, s.thr t ≠ .pWrite v id len) →
        (apply s a).buf = s.buf) ∧
    (∀ v, s.thr t = .rHold id → (apply s (.fill t v)).buf (id % s.N) = v) := by
  have hi := reachable_inv hn hr
  exact ⟨fun a ha => apply_buf_other s hi t id a hp ha, fun a ha hf hw => apply_buf_own s a t hf hw ha,
    fun v ht => fill_buf s t id v ht⟩

/-- a cancel step never appends to `accepted` (the cancelled slot's content is never delivered: its sequence number is
    not accepted, `accepted[id]? = none`); after a successful exact cancel the sequence number is the next one issued -/
theorem c08_cancelled_never_delivered (hn : 0 < n) (hr : ReachableX n s) (t id idx g : Nat)
    (ht : s.thr t = .rCan id idx g) :
    (step s t).accepted = s.accepted ∧ (step s t).delivered = s.delivered ∧ (step s t).tail = s.tail ∧
    s.accepted[id]? = none ∧
    (CanExact s (.step t) → s.enqTail = g + 1 → (step s t).enqTail = id ∧
        ∀ u v rsv, (step s t).thr u = .pFetch v rsv → (step (step s t) u).thr u = .pLoadHead v id rsv) := by
  have hi := reachable_inv hn hr
  obtain ⟨f1, f2, f3, _⟩ := rCan_frame s t id idx g ht
  have me := hi.pRange t id (by simp [ht, holdsP])
  refine ⟨f1, f2, f3, ?_, ?_⟩
  · rw [List.getElem?_eq_none_iff, hi.accLen]; exact me.1
  · intro hex he
    obtain rfl := hex t id idx g rfl ht he
    have hs := rCan_success s t g idx g ht he
    have he' : (step s t).enqTail = g := by rw [hs]; rfl
    refine ⟨he', ?_⟩
    intro u v rsv hu
    rw [pFetch_step _ u v rsv hu, he']

/-- no leak: once every call returned and every reservation was published or cancelled (all threads `idle`), the private
    claim counters equal the public ones and the full capacity is available: from an empty quiescent state exactly `N`
    further sends are accepted -/
theorem c08_no_leak (hn : 0 < n) (hr : ReachableX n s) (hid : ∀ t, s.thr t = .idle) :
    s.enqTail = s.tail ∧ s.deqHead = s.head ∧
    (abs s = [] → ∀ t vs, vs.length = s.N →
        (fillSolo t s vs).2 = (List.range' 1 s.N).map (fun l => Loc.done (.sent l)) ∧ abs (fillSolo t s vs).1 = vs ∧
        ∀ w, (run (fillSolo t s vs).1 (sendSolo t w)).thr t = .done .full) := by
  have hq := quiescent_counters s (reachable_inv hn hr) hid
  refine ⟨hq.1, hq.2, ?_⟩
  intro hemp t vs hlen
  obtain ⟨h1, h2, h3, h4, h5⟩ := fillSolo_spec hn t vs s hr hid (by rw [hemp]; simp [hlen])
  rw [hemp] at h1 h2
  refine ⟨by simpa [hlen] using h1, by simpa using h2, ?_⟩
  intro w
  have hi' := reachable_inv hn h4
  have hq' := quiescent_counters _ hi' h3
  have hl' := abs_length _ hi'
  have : ¬ ((fillSolo t s vs).1.tail - (fillSolo t s vs).1.head < (fillSolo t s vs).1.N) := by
    rw [← hl', h2, h5]; simp [hlen]
  exact by simpa using (solo_send_full _ t w h3 hq'.1 this).2.1 t

/-- cancelling out of order is refused: with a higher sequence number still claimed, the cancel CAS cannot succeed, the
    caller keeps its reservation, `enqTail` is unchanged, and the call returns `canIdx false` within two own steps -/
theorem c08_cancel_out_of_order_refused (hn : 0 < n) (hr : ReachableX n s) (hadm : AllAdmitted s) (t id idx g : Nat)
    (ht : s.thr t = .rCan id idx g) (hhi : ∃ u k, holdsP (s.thr u) k ∧ id < k) :
    s.enqTail ≠ g + 1 ∧ (step s t).enqTail = s.enqTail ∧ holdsP ((step s t).thr t) id ∧
    ((step s t).thr t = .rRet id (.canIdx false) ∨ (step (step s t) t).thr t = .rRet id (.canIdx false)) :=
  rCan_out_of_order s (reachable_inv hn hr) hadm t id idx g ht hhi

/-! ## non-vacuity -/

/-- reserve, fill twice, publish by index, receive: the last value written is delivered -/
example : let s := run (init 2) [.reserve 0, .step 0, .step 0, .ack 0, .fill 0 8, .fill 0 9, .pubIdx 0, .step 0, .ack 0,
      .recv 1, .step 1, .step 1, .step 1, .step 1]
    ReachableX 2 s ∧ s.delivered = [(1, 0, 9)] ∧ s.thr 1 = .done (.got 9) :=
  ⟨reachableX_of_noCancel 2 _ (by intro t; simp), by decide, by decide⟩

/-- second lap (ids 2, 3 in a ring of 2): the index-based publish needs a re-guess and then succeeds on its own id -/
example : let s := run (init 2) ((sendSolo 0 1 ++ [.ack 0] ++ recvSolo 1 ++ [.ack 1]) ++ (sendSolo 0 2 ++ [.ack 0] ++ recvSolo 1 ++ [.ack 1])
      ++ [.reserve 0, .step 0, .step 0, .ack 0, .fill 0 7, .pubIdx 0, .step 0])
    s.thr 0 = .rPub 2 0 2 ∧ s.tail = 2 ∧ (step s 0).accepted = [1, 2, 7] := by decide

/-- sequential producers: reserve twice (threads 0, 1), cancel the later one: every state of the run is `SeqP` (so the run
    is in scope), the hypotheses of `c08_cancel_exact` hold at the cancel step and the cancel succeeds on its own id -/
example : let as : List Act := [.reserve 0, .step 0, .step 0, .ack 0, .reserve 1, .step 1, .step 1, .ack 1, .canIdx 1]
    RunSeqP (init 2) (as ++ [.step 1]) ∧ AllAdmitted (run (init 2) as) ∧ (run (init 2) as).thr 1 = .rCan 1 1 1 ∧
    (run (init 2) as).enqTail = 2 ∧ (step (run (init 2) as) 1).enqTail = 1 := by
  intro as
  have h1 : RunSeqP (init 2) (as ++ [.step 1]) := runSeqP_init_of_check 2 [0, 1] (by decide) _ (by decide)
  have h2 : (run (init 2) as).thr 1 = .rCan 1 1 1 := by decide
  exact ⟨h1, allAdmitted_of_seqP _ (seqP_of_runSeqP_snoc _ _ _ h1) 1 1 1 1 h2, h2, by decide, by decide⟩

/-- … and cancelling the earlier one first is refused -/
example : let s := run (init 2) [.reserve 0, .step 0, .step 0, .ack 0, .reserve 1, .step 1, .step 1, .ack 1, .canIdx 0]
    s.thr 0 = .rCan 0 0 0 ∧ holdsP (s.thr 1) 1 ∧ (step s 0).thr 0 = .rRet 0 (.canIdx false) := by
  refine ⟨by decide, by simp [run, apply, step, init, setThr, holdsP], by decide⟩

#print axioms c08_publish_idx_exact
#print axioms c08_cancel_exact
#print axioms c08_sequential_in_scope
#print axioms c08_slot_private
#print axioms c08_cancelled_never_delivered
#print axioms c08_no_leak
#print axioms c08_cancel_out_of_order_refused

end Mutiny.Ring
