import Mutiny.Model.CancelAll

/-!
# C07 — `cancel_all_streams()` AS PINNED (unlocked walk): what held, and finding D11 (repaired in /repo by `fix:` 944df07 — the
  repaired, locked walk and its all-interleavings theorem are in `Props/C07_CancelAllLock.lean`)

`Mutiny/Model/CancelAll.lean`: the unlocked walk (the pinned code) of `cancel_all_streams()` over `used_streams`, on top of the stream-id
bookkeeping of model M6.

* `c07_cancel_all_quiescent`: while no listener is being created or removed, the walk tells exactly the listed streams to end
  (each once, in list order) — for every list length and every `MAX_STREAMS`;
* `c07_cancel_all_race_counterexample` (**finding D11**): interleaved with the removal of a listener with a LOWER stream id —
  which rewrites the list entry by entry under a lock the walk does not take — the walk reads entries 0 and 1 of
  `[0,1,2]`, then the sentinel of `[1,2,–]`: stream 2 is live, parked or not, and is never told to end.  The same schedule
  was exhibited on the pinned channels by `multi sub=cancelall` (finding D11; the search runs first on every C07 check: corpus/C07).
-/

namespace Mutiny.CancelAll
open Mutiny

/-- entry `i` of `used_streams` (the sentinel beyond the end) -/
def ent (m : Multi.St) (i : Nat) : Nat := m.used.getD i m.MAX

theorem run_append (s : St) (as bs : List Act) : run s (as ++ bs) = run (run s as) bs := by
  simp [run, List.foldl_append]

theorem wstep_read_done (s : St) (i : Nat) (hw : s.w = .read i) (h : i ≥ s.m.MAX ∨ ent s.m i = s.m.MAX) :
    apply s .wstep = { s with w := .done } := by
  simp only [apply, hw]
  have : (i ≥ s.m.MAX ∨ s.m.used.getD i s.m.MAX = s.m.MAX) := h
  rw [if_pos this]

theorem wstep_read_cancel (s : St) (i : Nat) (hw : s.w = .read i) (h1 : i < s.m.MAX) (h2 : ent s.m i ≠ s.m.MAX) :
    apply s .wstep = { s with w := .cancel i (ent s.m i) } := by
  simp only [apply, hw]
  have : ¬ (i ≥ s.m.MAX ∨ s.m.used.getD i s.m.MAX = s.m.MAX) := by
    intro h; rcases h with h | h
    · omega
    · exact h2 h
  rw [if_neg this]; rfl

theorem wstep_cancel (s : St) (i id : Nat) (hw : s.w = .cancel i id) :
    apply s .wstep = { s with m := Multi.apply s.m (.cancel id), cancelled := s.cancelled ++ [id], w := .read (i + 1) } := by
  simp only [apply, hw]

/-- the walk over a list that nobody rewrites meanwhile: from entry `i`, with `ids` the entries up to the sentinel (or the end
    of the list) -/
theorem walk (ids : List Nat) : ∀ (s : St) (i : Nat), s.w = .read i →
    (∀ j (hj : j < ids.length), ent s.m (i + j) = ids[j]) → (∀ x ∈ ids, x ≠ s.m.MAX) →
    i + ids.length ≤ s.m.MAX → (i + ids.length = s.m.MAX ∨ ent s.m (i + ids.length) = s.m.MAX) →
    (run s (List.replicate (2 * ids.length + 1) .wstep)).w = .done ∧
    (run s (List.replicate (2 * ids.length + 1) .wstep)).cancelled = s.cancelled ++ ids ∧
    (∀ x ∈ ids, (run s (List.replicate (2 * ids.length + 1) .wstep)).m.keep x = false) ∧
    (∀ x, x ∉ ids → (run s (List.replicate (2 * ids.length + 1) .wstep)).m.keep x = s.m.keep x) := by
  induction ids with
  | nil =>
    intro s i hw _ _ hle hend
    have hc : i ≥ s.m.MAX ∨ ent s.m i = s.m.MAX := by
      rcases hend with h | h
      · left; simp only [List.length_nil, Nat.add_zero] at h; omega
      · right; simpa using h
    have : run s (List.replicate (2 * ([] : List Nat).length + 1) .wstep) = { s with w := .done } := by
      show run s [.wstep] = _
      simp only [run, List.foldl_cons, List.foldl_nil]
      exact wstep_read_done s i hw hc
    rw [this]
    refine ⟨rfl, by simp, ?_, fun _ _ => rfl⟩
    intro x hx; exact absurd hx (by simp)
  | cons x xs ih =>
    intro s i hw hent hne hle hend
    simp only [List.length_cons] at hle hend
    have h0 : ent s.m i = x := by have := hent 0 (by simp); simpa using this
    have hx : x ≠ s.m.MAX := hne x (by simp)
    have e : List.replicate (2 * (x :: xs).length + 1) Act.wstep = [.wstep, .wstep] ++ List.replicate (2 * xs.length + 1) .wstep := by
      simp only [List.length_cons]
      rw [show 2 * (xs.length + 1) + 1 = (2 * xs.length + 1) + 1 + 1 by omega, List.replicate_succ, List.replicate_succ]; rfl
    rw [e, run_append]
    let s2 : St := { s with m := Multi.apply s.m (.cancel x), cancelled := s.cancelled ++ [x], w := .read (i + 1) }
    have hs2 : run s [.wstep, .wstep] = s2 := by
      simp only [run, List.foldl_cons, List.foldl_nil]
      rw [wstep_read_cancel s i hw (by omega) (by rw [h0]; exact hx), h0]
      exact wstep_cancel _ i x rfl
    rw [hs2]
    have hent2 : ∀ j (hj : j < xs.length), ent s2.m (i + 1 + j) = xs[j] := by
      intro j hj
      have := hent (j + 1) (by simp; omega)
      have e2 : i + 1 + j = i + (j + 1) := by omega
      rw [e2]
      show ent s.m (i + (j + 1)) = xs[j]
      simpa using this
    have := ih s2 (i + 1) rfl hent2 (fun y hy => hne y (by simp [hy])) (by show i + 1 + xs.length ≤ s.m.MAX; omega)
      (by rcases hend with h | h
          · left; show i + 1 + xs.length = s.m.MAX; omega
          · right
            have e2 : i + 1 + xs.length = i + (xs.length + 1) := by omega
            show ent s.m (i + 1 + xs.length) = s.m.MAX
            rw [e2]; exact h)
    obtain ⟨a, b, d, f⟩ := this
    refine ⟨a, by rw [b]; simp [s2], ?_, ?_⟩
    · intro y hy
      rcases List.mem_cons.mp hy with rfl | hy
      · by_cases hm : y ∈ xs
        · exact d y hm
        · rw [f y hm]; simp [s2, Multi.apply]
      · exact d y hy
    · intro y hy
      rw [f y (fun h => hy (List.mem_cons_of_mem _ h))]
      have : y ≠ x := fun e => hy (by simp [e])
      simp [s2, Multi.apply, this]

/-- **no churn during the walk**: `cancel_all_streams()` on a list `ids ++ sentinels` tells exactly the streams `ids` to end, in
    order, and touches no other flag — for every `MAX_STREAMS` and every number of live streams -/
theorem c07_cancel_all_quiescent (s : St) (ids : List Nat) (hw : s.w = .idle)
    (hused : s.m.used = ids ++ List.replicate (s.m.MAX - ids.length) s.m.MAX) (hlen : ids.length ≤ s.m.MAX)
    (hne : ∀ x ∈ ids, x ≠ s.m.MAX) :
    let s' := run s (.cancelAll :: List.replicate (2 * ids.length + 1) .wstep)
    s'.w = .done ∧ s'.cancelled = s.cancelled ++ ids ∧ (∀ x ∈ ids, s'.m.keep x = false) ∧ (∀ x, x ∉ ids → s'.m.keep x = s.m.keep x) := by
  intro s'
  have h1 : run s [.cancelAll] = { s with w := .read 0 } := by simp [run, apply, hw]
  have hent : ∀ j (hj : j < ids.length), ent s.m (0 + j) = ids[j] := by
    intro j hj
    simp only [Nat.zero_add, ent, hused]
    rw [List.getD_eq_getElem?_getD, List.getElem?_append_left hj]; simp [hj]
  have hend : 0 + ids.length = s.m.MAX ∨ ent s.m (0 + ids.length) = s.m.MAX := by
    by_cases h : ids.length = s.m.MAX
    · left; omega
    · right
      simp only [Nat.zero_add, ent, hused]
      rw [List.getD_eq_getElem?_getD, List.getElem?_append_right (Nat.le_refl _)]
      have hpos : 0 < s.m.MAX - ids.length := by omega
      simp [hpos]
  have := walk ids { s with w := .read 0 } 0 rfl hent hne (by simpa using hlen) hend
  have e : s' = run { s with w := .read 0 } (List.replicate (2 * ids.length + 1) .wstep) := by
    show run s ([.cancelAll] ++ List.replicate (2 * ids.length + 1) .wstep) = _
    rw [run_append, h1]
  rw [e]
  obtain ⟨a, b, c, d⟩ := this
  exact ⟨a, b, c, d⟩

/-! ## finding D11 -/

def createActs (t : Nat) : List Act := [.multi (.create t)] ++ List.replicate 9 (.multi (.step t)) ++ [.multi (.ack t)]

/-- three listeners (ids 0, 1, 2; `MAX_STREAMS = 4`); `cancel_all_streams()` starts; listener 0 is removed meanwhile -/
def raceWitness : List Act :=
  createActs 0 ++ createActs 0 ++ createActs 0 ++
  [.cancelAll, .wstep, .wstep,                                   -- entry 0 read (= 0): stream 0 told to end
   .multi (.drop 20 0), .multi (.step 20), .multi (.step 20), .multi (.step 20), .multi (.step 20), .multi (.step 20),
   .multi (.step 20),                                            -- the removal rewrites entry 0 := 1 (list is now [1,1,2,–])
   .wstep, .wstep,                                               -- entry 1 read (= 1): stream 1 told to end
   .multi (.step 20), .multi (.step 20), .multi (.step 20),      -- entry 1 := 2, entry 2 := sentinel   ([1,2,–,–])
   .wstep]                                                       -- entry 2 read: the sentinel — the walk is over

/-- **D11**: the walk finishes, the removal finishes, listener 2 is live and its keep-running flag is still set: it was never
    told to end (nor woken) although `cancel_all_streams()` returned -/
theorem c07_cancel_all_race_counterexample :
    let s := run (init 4) raceWitness
    s.w = .done ∧ s.m.thr 20 = .done .unit ∧ s.m.live = [1, 2] ∧ s.m.used = [1, 2, 4, 4] ∧ s.cancelled = [0, 1] ∧
      s.m.keep 2 = true := by decide

/-- the quiescent theorem is not vacuous: the same three listeners, nobody removed: all three are told to end -/
example : let s := run (init 4) (createActs 0 ++ createActs 0 ++ createActs 0 ++ .cancelAll :: List.replicate 7 .wstep)
    s.w = .done ∧ s.cancelled = [0, 1, 2] ∧ (List.range 4).map s.m.keep = [false, false, false, false] := by decide

#print axioms c07_cancel_all_quiescent
#print axioms c07_cancel_all_race_counterexample

end Mutiny.CancelAll
