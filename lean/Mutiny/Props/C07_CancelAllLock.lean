import Mutiny.Model.CancelAllLock
import Mutiny.Proofs.MultiSeq

/-!
# C07 — `cancel_all_streams()` as repaired: the walk holds `streams_lock` (finding D11 fixed)

`Mutiny/Model/CancelAllLock.lean`: the walker of `cancel_all_streams()` on top of the stream-id bookkeeping of model M6, with
ANY number of other threads creating / removing listeners, sending and polling meanwhile, under ANY schedule.

* `Inv` — mutual exclusion on `streams_lock`: at most one thread is inside `sync_vacant_and_used_streams` past its lock
  acquisition, the flag is set while one is, and while the walker holds the flag nobody is (`inv_apply`, `inv_run`);
* `c07_cancel_all_locked` — **for every interleaving**: when the walk has finished, the streams it told to end are exactly the
  entries that `used_streams` listed, up to the sentinel, AT THE INSTANT THE WALKER TOOK THE LOCK — each once, in list order;
  a concurrent removal (which rewrites the list entry by entry, the cause of D11) cannot make it skip a listed stream nor
  end its walk early;
* `c07_cancel_all_locked_progress` — once it holds the lock the walker needs no step of anybody else: `2·k + 2` own steps (`k` streams still
  listed in front of it) finish the walk, whatever the others do in between;
* `c07_d11_schedule_repaired` — the very schedule of `c07_cancel_all_race_counterexample` (the removal of listener 0 racing with
  the walk over `[0,1,2]`): the removal now waits at `sm.sync.lock`, all three streams are told to end;
* the pinned, unlocked walk and its counterexample stay in `Props/C07_CancelAll.lean`.
-/

namespace Mutiny.CancelAllLock
open Mutiny

/-- a thread of the bookkeeping model that is inside the critical section of `sync_vacant_and_used_streams` -/
def holds : Multi.Loc → Prop
  | .yPeek _ => True
  | .yWrite _ _ _ => True
  | _ => False

/-- the walker holds `streams_lock` -/
def active : WLoc → Prop
  | .read _ => True
  | .cancel _ _ => True
  | .unlock => True
  | _ => False

structure Inv (s : St) : Prop where
  h1 : ∀ t, holds (s.m.thr t) → s.m.slock = true
  h2 : ∀ t u, holds (s.m.thr t) → holds (s.m.thr u) → t = u
  h3 : active s.w → s.m.slock = true ∧ ∀ t, ¬ holds (s.m.thr t)

macro "tr" : tactic => `(tactic| first | rfl | trivial | (left; trivial) | (right; rfl) | (right; trivial) | (left; rfl))

theorem run_append (s : St) (as bs : List Act) : run s (as ++ bs) = run (run s as) bs := by
  simp [run, List.foldl_append]

/-! ## mutual exclusion -/

/-- a bookkeeping action that keeps the flag and creates no new lock holder -/
theorem inv_of_le (s : St) (m' : Multi.St) (h : Inv s) (hl : m'.slock = s.m.slock)
    (hh : ∀ u, holds (m'.thr u) → holds (s.m.thr u)) : Inv { s with m := m' } :=
  ⟨fun t ht => by rw [hl]; exact h.h1 t (hh t ht),
   fun t u ht hu => h.h2 t u (hh t ht) (hh u hu),
   fun ha => ⟨by rw [hl]; exact (h.h3 ha).1, fun t ht => (h.h3 ha).2 t (hh t ht)⟩⟩

/-- acquisition of a free flag by thread `t` of the bookkeeping model -/
theorem inv_acquire (s : St) (t : Nat) (r : Multi.Res) (h : Inv s) (hf : s.m.slock = false) :
    Inv { s with m := Multi.setThr { s.m with slock := true } t (.yPeek r) } := by
  have hno : ∀ u, ¬ holds (s.m.thr u) := fun u hu => by have := h.h1 u hu; rw [hf] at this; cases this
  refine ⟨fun _ _ => rfl, ?_, ?_⟩
  · intro a b ha hb
    simp only [Multi.thr_setThr] at ha hb
    by_cases ea : a = t <;> by_cases eb : b = t
    · rw [ea, eb]
    · rw [if_neg eb] at hb; exact absurd hb (hno b)
    · rw [if_neg ea] at ha; exact absurd ha (hno a)
    · rw [if_neg ea] at ha; exact absurd ha (hno a)
  · intro ha; have := (h.h3 ha).1; rw [hf] at this; cases this

/-- release of the flag by its holder `t` of the bookkeeping model: nobody is inside afterwards -/
theorem inv_release (s : St) (m' : Multi.St) (t : Nat) (h : Inv s) (ht : holds (s.m.thr t))
    (hh : ∀ u, holds (m'.thr u) → u ≠ t ∧ holds (s.m.thr u)) : Inv { s with m := m' } := by
  have hno : ∀ u, holds (m'.thr u) → False := fun u hu => (hh u hu).1 (h.h2 u t (hh u hu).2 ht)
  refine ⟨fun u hu => absurd hu (hno u), fun a _ ha _ => absurd ha (hno a), ?_⟩
  intro ha; exact absurd ht ((h.h3 ha).2 t)

theorem rel_setThr (s : St) (m1 : Multi.St) (t : Nat) (l : Multi.Loc) (hthr : m1.thr = s.m.thr) (hl : ¬ holds l) :
    ∀ u, holds ((Multi.setThr m1 t l).thr u) → u ≠ t ∧ holds (s.m.thr u) := by
  intro u hu
  simp only [Multi.thr_setThr] at hu
  by_cases e : u = t
  · rw [if_pos e] at hu; exact absurd hu hl
  · rw [if_neg e] at hu; rw [← hthr]; exact ⟨e, hu⟩

theorem inv_multi_step (s : St) (t : Nat) (h : Inv s) : Inv { s with m := Multi.step s.m t } := by
  have keep : ∀ (m' : Multi.St) (l : Multi.Loc), ¬ holds l → m'.slock = s.m.slock → m'.thr = s.m.thr →
      Inv { s with m := Multi.setThr m' t l } := by
    intro m' l hl hs hthr
    refine inv_of_le s _ h (by simpa using hs) ?_
    intro u hu
    simp only [Multi.thr_setThr] at hu
    by_cases e : u = t
    · rw [if_pos e] at hu; exact absurd hu hl
    · rw [if_neg e] at hu; rw [← hthr]; exact hu
  cases hl : s.m.thr t with
  | idle => simp only [Multi.step, hl]; exact h
  | done r => simp only [Multi.step, hl]; exact h
  | cCount => simp only [Multi.step, hl]; exact keep _ _ (by simp [holds]) rfl rfl
  | cVacant =>
    simp only [Multi.step, hl]
    split
    · exact keep _ _ (by simp [holds]) rfl rfl
    · exact h
  | cFlag id => simp only [Multi.step, hl]; exact keep _ _ (by simp [holds]) rfl rfl
  | dDrain id => simp only [Multi.step, hl]; exact keep _ _ (by simp [holds]) rfl rfl
  | dCount id => simp only [Multi.step, hl]; exact keep _ _ (by simp [holds]) rfl rfl
  | dVacant id => simp only [Multi.step, hl]; exact keep _ _ (by simp [holds]) rfl rfl
  | yLock r =>
    simp only [Multi.step, hl]
    by_cases hs : s.m.slock = true
    · rw [if_pos hs]; exact keep _ _ (by simp [holds]) rfl rfl
    · rw [if_neg hs]; exact inv_acquire s t r h (by simpa using hs)
  | ySpin r =>
    simp only [Multi.step, hl]
    by_cases hs : s.m.slock = true
    · rw [if_pos hs]; exact keep _ _ (by simp [holds]) rfl rfl
    · rw [if_neg hs]; exact inv_acquire s t r h (by simpa using hs)
  | yPeek r =>
    have ht : holds (s.m.thr t) := by rw [hl]; trivial
    simp only [Multi.step, hl]
    split
    · exact inv_release s _ t h ht (rel_setThr s _ t (.done r) rfl (by simp [holds]))
    · refine inv_of_le s _ h rfl ?_
      intro u hu
      simp only [Multi.thr_setThr] at hu
      by_cases e : u = t
      · rw [e]; exact ht
      · rw [if_neg e] at hu; exact hu
  | yWrite r i rest =>
    have ht : holds (s.m.thr t) := by rw [hl]; trivial
    simp only [Multi.step, hl]
    split
    · exact inv_release s _ t h ht (rel_setThr s _ t (.done r) rfl (by simp [holds]))
    · exact inv_release s _ t h ht (rel_setThr s _ t (.done r) rfl (by simp [holds]))
    · refine inv_of_le s _ h rfl ?_
      intro u hu
      simp only [Multi.thr_setThr] at hu
      by_cases e : u = t
      · rw [e]; exact ht
      · rw [if_neg e] at hu; exact hu
  | fArc ev i id =>
    simp only [Multi.step, hl]
    split
    · exact keep _ _ (by simp [holds]) rfl rfl
    · split
      · exact keep _ _ (by simp [holds]) rfl rfl
      · exact keep _ _ (by simp [holds]) rfl rfl
  | fCount ev =>
    simp only [Multi.step, hl]
    split
    · exact keep _ _ (by simp [holds]) rfl rfl
    · exact keep _ _ (by simp [holds]) rfl rfl
  | fOgre ev i cnt =>
    simp only [Multi.step, hl]
    split
    · split
      · exact keep _ _ (by simp [holds]) rfl rfl
      · exact keep _ _ (by simp [holds]) rfl rfl
    · split
      · exact keep _ _ (by simp [holds]) rfl rfl
      · exact keep _ _ (by simp [holds]) rfl rfl
  | pPoll id =>
    simp only [Multi.step, hl]
    split
    · exact keep _ _ (by simp [holds]) rfl rfl
    · exact keep _ _ (by simp [holds]) rfl rfl

theorem inv_multi (s : St) (a : Multi.Act) (h : Inv s) : Inv { s with m := Multi.apply s.m a } := by
  have keep : ∀ (m' : Multi.St) (t : Nat) (l : Multi.Loc), ¬ holds l → m'.slock = s.m.slock → m'.thr = s.m.thr →
      Inv { s with m := Multi.setThr m' t l } := by
    intro m' t l hl hs hthr
    refine inv_of_le s _ h (by simpa using hs) ?_
    intro u hu
    simp only [Multi.thr_setThr] at hu
    by_cases e : u = t
    · rw [if_pos e] at hu; exact absurd hu hl
    · rw [if_neg e] at hu; rw [← hthr]; exact hu
  cases a with
  | step t => exact inv_multi_step s t h
  | create t => simp only [Multi.apply]; split <;> first | exact h | exact keep _ _ _ (by simp [holds]) rfl rfl
  | drop t id =>
    simp only [Multi.apply]
    split
    · split <;> exact keep _ _ _ (by simp [holds]) rfl rfl
    · exact h
  | send t ev =>
    simp only [Multi.apply]
    split
    · split
      · split <;> exact keep _ _ _ (by simp [holds]) rfl rfl
      · split <;> exact keep _ _ _ (by simp [holds]) rfl rfl
    · exact h
  | poll t id => simp only [Multi.apply]; split <;> first | exact h | exact keep _ _ _ (by simp [holds]) rfl rfl
  | release ev => exact inv_of_le s _ h rfl (fun _ hu => hu)
  | cancel id => exact inv_of_le s _ h rfl (fun _ hu => hu)
  | ack t =>
    simp only [Multi.apply]
    split
    · exact keep _ _ _ (by simp [holds]) rfl rfl
    · exact h

theorem inv_apply (s : St) (a : Act) (h : Inv s) : Inv (apply s a) := by
  cases a with
  | multi a => exact inv_multi s a h
  | cancelAll =>
    simp only [apply]
    split
    · rename_i hw
      exact ⟨h.h1, h.h2, fun ha => by simp [active] at ha⟩
    · exact h
  | wstep =>
    simp only [apply]
    cases hw : s.w with
    | idle => exact h
    | done => exact h
    | lock =>
      simp only
      by_cases hs : s.m.slock = true
      · rw [if_pos hs]; exact ⟨h.h1, h.h2, fun ha => by simp [active] at ha⟩
      · rw [if_neg hs]
        have hf : s.m.slock = false := by simpa using hs
        have hno : ∀ u, ¬ holds (s.m.thr u) := fun u hu => by have := h.h1 u hu; rw [hf] at this; cases this
        exact ⟨fun _ _ => rfl, fun a _ ha _ => absurd ha (hno a), fun _ => ⟨rfl, hno⟩⟩
    | spin =>
      simp only
      by_cases hs : s.m.slock = true
      · rw [if_pos hs]; exact ⟨h.h1, h.h2, fun ha => by simp [active] at ha⟩
      · rw [if_neg hs]
        have hf : s.m.slock = false := by simpa using hs
        have hno : ∀ u, ¬ holds (s.m.thr u) := fun u hu => by have := h.h1 u hu; rw [hf] at this; cases this
        exact ⟨fun _ _ => rfl, fun a _ ha _ => absurd ha (hno a), fun _ => ⟨rfl, hno⟩⟩
    | read i =>
      have ha : active s.w := by rw [hw]; trivial
      simp only
      split
      · exact ⟨h.h1, h.h2, fun _ => h.h3 ha⟩
      · exact ⟨h.h1, h.h2, fun _ => h.h3 ha⟩
    | cancel i id =>
      have ha : active s.w := by rw [hw]; trivial
      exact ⟨h.h1, h.h2, fun _ => h.h3 ha⟩
    | unlock =>
      have ha : active s.w := by rw [hw]; trivial
      have hno := (h.h3 ha).2
      exact ⟨fun u hu => absurd hu (hno u), fun a _ ha' _ => absurd ha' (hno a), fun ha' => by simp [active] at ha'⟩

theorem inv_run (s : St) (as : List Act) (h : Inv s) : Inv (run s as) := by
  induction as generalizing s with
  | nil => exact h
  | cons a as ih => exact ih _ (inv_apply s a h)

theorem inv_init (mx : Nat) : Inv (init mx) :=
  ⟨fun t ht => by simp [init, mk, Multi.init, holds] at ht, fun t _ ht _ => by simp [init, mk, Multi.init, holds] at ht,
   fun ha => by simp [init, mk, active] at ha⟩

/-! ## while the walker holds the lock, the list does not change -/

theorem multi_step_used (m : Multi.St) (t : Nat) (hno : ¬ holds (m.thr t)) :
    (Multi.step m t).used = m.used ∧ (Multi.step m t).MAX = m.MAX := by
  cases hl : m.thr t with
  | yPeek r => rw [hl] at hno; exact absurd trivial hno
  | yWrite r i rest => rw [hl] at hno; exact absurd trivial hno
  | idle => simp [Multi.step, hl]
  | done r => simp [Multi.step, hl]
  | cCount => simp [Multi.step, hl]
  | cVacant => simp only [Multi.step, hl]; split <;> simp
  | cFlag id => simp [Multi.step, hl]
  | dDrain id => simp [Multi.step, hl]
  | dCount id => simp [Multi.step, hl]
  | dVacant id => simp [Multi.step, hl]
  | yLock r => simp only [Multi.step, hl]; split <;> simp
  | ySpin r => simp only [Multi.step, hl]; split <;> simp
  | fArc ev i id => simp only [Multi.step, hl]; split <;> (try split) <;> simp
  | fCount ev => simp only [Multi.step, hl]; split <;> simp
  | fOgre ev i cnt => simp only [Multi.step, hl]; split <;> split <;> simp
  | pPoll id => simp only [Multi.step, hl]; split <;> simp

theorem multi_apply_used (m : Multi.St) (a : Multi.Act) (hno : ∀ t, ¬ holds (m.thr t)) :
    (Multi.apply m a).used = m.used ∧ (Multi.apply m a).MAX = m.MAX := by
  cases a with
  | step t => exact multi_step_used m t (hno t)
  | create t => simp only [Multi.apply]; split <;> simp
  | drop t id => simp only [Multi.apply]; split <;> (try split) <;> simp
  | send t ev => simp only [Multi.apply]; split <;> (try split) <;> (try split) <;> simp
  | poll t id => simp only [Multi.apply]; split <;> simp
  | release ev => simp [Multi.apply]
  | cancel id => simp [Multi.apply]
  | ack t => simp only [Multi.apply]; split <;> simp

theorem multi_apply_MAX (m : Multi.St) (a : Multi.Act) : (Multi.apply m a).MAX = m.MAX := by
  cases a with
  | step t =>
    show (Multi.step m t).MAX = m.MAX
    cases hl : m.thr t <;> simp only [Multi.step, hl] <;> (try split) <;> (try split) <;> (try split) <;> simp
  | create t => simp only [Multi.apply]; split <;> simp
  | drop t id => simp only [Multi.apply]; split <;> (try split) <;> simp
  | send t ev => simp only [Multi.apply]; split <;> (try split) <;> (try split) <;> simp
  | poll t id => simp only [Multi.apply]; split <;> simp
  | release ev => simp [Multi.apply]
  | cancel id => simp [Multi.apply]
  | ack t => simp only [Multi.apply]; split <;> simp

theorem apply_MAX (s : St) (a : Act) : (apply s a).m.MAX = s.m.MAX := by
  cases a with
  | multi b => exact multi_apply_MAX s.m b
  | cancelAll => simp only [apply]; split <;> rfl
  | wstep =>
    simp only [apply]
    cases s.w <;> simp only <;> (try split) <;> first | rfl | exact multi_apply_MAX _ _

theorem run_MAX (as : List Act) : ∀ (s : St), (run s as).m.MAX = s.m.MAX := by
  induction as with
  | nil => intro s; rfl
  | cons b bs ih => intro s; show (run (apply s b) bs).m.MAX = _; rw [ih, apply_MAX]

/-! ## the walk -/

theorem walkFrom_stop (used : List Nat) (mx i : Nat) (h : i ≥ mx ∨ used.getD i mx = mx) : walkFrom used mx i = [] := by
  unfold walkFrom
  rcases h with h | h
  · have : mx - i = 0 := by omega
    simp [this]
  · by_cases hi : i < used.length
    · rw [List.drop_eq_getElem_cons hi]
      have e : used[i] = mx := by simpa [List.getD_eq_getElem?_getD, hi] using h
      cases hk : mx - i with
      | zero => simp
      | succ k => simp [List.take_succ_cons, e]
    · have : used.drop i = [] := List.drop_eq_nil_of_le (by omega)
      simp [this]

theorem walkFrom_go (used : List Nat) (mx i : Nat) (h1 : i < mx) (h2 : used.getD i mx ≠ mx) :
    walkFrom used mx i = used.getD i mx :: walkFrom used mx (i + 1) := by
  unfold walkFrom
  have hi : i < used.length := by
    apply Classical.byContradiction; intro hn
    apply h2
    rw [List.getD_eq_getElem?_getD, List.getElem?_eq_none (by omega)]; rfl
  have e : used.getD i mx = used[i] := by simp [List.getD_eq_getElem?_getD, hi]
  rw [e] at h2 ⊢
  rw [List.drop_eq_getElem_cons hi]
  have hk : mx - i = (mx - (i + 1)) + 1 := by omega
  rw [hk, List.take_succ_cons, List.takeWhile_cons]
  simp [h2]

/-- what is still to be told to end -/
def todo (s : St) : List Nat :=
  match s.w with
  | .read i => walkFrom s.m.used s.m.MAX i
  | .cancel i id => id :: walkFrom s.m.used s.m.MAX (i + 1)
  | _ => []

/-- one action while the walker holds the lock: told-so-far ++ still-to-tell is unchanged, the walker keeps the lock or
    is at / past its release -/
theorem apply_phi (s : St) (a : Act) (h : Inv s) (ha : active s.w) :
    (apply s a).cancelled ++ todo (apply s a) = s.cancelled ++ todo s ∧ (apply s a).seen = s.seen ∧
    (active (apply s a).w ∨ (apply s a).w = .done) := by
  have hno := (h.h3 ha).2
  cases a with
  | multi a =>
    obtain ⟨hu, hm⟩ := multi_apply_used s.m a hno
    refine ⟨?_, rfl, Or.inl ha⟩
    simp only [apply, todo, hu, hm]
  | cancelAll =>
    have : s.w ≠ .idle := by intro e; rw [e] at ha; exact ha
    simp only [apply, if_neg this]
    exact ⟨by tr, by tr, Or.inl ha⟩
  | wstep =>
    cases hw : s.w with
    | idle => rw [hw] at ha; exact absurd ha (by simp [active])
    | done => rw [hw] at ha; exact absurd ha (by simp [active])
    | lock => rw [hw] at ha; exact absurd ha (by simp [active])
    | spin => rw [hw] at ha; exact absurd ha (by simp [active])
    | read i =>
      simp only [apply, hw]
      by_cases hc : i ≥ s.m.MAX ∨ s.m.used.getD i s.m.MAX = s.m.MAX
      · rw [if_pos hc]
        simp only [todo, hw, walkFrom_stop _ _ _ hc]
        exact ⟨by tr, by tr, by tr⟩
      · rw [if_neg hc]
        have h1 : i < s.m.MAX := by omega
        have h2 : s.m.used.getD i s.m.MAX ≠ s.m.MAX := fun e => hc (Or.inr e)
        simp only [todo, hw, walkFrom_go _ _ _ h1 h2]
        exact ⟨by tr, by tr, by tr⟩
    | cancel i id =>
      simp only [apply, hw, todo, Multi.apply, List.append_assoc, List.singleton_append]
      exact ⟨by tr, by tr, by tr⟩
    | unlock =>
      simp only [apply, hw, todo]
      exact ⟨by tr, by tr, by tr⟩

/-- from a state in which the walker holds the lock, whatever everybody does: if the walker is done afterwards, it told
    exactly the remaining listed streams to end -/
theorem walk_locked (as : List Act) : ∀ (s : St), Inv s → active s.w → (run s as).w = .done →
    (run s as).cancelled = s.cancelled ++ todo s ∧ (run s as).seen = s.seen := by
  induction as with
  | nil => intro s _ ha hd; simp only [run, List.foldl_nil] at hd; rw [hd] at ha; exact absurd ha (by simp [active])
  | cons a as ih =>
    intro s h ha hd
    obtain ⟨hp, hs, hact⟩ := apply_phi s a h ha
    have hrun : run s (a :: as) = run (apply s a) as := rfl
    rw [hrun] at hd ⊢
    rcases hact with hact | hdone
    · obtain ⟨r1, r2⟩ := ih (apply s a) (inv_apply s a h) hact hd
      exact ⟨by rw [r1, hp], by rw [r2, hs]⟩
    · -- the walker is done: nothing it owns changes any more
      have stay : ∀ (bs : List Act) (x : St), x.w = .done → (run x bs).cancelled = x.cancelled ∧ (run x bs).seen = x.seen := by
        intro bs
        induction bs with
        | nil => intro x _; exact ⟨rfl, rfl⟩
        | cons b bs ihb =>
          intro x hx
          have e : run x (b :: bs) = run (apply x b) bs := rfl
          rw [e]
          have hb : (apply x b).w = .done ∧ (apply x b).cancelled = x.cancelled ∧ (apply x b).seen = x.seen := by
            cases b with
            | multi b => exact ⟨hx, rfl, rfl⟩
            | cancelAll => simp only [apply]; split <;> simp_all
            | wstep => simp only [apply, hx]; exact ⟨by tr, by tr, by tr⟩
          obtain ⟨q1, q2⟩ := ihb _ hb.1
          exact ⟨by rw [q1, hb.2.1], by rw [q2, hb.2.2]⟩
      obtain ⟨q1, q2⟩ := stay as _ hdone
      have htodo : todo (apply s a) = [] := by simp [todo, hdone]
      rw [htodo, List.append_nil] at hp
      exact ⟨by rw [q1, hp], by rw [q2, hs]⟩

/-- the walker has not got the lock yet -/
def waiting : WLoc → Prop
  | .idle => True
  | .lock => True
  | .spin => True
  | _ => False

/-- before the walker has the lock it has told nobody anything; `seen` is the list at the instant it takes the lock -/
theorem walk_all (as : List Act) : ∀ (s : St), Inv s → waiting s.w → (run s as).w = .done →
    ∃ used, (run s as).seen = used ∧ (run s as).cancelled = s.cancelled ++ walkFrom used (run s as).m.MAX 0 := by
  induction as with
  | nil =>
    intro s _ hw hd; simp only [run, List.foldl_nil] at hd; rw [hd] at hw; exact absurd hw (by simp [waiting])
  | cons a as ih =>
    intro s h hw hd
    have hrun : run s (a :: as) = run (apply s a) as := rfl
    rw [hrun] at hd ⊢
    have hi := inv_apply s a h
    -- the step that takes the lock
    have took : s.m.slock = false → (s.w = .lock ∨ s.w = .spin) → a = .wstep →
        ∃ used, (run (apply s a) as).seen = used ∧
          (run (apply s a) as).cancelled = s.cancelled ++ walkFrom used (run (apply s a) as).m.MAX 0 := by
      intro hf hwl ea
      subst ea
      have hs' : apply s .wstep = { s with m := { s.m with slock := true }, w := .read 0, seen := s.m.used } := by
        rcases hwl with hwl | hwl <;> simp only [apply, hwl, hf] <;> rfl
      have hact : active (apply s .wstep).w := by rw [hs']; trivial
      obtain ⟨r1, r2⟩ := walk_locked as (apply s .wstep) hi hact hd
      refine ⟨s.m.used, by rw [r2, hs'], ?_⟩
      rw [r1, run_MAX, apply_MAX, hs']
      simp [todo]
    cases a with
    | multi b =>
      obtain ⟨u, e1, e2⟩ := ih (apply s (.multi b)) hi hw hd
      exact ⟨u, e1, e2⟩
    | cancelAll =>
      have hw' : waiting (apply s .cancelAll).w ∧ (apply s .cancelAll).cancelled = s.cancelled := by
        simp only [apply]; split
        · exact ⟨trivial, rfl⟩
        · exact ⟨hw, rfl⟩
      obtain ⟨u, e1, e2⟩ := ih _ hi hw'.1 hd
      exact ⟨u, e1, by rw [e2, hw'.2]⟩
    | wstep =>
      cases hwl : s.w with
      | idle =>
        have e : apply s .wstep = s := by simp only [apply, hwl]
        rw [e] at hd hi ⊢
        exact ih s h hw hd
      | lock =>
        by_cases hs : s.m.slock = true
        · have e : apply s .wstep = { s with w := .spin } := by simp only [apply, hwl, if_pos hs]
          rw [e] at hd hi ⊢
          obtain ⟨u, e1, e2⟩ := ih _ hi trivial hd
          exact ⟨u, e1, e2⟩
        · exact took (by simpa using hs) (Or.inl hwl) rfl
      | spin =>
        by_cases hs : s.m.slock = true
        · have e : apply s .wstep = { s with w := .spin } := by simp only [apply, hwl, if_pos hs]
          rw [e] at hd hi ⊢
          obtain ⟨u, e1, e2⟩ := ih _ hi trivial hd
          exact ⟨u, e1, e2⟩
        · exact took (by simpa using hs) (Or.inr hwl) rfl
      | read i => rw [hwl] at hw; exact absurd hw (by simp [waiting])
      | cancel i id => rw [hwl] at hw; exact absurd hw (by simp [waiting])
      | unlock => rw [hwl] at hw; exact absurd hw (by simp [waiting])
      | done => rw [hwl] at hw; exact absurd hw (by simp [waiting])

/-- **C07, `cancel_all_streams()` as repaired, every interleaving.**  From any state in which the lock discipline holds and the
    walker has not started, for every sequence of actions of the walker and of any number of threads that create and remove
    listeners, send and poll: if the walk has finished, the streams it told to end are exactly the entries `used_streams` held —
    up to the sentinel — at the instant the walker took the lock (`seen`), each once, in list order. -/
theorem c07_cancel_all_locked (s : St) (h : Inv s) (hw : s.w = .idle) (as : List Act) (hd : (run s as).w = .done) :
    (run s as).cancelled = s.cancelled ++ walkFrom (run s as).seen s.m.MAX 0 := by
  obtain ⟨u, e1, e2⟩ := walk_all as s h (by rw [hw]; trivial) hd
  have hmax : (run s as).m.MAX = s.m.MAX := run_MAX as s
  rw [e2, e1, hmax]

/-- every reachable state of the model satisfies the lock discipline -/
theorem inv_reachable (mx : Nat) (as : List Act) : Inv (run (init mx) as) := inv_run _ as (inv_init mx)

/-! ## progress: holding the lock, the walker depends on nobody -/

/-- how many own steps the walker still needs -/
def mu (s : St) : Nat :=
  match s.w with
  | .read i => 2 * (walkFrom s.m.used s.m.MAX i).length + 2
  | .cancel i _ => 2 * (walkFrom s.m.used s.m.MAX (i + 1)).length + 3
  | .unlock => 1
  | _ => 0

def wsteps : List Act → Nat
  | [] => 0
  | .wstep :: as => wsteps as + 1
  | _ :: as => wsteps as

theorem done_stays (as : List Act) : ∀ (s : St), s.w = .done → (run s as).w = .done := by
  induction as with
  | nil => intro s h; exact h
  | cons a as ih =>
    intro s h
    show (run (apply s a) as).w = .done
    apply ih
    cases a with
    | multi b => exact h
    | cancelAll => simp only [apply]; split <;> simp_all
    | wstep => simp only [apply, h]

/-- an action of anybody else leaves the walker where it is, with as much left to do -/
theorem other_keeps (s : St) (b : Multi.Act) (h : Inv s) (ha : active s.w) :
    (apply s (.multi b)).w = s.w ∧ mu (apply s (.multi b)) = mu s := by
  obtain ⟨hu, hm⟩ := multi_apply_used s.m b (h.h3 ha).2
  refine ⟨rfl, ?_⟩
  simp only [mu, apply, hu, hm]

/-- each own step of the walker takes one off -/
theorem wstep_mu (s : St) (ha : active s.w) : mu (apply s .wstep) + 1 = mu s ∧ (active (apply s .wstep).w ∨ (apply s .wstep).w = .done) := by
  cases hw : s.w with
  | idle => rw [hw] at ha; exact absurd ha (by simp [active])
  | done => rw [hw] at ha; exact absurd ha (by simp [active])
  | lock => rw [hw] at ha; exact absurd ha (by simp [active])
  | spin => rw [hw] at ha; exact absurd ha (by simp [active])
  | read i =>
    by_cases hc : i ≥ s.m.MAX ∨ s.m.used.getD i s.m.MAX = s.m.MAX
    · have e : apply s .wstep = { s with w := .unlock } := by simp only [apply, hw]; rw [if_pos hc]
      rw [e]; simp only [mu, hw, walkFrom_stop _ _ _ hc]
      exact ⟨rfl, Or.inl trivial⟩
    · have h1 : i < s.m.MAX := by omega
      have h2 : s.m.used.getD i s.m.MAX ≠ s.m.MAX := fun e => hc (Or.inr e)
      have e : apply s .wstep = { s with w := .cancel i (s.m.used.getD i s.m.MAX) } := by simp only [apply, hw]; rw [if_neg hc]
      rw [e]; simp only [mu, hw, walkFrom_go _ _ _ h1 h2, List.length_cons]
      exact ⟨by omega, Or.inl trivial⟩
  | cancel i id =>
    have e : apply s .wstep = { s with m := Multi.apply s.m (.cancel id), cancelled := s.cancelled ++ [id], w := .read (i + 1) } := by
      simp only [apply, hw]
    rw [e]
    refine ⟨?_, Or.inl trivial⟩
    simp only [mu, hw, Multi.apply]
  | unlock =>
    have e : apply s .wstep = { s with m := { s.m with slock := false }, w := .done } := by simp only [apply, hw]
    rw [e]
    exact ⟨by simp only [mu, hw], Or.inr rfl⟩

/-- **progress.**  Once the walker holds the lock, `2·k + 2` own steps finish the walk (`k` = streams still listed in front of it), WHATEVER the
    other threads do in between and however their actions are interleaved with its steps: nobody can make it wait, spin or start over. -/
theorem c07_cancel_all_locked_progress (as : List Act) : ∀ (s : St), Inv s → (active s.w ∨ s.w = .done) → mu s ≤ wsteps as →
    (run s as).w = .done := by
  induction as with
  | nil =>
    intro s _ ha hm
    rcases ha with ha | hd
    · exfalso
      simp only [wsteps, Nat.le_zero] at hm
      cases hw : s.w <;> simp only [mu, hw] at hm <;> first | omega | (rw [hw] at ha; exact absurd ha (by simp [active]))
    · exact hd
  | cons a as ih =>
    intro s h ha hm
    rcases ha with ha | hd
    · show (run (apply s a) as).w = .done
      cases a with
      | multi b =>
        obtain ⟨e1, e2⟩ := other_keeps s b h ha
        exact ih _ (inv_apply s _ h) (Or.inl (by rw [e1]; exact ha)) (by rw [e2]; simpa [wsteps] using hm)
      | cancelAll =>
        have : apply s .cancelAll = s := by
          simp only [apply]; rw [if_neg]; intro e; rw [e] at ha; exact ha
        rw [this]; exact ih s h (Or.inl ha) (by simpa [wsteps] using hm)
      | wstep =>
        obtain ⟨e1, e2⟩ := wstep_mu s ha
        exact ih _ (inv_apply s _ h) e2 (by simp only [wsteps] at hm; omega)
    · exact done_stays _ s hd

/-! ## the D11 schedule on the repaired walk -/

def createActs (t : Nat) : List Act := [.multi (.create t)] ++ List.replicate 9 (.multi (.step t)) ++ [.multi (.ack t)]

/-- the schedule of `c07_cancel_all_race_counterexample`: three listeners (ids 0, 1, 2; `MAX_STREAMS = 4`); the walk starts and
    tells stream 0 to end; listener 0 is removed meanwhile — its list rebuild now WAITS at `sm.sync.lock` -/
def raceSchedule : List Act :=
  createActs 0 ++ createActs 0 ++ createActs 0 ++
  [.cancelAll, .wstep, .wstep, .wstep,                            -- lock taken; entry 0 read (= 0): stream 0 told to end
   .multi (.drop 20 0), .multi (.step 20), .multi (.step 20), .multi (.step 20), .multi (.step 20), .multi (.step 20),
   .multi (.step 20),                                             -- the removal spins at the lock: the list stays [0,1,2,–]
   .wstep, .wstep,                                                -- entry 1 read (= 1): stream 1 told to end
   .multi (.step 20), .multi (.step 20), .multi (.step 20),
   .wstep, .wstep, .wstep, .wstep,                                -- entry 2, the sentinel, the unlock
   .multi (.step 20), .multi (.step 20), .multi (.step 20), .multi (.step 20), .multi (.step 20), .multi (.step 20)]

theorem c07_d11_schedule_repaired :
    let s := run (init 4) raceSchedule
    s.w = .done ∧ s.m.thr 20 = .done .unit ∧ s.m.live = [1, 2] ∧ s.m.used = [1, 2, 4, 4] ∧ s.seen = [0, 1, 2, 4] ∧
      s.cancelled = [0, 1, 2] ∧ s.m.keep 1 = false ∧ s.m.keep 2 = false ∧ s.m.slock = false := by decide

/-- non-vacuity of `c07_cancel_all_locked`: a reachable state (three listeners, one removal in progress inside its list rebuild)
    satisfies its hypotheses, and the walker does get the lock and finish afterwards -/
example : let s := run (init 4) (createActs 0 ++ createActs 0 ++ createActs 0 ++
      [.multi (.drop 20 1)] ++ List.replicate 5 (.multi (.step 20)))
    s.w = .idle ∧ s.m.slock = true ∧ s.m.used = [0, 1, 2, 4] ∧
    (let s' := run s ([.cancelAll, .wstep] ++ List.replicate 4 (.multi (.step 20)) ++ List.replicate 7 .wstep)
     s'.w = .done ∧ s'.seen = [0, 2, 4, 4] ∧ s'.cancelled = [0, 2]) := by
  decide

/-- non-vacuity of `c07_cancel_all_locked_progress`: three listeners, the walker has just taken the lock (`mu = 8`); a removal and a creation by
    other threads are interleaved with its eight steps (both wait at `sm.sync.lock`): the walk is done -/
example : let s := run (init 4) (createActs 0 ++ createActs 0 ++ createActs 0 ++ [.cancelAll, .wstep])
    active s.w ∧ mu s = 8 ∧
    (run s [.multi (.drop 20 0), .wstep, .multi (.step 20), .wstep, .multi (.step 20), .multi (.create 21), .wstep, .multi (.step 21), .wstep,
            .multi (.step 20), .wstep, .multi (.step 20), .wstep, .multi (.step 21), .wstep, .wstep]).w = .done := by
  refine ⟨trivial, by decide, by decide⟩

#print axioms inv_run
#print axioms c07_cancel_all_locked
#print axioms c07_cancel_all_locked_progress
#print axioms c07_d11_schedule_repaired

end Mutiny.CancelAllLock
