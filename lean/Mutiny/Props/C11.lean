import Mutiny.Proofs.ExecProps

/-!
# C11 — every item of the stream is processed and accounted for exactly once; a failed or timed-out item neither
# stops the executor nor drops later items; the error callback runs once per failed item; the concurrency limit

Model: `Mutiny/Model/Exec.lean` (`classify`, `account`: the counters `ok_events` / `failed_events` / `timed_out_events`
of `StreamExecutor` and the number of `on_err_callback` invocations; `stepEv`: the event machine of one executor).
Scope: every executor variant `v`, with or without a futures timeout, every list of item outcomes — admissible for the
variant or not (the theorems do not need `admissible`).

Trusted, not proved here: that `futures::StreamExt::for_each{,_concurrent}` poll every item of the stream and
`tokio::time::timeout` resolves to `Err` exactly for the `slow*` outcomes — the replay driver checks the counters of the
real runs against `account`.
-/

namespace Mutiny.Exec

/-- every item feeds exactly one of the three counters: none is dropped, none is counted twice -/
theorem c11_accounting (v : Variant) (timeout : Bool) (items : List Outcome) :
    let c := account v timeout items
    c.ok + c.failed + c.timedOut = items.length := by
  intro c
  obtain ⟨h1, h2, h3, -⟩ := accountFrom_fields v timeout items {}
  show (accountFrom v timeout {} items).ok + (accountFrom v timeout {} items).failed +
      (accountFrom v timeout {} items).timedOut = items.length
  rw [h1, h2, h3]
  clear h1 h2 h3 c
  induction items with
  | nil => rfl
  | cons o rest ih =>
    simp only [List.filter_cons, List.length_cons]
    rcases hc : (classify v timeout o).1 <;> simp <;> simp at ih <;> omega

/-- a failed / timed-out item does not stop the executor: accounting `xs ++ ys` is accounting `xs` and then continuing
    with every item of `ys`, whatever happened in `xs` -/
theorem c11_no_stop (v : Variant) (timeout : Bool) (xs ys : List Outcome) :
    account v timeout (xs ++ ys) = ys.foldl (fun c o => c.add (classify v timeout o)) (account v timeout xs) := by
  simp [account, List.foldl_append]

/-- consequently the counters of `xs ++ ys` are the sums of those of `xs` and of `ys` -/
theorem c11_no_stop_counts (v : Variant) (timeout : Bool) (xs ys : List Outcome) :
    (account v timeout (xs ++ ys)).ok = (account v timeout xs).ok + (account v timeout ys).ok ∧
    (account v timeout (xs ++ ys)).failed = (account v timeout xs).failed + (account v timeout ys).failed ∧
    (account v timeout (xs ++ ys)).timedOut = (account v timeout xs).timedOut + (account v timeout ys).timedOut ∧
    (account v timeout (xs ++ ys)).onErr = (account v timeout xs).onErr + (account v timeout ys).onErr := by
  simp only [account_eq, accountFrom_append]
  obtain ⟨a1, a2, a3, a4⟩ := accountFrom_fields v timeout ys (accountFrom v timeout {} xs)
  obtain ⟨b1, b2, b3, b4⟩ := accountFrom_fields v timeout ys {}
  rw [a1, a2, a3, a4, b1, b2, b3, b4]
  simp

/-- the error callback runs exactly once per failed item and never otherwise (all variants of the model) -/
theorem c11_on_err (v : Variant) (timeout : Bool) (items : List Outcome) :
    (account v timeout items).onErr = (account v timeout items).failed := by
  obtain ⟨-, h2, -, h4⟩ := accountFrom_fields v timeout items {}
  rw [account_eq, h2, h4]
  congr 2
  apply List.filter_congr
  intro o _
  have := classify_snd v timeout o
  cases h : (classify v timeout o).2 <;> simp_all

/-- per item: the error callback is invoked iff the item is counted as failed -/
theorem c11_on_err_item (v : Variant) (timeout : Bool) (o : Outcome) :
    (classify v timeout o).2 = true ↔ (classify v timeout o).1 = .failed :=
  classify_snd v timeout o

/-- per item, with a futures timeout and item futures: a slow item is counted as timed out, whatever it would have
    returned, and the error callback is not invoked for it -/
theorem c11_timeout_item (v : Variant) (hv : v = .futFallible ∨ v = .fut) (o : Outcome)
    (ho : o = .slow ∨ o = .slowErr) : classify v true o = (.timedOut, false) := by
  rcases hv with rfl | rfl <;> rcases ho with rfl | rfl <;> rfl

/-- with a futures timeout and item futures the timed-out counter is the number of slow items; without a timeout, or
    for the variants whose items are not futures, nothing is ever counted as timed out -/
theorem c11_timeout (v : Variant) (timeout : Bool) (items : List Outcome) :
    (timeout = true → (v = .futFallible ∨ v = .fut) →
      (account v timeout items).timedOut = (items.filter (fun o => o = .slow ∨ o = .slowErr)).length) ∧
    ((timeout = false ∨ v = .fallible ∨ v = .plain) → (account v timeout items).timedOut = 0) := by
  obtain ⟨-, -, h3, -⟩ := accountFrom_fields v timeout items {}
  rw [account_eq, h3]
  constructor
  · intro ht hv
    have hto : timesOut v timeout = true := timesOut_true.2 ⟨ht, hv⟩
    show 0 + _ = _
    rw [Nat.zero_add]
    congr 1
    apply List.filter_congr
    intro o _
    have := classify_fst_timedOut v timeout o
    simp only [hto, and_true] at this
    simp only [decide_eq_decide]; exact this
  · intro h
    have hto : timesOut v timeout = false := timesOut_false.2 h
    show 0 + _ = 0
    rw [Nat.zero_add, List.length_eq_zero_iff, List.filter_eq_nil_iff]
    intro o _
    have := classify_fst_timedOut v timeout o
    simp only [hto, Bool.false_eq_true, and_false, iff_false] at this
    simpa using this

/-- closed forms of the `ok` and `failed` counters -/
theorem c11_counts_explicit (v : Variant) (timeout : Bool) (items : List Outcome) :
    (timeout = true → (v = .futFallible ∨ v = .fut) →
      (account v timeout items).ok = (items.filter (fun o => o = .ok)).length ∧
      (account v timeout items).failed = (items.filter (fun o => o = .err)).length) ∧
    ((timeout = false ∨ v = .fallible ∨ v = .plain) →
      (account v timeout items).ok = (items.filter (fun o => o = .ok ∨ o = .slow)).length ∧
      (account v timeout items).failed = (items.filter (fun o => o = .err ∨ o = .slowErr)).length) := by
  obtain ⟨h1, h2, -, -⟩ := accountFrom_fields v timeout items {}
  rw [account_eq, h1, h2]
  have z1 : (({} : Counts).ok) = 0 := rfl
  have z2 : (({} : Counts).failed) = 0 := rfl
  rw [z1, z2, Nat.zero_add, Nat.zero_add]
  constructor
  · intro ht hv
    have hto : timesOut v timeout = true := timesOut_true.2 ⟨ht, hv⟩
    constructor <;> congr 1 <;> apply List.filter_congr <;> intro o _
    · have := classify_fst_ok v timeout o
      simp only [hto, Bool.true_eq_false, and_false, or_false] at this
      simp only [decide_eq_decide]; exact this
    · have := classify_fst_failed v timeout o
      simp only [hto, Bool.true_eq_false, and_false, or_false] at this
      simp only [decide_eq_decide]; exact this
  · intro h
    have hto : timesOut v timeout = false := timesOut_false.2 h
    constructor <;> congr 1 <;> apply List.filter_congr <;> intro o _
    · have := classify_fst_ok v timeout o
      simp only [hto, and_true] at this
      simp only [decide_eq_decide]; exact this
    · have := classify_fst_failed v timeout o
      simp only [hto, and_true] at this
      simp only [decide_eq_decide]; exact this

/-- the event machine never has more item futures in flight than `max limit 1` — in every reachable state, for every
    configuration (for `futures = false` nothing is ever in flight at all, see `c11_limit_no_futures`).

    `_partial`: this is a statement about the *machine*: its `yielded` step is guarded by
    `inflight.length < max limit 1`.  That the real `futures::StreamExt::for_each_concurrent(limit, ..)` (resp. `for_each`
    for `limit = 1`) never polls more than `limit` item futures at once is the documented contract of that external
    function, which is in the trusted base; it is not proved here.  The harness measures the maximum number of item futures
    simultaneously in flight on the real code, and the replay driver rejects any real log that violates the guard.
    NOTE `limit = 0`: `for_each_concurrent(0, ..)` means *no* limit in `futures 0.3`, whereas the machine uses
    `max 0 1 = 1`; the model is only faithful for `limit ≥ 1`. -/
theorem c11_limit_partial (c : Cfg) (es : List Ev) (s : St) (h : runEv c {} es = some s) :
    s.inflight.length ≤ max c.limit 1 :=
  (inv_run h).lim

/-- without item futures the item is processed inside the poll: nothing is ever in flight -/
theorem c11_limit_no_futures (c : Cfg) (hf : c.futures = false) (es : List Ev) (s : St)
    (h : runEv c {} es = some s) : s.inflight = [] :=
  (inv_run h).nofut hf

/-! ### non-vacuity / sanity -/

-- a failing item and a timed-out item in the middle do not stop the executor, each item is counted once
example : account .futFallible true [.ok, .err, .slow, .slowErr, .ok] =
    { ok := 2, failed := 1, timedOut := 2, onErr := 1 } := by decide
example : account .futFallible false [.ok, .err, .slow, .slowErr, .ok] =
    { ok := 3, failed := 2, timedOut := 0, onErr := 2 } := by decide
example : account .fut true [.ok, .slow, .ok] = { ok := 2, failed := 0, timedOut := 1, onErr := 0 } := by decide
example : account .fallible true [.ok, .err, .ok] = { ok := 2, failed := 1, timedOut := 0, onErr := 1 } := by decide
-- the bound of `c11_limit_partial` is reached: two futures in flight with limit 2; a third `yielded` is refused
example : (runEv { futures := true, limit := 2 } {} [.accepted 1, .accepted 2, .accepted 3, .yielded 1, .yielded 2]).map
    (·.inflight) = some [1, 2] := by decide
example : accepts { futures := true, limit := 2 } [.accepted 1, .accepted 2, .accepted 3, .yielded 1, .yielded 2,
    .yielded 3] = false := by decide
example : accepts { futures := true, limit := 2 } [.accepted 1, .accepted 2, .accepted 3, .yielded 1, .yielded 2,
    .finished 1, .yielded 3] = true := by decide

#print axioms c11_accounting
#print axioms c11_no_stop
#print axioms c11_no_stop_counts
#print axioms c11_on_err
#print axioms c11_on_err_item
#print axioms c11_timeout_item
#print axioms c11_timeout
#print axioms c11_counts_explicit
#print axioms c11_limit_partial
#print axioms c11_limit_no_futures

end Mutiny.Exec
