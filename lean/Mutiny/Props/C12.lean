import Mutiny.Proofs.ExecProps

/-!
# C12 — the close callback runs exactly once, after the last item; the executor status ends in an "ended" state; the
# Uni's latch fires the user callback exactly once; sequential transition between two executors

Model: `Mutiny/Model/Exec.lean` — the event machine (`callback` = `stream_ended_callback` of one `spawn_*executor`,
which runs after `for_each*` returned), `Status` / `finish` (`register_execution_finish`), `latch` / `latchFires`
(`latch_callback_1p`).
Scope: every configuration `c` (any limit, futures or not), every accepted log of any length.

Trusted, not proved here: `for_each{,_concurrent}` return only when the stream ended and every item future completed
(the guard of the `callback` step); the replay driver checks that the logs of the real runs are accepted.
-/

namespace Mutiny.Exec

/-- the close callback runs at most once: in every reachable state `callbacks ≤ 1`, an accepted log contains at most one
    `callback` event, and `callbacks` is exactly the number of `callback` events of the log -/
theorem c12_callback_once (c : Cfg) (es : List Ev) (s : St) (h : runEv c {} es = some s) :
    s.callbacks ≤ 1 ∧ es.count .callback ≤ 1 ∧ s.callbacks = es.count .callback := by
  have h1 := (inv_run h).cb
  have h2 := (ghost_run h).2.2.2
  simp only [Nat.zero_add] at h2
  exact ⟨h1, by omega, h2⟩

/-- … after the last item: at the moment of the `callback` event the stream is dropped (so the streams were told to end: a close is under
    way or an end signal was given), no item future is in flight, and every event accepted before the close call is finished — for EVERY
    configuration, including `futures ∧ limit > 1` (compare C06 / D6: `close` may return earlier, the callback may not) -/
theorem c12_callback_once_after_last (c : Cfg) (es₁ es₂ : List Ev) (s : St)
    (h : runEv c {} (es₁ ++ [.callback] ++ es₂) = some s) :
    s.callbacks ≤ 1 ∧
    ∃ s1, runEv c {} es₁ = some s1 ∧ s1.dropped = true ∧ s1.cancelled = true ∧ (s1.closing = true ∨ s1.signalled = true) ∧
      s1.inflight = [] ∧ s1.callbacks = 0 ∧ ∀ i ∈ s1.beforeClose, i ∈ s1.finished := by
  refine ⟨(inv_run h).cb, ?_⟩
  obtain ⟨⟨s1, h1, hd, hi, hcb⟩, -, -⟩ := run_callback_split (by simpa using h)
  have hinv := inv_run h1
  exact ⟨s1, h1, hd, (hinv.drop hd).1, (hinv.canc (hinv.drop hd).1).1, hi, hcb, inv_dropped_idle hinv hd hi⟩

/-- after the `callback` no item is yielded, no item future finishes and no second callback runs: every
    `yielded` / `finished` event of an accepted log precedes its `callback` -/
theorem c12_nothing_after_callback (c : Cfg) (es₁ es₂ : List Ev) (s : St)
    (h : runEv c {} (es₁ ++ [.callback] ++ es₂) = some s) :
    ∀ e ∈ es₂, (∀ i, e ≠ .yielded i) ∧ (∀ i, e ≠ .finished i) ∧ e ≠ .callback :=
  (run_callback_split (by simpa using h)).2.2

/-- the same on the log alone: everything accepted before `closeCalled` has its processing completed before `callback` -/
theorem c12_callback_after_last_log (c : Cfg) (es₁ es₂ : List Ev)
    (h : accepts c (es₁ ++ [.callback] ++ es₂) = true) :
    ∀ i ∈ acceptedBeforeClose es₁, i ∈ processedIds c es₁ := by
  simp only [accepts, Option.isSome_iff_exists] at h
  obtain ⟨s, hs⟩ := h
  obtain ⟨-, s1, h1, -, -, -, -, -, hall⟩ := c12_callback_once_after_last c es₁ es₂ s hs
  obtain ⟨g1, g2, -⟩ := ghost_run h1
  rw [g1, g2] at hall
  simpa using hall

/-- `register_execution_finish`: defined exactly on `running` / `scheduledToFinish` (it spins otherwise), always ends
    in an ended status, and reports `programmaticallyEnded` iff the executor was scheduled to finish -/
theorem c12_status (st : Status) :
    ((finish st).isSome = true ↔ st = .running ∨ st = .scheduledToFinish) ∧
    (∀ st', finish st = some st' → isEnded st' = true ∧ (st' = .programmaticallyEnded ↔ st = .scheduledToFinish) ∧
      (st' = .streamEnded ↔ st = .running)) := by
  cases st <;> simp [finish, isEnded]

/-- REMARK (race, looked for on the real code by the harness): `report_scheduled_to_finish` is a plain `store`.  If it
    lands after `register_execution_finish` (`finish .running = some .streamEnded`), the status word is
    `scheduledToFinish` again: not an ended status, `register_execution_finish` will not run a second time, so it stays
    so for ever.  Three steps: `running` —finish→ `streamEnded` —store→ `scheduledToFinish`. -/
theorem c12_status_race_remark :
    -- intended order: store, then finish
    finish (reportScheduled .running) = some .programmaticallyEnded ∧
    -- racy order: finish, then the late store
    finish .running = some .streamEnded ∧ isEnded .streamEnded = true ∧
    (finish .running).map reportScheduled = some .scheduledToFinish ∧ isEnded .scheduledToFinish = false := by decide

/-- the Uni's user close callback (`latch_callback_1p(n, ..)`, `n = MAX_STREAMS` executors each calling the latch once):
    not fired before the `n`-th call, fired exactly once by the `n`-th call, never a second time -/
theorem c12_latch (n : Nat) (hn : 1 ≤ n) :
    latchFires n n = 1 ∧ (∀ k, k < n → latchFires n k = 0) ∧ (∀ k, n ≤ k → latchFires n k = 1) ∧
    -- the firing call is the `n`-th one (`k` calls were made before it):
    (∀ k, (latch (latchRemaining n k)).2 = true ↔ k + 1 = n) := by
  refine ⟨?_, fun k hk => ?_, fun k hk => ?_, fun k => ?_⟩
  · rw [latchFires_eq, if_pos ⟨hn, Nat.le_refl n⟩]
  · rw [latchFires_eq, if_neg (by omega)]
  · rw [latchFires_eq, if_pos ⟨hn, hk⟩]
  · simp only [latch, latchRemaining_eq, beq_iff_eq]; omega

/-- `latchFires` is the fold of `latch` it is meant to be (ties the two model functions together) -/
theorem c12_latch_fold (n k : Nat) :
    latchRemaining n 0 = n ∧ latchRemaining n (k + 1) = (latch (latchRemaining n k)).1 ∧
    latchFires n (k + 1) = (if (latch (latchRemaining n k)).2 then 1 else 0) + latchFires n k :=
  ⟨rfl, rfl, latchFires_succ n k⟩

/-- a latch of 0 never fires (in the model; `MAX_STREAMS ≥ 1` in the real code) -/
theorem c12_latch_zero (k : Nat) : latchFires 0 k = 0 := by
  rw [latchFires_eq, if_neg (by omega)]

/-- sequential transition (`Multi`: the executor of the new listeners is spawned inside the close callback of the old one).
    `comb` is a combined log of the two executors (`false` = old, `true` = new).  Hypotheses: the old executor's part
    of `comb` is accepted by the machine; position `kcb` holds the old executor's `callback`; every event of the new
    executor comes after it (this is what spawning inside the callback guarantees).  Then every processing step
    (`yielded` / `finished`) of an old item precedes every event of the new executor — in particular every old item is
    completely processed before any new item starts being processed. -/
theorem c12_sequential_transition (c : Cfg) (comb : List (Bool × Ev)) (kcb : Nat)
    (hacc : accepts c (proj false comb) = true)
    (hcb : comb[kcb]? = some (false, .callback))
    (hnew : ∀ k e, comb[k]? = some (true, e) → kcb < k) :
    ∀ j e k e', comb[j]? = some (false, e) → isProcessing e = true → comb[k]? = some (true, e') →
      j < kcb ∧ kcb < k := by
  intro j e k e' hj he hk
  refine ⟨?_, hnew k e' hk⟩
  obtain ⟨hlt, hget⟩ := List.getElem?_eq_some_iff.1 hcb
  have hsplit : comb = comb.take kcb ++ (false, Ev.callback) :: comb.drop (kcb + 1) := by
    rw [← hget, ← List.drop_eq_getElem_cons hlt, List.take_append_drop]
  rw [hsplit] at hacc
  have hpost := seq_split hacc
  rcases Nat.lt_trichotomy j kcb with h | h | h
  · exact h
  · subst h; rw [hcb] at hj; cases hj; cases he
  · exfalso
    have hmem : (false, e) ∈ comb.drop (kcb + 1) := by
      apply List.mem_of_getElem? (i := j - (kcb + 1))
      rw [List.getElem?_drop, ← hj]; congr 1; omega
    have := hpost e hmem
    rw [he] at this; cases this

/-! ### non-vacuity / sanity -/

-- a complete life cycle with one callback at the end is accepted (limit 2, futures): the callback waits for item 1
example : accepts { futures := true, limit := 2 }
    ([.accepted 1, .yielded 1, .closeCalled, .closeReturned, .finished 1] ++ [.callback] ++ [.accepted 2]) = true := by
  decide
-- the callback is refused while an item future is in flight, and refused a second time
example : accepts { futures := true, limit := 2 } [.accepted 1, .yielded 1, .closeCalled, .closeReturned, .callback]
    = false := by decide
example : accepts { futures := true, limit := 1 } [.closeCalled, .callback, .callback] = false := by decide
example : accepts { futures := true, limit := 1 } [.closeCalled, .callback] = true := by decide
-- latch of 3: fires at the third call only
example : (List.range 6).map (latchFires 3) = [0, 0, 0, 1, 1, 1] := by decide
-- `c12_sequential_transition`: hypotheses satisfiable, with old and new items
example :
    let comb : List (Bool × Ev) :=
      [(false, .accepted 1), (false, .yielded 1), (false, .closeCalled), (false, .finished 1), (false, .callback),
       (true, .accepted 7), (true, .yielded 7), (false, .closeReturned), (true, .finished 7)]
    accepts { futures := true, limit := 1 } (proj false comb) = true ∧ comb[4]? = some (false, .callback) ∧
    accepts { futures := true, limit := 1 } (proj true comb) = true := by decide

#print axioms c12_callback_once
#print axioms c12_callback_once_after_last
#print axioms c12_nothing_after_callback
#print axioms c12_callback_after_last_log
#print axioms c12_status
#print axioms c12_status_race_remark
#print axioms c12_latch
#print axioms c12_latch_fold
#print axioms c12_latch_zero
#print axioms c12_sequential_transition

end Mutiny.Exec
