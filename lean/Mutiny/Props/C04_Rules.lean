import Mutiny.Model.Wake
import Mutiny.Generated.WakeRules

/-!
# C04 — the wake decisions READ FROM THE CURRENT SOURCE are the wake rules the no-lost-wake-up theorem is about

`tools/extract.py` (G3) regenerates `Mutiny/Generated/WakeRules.lean` from `/repo` on every run: for every send path of every
channel, the `if … else if …` cascade that guards its `wake_stream(target)` calls, as a term of `Mutiny.WakeRuleLang`.
Each theorem below says that such a generated chain computes, for EVERY `MAX_STREAMS` and every length, exactly
`Wake.Rule.target r` for the rule `r` under which the channel kind is an instance of the `c04_no_stuck_state` theorem
(`Props/C04.lean`).  Changing a comparison, a constant or a wake target in the source changes the generated term, and the
corresponding theorem stops checking — a broken proof obligation, upon which `bin/check` searches the implementation for a
stuck schedule.
-/

namespace Mutiny.Wake
open Mutiny.WakeRuleLang Mutiny.Generated

/-- the chain of the normal path of a send function (its first `wake_stream` site) -/
def mainChain (l : List Chain) : Chain := l.headD []

macro "rule_eq" : tactic => `(tactic| (
  intro MAX len
  simp only [mainChain, List.headD, evalChain, G.holds, T.val, V.val, E.val, Rule.target, Option.map, decide_eq_true_eq]
  (repeat' split) <;> (try simp_all) <;> (try omega)))

/-! ### Uni channels -/
theorem rule_uniMovableAtomic_send : ∀ MAX len, evalChain MAX len (mainChain uniMovableAtomic_send) = some (Rule.target .atomic MAX len) := by
  unfold uniMovableAtomic_send; rule_eq
theorem rule_uniMovableAtomic_send_with : ∀ MAX len, evalChain MAX len (mainChain uniMovableAtomic_send_with) = some (Rule.target .atomic MAX len) := by
  unfold uniMovableAtomic_send_with; rule_eq
theorem rule_uniMovableAtomic_try_send_reserved : ∀ MAX len, evalChain MAX len (mainChain uniMovableAtomic_try_send_reserved) = some (Rule.target .rsv MAX len) := by
  unfold uniMovableAtomic_try_send_reserved; rule_eq
theorem rule_uniMovableFullSync_send : ∀ MAX len, evalChain MAX len (mainChain uniMovableFullSync_send) = some (Rule.target .fs MAX len) := by
  unfold uniMovableFullSync_send; rule_eq
theorem rule_uniMovableFullSync_send_with : ∀ MAX len, evalChain MAX len (mainChain uniMovableFullSync_send_with) = some (Rule.target .fs MAX len) := by
  unfold uniMovableFullSync_send_with; rule_eq
theorem rule_uniMovableCrossbeam_send : ∀ MAX len, evalChain MAX len (mainChain uniMovableCrossbeam_send) = some (Rule.target .cb MAX len) := by
  unfold uniMovableCrossbeam_send; rule_eq
theorem rule_uniZeroCopyAtomic_send : ∀ MAX len, evalChain MAX len (mainChain uniZeroCopyAtomic_send) = some (Rule.target .atomic MAX len) := by
  unfold uniZeroCopyAtomic_send; rule_eq
theorem rule_uniZeroCopyAtomic_send_with : ∀ MAX len, evalChain MAX len (mainChain uniZeroCopyAtomic_send_with) = some (Rule.target .atomic MAX len) := by
  unfold uniZeroCopyAtomic_send_with; rule_eq
theorem rule_uniZeroCopyAtomic_send_with_async : ∀ MAX len, evalChain MAX len (mainChain uniZeroCopyAtomic_send_with_async) = some (Rule.target .atomic MAX len) := by
  unfold uniZeroCopyAtomic_send_with_async; rule_eq
theorem rule_uniZeroCopyAtomic_try_send_reserved : ∀ MAX len, evalChain MAX len (mainChain uniZeroCopyAtomic_try_send_reserved) = some (Rule.target .rsv MAX len) := by
  unfold uniZeroCopyAtomic_try_send_reserved; rule_eq
theorem rule_uniZeroCopyFullSync_send : ∀ MAX len, evalChain MAX len (mainChain uniZeroCopyFullSync_send) = some (Rule.target .fs MAX len) := by
  unfold uniZeroCopyFullSync_send; rule_eq
theorem rule_uniZeroCopyFullSync_send_with : ∀ MAX len, evalChain MAX len (mainChain uniZeroCopyFullSync_send_with) = some (Rule.target .fs MAX len) := by
  unfold uniZeroCopyFullSync_send_with; rule_eq
theorem rule_uniZeroCopyFullSync_send_with_async : ∀ MAX len, evalChain MAX len (mainChain uniZeroCopyFullSync_send_with_async) = some (Rule.target .fs MAX len) := by
  unfold uniZeroCopyFullSync_send_with_async; rule_eq
theorem rule_uniZeroCopyFullSync_try_send_reserved : ∀ MAX len, evalChain MAX len (mainChain uniZeroCopyFullSync_try_send_reserved) = some (Rule.target .rsv MAX len) := by
  unfold uniZeroCopyFullSync_try_send_reserved; rule_eq

/-- the movable channels' `send_with_async` decides from the length observed at RESERVATION (`len_before < MAX → wake(len_before)`):
    as a function of that length it is the full-sync rule — the finding D5a is that this length is stale, not that the rule differs -/
theorem rule_uniMovable_send_with_async : ∀ MAX len, 0 < len →
    evalChain MAX len (mainChain uniMovableAtomic_send_with_async) = some (Rule.target .fs MAX len) ∧
    evalChain MAX len (mainChain uniMovableFullSync_send_with_async) = some (Rule.target .fs MAX len) := by
  intro MAX len hl
  unfold uniMovableAtomic_send_with_async uniMovableFullSync_send_with_async
  simp only [mainChain, List.headD, evalChain, G.holds, T.val, V.val, E.val, Rule.target, Option.map]
  by_cases h : len - 1 < MAX <;> by_cases h2 : len ≤ MAX <;> simp [h, h2] <;> omega

/-! ### Multi channels (per listener: "that listener" is stream 0 of the one-listener model) -/
theorem rule_multiArcAtomic : ∀ MAX len, evalChain MAX len (mainChain multiArcAtomic_send_derived) = some (Rule.target .m2 MAX len) := by
  unfold multiArcAtomic_send_derived; rule_eq
theorem rule_multiArcFullSync : ∀ MAX len, evalChain MAX len (mainChain multiArcFullSync_send_derived) = some (Rule.target .m1 MAX len) := by
  unfold multiArcFullSync_send_derived; rule_eq
theorem rule_multiArcCrossbeam : ∀ MAX len, evalChain MAX len (mainChain multiArcCrossbeam_send_derived) = some (Rule.target .cb MAX len) := by
  unfold multiArcCrossbeam_send_derived; rule_eq
theorem rule_multiOgreArcAtomic : ∀ MAX len, evalChain MAX len (mainChain multiOgreArcAtomic_send_derived) = some (Rule.target .m2 MAX len) := by
  unfold multiOgreArcAtomic_send_derived; rule_eq
theorem rule_multiOgreArcFullSync : ∀ MAX len, evalChain MAX len (mainChain multiOgreArcFullSync_send_derived) = some (Rule.target .m1 MAX len) := by
  unfold multiOgreArcFullSync_send_derived; rule_eq

/-- the retry-when-full branch of the three Arc channels wakes the listener unconditionally (an extra wake-up is harmless) -/
theorem rule_multiArc_retry_branch : ∀ MAX len,
    (multiArcAtomic_send_derived.drop 1).map (evalChain MAX len) = [some (some 0)] ∧
    (multiArcFullSync_send_derived.drop 1).map (evalChain MAX len) = [some (some 0)] ∧
    (multiArcCrossbeam_send_derived.drop 1).map (evalChain MAX len) = [some (some 0)] := by
  intro MAX len; refine ⟨rfl, rfl, rfl⟩

/-- the log channel wakes EVERY listed listener after EVERY publication, whatever the length -/
theorem rule_multiMmapLog : ∀ MAX len,
    evalChain MAX len (mainChain multiMmapLog_send) = some (Rule.target .all MAX len) ∧
    evalChain MAX len (mainChain multiMmapLog_send_with) = some (Rule.target .all MAX len) := by
  intro MAX len; exact ⟨rfl, rfl⟩

/-- every send path the translator found is one of those the theorems above speak about (a new `wake_stream` site, or one
    that disappeared, changes this list) -/
theorem wake_site_inventory : wakeSites.map (·.1) =
    ["uniMovableAtomic_send", "uniMovableAtomic_send_with", "uniMovableAtomic_send_with_async", "uniMovableAtomic_try_send_reserved",
     "uniMovableFullSync_send", "uniMovableFullSync_send_with", "uniMovableFullSync_send_with_async", "uniMovableCrossbeam_send",
     "uniZeroCopyAtomic_send", "uniZeroCopyAtomic_send_with", "uniZeroCopyAtomic_send_with_async", "uniZeroCopyAtomic_try_send_reserved",
     "uniZeroCopyFullSync_send", "uniZeroCopyFullSync_send_with", "uniZeroCopyFullSync_send_with_async", "uniZeroCopyFullSync_try_send_reserved",
     "multiArcAtomic_send_derived", "multiArcFullSync_send_derived", "multiArcCrossbeam_send_derived", "multiOgreArcAtomic_send_derived",
     "multiOgreArcFullSync_send_derived", "multiMmapLog_send", "multiMmapLog_send_with", "multiMmapLog_send_with_async"] := by decide

/-- … and each of them has exactly one chain on its normal path (plus, for the Arc channels, the retry branch) -/
theorem wake_site_shapes : wakeSites.map (fun x => x.2.map List.length) =
    [[2], [2], [1], [1], [1], [1], [1], [1], [2], [2], [2], [1], [1], [1], [1], [1], [1, 1], [1, 1], [1, 1], [1], [1], [1], [1], [1]] := by decide

#print axioms rule_uniMovableAtomic_send
#print axioms rule_uniMovableAtomic_send_with
#print axioms rule_uniMovableAtomic_try_send_reserved
#print axioms rule_uniMovableFullSync_send
#print axioms rule_uniMovableFullSync_send_with
#print axioms rule_uniMovableCrossbeam_send
#print axioms rule_uniZeroCopyAtomic_send
#print axioms rule_uniZeroCopyAtomic_send_with
#print axioms rule_uniZeroCopyAtomic_send_with_async
#print axioms rule_uniZeroCopyAtomic_try_send_reserved
#print axioms rule_uniZeroCopyFullSync_send
#print axioms rule_uniZeroCopyFullSync_send_with
#print axioms rule_uniZeroCopyFullSync_send_with_async
#print axioms rule_uniZeroCopyFullSync_try_send_reserved
#print axioms rule_uniMovable_send_with_async
#print axioms rule_multiArcAtomic
#print axioms rule_multiArcFullSync
#print axioms rule_multiArcCrossbeam
#print axioms rule_multiOgreArcAtomic
#print axioms rule_multiOgreArcFullSync
#print axioms rule_multiArc_retry_branch
#print axioms rule_multiMmapLog
#print axioms wake_site_inventory
#print axioms wake_site_shapes

end Mutiny.Wake
