import Mutiny.Generated.Tags

/-!
# G2 — the inventory of scheduler yield points (`vp!` hook tags) of the current source

`tools/extract.py` lists every `vp!("tag", …)` line of `/repo/src`, per file (sorted), on every run (`Generated/Tags.lean`).  The replay driver compares
tags step by step, so a yield point that disappears from a modelled access sequence shows up as a diverging replay; what the replay cannot see is a hook
that silently disappears from (or is duplicated in) code that only the ORACLE-ONLY scenarios exercise, or whose removal merely coarsens the
interleavings the scheduler explores.  The obligations below pin the inventory: per source file, the multiset of tags is exactly the one the models,
the driver glue and the scenario filters were written against.  Adding a hook means adding it here (and deciding which model step or absorbed step it is).
-/

namespace Mutiny.Generated

def tagsOf (file : String) : List String := (hookTags.filter (·.1 == file)).map (·.2)

theorem inv_incremental_averages : tagsOf "src/incremental_averages.rs" =
    ["ia.cas", "ia.load", "ia.probe"] := by decide

theorem inv_multi_channels_arc_atomic : tagsOf "src/multi/channels/arc/atomic.rs" =
    ["mc.drop.drain", "mc.fan.read"] := by decide

theorem inv_multi_channels_arc_crossbeam : tagsOf "src/multi/channels/arc/crossbeam.rs" =
    ["cb.len", "cb.recv", "cb.try", "mc.drop.drain", "mc.fan.read"] := by decide

theorem inv_multi_channels_arc_full_sync : tagsOf "src/multi/channels/arc/full_sync.rs" =
    ["mc.drop.drain", "mc.fan.read"] := by decide

theorem inv_multi_channels_ogre_arc_atomic : tagsOf "src/multi/channels/ogre_arc/atomic.rs" =
    ["mc.drop.drain", "mc.fan.read"] := by decide

theorem inv_multi_channels_ogre_arc_full_sync : tagsOf "src/multi/channels/ogre_arc/full_sync.rs" =
    ["mc.drop.drain", "mc.fan.read"] := by decide

theorem inv_mutiny_stream : tagsOf "src/mutiny_stream.rs" =
    ["ms.drop", "ms.poll"] := by decide

theorem inv_ogre_std_ogre_alloc_ogre_arc : tagsOf "src/ogre_std/ogre_alloc/ogre_arc.rs" =
    ["oa.clone", "oa.count", "oa.drop.dealloc", "oa.drop.dec", "oa.drop.free", "oa.inc"] := by decide

theorem inv_ogre_std_ogre_alloc_ogre_array_pool_allocator : tagsOf "src/ogre_std/ogre_alloc/ogre_array_pool_allocator.rs" =
    ["pa.dealloc.drop", "pa.dealloc.free"] := by decide

theorem inv_ogre_std_ogre_queues_atomic_atomic_move : tagsOf "src/ogre_std/ogre_queues/atomic/atomic_move.rs" =
    ["am.c.chkhead", "am.c.chktail", "am.c.fetch", "am.c.fetch", "am.c.loadtail", "am.c.read", "am.c.recede", "am.c.release", "am.len", "am.len", "am.len.head", "am.p.fetch", "am.p.fetch", "am.p.len", "am.p.loadhead", "am.p.publish", "am.p.recede", "am.p.write", "am.p.write", "am.r.cancel", "am.r.len", "am.r.publish"] := by decide

theorem inv_ogre_std_ogre_queues_full_sync_full_sync_move : tagsOf "src/ogre_std/ogre_queues/full_sync/full_sync_move.rs" =
    ["fs.c.lock", "fs.c.read", "fs.c.release", "fs.len", "fs.len", "fs.len.head", "fs.p.check", "fs.p.lock", "fs.p.publish", "fs.p.unleak", "fs.p.write", "fs.p.write"] := by decide

theorem inv_ogre_std_ogre_queues_log_topics_mmap_meta : tagsOf "src/ogre_std/ogre_queues/log_topics/mmap_meta.rs" =
    ["mm.c.fetch", "mm.c.fetch", "mm.c.loadtail", "mm.c.read", "mm.c.read", "mm.c.recede", "mm.c.recede", "mm.p.fetch", "mm.p.publish", "mm.p.publish", "mm.p.write", "mm.s.load", "mm.s.load"] := by decide

theorem inv_ogre_std_ogre_stacks_non_blocking_atomic_stack : tagsOf "src/ogre_std/ogre_stacks/non_blocking_atomic_stack.rs" =
    ["st.crit", "st.crit", "st.swap", "st.swap", "st.unlock", "st.unlock", "st.unlock", "st.unlock"] := by decide

theorem inv_ogre_std_ogre_stacks_non_blocking_parking_lot_stack : tagsOf "src/ogre_std/ogre_stacks/non_blocking_parking_lot_stack.rs" =
    ["pl.op", "pl.op"] := by decide

theorem inv_ogre_std_ogre_sync : tagsOf "src/ogre_std/ogre_sync.rs" =
    ["sync.spin", "sync.unlocked"] := by decide

theorem inv_streams_manager : tagsOf "src/streams_manager.rs" =
    ["sm.cancel", "sm.cancelall.lock", "sm.cancelall.read", "sm.cancelall.unlock", "sm.create.count", "sm.create.flag", "sm.create.vacant", "sm.drop.count", "sm.drop.lock", "sm.drop.vacant", "sm.drop.waker", "sm.flag", "sm.reg.cmp", "sm.reg.lock", "sm.reg.selfwake", "sm.reg.store", "sm.running", "sm.sync.lock", "sm.sync.peek", "sm.sync.sentinel", "sm.sync.write", "sm.sync.write", "sm.wake", "sm.wake.lock", "sm.wake.retry"] := by decide

theorem inv_uni_channels_movable_crossbeam : tagsOf "src/uni/channels/movable/crossbeam.rs" =
    ["cb.len", "cb.recv", "cb.try"] := by decide

/-- no file with hooks is missing above -/
theorem inv_files : (hookTags.map (·.1)).eraseDups = ["src/incremental_averages.rs", "src/multi/channels/arc/atomic.rs", "src/multi/channels/arc/crossbeam.rs", "src/multi/channels/arc/full_sync.rs", "src/multi/channels/ogre_arc/atomic.rs", "src/multi/channels/ogre_arc/full_sync.rs", "src/mutiny_stream.rs", "src/ogre_std/ogre_alloc/ogre_arc.rs", "src/ogre_std/ogre_alloc/ogre_array_pool_allocator.rs", "src/ogre_std/ogre_queues/atomic/atomic_move.rs", "src/ogre_std/ogre_queues/full_sync/full_sync_move.rs", "src/ogre_std/ogre_queues/log_topics/mmap_meta.rs", "src/ogre_std/ogre_stacks/non_blocking_atomic_stack.rs", "src/ogre_std/ogre_stacks/non_blocking_parking_lot_stack.rs", "src/ogre_std/ogre_sync.rs", "src/streams_manager.rs", "src/uni/channels/movable/crossbeam.rs"] := by decide

#print axioms inv_incremental_averages
#print axioms inv_multi_channels_arc_atomic
#print axioms inv_multi_channels_arc_crossbeam
#print axioms inv_multi_channels_arc_full_sync
#print axioms inv_multi_channels_ogre_arc_atomic
#print axioms inv_multi_channels_ogre_arc_full_sync
#print axioms inv_mutiny_stream
#print axioms inv_ogre_std_ogre_alloc_ogre_arc
#print axioms inv_ogre_std_ogre_alloc_ogre_array_pool_allocator
#print axioms inv_ogre_std_ogre_queues_atomic_atomic_move
#print axioms inv_ogre_std_ogre_queues_full_sync_full_sync_move
#print axioms inv_ogre_std_ogre_queues_log_topics_mmap_meta
#print axioms inv_ogre_std_ogre_stacks_non_blocking_atomic_stack
#print axioms inv_ogre_std_ogre_stacks_non_blocking_parking_lot_stack
#print axioms inv_ogre_std_ogre_sync
#print axioms inv_streams_manager
#print axioms inv_uni_channels_movable_crossbeam
#print axioms inv_files

end Mutiny.Generated
