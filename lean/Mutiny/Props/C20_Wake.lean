import Mutiny.Proofs.WakeInv

/-!
# C20 at the channel level (model M8): what a suspended asynchronous send holds while it is suspended

`Props/C20.lean` / `C20_LockRing.lean` state C20 on the ring models.  Here the same two facts are stated on the channel model M8 (two-phase
publication, `Mutiny/Model/Wake.lean`), where the asynchronous sends of the different channel flavours live side by side:

* a **zero-copy / Multi** `send_with_async` (`asyncZc`) allocates its payload slot and suspends *outside* the queue: it holds no claim, so it
  never stands between another producer and its publication — `c20_claim_publishes_when_oldest` holds whatever number of such sends are
  suspended, for however long;
* a **movable atomic** `send_with_async` (`asyncMov`) suspends *holding its claim*: every later claim spins at its publication step until the
  suspended setter is resumed — `c20_blocked_behind_suspended_claim` (finding D8a, exhibited on the real channel by `uni sub=susp`).
-/

namespace Mutiny.Wake

/-- a claim that is the oldest outstanding one publishes at its very next own step (and goes on to measure the length) — whoever else is
    suspended, parked, or in the middle of anything -/
theorem c20_claim_publishes_when_oldest (s : St) (t v slot : Nat) (r : Rule) (x : Nat) (rest : List (Nat × Nat))
    (ht : s.thr t = .pClm v slot r) (hr : s.resv = (t, x) :: rest) :
    (stepP s t).thr t = .pSmp s.accepted.length r ∧ (stepP s t).q = s.q ++ [v] ∧ (stepP s t).resv = rest ∧
      (stepP s t).accepted = s.accepted ++ [v] := by
  simp [stepP, ht, hr, setThr]

/-- … and within one more own step it is inside `wake_stream` or done: two own steps from the oldest claim to the wake decision -/
theorem c20_claim_two_steps (s : St) (t v slot : Nat) (r : Rule) (x : Nat) (rest : List (Nat × Nat))
    (ht : s.thr t = .pClm v slot r) (hr : s.resv = (t, x) :: rest) :
    (∃ j, (stepP (stepP s t) t).thr t = .wWake j .ok) ∨ (stepP (stepP s t) t).thr t = .done .ok := by
  have h1 := (c20_claim_publishes_when_oldest s t v slot r x rest ht hr).1
  generalize stepP s t = s1 at h1
  have : stepP s1 t = afterPublishR s1 r t (max 1 (s.accepted.length + 1 - s1.delivered.length)) := by
    simp only [stepP, h1]
  rw [this]
  unfold afterPublishR
  split
  · rename_i j _; left; exact ⟨j, by simp [setThr]⟩
  · right; simp [setThr]

/-- a zero-copy asynchronous send holds no claim while suspended: starting it leaves the reservation list alone -/
theorem c20_async_zc_holds_no_claim (s : St) (t v : Nat) : (apply s (.asyncZc t v)).resv = s.resv := by
  simp only [apply]
  split
  · split <;> simp [setThr]
  · rfl

/-- **finding D8a at the channel level.**  While the oldest claim belongs to a suspended movable asynchronous send (thread `u`), a later
    claimer `t` makes no progress: however many own steps it takes, it is still at its publication step and nothing was published -/
theorem c20_blocked_behind_suspended_claim (s : St) (t u v slot x : Nat) (r : Rule) (rest : List (Nat × Nat))
    (htu : t ≠ u) (ht : s.thr t = .pClm v slot r) (hr : s.resv = (u, x) :: rest) (k : Nat) :
    let s' := run s (List.replicate k (.stepP t))
    s'.thr t = .pClm v slot r ∧ s'.q = s.q ∧ s'.resv = s.resv := by
  have fix : stepP s t = s := by
    simp only [stepP, ht, hr]
    have : ¬ u = t := fun e => htu e.symm
    simp [this]
  have hrun : ∀ k, run s (List.replicate k (.stepP t)) = s := by
    intro k
    induction k with
    | zero => rfl
    | succ k ih => simp only [List.replicate_succ, run, List.foldl_cons, apply, fix]; exact ih
  simp only [hrun k]
  exact ⟨ht, trivial, trivial⟩

/-! ## non-vacuity -/

/-- thread 0 suspends inside a movable atomic `send_with_async`; thread 1's plain send claims the next sequence number and spins (50 own steps
    later it has still not published); once thread 0 is resumed and has published, thread 1 publishes at its next step -/
example :
    let s := run (init 8 2 1 .atomic false) [.asyncMov 0 10, .claim 1 20]
    s.thr 0 = .aSusp 10 0 ∧ s.thr 1 = .pClm 20 1 .atomic ∧ s.resv = [(0, 10), (1, 20)] ∧
    (run s (List.replicate 50 (.stepP 1))).q = [] ∧
    (run s [.resume 0, .stepP 0, .stepP 1]).q = [10, 20] := by decide

/-- a suspended zero-copy send does not stand in anybody's way: the other producer's event is published, measured and announced -/
example :
    let s := run (init 8 2 1 .atomic true) [.asyncZc 0 10, .claim 1 20, .stepP 1, .stepP 1]
    s.thr 0 = .zSusp 10 ∧ s.q = [20] ∧ s.thr 1 = .wWake 0 .ok := by decide

end Mutiny.Wake

#print axioms Mutiny.Wake.c20_claim_publishes_when_oldest
#print axioms Mutiny.Wake.c20_claim_two_steps
#print axioms Mutiny.Wake.c20_async_zc_holds_no_claim
#print axioms Mutiny.Wake.c20_blocked_behind_suspended_claim
