import Mutiny.Props.C03

/-!
# C17 — fan-out while listeners come and go

Model M6 + M7 (`Mutiny/Model/Multi.lean`).  Intended claim: under ANY interleaving of the micro-steps of `create` /
`drop` (stream churn) with the micro-steps of `send`, every listener that is live throughout a send receives the event
exactly once, nobody else does, and (ogre_arc) the reference counter returns to 0 once every copy was released.

**That full claim is FALSE — of the model and (the model being tied to the real channels step by step by the replay
driver, whose scheduled runs include runs exhibiting these defects) of the Rust code**:
`c17_missed_event_counterexample`, `c17_leaked_slot_counterexample`, `c17_torn_list_counterexample`.
The fan-out reads `used_streams_count` and the entries of `used_streams` without the `streams_lock` that
`sync_vacant_and_used_streams` holds while rewriting them, and `create`/`drop` change the count before (not atomically
with) the list.

What IS true, `c17_partial`: if no step of a `create`/`drop` falls between the first and the last step of any `send`
— formally: the execution is a sequence of *phases*, each either a legal sequential history of completed operations
(churn, `Phase.churn`, which may `cancel` listeners) or a concurrent execution of `send`/`poll`/`release`/`cancel`
actions and micro-steps by any number of threads (`Phase.fan`) after which every thread that acted is idle again — then every phase starts in a quiescent well-formed
state, so all of C03 holds for every fan-out phase with `L` = the listeners live at its start, for arbitrarily many
rounds of churn in between.  Missing for the full claim: any overlap of a `create`/`drop`/`sync` micro-step with a
`send` (false, see above) and — not needed for the counterexamples, simply not covered — `poll`s overlapping churn and
`create`s/`drop`s overlapping each other.
-/

namespace Mutiny.Multi

/-- **C17 (partial: churn only between sends).**  After any sequence of legal phases from `init`, the state is
    quiescent and well-formed (and a reachable state of the model); hence for a further concurrent fan-out execution `as`
    (any threads, any interleaving, no `create`/`drop`, pairwise distinct events), with `L` = the listeners live now:
    the bookkeeping is not touched; each completed send published exactly one copy to each `l ∈ L` and none to anybody
    else, a send in progress at most one; each listener's deliveries followed by its queue are its initial queue followed
    by its publications, in order.  (`c03_producer_order`, `c03_refs`, `c03_fanout_prefix` apply in the same way: they
    only need `WF`.) -/
theorem c17_partial (mx n : Nat) (f : Flavor) (d : Bool) (ps : List Phase) (hps : PhasesOK (init mx n f d) ps)
    (as : List Act) (hfa : ∀ a ∈ as, FanAct a) (hnd : (sendEvs as).Nodup) :
    let s₀ := runPhases (init mx n f d) ps
    let s := run s₀ as
    WF s₀ ∧ Reachable mx n f d s ∧
      (s.used = s₀.used ∧ s.count = s₀.count ∧ s.vacant = s₀.vacant ∧ s.live = s₀.live ∧ s.slock = s₀.slock ∧
        ∀ j, s.keep j = if j ∈ cancelIds as then false else s₀.keep j) ∧
      ∃ P S D, s.pubs = s₀.pubs ++ P ∧ s.sent = s₀.sent ++ S ∧ s.delivered = s₀.delivered ++ D ∧
        (∀ ev ∈ S, ∀ l, P.count (ev, l) = if l ∈ s₀.live then 1 else 0) ∧
        (∀ ev l, P.count (ev, l) ≤ 1) ∧ (∀ ev l, l ∉ s₀.live → (ev, l) ∉ P) ∧
        (∀ l, dlvOf D l ++ s.queues l = s₀.queues l ++ pubsTo P l) := by
  intro s₀ s
  have hw : WF s₀ := wf_runPhases (wf_init mx n f d) hps
  obtain ⟨pre, hpre⟩ := runPhases_eq_run (init mx n f d) ps
  have hfr := c03_frame s₀ hw as hfa
  obtain ⟨P, S, D, h⟩ := fan_run_wf' hw as hfa hnd
  refine ⟨hw, ⟨pre ++ as, by rw [run_append, ← hpre]⟩, ⟨hfr.2.1, hfr.2.2.1, hfr.2.2.2.1, hfr.2.2.2.2.1,
    hfr.2.2.2.2.2.1, hfr.2.2.2.2.2.2.1⟩, P, S, D, h.pubsEq, h.sentEq, h.dlvEq, fun ev he l => h.count_done hw he l,
    h.count_le_one, fun ev l hl => h.not_mem_of_not_live hw hl, h.order⟩

/-- every phase boundary is quiescent and well-formed -/
theorem c17_phase_wf (mx n : Nat) (f : Flavor) (d : Bool) (ps : List Phase) (hps : PhasesOK (init mx n f d) ps) :
    WF (runPhases (init mx n f d) ps) :=
  wf_runPhases (wf_init mx n f d) hps

/-! ## non-vacuity: churn, concurrent fan-out, churn again (ids recycled), concurrent fan-out -/

def churnPhases : List Phase :=
  [.churn [.create, .create, .create],
   .fan [.send 1 7, .send 2 8, .step 1, .step 2, .step 2, .step 1, .step 1, .step 2, .step 2, .step 1, .ack 1, .ack 2,
         .poll 3 0, .step 3, .ack 3],
   .churn [.cancel 0, .poll 0, .drop 0, .create, .cancel 1, .drop 1]]

def lastFan : List Act :=
  [.send 1 9, .send 2 10, .step 2, .step 1, .cancel 2, .step 1, .step 2, .step 2, .step 1, .ack 1]

example :
    PhasesOK (init 3 8 .ogreArc true) churnPhases ∧ (∀ a ∈ lastFan, FanAct a) ∧ (sendEvs lastFan).Nodup ∧
      (runPhases (init 3 8 .ogreArc true) churnPhases).live = [2, 0] ∧
      (run (runPhases (init 3 8 .ogreArc true) churnPhases) lastFan).pubs =
        [(8, 0), (7, 0), (7, 1), (8, 1), (8, 2), (7, 2), (9, 0), (10, 0), (10, 2), (9, 2)] := by
  decide

/-! ## recorded findings: a `send` overlapping a `create` / `drop` -/

/-- thread 1 drops listener 0 up to and including `sm.drop.count` (`count = 2`, `used` still `[0,1,2]`); thread 0 sends
    event 7: reads `count = 2`, visits entries 0 and 1 of the not yet rewritten list; the drop then completes -/
def missedWitness : List Act :=
  [.drop 1 0, .step 1, .step 1,
   .send 0 7, .step 0, .step 0, .step 0,
   .step 1, .step 1, .step 1, .step 1, .step 1, .step 1, .ack 1, .ack 0]

/-- **finding (ogre_arc, `send` ∥ `drop` of the lowest id).**  `MAX = 3`, listeners `{0,1,2}`.  Listener 2 is live
    before, during and after the send, the send of event 7 completes (`7 ∈ sent`, answer `unit`), and listener 2 gets no
    copy; instead a copy is left in the queue of the id 0 that has just been drained and is vacant again (so the next
    listener created with id 0 starts with a stale event although `drop` drains), and the reference counter (2) exceeds
    the number of copies a consumer will ever release. -/
theorem c17_missed_event_counterexample :
    let s₀ := setup 3 3 .ogreArc
    let s := run s₀ missedWitness
    WF s₀ ∧ s₀.live = [0, 1, 2] ∧ s₀.used = [0, 1, 2] ∧
      (∀ k, k ≤ missedWitness.length → 2 ∈ (run s₀ (missedWitness.take k)).live) ∧
      (run s₀ (missedWitness.take 7)).thr 0 = .done .unit ∧
      s.thr 0 = .idle ∧ s.thr 1 = .idle ∧ s.slock = false ∧ s.live = [1, 2] ∧ s.vacant = [0] ∧ s.count = 2 ∧
      s.used = [1, 2, 3] ∧
      7 ∈ s.sent ∧ (7, 2) ∉ s.pubs ∧ s.queues 2 = [] ∧ s.pubs = [(7, 0), (7, 1)] ∧ s.queues 0 = [7] ∧ s.refs 7 = 2 :=
  ⟨wf_exec (wf_init _ _ _ _) (by decide), by decide⟩

/-- thread 1 starts a `create` up to and including `sm.create.count` (`count = 3`, `used` still `[0,1,S]`); thread 0
    sends event 7: reads `count = 3`, adds 3 to the reference counter, finds only two non-sentinel entries among the first
    three; the create completes (id 2); both copies are consumed and released -/
def leakedWitness : List Act :=
  [.create 1, .step 1,
   .send 0 7, .step 0, .step 0, .step 0, .step 0, .ack 0,
   .step 1, .step 1, .step 1, .step 1, .step 1, .step 1, .step 1, .ack 1,
   .poll 0 0, .step 0, .ack 0, .poll 0 1, .step 0, .ack 0, .release 7, .release 7]

/-- **finding (ogre_arc, `send` ∥ `create`).**  `MAX = 3`, listeners `{0,1}`.  After every copy of event 7 has been
    delivered and released, and with every queue empty and every thread idle, `refs 7 = 1 ≠ 0`: the payload slot is never
    returned to the pool (with `N` such sends the pool is exhausted and every later `send` answers `full`). -/
theorem c17_leaked_slot_counterexample :
    let s₀ := setup 3 2 .ogreArc
    let s := run s₀ leakedWitness
    WF s₀ ∧ s₀.live = [0, 1] ∧ s₀.used = [0, 1, 3] ∧ s₀.refs 7 = 0 ∧
      s.thr 0 = .idle ∧ s.thr 1 = .idle ∧ s.slock = false ∧ s.live = [0, 1, 2] ∧ s.used = [0, 1, 2] ∧ s.count = 3 ∧
      7 ∈ s.sent ∧ s.pubs = [(7, 0), (7, 1)] ∧ s.delivered = [(0, 1, 7), (1, 1, 7)] ∧
      s.queues 0 = [] ∧ s.queues 1 = [] ∧ s.queues 2 = [] ∧ s.refs 7 = 1 ∧
      (s.started.filter (fun e => s.refs e > 0)) = [7] :=
  ⟨wf_exec (wf_init _ _ _ _) (by decide), by decide⟩

/-- thread 1 drops listener 0 up to and including `sm.sync.peek` (about to rewrite `[0,1,2,S]` into `[1,2,S,S]`);
    thread 0 starts sending event 7 and reads entry 0 (= 0, old); thread 1 rewrites all four entries; thread 0 goes on:
    entry 1 (= 2, new), entry 2 (= S, new) -/
def tornWitness : List Act :=
  [.drop 1 0, .step 1, .step 1, .step 1, .step 1, .step 1,
   .send 0 7,
   .step 1, .step 1, .step 1, .step 1, .ack 1,
   .step 0, .step 0, .step 0, .ack 0]

/-- **finding (arc, `send` ∥ `sync_vacant_and_used_streams`).**  `MAX = 4`, listeners `{0,1,2}`.  Listener 1 is live
    before, during and after the send, the send completes, and listener 1 is skipped; the dropped (and already drained)
    id 0 gets a copy instead. -/
theorem c17_torn_list_counterexample :
    let s₀ := setup 4 3 .arc
    let s := run s₀ tornWitness
    WF s₀ ∧ s₀.live = [0, 1, 2] ∧ s₀.used = [0, 1, 2, 4] ∧
      (∀ k, k ≤ tornWitness.length → 1 ∈ (run s₀ (tornWitness.take k)).live) ∧
      s.thr 0 = .idle ∧ s.thr 1 = .idle ∧ s.slock = false ∧ s.live = [1, 2] ∧ s.vacant = [3, 0] ∧
      s.used = [1, 2, 4, 4] ∧ s.count = 2 ∧
      7 ∈ s.sent ∧ (7, 1) ∉ s.pubs ∧ s.queues 1 = [] ∧ s.pubs = [(7, 0), (7, 2)] ∧ s.queues 0 = [7] :=
  ⟨wf_exec (wf_init _ _ _ _) (by decide), by decide⟩

end Mutiny.Multi

#print axioms Mutiny.Multi.c17_partial
#print axioms Mutiny.Multi.c17_phase_wf
#print axioms Mutiny.Multi.c17_missed_event_counterexample
#print axioms Mutiny.Multi.c17_leaked_slot_counterexample
#print axioms Mutiny.Multi.c17_torn_list_counterexample
