import Mutiny.Proofs.WakeInv

/-!
# C04 — no lost wake-up: a Uni channel never rests with an event queued and every stream parked un-notified

Model M8 (`Mutiny/Model/Wake.lean`): producers publish, observe the length and wake ONE stream chosen by `Rule.target`
through the micro-steps of `wake_stream`; `k > 0` stream tasks run the micro-steps of `poll_next` /
`register_stream_waker`.  Scope: every `N`, every `MAX > 0`, every number of streams `k > 0`, all seven wake rules, any number
of producer threads, any schedule of any length — including spurious polls with fresh (or even clashing) tokens —

* with publications that are one atomic queue step observing the exact length (`send`, `sendWith`, `sendRsv`, `asyncZc` +
  `resume`: the lock-based and crossbeam kinds), **and**
* with the two-phase publications of the channels over `AtomicMove` (`claim`; the in-order publication step `pClm`; the length
  measurement `pSmp` = `len_after_publishing`, a fresh load of `head` AFTER the publication), interleaved arbitrarily with
  each other, with the streams' steps and with suspended asynchronous sends of the movable atomic channel
  (`asyncMov` … `resume`, any suspension length),

as long as the execution contains no `cancel`, no `dropS`, and no movable `send_with_async` on a channel other than the movable
atomic one (`C04Act`).  `cancel` is a recorded finding (`Mutiny/Props/C07.lean`); the movable full-sync channel's
`send_with_async` holds the queue-wide lock while suspended (finding D8b, C20), so nothing interleaves with it.  `MAX > 0` is
necessary (`c04_max_zero_counterexample`).

History: the pinned source decided from the length observed when the slot was CLAIMED; that rule is not inductive
(`c04_pinned_length_counterexample`: the two histories exhibited on the real channels, findings D5a / D5b) and was repaired in
`/repo` (`fix:` commit "atomic channels decided whom to wake from the queue length observed when the slot was claimed").
-/

namespace Mutiny.Wake

/-- **C04.**  No execution reaches a stuck state (event queued, every producer at rest, every live stream parked and
    not notified). -/
theorem c04_no_stuck_state (n mx k : Nat) (rule : Rule) (zc : Bool) (hk : 0 < k) (hm : 0 < mx)
    (as : List Act) (has : ∀ a ∈ as, C04Act rule a) :
    ¬ stuck (run (init n mx k rule zc) as) :=
  winv_not_stuck (winv_run _ as (winv_init n mx k rule zc hm hk) has)

/-- the invariant (W1) itself: while an event is queued, some existing stream is armed (will poll again without outside
    help), or some producer is still inside a `wake_stream(j)` of an existing stream `j`, or some producer has published the
    oldest pending event and is about to measure the length (it will find 1 and wake stream 0) -/
theorem c04_armed_or_waking (n mx k : Nat) (rule : Rule) (zc : Bool) (hk : 0 < k) (hm : 0 < mx)
    (as : List Act) (has : ∀ a ∈ as, C04Act rule a) :
    let s := run (init n mx k rule zc) as
    s.q ≠ [] →
      (∃ j, j < s.k ∧ armed s j = true) ∨
      (∃ t j r, j < s.k ∧ (s.thr t = .wWake j r ∨ s.thr t = .wLock j r ∨ s.thr t = .wSpin j r ∨ s.thr t = .wRetry j r)) ∨
      (∃ t r, s.thr t = .pSmp s.delivered.length r) := by
  intro s hq
  rcases (winv_run _ as (winv_init n mx k rule zc hm hk) has).w1 hq with h | ⟨t, j, hj, hw⟩ | h
  · exact .inl h
  · obtain ⟨r, hr⟩ := (inWake_iff _ _).1 hw
    exact .inr (.inl ⟨t, j, r, hj, hr⟩)
  · exact .inr (.inr h)

/-- **progress.**  In every reachable state with an event queued and all producers at rest, some existing stream is
    armed: it is `ready`, or parked with its token notified (`pollEnabled`: a fair executor polls it), or in the middle
    of a poll that ends in `ready`, or in a park with the notification already in or a self-wake still to come. -/
theorem c04_progress_step (n mx k : Nat) (rule : Rule) (zc : Bool) (hk : 0 < k) (hm : 0 < mx)
    (as : List Act) (has : ∀ a ∈ as, C04Act rule a) :
    let s := run (init n mx k rule zc) as
    s.q ≠ [] → (∀ t, s.thr t = .idle ∨ ∃ r, s.thr t = .done r) → ∃ j, j < s.k ∧ armed s j = true := by
  intro s hq hp
  rcases (winv_run _ as (winv_init n mx k rule zc hm hk) has).w1 hq with h | ⟨t, j, _, hw⟩ | ⟨t, ht⟩
  · exact h
  · have hw' : inWake (s.thr t) j := hw
    rcases hp t with h1 | ⟨r, h1⟩ <;> rw [h1] at hw' <;> simp [inWake] at hw'
  · obtain ⟨r', ht⟩ := ht
    have ht' : s.thr t = .pSmp s.delivered.length r' := ht
    rcases hp t with h1 | ⟨r, h1⟩ <;> rw [h1] at ht' <;> simp at ht'

/-- an armed stream at a resting point is exactly one a fair executor polls -/
theorem c04_armed_at_rest (s : St) (j : Nat) (hj : j < s.k) (h : s.sloc j = .ready ∨ s.sloc j = .parked) :
    armed s j = pollEnabled s j := by
  rcases h with h | h <;> simp [armed, pollEnabled, h, hj]

/-- (W0)/(W2) along a C04 execution: streams never end, every accepted event is delivered or still queued, a parked stream
    has its current token registered -/
theorem c04_parked_registered (n mx k : Nat) (rule : Rule) (zc : Bool) (hk : 0 < k) (hm : 0 < mx)
    (as : List Act) (has : ∀ a ∈ as, C04Act rule a) :
    let s := run (init n mx k rule zc) as
    (∀ j, j < s.k → s.keep j = true) ∧ (∀ j, (s.sloc j).live) ∧
      s.accepted.length = s.delivered.length + s.q.length ∧
      (∀ j, s.sloc j = .parked → s.waker j = some (s.tok j)) := by
  have h := winv_run _ as (winv_init n mx k rule zc hm hk) has
  exact ⟨h.keepT, h.slocLv, h.lenEq, fun j hj => h.w2 j (.inl hj)⟩

/-! ## non-vacuity -/

/-- a C04 execution with an event queued and all producers at rest: stream 0 was woken and is armed, not stuck -/
example :
    let as := parkActs 0 ++ [.send 0 10, .stepP 0]
    let s := run (init 8 2 2 .fs false) as
    (∀ a ∈ as, C04Act .fs a) ∧ s.q = [10] ∧ s.thr 0 = .done .ok ∧ s.sloc 0 = .parked ∧ pollEnabled s 0 = true ∧
      armed s 0 = true := by
  decide

/-- … and while the producer is still inside `wake_stream(0)` every stream is parked un-notified (the second disjunct
    of (W1) is needed) -/
example :
    let s := run (init 8 2 1 .fs false) (parkActs 0 ++ [.send 0 10])
    s.q = [10] ∧ s.thr 0 = .wWake 0 .ok ∧ s.sloc 0 = .parked ∧ armed s 0 = false := by
  decide

/-- the two-phase publication: stream 0 is parked; a producer claims, publishes (the oldest pending event: third disjunct
    of (W1) — every stream parked un-notified, nobody inside `wake_stream`), measures the length 1 and wakes stream 0 -/
example :
    let as := parkActs 0 ++ [.claim 0 10, .stepP 0]
    let s := run (init 8 2 1 .atomic false) as
    (∀ a ∈ as, C04Act .atomic a) ∧ s.q = [10] ∧ s.thr 0 = .pSmp 0 .atomic ∧ s.delivered.length = 0 ∧ s.sloc 0 = .parked ∧
      armed s 0 = false ∧ (stepP s 0).thr 0 = .wWake 0 .ok := by
  decide

/-! ## the history of finding D5a on the repaired rule -/

/-- the scenario of D5a: stream 0 parks on the empty channel; `send 10` (two-phase) wakes it; thread 1 starts a movable
    `send_with_async` (claims the next sequence number, suspends); stream 0 takes `10`, polls again, finds nothing, parks; the
    suspended setter completes, publishes `20` and measures the length -/
def asyncMovWitness : List Act :=
  parkActs 0 ++ [.claim 0 10, .stepP 0, .stepP 0, .stepP 0, .asyncMov 1 20, .poll 0 none, .stepS 0, .poll 0 none, .stepS 0,
    .stepS 0, .stepS 0, .resume 1, .stepP 1, .stepP 1]

/-- on the repaired rule the measurement finds `1` (only the own event is pending) and the producer wakes stream 0: the run is
    a C04 execution, the event `20` is queued, the only stream is parked un-notified — and thread 1 is inside `wake_stream(0)`.
    (The pinned rule used `len_before = 1`, `1 < MAX = 1` is false: nobody was woken.) -/
theorem c04_async_mov_repaired :
    let s := run (init 8 1 1 .atomic false) asyncMovWitness
    (∀ a ∈ asyncMovWitness, C04Act .atomic a) ∧ s.q = [20] ∧ s.accepted = [10, 20] ∧ s.delivered = [(0, 10)] ∧
      s.sloc 0 = .parked ∧ s.notified (s.tok 0) = false ∧ s.thr 0 = .done .ok ∧ s.thr 1 = .wWake 0 .ok ∧
      (stepP s 1).notified (s.tok 0) = true := by
  decide

/-! ## recorded findings (repaired): what the pinned source computed -/

/-- the length the PINNED `publish_movable` / `publish` reported: `len_before + 1`, `len_before = slot_id - head` with `head`
    loaded when the slot was CLAIMED -/
def pinnedLenAfter (slot headAtClaim : Nat) : Nat := slot - headAtClaim + 1
/-- the length the repaired code reports: measured after the publication -/
def repairedLenAfter (slot headAfterPublication : Nat) : Nat := max 1 (slot + 1 - headAfterPublication)
/-- the pinned wake decision of the movable atomic channel's `send_with_async`: `len_before < MAX → wake(len_before)` -/
def pinnedAsyncTarget (MAX lenBefore : Nat) : Option Nat := if lenBefore < MAX then some lenBefore else none

/-- **findings D5a / D5b (pinned source).**
    D5b: `MAX = 1`; two events are queued (`head = 0`) when a producer claims slot 2; the stream takes both and parks
    (`head = 2`) before the publication: the pinned length is 3, outside the window `≤ MAX + 1` of rule `atomic` — nobody is
    woken; the repaired length is 1 — stream 0 is woken.
    D5a: one event queued when `send_with_async` claims slot 1 (`len_before = 1`), taken before the publication: the pinned
    decision `1 < MAX = 1` wakes nobody; the repaired length is 1 — stream 0 is woken. -/
theorem c04_pinned_length_counterexample :
    Rule.atomic.target 1 (pinnedLenAfter 2 0) = none ∧ Rule.atomic.target 1 (repairedLenAfter 2 2) = some 0 ∧
    pinnedAsyncTarget 1 (1 - 0) = none ∧ Rule.atomic.target 1 (repairedLenAfter 1 1) = some 0 := by
  decide

/-- what `try_send_reserved` did before it was repaired (D5d): wake stream `len % MAX` -/
def pinnedRsvTarget (MAX len : Nat) : Option Nat := if len ≤ MAX then some (len % MAX) else none

/-- **finding (pinned `try_send_reserved`).**  The pinned rule targets a stream that does not exist: with `MAX = 2` and
    one stream (`k = 1`), the first event (`len = 1`) wakes stream `1`; the repaired rule (`Rule.rsv`) wakes stream `0`. -/
theorem c04_rsv_pinned_counterexample :
    pinnedRsvTarget 2 1 = some 1 ∧ ¬ (1 < 1) ∧ Rule.rsv.target 2 1 = some 0 := by
  decide

/-- `MAX = 0` (no stream may be woken by length) is excluded for a reason: the first event wakes nobody -/
theorem c04_max_zero_counterexample :
    stuck (run (init 8 0 1 .fs false) (parkActs 0 ++ [.send 0 10])) ∧
      (∀ a ∈ parkActs 0 ++ [.send 0 10], C04Act .fs a) :=
  ⟨stuck_run_of_check 8 0 1 .fs false _ 1 (by decide) (by decide), by decide⟩

end Mutiny.Wake

#print axioms Mutiny.Wake.c04_no_stuck_state
#print axioms Mutiny.Wake.c04_armed_or_waking
#print axioms Mutiny.Wake.c04_progress_step
#print axioms Mutiny.Wake.c04_armed_at_rest
#print axioms Mutiny.Wake.c04_parked_registered
#print axioms Mutiny.Wake.c04_async_mov_repaired
#print axioms Mutiny.Wake.c04_pinned_length_counterexample
#print axioms Mutiny.Wake.c04_rsv_pinned_counterexample
#print axioms Mutiny.Wake.c04_max_zero_counterexample
