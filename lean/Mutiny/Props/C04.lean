import Mutiny.Proofs.WakeInv

/-!
# C04 — no lost wake-up: a Uni channel never rests with an event queued and every stream parked un-notified

Model M8 (`Mutiny/Model/Wake.lean`): producers publish, observe the length and wake ONE stream chosen by `Rule.target`
through the micro-steps of `wake_stream`; `k > 0` stream tasks run the micro-steps of `poll_next` /
`register_stream_waker`.  Scope: every `N`, every `MAX > 0`, every number of streams `k > 0`, all four wake rules
(`fs`, `atomic`, `rsv`, `cb`), any number of producer threads, any schedule of any length — including spurious polls
with fresh (or even clashing) tokens — as long as the execution contains no `cancel`, no movable `send_with_async`
(`asyncMov`) and no `dropS` (`C04Act`).  The three exclusions are necessary: see the counterexamples at the end
(`asyncMov`: recorded finding) and `Mutiny/Props/C07.lean` (`cancel`: recorded finding).  `MAX > 0` is necessary too
(`c04_max_zero_counterexample`).
-/

namespace Mutiny.Wake

/-- **C04.**  No execution reaches a stuck state (event queued, every producer at rest, every live stream parked and
    not notified). -/
theorem c04_no_stuck_state (n mx k : Nat) (rule : Rule) (zc : Bool) (hk : 0 < k) (hm : 0 < mx)
    (as : List Act) (has : ∀ a ∈ as, C04Act a) :
    ¬ stuck (run (init n mx k rule zc) as) :=
  winv_not_stuck (winv_run _ as (winv_init n mx k rule zc hm hk) has)

/-- the invariant (W1) itself: while an event is queued, some existing stream is armed (will poll again without outside
    help) or some producer is still inside a `wake_stream(j)` of an existing stream `j` -/
theorem c04_armed_or_waking (n mx k : Nat) (rule : Rule) (zc : Bool) (hk : 0 < k) (hm : 0 < mx)
    (as : List Act) (has : ∀ a ∈ as, C04Act a) :
    let s := run (init n mx k rule zc) as
    s.q ≠ [] →
      (∃ j, j < s.k ∧ armed s j = true) ∨
      (∃ t j r, j < s.k ∧ (s.thr t = .wWake j r ∨ s.thr t = .wLock j r ∨ s.thr t = .wSpin j r ∨ s.thr t = .wRetry j r)) := by
  intro s hq
  rcases (winv_run _ as (winv_init n mx k rule zc hm hk) has).w1 hq with h | ⟨t, j, hj, hw⟩
  · exact .inl h
  · obtain ⟨r, hr⟩ := (inWake_iff _ _).1 hw
    exact .inr ⟨t, j, r, hj, hr⟩

/-- **progress.**  In every reachable state with an event queued and all producers at rest, some existing stream is
    armed: it is `ready`, or parked with its token notified (`pollEnabled`: a fair executor polls it), or in the middle
    of a poll that ends in `ready`, or in a park with the notification already in or a self-wake still to come. -/
theorem c04_progress_step (n mx k : Nat) (rule : Rule) (zc : Bool) (hk : 0 < k) (hm : 0 < mx)
    (as : List Act) (has : ∀ a ∈ as, C04Act a) :
    let s := run (init n mx k rule zc) as
    s.q ≠ [] → (∀ t, s.thr t = .idle ∨ ∃ r, s.thr t = .done r) → ∃ j, j < s.k ∧ armed s j = true := by
  intro s hq hp
  rcases (winv_run _ as (winv_init n mx k rule zc hm hk) has).w1 hq with h | ⟨t, j, _, hw⟩
  · exact h
  · have hw' : inWake (s.thr t) j := hw
    rcases hp t with h1 | ⟨r, h1⟩ <;> rw [h1] at hw' <;> simp [inWake] at hw'

/-- an armed stream at a resting point is exactly one a fair executor polls -/
theorem c04_armed_at_rest (s : St) (j : Nat) (hj : j < s.k) (h : s.sloc j = .ready ∨ s.sloc j = .parked) :
    armed s j = pollEnabled s j := by
  rcases h with h | h <;> simp [armed, pollEnabled, h, hj]

/-- (W0)/(W2) along a C04 execution: streams never end, a parked stream has its current token registered -/
theorem c04_parked_registered (n mx k : Nat) (rule : Rule) (zc : Bool) (hk : 0 < k) (hm : 0 < mx)
    (as : List Act) (has : ∀ a ∈ as, C04Act a) :
    let s := run (init n mx k rule zc) as
    (∀ j, j < s.k → s.keep j = true) ∧ (∀ j, (s.sloc j).live) ∧ s.resv = [] ∧
      (∀ j, s.sloc j = .parked → s.waker j = some (s.tok j)) := by
  have h := winv_run _ as (winv_init n mx k rule zc hm hk) has
  exact ⟨h.keepT, h.slocLv, h.resvE, fun j hj => h.w2 j (.inl hj)⟩

/-! ## non-vacuity -/

/-- a C04 execution with an event queued and all producers at rest: stream 0 was woken and is armed, not stuck -/
example :
    let as := parkActs 0 ++ [.send 0 10, .stepP 0]
    let s := run (init 8 2 2 .fs false) as
    (∀ a ∈ as, C04Act a) ∧ s.q = [10] ∧ s.thr 0 = .done .ok ∧ s.sloc 0 = .parked ∧ pollEnabled s 0 = true ∧
      armed s 0 = true := by
  decide

/-- … and while the producer is still inside `wake_stream(0)` every stream is parked un-notified (the second disjunct
    of (W1) is needed) -/
example :
    let s := run (init 8 2 1 .fs false) (parkActs 0 ++ [.send 0 10])
    s.q = [10] ∧ s.thr 0 = .wWake 0 .ok ∧ s.sloc 0 = .parked ∧ armed s 0 = false := by
  decide

/-! ## recorded findings: the exclusions are necessary -/

/-- the scenario: stream 0 parks on the empty channel; `send 0 10` wakes it; thread 1 starts a movable
    `send_with_async` (reserves with `lenBefore = 1`, suspends); stream 0 takes `10`, polls again, finds nothing, parks;
    the suspended setter completes and publishes `20`: `lenBefore < MAX` is false, nobody is woken -/
def asyncMovWitness : List Act :=
  parkActs 0 ++ [.send 0 10, .stepP 0, .asyncMov 1 20, .poll 0 none, .stepS 0, .poll 0 none, .stepS 0, .stepS 0,
    .stepS 0, .resume 1]

/-- **finding (movable `send_with_async`).**  With `asyncMov` allowed the claim fails (rule `atomic`, `N = 8`, `MAX = 1`,
    one stream): the event `20` stays queued, both producers are done, the only stream is parked un-notified.  Every
    `poll` of the witness is one a fair executor performs (from `ready`, or `parked` and notified). -/
theorem c04_async_mov_counterexample :
    stuck (run (init 8 1 1 .atomic false) asyncMovWitness) ∧
      (∀ a ∈ asyncMovWitness, C04Act a ∨ a = .asyncMov 1 20) :=
  ⟨stuck_run_of_check 8 1 1 .atomic false asyncMovWitness 2 (by decide) (by decide), by decide⟩

/-- the concrete facts of the stuck state above -/
theorem c04_async_mov_counterexample_state :
    let s := run (init 8 1 1 .atomic false) asyncMovWitness
    s.q = [20] ∧ s.accepted = [10, 20] ∧ s.delivered = [(0, 10)] ∧ s.sloc 0 = .parked ∧ s.keep 0 = true ∧
      s.notified (s.tok 0) = false ∧ s.thr 0 = .done .ok ∧ s.thr 1 = .done .ok := by
  decide

/-- what `try_send_reserved` did before it was repaired (D5d): wake stream `len % MAX` -/
def pinnedRsvTarget (MAX len : Nat) : Option Nat := if len ≤ MAX then some (len % MAX) else none

/-- **finding (pinned `try_send_reserved`).**  The pinned rule targets a stream that does not exist: with `MAX = 2` and
    one stream (`k = 1`), the first event (`len = 1`) wakes stream `1`; the repaired rule (`Rule.rsv`) wakes stream `0`. -/
theorem c04_rsv_pinned_counterexample :
    pinnedRsvTarget 2 1 = some 1 ∧ ¬ (1 < 1) ∧ Rule.rsv.target 2 1 = some 0 := by
  decide

/-- `MAX = 0` (no stream may be woken by length) is excluded for a reason: the first event wakes nobody -/
theorem c04_max_zero_counterexample :
    stuck (run (init 8 0 1 .fs false) (parkActs 0 ++ [.send 0 10])) ∧
      (∀ a ∈ parkActs 0 ++ [.send 0 10], C04Act a) :=
  ⟨stuck_run_of_check 8 0 1 .fs false _ 1 (by decide) (by decide), by decide⟩

end Mutiny.Wake

#print axioms Mutiny.Wake.c04_no_stuck_state
#print axioms Mutiny.Wake.c04_armed_or_waking
#print axioms Mutiny.Wake.c04_progress_step
#print axioms Mutiny.Wake.c04_armed_at_rest
#print axioms Mutiny.Wake.c04_parked_registered
#print axioms Mutiny.Wake.c04_async_mov_counterexample
#print axioms Mutiny.Wake.c04_async_mov_counterexample_state
#print axioms Mutiny.Wake.c04_rsv_pinned_counterexample
#print axioms Mutiny.Wake.c04_max_zero_counterexample
