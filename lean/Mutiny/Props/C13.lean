import Mutiny.Proofs.HandlesProps

/-!
# C13 — pool allocator: one owner per slot; exhaustion and reuse are exact

`newUnique` / `dropUnique` are the raw `alloc_with` / `dealloc_id` of the pool (an `OgreUnique` is just the owner of the
returned id); `newArc` allocates through the same path.  Everything holds in the presence of all other operations of the
model (shared handles being cloned and dropped concurrently, conversions, …): every `n`, every `s` with `Reachable n s`.
`Owning s i` : control block `i` owns its slot (`rc > 0`, or `oa.drop.dealloc` still pending).
`inTransitOf s (s.thr t) = some x` : thread `t` is inside `dealloc_id` for slot `x` (destructor pending or running —
`dDestroy`/`uDestroy` — or destructor done and free-list push pending — `dRelease`/`uRelease`).
-/

namespace Mutiny.Handles

variable {n : Nat} {s : St}

/-- an allocation never hands out a slot that somebody owns: the id it returns was in the free list, is `< N`, is not
    owned by a unique handle and not owned by any control block -/
theorem c13_exclusive (hr : Reachable n s) (t v id : Nat) (ht : s.thr t = .idle)
    (hres : (apply s (.newUnique t v)).thr t = .done (.unique id)) :
    id ∈ s.free ∧ id < s.N ∧ id ∉ s.uniques ∧ (∀ i, Owning s i → (getCB s i).id ≠ id) ∧
    (∀ u, inTransitOf s (s.thr u) ≠ some id) := by
  have hi := reachable_inv hr
  cases hf : s.free with
  | nil => rw [newUnique_none v ht hf] at hres; simp at hres
  | cons x rest =>
    rw [newUnique_eq v ht hf] at hres
    simp only [thr_setThr, if_true, Loc.done.injEq, Res.unique.injEq] at hres
    subst hres
    have hx : x ∈ s.free := hf ▸ List.mem_cons_self ..
    rw [← hf]
    refine ⟨hx, hi.freeLt x hx, fun hu => (hi.uniqOk x hu).2.1 hx, fun i ho e => ?_,
      fun u hu => (inTransit_ok hi hu).2.1 hx⟩
    exact (hi.ownOk i (owns_of_owning hi ho)).2.2.1 (e ▸ hx)

/-- the same for an allocation through `OgreArc::new`: the new control block is a fresh one and its slot was free and
    unowned -/
theorem c13_exclusive_arc (hr : Reachable n s) (t v k j : Nat) (ht : s.thr t = .idle) (hk : k > 0)
    (hres : (apply s (.newArc t v k)).thr t = .done (.arc j)) :
    j = s.cbs.length ∧
    (getCB (apply s (.newArc t v k)) j).id ∈ s.free ∧ (getCB (apply s (.newArc t v k)) j).id < s.N ∧
    (getCB (apply s (.newArc t v k)) j).id ∉ s.uniques ∧
    (∀ i, Owning s i → (getCB s i).id ≠ (getCB (apply s (.newArc t v k)) j).id) ∧
    (∀ u, inTransitOf s (s.thr u) ≠ some (getCB (apply s (.newArc t v k)) j).id) := by
  have hi := reachable_inv hr
  cases hf : s.free with
  | nil => rw [newArc_none v ht hk hf] at hres; simp at hres
  | cons x rest =>
    rw [newArc_eq v ht hk hf] at hres ⊢
    simp only [thr_setThr, if_true, Loc.done.injEq, Res.arc.injEq] at hres
    subst hres
    have hx : x ∈ s.free := hf ▸ List.mem_cons_self ..
    simp only [getCB_setThr, getCB_pushCB, cbs_allocSt, if_true]
    rw [← hf]
    refine ⟨trivial, hx, hi.freeLt x hx, fun hu => (hi.uniqOk x hu).2.1 hx, fun i ho e => ?_,
      fun u hu => (inTransit_ok hi hu).2.1 hx⟩
    exact (hi.ownOk i (owns_of_owning hi ho)).2.2.1 (e ▸ hx)

/-- exact accounting: the owning control blocks (listed without repetition in `own`), the unique handles, the slots in
    transit inside `dealloc_id` (threads listed without repetition in `tr`) and the free list partition the `N` slots —
    as a count, and as a permutation of `0 .. N-1` -/
theorem c13_bound (hr : Reachable n s) :
    s.N = n ∧
    ∃ own tr : List Nat, own.Nodup ∧ tr.Nodup ∧ (∀ i, i ∈ own ↔ Owning s i) ∧
      (∀ t, t ∈ tr ↔ (inTransitOf s (s.thr t)).isSome = true) ∧
      s.uniques.length + own.length + tr.length + s.free.length = s.N ∧
      (own.map (fun i => (getCB s i).id) ++ s.uniques ++ tr.map (slotOf s) ++ s.free).Perm (List.range s.N) := by
  have hi := reachable_inv hr
  obtain ⟨own, tr, h1, h2, h3, h4, h5, _, _, h8⟩ := pool_partition hi
  exact ⟨N_reachable hr, own, tr, h1, h2, h3, h4, by omega, h8⟩

/-- at most `N` slots are outstanding -/
theorem c13_at_most_N (hr : Reachable n s) (own : List Nat) (hn : own.Nodup) (ho : ∀ i ∈ own, Owning s i) :
    s.uniques.length + own.length ≤ s.N := by
  obtain ⟨_, own', _, h1, _, h2, _, h3, _⟩ := c13_bound hr
  have := hn.length_le_of_subset (l₂ := own') (fun i hi => (h2 i).2 (ho i hi))
  omega

/-- an allocation answers "none" exactly when the free list is empty, i.e. exactly when all `N` slots are outstanding
    (owned, or still inside `dealloc_id`) -/
theorem c13_exhaustion (hr : Reachable n s) (t v : Nat) (ht : s.thr t = .idle) :
    ((apply s (.newUnique t v)).thr t = .done .none ↔ s.free = []) ∧
    (∀ k, k > 0 → ((apply s (.newArc t v k)).thr t = .done .none ↔ s.free = [])) ∧
    (s.free = [] ↔ ∃ own tr : List Nat, own.Nodup ∧ tr.Nodup ∧ (∀ i, i ∈ own ↔ Owning s i) ∧
        (∀ t, t ∈ tr ↔ (inTransitOf s (s.thr t)).isSome = true) ∧
        s.uniques.length + own.length + tr.length = s.N) := by
  refine ⟨?_, ?_, ?_⟩
  · cases hf : s.free with
    | nil => rw [newUnique_none v ht hf]; simp
    | cons x rest => rw [newUnique_eq v ht hf]; simp
  · intro k hk
    cases hf : s.free with
    | nil => rw [newArc_none v ht hk hf]; simp
    | cons x rest => rw [newArc_eq v ht hk hf]; simp
  · obtain ⟨_, own, tr, h1, h2, h3, h4, h5, _⟩ := c13_bound hr
    constructor
    · intro hf; rw [hf] at h5; exact ⟨own, tr, h1, h2, h3, h4, by simpa using h5⟩
    · rintro ⟨own', tr', g1, g2, g3, g4, g5⟩
      have e1 := h1.length_le_of_subset (l₂ := own') (fun i hi => (g3 i).2 ((h3 i).1 hi))
      have e2 := g1.length_le_of_subset (l₂ := own) (fun i hi => (h3 i).2 ((g3 i).1 hi))
      have e3 := h2.length_le_of_subset (l₂ := tr') (fun i hi => (g4 i).2 ((h4 i).1 hi))
      have e4 := g2.length_le_of_subset (l₂ := tr) (fun i hi => (h4 i).2 ((g4 i).1 hi))
      exact List.eq_nil_of_length_eq_zero (by omega)

/-- whenever a slot is outstanding — owned, or in transit inside `dealloc_id`, in particular at the very moment of the
    free-list push (`dRelease` / `uRelease`) — the free list is not full: the push in `dealloc_id` (whose result the
    code ignores) cannot fail -/
theorem c13_dealloc_room (hr : Reachable n s)
    (h : s.uniques ≠ [] ∨ (∃ i, Owning s i) ∨ ∃ t, (inTransitOf s (s.thr t)).isSome = true) :
    s.free.length < s.N := by
  obtain ⟨_, own, tr, h1, h2, h3, h4, h5, _⟩ := c13_bound hr
  rcases h with h | ⟨i, hi⟩ | ⟨t, ht⟩
  · have := List.length_pos_iff.2 h; omega
  · have := List.length_pos_of_mem ((h3 i).2 hi); omega
  · have := List.length_pos_of_mem ((h4 t).2 ht); omega

/-- the two instances at the push itself -/
theorem c13_dealloc_room_at_push (hr : Reachable n s) (t : Nat) :
    (∀ i, s.thr t = .dRelease i → s.free.length < s.N ∧ (step s t).free = s.free ++ [(getCB s i).id]) ∧
    (∀ x, s.thr t = .uRelease x → s.free.length < s.N ∧ (step s t).free = s.free ++ [x]) := by
  constructor
  · intro i hl
    exact ⟨c13_dealloc_room hr (Or.inr (Or.inr ⟨t, by simp [hl, inTransitOf]⟩)), by simp [step, hl]⟩
  · intro x hl
    exact ⟨c13_dealloc_room hr (Or.inr (Or.inr ⟨t, by simp [hl, inTransitOf]⟩)), by simp [step, hl]⟩

/-- `dealloc` = give the slot up (`dropUnique`), run the destructor (`uDestroy` step), push the id (`uRelease` step).
    After the `uRelease` step the id is at the *end* of the free list — and not before: until then it is not in `free` … -/
theorem c13_dealloc_frees (s : St) (t id : Nat) (ht : s.thr t = .idle) (hm : id ∈ s.uniques) :
    (apply s (.dropUnique t id)).free = s.free ∧ (apply s (.dropUnique t id)).thr t = .uDestroy id ∧
    (run s [.dropUnique t id, .step t]).free = s.free ∧ (run s [.dropUnique t id, .step t]).thr t = .uRelease id ∧
    (run s [.dropUnique t id, .step t]).alive id = false ∧
    (run s [.dropUnique t id, .step t, .step t]).free = s.free ++ [id] ∧
    (run s [.dropUnique t id, .step t, .step t]).uniques = s.uniques.erase id ∧
    (run s [.dropUnique t id, .step t, .step t]).alive id = false ∧
    (run s [.dropUnique t id, .step t, .step t]).dropLog = s.dropLog ++ [(id, s.slotGen id, s.slot id)] ∧
    (run s [.dropUnique t id, .step t, .step t]).thr t = .done .unit := by
  have e1 := dropUnique_eq ht hm
  have e2 : run s [.dropUnique t id, .step t] =
      setThr (destroy (setThr (withUniques s (s.uniques.erase id)) t (.uDestroy id)) id) t (.uRelease id) := by
    simp only [run_cons, run_nil]; rw [e1, step_uDestroy_eq (x := id) (by simp)]
  rw [dropUnique_complete s t id ht hm, e1, e2]
  simp [dealloc]

/-- … and a thread allocating alone gets it back after exactly the ids that were queued before it (FIFO reuse) -/
theorem c13_reuse (s : St) (t id : Nat) (l vs : List Nat) (v : Nat) (ht : s.thr t = .idle) (hf : s.free = l ++ [id])
    (hl : vs.length = l.length) :
    (apply (run s (vs.flatMap fun w => [Act.newUnique t w, Act.ack t])) (.newUnique t v)).thr t = .done (.unique id) ∧
    (run s (vs.flatMap fun w => [Act.newUnique t w, Act.ack t])).uniques = l.reverse ++ s.uniques := by
  obtain ⟨h1, h2, h3⟩ := solo_allocs t vs s l [id] ht hf hl
  refine ⟨?_, h3⟩
  rw [newUnique_eq v h1 h2]; simp

/-- both together: drop a unique handle, then allocate alone — the id comes back after the ids queued before it -/
theorem c13_reuse_after_drop (s : St) (t id : Nat) (vs : List Nat) (v : Nat) (ht : s.thr t = .idle)
    (hm : id ∈ s.uniques) (hl : vs.length = s.free.length) :
    (apply (run (run s [.dropUnique t id, .step t, .step t, .ack t])
      (vs.flatMap fun w => [Act.newUnique t w, Act.ack t])) (.newUnique t v)).thr t = .done (.unique id) := by
  have e : run s [.dropUnique t id, .step t, .step t, .ack t] =
      run (run s [.dropUnique t id, .step t, .step t]) [.ack t] := run_append s [_, _, _] [_]
  have h := c13_dealloc_frees s t id ht hm
  refine (c13_reuse _ t id s.free vs v ?_ ?_ hl).1
  · rw [e, run_cons, run_nil, ack_eq (r := .unit) h.2.2.2.2.2.2.2.2.2]; simp
  · rw [e, run_cons, run_nil, ack_eq (r := .unit) h.2.2.2.2.2.2.2.2.2]; simpa using h.2.2.2.2.2.1

/-- slot reference ↔ slot id (`base + id * size`, `(ref - base) / size`) -/
def refOf (base size id : Nat) : Nat := base + id * size
def idOf (base size r : Nat) : Nat := (r - base) / size

theorem c13_id_ref_bijection (base size : Nat) (hs : size > 0) :
    (∀ id, idOf base size (refOf base size id) = id) ∧
    (∀ id1 id2, refOf base size id1 = refOf base size id2 → id1 = id2) ∧
    (∀ id k, k < size → idOf base size (refOf base size id + k) = id) := by
  refine ⟨fun id => ?_, fun id1 id2 h => ?_, fun id k hk => ?_⟩
  · simp [idOf, refOf, Nat.mul_div_cancel _ hs]
  · simp only [refOf] at h
    exact Nat.eq_of_mul_eq_mul_right hs (Nat.add_left_cancel h)
  · simp only [idOf, refOf]
    rw [show base + id * size + k - base = k + size * id by rw [Nat.mul_comm]; omega,
      Nat.add_mul_div_left _ _ hs, Nat.div_eq_of_lt hk]; omega

/-! ## non-vacuity -/

/-- pool of 2 exhausted by one shared and one unique owner; the third allocation answers `none`; after a `dealloc`
    the slot comes back -/
example : let s := run (init 2) [.newArc 0 7 1, .ack 0, .newUnique 0 8, .ack 0, .newUnique 1 9]
    Reachable 2 s ∧ s.free = [] ∧ s.uniques = [1] ∧ s.thr 1 = .done .none ∧ (getCB s 0).id = 0 :=
  ⟨⟨_, rfl⟩, by decide, by decide, by decide, by decide⟩

example : let s := run (init 2) [.newArc 0 7 1, .ack 0, .newUnique 0 8, .ack 0, .dropUnique 0 1, .step 0, .step 0, .ack 0,
      .newUnique 1 9]
    s.thr 1 = .done (.unique 1) ∧ s.slot 1 = 9 ∧ s.dropLog = [(1, 2, 8)] := by decide

/-- while the destructor of slot 1 is running (or the push is pending) the pool still answers `none` -/
example : let s := run (init 2) [.newArc 0 7 1, .ack 0, .newUnique 0 8, .ack 0, .dropUnique 0 1, .newUnique 1 9]
    s.thr 0 = .uDestroy 1 ∧ s.thr 1 = .done .none ∧ s.slot 1 = 8 := by decide
example : let s := run (init 2) [.newArc 0 7 1, .ack 0, .newUnique 0 8, .ack 0, .dropUnique 0 1, .step 0, .newUnique 1 9]
    s.thr 0 = .uRelease 1 ∧ s.thr 1 = .done .none ∧ s.slot 1 = 8 ∧ s.dropLog = [(1, 2, 8)] := by decide

/-- FIFO: free list `[1, 0]` after two deallocations, then ids come back as 1, 0 -/
example : let s := run (init 2) [.newUnique 0 5, .ack 0, .newUnique 0 6, .ack 0, .dropUnique 0 1, .step 0, .step 0, .ack 0,
      .dropUnique 0 0, .step 0, .step 0, .ack 0]
    s.free = [1, 0] ∧ (apply (run s [.newUnique 0 1, .ack 0]) (.newUnique 0 2)).thr 0 = .done (.unique 0) := by decide

#print axioms c13_exclusive
#print axioms c13_exclusive_arc
#print axioms c13_bound
#print axioms c13_at_most_N
#print axioms c13_exhaustion
#print axioms c13_dealloc_room
#print axioms c13_dealloc_room_at_push
#print axioms c13_dealloc_frees
#print axioms c13_reuse
#print axioms c13_reuse_after_drop
#print axioms c13_id_ref_bijection

end Mutiny.Handles
