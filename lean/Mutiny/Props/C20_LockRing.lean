import Mutiny.Proofs.LockRingProps

/-!
# C20 on the `LockRing` model (`FullSyncMove`): a suspended flag holder blocks every other thread

`fs.p.write` (`pWrite v len`) is where the setter of `publish` / a suspended `send_with_async` runs: the slot is leaked
and the spin flag is held.  If that thread is not scheduled, no other thread ever acquires the flag, whatever the other
threads do and for however long; the ring is frozen.  Conversely, with no other thread active, every operation finishes
within 6 own steps.
-/

namespace Mutiny.LockRing

/-- While `u` sits at `pWrite` (flag held) and takes no action: `u` stays there, the flag stays held, every thread
waiting for the flag keeps waiting (same payload), no other thread ever holds the flag, and nothing of the ring moves. -/
theorem c20_lock_held_blocks {n : Nat} {s : St} (hn : 0 < n) (h : Reachable n s) {u v len : Nat}
    (hu : s.thr u = .pWrite v len) (as : List Act) (hnb : ∀ a ∈ as, notBy u a) :
    (run s as).thr u = .pWrite v len ∧ (run s as).locked = true
    ∧ (∀ t, t ≠ u →
        (∀ w, s.thr t = .pLock w ∨ s.thr t = .pSpin w →
              (run s as).thr t = .pLock w ∨ (run s as).thr t = .pSpin w)
        ∧ (s.thr t = .cLock ∨ s.thr t = .cSpin → (run s as).thr t = .cLock ∨ (run s as).thr t = .cSpin)
        ∧ ¬ holder ((run s as).thr t))
    ∧ (run s as).head = s.head ∧ (run s as).tail = s.tail ∧ (run s as).buf = s.buf
    ∧ (run s as).accepted = s.accepted ∧ (run s as).delivered = s.delivered ∧ abs (run s as) = abs s := by
  obtain ⟨b1, b2, ⟨_, r2, r3, r4, r5, r6⟩, b4, b5, b6⟩ := blocked_run (reachable_inv hn h) hu as hnb
  refine ⟨b1, b2, fun t htu => ⟨fun w hw => b4 t w hw, fun hw => b5 t hw, b6 t htu⟩, r2, r3, r4, r5, r6, ?_⟩
  simp only [abs, r2, r5]

/-- No `send` / `recv` of another thread completes while `u` is suspended at `pWrite`: a thread that is idle, waiting
for the flag (or inside the lock-free `len`) in `s` is, after any schedule without `u`, still idle / waiting / in `len` —
in particular never at `.done (.sent _)`, `.done .full`, `.done (.got _)` or `.done .empty`. -/
theorem c20_no_completion {n : Nat} {s : St} (hn : 0 < n) (h : Reachable n s) {u v len : Nat}
    (hu : s.thr u = .pWrite v len) (as : List Act) (hnb : ∀ a ∈ as, notBy u a) (t : Nat)
    (hb : blockedLoc (s.thr t)) :
    blockedLoc ((run s as).thr t)
    ∧ (∀ k, (run s as).thr t ≠ .done (.sent k)) ∧ (run s as).thr t ≠ .done .full
    ∧ (∀ x, (run s as).thr t ≠ .done (.got x)) ∧ (run s as).thr t ≠ .done .empty := by
  have := blockedLoc_run (reachable_inv hn h) hu as hnb t hb
  refine ⟨this, ?_, ?_, ?_, ?_⟩ <;> intros <;> intro e <;> simp [e, blockedLoc] at this

/-- Positive counterpart: when all other threads are idle (hence nobody else holds the flag), any pending operation of
`t` — wherever it is — reaches a `done` point within 6 of its own steps.  (The hypothesis `s.locked = false` of the
informal statement is not needed: with the others idle, the flag can only be held by `t` itself.) -/
theorem c20_solo_progress {n : Nat} {s : St} (hn : 0 < n) (h : Reachable n s) {t : Nat}
    (ho : ∀ u, u ≠ t → s.thr u = .idle) (ht : s.thr t ≠ .idle) :
    ∃ k, k ≤ 6 ∧ ∃ r, (run s (List.replicate k (.step t))).thr t = .done r :=
  solo_progress_of_inv (reachable_inv hn h) ho ht

/-- The same from the call: every call of `t` in a quiescent state completes within 6 own steps. -/
theorem c20_solo_call_progress {n : Nat} {s : St} (hn : 0 < n) (h : Reachable n s) {t : Nat}
    (hidle : ∀ u, s.thr u = .idle) (a : Act) (ha : (∃ v, a = .send t v) ∨ a = .recv t ∨ a = .len t) :
    ∃ k, k ≤ 6 ∧ ∃ r, (run s (a :: List.replicate k (.step t))).thr t = .done r := by
  have hr := reachable_apply h a
  have ho : ∀ u, u ≠ t → (apply s a).thr u = .idle := by
    intro u hu
    rcases ha with ⟨v, rfl⟩ | rfl | rfl <;> simp [apply, hidle, hu]
  have ht : (apply s a).thr t ≠ .idle := by
    rcases ha with ⟨v, rfl⟩ | rfl | rfl <;> simp [apply, hidle]
  exact c20_solo_progress hn hr ho ht

/-! ## non-vacuity -/

/-- Thread 0 suspended at `pWrite` with the flag held; threads 1 (producer) and 2 (consumer) spin forever. -/
example :
    let s := run (init 2) [.send 0 7, .step 0, .step 0, .send 1 8, .recv 2, .step 1, .step 2]
    let as : List Act := [.step 1, .step 2, .step 1, .step 1, .step 2, .len 3, .step 3, .ack 3, .step 2]
    Reachable 2 s ∧ s.thr 0 = .pWrite 7 1 ∧ s.locked = true ∧ s.thr 1 = .pSpin 8 ∧ s.thr 2 = .cSpin
    ∧ (∀ a ∈ as, notBy 0 a)
    ∧ (run s as).thr 1 = .pSpin 8 ∧ (run s as).thr 2 = .cSpin := by
  refine ⟨⟨_, rfl⟩, ?_⟩; decide

/-- Solo progress bound 5 is attained (`send` from the call) and the operation does not finish in 4. -/
example :
    let s := run (init 2) [.send 0 7]
    (run s (List.replicate 5 (.step 0))).thr 0 = .done (.sent 1)
    ∧ (run s (List.replicate 4 (.step 0))).thr 0 = .pUnlocked 1 := by decide

end Mutiny.LockRing

open Mutiny.LockRing in
#print axioms c20_lock_held_blocks
open Mutiny.LockRing in
#print axioms c20_no_completion
open Mutiny.LockRing in
#print axioms c20_solo_progress
open Mutiny.LockRing in
#print axioms c20_solo_call_progress
