import Mutiny.Proofs.RingRsv

/-!
# C20 (ring part) — who can block whom

Scope: every `n > 0`, every `s` with `ReachableX n s`.
* A *suspended reservation* (`rHold`: reserved, not yet published — e.g. an async setter suspended at an `.await`) blocks
  every producer with a higher sequence number for as long as its owner does not act: model-level witness of KNOWN FINDING
  D8 (movable atomic channel holds a ring reservation across an await).
* Without outstanding reservations a thread running alone finishes every call in at most 5 own steps.
* Consumers never wait for reservations.
-/

namespace Mutiny.Ring

variable {n : Nat} {s : St}

/-- `u` holds a reservation `id` and does not act; `t` has written a higher sequence number and spins on its publish CAS:
    whatever all the other threads do (any actions, any length, `t` included), `t` is still spinning and `tail ≤ id` -/
theorem c20_ring_blocked_by_suspended_reservation (hn : 0 < n) (hr : ReachableX n s) (u id t v id' len : Nat)
    (hu : s.thr u = .rHold id) (ht : s.thr t = .pPublish v id' len) (hlt : id < id')
    (as : List Act) (hnb : NotBy u as) (hok : RunOk s as) :
    (run s as).thr t = .pPublish v id' len ∧ (run s as).tail ≤ id ∧ (run s as).thr u = .rHold id ∧
    ReachableX n (run s as) := by
  obtain ⟨h1, h2, h3, _⟩ := blocked_by_rHold s (reachable_inv hn hr) u id t v id' len hu ht hlt as hnb hok
  exact ⟨h2, h3, h1, hr.run as hok⟩

/-- with every other thread `idle` (in particular no reservation outstanding) each call of `t` returns within 5 own steps
    (`send`: 4, `recv`: 4 or 5, `len`: 2 — its two loads, `reserve`: 2 or 3) -/
theorem c20_solo_progress (hn : 0 < n) (hr : ReachableX n s) (t : Nat)
    (hothers : ∀ u, u ≠ t → s.thr u = .idle) (ht : s.thr t = .idle) :
    (∀ v, ∃ r, (run s [.send t v, .step t, .step t, .step t, .step t, .step t]).thr t = .done r) ∧
    (∃ r, (run s [.recv t, .step t, .step t, .step t, .step t, .step t]).thr t = .done r) ∧
    (s.N < 4294967296 → (run s [.len t, .step t, .step t]).thr t = .done (.len (abs s).length)) ∧
    ((abs s).length < s.N →
        (run s [.reserve t, .step t, .step t]).thr t = .rRet s.tail (.reserved (s.tail % s.N) (abs s).length)) ∧
    ((abs s).length = s.N → (run s [.reserve t, .step t, .step t, .step t]).thr t = .done .full) := by
  have hid : ∀ u, s.thr u = .idle := fun u => if e : u = t then e ▸ ht else hothers u e
  have hi := reachable_inv hn hr
  have hq := quiescent_counters s hi hid
  have hlen := abs_length s hi
  have hTN := hi.hTN
  have hHT := hi.hHT
  refine ⟨?_, ?_, ?_, ?_, ?_⟩
  · intro v
    by_cases hroom : s.tail - s.head < s.N
    · have := (solo_send_ok s t v hid hq.1 hroom).1 t
      rw [if_pos rfl] at this; exact ⟨_, this⟩
    · have := (solo_send_full s t v hid hq.1 hroom).2.1 t
      rw [if_pos rfl] at this; exact ⟨_, this⟩
  · by_cases hne : s.head < s.tail
    · have h4 := (solo_recv_ok' s t ht hq.2 hne).1
      refine ⟨.got (s.buf (s.head % s.N)), ?_⟩
      show (run s (recvSolo t ++ [.step t])).thr t = _
      rw [run_append]
      show (step (run s (recvSolo t)) t).thr t = _
      rw [step_noop _ t (Or.inr (Or.inl ⟨_, h4⟩))]; exact h4
    · exact ⟨_, (solo_recv_empty' s t ht hq.2 (by omega)).1⟩
  · intro hN; rw [hlen]; exact solo_len s t ht hHT (by omega)
  · intro hroom; rw [hlen]; exact solo_reserve_ok s t ht hq.1 (by omega)
  · intro hfull; exact (solo_reserve_full s t ht hq.1 (by omega)).1

/-- consumers are unaffected by suspended reservations: with every other thread `idle` or holding a reservation, a `recv`
    by `t` returns the front element within 4 own steps if there is one, and `empty` within 5 otherwise -/
theorem c20_consumers_unaffected (hn : 0 < n) (hr : ReachableX n s) (t : Nat)
    (hothers : ∀ u, u ≠ t → s.thr u = .idle ∨ ∃ id, s.thr u = .rHold id) (ht : s.thr t = .idle) :
    (∀ x rest, abs s = x :: rest →
        let s' := run s [.recv t, .step t, .step t, .step t, .step t]
        s'.thr t = .done (.got x) ∧ abs s' = rest ∧ (∀ u, u ≠ t → s'.thr u = s.thr u)) ∧
    (abs s = [] →
        let s' := run s [.recv t, .step t, .step t, .step t, .step t, .step t]
        s'.thr t = .done .empty ∧ abs s' = [] ∧ (∀ u, u ≠ t → s'.thr u = s.thr u)) := by
  have hi := reachable_inv hn hr
  have hnc : ∀ u k, ¬ holdsC (s.thr u) k := by
    intro u k
    by_cases hut : u = t
    · subst hut; simp [ht, holdsC]
    · rcases hothers u hut with e | ⟨id, e⟩ <;> simp [e, holdsC]
  have hd := deqHead_eq_head s hi hnc
  have hlen := abs_length s hi
  have hHT := hi.hHT
  have hacc := hi.accLen
  constructor
  · intro x rest hx
    have hne : s.head < s.tail := by
      have : (abs s).length = rest.length + 1 := by rw [hx]; rfl
      omega
    have hfront : s.buf (s.head % s.N) = x := by
      have h1 := hi.bufOk s.head (Nat.le_refl _) hne
      have h2 : (abs s)[0]? = some x := by rw [hx]; rfl
      rw [abs, List.getElem?_drop, Nat.add_zero, h1] at h2
      exact Option.some.inj h2
    obtain ⟨h1, h2, h3, h4, _⟩ := solo_recv_ok' s t ht hd hne
    refine ⟨by rw [← hfront]; exact h1, ?_, h2⟩
    show List.drop (run s (recvSolo t)).head (run s (recvSolo t)).accepted = rest
    rw [h3, h4]
    have : s.accepted.drop s.head = x :: rest := hx
    rw [← List.drop_drop, this]; rfl
  · intro hemp
    have hht : s.head = s.tail := (abs_eq_nil_iff s hi).mp hemp
    obtain ⟨h1, h2, h3, h4, _⟩ := solo_recv_empty' s t ht hd hht
    exact ⟨h1, by rw [← hemp]; exact abs_congr h3 h4, h2⟩

/-! ## non-vacuity -/

/-- thread 0 reserves id 0 and is suspended; thread 1 sends (id 1), writes, and spins; a consumer (thread 2) asking
    meanwhile gets `empty`: the hypotheses of `c20_ring_blocked_by_suspended_reservation` hold, and 1 is still spinning
    after 50 more own steps -/
example : let s := run (init 2) [.reserve 0, .step 0, .step 0, .ack 0, .send 1 7, .step 1, .step 1, .step 1]
    ReachableX 2 s ∧ s.thr 0 = .rHold 0 ∧ s.thr 1 = .pPublish 7 1 1 ∧
    (run s (List.replicate 50 (.step 1))).thr 1 = .pPublish 7 1 1 ∧
    (run s [.recv 2, .step 2, .step 2, .step 2, .step 2, .step 2]).thr 2 = .done .empty :=
  ⟨reachableX_of_noCancel 2 _ (by intro t; simp), by decide, by decide, by decide, by decide⟩

/-- a consumer is served although a reservation is outstanding behind the published element -/
example : let s := run (init 2) [.send 1 7, .step 1, .step 1, .step 1, .step 1, .ack 1, .reserve 0, .step 0, .step 0, .ack 0]
    s.thr 0 = .rHold 1 ∧ abs s = [7] ∧ (run s [.recv 2, .step 2, .step 2, .step 2, .step 2]).thr 2 = .done (.got 7) := by
  decide

#print axioms c20_ring_blocked_by_suspended_reservation
#print axioms c20_solo_progress
#print axioms c20_consumers_unaffected

end Mutiny.Ring
