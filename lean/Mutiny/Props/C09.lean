import Mutiny.Proofs.MmapProps

/-!
# C09 — the mmap log topic: one total order, full replay, exact old/new split, stable references

Scope: every `s` with `ReachableX s` (`Proofs/MmapInv.lean`): reachable by any schedule of any number of threads in which
every subscriber is polled by one thread at a time (`PollOk`; `runOk_of_owned`: one consumer thread per subscriber suffices).
Without that side condition events ARE lost: `two_pollers_skip` (KNOWN FINDING, `Proofs/MmapInv.lean`).

`cur s i` is the logical cursor of subscriber `i`, `delPV s i` the `(position, value)` list it received so far, `delOf s i`
the positions alone (`Proofs/MmapProps.lean`).
-/

namespace Mutiny.MmapLog

variable {s : St}

/-- ONE total order, the same for everybody: positions become visible in position order (`log` is indexed by position);
    whatever any listener receives for position `p` is the log's entry for `p` (so any two listeners agree); the log only
    ever grows (any continuation).  Per-producer consistency: a send takes the position `pubTail` at its `fetch_add`, which
    is above the position of every send that completed before (those are in `log`, i.e. `< consTail ≤ pubTail`), now and
    in every continuation; it writes its value into that slot, and completes — appending exactly `(pos, value)` — at the
    moment `consTail = pos`, not before. -/
theorem c09_total_order (hr : ReachableX s) :
    s.log.map (·.1) = List.range s.consTail ∧ s.consTail ≤ s.pubTail ∧
    (∀ i p v, (i, p, v) ∈ s.delivered → s.log[p]? = some (p, v)) ∧
    (∀ i j p v w, (i, p, v) ∈ s.delivered → (j, p, w) ∈ s.delivered → v = w) ∧
    (∀ as, ∃ l, (run s as).log = s.log ++ l) ∧
    (∀ p w, (p, w) ∈ s.log → p < s.consTail ∧ ∀ as, p < (run s as).pubTail) ∧
    (∀ t v, s.thr t = .pFetch v → (step s t).thr t = .pWrite v s.pubTail ∧ (step s t).pubTail = s.pubTail + 1) ∧
    (∀ t v pos, s.thr t = .pWrite v pos → s.consTail ≤ pos ∧ s.slots pos = none ∧
        (step s t).slots pos = some v ∧ (step s t).thr t = .pPublish pos ∧ (step s t).log = s.log) ∧
    (∀ t pos, s.thr t = .pPublish pos → ∃ v, s.slots pos = some v ∧ s.consTail ≤ pos ∧
        (s.consTail = pos → (step s t).thr t = .done .unit ∧ (step s t).log = s.log ++ [(pos, v)] ∧
            (step s t).consTail = pos + 1) ∧
        (s.consTail ≠ pos → step s t = s)) := by
  have hi := reachable_inv hr
  refine ⟨log_pos hi, hi.hCP, fun i p v hm => hi.delVal _ hm, ?_, fun as => (mono_run s as).log, ?_,
    fun t v ht => by rw [step_pFetch s t v ht]; simp, ?_, ?_⟩
  · intro i j p v w h1 h2
    have e1 := hi.delVal _ h1
    have e2 := hi.delVal _ h2
    simp only at e1 e2
    rw [e1] at e2
    simpa using e2
  · intro p w hm
    have hp := log_mem_lt hi hm
    refine ⟨hp, fun as => ?_⟩
    have := (mono_run s as).pub
    have := hi.hCP
    omega
  · intro t v pos ht
    have me := hi.pRange t pos (by simp [ht, holdsP])
    refine ⟨me.1, (hi.slotW pos).mpr (hi.wWrite t v pos ht), ?_⟩
    rw [step_pWrite s t v pos ht]; simp
  · intro t pos ht
    obtain ⟨v, h1, h2, _, h4, h5⟩ := pPublish_facts hi ht
    refine ⟨v, h1, h2, ?_, h5⟩
    intro e
    obtain ⟨e1, e2⟩ := h4 e
    refine ⟨by rw [e1]; simp, e2, by rw [e1]; simp⟩

/-- a joined subscriber (`subscribe_to_joined_old_and_new_events`: dynamic, cursor 0) replays the entire history: what it
    received so far is *literally* the first `cur` entries of the log — positions `0, 1, …, cur-1`, each once, in order,
    with the log's values.  A poll answers `none` only if, when it loaded `consumer_tail`, nothing visible was left
    (`consTail ≤ cur`, hence `cur = consTail` and everything visible has been yielded: `delPV = log`); otherwise it delivers
    position `cur` with the log's value.  The `none` path delivers nothing and gives the cursor back. -/
theorem c09_joined_replay (hr : ReachableX s) :
    (∀ t, s.thr t = .idle →
        (apply s (.subJoined t)).thr t = .done (.subs s.subs.length none) ∧
        (apply s (.subJoined t)).subs.length = s.subs.length + 1 ∧
        getSub (apply s (.subJoined t)) s.subs.length = { kind := .dyn, head := 0, start := 0 }) ∧
    (∀ i, i < s.subs.length → (getSub s i).kind = .dyn → (getSub s i).start = 0 →
        cur s i ≤ s.consTail ∧ delPV s i = s.log.take (cur s i) ∧ delOf s i = List.range (cur s i) ∧
        (∀ p v, (i, p, v) ∈ s.delivered ↔ p < cur s i ∧ s.log[p]? = some (p, v)) ∧
        (∀ t c, s.thr t = .cLoadTail i c → cur s i = c ∧
            (s.consTail ≤ c → (step s t).thr t = .cRecede i c ∧ delPV s i = s.log) ∧
            (c < s.consTail → (step s t).thr t = .cRead i c)) ∧
        (∀ t c, s.thr t = .cRecede i c → cur s i = c ∧ (step s t).thr t = .done (.item none) ∧
            (step s t).delivered = s.delivered ∧ (getSub (step s t) i).head = c) ∧
        (∀ t c, s.thr t = .cRead i c → cur s i = c ∧ ∃ v, s.log[c]? = some (c, v) ∧
            (step s t).thr t = .done (.item (some v)) ∧ (step s t).delivered = s.delivered ++ [(i, c, v)])) := by
  have hi := reachable_inv hr
  constructor
  · intro t ht
    rw [apply_subJoined, if_pos ht]
    refine ⟨by simp, by simp, ?_⟩
    rw [getSub_setThr, getSub_addSubs1]; simp
  · intro i hlt hk hs
    obtain ⟨_, hb, hd⟩ := subOk_cur hi hlt
    rw [hk] at hb; simp only [Bound] at hb
    have hpv := delPV_eq hi hlt
    rw [hs] at hpv hd
    simp only [List.drop_zero, Nat.sub_zero] at hpv hd
    refine ⟨hb, hpv, by rw [hd, List.range_eq_range'], ?_, ?_, ?_, ?_⟩
    · intro p v
      rw [mem_delivered_iff hi hlt, hs]; simp
    · intro t c ht
      obtain ⟨_, f2, _, _, f5, f6, _⟩ := cLoadTail_facts hi ht
      refine ⟨f2, fun hc => ⟨f5 hc, ?_⟩, f6⟩
      rw [hpv, List.take_of_length_le]; rw [hi.logLen]; omega
    · intro t c ht
      obtain ⟨_, f2, _, f4⟩ := cRecede_facts hi ht
      rw [f4]; exact ⟨f2, by simp, rfl, by simp [hlt]⟩
    · intro t c ht
      obtain ⟨_, f2, v, f3, _, f5⟩ := cRead_facts hi ht
      rw [f5]; exact ⟨f2, v, f3, by simp, rfl⟩

/-- the (old, new) pair of `subscribe_to_separated_old_and_new_events` partitions the log at the loaded tail `tl`.
    Every fixed subscriber `i` (kind `fixed tl`) IS the old half of such a pair and `i + 1` is its new half
    (`dyn`, `start = tl`); `tl ≤ consTail`.  The old half received *literally* `log[0, cur_old)` with `cur_old ≤ tl`, the
    new half `log[tl, cur_new)`: every position `< tl` only ever in the old one, every position `≥ tl` only ever in the
    new one, no position twice, and once the old half is exhausted (`cur_old = tl`) the two together are the gap-free
    prefix `log[0, cur_new)`.  The old half answers `none` exactly when `cur_old = tl` (it decides at its `fetch_add`),
    i.e. exactly when it has yielded all of `log[0, tl)`. -/
theorem c09_split_partition (hr : ReachableX s) (i tl : Nat) (hlt : i < s.subs.length)
    (hk : (getSub s i).kind = .fixed tl) :
    ((getSub s i).start = 0 ∧ i + 1 < s.subs.length ∧ (getSub s (i + 1)).kind = .dyn ∧ (getSub s (i + 1)).start = tl) ∧
    (tl ≤ s.consTail ∧ cur s i ≤ tl ∧ tl ≤ cur s (i + 1) ∧ cur s (i + 1) ≤ s.consTail) ∧
    (delPV s i = s.log.take (cur s i) ∧ delPV s (i + 1) = (s.log.drop tl).take (cur s (i + 1) - tl)) ∧
    (∀ p v, (i, p, v) ∈ s.delivered ↔ p < cur s i ∧ s.log[p]? = some (p, v)) ∧
    (∀ p v, (i + 1, p, v) ∈ s.delivered ↔ tl ≤ p ∧ p < cur s (i + 1) ∧ s.log[p]? = some (p, v)) ∧
    (∀ p v, (i, p, v) ∈ s.delivered → p < tl) ∧ (∀ p v, (i + 1, p, v) ∈ s.delivered → tl ≤ p) ∧
    (delOf s i ++ delOf s (i + 1)).Nodup ∧
    (cur s i = tl → delPV s i = s.log.take tl ∧ delPV s i ++ delPV s (i + 1) = s.log.take (cur s (i + 1))) ∧
    (∀ t, s.thr t = .cFetch i →
        (cur s i = tl → (step s t).thr t = .cRecede i tl) ∧
        (cur s i ≠ tl → cur s i < tl ∧ (step s t).thr t = .cRead i (cur s i))) ∧
    (∀ t c, s.thr t = .cRecede i c → c = tl ∧ cur s i = tl ∧ (step s t).thr t = .done (.item none) ∧
        (step s t).delivered = s.delivered ∧ (getSub (step s t) i).head = tl) ∧
    (∀ t c, s.thr t = .cRead i c → c < tl ∧ cur s i = c ∧ ∃ v, s.log[c]? = some (c, v) ∧
        (step s t).thr t = .done (.item (some v)) ∧ (step s t).delivered = s.delivered ++ [(i, c, v)]) := by
  have hi := reachable_inv hr
  obtain ⟨f1, f2, f3, f4, f5, f6, f7, f8⟩ := fixed_facts hi hlt hk
  have d1 := delPV_eq hi hlt
  have d2 := delPV_eq hi f2
  rw [f1] at d1; rw [f4] at d2
  simp only [List.drop_zero, Nat.sub_zero] at d1
  have m1 : ∀ p v, (i, p, v) ∈ s.delivered ↔ p < cur s i ∧ s.log[p]? = some (p, v) := by
    intro p v; rw [mem_delivered_iff hi hlt, f1]; simp
  have m2 : ∀ p v, (i + 1, p, v) ∈ s.delivered ↔ tl ≤ p ∧ p < cur s (i + 1) ∧ s.log[p]? = some (p, v) := by
    intro p v; rw [mem_delivered_iff hi f2, f4]
  refine ⟨⟨f1, f2, f3, f4⟩, ⟨f5, f6, f7, f8⟩, ⟨d1, d2⟩, m1, m2, ?_, ?_, ?_, ?_, ?_, ?_, ?_⟩
  · intro p v hm; have := (m1 p v).mp hm; omega
  · intro p v hm; exact ((m2 p v).mp hm).1
  · rw [List.nodup_append]
    refine ⟨delOf_nodup hi hlt, delOf_nodup hi f2, ?_⟩
    intro a ha b hb
    rw [(subOk_cur hi hlt).2.2, List.mem_range'_1] at ha
    rw [(subOk_cur hi f2).2.2, List.mem_range'_1] at hb
    rw [f1] at ha; rw [f4] at hb
    omega
  · intro e
    rw [e] at d1
    refine ⟨d1, ?_⟩
    rw [d1, d2]
    have : cur s (i + 1) = tl + (cur s (i + 1) - tl) := by omega
    conv => rhs; rw [this, List.take_add]
  · intro t ht
    obtain ⟨_, _, _, g4, _⟩ := cFetch_facts hi ht
    obtain ⟨g5, g6⟩ := g4 tl hk
    exact ⟨fun e => by have := g5 e; rwa [e] at this, g6⟩
  · intro t c ht
    obtain ⟨_, g2, g3, g4⟩ := cRecede_facts hi ht
    have e := g3 tl hk
    subst e
    rw [g4]; exact ⟨rfl, g2, by simp, rfl, by simp [hlt]⟩
  · intro t c ht
    obtain ⟨_, g2, v, g3, _, g5⟩ := cRead_facts hi ht
    have := (hi.readOk t i c ht).2 tl hk
    rw [g5]; exact ⟨this, g2, v, g3, by simp, rfl⟩

/-- the split in time: the `mm.s.load` step of `subscribe_to_separated_old_and_new_events` (thread `t`, state `s`, loading
    `tl = consTail`) creates subscribers `n` (old, `fixed tl`, cursor 0) and `n + 1` (new, `dyn`, cursor `tl`); in every later
    state `s'` they still are such a pair (so `c09_split_partition` applies to them) and `s'.log = s.log ++ l`:
    the old half replays exactly the log as it was at the load (`s.log`, all sends completed before), the new half
    delivers exactly from `l` (everything that became visible afterwards).  Sends in flight at the load hold positions
    `≥ tl`, and every send that fetches its position later gets one `≥ tl`: all of them land in the new half only. -/
theorem c09_split_created (hr : ReachableX s) (t : Nat) (ht : s.thr t = .sLoad true) (as : List Act)
    (hok : RunOk (step s t) as) :
    let n := s.subs.length
    let tl := s.consTail
    let s' := run (step s t) as
    (step s t).thr t = .done (.subs n (some (n + 1))) ∧ (step s t).subs.length = n + 2 ∧
    getSub (step s t) n = { kind := .fixed tl, head := 0, start := 0 } ∧
    getSub (step s t) (n + 1) = { kind := .dyn, head := tl, start := tl } ∧
    ReachableX s' ∧ n + 1 < s'.subs.length ∧
    (getSub s' n).kind = .fixed tl ∧ (getSub s' n).start = 0 ∧
    (getSub s' (n + 1)).kind = .dyn ∧ (getSub s' (n + 1)).start = tl ∧
    (∀ p w, (p, w) ∈ s.log → p < tl) ∧ s.log.length = tl ∧
    (∀ u k, holdsP (s.thr u) k → tl ≤ k) ∧
    (∀ u v, s'.thr u = .pFetch v → (step s' u).thr u = .pWrite v s'.pubTail ∧ tl ≤ s'.pubTail) ∧
    (∃ l, s'.log = s.log ++ l ∧ delPV s' n = s.log.take (cur s' n) ∧ delPV s' (n + 1) = l.take (cur s' (n + 1) - tl)) := by
  dsimp only
  have hi := reachable_inv hr
  have hr1 : ReachableX (step s t) := hr.apply (.step t) (pollOk_of_not_poll (by intro _ _ e; cases e))
  obtain ⟨s', hs'⟩ : ∃ s', s' = run (step s t) as := ⟨_, rfl⟩
  rw [← hs']
  have hr' : ReachableX s' := hs' ▸ hr1.run as hok
  have hi' := reachable_inv hr'
  have e1 := step_sLoad_split s t ht
  have g1 : getSub (step s t) s.subs.length = { kind := .fixed s.consTail, head := 0, start := 0 } := by
    rw [e1, getSub_setThr, getSub_addSubs2]; simp
  have g2 : getSub (step s t) (s.subs.length + 1) = { kind := .dyn, head := s.consTail, start := s.consTail } := by
    rw [e1, getSub_setThr, getSub_addSubs2, if_neg (by omega), if_neg (by omega), if_pos rfl]
  have gl : (step s t).subs.length = s.subs.length + 2 := by rw [e1]; simp
  have hm := mono_run (step s t) as
  rw [← hs'] at hm
  have hm0 := (mono_step s t).trans hm
  have k1 := hm.kind s.subs.length (by omega)
  have k2 := hm.kind (s.subs.length + 1) (by omega)
  have s1 := hm.start s.subs.length (by omega)
  have s2 := hm.start (s.subs.length + 1) (by omega)
  rw [g1] at k1 s1; rw [g2] at k2 s2
  simp only at k1 k2 s1 s2
  have hlen : s.subs.length + 1 < s'.subs.length := by have := hm.len; omega
  refine ⟨by rw [e1]; simp, gl, g1, g2, hr', hlen, k1, s1, k2, s2, fun p w hm => log_mem_lt hi hm, hi.logLen,
    fun u k hu => (hi.pRange u k hu).1, ?_, ?_⟩
  · intro u v hu
    rw [step_pFetch s' u v hu]
    refine ⟨by simp, ?_⟩
    have := hm0.pub; have := hi.hCP; omega
  · obtain ⟨l, hl⟩ := hm0.log
    refine ⟨l, hl, ?_, ?_⟩
    · have d1 := delPV_eq hi' (show s.subs.length < s'.subs.length by omega)
      have hc := (fixed_facts hi' (show s.subs.length < s'.subs.length by omega) k1).2.2.2.2.2.1
      rw [s1] at d1
      simp only [List.drop_zero, Nat.sub_zero] at d1
      rw [d1, hl, List.take_append_of_le_length (by rw [hi.logLen]; exact hc)]
    · have d2 := delPV_eq hi' hlen
      rw [s2] at d2
      rw [d2, hl, List.drop_left' hi.logLen]

/-- `subscribe_to_new_events_only`: its `mm.s.load` step (loading `tl = consTail`) creates subscriber `n` (`dyn`, cursor
    `tl`); in every later state `s'`, with `s'.log = s.log ++ l`, it received *literally* the first `cur - tl` entries of
    `l`: nothing that was visible at the load, everything afterwards, in order, each once.  Sends in flight at the load and
    all later sends have positions `≥ tl`. -/
theorem c09_new_only (hr : ReachableX s) (t : Nat) (ht : s.thr t = .sLoad false) (as : List Act)
    (hok : RunOk (step s t) as) :
    let n := s.subs.length
    let tl := s.consTail
    let s' := run (step s t) as
    (step s t).thr t = .done (.subs n none) ∧ (step s t).subs.length = n + 1 ∧
    getSub (step s t) n = { kind := .dyn, head := tl, start := tl } ∧
    ReachableX s' ∧ n < s'.subs.length ∧ (getSub s' n).kind = .dyn ∧ (getSub s' n).start = tl ∧
    tl ≤ cur s' n ∧ cur s' n ≤ s'.consTail ∧
    (∀ p w, (p, w) ∈ s.log → p < tl) ∧ s.log.length = tl ∧
    (∀ u k, holdsP (s.thr u) k → tl ≤ k) ∧
    (∀ u v, s'.thr u = .pFetch v → (step s' u).thr u = .pWrite v s'.pubTail ∧ tl ≤ s'.pubTail) ∧
    (∀ p v, (n, p, v) ∈ s'.delivered ↔ tl ≤ p ∧ p < cur s' n ∧ s'.log[p]? = some (p, v)) ∧
    (∃ l, s'.log = s.log ++ l ∧ delPV s' n = l.take (cur s' n - tl)) ∧
    (∀ u c, s'.thr u = .cLoadTail n c → cur s' n = c ∧
        (s'.consTail ≤ c → (step s' u).thr u = .cRecede n c ∧ delPV s' n = s'.log.drop tl) ∧
        (c < s'.consTail → (step s' u).thr u = .cRead n c)) := by
  dsimp only
  have hi := reachable_inv hr
  have hr1 : ReachableX (step s t) := hr.apply (.step t) (pollOk_of_not_poll (by intro _ _ e; cases e))
  obtain ⟨s', hs'⟩ : ∃ s', s' = run (step s t) as := ⟨_, rfl⟩
  rw [← hs']
  have hr' : ReachableX s' := hs' ▸ hr1.run as hok
  have hi' := reachable_inv hr'
  have e1 := step_sLoad_new s t ht
  have g1 : getSub (step s t) s.subs.length = { kind := .dyn, head := s.consTail, start := s.consTail } := by
    rw [e1, getSub_setThr, getSub_addSubs1]; simp
  have gl : (step s t).subs.length = s.subs.length + 1 := by rw [e1]; simp
  have hm := mono_run (step s t) as
  rw [← hs'] at hm
  have hm0 := (mono_step s t).trans hm
  have k1 := hm.kind s.subs.length (by omega)
  have s1 := hm.start s.subs.length (by omega)
  rw [g1] at k1 s1
  simp only at k1 s1
  have hlen : s.subs.length < s'.subs.length := by have := hm.len; omega
  obtain ⟨c1, c2, _⟩ := subOk_cur hi' hlen
  rw [s1] at c1; rw [k1] at c2; simp only [Bound] at c2
  have d1 := delPV_eq hi' hlen
  rw [s1] at d1
  refine ⟨by rw [e1]; simp, gl, g1, hr', hlen, k1, s1, c1, c2, fun p w hm => log_mem_lt hi hm, hi.logLen,
    fun u k hu => (hi.pRange u k hu).1, ?_, ?_, ?_, ?_⟩
  · intro u v hu
    rw [step_pFetch s' u v hu]
    refine ⟨by simp, ?_⟩
    have := hm0.pub; have := hi.hCP; omega
  · intro p v; rw [mem_delivered_iff hi' hlen, s1]
  · obtain ⟨l, hl⟩ := hm0.log
    refine ⟨l, hl, ?_⟩
    rw [d1, hl, List.drop_left' hi.logLen]
  · intro u c hu
    obtain ⟨_, f2, _, _, f5, f6, _⟩ := cLoadTail_facts hi' hu
    refine ⟨f2, fun hc => ⟨f5 hc, ?_⟩, f6⟩
    rw [d1, List.take_of_length_le]; rw [List.length_drop, hi'.logLen]; omega

/-- references handed to listeners stay valid and unchanged: every slot is written at most once; a written slot is never
    rewritten by any action (so in particular everything below `consTail` — everything a listener can hold a reference
    to — is frozen, now and in every continuation); the only writer of a slot is the holder of its position, before
    that position becomes visible. -/
theorem c09_references_stable (hr : ReachableX s) :
    (∀ p, s.writes p ≤ 1) ∧ (∀ p, s.slots p = none ↔ s.writes p = 0) ∧
    (∀ a p v, s.slots p = some v → (apply s a).slots p = some v) ∧
    (∀ a p, p < s.consTail → (apply s a).slots p = s.slots p) ∧
    (∀ as p v, RunOk s as → s.slots p = some v → (run s as).slots p = some v) ∧
    (∀ p, p < s.consTail → ∃ v, s.slots p = some v ∧ s.log[p]? = some (p, v) ∧
        ∀ as, RunOk s as → (run s as).slots p = some v ∧ (run s as).log[p]? = some (p, v)) ∧
    (∀ i p v, (i, p, v) ∈ s.delivered → s.slots p = some v ∧ ∀ as, RunOk s as → (run s as).slots p = some v) ∧
    (∀ t v pos, s.thr t = .pWrite v pos → s.consTail ≤ pos ∧ s.writes pos = 0 ∧ (step s t).writes pos = 1) := by
  have hi := reachable_inv hr
  refine ⟨writes_le_one hi, hi.slotW, fun a p v hs => slots_stable_apply hi a hs, ?_,
    fun as p v hok hs => slots_stable_run hi as hok hs, ?_, ?_, ?_⟩
  · intro a p hp
    obtain ⟨v, hv⟩ := slots_of_lt_consTail hi hp
    rw [hv]; exact slots_stable_apply hi a hv
  · intro p hp
    obtain ⟨v, hv1, hv2⟩ := hi.logOk p hp
    refine ⟨v, hv1, hv2, fun as hok => ⟨slots_stable_run hi as hok hv1, ?_⟩⟩
    obtain ⟨l, hl⟩ := (mono_run s as).log
    rw [hl, List.getElem?_append_left (by rw [hi.logLen]; exact hp)]; exact hv2
  · intro i p v hm
    have := (log_getElem?_fst hi (hi.delVal _ hm)).2.2
    exact ⟨this, fun as hok => slots_stable_run hi as hok this⟩
  · intro t v pos ht
    have hw := hi.wWrite t v pos ht
    refine ⟨(hi.pRange t pos (by simp [ht, holdsP])).1, hw, ?_⟩
    rw [step_pWrite s t v pos ht]; simp [hw]

/-! ## non-vacuity -/

/-- threads 0 and 1 send 10 and 11 and get positions 0 and 1; thread 1 writes first and spins at its publish CAS … -/
def demoA : List Act :=
  [.send 0 10, .send 1 11, .step 0, .step 1, .step 1, .step 1, .step 0, .step 0, .ack 0]
/-- … thread 2 splits while position 1 is written but not visible (`tl = 1`): subscribers 0 (old), 1 (new) -/
def demoB : List Act := [.subSplit 2]
/-- … then position 1 becomes visible; thread 3 drains the old half (10, then `none`), thread 4 polls the new half (11),
    thread 5 joins (subscriber 2) and replays 10, 11, `none`; thread 6 subscribes to new events only (subscriber 3),
    thread 0 sends 12, thread 6 receives it -/
def demoC : List Act :=
  [.ack 2, .step 1, .ack 1,
   .poll 3 0, .step 3, .step 3, .ack 3, .poll 3 0, .step 3, .step 3, .ack 3,
   .poll 4 1, .step 4, .step 4, .step 4, .ack 4,
   .subJoined 5, .ack 5, .poll 5 2, .step 5, .step 5, .step 5, .ack 5, .poll 5 2, .step 5, .step 5, .step 5, .ack 5,
   .poll 5 2, .step 5, .step 5, .step 5, .ack 5]
def demoD : List Act := [.subNew 6]
def demoE : List Act :=
  [.ack 6, .send 0 12, .step 0, .step 0, .step 0, .ack 0, .poll 6 3, .step 6, .step 6, .step 6]

def demoOwner (i : Nat) : Nat := if i = 0 then 3 else if i = 1 then 4 else if i = 2 then 5 else 6

theorem demo_reachable (as : List Act) (h : ownedCheck demoOwner as = true) : ReachableX (run init as) :=
  reachableX_of_owned demoOwner as (owned_of_check h)

set_option maxRecDepth 8192 in
/-- the whole run is in scope; publishers finish out of order in time but in position order in the log; every listener
    agrees with the log -/
example : let s := run init (demoA ++ demoB ++ [.step 2] ++ demoC ++ demoD ++ [.step 6] ++ demoE)
    ReachableX s ∧ s.log = [(0, 10), (1, 11), (2, 12)] ∧
    s.delivered = [(0, 0, 10), (1, 1, 11), (2, 0, 10), (2, 1, 11), (3, 2, 12)] ∧ s.consTail = 3 ∧ s.pubTail = 3 :=
  ⟨demo_reachable _ (by decide), by decide, by decide, by decide, by decide⟩

/-- hypotheses of `c09_total_order`'s publish clause: thread 1 at `pPublish 1` while `consTail = 0` (spins), and later
    while `consTail = 1` (completes) -/
example : let s := run init [.send 0 10, .send 1 11, .step 0, .step 1, .step 1]
    ReachableX s ∧ s.thr 1 = .pPublish 1 ∧ s.consTail = 0 ∧ s.thr 0 = .pWrite 10 0 :=
  ⟨demo_reachable _ (by decide), by decide, by decide, by decide⟩

/-- hypotheses of `c09_split_created` / `c09_split_partition`: the load step happens with position 0 visible and position 1
    in flight; afterwards subscriber 0 is `fixed 1` -/
example : let s := run init (demoA ++ demoB)
    ReachableX s ∧ s.thr 2 = .sLoad true ∧ s.consTail = 1 ∧ s.thr 1 = .pPublish 1 ∧
    RunOk (step s 2) (demoC ++ demoD ++ [.step 6] ++ demoE) ∧
    (getSub (run (step s 2) demoC) 0).kind = .fixed 1 ∧ 0 < (run (step s 2) demoC).subs.length := by
  intro s
  have hr : ReachableX s := demo_reachable _ (by decide)
  refine ⟨hr, by decide, by decide, by decide, ?_, by decide, by decide⟩
  have : RunOk init ((demoA ++ demoB ++ [.step 2]) ++ (demoC ++ demoD ++ [.step 6] ++ demoE)) :=
    runOk_of_owned demoOwner _ (owned_of_check (by decide))
  rw [runOk_append] at this
  exact this.2

/-- the old half answers `none` (thread 3 at `cRecede 0 1`, `1 = tl`) -/
example : let s := run init (demoA ++ demoB ++ [.step 2, .ack 2, .step 1, .ack 1,
      .poll 3 0, .step 3, .step 3, .ack 3, .poll 3 0, .step 3])
    ReachableX s ∧ s.thr 3 = .cRecede 0 1 ∧ s.delivered = [(0, 0, 10)] :=
  ⟨demo_reachable _ (by decide), by decide, by decide⟩

/-- hypotheses of `c09_joined_replay`: subscriber 2 is joined, thread 5 is at its `cLoadTail` with nothing left -/
example : let s := run init (demoA ++ demoB ++ [.step 2] ++ demoC.take 30)
    ReachableX s ∧ 2 < s.subs.length ∧ (getSub s 2).kind = .dyn ∧ (getSub s 2).start = 0 ∧
    s.thr 5 = .cLoadTail 2 2 ∧ s.consTail = 2 :=
  ⟨demo_reachable _ (by decide), by decide, by decide, by decide, by decide, by decide⟩

/-- hypotheses of `c09_new_only`: the load step of thread 6 with two positions visible -/
example : let s := run init (demoA ++ demoB ++ [.step 2] ++ demoC ++ demoD)
    ReachableX s ∧ s.thr 6 = .sLoad false ∧ s.consTail = 2 ∧ RunOk (step s 6) demoE := by
  intro s
  refine ⟨demo_reachable _ (by decide), by decide, by decide, ?_⟩
  have : RunOk init ((demoA ++ demoB ++ [.step 2] ++ demoC ++ demoD ++ [.step 6]) ++ demoE) :=
    runOk_of_owned demoOwner _ (owned_of_check (by decide))
  rw [runOk_append] at this
  exact this.2

/-- hypotheses of `c09_references_stable`: a written, visible, delivered slot -/
example : let s := run init (demoA ++ demoB ++ [.step 2] ++ demoC)
    ReachableX s ∧ s.slots 1 = some 11 ∧ s.writes 1 = 1 ∧ 1 < s.consTail ∧ (1, 1, 11) ∈ s.delivered :=
  ⟨demo_reachable _ (by decide), by decide, by decide, by decide, by decide⟩

#print axioms c09_total_order
#print axioms c09_joined_replay
#print axioms c09_split_partition
#print axioms c09_split_created
#print axioms c09_new_only
#print axioms c09_references_stable

end Mutiny.MmapLog
