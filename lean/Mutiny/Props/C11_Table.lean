import Mutiny.Model.Exec
import Mutiny.Generated.ExecTable

/-!
# C11 — the per-item decision table of model M10 IS what the current source does (translator G5)

`tools/extract.py` (G5) re-reads `src/stream_executor.rs` on every run: for each `spawn_*executor` function and each of its `item_processor`
closures it walks the tree of `match` arms and instrument guards (`if Self::INSTRUMENTS.cheap_profiling()`, the guards inside the `on_*_item!`
macros) and writes every way through the closure as `(outcome path, cheap_profiling?, effects)` into `Generated/ExecTable.lean` — effects =
which event counter is fed and how the error callback is invoked — together with the arms of `match concurrency_limit`.

Here each generated table is proved EQUAL to the table computed from the model's `classify` (the function the accounting theorems of
`Props/C11.lean` are about), for every executor kind, with and without a futures timeout, with and without metrics.  A change of the source
that moves an item to another counter, feeds no counter or two, drops / adds / detaches an error-callback invocation on some branch, makes
a counter depend on another instrument bit, or hands another limit to the combinator changes the generated file and breaks an obligation
below before any workload runs.
-/

namespace Mutiny.Exec
open Mutiny.Generated.ExecTable

def counterName : Effect → String
  | .ok => "ok"
  | .failed => "failed"
  | .timedOut => "timed_out"

/-- how each executor kind invokes the error callback (awaited future / plain call / has none) -/
def errCall : Variant → String
  | .futFallible => "onErr.await"
  | .fallible => "onErr.sync"
  | _ => "-"

/-- the source-level outcome paths of a processor closure (the `Ok(..)` / `Err(..)` arms taken, outermost first, sorted) and the model
    outcome each stands for; `Err(_time_out_err)` is `tokio::time::timeout` expiring: the model's `slow` (and `slowErr`: same arm) -/
def paths : Variant → Bool → List (String × Outcome)
  | .futFallible, false => [("Err(err)", .err), ("Ok(yielded_item)", .ok)]
  | .futFallible, true  => [("Err(_time_out_err)", .slow), ("Ok(non_timed_out_result)>Err(err)", .err),
                            ("Ok(non_timed_out_result)>Ok(yielded_item)", .ok)]
  | .fut, false         => [("", .ok)]
  | .fut, true          => [("Err(_time_out_err)", .slow), ("Ok(non_timed_out_result)", .ok)]
  | .fallible, _        => [("Err(err)", .err), ("Ok(yielded_item)", .ok)]
  | .plain, _           => [("", .ok)]

/-- what `classify` says happens on one path: the counter (only with metrics) and the error callback (always) -/
def row (v : Variant) (timeout : Bool) (p : String × Outcome) (metrics : Bool) : String × Bool × List String :=
  let c := classify v timeout p.2
  (p.1, metrics, (if metrics then [counterName c.1] else []) ++ (if c.2 then [errCall v] else []))

def table (v : Variant) (timeout : Bool) : List (String × Bool × List String) :=
  (paths v timeout).flatMap fun p => [row v timeout p false, row v timeout p true]

/-! ## the obligations: generated = computed from `classify` -/

theorem tbl_futFallible_no_timeout : spawn_executor_0 = table .futFallible false := by decide
theorem tbl_futFallible_timeout    : spawn_executor_1 = table .futFallible true := by decide
theorem tbl_fut_no_timeout         : spawn_futures_executor_0 = table .fut false := by decide
theorem tbl_fut_timeout            : spawn_futures_executor_1 = table .fut true := by decide
/-- the two kinds whose items are not futures have ONE closure: a configured timeout changes nothing (`classify` ignores it for them) -/
theorem tbl_fallible : spawn_fallibles_executor_0 = table .fallible false ∧ spawn_fallibles_executor_0 = table .fallible true := by decide
theorem tbl_plain : spawn_non_futures_non_fallibles_executor_0 = table .plain false ∧
    spawn_non_futures_non_fallibles_executor_0 = table .plain true := by decide
/-- the fifth, internal kind (`spawn_non_futures_executor`, outside the property's four): fallible items counted like `fallible`, no error
    callback -/
theorem tbl_internal : spawn_non_futures_executor_0 =
    [("Err(err)", false, []), ("Err(err)", true, ["failed"]), ("Ok(yielded_item)", false, []), ("Ok(yielded_item)", true, ["ok"])] := by decide

/-- closures per function: a `Duration::ZERO` arm and a timeout arm exactly for the two kinds whose items are futures -/
theorem tbl_closures : spawn_executor_closures = 2 ∧ spawn_futures_executor_closures = 2 ∧ spawn_fallibles_executor_closures = 1 ∧
    spawn_non_futures_executor_closures = 1 ∧ spawn_non_futures_non_fallibles_executor_closures = 1 := by decide

/-- **the limit handed to the combinator is the configured one**, and `1` means `for_each` (sequential) — in every function and arm -/
theorem tbl_limit :
    spawn_executor_limit = ["1:for_each()", "_:for_each_concurrent(concurrency_limit as usize)", "1:for_each()", "_:for_each_concurrent(concurrency_limit as usize)"] ∧
    spawn_futures_executor_limit = ["1:for_each()", "_:for_each_concurrent(concurrency_limit as usize)", "1:for_each()", "_:for_each_concurrent(concurrency_limit as usize)"] ∧
    spawn_fallibles_executor_limit = ["1:for_each()", "_:for_each_concurrent(concurrency_limit as usize)"] ∧
    spawn_non_futures_executor_limit = ["1:for_each()", "_:for_each_concurrent(concurrency_limit as usize)"] ∧
    spawn_non_futures_non_fallibles_executor_limit = ["1:for_each()", "_:for_each_concurrent(concurrency_limit as usize)"] := by decide

/-! ## what the tables say, as statements about `classify` (so that the obligations above are not about an accidental encoding) -/

/-- every path of every table feeds exactly one counter with metrics, none without, and invokes the error callback exactly on the paths
    `classify` marks as failed -/
theorem table_rows (v : Variant) (timeout : Bool) (r : String × Bool × List String) (h : r ∈ table v timeout) :
    ∃ p ∈ paths v timeout, r.1 = p.1 ∧
      (r.2.1 = true → r.2.2 = counterName (classify v timeout p.2).1 :: (if (classify v timeout p.2).2 then [errCall v] else [])) ∧
      (r.2.1 = false → r.2.2 = (if (classify v timeout p.2).2 then [errCall v] else [])) := by
  simp only [table, List.mem_flatMap, List.mem_cons, List.mem_nil_iff, or_false] at h
  obtain ⟨p, hp, h | h⟩ := h <;> subst h <;> exact ⟨p, hp, rfl, by simp [row], by simp [row]⟩

/-- the paths of a table cover every admissible outcome of the kind: `slowErr` takes the arm of `slow` when a timeout is configured and the arm
    of `err` otherwise; `slow` without a timeout the arm of `ok` -/
theorem paths_cover (v : Variant) (timeout : Bool) (o : Outcome) (ha : admissible v o = true) :
    ∃ p ∈ paths v timeout, classify v timeout p.2 = classify v timeout o := by
  cases v <;> cases timeout <;> cases o <;> simp_all [admissible, paths, classify]

#print axioms tbl_futFallible_no_timeout
#print axioms tbl_futFallible_timeout
#print axioms tbl_fut_no_timeout
#print axioms tbl_fut_timeout
#print axioms tbl_fallible
#print axioms tbl_plain
#print axioms tbl_internal
#print axioms tbl_closures
#print axioms tbl_limit
#print axioms table_rows
#print axioms paths_cover

end Mutiny.Exec
