import Mutiny.Proofs.ZeroCopyRoom

/-!
# C13 / C01 / C16 / C18 for the composed zero-copy container (model M4 `ZeroCopy`)

`AtomicZeroCopy` = pool + free-list ring (`OgreArrayPoolAllocator<_, AtomicMove<u32,N>, N>`) + ring of slot ids
(`AtomicMove<u32,N>`), composed at the granularity of every shared-memory access of both rings
(`Mutiny/Model/ZeroCopy.lean`; the driver replays the recorded traces of the real atomic `NonBlockingQueue` on it).
These theorems are about EVERY reachable state of that composition — any number of threads, any schedule, any history:

* both component rings satisfy the ring invariant (so C01/C02/C16/C20 of M1 hold for the free list and for the queue of ids);
* **slot conservation**: the ids in the free list and in the queue are pairwise distinct and `< N`, a slot a thread holds
  (allocated and not yet published, or dequeued and not yet given back) is in neither ring, and no two threads hold the same slot
  — a slot has at most one owner (C13), a payload is never reachable from two places (C01/C05);
* **the rings always have room** (pigeonhole over the conserved slots): `ring.publish(id)` never answers full — the
  `panic!("BUG…")` / `unwrap` branches of the callers are unreachable — and `dealloc` never finds the free list full (the ignored
  result of `publish_movable` in `dealloc_id` is safe);
* consequently `enqueue` answers *full* only when the free list answered *empty* (C16, C18: slots held by operations in progress
  count as taken).
-/

namespace Mutiny.ZeroCopy
open Mutiny

/-- both rings inside the container satisfy the invariant of ring model M1 -/
theorem zc_components_inv {n : Nat} (hn : 0 < n) {s : St} (h : Reachable n s) : Ring.Inv s.free ∧ Ring.Inv s.q :=
  components_inv hn h

/-- slot conservation (see the header) -/
theorem zc_slot_conservation {n : Nat} (hn : 0 < n) {s : St} (h : Reachable n s) :
    (Ring.abs s.free ++ Ring.abs s.q).Nodup ∧
    (∀ x, x ∈ Ring.abs s.free ++ Ring.abs s.q → x < s.N) ∧
    (∀ t id, held (s.thr t) id → id < s.N ∧ id ∉ Ring.abs s.free ∧ id ∉ Ring.abs s.q) ∧
    (∀ t t' id, held (s.thr t) id → held (s.thr t') id → t = t') := by
  have z := (zinv_reachable hn h).tok
  refine ⟨z.nodup, z.range, fun t id hh => ⟨z.hRange t id hh, ?_, ?_⟩, z.hUniq⟩
  · exact fun hm => z.hFresh t id hh (List.mem_append_left _ hm)
  · exact fun hm => z.hFresh t id hh (List.mem_append_right _ hm)

/-- C13: a slot that some thread holds is not in the free list, hence cannot be handed out by an allocation: `alloc` only
    ever returns the front of the free list (`consumer_step`) -/
theorem zc_no_double_alloc {n : Nat} (hn : 0 < n) {s : St} (h : Reachable n s) (t u v id : Nat)
    (hu : held (s.thr u) id) (hz : s.thr t = .eAlloc v) :
    (step s t).thr t ≠ .ePub v id := by
  have z := zinv_reachable hn h
  have hph := z.phase t
  simp only [hz, phaseOk] at hph
  intro e
  rcases consumer_step s.free t z.fInv hph.1 with ⟨id', hd, ha⟩ | ⟨hd, -⟩ | ⟨hc, -⟩
  · simp only [step, hz, hd, thr_setThr, if_true, ZLoc.ePub.injEq] at e
    have : id' ∈ Ring.abs s.free := by rw [ha]; simp
    exact z.tok.hFresh u id hu (List.mem_append_left _ (e.2 ▸ this))
  · simp [step, hz, hd] at e
  · have hnd : ∀ r, (Ring.step s.free t).thr t ≠ .done r := by intro r e; rw [e] at hc; exact hc
    simp only [step, hz] at e
    split at e
    · next _ e' => exact hnd _ e'
    · next e' => exact hnd _ e'
    · simp [hz] at e

/-- the queue of ids always has room for every slot that exists -/
theorem zc_queue_room {n : Nat} (hn : 0 < n) {s : St} (h : Reachable n s) : s.q.enqTail ≤ s.q.head + s.N :=
  q_room s (zinv_reachable hn h)

theorem zc_free_list_room {n : Nat} (hn : 0 < n) {s : St} (h : Reachable n s) : s.free.enqTail ≤ s.free.head + s.N :=
  f_room s (zinv_reachable hn h)

/-- `ring.publish(id)` of an enqueue never answers full: the `BUG` branch of the callers is unreachable -/
theorem zc_publish_never_full {n : Nat} (hn : 0 < n) {s : St} (h : Reachable n s) (t v id : Nat) (hz : s.thr t = .ePub v id) :
    (Ring.step s.q t).thr t ≠ .done .full := by
  obtain ⟨z, _, hq⟩ := reachable_norec hn h
  have hph := z.phase t
  simp only [hz, phaseOk] at hph
  intro e
  rcases producer_step s.q t id z.qInv hph.2 with ⟨len, hd, -⟩ | ⟨-, -, w, k, b, hr, -⟩ | ⟨hc, -⟩
  · rw [hd] at e; cases e
  · exact hq t _ _ _ _ hr
  · rw [e] at hc; exact hc

/-- `dealloc_id` never finds the free list full -/
theorem zc_dealloc_never_full {n : Nat} (hn : 0 < n) {s : St} (h : Reachable n s) (t id v : Nat) (hz : s.thr t = .dFree id v) :
    (Ring.step s.free t).thr t ≠ .done .full := by
  obtain ⟨z, hf, _⟩ := reachable_norec hn h
  have hph := z.phase t
  simp only [hz, phaseOk] at hph
  intro e
  rcases producer_step s.free t id z.fInv hph.1 with ⟨len, hd, -⟩ | ⟨-, -, w, k, b, hr, -⟩ | ⟨hc, -⟩
  · rw [hd] at e; cases e
  · exact hf t _ _ _ _ hr
  · rw [e] at hc; exact hc

/-- C16 / C18: the only way an `enqueue` comes to answer *full* is the pool's free list answering *empty* in this very step
    (by C02's witness for `empty`, at some instant of the call every slot was in the queue or in some thread's hands) -/
theorem zc_full_only_if_pool_exhausted {n : Nat} (hn : 0 < n) {s : St} (h : Reachable n s) (t : Nat)
    (hnew : (step s t).thr t = .done .full) (hold : s.thr t ≠ .done .full) :
    ∃ v, s.thr t = .eAlloc v ∧ (Ring.step s.free t).thr t = .done .empty := by
  cases hz : s.thr t with
  | eAlloc v =>
    refine ⟨v, rfl, ?_⟩
    simp only [step, hz] at hnew
    split at hnew
    · simp at hnew
    · next e => exact e
    · simp [hz] at hnew
  | ePub v id =>
    exfalso
    have hnf := zc_publish_never_full hn h t v id hz
    simp only [step, hz] at hnew
    split at hnew
    · simp at hnew
    · next e => exact hnf e
    · simp [hz] at hnew
  | done r => simp only [step, hz] at hnew; exact absurd (hz.trans hnew) hold
  | idle => simp [step, hz] at hnew
  | dCons => simp only [step, hz] at hnew; split at hnew <;> simp [hz] at hnew
  | dLen id => simp [step, hz] at hnew
  | dDrop id v => simp [step, hz] at hnew
  | dFreeHook id v => simp [step, hz] at hnew
  | dFree id v => simp only [step, hz] at hnew; split at hnew <;> simp [hz] at hnew
  | lLen => simp [step, hz] at hnew

/-! ## non-vacuity: a reachable state in which a slot is held, one is queued, and the free list holds the rest -/

def demoRun : List Act :=
  [.enqueue 0 7, .step 0, .step 0, .step 0, .step 0, .step 0, .step 0, .step 0, .step 0, .ack 0,
   .enqueue 1 8, .step 1, .step 1, .step 1, .step 1]

example : let s := run (init 4) demoRun
    Ring.abs s.free = [2, 3] ∧ Ring.abs s.q = [0] ∧ s.thr 1 = .ePub 8 1 ∧ s.pool 0 = 7 ∧ s.pool 1 = 8 := by decide

#print axioms zc_components_inv
#print axioms zc_slot_conservation
#print axioms zc_no_double_alloc
#print axioms zc_queue_room
#print axioms zc_free_list_room
#print axioms zc_publish_never_full
#print axioms zc_dealloc_never_full
#print axioms zc_full_only_if_pool_exhausted

end Mutiny.ZeroCopy
