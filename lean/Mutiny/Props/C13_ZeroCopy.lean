import Mutiny.Proofs.ZeroCopyRoom
import Mutiny.Proofs.ZeroCopyValues

/-!
# C13 / C01 / C16 / C18 for the composed zero-copy container (model M4 `ZeroCopy`)

`AtomicZeroCopy` = pool + free-list ring (`OgreArrayPoolAllocator<_, AtomicMove<u32,N>, N>`) + ring of slot ids
(`AtomicMove<u32,N>`), composed at the granularity of every shared-memory access of both rings
(`Mutiny/Model/ZeroCopy.lean`; the driver replays the recorded traces of the real atomic `NonBlockingQueue` on it).
These theorems are about EVERY reachable state of that composition — any number of threads, any schedule, any history:

* both component rings satisfy the ring invariant (so C01/C02/C16/C20 of M1 hold for the free list and for the queue of ids);
* **slot conservation**: the ids in the free list and in the queue are pairwise distinct and `< N`, a slot a thread holds
  (allocated and not yet published, or dequeued and not yet given back) is in neither ring, and no two threads hold the same slot
  — a slot has at most one owner (C13), a payload is never reachable from two places (C01/C05);
* **the rings always have room** (pigeonhole over the conserved slots): `ring.publish(id)` never answers full — the
  `panic!("BUG…")` / `unwrap` branches of the callers are unreachable — and `dealloc` never finds the free list full (the ignored
  result of `publish_movable` in `dealloc_id` is safe);
* consequently `enqueue` answers *full* only when the free list answered *empty* (C16, C18: slots held by operations in progress
  count as taken);
* **values**: a slot's content changes only at the instant it is allocated from the free list — never while it is queued or in
  somebody's hands (C05 "storage never reused while held", C14 "deref stable"); the accepted values are the dequeued ones, in
  queue order, followed by the values now queued — the container is a FIFO of the VALUES, and each dequeue takes the oldest
  one (C01 payload exactness, C02 / C18 order, at the level of the composed container).
-/

namespace Mutiny.ZeroCopy
open Mutiny

/-- both rings inside the container satisfy the invariant of ring model M1 -/
theorem zc_components_inv {n : Nat} (hn : 0 < n) {s : St} (h : Reachable n s) : Ring.Inv s.free ∧ Ring.Inv s.q :=
  components_inv hn h

/-- slot conservation (see the header) -/
theorem zc_slot_conservation {n : Nat} (hn : 0 < n) {s : St} (h : Reachable n s) :
    (Ring.abs s.free ++ Ring.abs s.q).Nodup ∧
    (∀ x, x ∈ Ring.abs s.free ++ Ring.abs s.q → x < s.N) ∧
    (∀ t id, held (s.thr t) id → id < s.N ∧ id ∉ Ring.abs s.free ∧ id ∉ Ring.abs s.q) ∧
    (∀ t t' id, held (s.thr t) id → held (s.thr t') id → t = t') := by
  have z := (zinv_reachable hn h).tok
  refine ⟨z.nodup, z.range, fun t id hh => ⟨z.hRange t id hh, ?_, ?_⟩, z.hUniq⟩
  · exact fun hm => z.hFresh t id hh (List.mem_append_left _ hm)
  · exact fun hm => z.hFresh t id hh (List.mem_append_right _ hm)

/-- C13: a slot that some thread holds is not in the free list, hence cannot be handed out by an allocation: `alloc` only
    ever returns the front of the free list (`consumer_step`) -/
theorem zc_no_double_alloc {n : Nat} (hn : 0 < n) {s : St} (h : Reachable n s) (t u v id : Nat)
    (hu : held (s.thr u) id) (hz : s.thr t = .eAlloc v) :
    (step s t).thr t ≠ .ePub v id := by
  have z := zinv_reachable hn h
  have hph := z.phase t
  simp only [hz, phaseOk] at hph
  intro e
  rcases consumer_step s.free t z.fInv hph.1 with ⟨id', hd, ha⟩ | ⟨hd, -⟩ | ⟨hc, -⟩
  · simp only [step, hz, hd, thr_setThr, if_true, ZLoc.ePub.injEq] at e
    have : id' ∈ Ring.abs s.free := by rw [ha]; simp
    exact z.tok.hFresh u id hu (List.mem_append_left _ (e.2 ▸ this))
  · simp [step, hz, hd] at e
  · have hnd : ∀ r, (Ring.step s.free t).thr t ≠ .done r := by intro r e; rw [e] at hc; exact hc
    simp only [step, hz] at e
    split at e
    · next _ e' => exact hnd _ e'
    · next e' => exact hnd _ e'
    · simp [hz] at e

/-- the queue of ids always has room for every slot that exists -/
theorem zc_queue_room {n : Nat} (hn : 0 < n) {s : St} (h : Reachable n s) : s.q.enqTail ≤ s.q.head + s.N :=
  q_room s (zinv_reachable hn h)

theorem zc_free_list_room {n : Nat} (hn : 0 < n) {s : St} (h : Reachable n s) : s.free.enqTail ≤ s.free.head + s.N :=
  f_room s (zinv_reachable hn h)

/-- `ring.publish(id)` of an enqueue never answers full: the `BUG` branch of the callers is unreachable -/
theorem zc_publish_never_full {n : Nat} (hn : 0 < n) {s : St} (h : Reachable n s) (t v id : Nat) (hz : s.thr t = .ePub v id) :
    (Ring.step s.q t).thr t ≠ .done .full := by
  obtain ⟨z, _, hq⟩ := reachable_norec hn h
  have hph := z.phase t
  simp only [hz, phaseOk] at hph
  intro e
  rcases producer_step s.q t id z.qInv hph.2 with ⟨len, hd, -⟩ | ⟨-, -, w, k, b, hr, -⟩ | ⟨hc, -⟩
  · rw [hd] at e; cases e
  · exact hq t _ _ _ _ hr
  · rw [e] at hc; exact hc

/-- `dealloc_id` never finds the free list full -/
theorem zc_dealloc_never_full {n : Nat} (hn : 0 < n) {s : St} (h : Reachable n s) (t id v : Nat) (hz : s.thr t = .dFree id v) :
    (Ring.step s.free t).thr t ≠ .done .full := by
  obtain ⟨z, hf, _⟩ := reachable_norec hn h
  have hph := z.phase t
  simp only [hz, phaseOk] at hph
  intro e
  rcases producer_step s.free t id z.fInv hph.1 with ⟨len, hd, -⟩ | ⟨-, -, w, k, b, hr, -⟩ | ⟨hc, -⟩
  · rw [hd] at e; cases e
  · exact hf t _ _ _ _ hr
  · rw [e] at hc; exact hc

/-- C16 / C18: the only way an `enqueue` comes to answer *full* is the pool's free list answering *empty* in this very step
    (by C02's witness for `empty`, at some instant of the call every slot was in the queue or in some thread's hands) -/
theorem zc_full_only_if_pool_exhausted {n : Nat} (hn : 0 < n) {s : St} (h : Reachable n s) (t : Nat)
    (hnew : (step s t).thr t = .done .full) (hold : s.thr t ≠ .done .full) :
    ∃ v, s.thr t = .eAlloc v ∧ (Ring.step s.free t).thr t = .done .empty := by
  cases hz : s.thr t with
  | eAlloc v =>
    refine ⟨v, rfl, ?_⟩
    simp only [step, hz] at hnew
    split at hnew
    · simp at hnew
    · next e => exact e
    · simp [hz] at hnew
  | ePub v id =>
    exfalso
    have hnf := zc_publish_never_full hn h t v id hz
    simp only [step, hz] at hnew
    split at hnew
    · simp at hnew
    · next e => exact hnf e
    · simp [hz] at hnew
  | done r => simp only [step, hz] at hnew; exact absurd (hz.trans hnew) hold
  | idle => simp [step, hz] at hnew
  | dCons => simp only [step, hz] at hnew; split at hnew <;> simp [hz] at hnew
  | dLen id => simp [step, hz] at hnew
  | dLenH id => simp [step, hz] at hnew
  | dDrop id v => simp [step, hz] at hnew
  | dFreeHook id v => simp [step, hz] at hnew
  | dFree id v => simp only [step, hz] at hnew; split at hnew <;> simp [hz] at hnew
  | ePubLen v => simp only [step, hz] at hnew; split at hnew <;> simp [hz] at hnew
  | dFreeLen v => simp only [step, hz] at hnew; split at hnew <;> simp [hz] at hnew
  | lLen => simp [step, hz] at hnew
  | lLenH tl => simp [step, hz] at hnew


/-! ## values -/

/-- a slot's content is written only at the instant the slot leaves the free list (by conservation: it is then in nobody's
    hands and not in the queue) — never while it is queued or held -/
theorem zc_pool_stable {n : Nat} (hn : 0 < n) {s : St} (h : Reachable n s) (t id : Nat)
    (hc : (step s t).pool id ≠ s.pool id) : id ∈ Ring.abs s.free ∧ id ∉ Ring.abs s.q ∧ ∀ u, ¬ held (s.thr u) id := by
  have z := zinv_reachable hn h
  have hph := z.phase t
  have hfree : id ∈ Ring.abs s.free := by
    cases hz : s.thr t with
    | eAlloc w =>
      simp only [hz, phaseOk] at hph
      rcases consumer_step s.free t z.fInv hph.1 with ⟨id', hd, ha⟩ | ⟨hd, ha⟩ | ⟨hcl, ha⟩
      · simp only [step, hz, hd] at hc
        by_cases e : id = id'
        · subst e; rw [ha]; simp
        · exact absurd (by simp [setThr, e]) hc
      · simp [step, hz, hd, setThr] at hc
      · have hnd : ∀ r, (Ring.step s.free t).thr t ≠ .done r := by intro r e; rw [e] at hcl; exact hcl
        simp only [step, hz] at hc
        split at hc
        · next _ e => exact absurd e (hnd _)
        · next e => exact absurd e (hnd _)
        · exact absurd rfl hc
    | ePub w id' => simp only [step, hz] at hc; split at hc <;> exact absurd rfl hc
    | dCons => simp only [step, hz] at hc; split at hc <;> exact absurd rfl hc
    | dFree id' w => simp only [step, hz] at hc; split at hc <;> exact absurd rfl hc
    | ePubLen w => simp only [step, hz] at hc; split at hc <;> exact absurd rfl hc
    | dFreeLen w => simp only [step, hz] at hc; split at hc <;> exact absurd rfl hc
    | _ => simp [step, hz, setThr] at hc
  refine ⟨hfree, ?_, ?_⟩
  · intro hq
    exact (List.nodup_append.mp z.tok.nodup).2.2 id hfree id hq rfl
  · intro u hu
    exact z.tok.hFresh u id hu (List.mem_append_left _ hfree)

/-- the container is a FIFO of the VALUES: accepted values = dequeued values (in queue order) ++ values now queued -/
theorem zc_value_fifo {n : Nat} (hn : 0 < n) {s : St} (h : Reachable n s) : ∃ d, s.enqLog = d ++ abs s :=
  (vinv_reachable hn h).2.fifo

/-- a dequeue takes the OLDEST queued value: at the step in which the queue of ids hands slot `id` to thread `t`, the value in
    that slot is the front of the value queue, and the rest of the queue is unchanged -/
theorem zc_dequeue_takes_oldest {n : Nat} (hn : 0 < n) {s : St} (h : Reachable n s) (t id : Nat) (hz : s.thr t = .dCons)
    (hg : (Ring.step s.q t).thr t = .done (.got id)) :
    abs s = s.pool id :: abs (step s t) ∧ (step s t).thr t = .dLen id := by
  have z := zinv_reachable hn h
  have hph := z.phase t
  simp only [hz, phaseOk] at hph
  rcases consumer_step s.q t z.qInv hph.2 with ⟨id', hd, ha⟩ | ⟨hd, -⟩ | ⟨hc, -⟩
  · have e : id' = id := by rw [hd] at hg; cases hg; rfl
    subst e
    simp only [step, hz, hd, abs]
    refine ⟨?_, by simp⟩
    show (Ring.abs s.q).map s.pool = s.pool id' :: (Ring.abs (Ring.apply (Ring.step s.q t) (.ack t))).map s.pool
    rw [ring_abs_apply _ _ (by intro u e; cases e), ha, List.map_cons]
  · rw [hd] at hg; cases hg
  · rw [hg] at hc; exact absurd hc (by simp [ConsLoc])

/-- … and what the dequeue finally returns is the content of that slot (read at `dLenH`, after the two loads of the length query; unchanged since by `zc_pool_stable`) -/
theorem zc_dequeue_returns_slot_content (s : St) (t id : Nat) (hz : s.thr t = .dLenH id) :
    (step s t).thr t = .dDrop id (s.pool id) ∧ (step s t).deqLog = s.deqLog ++ [s.pool id] := by
  simp [step, hz, setThr]

/-! ## non-vacuity: a reachable state in which a slot is held, one is queued, and the free list holds the rest -/

def demoRun : List Act :=
  [.enqueue 0 7, .step 0, .step 0, .step 0, .step 0, .step 0, .step 0, .step 0, .step 0, .ack 0,
   .enqueue 1 8, .step 1, .step 1, .step 1, .step 1]

example : let s := run (init 4) demoRun
    Ring.abs s.free = [2, 3] ∧ Ring.abs s.q = [0] ∧ s.thr 1 = .ePub 8 1 ∧ s.pool 0 = 7 ∧ s.pool 1 = 8 := by decide

#print axioms zc_components_inv
#print axioms zc_slot_conservation
#print axioms zc_no_double_alloc
#print axioms zc_queue_room
#print axioms zc_free_list_room
#print axioms zc_publish_never_full
#print axioms zc_dealloc_never_full
#print axioms zc_full_only_if_pool_exhausted
#print axioms zc_pool_stable
#print axioms zc_value_fifo
#print axioms zc_dequeue_takes_oldest
#print axioms zc_dequeue_returns_slot_content

end Mutiny.ZeroCopy
