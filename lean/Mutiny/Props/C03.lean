import Mutiny.Proofs.MultiFan

/-!
# C03 — every listener of a Multi channel receives every event exactly once, in publication order

Model M6 + M7 (`Mutiny/Model/Multi.lean`), both fan-out flavours (`arc`, `ogreArc`).  Scope: any quiescent well-formed
state `s₀` (`WF`, e.g. the result of any legal sequential set-up, `c10_bookkeeping`), followed by ANY execution `as` made
of `.send`, `.poll`, `.release`, `.cancel`, `.step`, `.ack` actions (`FanAct`: no `create`, no `drop`) — any number of producer and
consumer threads, any interleaving of their micro-steps, any length.  The listener set is `L = s₀.live`.
The events passed to `.send` are pairwise distinct (`(sendEvs as).Nodup`); they are identities of payloads.
`P`, `S`, `D` below are what the execution appended to the ghost logs `pubs`, `sent`, `delivered` of `s₀`.

What happens when `create` / `drop` run concurrently with a send is C17 (`Mutiny/Props/C17.lean`): the claims fail.
-/

namespace Mutiny.Multi

/-- **C03 (frame).**  Without `create` / `drop` nothing of the bookkeeping ever changes — `used`, `count`, `vacant`,
    `live`, the lock, the incarnations — and no thread is ever inside `create`, `drop` or `sync`; `keep j` is cleared by
    `.cancel j` (`cancel_stream`) and otherwise never changes: cancelling a listener does not take it out of the fan-out.
    (No hypothesis on the events.) -/
theorem c03_frame (s₀ : St) (hw : WF s₀) (as : List Act) (hfa : ∀ a ∈ as, FanAct a) :
    let s := run s₀ as
    s.MAX = s₀.MAX ∧ s.used = s₀.used ∧ s.count = s₀.count ∧ s.vacant = s₀.vacant ∧ s.live = s₀.live ∧
      s.slock = s₀.slock ∧ (∀ j, s.keep j = if j ∈ cancelIds as then false else s₀.keep j) ∧ s.inc = s₀.inc ∧
      s.flavor = s₀.flavor ∧ s.N = s₀.N ∧ s.drains = s₀.drains ∧ (∀ t, FanLoc (s.thr t)) := by
  intro s
  have hl0 : ∀ u, FanLoc (s₀.thr u) := fun u => by rw [hw.idle u]; trivial
  obtain ⟨h1, h2⟩ := frame_run as hfa (s := s₀) hl0
  simp only [frameOf, Prod.mk.injEq] at h1
  obtain ⟨a, b, c, d, e, f, g, i, j, k⟩ := h1
  exact ⟨a, f, g, e, j, i, keep_run as hfa hl0, k, c, b, d, h2⟩

/-- **C03 (exact fan-out).**  For every event whose send completed (`ev ∈ S`) and every listener `l ∈ L`, `(ev, l)` was
    published exactly once, and never for `l ∉ L`; for a send still in progress (or rejected: pool full) every `(ev, l)`
    was published at most once and only for `l ∈ L`; only events passed to `.send` are ever published. -/
theorem c03_fanout_exact (s₀ : St) (hw : WF s₀) (as : List Act) (hfa : ∀ a ∈ as, FanAct a)
    (hnd : (sendEvs as).Nodup) :
    let s := run s₀ as
    ∃ P S, s.pubs = s₀.pubs ++ P ∧ s.sent = s₀.sent ++ S ∧
      (∀ ev ∈ S, ∀ l, P.count (ev, l) = if l ∈ s₀.live then 1 else 0) ∧
      (∀ ev l, P.count (ev, l) ≤ 1) ∧
      (∀ ev l, l ∉ s₀.live → (ev, l) ∉ P) ∧
      (∀ x ∈ P, x.1 ∈ sendEvs as) ∧ (∀ ev ∈ S, ev ∈ sendEvs as) := by
  intro s
  obtain ⟨P, S, D, h⟩ := fan_run_wf' hw as hfa hnd
  exact ⟨P, S, h.pubsEq, h.sentEq, fun ev he l => h.count_done hw he l, h.count_le_one,
    fun ev l hl => h.not_mem_of_not_live hw hl, fun x hx => h.core.mem_E hx, fun ev he => (h.core.fin ev he).1⟩

/-- a completed send served the listeners in ascending id order; a send in progress has served a prefix of them -/
theorem c03_fanout_prefix (s₀ : St) (hw : WF s₀) (as : List Act) (hfa : ∀ a ∈ as, FanAct a)
    (hnd : (sendEvs as).Nodup) :
    let s := run s₀ as
    ∃ P S, s.pubs = s₀.pubs ++ P ∧ s.sent = s₀.sent ++ S ∧
      (∀ ev ∈ S, pubsOf P ev = usedIds s₀.MAX s₀.vacant) ∧
      (∀ ev, ∃ i, pubsOf P ev = (usedIds s₀.MAX s₀.vacant).take i) ∧
      (usedIds s₀.MAX s₀.vacant).Perm s₀.live := by
  intro s
  obtain ⟨P, S, D, h⟩ := fan_run_wf' hw as hfa hnd
  exact ⟨P, S, h.pubsEq, h.sentEq, fun ev he => (h.core.fin ev he).2,
    fun ev => (h.core.pubsOf_cases ev).imp (fun i hi => hi.2), hw.usedIds_perm⟩

/-- **C03 (listener order).**  For every listener `l`: the events delivered to `l` followed by the events still queued
    for `l` are the events that were queued at the start followed by the events published to `l`, in publication order.
    So each listener receives exactly what was published to it — nothing else, nothing twice, nothing reordered.
    (No hypothesis on the events.) -/
theorem c03_listener_order (s₀ : St) (hw : WF s₀) (as : List Act) (hfa : ∀ a ∈ as, FanAct a) :
    let s := run s₀ as
    ∃ P D, s.pubs = s₀.pubs ++ P ∧ s.delivered = s₀.delivered ++ D ∧
      ∀ l, dlvOf D l ++ s.queues l = s₀.queues l ++ pubsTo P l := by
  intro s
  obtain ⟨P, D, h1, h2, h3⟩ := order_run (s₀ := s₀) as (s := s₀) (P := []) (D := []) hfa
    (fun u => by rw [hw.idle u]; trivial) (by simp) (by simp) (by simp)
  exact ⟨P, D, by simpa using h1, by simpa using h2, by simpa using h3⟩

/-- **C03 (producer order, real time).**  If the send of `ev₁` completed before the send of `ev₂` was invoked, then
    every publication of `ev₁` precedes every publication of `ev₂`; with `c03_listener_order` every listener receives
    `ev₁` before `ev₂`.  (Two sends of ONE thread are always in this relation: `c03_thread_order`.) -/
theorem c03_producer_order (s₀ : St) (hw : WF s₀) (as₁ as₂ : List Act) (hfa : ∀ a ∈ as₁ ++ as₂, FanAct a)
    (hnd : (sendEvs (as₁ ++ as₂)).Nodup) :
    ∃ P₁ P₂ S₁, (run s₀ as₁).pubs = s₀.pubs ++ P₁ ∧ (run s₀ (as₁ ++ as₂)).pubs = s₀.pubs ++ (P₁ ++ P₂) ∧
      (run s₀ as₁).sent = s₀.sent ++ S₁ ∧
      (∀ ev₁ ∈ S₁, ∀ l, (ev₁, l) ∉ P₂) ∧ (∀ ev₂ ∈ sendEvs as₂, ∀ l, (ev₂, l) ∉ P₁) := by
  obtain ⟨P₁, S₁, D₁, P₂, S₂, D₂, h1, h2⟩ := fan_split hw as₁ as₂ hfa hnd
  refine ⟨P₁, P₂, S₁, h1.pubsEq, h2.pubsEq, h1.sentEq, ?_, ?_⟩
  · intro ev he l hm
    have e1 := (h1.core.fin ev he).2
    have e2 := (h2.core.fin ev (by simp [he])).2
    rw [pubsOf_append, e1] at e2
    have : pubsOf P₂ ev = [] := by
      have := congrArg List.length e2
      simpa using this
    have hm' := mem_pubsOf.2 hm
    rw [this] at hm'
    cases hm'
  · intro ev he l hm
    rw [sendEvs_append] at hnd
    have hfr : ev ∉ sendEvs as₁ := fun h => (List.nodup_append.1 hnd).2.2 ev h ev he rfl
    have := (h1.core.fresh hfr).2.2
    have hm' := mem_pubsOf.2 hm
    rw [this] at hm'
    cases hm'

/-- **C03 (one producer thread).**  Two `.send` actions of the same thread `t`, `ev₁` first: every publication of `ev₁`
    precedes every publication of `ev₂` (to any listener): the publications split as `P₁ ++ P₂` at the second `.send`
    with no `ev₂` in `P₁`, and no `ev₁` in `P₂` — or no `ev₂` at all, when the second `.send` found the thread still busy
    with the first call and therefore had no effect.  With `c03_listener_order`: every listener receives the events of one
    producer thread in that thread's call order. -/
theorem c03_thread_order (s₀ : St) (hw : WF s₀) (t ev₁ ev₂ : Nat) (as₁ as₂ as₃ : List Act)
    (hfa : ∀ a ∈ (as₁ ++ .send t ev₁ :: as₂) ++ .send t ev₂ :: as₃, FanAct a)
    (hnd : (sendEvs ((as₁ ++ .send t ev₁ :: as₂) ++ .send t ev₂ :: as₃)).Nodup) :
    ∃ P₁ P₂, (run s₀ (as₁ ++ .send t ev₁ :: as₂)).pubs = s₀.pubs ++ P₁ ∧
      (run s₀ ((as₁ ++ .send t ev₁ :: as₂) ++ .send t ev₂ :: as₃)).pubs = s₀.pubs ++ (P₁ ++ P₂) ∧
      (∀ l, (ev₂, l) ∉ P₁) ∧ ((∀ l, (ev₁, l) ∉ P₂) ∨ (∀ l, (ev₂, l) ∉ P₁ ++ P₂)) := by
  obtain ⟨P₁, S₁, D₁, P₂, S₂, D₂, h1, h2⟩ := fan_split hw _ _ hfa hnd
  have hnd' := hnd
  rw [sendEvs_append] at hnd'
  obtain ⟨nd1, nd2, nd3⟩ := List.nodup_append.1 hnd'
  have hfa1 : ∀ a ∈ as₁ ++ .send t ev₁ :: as₂, FanAct a := fun a ha => hfa a (by simp only [List.mem_append]; exact .inl (List.mem_append.1 ha))
  have hfa3 : ∀ a ∈ as₃, FanAct a := fun a ha => hfa a (by simp [ha])
  have hloc0 : ∀ u, FanLoc (s₀.thr u) := fun u => by rw [hw.idle u]; trivial
  have hlocm := (frame_run _ hfa1 hloc0).2
  have he1 : ev₁ ∈ sendEvs (as₁ ++ .send t ev₁ :: as₂) := mem_sendEvs_of_mem (u := t) (by simp)
  have he2 : ev₂ ∈ sendEvs (.send t ev₂ :: as₃) := mem_sendEvs_of_mem (u := t) (by simp)
  have hfr2 : ev₂ ∉ sendEvs (as₁ ++ .send t ev₁ :: as₂) := fun h => nd3 ev₂ h ev₂ he2 rfl
  have hne1 : ev₁ ∉ sendEvs (.send t ev₂ :: as₃) := fun h => nd3 ev₁ he1 ev₁ h rfl
  obtain ⟨f1, f2, f3⟩ := h1.core.fresh hfr2
  refine ⟨P₁, P₂, h1.pubsEq, h2.pubsEq, fun l hm => ?_, ?_⟩
  · have hm' := mem_pubsOf.2 hm
    rw [f3] at hm'; cases hm'
  · -- the three fates of `ev₁` at the moment of the second `.send`
    by_cases hs : ev₁ ∈ S₁
    · left
      intro l hm
      have e1 := (h1.core.fin ev₁ hs).2
      have e2 := (h2.core.fin ev₁ (by simp [hs])).2
      rw [pubsOf_append, e1] at e2
      have : pubsOf P₂ ev₁ = [] := by
        have := congrArg List.length e2
        simpa using this
      have hm' := mem_pubsOf.2 hm
      rw [this] at hm'; cases hm'
    · by_cases ha : ∃ u i, prog ((run s₀ (as₁ ++ .send t ev₁ :: as₂)).thr u) = some (ev₁, i)
      · -- still being sent — by `t` itself: the second `.send` has no effect, `ev₂` is never published
        right
        obtain ⟨u, i, hu⟩ := ha
        have hown := own_run _ (s := s₀) (A := []) hfa1 hloc0 (fun t e i h => by rw [hw.idle t] at h; cases h) u ev₁ i hu
        have hown' : Act.send u ev₁ ∈ as₁ ++ .send t ev₁ :: as₂ := by simpa using hown
        have hut : u = t := send_unique (e := ev₁) nd1 hown' (by simp)
        subst hut
        have hnoop : apply (run s₀ (as₁ ++ .send u ev₁ :: as₂)) (.send u ev₂) = run s₀ (as₁ ++ .send u ev₁ :: as₂) := by
          have : (run s₀ (as₁ ++ .send u ev₁ :: as₂)).thr u ≠ .idle := by
            intro h; rw [h] at hu; cases hu
          simp only [apply, if_neg this]
        have hne3 : ev₂ ∉ sendEvs as₃ := by
          rw [sendEvs_cons, List.nodup_append] at nd2
          exact fun h => nd2.2.2 ev₂ (by simp [sendOf]) ev₂ h rfl
        obtain ⟨q1, S', q2, q3⟩ := quiet_run ev₂ as₃ hfa3 hlocm f2 hne3
        have hrun : run s₀ ((as₁ ++ .send u ev₁ :: as₂) ++ .send u ev₂ :: as₃) =
            run (run s₀ (as₁ ++ .send u ev₁ :: as₂)) as₃ := by
          rw [run_append, run_cons, hnoop]
        rw [← hrun] at q1 q2
        have hS : S₂ = S' := by
          have := h2.sentEq
          rw [q2, h1.sentEq, List.append_assoc] at this
          exact (List.append_cancel_left (List.append_cancel_left this)).symm
        have hn2 : ev₂ ∉ S₁ ++ S₂ := by
          rw [hS]; intro h
          rcases List.mem_append.1 h with h | h
          · exact f1 h
          · exact q3 h
        have := h2.core.oth ev₂ hn2 q1
        intro l hm
        have hm' := mem_pubsOf.2 hm
        rw [this] at hm'; cases hm'
      · -- never started (thread busy or pool full): `ev₁` is never published at all
        left
        have hq : ∀ u i, prog ((run s₀ (as₁ ++ .send t ev₁ :: as₂)).thr u) ≠ some (ev₁, i) :=
          fun u i h => ha ⟨u, i, h⟩
        obtain ⟨q1, S', q2, q3⟩ := quiet_run ev₁ (.send t ev₂ :: as₃)
          (fun a ha => hfa a (by simp only [List.mem_append]; exact .inr ha)) hlocm hq hne1
        rw [← run_append] at q1 q2
        have hS : S₂ = S' := by
          have := h2.sentEq
          rw [q2, h1.sentEq, List.append_assoc] at this
          exact (List.append_cancel_left (List.append_cancel_left this)).symm
        have hn1 : ev₁ ∉ S₁ ++ S₂ := by
          rw [hS]; intro h
          rcases List.mem_append.1 h with h | h
          · exact hs h
          · exact q3 h
        have := h2.core.oth ev₁ hn1 q1
        intro l hm
        have hm' : l ∈ pubsOf (P₁ ++ P₂) ev₁ := mem_pubsOf.2 (by simp [hm])
        rw [this] at hm'; cases hm'

/-- **C03 (reference counter, ogre_arc).**  Assume the events sent are new (not sitting in a queue at the start) and
    consumers release only handles they received (`RelOK`: at each `.release ev`, fewer releases of `ev` so far than
    deliveries of `ev`; `.release` decrements unconditionally in the model).  Then for every completed send:
    `refs ev + releases ev = |L|` — one reference per listener, none for the producer any more — i.e.
    `refs ev` = copies not yet delivered (`|L| - deliveries`) + copies delivered and not yet released; in particular
    `refs ev = 0` (the slot returns to the pool) once all `|L|` copies were released: nothing leaks while the listener set
    is fixed.  While the send is in progress (`fOgre`), the counter additionally holds the producer's own reference. -/
theorem c03_refs (s₀ : St) (hw : WF s₀) (hfl : s₀.flavor = .ogreArc) (as : List Act) (hfa : ∀ a ∈ as, FanAct a)
    (hnd : (sendEvs as).Nodup) (hq0 : ∀ ev ∈ sendEvs as, ∀ l, ev ∉ s₀.queues l)
    (hrel : RelOK s₀ (sendEvs as) s₀ [] as) :
    let s := run s₀ as
    ∃ S D, s.sent = s₀.sent ++ S ∧ s.delivered = s₀.delivered ++ D ∧
      (∀ ev ∈ S, s.refs ev + (relEvs as).count ev = s₀.live.length ∧
        (relEvs as).count ev ≤ dcount D ev ∧ dcount D ev ≤ s₀.live.length ∧
        s.refs ev = (s₀.live.length - dcount D ev) + (dcount D ev - (relEvs as).count ev) ∧
        ((relEvs as).count ev = s₀.live.length → s.refs ev = 0)) ∧
      (∀ t ev i cnt, s.thr t = .fOgre ev i cnt → s.refs ev + (relEvs as).count ev = 1 + s₀.live.length) := by
  intro s
  have hs : s = run s₀ as := rfl
  clear_value s; subst hs
  obtain ⟨P, S, D, h⟩ := fan_run_wf hw (sendEvs as) as hq0 hfa hnd hrel
  refine ⟨S, D, h.sentEq, h.dlvEq, fun ev he => ?_, fun t ev i cnt ht => ?_⟩
  · have hE : ev ∈ sendEvs as := (h.core.fin ev he).1
    have h1 := h.refsS ((frame_facts h.frame).2.1.trans hfl) ev he hE
    have h2 := h.relLe ev hE
    have h3 := dcount_le_pubs h.order (hq0 ev hE)
    have h4 := h.core.pubsOf_length_le ev
    rw [hw.usedIds_length] at h1 h4
    refine ⟨h1, h2, by omega, by omega, by omega⟩
  · have hl := h.lok t
    rw [ht] at hl
    have hE : ev ∈ sendEvs as := (h.core.act t ev i (by simp [ht, prog])).1
    have := hl.2.2 hE
    rw [hw.usedIds_length] at this
    exact this

/-! ## non-vacuity -/

/-- two producers (threads 0, 1) fan events 7 and 8 out to listeners `{0,1}` with their micro-steps interleaved, a
    consumer (thread 2) polls and releases, listener 1 is cancelled in the middle of both sends (and still gets and
    consumes everything), then thread 0 starts sending 9 and is stopped half-way -/
def fanWitness : List Act :=
  [.send 0 7, .send 1 8, .step 0, .cancel 1, .step 1, .step 0, .step 1, .poll 2 0, .step 2, .ack 2, .step 0, .step 1, .ack 0,
   .ack 1,
   .release 7, .poll 2 1, .step 2, .ack 2, .poll 2 0, .step 2, .ack 2, .release 8, .poll 2 1, .step 2, .ack 2, .release 7,
   .send 0 9, .step 0, .step 0]

/-- the hypotheses of all C03 theorems hold of `fanWitness` from a sequentially set-up state (both flavours) -/
example (f : Flavor) :
    WF (setup 3 2 f) ∧ (∀ a ∈ fanWitness, FanAct a) ∧ (sendEvs fanWitness).Nodup ∧
      (∀ ev ∈ sendEvs fanWitness, ∀ l, ev ∉ (setup 3 2 f).queues l) := by
  cases f
  · exact ⟨wf_setup _ _ _ (by decide), by decide, by decide, fun _ _ _ => List.not_mem_nil⟩
  · exact ⟨wf_setup _ _ _ (by decide), by decide, by decide, fun _ _ _ => List.not_mem_nil⟩

/-- … including `RelOK`; the execution does what the theorems say: 7 and 8 completed and reached both listeners in the
    same order, 9 is half-way (listener 0 only); all copies of 7 were released (`refs 7 = 0`), one copy of 8 is still
    held (`refs 8 = 1`), 9 carries the producer's reference and two copies (`refs 9 = 3`) -/
example :
    let s₀ := setup 3 2 .ogreArc
    let s := run s₀ fanWitness
    RelOK s₀ (sendEvs fanWitness) s₀ [] fanWitness ∧ s₀.flavor = .ogreArc ∧ s₀.live = [0, 1] ∧
      s.pubs = [(7, 0), (8, 0), (7, 1), (8, 1), (9, 0)] ∧ s.sent = [7, 8] ∧
      s.delivered = [(0, 1, 7), (1, 1, 7), (0, 1, 8), (1, 1, 8)] ∧ s.queues 0 = [9] ∧ s.queues 1 = [] ∧
      s.refs 7 = 0 ∧ s.refs 8 = 1 ∧ s.refs 9 = 3 ∧ s.thr 0 = .fOgre 9 1 2 ∧ s.keep 0 = true ∧ s.keep 1 = false ∧
      cancelIds fanWitness = [1] := by
  decide

/-- the `arc` flavour on the same schedule (its `.send` already reads entry 0, so it is one listener ahead) -/
example :
    let s := run (setup 3 2 .arc) fanWitness
    s.pubs = [(7, 0), (8, 0), (7, 1), (8, 1), (9, 0), (9, 1)] ∧ s.sent = [7, 8] ∧
      s.delivered = [(0, 1, 7), (1, 1, 7), (0, 1, 8), (1, 1, 8)] ∧ s.queues 0 = [9] ∧ s.queues 1 = [9] ∧
      s.thr 0 = .fArc 9 2 3 := by
  decide

/-- `c03_producer_order` is not vacuous: split `fanWitness` after the 14th action (both sends completed) -/
example :
    (run (setup 3 2 .arc) (fanWitness.take 14)).sent = [7, 8] ∧ sendEvs (fanWitness.drop 14) = [9] := by
  decide

/-- `c03_thread_order` is not vacuous: thread 0 sends 7, later 9 -/
example :
    fanWitness = ([] ++ .send 0 7 :: (fanWitness.drop 1).take 25) ++ .send 0 9 :: [.step 0, .step 0] := by
  decide

/-- `RelOK` is necessary for `c03_refs`: a release before the delivery makes the counter hit 0 while copies exist -/
example :
    let s := run (setup 3 2 .ogreArc) [.send 0 7, .release 7, .step 0, .step 0, .step 0, .release 7, .release 7]
    7 ∈ s.sent ∧ s.refs 7 = 0 ∧ s.queues 0 = [7] ∧ s.queues 1 = [7] := by
  decide

end Mutiny.Multi

#print axioms Mutiny.Multi.c03_frame
#print axioms Mutiny.Multi.c03_fanout_exact
#print axioms Mutiny.Multi.c03_fanout_prefix
#print axioms Mutiny.Multi.c03_listener_order
#print axioms Mutiny.Multi.c03_producer_order
#print axioms Mutiny.Multi.c03_thread_order
#print axioms Mutiny.Multi.c03_refs
