import Mutiny.Proofs.Ring32Sim
import Mutiny.Proofs.LockRing32Sim

/-!
# C15, machine level — the `u32` ring `Ring32` is the image modulo 2^32 of the free-running ring `Ring` (M1)

`Mutiny/Model/Ring32.lean` executes the arithmetic the source really performs (wrapping `fetch_add`, `overflowing_sub`,
`as i32 > 0`, `% BUFFER_SIZE`, the checked `+` / `*` of a build with overflow checks) on residues `< 2^32`; it is the machine
the replay driver runs the recorded traces of the real `AtomicMove` on, from any sequence origin.  The theorems below say
that this machine never leaves the image `x ↦ x % 2^32` of model M1 — for counters of ANY magnitude, hence also after they
wrapped any number of times — so every theorem about M1 (C01, C02, C08, C13, C16, C18, C20) is a theorem about the `u32`
code, and a history answers exactly as it would on a fresh ring: same accept / reject results, same values, order and
reported lengths, no panic.

Scope: every program point except the re-guess loop of the two index-based calls (`try_publish_leaked_internal_index`,
`try_unleak_slot_index_internal`), whose *number of retries* legitimately depends on the lap the counters are in (their
results do not: `c15_pub_guess_exact`, `c15_cancel_guess` in `Props/C15.lean`, `c15_pub32_exact` below).
Window hypotheses (`Win`): `N ∣ 2^32`, `N < 2^31`, fewer than `2^31` claims outstanding — derived from a bound on the number of
threads by `c15_window_of_threads` — and no exact multiple of 2^32 events between the two loads of the emptiness re-check
(`noABA`: the only place where the code compares two counters loaded at different instants), fewer than 2^31 events consumed past
a producer's own between its publication and its length measurement (`noLag`: the signed cast of `len_after_publishing`).
-/

namespace Mutiny.Ring32
open Mutiny.Ring Mutiny.U32

/-- one step of the `u32` machine from the image of any reachable M1 state is the image of M1's step; no panic -/
theorem c15_step_refines (s : St) (t : Nat) (h : Inv s) (w : Win s) (hni : NotIdx (s.thr t)) :
    step32 (img s) t = some (img (step s t)) :=
  sim_step s t h w hni

/-- **refinement**: every run of the `u32` machine from a fresh ring is, action for action, the image of the run of M1, for
    runs of any length (counters of any magnitude), any number of threads and any schedule; it never panics -/
theorem c15_refinement (n : Nat) (hn : 0 < n) (as : List Act) (hok : RunOk (Ring.init n) as)
    (hw : WinRun (Ring.init n) as) (ha : ActsOk as) :
    run32 (img (Ring.init n)) as = some (img (Ring.run (Ring.init n) as)) :=
  sim_run (Ring.init n) as (inv_init n hn) (fun _ => ⟨fun _ _ _ => by simp [Ring.init], fun _ _ _ => by simp [Ring.init]⟩) hok hw ha

/-- … and the same from the image of ANY state satisfying the invariant (e.g. one reached after 2^40 events) -/
theorem c15_refinement_from (s : St) (as : List Act) (h : Inv s) (hn : NoIdx s) (hok : RunOk s as) (hw : WinRun s as)
    (ha : ActsOk as) : run32 (img s) as = some (img (Ring.run s as)) :=
  sim_run s as h hn hok hw ha

/-- what a caller observes is literally the same: a finished operation's result (accepted / full / value / empty /
    length / reserved index) is untouched by the image -/
theorem c15_same_results (s : St) (t : Nat) (r : Res) : (img s).thr t = .done r ↔ s.thr t = .done r := by
  simp only [img_thr]
  cases s.thr t <;> simp [imgLoc]

/-- the payloads are the same: buffer, acceptance log and delivered values are untouched by the image -/
theorem c15_same_payloads (s : St) :
    (img s).buf = s.buf ∧ (img s).accepted = s.accepted ∧ (img s).delivered.map (·.2.2) = s.delivered.map (·.2.2) := by
  refine ⟨rfl, rfl, ?_⟩
  simp [img, List.map_map, Function.comp_def]

/-- the window hypotheses follow from the ring invariant for any execution that uses at most `T` threads with
    `N + T < 2^31` (each thread holds at most one claim) -/
theorem c15_window_of_threads (s : St) (h : Inv s) (T : Nat) (hT : ∀ t, T ≤ t → s.thr t = .idle)
    (hN : M32 % s.N = 0) (hb : s.N + T < 2147483648)
    (hABA : ∀ t hh w, s.thr t = .cChkTail hh w → s.tail < hh + M32)
    (hLag : ∀ t id, s.thr t = .pLen id → s.head ≤ id + 1 + 2147483648) : Win s := by
  obtain ⟨h1, h2⟩ := claims_le_threads s h T hT
  have := h.hTN
  exact ⟨hN, by omega, by omega, by omega, hABA, hLag⟩

/-- index-based publication at any counter magnitude: whatever lap the `u32` guess comes from, a successful CAS of the
    `u32` machine (`tail32 = guess32`, with the guess congruent to the slot index) publishes the caller's OWN sequence number:
    the free-running `tail` equals the caller's id -/
theorem c15_pub32_exact (s : St) (t id idx g g32 : Nat) (h : Inv s) (w : Win s) (hl : s.thr t = .rPub id idx g)
    (hg : g32 % s.N = idx) (hcas : wrap s.tail = g32) : s.tail = id := by
  have hi := (h.idxOk t id idx g (Or.inl hl)).1
  have hr := h.pRange t id (by simp [hl, holdsP])
  have hp := h.pOk t id (by simp [hl, passedP])
  have := h.hHT
  have e : s.tail % s.N = id % s.N := by rw [← mod_wrap s.tail s.N w.hN, hcas, hg, hi]
  exact eq_of_mod_eq_window s.tail id s.N hr.1 (by omega) e

/-! ## non-vacuity -/

/-- the hypotheses are satisfiable: a fresh ring of size 4 is in the window, and so is every state a 3-thread execution
    reaches (by `c15_window_of_threads`) -/
example : Win (Ring.init 4) :=
  ⟨by decide, by decide, by decide, by decide, fun _ _ _ h => by simp [Ring.init] at h, fun _ _ h => by simp [Ring.init] at h⟩

/-- a concrete run checked against the machine: three sends and two receives on a ring whose counters start 2 below the
    wrap (`init32 4 (2^32 - 4)` is the image of a ring that transported 2^32 - 4 events): accepted, accepted, accepted,
    delivered in order, counters wrapped to 0 and beyond, no panic -/
example :
    (run32 (init32 4 4294967292)
      [.send 0 11, .step 0, .step 0, .step 0, .step 0, .step 0, .ack 0, .send 0 22, .step 0, .step 0, .step 0, .step 0, .step 0, .ack 0,
       .send 0 33, .step 0, .step 0, .step 0, .step 0, .step 0, .ack 0, .send 0 44, .step 0, .step 0, .step 0, .step 0, .step 0, .ack 0,
       .send 0 55, .step 0, .step 0, .step 0, .ack 0,
       .recv 1, .step 1, .step 1, .step 1, .step 1, .ack 1, .recv 1, .step 1, .step 1, .step 1, .step 1]).map
      (fun s => (s.head, s.tail, s.enqTail, s.thr 1, s.delivered.map (·.2.2)))
    = some (4294967294, 0, 0, .done (.got 22), [11, 22]) := by decide

end Mutiny.Ring32

namespace Mutiny.LockRing32
open Mutiny.LockRing Mutiny.U32

/-- **the full-sync ring** (`FullSyncMove`): the `u32` machine `LockRing32` is, action for action and for runs of any length, the
    image modulo 2^32 of model M2 — no hypothesis on threads or schedules at all (under the lock there are no over-claims);
    only `N ∣ 2^32` and `N < 2^31` (the consumer's emptiness test is signed).  It never panics. -/
theorem c15_lockring_refinement (n : Nat) (hn : 0 < n) (hN : M32 % n = 0) (hNs : n ≤ 2147483647) (as : List Act) :
    run32 (img (LockRing.init n)) as = some (img (LockRing.run (LockRing.init n) as)) :=
  sim_run (LockRing.init n) as (inv_init n hn) hN hNs

theorem c15_lockring_refinement_from (s : St) (h : Inv s) (hN : M32 % s.N = 0) (hNs : s.N ≤ 2147483647) (as : List Act) :
    run32 (img s) as = some (img (LockRing.run s as)) :=
  sim_run s as h hN hNs

/-- results, payloads and the lock are untouched by the image (of a thread's registers only the `tail` value an unlocked
    length query has loaded is reduced modulo 2^32) -/
theorem c15_lockring_same_observables (s : St) :
    (∀ t r, (img s).thr t = .done r ↔ s.thr t = .done r) ∧ (img s).buf = s.buf ∧ (img s).accepted = s.accepted ∧
      (img s).locked = s.locked := by
  refine ⟨fun t r => ?_, rfl, rfl, rfl⟩
  show imgLoc (s.thr t) = .done r ↔ s.thr t = .done r
  cases s.thr t <;> simp [imgLoc]

/-- a concrete run on a ring whose counters start 2 below the wrap: three sends, two receives, a length query — counters wrap,
    answers are those of a fresh ring -/
example :
    (run32 (init32 4 4294967294)
      [.send 0 11, .step 0, .step 0, .step 0, .step 0, .step 0, .ack 0, .send 0 22, .step 0, .step 0, .step 0, .step 0, .step 0, .ack 0,
       .send 0 33, .step 0, .step 0, .step 0, .step 0, .step 0, .ack 0,
       .recv 1, .step 1, .step 1, .step 1, .step 1, .step 1, .step 1, .ack 1, .len 2, .step 2, .step 2]).map
      (fun s => (s.head, s.tail, s.thr 2, s.delivered.map (·.2.2)))
    = some (4294967295, 1, .done (.len 2), [11]) := by decide

#print axioms c15_lockring_refinement
#print axioms c15_lockring_refinement_from
#print axioms c15_lockring_same_observables

end Mutiny.LockRing32

namespace Mutiny.Ring32
#print axioms c15_step_refines
#print axioms c15_refinement
#print axioms c15_refinement_from
#print axioms c15_same_results
#print axioms c15_same_payloads
#print axioms c15_window_of_threads
#print axioms c15_pub32_exact

end Mutiny.Ring32
