import Mutiny.Proofs.RingProps

/-!
# C16 — a rejected `send` is prompt and changes nothing; capacity comes back as soon as room is made

Scope: every `n > 0`, every `s` with `ReachableX n s` (see `Props/C02.lean`; C16 does not talk about the index-based cancel).
A state is *quiescent* when every thread is `idle` (no call in progress, no reservation outstanding).
`sendSolo t v = [send t v, step t, step t, step t, step t]`, `recvSolo t = [recv t, step t ×4]`.
-/

namespace Mutiny.Ring

variable {n : Nat} {s : St}

/-- in a quiescent state the private claim counters coincide with the public ones: no claim is leaked by any earlier
    call — accepted, rejected, or answered `empty` -/
theorem c16_quiescent (hn : 0 < n) (hr : ReachableX n s) (hid : ∀ t, s.thr t = .idle) :
    s.enqTail = s.tail ∧ s.deqHead = s.head :=
  quiescent_counters s (reachable_inv hn hr) hid

/-- a solo `send` from a quiescent state: accepted iff there is room; if the ring is full it is rejected after 3 own
    steps (the 4th is a no-op) and *nothing* has changed, so the state is again one to which this theorem applies: a
    retry after room was made succeeds -/
theorem c16_solo_send (hn : 0 < n) (hr : ReachableX n s) (t v : Nat)
    (hothers : ∀ u, u ≠ t → s.thr u = .idle) (ht : s.thr t = .idle) :
    let s' := run s [.send t v, .step t, .step t, .step t, .step t, .step t]
    ((abs s).length < s.N →
        s'.thr t = .done (.sent ((abs s).length + 1)) ∧ abs s' = abs s ++ [v]) ∧
    ((abs s).length = s.N →
        s'.thr t = .done .full ∧ run s [.send t v, .step t, .step t, .step t] = s' ∧
        abs s' = abs s ∧ s'.buf = s.buf ∧ s'.tail = s.tail ∧ s'.head = s.head ∧ s'.enqTail = s.enqTail ∧
        s'.deqHead = s.deqHead ∧ s'.accepted = s.accepted ∧ s'.delivered = s.delivered) ∧
    (∀ u, u ≠ t → s'.thr u = .idle) ∧ ReachableX n s' ∧ ReachableX n (apply s' (.ack t)) ∧
    (∀ u, (apply s' (.ack t)).thr u = .idle) := by
  intro s'
  have hs' : s' = run s (sendSolo t v) := rfl
  clear_value s'; subst hs'
  have hid : ∀ u, s.thr u = .idle := fun u => if e : u = t then e ▸ ht else hothers u e
  have hi := reachable_inv hn hr
  have hq := quiescent_counters s hi hid
  have hlen := abs_length s hi
  have hacc := hi.accLen
  have hHT := hi.hHT
  have hTN := hi.hTN
  have hrx : ReachableX n (run s (sendSolo t v ++ [.ack t])) :=
    hr.run _ (runOk_of_noCancel _ _ (noCan_of_idle s hid) (noCancel_sendSolo t v))
  have hrx' : ReachableX n (run s (sendSolo t v)) :=
    hr.run _ (runOk_of_noCancel _ _ (noCan_of_idle s hid) (by intro u; simp [sendSolo]))
  have hack : run s (sendSolo t v ++ [.ack t]) = apply (run s (sendSolo t v)) (.ack t) := by rw [run_append]; rfl
  rw [hack] at hrx
  by_cases hroom : s.tail - s.head < s.N
  · obtain ⟨h1, h2, h3, h4, h5, h6, h7, h8, h9⟩ := solo_send_ok s t v hid hq.1 hroom
    refine ⟨fun _ => ⟨by rw [hlen]; simpa using h1 t, ?_⟩, fun hf => by omega, fun u hu => by simpa [hu] using h1 u,
      hrx', hrx, ?_⟩
    · show List.drop _ _ = s.accepted.drop s.head ++ [v]
      rw [h2, h3, List.drop_append_of_le_length (by omega)]
    · intro u
      by_cases hu : u = t
      · subst hu; simp only [apply]; rw [h1 u]; simp
      · rw [apply_thr_ne _ _ _ (by simpa [Act.thread] using hu)]; simpa [hu] using h1 u
  · obtain ⟨h0, h1, h2, h3, h4, h5, h6, h7, h8, h9⟩ := solo_send_full s t v hid hq.1 hroom
    refine ⟨fun hf => by omega, fun _ => ⟨by simpa using h1 t, h0.symm, abs_congr h2 h3, h9, h4, h3, h5, h6, h2, h7⟩,
      fun u hu => by simpa [hu] using h1 u, hrx', hrx, ?_⟩
    intro u
    by_cases hu : u = t
    · subst hu; simp only [apply]; rw [h1 u]; simp
    · rw [apply_thr_ne _ _ _ (by simpa [Act.thread] using hu)]; simpa [hu] using h1 u

/-- a solo `recv` from a quiescent state returns the front element if there is one (4 own steps), and `empty` with
    nothing changed otherwise (5 own steps) -/
theorem c16_solo_recv (hn : 0 < n) (hr : ReachableX n s) (t : Nat)
    (hothers : ∀ u, u ≠ t → s.thr u = .idle) (ht : s.thr t = .idle) :
    (∀ x rest, abs s = x :: rest →
        let s' := run s [.recv t, .step t, .step t, .step t, .step t]
        s'.thr t = .done (.got x) ∧ abs s' = rest ∧ s'.enqTail = s.enqTail ∧ s'.tail = s.tail ∧
        (∀ u, u ≠ t → s'.thr u = .idle) ∧ ReachableX n s') ∧
    (abs s = [] →
        let s' := run s [.recv t, .step t, .step t, .step t, .step t, .step t]
        s'.thr t = .done .empty ∧ abs s' = [] ∧ s'.buf = s.buf ∧ s'.tail = s.tail ∧ s'.head = s.head ∧
        s'.enqTail = s.enqTail ∧ s'.deqHead = s.deqHead ∧ s'.accepted = s.accepted ∧ s'.delivered = s.delivered ∧
        (∀ u, u ≠ t → s'.thr u = .idle) ∧ ReachableX n s') := by
  have hid : ∀ u, s.thr u = .idle := fun u => if e : u = t then e ▸ ht else hothers u e
  have hi := reachable_inv hn hr
  have hq := quiescent_counters s hi hid
  have hlen := abs_length s hi
  have hacc := hi.accLen
  have hHT := hi.hHT
  constructor
  · intro x rest hx s'
    have hs' : s' = run s (recvSolo t) := rfl
    clear_value s'; subst hs'
    have hne : s.head < s.tail := by
      have : (abs s).length = rest.length + 1 := by rw [hx]; rfl
      omega
    have hfront : s.buf (s.head % s.N) = x := by
      have h1 := hi.bufOk s.head (Nat.le_refl _) hne
      have h2 : (abs s)[0]? = some x := by rw [hx]; rfl
      rw [abs, List.getElem?_drop, Nat.add_zero, h1] at h2
      exact Option.some.inj h2
    obtain ⟨h1, h2, h3, h4, h5, h6, h7, h8, h9⟩ := solo_recv_ok s t hid hq.2 hne
    refine ⟨by rw [← hfront]; simpa using h1 t, ?_, h5, h4, fun u hu => by simpa [hu] using h1 u,
      hr.run _ (runOk_of_noCancel _ _ (noCan_of_idle s hid) (by intro u; simp [recvSolo]))⟩
    show List.drop _ _ = rest
    rw [h2, h3]
    have : s.accepted.drop s.head = x :: rest := hx
    rw [← List.drop_drop, this]; rfl
  · intro hemp s'
    have hs' : s' = run s (recvSolo t ++ [.step t]) := rfl
    clear_value s'; subst hs'
    have hht : s.head = s.tail := (abs_eq_nil_iff s hi).mp hemp
    obtain ⟨h1, h2, h3, h4, h5, h6, h7, h8, h9⟩ := solo_recv_empty s t hid hq.2 hht
    refine ⟨by simpa using h1 t, by rw [← hemp]; exact abs_congr h2 h3, h9, h4, h3, h5, h6, h2, h7,
      fun u hu => by simpa [hu] using h1 u,
      hr.run _ (runOk_of_noCancel _ _ (noCan_of_idle s hid) (by intro u; simp [recvSolo]))⟩

/-- fill & drain: from an empty quiescent state, `k ≤ N` consecutive solo sends (`send; step ×4; ack` each, performed by
    `fillSolo`) are all accepted — the i-th one reports length `i` — the queue then holds exactly these values in order,
    the state is quiescent again; and if `k = N` the next send is rejected with the content unchanged. -/
theorem c16_fill_drain (hn : 0 < n) (hr : ReachableX n s) (t : Nat) (hid : ∀ u, s.thr u = .idle) (hemp : abs s = [])
    (vs : List Nat) (hk : vs.length ≤ s.N) :
    (fillSolo t s vs).2 = (List.range' 1 vs.length).map (fun l => Loc.done (.sent l)) ∧
    abs (fillSolo t s vs).1 = vs ∧ (∀ u, (fillSolo t s vs).1.thr u = .idle) ∧ ReachableX n (fillSolo t s vs).1 ∧
    (vs.length = s.N → ∀ w,
        (run (fillSolo t s vs).1 (sendSolo t w)).thr t = .done .full ∧
        abs (run (fillSolo t s vs).1 (sendSolo t w)) = vs) := by
  obtain ⟨h1, h2, h3, h4, h5⟩ := fillSolo_spec hn t vs s hr hid (by rw [hemp]; simpa using hk)
  rw [hemp] at h1 h2
  refine ⟨by simpa using h1, by simpa using h2, h3, h4, ?_⟩
  intro hfull w
  have := (c16_solo_send hn h4 t w (fun u _ => h3 u) (h3 t)).2.1
    (by rw [h2, h5]; simpa using hfull)
  have h2' : abs (fillSolo t s vs).1 = vs := by simpa using h2
  exact ⟨this.1, this.2.2.1.trans h2'⟩

/-! ## non-vacuity -/

/-- fill a ring of size 2, the third send is rejected, one `recv` makes room, the retry succeeds -/
example : let r := fillSolo 0 (init 2) [5, 6]
    ReachableX 2 (init 2) ∧ abs (init 2) = [] ∧
    r.2 = [.done (.sent 1), .done (.sent 2)] ∧ abs r.1 = [5, 6] ∧
    (run r.1 (sendSolo 0 7)).thr 0 = .done .full ∧
    (let s2 := run r.1 (sendSolo 0 7 ++ [.ack 0] ++ recvSolo 1 ++ [.ack 1] ++ sendSolo 0 7)
     s2.thr 0 = .done (.sent 2) ∧ abs s2 = [6, 7]) :=
  ⟨ReachableX.init 2, rfl, by decide, by decide, by decide, by decide⟩

#print axioms c16_quiescent
#print axioms c16_solo_send
#print axioms c16_solo_recv
#print axioms c16_fill_drain

end Mutiny.Ring
