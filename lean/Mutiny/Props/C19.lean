import Mutiny.Proofs.IncAvgInv
import Mutiny.Proofs.IncAvgOnce
import Mutiny.Proofs.IncAvgMean

/-!
# C19 — `AtomicIncrementalAverage64`: no update is lost and every reading is a consistent `(count, average)` pair

Model: `Mutiny/Model/IncAvg.lean` (`inc` = `ia.load`, then `ia.cas` retried with the reloaded value; `probe` = one load).
All theorems hold for **every** `avgUpd` (the IEEE formula on bit patterns is a parameter of the model), every thread
count, every schedule.  `commits` = measurements in the order their CAS succeeded; `fold avgUpd xs` = the cell content
after committing `xs` in that order.
-/

namespace Mutiny.IncAvg

/-- The inductive invariant, spelled out: the cell is the fold of the commit order; the values the cell ever held are
exactly the folds of the prefixes of the commit order (oldest first), the last one being the current cell; the expected
value carried by a thread at its CAS is one of those. -/
theorem c19_invariant {avgUpd : Nat → Nat → Nat → Nat} {s : St} (h : Reachable avgUpd s) :
    s.cell = fold avgUpd s.commits
    ∧ s.stored = (List.range (s.commits.length + 1)).map (fun k => fold avgUpd (s.commits.take k))
    ∧ s.stored.getLast? = some s.cell
    ∧ ∀ t x cur, s.thr t = .iCas x cur → cur ∈ s.stored :=
  have hi := reachable_inv h
  ⟨hi.cellFold, hi.storedEq, hi.last, hi.casMem⟩

/-- **No lost update (counter).**  As long as at most `u32::MAX` measurements were committed, the counter half of the
cell is exactly the number of commits (this is stronger than the bound `s.commits.length < W32 - 1` of the informal
statement; the first commit after `u32::MAX` triggers the reset to 100).

Remark on `havg : ∀ c a x, avgUpd c a x < W32` (the result of `avgUpd` is a 32-bit pattern): the hypothesis is *not*
needed here, because the model's `join c a = c + a * 2^32` is over unbounded naturals and `split` recovers both halves
whenever `c < 2^32`.  What `havg` buys is `c19_cell_fits_u64` below: the joined value never exceeds 64 bits, i.e. the
`u64` arithmetic of the Rust code coincides with the model's. -/
theorem c19_no_lost_update {avgUpd : Nat → Nat → Nat → Nat} {s : St} (h : Reachable avgUpd s)
    (hlen : s.commits.length < W32) : (split s.cell).1 = s.commits.length := by
  rw [(reachable_inv h).cellFold]; exact fold_counter avgUpd _ hlen

/-- With a 32-bit `avgUpd` (`havg`), every value the cell ever holds fits in 64 bits — for ever, also across the counter
reset — and the counter half is always `< 2^32`. -/
theorem c19_cell_fits_u64 {avgUpd : Nat → Nat → Nat → Nat} (havg : ∀ c a x, avgUpd c a x < W32) {s : St}
    (h : Reachable avgUpd s) : (∀ j ∈ s.stored, j < W32 * W32) ∧ s.cell < W32 * W32 := by
  have hi := reachable_inv h
  refine ⟨fun j hj => ?_, ?_⟩
  · rw [hi.storedEq] at hj
    obtain ⟨k, _, rfl⟩ := mem_prefixFolds.1 hj
    exact fold_lt_u64 avgUpd havg _
  · rw [hi.cellFold]; exact fold_lt_u64 avgUpd havg _

/-- **No lost update (pair).**  Below the reset, the `(counter, average)` pair in the cell is the unpacked recurrence
`(c, a) ↦ (c + 1, avgUpd c a x)` applied to *all* committed measurements, in commit order: no measurement is skipped and
none is applied twice. -/
theorem c19_pair_is_recurrence {avgUpd : Nat → Nat → Nat → Nat} {s : St} (h : Reachable avgUpd s)
    (hlen : s.commits.length < W32) :
    split s.cell = s.commits.foldl (fun p x => (p.1 + 1, avgUpd p.1 p.2 x)) (0, 0) := by
  rw [(reachable_inv h).cellFold]; exact split_fold avgUpd _ hlen

/-- **Each `inc` commits exactly once (successful CAS).**  A thread at `iCas x cur` whose expected value is current
appends its own `x` to the commit order, installs `upd cur x` and is done; nobody else moves. -/
theorem c19_commit_step {avgUpd : Nat → Nat → Nat → Nat} {s : St} {t x cur : Nat}
    (ht : s.thr t = .iCas x cur) (hc : s.cell = cur) :
    (step avgUpd s t).commits = s.commits ++ [x]
    ∧ (step avgUpd s t).cell = upd avgUpd s.cell x
    ∧ (step avgUpd s t).stored = s.stored ++ [upd avgUpd s.cell x]
    ∧ (step avgUpd s t).thr t = .done .unit
    ∧ ∀ u, u ≠ t → (step avgUpd s t).thr u = s.thr u := by
  rw [step_cas_success avgUpd s t x cur ht hc]
  subst hc
  refine ⟨rfl, rfl, rfl, by simp, fun u hu => by simp [hu]⟩

/-- **Failed CAS.**  Nothing shared changes and the thread retries with the reloaded value. -/
theorem c19_failed_cas_step {avgUpd : Nat → Nat → Nat → Nat} {s : St} {t x cur : Nat}
    (ht : s.thr t = .iCas x cur) (hc : s.cell ≠ cur) :
    (step avgUpd s t).cell = s.cell ∧ (step avgUpd s t).commits = s.commits
    ∧ (step avgUpd s t).stored = s.stored ∧ (step avgUpd s t).thr t = .iCas x s.cell
    ∧ ∀ u, u ≠ t → (step avgUpd s t).thr u = s.thr u := by
  rw [step_cas_failure avgUpd s t x cur ht hc]
  refine ⟨rfl, rfl, rfl, by simp, fun u hu => by simp [hu]⟩

/-- **Only a successful CAS commits.**  If any action changes `cell`, `commits` or `stored`, it is a step of a thread
`t` sitting at `iCas x s.cell`; it appends that thread's `x` (exactly one entry) and moves `t` to `done`.  (A thread
leaves `done` only through `ack` + a new `inc` call, so one call = one commit.) -/
theorem c19_only_cas_commits {avgUpd : Nat → Nat → Nat → Nat} {s : St} {a : Act}
    (hch : (apply avgUpd s a).commits ≠ s.commits ∨ (apply avgUpd s a).cell ≠ s.cell
            ∨ (apply avgUpd s a).stored ≠ s.stored) :
    ∃ t x, a = .step t ∧ s.thr t = .iCas x s.cell
      ∧ (apply avgUpd s a).commits = s.commits ++ [x] ∧ (apply avgUpd s a).thr t = .done .unit := by
  refine Classical.byContradiction fun hne => ?_
  have hf := apply_frame avgUpd s a (by
    intro t x e ht
    subst e
    exact hne ⟨t, x, rfl, ht, (c19_commit_step ht rfl).1, (c19_commit_step ht rfl).2.2.2.1⟩)
  rcases hch with h | h | h
  · exact h hf.2.1
  · exact h hf.1
  · exact h hf.2.2

/-- A thread inside `inc` stays inside `inc` with the same measurement until its own successful CAS: the only exits
from `iLoad x` / `iCas x _` are `iCas x _` and (after the commit of `x`) `done`. -/
theorem c19_inc_in_flight {avgUpd : Nat → Nat → Nat → Nat} {s : St} {t x : Nat} (a : Act)
    (ht : s.thr t = .iLoad x ∨ ∃ cur, s.thr t = .iCas x cur) :
    ((apply avgUpd s a).thr t = .iLoad x ∨ ∃ cur, (apply avgUpd s a).thr t = .iCas x cur)
    ∨ ((apply avgUpd s a).thr t = .done .unit ∧ a = .step t ∧ (apply avgUpd s a).commits = s.commits ++ [x]) := by
  cases a with
  | inc u y =>
    left; simp only [apply]; split
    · have : t ≠ u := by rintro rfl; rcases ht with h | ⟨c, h⟩ <;> simp_all
      simpa [this] using ht
    · exact ht
  | probe u =>
    left; simp only [apply]; split
    · have : t ≠ u := by rintro rfl; rcases ht with h | ⟨c, h⟩ <;> simp_all
      simpa [this] using ht
    · exact ht
  | ack u =>
    left; simp only [apply]; split
    · have : t ≠ u := by rintro rfl; rcases ht with h | ⟨c, h⟩ <;> simp_all
      simpa [this] using ht
    · exact ht
  | step u =>
    simp only [apply]
    by_cases hut : t = u
    · subst hut
      rcases ht with h | ⟨cur, h⟩
      · left; right; exact ⟨s.cell, by simp [step, h]⟩
      · by_cases hc : s.cell = cur
        · right; exact ⟨(c19_commit_step h hc).2.2.2.1, rfl, (c19_commit_step h hc).1⟩
        · left; right; exact ⟨s.cell, (c19_failed_cas_step h hc).2.2.2.1⟩
    · left
      have : (step avgUpd s u).thr t = s.thr t := by
        cases hu : s.thr u <;> simp only [step, hu] <;> (try split) <;> simp [hut]
      rw [this]; exact ht

/-- **Exactly once, trace level.**  Along any run `as` from `init`: the measurements of the accepted `inc` calls
(`acceptedVals`, in call order) are, as a multiset, the committed ones plus those of the calls still in flight — the
latter listed once per thread by `L`, which is exactly the set of `(t, x)` with `t` at `iLoad x` / `iCas x _`
(`flying`).  So no accepted measurement is dropped and none is committed twice. -/
theorem c19_exactly_once (avgUpd : Nat → Nat → Nat → Nat) (as : List Act) :
    ∃ L : List (Nat × Nat), (L.map (·.1)).Nodup
      ∧ (∀ t x, (t, x) ∈ L ↔ flying ((run avgUpd init as).thr t) x)
      ∧ (acceptedVals avgUpd init as).Perm ((run avgUpd init as).commits ++ L.map (·.2)) := by
  have := acct_run (avgUpd := avgUpd) init as [] acct_init
  rw [List.nil_append] at this
  exact this

/-- **No lost update, end to end.**  Whenever no `inc` call is in flight, the commit order is a permutation of the
accepted measurements, and (up to `u32::MAX` calls) the counter read from the cell is the number of accepted calls. -/
theorem c19_quiescent_no_lost_update (avgUpd : Nat → Nat → Nat → Nat) (as : List Act)
    (hq : ∀ t x, ¬ flying ((run avgUpd init as).thr t) x) :
    (acceptedVals avgUpd init as).Perm (run avgUpd init as).commits
    ∧ ((acceptedVals avgUpd init as).length < W32 →
        (split (run avgUpd init as).cell).1 = (acceptedVals avgUpd init as).length) := by
  obtain ⟨L, _, mem, perm⟩ := c19_exactly_once avgUpd as
  have hL : L = [] := by
    apply List.eq_nil_iff_forall_not_mem.2
    rintro ⟨t, x⟩ hp
    exact hq t x ((mem t x).1 hp)
  subst hL
  have perm' : (acceptedVals avgUpd init as).Perm (run avgUpd init as).commits := by simpa using perm
  refine ⟨perm', fun hlen => ?_⟩
  rw [perm'.length_eq] at hlen ⊢
  exact c19_no_lost_update ⟨as, rfl⟩ hlen

/-- **Consistent pair.**  What `probe` returns is the split of *one* value of the cell: the fold of a prefix of the
commit order (in fact of the whole current commit order: `k = s.commits.length`), never a counter from one update and
an average from another. -/
theorem c19_consistent_pair {avgUpd : Nat → Nat → Nat → Nat} {s : St} (h : Reachable avgUpd s) {t c a : Nat}
    (ht : s.thr t = .pProbe) (hd : (step avgUpd s t).thr t = .done (.probed c a)) :
    (c, a) = split (fold avgUpd s.commits)
    ∧ ∃ k, k ≤ s.commits.length ∧ (c, a) = split (fold avgUpd (s.commits.take k)) := by
  have hc := (reachable_inv h).cellFold
  simp only [step, ht, thr_setThr, if_true, Loc.done.injEq, Res.probed.injEq] at hd
  have e : (c, a) = split (fold avgUpd s.commits) := by
    rw [← hc, ← hd.1, ← hd.2]
  exact ⟨e, s.commits.length, Nat.le_refl _, by rw [List.take_length]; exact e⟩

/-- A `probe` step always answers (with the split of the current cell) and changes nothing shared. -/
theorem c19_probe_step {avgUpd : Nat → Nat → Nat → Nat} {s : St} {t : Nat} (ht : s.thr t = .pProbe) :
    (step avgUpd s t).thr t = .done (.probed (split s.cell).1 (split s.cell).2)
    ∧ (step avgUpd s t).cell = s.cell ∧ (step avgUpd s t).commits = s.commits := by
  simp [step, ht]

/-- Every value the cell ever held — in particular every value a `probe` may have read at any earlier instant, and
every expected value a CAS carries — is the fold of a prefix of the commit order. -/
theorem c19_stored_are_prefix_folds {avgUpd : Nat → Nat → Nat → Nat} {s : St} (h : Reachable avgUpd s) :
    (∀ j ∈ s.stored, ∃ k, k ≤ s.commits.length ∧ j = fold avgUpd (s.commits.take k))
    ∧ ∀ t x cur, s.thr t = .iCas x cur → ∃ k, k ≤ s.commits.length ∧ cur = fold avgUpd (s.commits.take k) := by
  have hi := reachable_inv h
  have h1 : ∀ j ∈ s.stored, ∃ k, k ≤ s.commits.length ∧ j = fold avgUpd (s.commits.take k) := by
    intro j hj; rw [hi.storedEq] at hj; exact mem_prefixFolds.1 hj
  exact ⟨h1, fun t x cur ht => h1 cur (hi.casMem t x cur ht)⟩

/-- `split_joined` / `join_split` are inverse of each other (for a 32-bit counter). -/
theorem c19_split_join :
    (∀ c a, c < W32 → split (join c a) = (c, a)) ∧ (∀ j, join (split j).1 (split j).2 = j) :=
  ⟨fun _ _ hc => split_join hc, join_split⟩

/-- **The recurrence is the arithmetic mean**, exactly, over the rationals:
`incAvg (n, a) x = (n + 1, n / (n + 1) * a + x / (n + 1))`.  (Floating-point rounding is outside the model.) -/
theorem c19_mean_exact (xs : List ℚ) (h : xs ≠ []) :
    xs.foldl incAvg (0, 0) = ((xs.length : ℚ), xs.sum / xs.length) :=
  mean_exact xs h

/-! ## non-vacuity -/

/-- Two threads load the same value `0`; thread 0 commits; the CAS of thread 1 fails (nothing shared changes), it
retries with the reloaded value and commits; a probe then reads `(2, 15)` = mean of `[10, 20]`. -/
example :
    let f : Nat → Nat → Nat → Nat := fun c a x => (c * a + x) / (c + 1)
    let s := run f init [.inc 0 10, .inc 1 20, .step 0, .step 1, .step 0]
    let s' := run f s [.step 1, .step 1, .probe 2, .step 2]
    Reachable f s ∧ Reachable f s'
    ∧ s.thr 0 = .done .unit ∧ s.commits = [10] ∧ s.cell = join 1 10
    ∧ s.thr 1 = .iCas 20 0 ∧ s.cell ≠ 0                                       -- the CAS of thread 1 will fail
    ∧ (step f s 1).thr 1 = .iCas 20 (join 1 10) ∧ (step f s 1).commits = [10]  -- failed, reloaded
    ∧ s'.thr 1 = .done .unit ∧ s'.commits = [10, 20] ∧ s'.stored = [0, join 1 10, join 2 15]
    ∧ s'.thr 2 = .done (.probed 2 15)
    ∧ acceptedVals f init [.inc 0 10, .inc 1 20, .step 0, .step 1, .step 0, .step 1, .step 1, .probe 2, .step 2]
        = [10, 20] := by
  refine ⟨⟨_, rfl⟩, ⟨[.inc 0 10, .inc 1 20, .step 0, .step 1, .step 0, .step 1, .step 1, .probe 2, .step 2], rfl⟩, ?_⟩
  decide

/-- `c19_mean_exact` on a concrete list. -/
example : [(1 : ℚ), 2, 6].foldl incAvg (0, 0) = (3, 3) := by
  rw [c19_mean_exact _ (by simp)]; norm_num

end Mutiny.IncAvg

open Mutiny.IncAvg in
#print axioms c19_invariant
open Mutiny.IncAvg in
#print axioms c19_no_lost_update
open Mutiny.IncAvg in
#print axioms c19_cell_fits_u64
open Mutiny.IncAvg in
#print axioms c19_pair_is_recurrence
open Mutiny.IncAvg in
#print axioms c19_commit_step
open Mutiny.IncAvg in
#print axioms c19_failed_cas_step
open Mutiny.IncAvg in
#print axioms c19_only_cas_commits
open Mutiny.IncAvg in
#print axioms c19_inc_in_flight
open Mutiny.IncAvg in
#print axioms c19_exactly_once
open Mutiny.IncAvg in
#print axioms c19_quiescent_no_lost_update
open Mutiny.IncAvg in
#print axioms c19_consistent_pair
open Mutiny.IncAvg in
#print axioms c19_probe_step
open Mutiny.IncAvg in
#print axioms c19_stored_are_prefix_folds
open Mutiny.IncAvg in
#print axioms c19_split_join
open Mutiny.IncAvg in
#print axioms c19_mean_exact
