import Mutiny.Proofs.U32

/-!
# C15 — the `u32` counters may wrap: every decision the rings take from them is the decision of the `Nat` model

`wrap x = x % 2^32` is the machine image of a free-running counter `x` of ANY magnitude (so also after more than `2^32`
events).  Each theorem states under which *window* condition (always a consequence of the ring invariant `Inv`,
`Proofs/RingInv.lean`) the machine computation of `Model/U32.lean` agrees with the `Nat` computation of `Model/Ring.lean`.
`N` a power of two is used only as `N ∣ 2^32` (`hN : M32 % N = 0`).
-/

namespace Mutiny.U32

/-- producer admission test and the reported `len_before` (window: `head ≤ id`, `id - head < 2^32`; the ring invariant gives
    `head ≤ tail ≤ id < enqTail` and `enqTail - head ≤ N + #claimants`) -/
theorem c15_admit (id head N : Nat) (h1 : head ≤ id) (h2 : id - head < M32) :
    admit32 (wrap id) (wrap head) N = decide (id - head < N) ∧ lenBefore32 (wrap id) (wrap head) = id - head := by
  unfold admit32 lenBefore32
  rw [wsub_wrap id head h1 h2]
  exact ⟨rfl, rfl⟩

/-- consumer emptiness test `(tail - id) as i32 > 0`: correct whenever `|tail - id| < 2^31` -/
theorem c15_has_item (tail id : Nat) (h1 : tail ≤ id + 2147483647) (h2 : id ≤ tail + 2147483648) :
    hasItem32 (wrap tail) (wrap id) = decide (id < tail) := by
  unfold hasItem32
  by_cases h : id < tail
  · rw [wsub_wrap tail id (by omega) (by omega), decide_eq_true h, posI32_iff]; omega
  · rw [decide_eq_false h]
    by_cases he : id = tail
    · subst he
      rw [wsub_wrap id id (Nat.le_refl _) (by omega)]
      simp [posI32]
    · rw [wsub_wrap_neg tail id (by omega) (by omega)]
      have : ¬ (posI32 (M32 - (id - tail)) = true) := by rw [posI32_iff]; omega
      simpa using this

/-- … the bounds follow from the ring invariant (`head ≤ id < deqHead` for a consumer-side holder, `head ≤ tail ≤ head + N`)
    when `N < 2^31` and fewer than `2^31` consumer claims are outstanding -/
theorem c15_has_item_ring (head tail deqHead id N : Nat) (hHT : head ≤ tail) (hTN : tail ≤ head + N)
    (hid1 : head ≤ id) (hid2 : id < deqHead) (hNs : N ≤ 2147483647) (hclaims : deqHead ≤ head + 2147483648) :
    hasItem32 (wrap tail) (wrap id) = decide (id < tail) :=
  c15_has_item tail id (by omega) (by omega)

/-- slot index -/
theorem c15_index (id N : Nat) (hN : M32 % N = 0) : index32 (wrap id) N = id % N :=
  mod_wrap id N hN

/-- `available_elements_count` -/
theorem c15_len (tail head : Nat) (h1 : head ≤ tail) (h2 : tail - head < M32) :
    len32 (wrap tail) (wrap head) = tail - head :=
  wsub_wrap tail head h1 h2

/-- full-sync admission test -/
theorem c15_fs_admit (tail head N : Nat) (h1 : head ≤ tail) (h2 : tail - head < M32) :
    fsAdmit32 (wrap tail) (wrap head) N = decide (tail - head < N) := by
  unfold fsAdmit32; rw [wsub_wrap tail head h1 h2]

/-- a CAS on the wrapped counter succeeds exactly when the `Nat` CAS does (expected and current value less than `2^32`
    apart — in the rings they are at most `N + #threads` apart), and the new value is the image of the successor -/
theorem c15_cas_eq (a b : Nat) (h1 : a ≤ b) (h2 : b < a + M32) :
    (wrap a = wrap b ↔ a = b) ∧ wadd (wrap a) 1 = wrap (a + 1) ∧ wadd (wrap b) 1 = wrap (b + 1) :=
  ⟨wrap_eq_iff a b h1 h2, wadd_wrap_one a, wadd_wrap_one b⟩

/-- the checked `*` and `+` of the lap re-guess never overflow (no panic), for any reloaded counter value -/
theorem c15_no_overflow (idx x g N : Nat) (hx : x < M32) (hidx : idx < N) (hN : M32 % N = 0) :
    cmul (x / N) N = some ((x / N) * N) ∧ cadd idx ((x / N) * N) = some (idx + (x / N) * N) ∧
    idx + (x / N) * N < M32 ∧ pubReguess32 idx g x N ≠ none ∧ canReguess32 idx g x N ≠ none := by
  have hlb := lap_bound x N hx (by omega) hN
  refine ⟨cmul_lap x N hx (by omega) hN, cadd_lap idx x N hx hidx hN, by omega, ?_, ?_⟩
  · by_cases hc : x / N > g / N
    · rw [pubReguess32_pos idx g x N hx hidx hN hc]; simp
    · rw [pubReguess32_neg idx g x N hc]; simp
  · by_cases hc : wsub x 1 / N > g / N
    · rw [canReguess32_pos idx g x N _ rfl (wsub_lt x 1) hidx hN hc]; simp
    · rw [canReguess32_neg idx g x N _ rfl hc]; simp

/-- publish-by-index at any counter magnitude: with the caller's id in the admitted window `tail ≤ id < tail + N`, the call
    (initial guess = the index, at most one lap re-guess) publishes iff it is the caller's turn, then by a CAS on the image of
    its own id; otherwise it says "retry later"; it never panics -/
theorem c15_pub_guess_exact (tail id idx N : Nat) (h1 : tail ≤ id) (h2 : id < tail + N) (hidx : idx = id % N)
    (hN : M32 % N = 0) :
    (∀ g, pubIdx32 idx (wrap tail) N 3 idx = some (some g) → g = wrap id ∧ tail = id) ∧
    (tail = id → pubIdx32 idx (wrap tail) N 3 idx = some (some (wrap id))) ∧
    (tail ≠ id → pubIdx32 idx (wrap tail) N 3 idx = some none) ∧
    pubIdx32 idx (wrap tail) N 3 idx ≠ none := by
  have hpos : 0 < N := by omega
  have hi : idx < N := hidx ▸ Nat.mod_lt _ hpos
  rw [pubIdx32_eq idx (wrap tail) N (wrap_lt _) hi hN]
  unfold guess2
  rw [mod_wrap tail N hN, hidx]
  by_cases he : tail % N = id % N
  · have : tail = id := eq_of_mod_eq_window tail id N h1 h2 he
    subst this
    simp
  · have : tail ≠ id := fun e => he (e ▸ rfl)
    simp [he, this]

/-- cancel-by-index (repaired source: `wrapping_sub(1)`) at any counter magnitude: with `tail ≤ id < enqTail ≤ tail + N` (no
    over-claim outstanding, cf. `AllAdmitted` in C08) the call cancels iff the caller holds the newest claim
    (`enqTail = id + 1`), then by a CAS on the image of its own id; otherwise it returns `false`; it never panics -/
theorem c15_cancel_guess (tail id enqTail idx N : Nat) (h1 : tail ≤ id) (h2 : id < enqTail) (h3 : enqTail ≤ tail + N)
    (hidx : idx = id % N) (hN : M32 % N = 0) :
    (∀ g, canIdx32 canReguess32 idx (wrap enqTail) N 3 idx = some (some g) → g = wrap id ∧ enqTail = id + 1) ∧
    (enqTail = id + 1 → canIdx32 canReguess32 idx (wrap enqTail) N 3 idx = some (some (wrap id))) ∧
    (enqTail ≠ id + 1 → canIdx32 canReguess32 idx (wrap enqTail) N 3 idx = some none) ∧
    canIdx32 canReguess32 idx (wrap enqTail) N 3 idx ≠ none := by
  have hpos : 0 < N := by omega
  have hi : idx < N := hidx ▸ Nat.mod_lt _ hpos
  rw [canIdx32_eq idx (wrap enqTail) N (wrap (enqTail - 1)) (wrap_lt _) (wsub_wrap_one enqTail (by omega)) hi hN]
  unfold guess2
  rw [mod_wrap (enqTail - 1) N hN, hidx]
  by_cases he : (enqTail - 1) % N = id % N
  · have : id = enqTail - 1 := eq_of_mod_eq_window id (enqTail - 1) N (by omega) (by omega) he.symm
    have e2 : enqTail = id + 1 := by omega
    subst e2
    simp
  · have : enqTail ≠ id + 1 := fun e => he (by rw [e]; rfl)
    simp [he, this]

/-- KNOWN FINDING D3: the pinned source takes the lap from the *checked* `reloaded_enqueuer_tail - 1`.  With `N = 4`, the
    caller holding id `2^32 - 1` (index 3) and `enqueuer_tail = 2^32` (machine value 0) the pinned call panics, the repaired
    one cancels by a CAS on `2^32 - 1` -/
theorem c15_cancel_wrap_counterexample :
    canIdx32 canReguessPinned32 3 (wrap M32) 4 3 3 = none ∧
    canIdx32 canReguess32 3 (wrap M32) 4 3 3 = some (some (wrap (M32 - 1))) ∧ wrap (M32 - 1) = 4294967295 := by
  decide

/-! ## non-vacuity: counters far beyond `2^32`, windows straddling the wrap point -/

example : admit32 (wrap (3 * M32 + 5)) (wrap (3 * M32 + 2)) 8 = true ∧ lenBefore32 (wrap (M32 + 1)) (wrap (M32 - 2)) = 3 := by
  decide
example : hasItem32 (wrap (2 * M32 + 1)) (wrap (2 * M32 - 1)) = true ∧ hasItem32 (wrap (2 * M32 - 1)) (wrap (2 * M32 + 1)) = false := by
  decide
example : pubIdx32 1 (wrap (5 * M32 + 9)) 8 3 1 = some (some (wrap (5 * M32 + 9))) ∧
    pubIdx32 2 (wrap (5 * M32 + 9)) 8 3 2 = some none := by decide
example : canIdx32 canReguess32 1 (wrap (5 * M32 + 10)) 8 3 1 = some (some (wrap (5 * M32 + 9))) ∧
    canIdx32 canReguess32 0 (wrap (5 * M32 + 10)) 8 3 0 = some none := by decide

#print axioms c15_admit
#print axioms c15_has_item
#print axioms c15_has_item_ring
#print axioms c15_index
#print axioms c15_len
#print axioms c15_fs_admit
#print axioms c15_cas_eq
#print axioms c15_no_overflow
#print axioms c15_pub_guess_exact
#print axioms c15_cancel_guess
#print axioms c15_cancel_wrap_counterexample

end Mutiny.U32
