import Mutiny.Proofs.RingProps

/-!
# C01 — every accepted value is delivered exactly once; nothing else is delivered; rejected values leave no trace

Scope: every `n > 0`, every `s` with `ReachableX n s` (see `Props/C02.lean` / `Proofs/RingInv.lean` for the one excluded
transition, the index-based *cancel* that hits a foreign sequence number; C01 does not talk about cancel).
`accepted[k]` = value published with sequence number `k`; `delivered` = `(thread, sequence number, value)` in release order.
-/

namespace Mutiny.Ring

variable {n : Nat} {s : St}

/-- no sequence number is delivered twice -/
theorem c01_delivered_distinct (hn : 0 < n) (hr : ReachableX n s) : (s.delivered.map (·.2.1)).Nodup := by
  rw [(reachable_inv hn hr).delIds]; exact List.nodup_range

/-- what is delivered under sequence number `k` is the value that was accepted under `k` -/
theorem c01_delivered_was_accepted (hn : 0 < n) (hr : ReachableX n s) (t k v : Nat) (hm : (t, k, v) ∈ s.delivered) :
    s.accepted[k]? = some v :=
  (delivered_was_accepted s (reachable_inv hn hr) t k v hm).1

/-- every accepted sequence number is already delivered or still intact in its slot -/
theorem c01_no_loss (hn : 0 < n) (hr : ReachableX n s) :
    ∀ k, k < s.tail → (∃ t v, (t, k, v) ∈ s.delivered) ∨ (s.head ≤ k ∧ s.accepted[k]? = some (s.buf (k % s.N))) := by
  have hi := reachable_inv hn hr
  intro k hk
  by_cases hk' : k < s.head
  · exact Or.inl (released_mem_delivered s hi k hk')
  · exact Or.inr ⟨by omega, hi.bufOk k (by omega) hk⟩

theorem step_rLen (x : St) (t g : Nat) (e : x.thr t = .rLen g) :
    step x t = setThr x t (.done (.pubIdx (some (max 1 (U32.wsub (U32.wrap g) (U32.wrap x.head)))))) := by
  simp only [step, e]

/-- `accepted` grows only by a successful `tail` CAS of the publishing thread — by exactly the value that thread
    wrote under its own sequence number — and that thread then reports success (after measuring the length at `pLen`,
    from where the only step leads to `done (sent _)`); no other action touches it -/
theorem c01_accept_only_by_success (hn : 0 < n) (hr : ReachableX n s) :
    (∀ a, (∀ t, a ≠ .step t) → (apply s a).accepted = s.accepted) ∧
    ∀ t, (step s t).accepted = s.accepted
      ∨ (∃ v id len, s.thr t = .pPublish v id len ∧ s.tail = id ∧ s.buf (id % s.N) = v ∧
            (step s t).accepted = s.accepted ++ [v] ∧ (step s t).thr t = .pLen id ∧
            ∃ l, (step (step s t) t).thr t = .done (.sent l))
      ∨ (∃ id idx g, s.thr t = .rPub id idx g ∧ s.tail = g ∧ g = id ∧ idx = id % s.N ∧
            (step s t).accepted = s.accepted ++ [s.buf idx] ∧
            (step s t).thr t = .rLen g ∧ ∃ l, (step (step s t) t).thr t = .done (.pubIdx (some l))) := by
  have hi := reachable_inv hn hr
  refine ⟨fun a ha => (apply_frame s a ha).2.2.2.2.1, ?_⟩
  intro t
  cases hl : s.thr t with
  | pPublish v id len =>
    by_cases he : s.tail = id
    · exact Or.inr (Or.inl ⟨v, id, len, rfl, he, hi.wrOk t v id len hl, by simp [step, hl, he], by simp [step, hl, he],
        ⟨max 1 (id + 1 - s.head), by simp [step, hl, he]⟩⟩)
    · left; simp [step, hl, he]
  | rPub id idx g =>
    by_cases he : s.tail = g
    · have me := hi.pRange t id (by simp [hl, holdsP])
      have me2 := hi.pOk t id (by simp [hl, passedP])
      have me3 := hi.idxOk t id idx g (Or.inl hl)
      have := hi.hTN; have := hi.hHT
      have hg : g = id :=
        eq_of_mod_eq_of_window (a := s.tail) (N := s.N) (by omega) (by omega) (by omega) (by omega) (by omega)
      have e1 : (step s t).thr t = .rLen g := by simp [step, hl, he]
      exact Or.inr (Or.inr ⟨id, idx, g, rfl, he, hg, me3.1, by simp [step, hl, he], e1,
        ⟨max 1 (U32.wsub (U32.wrap g) (U32.wrap (step s t).head)), by rw [step_rLen _ t g e1]; simp⟩⟩)
    · left; simp only [step, hl, he, if_false]; split <;> rfl
  | _ =>
    left
    simp only [step, hl]
    try ((repeat' split) <;> rfl)

/-- a `send` that is going to be rejected has not written anything: up to and including the recede, the producer's
    steps leave buffer, history and both public counters untouched (holds in every state) -/
theorem c01_reject_untouched (s : St) (t : Nat)
    (h : (∃ v rsv, s.thr t = .pFetch v rsv) ∨ (∃ v id rsv, s.thr t = .pLoadHead v id rsv) ∨
         (∃ v id rsv w, s.thr t = .pRecede v id rsv w)) :
    (step s t).buf = s.buf ∧ (step s t).accepted = s.accepted ∧ (step s t).delivered = s.delivered ∧
    (step s t).tail = s.tail ∧ (step s t).head = s.head := by
  rcases h with ⟨v, rsv, h⟩ | ⟨v, id, rsv, h⟩ | ⟨v, id, rsv, w, h⟩ <;> simp only [step, h] <;>
    (repeat' split) <;> simp

/-! ## non-vacuity -/

/-- one value sent and received: accepted once, delivered once -/
example : let s := run (init 2) [.send 0 5, .step 0, .step 0, .step 0, .step 0, .recv 1, .step 1, .step 1, .step 1, .step 1]
    ReachableX 2 s ∧ s.accepted = [5] ∧ s.delivered = [(1, 0, 5)] ∧ s.thr 1 = .done (.got 5) :=
  ⟨reachableX_of_noCancel 2 _ (by intro t; simp), by decide, by decide, by decide⟩

/-- a rejected send (ring of size 1 already full) -/
example : let s := run (init 1) [.send 0 5, .step 0, .step 0, .step 0, .step 0, .send 1 6, .step 1, .step 1, .step 1]
    s.thr 1 = .done .full ∧ s.accepted = [5] ∧ s.buf 0 = 5 := by decide

#print axioms c01_delivered_distinct
#print axioms c01_delivered_was_accepted
#print axioms c01_no_loss
#print axioms c01_accept_only_by_success
#print axioms c01_reject_untouched

end Mutiny.Ring
