import Mutiny.Proofs.RingProps

/-!
# C02 — the ring behaves as ONE atomic bounded FIFO queue

Scope: every `n > 0`, every state `s` with `ReachableX n s`, i.e. reachable from `init n` by *any* action list (any number
of threads, any schedule, any length) in which no index-based cancel CAS succeeds on a foreign sequence number
(`Mutiny/Proofs/RingInv.lean`: `CanExact`, `cancel_steals`).  All executions built from `send`/`recv`/`len`/`reserve`/
`fill`/`pubIdx`/`step`/`ack` — everything C02 talks about — are in scope (`reachableX_of_noCancel`).

Abstract queue: `abs s = accepted.drop head` (published and not yet released).
Linearization points: successful `tail` CAS (enqueue), successful `head` CAS (dequeue of the front element); the
`empty` / `full` answers are justified by the ghost witnesses loaded inside the same call.
-/

namespace Mutiny.Ring

variable {n : Nat} {s : St}

/-- the queue never holds more than `N` elements -/
theorem c02_capacity (hn : 0 < n) (hr : ReachableX n s) : s.tail - s.head ≤ s.N ∧ (abs s).length ≤ s.N := by
  have h := reachable_inv hn hr
  have := h.hTN
  rw [abs_length s h]; omega

/-- every micro-step is either invisible, or exactly one abstract enqueue at the back (the thread then goes on to measure
    the length it reports, `c02_sent_len` / `c08_publish_idx_len`), or exactly one abstract dequeue of the front element (and the thread returns it) -/
theorem c02_step_abs (hn : 0 < n) (hr : ReachableX n s) (t : Nat) :
    abs (step s t) = abs s
    ∨ (∃ v id len, s.thr t = .pPublish v id len ∧ abs (step s t) = abs s ++ [v] ∧ (abs s).length < s.N
          ∧ (step s t).thr t = .pLen id)
    ∨ (∃ id idx g, s.thr t = .rPub id idx g ∧ abs (step s t) = abs s ++ [s.buf idx] ∧ (abs s).length < s.N
          ∧ (step s t).thr t = .rLen g)
    ∨ (∃ id v, s.thr t = .cRelease id v ∧ abs s = v :: abs (step s t) ∧ (step s t).thr t = .done (.got v)) :=
  step_abs s t (reachable_inv hn hr)

/-- the length an accepted `send` reports is measured after the publication: the number of elements up to and including
    its own that are still unreleased at that instant (never less than 1, never more than `N`) -/
theorem c02_sent_len (hn : 0 < n) (hr : ReachableX n s) (t id : Nat) (ht : s.thr t = .pLen id) :
    (step s t).thr t = .done (.sent (max 1 (id + 1 - s.head))) ∧ max 1 (id + 1 - s.head) ≤ s.N ∧ id < s.tail := by
  have h := reachable_inv hn hr
  have := h.lenOk t id ht; have := h.hTN; have := h.npos
  refine ⟨by simp [step, ht], by omega, by omega⟩

/-- calls, `fill`, acknowledgements: never visible (holds in every state, reachable or not) -/
theorem c02_call_abs (s : St) (a : Act) (h : ∀ t, a ≠ .step t) : abs (apply s a) = abs s :=
  abs_congr (apply_frame s a h).2.2.2.2.1 (apply_frame s a h).1

/-- `empty` is answered only if the abstract queue was empty when the same call loaded `head`:
    * the ghost `w` recorded at the `head` load says exactly "`abs = []` now";
    * `cChkTail h w` is entered only by that load;
    * if the subsequent `tail` load returns `h` then `w = true`;
    * `done empty` is entered only from `cChkTail h true` with `tail = h`. -/
theorem c02_empty_witness (hn : 0 < n) (hr : ReachableX n s) (t : Nat) :
    (s.thr t = .cChkHead → ((step s t).thr t = .cChkTail s.head true ↔ abs s = [])) ∧
    (∀ h w, s.thr t = .cChkTail h w → s.tail = h → w = true) ∧
    (∀ a h w, (apply s a).thr t = .cChkTail h w → s.thr t = .cChkTail h w ∨
        (a = .step t ∧ s.thr t = .cChkHead ∧ h = s.head ∧ (w = true ↔ abs s = []))) ∧
    (∀ a, (apply s a).thr t = .done .empty → s.thr t = .done .empty ∨
        (a = .step t ∧ ∃ h, s.thr t = .cChkTail h true ∧ s.tail = h)) := by
  have hi := reachable_inv hn hr
  have hnil := abs_eq_nil_iff s hi
  refine ⟨?_, ?_, ?_, ?_⟩
  · intro ht
    simp [step, ht, hnil]
  · intro h w ht he
    have := (hi.chkOk t h w ht).2
    cases w
    · have := this rfl; omega
    · rfl
  · intro a h w ha
    rcases apply_chkTail_origin s a t h w ha with h' | ⟨h1, h2, h3, h4⟩
    · exact Or.inl h'
    · exact Or.inr ⟨h1, h2, h3, by rw [h4, hnil]; simp⟩
  · intro a ha
    rcases apply_done_origin s a t _ ha with h' | ⟨h1, h2⟩
    · exact Or.inl h'
    · rcases step_done_origin s t _ h2 with h' | h' | h' | h' | h' | h' | h' | h'
      · exact Or.inl h'
      · obtain ⟨_, _, _, _, _, _, e⟩ := h'; cases e
      · obtain ⟨_, _, e⟩ := h'; cases e
      · obtain ⟨_, _, e⟩ := h'; cases e
      · obtain ⟨_, _, _, _, _, e⟩ := h'; cases e
      · obtain ⟨h, w, e1, e2, _⟩ := h'
        have := (hi.chkOk t h w e1).2
        cases w
        · have := this rfl; omega
        · exact Or.inr ⟨h1, h, e1, e2⟩
      · obtain ⟨_, _, _, _, e⟩ := h'; cases e
      · obtain ⟨_, _, e⟩ := h'; cases e

/-- `full` is answered only if all `N` sequence numbers `head .. head+N-1` were taken when the same call loaded `head`:
    * at a `head` load that fails the admission test every sequence number of the window is published-and-unreleased or
      claimed by another producer-side thread, and the ghost `w = true` is recorded;
    * the ghost of every `pRecede` is `true`;
    * `done full` is entered only from `pRecede` (by the successful recede CAS). -/
theorem c02_full_witness (hn : 0 < n) (hr : ReachableX n s) (t : Nat) :
    (∀ v id rsv w, s.thr t = .pRecede v id rsv w → w = true) ∧
    (∀ v id rsv, s.thr t = .pLoadHead v id rsv → ¬ (id - s.head < s.N) →
        (step s t).thr t = .pRecede v id rsv true ∧
        ∀ k, s.head ≤ k → k < s.head + s.N → k < s.tail ∨ ∃ u, u ≠ t ∧ holdsP (s.thr u) k) ∧
    (∀ a, (apply s a).thr t = .done .full → s.thr t = .done .full ∨
        (a = .step t ∧ ∃ v id rsv, s.thr t = .pRecede v id rsv true ∧ s.enqTail = id + 1)) := by
  have hi := reachable_inv hn hr
  refine ⟨fun v id rsv w ht => hi.recOk t v id rsv w ht, fun v id rsv ht hf => full_witness s hi t v id rsv ht hf, ?_⟩
  intro a ha
  rcases apply_done_origin s a t _ ha with h' | ⟨h1, h2⟩
  · exact Or.inl h'
  · rcases step_done_origin s t _ h2 with h' | h' | h' | h' | h' | h' | h' | h'
    · exact Or.inl h'
    · obtain ⟨v, id, rsv, w, e1, e2, _⟩ := h'
      have := hi.recOk t v id rsv w e1; subst this
      exact Or.inr ⟨h1, v, id, rsv, e1, e2⟩
    · obtain ⟨_, _, e⟩ := h'; cases e
    · obtain ⟨_, _, e⟩ := h'; cases e
    · obtain ⟨_, _, _, _, _, e⟩ := h'; cases e
    · obtain ⟨_, _, _, _, e⟩ := h'; cases e
    · obtain ⟨_, _, _, _, e⟩ := h'; cases e
    · obtain ⟨_, _, e⟩ := h'; cases e

/-- values leave in exactly the order they were accepted, sequence numbers `0, 1, 2, …` without gap or repetition -/
theorem c02_fifo (hn : 0 < n) (hr : ReachableX n s) :
    s.delivered.map (·.2.2) = s.accepted.take s.head ∧ s.delivered.map (·.2.1) = List.range s.head :=
  ⟨(reachable_inv hn hr).delVals, (reachable_inv hn hr).delIds⟩

/-! ## non-vacuity -/

/-- `fullRun` (in `RingProps.lean`): two producers fill a ring of size 2, a third finds it full -/
example : ReachableX 2 (run (init 2) fullRun) ∧ abs (run (init 2) fullRun) = [6, 5] ∧
    (abs (run (init 2) fullRun)).length = (run (init 2) fullRun).N ∧
    (run (init 2) fullRun).thr 2 = .pRecede 7 2 false true :=
  ⟨reachableX_of_noCancel 2 fullRun (by intro t; simp [fullRun]), by decide, by decide, by decide⟩

/-- a state in which the next step of thread 0 is the enqueue linearization point (2nd disjunct of `c02_step_abs`) -/
example : let s := run (init 2) [.send 0 5, .step 0, .step 0, .step 0]
    s.thr 0 = .pPublish 5 0 0 ∧ abs (step s 0) = abs s ++ [5] ∧ (step s 0).thr 0 = .pLen 0 ∧
      (step (step s 0) 0).thr 0 = .done (.sent 1) := by decide

/-- … the index-based publish (3rd disjunct) -/
example : let s := run (init 2) [.reserve 0, .step 0, .step 0, .ack 0, .fill 0 9, .pubIdx 0]
    s.thr 0 = .rPub 0 0 0 ∧ abs (step s 0) = abs s ++ [9] := by decide

/-- … the dequeue linearization point (4th disjunct) -/
example : let s := run (init 2) [.send 0 5, .step 0, .step 0, .step 0, .step 0, .recv 1, .step 1, .step 1, .step 1]
    s.thr 1 = .cRelease 0 5 ∧ abs s = 5 :: abs (step s 1) := by decide

/-- an `empty` answer (ghost witness `true`) and a consumer that must *not* answer `empty` (witness `false`) -/
example : (run (init 2) [.recv 0, .step 0, .step 0, .step 0, .step 0]).thr 0 = .cChkTail 0 true := by decide
example : (run (init 2) [.recv 0, .step 0, .step 0, .step 0, .send 1 5, .step 1, .step 1, .step 1, .step 1, .step 0]).thr 0
    = .cChkTail 0 false := by decide

#print axioms c02_capacity
#print axioms c02_step_abs
#print axioms c02_sent_len
#print axioms c02_call_abs
#print axioms c02_empty_witness
#print axioms c02_full_witness
#print axioms c02_fifo

end Mutiny.Ring
