import Mutiny.Proofs.HandlesProps

/-!
# C14 — shared (`OgreArc`) and unique (`OgreUnique`) owners of one pooled value

Scope: every pool size `n`, every thread count, every schedule: all statements are about every `s` with `Reachable n s`
(or about *every* state when no hypothesis `Reachable` is listed).  `getCB s i` = control block `i`; `rc` is the real
counter, `live`/`lent`/`owed` the ghost census of handles (existing and idle / in use by a call in progress / announced
by `increment_references` and not yet materialised by `raw_copy`).  `pointOf (s.thr t) = some i` says: thread `t` is inside
a `clone` / `increment_references` / `drop` (before its `fetch_sub`) / `references_count` call on control block `i`.
-/

namespace Mutiny.Handles

variable {n : Nat} {s : St}

/-- while at least one handle exists, the slot it points to holds the value it was created with and that value has not
    been destroyed; the same for unique handles -/
theorem c14_deref_stable (hr : Reachable n s) :
    (∀ i, i < s.cbs.length → (getCB s i).live + (getCB s i).lent > 0 →
        s.slot (getCB s i).id = (getCB s i).val ∧ s.alive (getCB s i).id = true) ∧
    (∀ u ∈ s.uniques, s.alive u = true) := by
  have hi := reachable_inv hr
  refine ⟨fun i _ hh => ?_, fun u hu => (hi.uniqOk u hu).2.2⟩
  have ho := owns_of_owning hi (held_owning hi (i := i) (by omega))
  exact ⟨(hi.ownOk i ho).2.2.2.2, ho.2.1⟩

/-- what `deref` answers is the value the shared handle was created with -/
theorem c14_deref_value (hr : Reachable n s) (t i : Nat) (ht : s.thr t = .idle) (hu : usable s i = true) :
    (apply s (.deref t i)).thr t = .done (.value (getCB s i).val) := by
  have hu' := hu
  simp only [usable, Bool.and_eq_true, decide_eq_true_eq] at hu'
  have := ((c14_deref_stable hr).1 i hu'.1 (by omega)).1
  simp [apply, ht, hu, this]

/-- a held slot is not in the free list … -/
theorem c14_held_not_free (hr : Reachable n s) :
    (∀ i, (getCB s i).live + (getCB s i).lent + (getCB s i).owed > 0 → (getCB s i).id ∉ s.free) ∧
    (∀ u ∈ s.uniques, u ∉ s.free) := by
  have hi := reachable_inv hr
  exact ⟨fun i hh => (hi.ownOk i (owns_of_owning hi (held_owning hi hh))).2.2.1, fun u hu => (hi.uniqOk u hu).2.1⟩

/-- … and no action of anybody writes a slot that is not in the free list (every state, every action) -/
theorem c14_no_write_while_held (s : St) (a : Act) (id : Nat) (h : id ∉ s.free) :
    (apply s a).slot id = s.slot id :=
  slot_apply_of_not_free s a id h

/-- when no call is in progress on control block `i` and no announced copy is pending, the counter equals the number
    of handles -/
theorem c14_count (hr : Reachable n s) (i : Nat) (hp : ∀ t, pointOf (s.thr t) ≠ some i)
    (ho : (getCB s i).owed = 0) : (getCB s i).rc = (getCB s i).live := by
  have hi := reachable_inv hr
  have := lent_zero_of_no_thread hi i hp
  have := hi.rcSum i
  omega

/-- in general: the counter is the census of all handles, and at least the number of calls in progress -/
theorem c14_count_general (hr : Reachable n s) (i : Nat) :
    (getCB s i).rc = (getCB s i).live + (getCB s i).lent + (getCB s i).owed ∧
    ∀ ts : List Nat, ts.Nodup → (∀ t ∈ ts, pointOf (s.thr t) = some i) → ts.length ≤ (getCB s i).lent := by
  have hi := reachable_inv hr
  exact ⟨hi.rcSum i, fun ts hn hp => parked_le_lent hi i ts hn hp⟩

/-- `references_count` answers the counter -/
theorem c14_count_answer (s : St) (t i : Nat) (ht : s.thr t = .count i) :
    (step s t).thr t = .done (.count (getCB s i).rc) := by
  simp [step, ht]

/-- the destructor of a shared value is run by exactly the thread whose `fetch_sub` saw 1 — at the `pa.dealloc.drop`
    step that follows it: `dDec (rc = 1) → dDealloc → dDestroy → dRelease → dFree`; any other `fetch_sub` returns at
    once and destroys nothing; the steps in between touch neither log nor pool (every state) -/
theorem c14_last_drop (s : St) (t i : Nat) :
    (s.thr t = .dDec i →
      ((getCB s i).rc = 1 → (step s t).thr t = .dDealloc i ∧ (step s t).dropLog = s.dropLog) ∧
      ((getCB s i).rc ≠ 1 → (step s t).thr t = .done .unit ∧ (step s t).dropLog = s.dropLog)) ∧
    (s.thr t = .dDealloc i →
      (step s t).thr t = .dDestroy i ∧ (step s t).dropLog = s.dropLog ∧ (step s t).free = s.free ∧
      (step s t).alive = s.alive) ∧
    (s.thr t = .dDestroy i →
      (step s t).thr t = .dRelease i ∧ (step s t).free = s.free ∧ (step s t).alive (getCB s i).id = false ∧
      (step s t).dropLog = s.dropLog ++ [((getCB s i).id, s.slotGen (getCB s i).id, s.slot (getCB s i).id)]) ∧
    (s.thr t = .dRelease i →
      (step s t).thr t = .dFree i ∧ (step s t).free = s.free ++ [(getCB s i).id] ∧ (step s t).dropLog = s.dropLog) := by
  refine ⟨fun ht => ⟨fun h1 => ?_, fun h1 => ?_⟩, fun ht => ?_, fun ht => ?_, fun ht => ?_⟩
  · simp [step, ht, h1]
  · simp [step, ht, h1]
  · simp [step, ht]
  · simp [step, ht]
  · simp [step, ht]

/-- the entry logged at that `dDestroy` step is the control block's own payload: its slot, its generation, the value
    it was created with -/
theorem c14_last_drop_entry (hr : Reachable n s) (t i : Nat) (ht : s.thr t = .dDestroy i) :
    (step s t).dropLog = s.dropLog ++ [((getCB s i).id, (getCB s i).gen, (getCB s i).val)] := by
  have hi := reachable_inv hr
  have ho := hi.ddOwns t i (by simp [ht, ownTail])
  rw [((c14_last_drop s t i).2.2.1 ht).2.2.2, ho.2.2, (hi.ownOk i ho).2.2.2.2]

/-- … and at that moment its handle is the only one left, the counter is never 0 at a `fetch_sub`, and after the step
    the counter is 0 and nobody else is working on that control block -/
theorem c14_last_drop_sole (hr : Reachable n s) (t i : Nat) (ht : s.thr t = .dDec i) :
    (getCB s i).rc ≥ 1 ∧
    ((getCB s i).rc = 1 → (getCB s i).live = 0 ∧ (getCB s i).owed = 0 ∧ (getCB s i).lent = 1 ∧
        ∀ u, pointOf (s.thr u) = some i → u = t) := by
  have hi := reachable_inv hr
  have hp : pointOf (s.thr t) = some i := by simp [ht, pointOf]
  have h1 := (hi.point_lt hp).2
  have h2 := hi.lent_pos hp
  have h3 := hi.rcSum i
  refine ⟨h1, fun hrc => ⟨by omega, by omega, by omega, fun u hu => ?_⟩⟩
  apply Classical.byContradiction
  intro hne
  have := parked_le_lent hi i [u, t] (by simp [hne]) (by intro x hx; simp at hx; rcases hx with rfl | rfl <;> assumption)
  simp at this
  omega

/-- the destructor log changes only at a `pa.dealloc.drop` step (`dDestroy` for a shared value, `uDestroy` for a
    unique one), by one entry: the slot of that very control block / unique handle (every state, every action) -/
theorem c14_droplog_only (s : St) (a : Act) :
    (apply s a).dropLog = s.dropLog ∨
    (∃ t i, a = .step t ∧ s.thr t = .dDestroy i ∧
        (apply s a).dropLog = s.dropLog ++ [((getCB s i).id, s.slotGen (getCB s i).id, s.slot (getCB s i).id)]) ∨
    (∃ t x, a = .step t ∧ s.thr t = .uDestroy x ∧
        (apply s a).dropLog = s.dropLog ++ [(x, s.slotGen x, s.slot x)]) :=
  dropLog_apply s a

/-- every allocation generation is destroyed at most once -/
theorem c14_drop_once (hr : Reachable n s) : (s.dropLog.map (·.2.1)).Nodup :=
  (reachable_inv hr).logNodup

/-- never while a handle (existing, in use, or announced) is left -/
theorem c14_not_destroyed_while_held (hr : Reachable n s) (i : Nat)
    (hh : (getCB s i).live + (getCB s i).lent + (getCB s i).owed > 0) :
    (getCB s i).gen ∉ s.dropLog.map (·.2.1) := by
  have hi := reachable_inv hr
  have ho := owns_of_owning hi (held_owning hi hh)
  have := hi.aliveNotLogged (getCB s i).id ho.2.1
  rwa [ho.2.2] at this

/-- `OgreUnique::into` (unique → shared) re-labels the owner and touches neither the pool nor the value -/
theorem c14_into_arc (s : St) (t id : Nat) (ht : s.thr t = .idle) (hm : id ∈ s.uniques) :
    (apply s (.intoArc t id)).dropLog = s.dropLog ∧ (apply s (.intoArc t id)).free = s.free ∧
    (apply s (.intoArc t id)).slot = s.slot ∧ (apply s (.intoArc t id)).alive = s.alive ∧
    (apply s (.intoArc t id)).uniques = s.uniques.erase id ∧
    (apply s (.intoArc t id)).thr t = .done (.arc s.cbs.length) ∧
    (getCB (apply s (.intoArc t id)) s.cbs.length).rc = 1 ∧
    (getCB (apply s (.intoArc t id)) s.cbs.length).live = 1 ∧
    (getCB (apply s (.intoArc t id)) s.cbs.length).id = id ∧
    (getCB (apply s (.intoArc t id)) s.cbs.length).val = s.slot id := by
  have e : apply s (.intoArc t id) = setThr (pushCB (withUniques s (s.uniques.erase id))
      { id := id, rc := 1, live := 1, lent := 0, owed := 0, freed := false, val := s.slot id, gen := s.slotGen id })
      t (.done (.arc s.cbs.length)) := by
    simp only [apply, ht, hm, and_self, if_true]; rfl
  rw [e]
  simp [getCB_pushCB]

/-- … and the new shared handle owns the slot (so all of the above applies to it) -/
theorem c14_into_arc_owning (s : St) (t id : Nat) (ht : s.thr t = .idle) (hm : id ∈ s.uniques) :
    Owning (apply s (.intoArc t id)) s.cbs.length := by
  have h := c14_into_arc s t id ht hm
  have hlen : (apply s (.intoArc t id)).cbs.length = s.cbs.length + 1 := by
    simp [apply, ht, hm]
  exact ⟨by omega, Or.inl (by omega)⟩

/-- bulk acquisition: `increment_references(k)` + `k` × `raw_copy` leaves exactly the same state as `k` complete
    `clone`s (every state in which thread `t` is idle and a handle of `i` is available; every `k`) -/
theorem c14_bulk (s : St) (t i k : Nat) (ht : s.thr t = .idle) (hu : usable s i = true) :
    run s ([.incRefs t i k, .step t, .ack t] ++ (List.replicate k [Act.rawCopy t i, Act.ack t]).flatten)
      = run s (List.replicate k [Act.clone t i, Act.step t, Act.ack t]).flatten :=
  bulk_eq_clones s t i k ht hu

/-- … namely: counter and live handles grow by `k`, nothing stays announced -/
theorem c14_bulk_counts (s : St) (t i k : Nat) (ht : s.thr t = .idle) (hu : usable s i = true) :
    getCB (run s ([.incRefs t i k, .step t, .ack t] ++ (List.replicate k [Act.rawCopy t i, Act.ack t]).flatten)) i
      = { getCB s i with rc := (getCB s i).rc + k, live := (getCB s i).live + k } := by
  have hu' := hu
  simp only [usable, Bool.and_eq_true, decide_eq_true_eq] at hu'
  rw [c14_bulk s t i k ht hu, clone_loop t i k s ht hu, getCB_updCB]
  simp [hu'.1]

/-! ## non-vacuity -/

/-- two handles dropped concurrently: the first `fetch_sub` sees 2, the second sees 1 and destroys -/
example : let s := run (init 2) [.newArc 0 7 1, .ack 0, .clone 0 0, .step 0, .ack 0, .dropArc 0 0, .dropArc 1 0,
      .step 0, .step 1]
    Reachable 2 s ∧ s.thr 0 = .done .unit ∧ s.thr 1 = .dDealloc 0 ∧ s.dropLog = [] ∧ s.alive 0 = true ∧
    (getCB s 0).rc = 0 := ⟨⟨_, rfl⟩, by decide, by decide, by decide, by decide, by decide⟩

/-- … `dDealloc → dDestroy`: nothing destroyed yet; `dDestroy → dRelease`: destroyed, slot not yet allocatable -/
example : let s := run (init 2) [.newArc 0 7 1, .ack 0, .clone 0 0, .step 0, .ack 0, .dropArc 0 0, .dropArc 1 0,
      .step 0, .step 1, .step 1]
    s.thr 1 = .dDestroy 0 ∧ s.dropLog = [] ∧ s.alive 0 = true ∧ s.free = [1] := by decide

example : let s := run (init 2) [.newArc 0 7 1, .ack 0, .clone 0 0, .step 0, .ack 0, .dropArc 0 0, .dropArc 1 0,
      .step 0, .step 1, .step 1, .step 1]
    s.thr 1 = .dRelease 0 ∧ s.dropLog = [(0, 1, 7)] ∧ s.alive 0 = false ∧ s.free = [1] := by decide

example : let s := run (init 2) [.newArc 0 7 1, .ack 0, .clone 0 0, .step 0, .ack 0, .dropArc 0 0, .dropArc 1 0,
      .step 0, .step 1, .step 1, .step 1, .step 1, .step 1]
    s.dropLog = [(0, 1, 7)] ∧ s.free = [1, 0] ∧ (getCB s 0).freed = true ∧ s.thr 1 = .done .unit := by decide

/-- `c14_deref_stable` / `c14_count` : one handle cloned once, nobody in a call -/
example : let s := run (init 2) [.newArc 0 7 1, .ack 0, .clone 0 0, .step 0, .ack 0, .deref 1 0]
    (getCB s 0).live = 2 ∧ (getCB s 0).rc = 2 ∧ s.thr 1 = .done (.value 7) ∧ s.slot 0 = 7 := by decide

/-- `c14_last_drop_sole` hypotheses are satisfiable -/
example : let s := run (init 1) [.newArc 0 7 1, .ack 0, .dropArc 0 0]
    s.thr 0 = .dDec 0 ∧ (getCB s 0).rc = 1 ∧ (getCB s 0).lent = 1 := by decide

/-- `c14_into_arc` -/
example : let s := run (init 2) [.newUnique 0 9, .ack 0, .intoArc 0 0]
    s.thr 0 = .done (.arc 0) ∧ (getCB s 0).rc = 1 ∧ (getCB s 0).val = 9 ∧ s.uniques = [] ∧ s.free = [1] := by decide

/-- `c14_bulk`, k = 1 and k = 2, on a concrete state -/
example : let s := run (init 2) [.newArc 0 7 1, .ack 0]
    (getCB (run s [.incRefs 0 0 2, .step 0, .ack 0, .rawCopy 0 0, .ack 0, .rawCopy 0 0, .ack 0]) 0).rc = 3 ∧
    (getCB (run s [.clone 0 0, .step 0, .ack 0, .clone 0 0, .step 0, .ack 0]) 0).rc = 3 ∧
    (getCB (run s [.incRefs 0 0 2, .step 0, .ack 0, .rawCopy 0 0, .ack 0, .rawCopy 0 0, .ack 0]) 0).live = 3 ∧
    (getCB (run s [.incRefs 0 0 2, .step 0, .ack 0, .rawCopy 0 0, .ack 0, .rawCopy 0 0, .ack 0]) 0).owed = 0 := by
  decide

example (s : St) (t i : Nat) (ht : s.thr t = .idle) (hu : usable s i = true) :
    run s [.incRefs t i 1, .step t, .ack t, .rawCopy t i, .ack t] = run s [.clone t i, .step t, .ack t] :=
  c14_bulk s t i 1 ht hu

example (s : St) (t i : Nat) (ht : s.thr t = .idle) (hu : usable s i = true) :
    run s [.incRefs t i 2, .step t, .ack t, .rawCopy t i, .ack t, .rawCopy t i, .ack t]
      = run s [.clone t i, .step t, .ack t, .clone t i, .step t, .ack t] :=
  c14_bulk s t i 2 ht hu

#print axioms c14_deref_stable
#print axioms c14_deref_value
#print axioms c14_held_not_free
#print axioms c14_no_write_while_held
#print axioms c14_count
#print axioms c14_count_general
#print axioms c14_count_answer
#print axioms c14_last_drop
#print axioms c14_last_drop_entry
#print axioms c14_last_drop_sole
#print axioms c14_droplog_only
#print axioms c14_drop_once
#print axioms c14_not_destroyed_while_held
#print axioms c14_into_arc
#print axioms c14_into_arc_owning
#print axioms c14_bulk
#print axioms c14_bulk_counts

end Mutiny.Handles
