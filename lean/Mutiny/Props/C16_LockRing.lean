import Mutiny.Proofs.LockRingProps

/-!
# C16 on the `LockRing` model (`FullSyncMove`): sequential behaviour

With every other thread idle the ring behaves like a bounded FIFO queue: `send` returns `sent (length + 1)` while there
is room and `full` (changing nothing) otherwise; `recv` returns the oldest element or `empty`.  Step counts from the
model: `pLock → pCheck → pWrite → pPublish → pUnlocked → done` (5), `pLock → pCheck → pFullUnlocked → done` (3),
`cLock → cLenT → cLen → cRead → cRelease → cUnlocked → done` (6), `cLock → cLenT → cLen → cEmptyUnlocked → done` (4).
-/

namespace Mutiny.LockRing

/-- In a quiescent state the flag is free. -/
theorem c16_quiescent {n : Nat} {s : St} (hn : 0 < n) (h : Reachable n s) (hidle : ∀ t, s.thr t = .idle) :
    s.locked = false :=
  quiescent_of_inv (reachable_inv hn h) hidle

/-- A solo `send`. -/
theorem c16_solo_send {n : Nat} {s : St} (hn : 0 < n) (h : Reachable n s) (t v : Nat)
    (ho : ∀ u, u ≠ t → s.thr u = .idle) (ht : s.thr t = .idle) :
    ((abs s).length < s.N →
      let s' := run s [.send t v, .step t, .step t, .step t, .step t, .step t]
      s'.thr t = .done (.sent ((abs s).length + 1)) ∧ abs s' = abs s ++ [v] ∧ s'.locked = false
        ∧ (∀ u, u ≠ t → s'.thr u = .idle))
    ∧ ((abs s).length = s.N →
      let s' := run s [.send t v, .step t, .step t, .step t]
      s'.thr t = .done .full ∧ abs s' = abs s ∧ s'.buf = s.buf ∧ s'.tail = s.tail ∧ s'.head = s.head
        ∧ s'.locked = s.locked ∧ s'.accepted = s.accepted ∧ s'.delivered = s.delivered
        ∧ (∀ u, u ≠ t → s'.thr u = .idle)) := by
  have hi := reachable_inv hn h
  constructor
  · intro hroom
    obtain ⟨e, h1, h2⟩ := solo_send_ok_of_inv hi t v ho ht hroom
    have e' : run s [.send t v, .step t, .step t, .step t, .step t, .step t] = sentState s t v := e
    simp only [e']
    exact ⟨h1, h2, rfl, fun u hu => by simp [sentState, hu, ho u hu]⟩
  · intro hfull
    have e := solo_send_full_of_inv hi t v ho ht hfull
    have e' : run s [.send t v, .step t, .step t, .step t] = setThr s t (.done .full) := e
    simp only [e']
    exact ⟨by simp, rfl, rfl, rfl, rfl, rfl, rfl, rfl, fun u hu => by simp [hu, ho u hu]⟩

/-- A solo `recv`. -/
theorem c16_solo_recv {n : Nat} {s : St} (hn : 0 < n) (h : Reachable n s) (t : Nat)
    (ho : ∀ u, u ≠ t → s.thr u = .idle) (ht : s.thr t = .idle) :
    (∀ x xs, abs s = x :: xs →
      let s' := run s [.recv t, .step t, .step t, .step t, .step t, .step t, .step t]
      s'.thr t = .done (.got x) ∧ abs s' = xs ∧ s'.locked = false ∧ (∀ u, u ≠ t → s'.thr u = .idle))
    ∧ (abs s = [] →
      let s' := run s [.recv t, .step t, .step t, .step t, .step t]
      s'.thr t = .done .empty ∧ abs s' = abs s ∧ s'.buf = s.buf ∧ s'.tail = s.tail ∧ s'.head = s.head
        ∧ s'.locked = s.locked ∧ s'.accepted = s.accepted ∧ s'.delivered = s.delivered
        ∧ (∀ u, u ≠ t → s'.thr u = .idle)) := by
  have hi := reachable_inv hn h
  constructor
  · intro x xs hne
    obtain ⟨e, h1, h2⟩ := solo_recv_ok_of_inv hi t ho ht hne
    have e' : run s [.recv t, .step t, .step t, .step t, .step t, .step t, .step t] = gotState s t := e
    simp only [e']
    exact ⟨h1, h2, rfl, fun u hu => by simp [gotState, hu, ho u hu]⟩
  · intro hemp
    have e := solo_recv_empty_of_inv hi t ho ht hemp
    have e' : run s [.recv t, .step t, .step t, .step t, .step t] = setThr s t (.done .empty) := e
    simp only [e']
    exact ⟨by simp, rfl, rfl, rfl, rfl, rfl, rfl, rfl, fun u hu => by simp [hu, ho u hu]⟩

/-- Fill: from a quiescent empty ring, `fill t s vs` (`soloSend = send; step×5; record result; ack`, one per value)
accepts all `k ≤ N` values, the `i`-th call reporting length `i + 1`; the abstract queue is then `vs`, the state is
quiescent and reachable; and when `k = N` one more `send` is rejected with `full`, leaving the state unchanged. -/
theorem c16_fill_drain {n : Nat} {s : St} (hn : 0 < n) (h : Reachable n s) (t : Nat)
    (hidle : ∀ u, s.thr u = .idle) (hemp : abs s = []) (vs : List Nat) (hk : vs.length ≤ s.N) :
    (fill t s vs).2 = (List.range vs.length).map (fun i => Loc.done (.sent (i + 1)))
    ∧ abs (fill t s vs).1 = vs
    ∧ (∀ u, (fill t s vs).1.thr u = .idle)
    ∧ Reachable n (fill t s vs).1
    ∧ (vs.length = s.N → ∀ w, (soloSend (fill t s vs).1 t w).2 = .done .full
                              ∧ (soloSend (fill t s vs).1 t w).1 = (fill t s vs).1) := by
  have hi := reachable_inv hn h
  obtain ⟨f1, f2, f3, f4⟩ := fill_of_inv t hi hidle vs (by simp [hemp, hk])
  have hr : Reachable n (fill t s vs).1 := by rw [fill_eq_run]; exact reachable_run h _
  refine ⟨by simpa [hemp] using f1, by simpa [hemp] using f2, f3, hr, ?_⟩
  intro hfull w
  exact soloSend_full_of_inv (reachable_inv hn hr) t w f3 (by rw [f2, f4, hemp]; simpa using hfull)

/-- Drain: from a quiescent state whose abstract queue is `xs`, `drain t s xs.length` (`soloRecv = recv; step×6; record
result; ack`) returns exactly `xs` in order, ends quiescent with an empty queue, and one more `recv` reports `empty`. -/
theorem c16_drain {n : Nat} {s : St} (hn : 0 < n) (h : Reachable n s) (t : Nat)
    (hidle : ∀ u, s.thr u = .idle) (xs : List Nat) (hxs : abs s = xs) :
    (drain t s xs.length).2 = xs.map (fun x => Loc.done (.got x))
    ∧ abs (drain t s xs.length).1 = []
    ∧ (∀ u, (drain t s xs.length).1.thr u = .idle)
    ∧ Reachable n (drain t s xs.length).1
    ∧ (soloRecv (drain t s xs.length).1 t).2 = .done .empty := by
  have hi := reachable_inv hn h
  obtain ⟨d1, d2, d3, _⟩ := drain_of_inv t hi hidle xs [] (by simpa using hxs)
  have hr : Reachable n (drain t s xs.length).1 := by rw [drain_eq_run]; exact reachable_run h _
  exact ⟨d1, d2, d3, hr, (soloRecv_empty_of_inv (reachable_inv hn hr) t d3 d2).1⟩

/-- Round trip: fill an empty quiescent ring with `vs` (`|vs| ≤ N`), then drain it: the values come back in order. -/
theorem c16_fill_then_drain {n : Nat} {s : St} (hn : 0 < n) (h : Reachable n s) (t t' : Nat)
    (hidle : ∀ u, s.thr u = .idle) (hemp : abs s = []) (vs : List Nat) (hk : vs.length ≤ s.N) :
    (drain t' (fill t s vs).1 vs.length).2 = vs.map (fun x => Loc.done (.got x))
    ∧ abs (drain t' (fill t s vs).1 vs.length).1 = [] := by
  obtain ⟨_, f2, f3, f4, _⟩ := c16_fill_drain hn h t hidle hemp vs hk
  obtain ⟨d1, d2, _⟩ := c16_drain hn f4 t' f3 vs f2
  exact ⟨d1, d2⟩

/-! ## non-vacuity -/

/-- `fill`/`drain` on the initial state of a ring of capacity 2 (the hypotheses of `c16_fill_drain` hold for
`s = init 2`, `vs = [7, 8]`), including the rejected third `send`. -/
example :
    Reachable 2 (init 2) ∧ (∀ u, (init 2).thr u = .idle) ∧ abs (init 2) = [] ∧ [7, 8].length ≤ (init 2).N
    ∧ (fill 0 (init 2) [7, 8]).2 = [.done (.sent 1), .done (.sent 2)]
    ∧ (soloSend (fill 0 (init 2) [7, 8]).1 0 9).2 = .done .full
    ∧ (drain 1 (fill 0 (init 2) [7, 8]).1 2).2 = [.done (.got 7), .done (.got 8)] := by
  refine ⟨⟨[], rfl⟩, fun _ => rfl, rfl, by decide, by decide, by decide, by decide⟩

/-- Solo `send` on a full ring and solo `recv` on an empty ring, with the exact step counts. -/
example :
    let s := run (init 1) [.send 0 7, .step 0, .step 0, .step 0, .step 0, .step 0, .ack 0]
    (∀ u, s.thr u = .idle) ∧ (abs s).length = s.N
    ∧ (run s [.send 1 8, .step 1, .step 1]).thr 1 ≠ .done .full
    ∧ (run s [.send 1 8, .step 1, .step 1, .step 1]).thr 1 = .done .full
    ∧ (run (init 1) [.send 0 7, .step 0, .step 0, .step 0, .step 0]).thr 0 ≠ .done (.sent 1)
    ∧ (run (init 1) [.recv 0, .step 0, .step 0, .step 0, .step 0]).thr 0 = .done .empty := by
  refine ⟨fun u => ?_, by decide, by decide, by decide, by decide, by decide⟩
  by_cases hu : u = 0 <;> simp [run, apply, step, init, hu]

end Mutiny.LockRing

open Mutiny.LockRing in
#print axioms c16_quiescent
open Mutiny.LockRing in
#print axioms c16_solo_send
open Mutiny.LockRing in
#print axioms c16_solo_recv
open Mutiny.LockRing in
#print axioms c16_fill_drain
open Mutiny.LockRing in
#print axioms c16_drain
open Mutiny.LockRing in
#print axioms c16_fill_then_drain
