import Mutiny.Proofs.MultiSeq

/-!
# C10 — stream-id bookkeeping of `StreamsManagerBase` under sequential use

Model M6 + M7 (`Mutiny/Model/Multi.lean`).  A *completed operation* is one call run to completion on one thread with
nobody interleaving: `opCreate t s = run s ([.create t] ++ replicate (MAX + 6) (.step t) ++ [.ack t])`
(`opCreate_eq_run`; the longest call takes `MAX + 5` steps, further `.step`s of a `done` thread are no-ops); `callCreate`
is the same without the final `.ack`, so that the answer `thr t = .done r` is still visible.  Likewise `opDrop`, `opSend`,
`opPoll`.  A *sequential history* is a list of `Op`s executed by `exec` (all on thread 0) from `init mx n f d`; it is
`Legal` when `create` is only called with a free id left (`live.length < MAX` — the source panics otherwise) and `drop id`
/ `cancel id` only for live `id`.  `Op.cancel id` is `cancel_stream(id)` (`keep id := false`, immediate): a listener may be
cancelled at any time before it is dropped, and may still be polled afterwards.  Every state reached by a sequential history is a reachable state of the model (`reachable_exec`).

Scope: every `MAX`, every pool size `N`, both fan-out flavours, every legal history of any length.
`c10_fresh_queue` / `c10_lifetime` need `drains = true` (the repaired source); with `drains = false` (the pinned source)
they fail: `c10_stale_counterexample`.
-/

namespace Mutiny.Multi

/-- **C10 (bookkeeping).**  After every legal sequential history the manager is quiescent and well-formed (`WF`: all
    threads idle, lock free, `live`/`vacant` duplicate-free and partitioning `0..MAX-1`, `count = live.length`,
    `used` = the live ids ascending then sentinels; nothing is claimed about `keep` of a live id: it may have been
    cancelled); `count = live.length ≤ MAX`;
    ids are never exhausted by churn (`create` with `live.length < MAX` finds `vacant ≠ []`, is never stuck at `cVacant`,
    answers the head `j` of `vacant`, which was not live, and `live' = live ++ [j]`); `drop` of a live id completes and
    makes the id vacant again. -/
theorem c10_bookkeeping (mx n : Nat) (f : Flavor) (d : Bool) (h : List Op) (hl : LegalH (init mx n f d) h) :
    let s := exec (init mx n f d) h
    Reachable mx n f d s ∧ WF s ∧ s.MAX = mx ∧ s.count = s.live.length ∧ s.count ≤ mx ∧
      s.vacant.length + s.live.length = mx ∧
      (s.live.length < mx → ∃ j rest, s.vacant = j :: rest ∧ j ∉ s.live ∧ j < mx ∧
          (callCreate 0 s).thr 0 = .done (.id j) ∧ (opCreate 0 s).live = s.live ++ [j] ∧
          (opCreate 0 s).vacant = rest ∧ (opCreate 0 s).keep j = true) ∧
      (∀ id ∈ s.live, (callDrop 0 id s).thr 0 = .done .unit ∧ id ∈ (opDrop 0 id s).vacant ∧
          id ∉ (opDrop 0 id s).live ∧ (opDrop 0 id s).live = s.live.erase id) := by
  intro s
  have hw : WF s := wf_exec (wf_init mx n f d) hl
  have hm : s.MAX = mx := by
    show (exec _ h).MAX = mx
    rw [exec_eq_run, run_MAX]; rfl
  refine ⟨reachable_exec mx n f d h, hw, hm, hw.countEq, hm ▸ hw.count_le, hm ▸ hw.lenSum, ?_, ?_⟩
  · intro hlen
    obtain ⟨j, rest, hv, hc, he⟩ := opCreate_spec 0 hw (hm ▸ hlen)
    have hjv : j ∈ s.vacant := by simp [hv]
    have hjm := hw.vacLt j hjv
    refine ⟨j, rest, hv, (hw.part j hjm).1 hjv, hm ▸ hjm, by simp [hc], by simp [he, specCreate],
      by simp [he, specCreate], by simp [he, specCreate]⟩
  · intro id hid
    obtain ⟨hc, he⟩ := opDrop_spec 0 hw hid
    refine ⟨by simp [hc], by simp [he, specDrop], ?_, by simp [he, specDrop]⟩
    simp only [he, specDrop]
    exact fun hm => ((hw.liveND.mem_erase_iff).1 hm).1 rfl

/-- the same facts for one `create` / `drop` on any thread `t` in any `WF` state (e.g. one produced by a set-up) -/
theorem c10_create_of_wf (s : St) (t : Nat) (hw : WF s) (hlen : s.live.length < s.MAX) :
    ∃ j rest, s.vacant = j :: rest ∧ j ∉ s.live ∧ j < s.MAX ∧ (callCreate t s).thr t = .done (.id j) ∧
      (opCreate t s).live = s.live ++ [j] ∧ (opCreate t s).vacant = rest ∧ WF (opCreate t s) := by
  obtain ⟨j, rest, hv, hc, he⟩ := opCreate_spec t hw hlen
  have hjv : j ∈ s.vacant := by simp [hv]
  have hjm := hw.vacLt j hjv
  exact ⟨j, rest, hv, (hw.part j hjm).1 hjv, hjm, by simp [hc], by simp [he, specCreate],
    by simp [he, specCreate], he ▸ wf_specCreate hw hv⟩

theorem c10_drop_of_wf (s : St) (t id : Nat) (hw : WF s) (hid : id ∈ s.live) :
    (callDrop t id s).thr t = .done .unit ∧ id ∈ (opDrop t id s).vacant ∧ id ∉ (opDrop t id s).live ∧
      WF (opDrop t id s) := by
  obtain ⟨hc, he⟩ := opDrop_spec t hw hid
  refine ⟨by simp [hc], by simp [he, specDrop], ?_, he ▸ wf_specDrop hw hid⟩
  simp only [he, specDrop]
  exact fun hm => ((hw.liveND.mem_erase_iff).1 hm).1 rfl

/-- **C10 (fresh queue).**  With the repaired `drop_resources` (`drains = true`): after every legal sequential history
    every vacant id has an empty queue, hence a listener handed out by `create` starts with an empty queue. -/
theorem c10_fresh_queue (mx n : Nat) (f : Flavor) (h : List Op) (hl : LegalH (init mx n f true) h) :
    let s := exec (init mx n f true) h
    (∀ i ∈ s.vacant, s.queues i = []) ∧
      (∀ j, (callCreate 0 s).thr 0 = .done (.id j) → s.live.length < mx → (opCreate 0 s).queues j = []) := by
  intro s
  have hw : WF s := wf_exec (wf_init mx n f true) hl
  have hm : s.MAX = mx := by
    show (exec _ h).MAX = mx
    rw [exec_eq_run, run_MAX]; rfl
  have hf : Fresh s := fresh_exec (wf_init mx n f true) rfl (fresh_init mx n f true) hl
  refine ⟨hf, ?_⟩
  intro j hj hlen
  obtain ⟨j', rest, hv, hc, he⟩ := opCreate_spec 0 hw (hm ▸ hlen)
  rw [hc] at hj
  simp at hj
  subst hj
  simp only [he, specCreate]
  exact hf j' (by simp [hv])

/-- **C10 (a cancelled listener is drained like any other).**  `drains = true`: `drop id` empties the queue of `id`
    whatever `keep id` is — in particular for a listener that was cancelled (`keep id = false`) with events still queued
    — gives the payload references of the dropped copies back, and makes the id vacant; so the next owner of the id
    starts with an empty queue (`c10_fresh_queue`, which holds for histories with `cancel`). -/
theorem c10_cancelled_drop_drains (s : St) (t id : Nat) (hw : WF s) (hd : s.drains = true) (hid : id ∈ s.live) :
    let sc := apply s (.cancel id)
    sc.keep id = false ∧ sc.queues id = s.queues id ∧ WF sc ∧
      (opDrop t id sc).queues id = [] ∧ id ∈ (opDrop t id sc).vacant ∧ id ∉ (opDrop t id sc).live ∧
      (∀ e, (opDrop t id sc).refs e = s.refs e - (s.queues id).count e) ∧
      (opDrop t id s).queues id = [] := by
  intro sc
  have hwc : WF sc := wf_cancel hw
  have hidc : id ∈ sc.live := hid
  have hdc : sc.drains = true := hd
  obtain ⟨_, he⟩ := opDrop_spec t hwc hidc
  obtain ⟨_, he'⟩ := opDrop_spec t hw hid
  refine ⟨by simp [sc, apply], rfl, hwc, by simp [he, specDrop, hdc], by simp [he, specDrop], ?_,
    fun e => by simp [he, specDrop, hdc]; rfl, by simp [he', specDrop, hd]⟩
  simp only [he, specDrop]
  exact fun hm => ((hwc.liveND.mem_erase_iff).1 hm).1 rfl

/-- `create` does not touch any queue; `drop id` touches only the queue of `id` -/
theorem c10_queues_frame (s : St) (t : Nat) (hw : WF s) :
    (s.live.length < s.MAX → (opCreate t s).queues = s.queues) ∧
      (∀ id ∈ s.live, ∀ j, j ≠ id → (opDrop t id s).queues j = s.queues j) := by
  constructor
  · intro hlen
    obtain ⟨j, rest, hv, hc, he⟩ := opCreate_spec t hw hlen
    simp [he, specCreate]
  · intro id hid j hj
    simp only [(opDrop_spec t hw hid).2, specDrop]
    split <;> simp [hj]

/-- **C10 (lifetime).**  `drains = true`.  Let `id` be the id answered by a `create` executed after the history `h₁`,
    `k` its incarnation number, and `h₂` any continuation that does not drop `id` (it may `cancel` it, and poll it
    afterwards).  Then: the new listener starts with an
    empty queue and nothing was ever delivered to incarnation `k` (or a later one) before; throughout `h₂` the id stays
    live with the same incarnation; and the events delivered to `(id, k)` followed by those still queued for `id` are
    exactly the events of the accepted `send` operations of `h₂`, in order, each once — so every `(id, k, ev) ∈ delivered`
    was published while incarnation `k` was live, nothing sent before the `create` is ever seen, and once `poll id`
    answers `none` everything sent so far has been delivered. -/
theorem c10_lifetime (mx n : Nat) (f : Flavor) (h₁ h₂ : List Op)
    (hl : LegalH (init mx n f true) (h₁ ++ [Op.create] ++ h₂)) :
    let s := exec (init mx n f true) h₁
    let s₁ := exec (init mx n f true) (h₁ ++ [Op.create])
    let s₂ := exec (init mx n f true) (h₁ ++ [Op.create] ++ h₂)
    ∀ id, (callCreate 0 s).thr 0 = .done (.id id) → Op.drop id ∉ h₂ →
      s₁.queues id = [] ∧ (∀ k', s₁.inc id ≤ k' → dlv s₁ id k' = []) ∧
      id ∈ s₂.live ∧ s₂.inc id = s₁.inc id ∧
      dlv s₂ id (s₁.inc id) ++ s₂.queues id = sendsIn s₁ h₂ ∧
      dlv s₂ id (s₁.inc id) <+: sendsIn s₁ h₂ ∧
      ((callPoll 0 id s₂).thr 0 = .done (.item none) → dlv s₂ id (s₁.inc id) = sendsIn s₁ h₂) := by
  intro s s₁ s₂ id hid hnd
  rw [legalH_append, legalH_append] at hl
  obtain ⟨⟨hl1, hlc, _⟩, hl2⟩ := hl
  have hw : WF s := wf_exec (wf_init mx n f true) hl1
  have hf : Fresh s := fresh_exec (wf_init mx n f true) rfl (fresh_init mx n f true) hl1
  have hdi : DI s := di_exec (wf_init mx n f true) (di_init mx n f true) hl1
  have hs1 : s₁ = opCreate 0 s := by simp only [s₁, s, exec_append]; rfl
  have hs2 : s₂ = exec s₁ h₂ := by simp only [s₂, s₁, exec_append]
  obtain ⟨j, rest, hv, hc, he⟩ := opCreate_spec 0 hw hlc
  rw [hc] at hid
  simp at hid
  subst hid
  have hw1 : WF s₁ := by rw [hs1, he]; exact wf_specCreate hw hv
  have hq1 : s₁.queues j = [] := by
    rw [hs1, he]; simp only [specCreate]; exact hf j (by simp [hv])
  have hinc : s₁.inc j = s.inc j + 1 := by rw [hs1, he]; simp [specCreate]
  have hd1 : ∀ k', s₁.inc j ≤ k' → dlv s₁ j k' = [] := by
    intro k' hk
    have hdel : s₁.delivered = s.delivered := by rw [hs1, he]; rfl
    simp only [dlv, hdel, List.map_eq_nil_iff, List.filter_eq_nil_iff]
    intro x hx
    have := hdi x hx
    simp only [decide_eq_true_eq, not_and]
    rintro rfl; omega
  have hl1' : j ∈ s₁.live := by rw [hs1, he]; simp [specCreate]
  have hl2' : LegalH s₁ h₂ := by rw [hs1]; simpa [exec_append, exec1] using hl2
  obtain ⟨a1, a2, a3⟩ := acct_exec hw1 hl1' hl2' hnd
  rw [hq1, hd1 _ (Nat.le_refl _)] at a3
  simp only [List.nil_append] at a3
  rw [← hs2] at a1 a2 a3
  refine ⟨hq1, hd1, a1, a2, a3, ⟨_, a3⟩, ?_⟩
  intro hp
  have hw2 : WF s₂ := hs2 ▸ wf_exec hw1 hl2'
  rw [(opPoll_spec 0 j hw2).1] at hp
  simp at hp
  rw [← a3, hp, List.append_nil]

/-! ## non-vacuity -/

/-- a legal history with churn: ids are reused in FIFO order (`MAX = 2`) -/
def churnHist : List Op :=
  [.create, .create, .cancel 0, .drop 0, .create, .send 7, .cancel 1, .poll 0, .poll 1, .drop 1, .create]

example :
    LegalH (init 2 8 .arc true) churnHist ∧ (exec (init 2 8 .arc true) churnHist).live = [0, 1] ∧
      (exec (init 2 8 .arc true) churnHist).vacant = [] ∧ (exec (init 2 8 .arc true) churnHist).used = [0, 1] ∧
      (exec (init 2 8 .arc true) churnHist).delivered = [(0, 2, 7), (1, 1, 7)] := by
  decide

/-- `c10_lifetime` is not vacuous: the second incarnation of id 0 receives exactly the events sent after its creation -/
def lifeH₁ : List Op := [.create, .send 1, .drop 0]
def lifeH₂ : List Op := [.send 2, .cancel 0, .send 3, .poll 0]

example :
    let h₁ := lifeH₁
    let h₂ := lifeH₂
    LegalH (init 1 8 .ogreArc true) (h₁ ++ [Op.create] ++ h₂) ∧
      (callCreate 0 (exec (init 1 8 .ogreArc true) h₁)).thr 0 = .done (.id 0) ∧ Op.drop 0 ∉ h₂ ∧
      sendsIn (exec (init 1 8 .ogreArc true) (h₁ ++ [Op.create])) h₂ = [2, 3] ∧
      dlv (exec (init 1 8 .ogreArc true) (h₁ ++ [Op.create] ++ h₂)) 0 2 = [2] := by
  decide

/-! ## recorded finding: without the drain, a recycled id inherits the queue of its previous owner -/

/-- **finding (pinned `drop_resources`, `drains = false`).**  `MAX = 1`: create, send 1, send 2, drop 0, create, poll 0
    answers `item (some 1)` although event 1 was sent before the second listener existed; the delivery is stamped with
    incarnation 2 while the listener of incarnation 2 was created after both sends. -/
def staleHist : List Op := [.create, .send 1, .send 2, .drop 0, .create]

theorem c10_stale_counterexample :
    let s := exec (init 1 8 .arc false) staleHist
    LegalH (init 1 8 .arc false) staleHist ∧ s.live = [0] ∧ s.inc 0 = 2 ∧ s.sent = [1, 2] ∧
      (callPoll 0 0 s).thr 0 = .done (.item (some 1)) ∧ (opPoll 0 0 s).delivered = [(0, 2, 1)] ∧
      sendsIn s [Op.poll 0] = [] := by
  decide

/-- the seeded bug "skip the drain when the listener was told to end" is excluded by `c10_cancelled_drop_drains`; the
    history that exposes it: the listener is cancelled with two events queued, dropped, and its id handed out again -/
def cancelHist : List Op := [.create, .send 1, .send 2, .cancel 0, .drop 0, .create]

example :
    LegalH (init 1 8 .ogreArc true) cancelHist ∧
      (exec (init 1 8 .ogreArc true) (cancelHist.take 4)).keep 0 = false ∧
      (exec (init 1 8 .ogreArc true) (cancelHist.take 4)).queues 0 = [1, 2] ∧
      (exec (init 1 8 .ogreArc true) (cancelHist.take 5)).queues 0 = [] ∧
      (exec (init 1 8 .ogreArc true) (cancelHist.take 5)).refs 1 = 0 ∧
      (callPoll 0 0 (exec (init 1 8 .ogreArc true) cancelHist)).thr 0 = .done (.item none) ∧
      (exec (init 1 8 .ogreArc true) cancelHist).keep 0 = true := by
  decide

/-- the same history with the drain: the recycled listener sees nothing -/
theorem c10_stale_fixed :
    let s := exec (init 1 8 .arc true) staleHist
    (callPoll 0 0 s).thr 0 = .done (.item none) ∧ (opPoll 0 0 s).delivered = [] := by
  decide

end Mutiny.Multi

#print axioms Mutiny.Multi.c10_bookkeeping
#print axioms Mutiny.Multi.c10_create_of_wf
#print axioms Mutiny.Multi.c10_drop_of_wf
#print axioms Mutiny.Multi.c10_fresh_queue
#print axioms Mutiny.Multi.c10_cancelled_drop_drains
#print axioms Mutiny.Multi.c10_queues_frame
#print axioms Mutiny.Multi.c10_lifetime
#print axioms Mutiny.Multi.c10_stale_counterexample
#print axioms Mutiny.Multi.c10_stale_fixed
