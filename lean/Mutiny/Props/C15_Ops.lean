import Mutiny.Generated.RingOps
import Mutiny.Model.Ring32
import Mutiny.Model.LockRing32

/-!
# C15 — the `u32` machines perform the arithmetic the SOURCE performs (translator G4)

`tools/extract.py` re-reads, on every run, the counter arithmetic of the two ring buffers from `/repo`'s current source and emits it
as one list of operator kinds per function, in source order (`Mutiny/Generated/RingOps.lean`).  The theorems below say that each
list is the one the hand-written `u32` machines `Ring32` / `LockRing32` were written against — operator by operator:

* `wsub` / `wadd` (overflowing_ / wrapping_ sub / add)  ↦ `U32.wsub` / `U32.wadd` (never panic, wrap modulo 2^32);
* `cadd` / `cmul` (plain `+` / `*`: checked in a build with overflow checks) ↦ `U32.cadd` / `U32.cmul` (`none` = panic), used only by the
  lap reconstruction of the two index-based calls (`pubReguess32`, `canReguess32`), proved never to overflow there (`Proofs/U32.lean`);
* `asI32` ↦ `U32.posI32` (signed emptiness test `hasItem32`, the clamp of `lenAfter32`);
* `div`, `mod` ↦ `/ N`, `index32`;
* `fetchAdd`, `cas` ↦ the claim steps and the publication / release / recede steps.

A change of an operator in the source (a `saturating_sub` for an `overflowing_sub`, a plain `-` for a `wrapping_sub`, an `as i32` dropped)
changes the generated list and breaks the corresponding obligation here, before any schedule is run; `bin/check` then searches the
origin-differential scenarios for a history on which the answers differ.  (Regex-level reading: what the translator cannot see — a
change of operands, a reordering that keeps the operators — is left to the replay of `Ring32` / `LockRing32` from origins near 2^32.)
-/

namespace Mutiny.RingOps
open Mutiny.Generated

/-- `leak_slot_internal` (`pFetch`, `pLoadHead`): claim by `fetch_add`; `slot_id.overflowing_sub(head)` (`admit32` / `lenBefore32`);
    `slot_id % N` (`index32`); the second `fetch_add` is the re-claim after `report_full_fn()` answered true (the channels pass `|| false`) -/
theorem ops_atomic_leak_slot : atomicMove_leak_slot_internal = ["fetchAdd", "wsub", "mod", "fetchAdd"] := by decide

/-- `try_publish_leaked_internal` (`pPublish`): CAS `tail` from `slot_id` to `slot_id.overflowing_add(1)` -/
theorem ops_atomic_publish : atomicMove_try_publish_leaked_internal = ["cas", "wadd"] := by decide

/-- `try_publish_leaked_internal_index` (`rPub`, `rLen`, `pubReguess32`): the CAS; on success `max(1, previous_tail.overflowing_sub(head))`
    — once in the verification build's arm (with the `am.r.len` yield point in front of the `head` load), once in the production arm;
    on failure compare the laps (`/ N` twice) and re-guess `slot_index + (reloaded_tail / N) * N` with CHECKED `+` and `*` -/
theorem ops_atomic_publish_index :
    atomicMove_try_publish_leaked_internal_index =
      ["cas", "wadd", "max", "wsub", "max", "wsub", "div", "div", "cadd", "div", "cmul"] := by decide

/-- `try_unleak_slot_internal` (`pRecede`): CAS `enqueuer_tail` from `slot_id.overflowing_add(1)` back to `slot_id` -/
theorem ops_atomic_recede : atomicMove_try_unleak_slot_internal = ["cas", "wadd"] := by decide

/-- `try_unleak_slot_index_internal` (`rCan`, `canReguess32`): as above with the lap taken from `reloaded_enqueuer_tail.wrapping_sub(1)`
    (the REPAIRED source: the pinned one subtracted with a checked `-`, finding D3) -/
theorem ops_atomic_cancel_index :
    atomicMove_try_unleak_slot_index_internal = ["cas", "wadd", "wsub", "div", "div", "cadd", "wsub", "div", "cmul"] := by decide

/-- `consume_leaking_internal` (`cFetch`, `cLoadTail`, `cRecede`, `cChkHead`, `cChkTail`): claim; `tail.overflowing_sub(slot_id) as i32 > 0`
    (`hasItem32`); `% N`; the receding CAS from `slot_id.overflowing_add(1)`; the re-claim -/
theorem ops_atomic_consume :
    atomicMove_consume_leaking_internal = ["fetchAdd", "wsub", "asI32", "mod", "cas", "wadd", "fetchAdd"] := by decide

/-- `release_leaked_internal` (`cRelease`): CAS `head` from `slot_id` to `slot_id.overflowing_add(1)` -/
theorem ops_atomic_release : atomicMove_release_leaked_internal = ["cas", "wadd"] := by decide

/-- `len_after_publishing` (`pLen`, `lenAfter32`): `i32::max(1, slot_id.overflowing_add(1).overflowing_sub(head) as i32)` -/
theorem ops_atomic_len_after : atomicMove_len_after_publishing = ["max", "wadd", "wsub", "asI32"] := by decide

/-- `available_elements_count` (`lLen`/`lLenH`, `len32`): `tail.overflowing_sub(head)` — once in the verification build's two-load
    block, once in the production expression -/
theorem ops_atomic_len : atomicMove_available_elements_count = ["wsub", "wsub"] := by decide

/-- `FullSyncMove::leak_slot_internal` (`pCheck`: `fsAdmit32`, `index32`) -/
theorem ops_fs_leak_slot : fullSyncMove_leak_slot_internal = ["wsub", "mod"] := by decide
/-- `publish_leaked_internal` (`pPublish`: `tail = tail.overflowing_add(1)`) -/
theorem ops_fs_publish : fullSyncMove_publish_leaked_internal = ["wadd"] := by decide
/-- `unleak_internal`: `tail = tail.overflowing_sub(1)`, unlock.  Not modelled: no channel and no container of the crate calls it (and it
    would corrupt the ring if one did: `leak_slot_internal` does not advance `tail`, so there is nothing to take back) — recorded in
    DESIGN.md under "noticed, not counted against any property"; the obligation pins its text so that a caller appearing would be noticed
    together with a change of it -/
theorem ops_fs_unleak : fullSyncMove_unleak_internal = ["wsub"] := by decide
/-- `consume_leaking_internal` (`cLen`: `available_elements_count() as i32 > 0`; `cRead`: `head % N`) -/
theorem ops_fs_consume : fullSyncMove_consume_leaking_internal = ["asI32", "mod"] := by decide
/-- `release_leaked_internal` (`cRelease`: `head = head.overflowing_add(1)`) -/
theorem ops_fs_release : fullSyncMove_release_leaked_internal = ["wadd"] := by decide
/-- `available_elements_count` (`cLenT`/`cLen`, `lLen`/`lLenH`): `tail.overflowing_sub(head)` — once in the verification build's
    two-load block, once in the production expression -/
theorem ops_fs_len : fullSyncMove_available_elements_count = ["wsub", "wsub"] := by decide

/-- every function the translator was asked for exists in the source -/
theorem ops_all_found : ringOps.all (fun p => p.2 != ["<function not found>"]) = true := by decide

end Mutiny.RingOps

#print axioms Mutiny.RingOps.ops_atomic_leak_slot
#print axioms Mutiny.RingOps.ops_atomic_publish
#print axioms Mutiny.RingOps.ops_atomic_publish_index
#print axioms Mutiny.RingOps.ops_atomic_recede
#print axioms Mutiny.RingOps.ops_atomic_cancel_index
#print axioms Mutiny.RingOps.ops_atomic_consume
#print axioms Mutiny.RingOps.ops_atomic_release
#print axioms Mutiny.RingOps.ops_atomic_len_after
#print axioms Mutiny.RingOps.ops_atomic_len
#print axioms Mutiny.RingOps.ops_fs_leak_slot
#print axioms Mutiny.RingOps.ops_fs_publish
#print axioms Mutiny.RingOps.ops_fs_unleak
#print axioms Mutiny.RingOps.ops_fs_consume
#print axioms Mutiny.RingOps.ops_fs_release
#print axioms Mutiny.RingOps.ops_fs_len
#print axioms Mutiny.RingOps.ops_all_found
