import Mutiny.Proofs.StackInv

/-!
# C18 (stacks) — the non-blocking stacks of `ogre_std::ogre_stacks` are linearizable bounded LIFOs

Model: `Mutiny/Model/Stack.lean`.  Atomic-flag stack: `pSwap`/`cSwap` (`flag.swap(true)`, spin while `true`),
`pCrit`/`cCrit` (the region), `pUnlock`/`cUnlock` (`flag.store(false)`); parking-lot stack: `plPush`/`plPop` (one step).
`hist` is the ghost linearized history (`(thread, inl v)` = successful push of `v`, `(thread, inr v)` = pop of `v`),
`replay n` runs it on the abstract stack bounded by `n`.  Every theorem holds for every bound `n` (also `0`), any
number of threads, any schedule.

`holder l` ⇔ `l` is one of `pCrit _`, `pUnlock _`, `cCrit`, `cUnlock _` (`holder_iff`);
`critical l` ⇔ `l` is one of `pCrit _`, `cCrit`, `plPush _`, `plPop` (the linearization points).
-/

namespace Mutiny.Stack

/-- **Mutual exclusion** and capacity: the flag is set exactly when some thread is inside the region, at most one
thread is, the bound is the construction-time constant and is never exceeded. -/
theorem c18_mutual_exclusion {n : Nat} {s : St} (h : Reachable n s) :
    (s.flag = true ↔ ∃ t, holder (s.thr t))
    ∧ (∀ t u, holder (s.thr t) → holder (s.thr u) → t = u)
    ∧ s.N = n ∧ s.items.length ≤ s.N :=
  have hi := reachable_inv h
  ⟨hi.flagIff, hi.mutex, hi.Neq, hi.cap⟩

/-- **Linearizability.**  In every reachable state the linearized history is a legal run of the abstract bounded LIFO
(no push beyond `n`, every pop returns the then-top element) and its outcome is the current content. -/
theorem c18_stack_linearizable {n : Nat} {s : St} (h : Reachable n s) :
    replay n s.hist = some s.items ∧ replay.go n [] s.hist = some s.items ∧ s.items.length ≤ n := by
  have hi := reachable_inv h
  exact ⟨by rw [replay_eq]; exact hi.lin, hi.lin, by have := hi.cap; rw [hi.Neq] at this; exact this⟩

/-- The same for every prefix of the history: each intermediate abstract stack exists (the history is legal up to any
point) and respects the bound. -/
theorem c18_prefix_legal {n : Nat} {s : St} (h : Reachable n s) (k : Nat) :
    ∃ st, replay.go n [] (s.hist.take k) = some st ∧ st.length ≤ n
      ∧ replay.go n st (s.hist.drop k) = some s.items := by
  have hl := (reachable_inv h).lin
  rw [← List.take_append_drop k s.hist, go_append] at hl
  cases hp : replay.go n [] (s.hist.take k) with
  | none => rw [hp] at hl; simp at hl
  | some st =>
    rw [hp] at hl
    exact ⟨st, rfl, go_length_le n [] st _ hp (by simp), by simpa using hl⟩

/-- **Linearization point of `push`** (`st.crit`).  The step answers `true` iff there is room at that instant, and then
appends `v` on top and the event `(t, inl v)`; it answers `false` iff the stack is exactly full at that instant, and
then changes nothing.  The flag and the other threads are untouched. -/
theorem c18_push_point {n : Nat} {s : St} (h : Reachable n s) {t v : Nat} (ht : s.thr t = .pCrit v) :
    (step s t).thr t = .pUnlock (decide (s.items.length < s.N))
    ∧ (s.items.length < s.N →
        (step s t).items = s.items ++ [v] ∧ (step s t).hist = s.hist ++ [(t, .inl v)])
    ∧ (¬ s.items.length < s.N →
        s.items.length = s.N ∧ (step s t).items = s.items ∧ (step s t).hist = s.hist)
    ∧ (step s t).flag = s.flag ∧ ∀ u, u ≠ t → (step s t).thr u = s.thr u := by
  have hcap := (reachable_inv h).cap
  refine ⟨by simp [step, ht, pushCrit_snd], ?_, ?_, by simp [step, ht], fun u hu => step_other s t u hu⟩
  · intro hlt; simp [step, ht, pushCrit_ok s t v hlt]
  · intro hge; simp only [step, ht, pushCrit_full s t v (by omega)]
    exact ⟨by omega, rfl, rfl⟩

/-- **Linearization point of `pop`** (`st.crit`).  The step answers `some v` iff `v` is the top at that instant
(`items = rest ++ [v]`), and then removes it and appends the event `(t, inr v)`; it answers `none` iff the stack is
empty at that instant, and then changes nothing. -/
theorem c18_pop_point {s : St} {t : Nat} (ht : s.thr t = .cCrit) :
    (step s t).thr t = .cUnlock s.items.getLast?
    ∧ (∀ rest v, s.items = rest ++ [v] →
        (step s t).thr t = .cUnlock (some v) ∧ (step s t).items = rest ∧ (step s t).hist = s.hist ++ [(t, .inr v)])
    ∧ (s.items = [] →
        (step s t).thr t = .cUnlock none ∧ (step s t).items = s.items ∧ (step s t).hist = s.hist)
    ∧ (∀ v, (step s t).thr t = .cUnlock (some v) → s.items = s.items.dropLast ++ [v])
    ∧ ((step s t).thr t = .cUnlock none → s.items = [])
    ∧ (step s t).flag = s.flag ∧ ∀ u, u ≠ t → (step s t).thr u = s.thr u := by
  have h0 : (step s t).thr t = .cUnlock s.items.getLast? := by simp [step, ht, popCrit_snd]
  refine ⟨h0, ?_, ?_, ?_, ?_, by simp [step, ht], fun u hu => step_other s t u hu⟩
  · intro rest v e
    have hl : s.items.getLast? = some v := by rw [e]; simp
    simp [step, ht, popCrit_some s t v hl, e]
  · intro e
    simp [step, ht, popCrit_none s t e]
  · intro v hv
    rw [h0] at hv
    exact getLast?_eq_some_iff_snoc.1 (by simpa using hv)
  · intro hv
    rw [h0] at hv
    simpa using hv

/-- The parking-lot stack: the whole `push` is its own linearization point, with the same exactness. -/
theorem c18_pl_push_point {n : Nat} {s : St} (h : Reachable n s) {t v : Nat} (ht : s.thr t = .plPush v) :
    (step s t).thr t = .done (.pushed (decide (s.items.length < s.N)))
    ∧ (s.items.length < s.N →
        (step s t).items = s.items ++ [v] ∧ (step s t).hist = s.hist ++ [(t, .inl v)])
    ∧ (¬ s.items.length < s.N →
        s.items.length = s.N ∧ (step s t).items = s.items ∧ (step s t).hist = s.hist)
    ∧ (step s t).flag = s.flag ∧ ∀ u, u ≠ t → (step s t).thr u = s.thr u := by
  have hcap := (reachable_inv h).cap
  refine ⟨by simp [step, ht, pushCrit_snd], ?_, ?_, by simp [step, ht], fun u hu => step_other s t u hu⟩
  · intro hlt; simp [step, ht, pushCrit_ok s t v hlt]
  · intro hge; simp only [step, ht, pushCrit_full s t v (by omega)]
    exact ⟨by omega, rfl, rfl⟩

/-- The parking-lot stack: `pop`. -/
theorem c18_pl_pop_point {s : St} {t : Nat} (ht : s.thr t = .plPop) :
    (step s t).thr t = .done (.popped s.items.getLast?)
    ∧ (∀ rest v, s.items = rest ++ [v] →
        (step s t).items = rest ∧ (step s t).hist = s.hist ++ [(t, .inr v)])
    ∧ (s.items = [] → (step s t).items = s.items ∧ (step s t).hist = s.hist)
    ∧ (step s t).flag = s.flag ∧ ∀ u, u ≠ t → (step s t).thr u = s.thr u := by
  refine ⟨by simp [step, ht, popCrit_snd], ?_, ?_, by simp [step, ht], fun u hu => step_other s t u hu⟩
  · intro rest v e
    have hl : s.items.getLast? = some v := by rw [e]; simp
    simp [step, ht, popCrit_some s t v hl, e]
  · intro e
    simp [step, ht, popCrit_none s t e]

/-- **The answer is the one fixed at the linearization point**: the unlock step returns what was recorded inside the
region, releases the flag and touches neither content nor history. -/
theorem c18_unlock_carries_result {s : St} {t : Nat} :
    (∀ ok, s.thr t = .pUnlock ok →
        (step s t).thr t = .done (.pushed ok) ∧ (step s t).flag = false
        ∧ (step s t).items = s.items ∧ (step s t).hist = s.hist)
    ∧ (∀ r, s.thr t = .cUnlock r →
        (step s t).thr t = .done (.popped r) ∧ (step s t).flag = false
        ∧ (step s t).items = s.items ∧ (step s t).hist = s.hist) := by
  constructor
  · intro ok ht; simp [step, ht]
  · intro r ht; simp [step, ht]

/-- **Only linearization points touch the stack.**  An action that changes `items` or `hist` is a step of a thread `t`
at `pCrit` / `cCrit` / `plPush` / `plPop`, and it appends exactly one event, by `t`. -/
theorem c18_only_lin_points_change {s : St} {a : Act}
    (hch : (apply s a).items ≠ s.items ∨ (apply s a).hist ≠ s.hist) :
    ∃ t, a = .step t ∧ critical (s.thr t) ∧ ∃ e, (apply s a).hist = s.hist ++ [(t, e)] := by
  refine Classical.byContradiction fun hne => ?_
  have hf := apply_frame s a (by
    intro t e hc
    subst e
    rcases step_event s t with hs | hs
    · rcases hch with h | h
      · exact h hs.1
      · exact h hs.2
    · exact hne ⟨t, rfl, hc, hs⟩)
  rcases hch with h | h
  · exact h hf.1
  · exact h hf.2.1

/-- **No loss, no duplication.**  Successfully pushed values = popped values + current content, as multisets. -/
theorem c18_no_loss_no_dup {n : Nat} {s : St} (h : Reachable n s) :
    (∀ v, (pushes s.hist).count v = (pops s.hist).count v + s.items.count v)
    ∧ (pushes s.hist).Perm (pops s.hist ++ s.items) := by
  have hc : ∀ v, (pushes s.hist).count v = (pops s.hist).count v + s.items.count v := by
    intro v
    have := go_count n [] s.items s.hist (reachable_inv h).lin v
    simpa using this
  refine ⟨hc, ?_⟩
  rw [List.perm_iff_count]
  intro v; rw [List.count_append]; exact hc v

/-- **Solo progress.**  With all other threads idle, any pending operation of `t` — wherever it is — completes within
3 of its own steps (swap, region, unlock). -/
theorem c18_solo_progress {n : Nat} {s : St} (h : Reachable n s) {t : Nat}
    (ho : ∀ u, u ≠ t → s.thr u = .idle) (ht : s.thr t ≠ .idle) :
    ∃ k, k ≤ 3 ∧ ∃ r, (run s (List.replicate k (.step t))).thr t = .done r :=
  solo_progress_of_inv (reachable_inv h) ho ht

/-- Sequential specification: in a quiescent state, `push t v` + 3 own steps returns `true` iff there is room, and
`pop t` + 3 own steps returns the top (if any); content and history are updated accordingly. -/
theorem c18_solo_call {n : Nat} {s : St} (h : Reachable n s) (hidle : ∀ u, s.thr u = .idle) (t v : Nat) :
    (let s' := run s [.push t v, .step t, .step t, .step t]
     s'.thr t = .done (.pushed (decide (s.items.length < s.N)))
     ∧ s'.items = (if s.items.length < s.N then s.items ++ [v] else s.items) ∧ s'.flag = false)
    ∧ (let s' := run s [.pop t, .step t, .step t, .step t]
       s'.thr t = .done (.popped s.items.getLast?) ∧ s'.items = s.items.dropLast ∧ s'.flag = false) := by
  have hf : s.flag = false := by
    cases hf : s.flag with
    | false => rfl
    | true =>
      obtain ⟨u, hu⟩ := (reachable_inv h).flagIff.1 hf
      rw [hidle u] at hu; simp [holder] at hu
  constructor
  · have e1 : apply s (.push t v) = setThr s t (.pSwap v) := by simp [apply, hidle]
    have e2 : step (setThr s t (.pSwap v)) t = setThr { s with flag := true } t (.pCrit v) := by
      simp [step, hf, setThr]
      funext u; by_cases hu : u = t <;> simp [hu]
    simp only [run, List.foldl_cons, List.foldl_nil, e1]
    simp only [apply, e2]
    by_cases hlt : s.items.length < s.N
    · simp [step, setThr, pushCrit, hlt, Nat.not_le.2 hlt]
    · simp [step, setThr, pushCrit, hlt, Nat.not_lt.1 hlt]
  · have e1 : apply s (.pop t) = setThr s t .cSwap := by simp [apply, hidle]
    have e2 : step (setThr s t .cSwap) t = setThr { s with flag := true } t .cCrit := by
      simp [step, hf, setThr]
      funext u; by_cases hu : u = t <;> simp [hu]
    simp only [run, List.foldl_cons, List.foldl_nil, e1]
    simp only [apply, e2]
    cases hl : s.items.getLast? with
    | none =>
      have : s.items = [] := by simpa using hl
      simp [step, setThr, popCrit, this]
    | some w => simp [step, setThr, popCrit, hl]

/-- **Spinning happens only while the flag is held**: a `swap` step is a no-op exactly when the flag is set (and then
some *other* thread is inside the region). -/
theorem c18_spin_only_while_held {n : Nat} {s : St} (h : Reachable n s) {t : Nat}
    (ht : (∃ v, s.thr t = .pSwap v) ∨ s.thr t = .cSwap) :
    (step s t = s ↔ s.flag = true) ∧ (s.flag = true → ∃ u, u ≠ t ∧ holder (s.thr u)) := by
  constructor
  · constructor
    · intro e
      cases hf : s.flag with
      | true => rfl
      | false =>
        have e' := congrArg (fun x => x.thr t) e
        rcases ht with ⟨v, ht⟩ | ht <;> simp [step, ht, hf] at e'
    · intro hf
      rcases ht with ⟨v, ht⟩ | ht <;> simp [step, ht, hf]
  · intro hf
    obtain ⟨u, hu⟩ := (reachable_inv h).flagIff.1 hf
    refine ⟨u, ?_, hu⟩
    rintro rfl
    rcases ht with ⟨v, ht⟩ | ht <;> simp [ht, holder] at hu

/-! ## non-vacuity -/

/-- A run filling a stack of capacity 1, then a failed push (nothing changes at its linearization point), then LIFO
pops; the history is legal and conservation holds. -/
example :
    let s := run (init 1) [.push 0 5, .step 0, .step 0, .step 0, .ack 0, .push 1 6, .step 1]
    let s' := run s [.step 1, .step 1]
    Reachable 1 s ∧ Reachable 1 s'
    ∧ s.thr 1 = .pCrit 6 ∧ s.items = [5] ∧ s.items.length = s.N          -- full at the linearization point
    ∧ s'.thr 1 = .done (.pushed false) ∧ s'.items = [5] ∧ s'.hist = [(0, .inl 5)] ∧ s'.flag = false
    ∧ replay 1 s'.hist = some [5] := by
  refine ⟨⟨_, rfl⟩, ⟨[.push 0 5, .step 0, .step 0, .step 0, .ack 0, .push 1 6, .step 1, .step 1, .step 1], rfl⟩, ?_⟩
  decide

/-- Thread 1 (a `pop`) spins while thread 0 holds the flag inside `push`; once released, it gets the value. -/
example :
    let s := run (init 2) [.push 0 5, .step 0, .pop 1]
    let s' := run s [.step 0, .step 0, .step 1, .step 1, .step 1]
    Reachable 2 s
    ∧ s.thr 0 = .pCrit 5 ∧ s.flag = true ∧ s.thr 1 = .cSwap
    ∧ (step s 1).thr 1 = .cSwap ∧ (step (step s 1) 1).thr 1 = .cSwap ∧ (step s 1).flag = true
    ∧ s'.thr 0 = .done (.pushed true) ∧ s'.thr 1 = .done (.popped (some 5)) ∧ s'.items = []
    ∧ s'.hist = [(0, .inl 5), (1, .inr 5)] ∧ replay 2 s'.hist = some [] := by
  refine ⟨⟨_, rfl⟩, ?_⟩
  decide

/-- LIFO order and the parking-lot operations on the same abstract stack. -/
example :
    let s := run (init 3) [.plPush 0 1, .step 0, .ack 0, .plPush 0 2, .step 0, .ack 0, .plPop 1, .step 1]
    Reachable 3 s ∧ s.thr 1 = .done (.popped (some 2)) ∧ s.items = [1]
    ∧ pushes s.hist = [1, 2] ∧ pops s.hist = [2] := by
  refine ⟨⟨_, rfl⟩, ?_⟩
  decide

end Mutiny.Stack

open Mutiny.Stack in
#print axioms c18_mutual_exclusion
open Mutiny.Stack in
#print axioms c18_stack_linearizable
open Mutiny.Stack in
#print axioms c18_prefix_legal
open Mutiny.Stack in
#print axioms c18_push_point
open Mutiny.Stack in
#print axioms c18_pop_point
open Mutiny.Stack in
#print axioms c18_pl_push_point
open Mutiny.Stack in
#print axioms c18_pl_pop_point
open Mutiny.Stack in
#print axioms c18_unlock_carries_result
open Mutiny.Stack in
#print axioms c18_only_lin_points_change
open Mutiny.Stack in
#print axioms c18_no_loss_no_dup
open Mutiny.Stack in
#print axioms c18_solo_progress
open Mutiny.Stack in
#print axioms c18_solo_call
open Mutiny.Stack in
#print axioms c18_spin_only_while_held
