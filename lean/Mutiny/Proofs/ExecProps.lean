import Mutiny.Model.Exec

/-!
# Lemmas on the executor model `Mutiny/Model/Exec.lean` (for C06, C11, C12)

* accounting: `accountFrom` (the fold of `account` from any start), its four counters as filter lengths;
* event machine: projection lemmas for `settle`, the case analysis `stepEv_cases`, the invariant `Inv` and its
  preservation, conservation of accepted ids (`perm_run`), log characterisations of the ghost fields
  (`beforeClose`, `finished`, `closing`, `callbacks`), stability after the close callback (`Done`);
* latch: closed form of `latchFires`.
Nothing here changes what the model computes.
-/

namespace Mutiny.Exec

/-! ### accounting -/

/-- the fold of `account`, from an arbitrary start -/
def accountFrom (v : Variant) (timeout : Bool) (c0 : Counts) (items : List Outcome) : Counts :=
  items.foldl (fun c o => c.add (classify v timeout o)) c0

theorem account_eq (v : Variant) (timeout : Bool) (items : List Outcome) :
    account v timeout items = accountFrom v timeout {} items := rfl

theorem accountFrom_append (v : Variant) (timeout : Bool) (c0 : Counts) (xs ys : List Outcome) :
    accountFrom v timeout c0 (xs ++ ys) = accountFrom v timeout (accountFrom v timeout c0 xs) ys := by
  simp [accountFrom, List.foldl_append]

/-- a futures timeout is configured and the variant has item futures -/
def timesOut (v : Variant) (timeout : Bool) : Bool := timeout && (v = .futFallible || v = .fut)

theorem timesOut_true {v : Variant} {timeout : Bool} :
    timesOut v timeout = true ↔ timeout = true ∧ (v = .futFallible ∨ v = .fut) := by
  cases v <;> cases timeout <;> simp [timesOut]

theorem timesOut_false {v : Variant} {timeout : Bool} :
    timesOut v timeout = false ↔ timeout = false ∨ v = .fallible ∨ v = .plain := by
  cases v <;> cases timeout <;> simp [timesOut]

/-- the four counters of the fold, as filter lengths over the classification -/
theorem accountFrom_fields (v : Variant) (timeout : Bool) (items : List Outcome) : ∀ c0 : Counts,
    (accountFrom v timeout c0 items).ok
        = c0.ok + (items.filter (fun o => (classify v timeout o).1 = .ok)).length ∧
    (accountFrom v timeout c0 items).failed
        = c0.failed + (items.filter (fun o => (classify v timeout o).1 = .failed)).length ∧
    (accountFrom v timeout c0 items).timedOut
        = c0.timedOut + (items.filter (fun o => (classify v timeout o).1 = .timedOut)).length ∧
    (accountFrom v timeout c0 items).onErr
        = c0.onErr + (items.filter (fun o => (classify v timeout o).2)).length := by
  induction items with
  | nil => intro c0; simp [accountFrom]
  | cons o rest ih =>
    intro c0
    have h := ih (c0.add (classify v timeout o))
    simp only [accountFrom, List.foldl_cons] at h ⊢
    obtain ⟨h1, h2, h3, h4⟩ := h
    rw [h1, h2, h3, h4]
    rcases hc : classify v timeout o with ⟨eff, b⟩
    cases eff <;> cases b <;> simp [Counts.add, hc] <;> omega

/-- the classification, spelled out -/
theorem classify_fst_ok (v : Variant) (timeout : Bool) (o : Outcome) :
    ((classify v timeout o).1 = .ok) ↔ (o = .ok ∨ (o = .slow ∧ timesOut v timeout = false)) := by
  cases v <;> cases timeout <;> cases o <;> simp [classify, timesOut]

theorem classify_fst_failed (v : Variant) (timeout : Bool) (o : Outcome) :
    ((classify v timeout o).1 = .failed) ↔ (o = .err ∨ (o = .slowErr ∧ timesOut v timeout = false)) := by
  cases v <;> cases timeout <;> cases o <;> simp [classify, timesOut]

theorem classify_fst_timedOut (v : Variant) (timeout : Bool) (o : Outcome) :
    ((classify v timeout o).1 = .timedOut) ↔ ((o = .slow ∨ o = .slowErr) ∧ timesOut v timeout = true) := by
  cases v <;> cases timeout <;> cases o <;> simp [classify, timesOut]

/-- the error callback is invoked exactly for the items counted as failed -/
theorem classify_snd (v : Variant) (timeout : Bool) (o : Outcome) :
    (classify v timeout o).2 = true ↔ (classify v timeout o).1 = .failed := by
  cases v <;> cases timeout <;> cases o <;> simp [classify]

/-! ### event machine: projections of `settle` -/

section settle
variable (c : Cfg) (s : St)

@[simp] theorem settle_pending : (settle c s).pending = s.pending := by
  simp only [settle]; split <;> split <;> rfl
@[simp] theorem settle_inflight : (settle c s).inflight = s.inflight := by
  simp only [settle]; split <;> split <;> rfl
@[simp] theorem settle_finished : (settle c s).finished = s.finished := by
  simp only [settle]; split <;> split <;> rfl
@[simp] theorem settle_beforeClose : (settle c s).beforeClose = s.beforeClose := by
  simp only [settle]; split <;> split <;> rfl
@[simp] theorem settle_closing : (settle c s).closing = s.closing := by
  simp only [settle]; split <;> split <;> rfl
@[simp] theorem settle_closed : (settle c s).closed = s.closed := by
  simp only [settle]; split <;> split <;> rfl
@[simp] theorem settle_callbacks : (settle c s).callbacks = s.callbacks := by
  simp only [settle]; split <;> split <;> rfl

@[simp] theorem settle_signalled : (settle c s).signalled = s.signalled := by
  simp only [settle]; split <;> split <;> rfl
@[simp] theorem settle_closes : (settle c s).closes = s.closes := by
  simp only [settle]; split <;> split <;> rfl

/-- the streams are told to end with nothing pending exactly when a close is under way (or an end signal was given) and
    nothing is pending -/
theorem settle_cancelled :
    (settle c s).cancelled = (s.cancelled || ((s.closing || s.signalled) && s.pending.isEmpty)) := by
  simp only [settle]; split <;> split <;> grind

/-- the stream is dropped once cancelled, nothing pending and (`for_each`) nothing in flight -/
theorem settle_dropped :
    (settle c s).dropped = (s.dropped || ((settle c s).cancelled && s.pending.isEmpty &&
        (decide (c.limit > 1) || s.inflight.isEmpty))) := by
  rw [settle_cancelled]; simp only [settle]; split <;> split <;> grind

end settle

/-! ### event machine: case analysis of one step, runs -/

/-- the state before `settle` of an `accepted` step -/
def acceptSt (s : St) (i : Nat) : St :=
  { s with pending := s.pending ++ [i], beforeClose := if s.closing || s.signalled then s.beforeClose else s.beforeClose ++ [i] }

/-- what an enabled step is: the event, its guard, and the successor -/
theorem stepEv_cases {c : Cfg} {s s' : St} {e : Ev} (h : stepEv c s e = some s') :
    (∃ i, e = .accepted i ∧ s' = settle c (acceptSt s i)) ∨
    (∃ i rest, e = .yielded i ∧ s.pending = i :: rest ∧ s.dropped = false ∧ c.futures = true ∧
        s.inflight.length < max c.limit 1 ∧
        s' = settle c { s with pending := rest, inflight := s.inflight ++ [i] }) ∨
    (∃ i rest, e = .yielded i ∧ s.pending = i :: rest ∧ s.dropped = false ∧ c.futures = false ∧
        s' = settle c { s with pending := rest, finished := s.finished ++ [i] }) ∨
    (∃ i, e = .finished i ∧ i ∈ s.inflight ∧
        s' = settle c { s with inflight := s.inflight.erase i, finished := s.finished ++ [i] }) ∨
    (e = .closeCalled ∧ s' = settle c { s with closing := true, closes := s.closes + 1 }) ∨
    (e = .closeReturned ∧ 0 < s.closes ∧ s.closing = true ∧ s.dropped = true ∧ s' = { s with closed := true, closes := s.closes - 1 }) ∨
    (e = .callback ∧ s.dropped = true ∧ s.inflight = [] ∧ s.callbacks = 0 ∧ s' = { s with callbacks := 1 }) ∨
    (e = .cancelAll ∧ s' = settle c { s with signalled := true }) ∨
    (e = .closeExpired ∧ 0 < s.closes ∧ s' = settle c { s with signalled := true, closes := s.closes - 1 }) := by
  cases e with
  | accepted i =>
    simp only [stepEv, Option.some.injEq] at h
    exact Or.inl ⟨i, rfl, h.symm⟩
  | yielded i =>
    simp only [stepEv] at h
    split at h
    · rename_i j rest hp
      split at h
      · rename_i hg
        obtain ⟨hj, hd, hl⟩ := hg
        subst hj
        cases hf : c.futures with
        | true =>
          simp only [hf, if_true, Option.some.injEq] at h
          refine Or.inr (Or.inl ⟨j, rest, rfl, hp, by simpa using hd, rfl, ?_, h.symm⟩)
          simpa [hf] using hl
        | false =>
          simp only [hf, Bool.false_eq_true, if_false, Option.some.injEq] at h
          exact Or.inr (Or.inr (Or.inl ⟨j, rest, rfl, hp, by simpa using hd, rfl, h.symm⟩))
      · cases h
    · cases h
  | finished i =>
    simp only [stepEv] at h
    split at h
    · rename_i hi
      simp only [Option.some.injEq] at h
      exact Or.inr (Or.inr (Or.inr (Or.inl ⟨i, rfl, hi, h.symm⟩)))
    · cases h
  | closeCalled =>
    simp only [stepEv, Option.some.injEq] at h
    exact Or.inr (Or.inr (Or.inr (Or.inr (Or.inl ⟨rfl, h.symm⟩))))
  | closeReturned =>
    simp only [stepEv] at h
    split at h
    · rename_i hg
      simp only [Option.some.injEq] at h
      exact Or.inr (Or.inr (Or.inr (Or.inr (Or.inr (Or.inl ⟨rfl, hg.1, hg.2.1, hg.2.2, h.symm⟩)))))
    · cases h
  | callback =>
    simp only [stepEv] at h
    split at h
    · rename_i hg
      simp only [Option.some.injEq] at h
      exact Or.inr (Or.inr (Or.inr (Or.inr (Or.inr (Or.inr (Or.inl
        ⟨rfl, hg.1, by simpa using hg.2.1, hg.2.2, h.symm⟩))))))
    · cases h
  | cancelAll =>
    simp only [stepEv, Option.some.injEq] at h
    exact Or.inr (Or.inr (Or.inr (Or.inr (Or.inr (Or.inr (Or.inr (Or.inl ⟨rfl, h.symm⟩)))))))
  | closeExpired =>
    simp only [stepEv] at h
    split at h
    · rename_i hg
      simp only [Option.some.injEq] at h
      exact Or.inr (Or.inr (Or.inr (Or.inr (Or.inr (Or.inr (Or.inr (Or.inr ⟨rfl, hg, h.symm⟩)))))))
    · cases h


theorem runEv_nil (c : Cfg) (s : St) : runEv c s [] = some s := rfl

theorem runEv_cons {c : Cfg} {s s' : St} {e : Ev} {es : List Ev} (h : runEv c s (e :: es) = some s') :
    ∃ s1, stepEv c s e = some s1 ∧ runEv c s1 es = some s' := by
  simp only [runEv] at h
  split at h
  · rename_i s1 h1; exact ⟨s1, h1, h⟩
  · cases h

/-- a run over `a ++ b` is a run over `a` followed by a run over `b` (accepted logs are prefix closed) -/
theorem runEv_append {c : Cfg} {a b : List Ev} : ∀ {s s' : St}, runEv c s (a ++ b) = some s' →
    ∃ s1, runEv c s a = some s1 ∧ runEv c s1 b = some s' := by
  induction a with
  | nil => intro s s' h; exact ⟨s, rfl, h⟩
  | cons e es ih =>
    intro s s' h
    obtain ⟨s1, h1, h2⟩ := runEv_cons (by simpa using h)
    obtain ⟨s2, h3, h4⟩ := ih h2
    exact ⟨s2, by simp only [runEv, h1, h3], h4⟩

/-- induction along a run -/
theorem runEv_induct {c : Cfg} {P : St → Prop} (hstep : ∀ s e s', P s → stepEv c s e = some s' → P s')
    {es : List Ev} : ∀ {s s' : St}, P s → runEv c s es = some s' → P s' := by
  induction es with
  | nil => intro s s' hp h; cases h; exact hp
  | cons e es ih =>
    intro s s' hp h
    obtain ⟨s1, h1, h2⟩ := runEv_cons h
    exact ih (hstep s e s1 hp h1) h2

/-! ### the invariant -/

/-- invariant of the event machine (holds in every state reachable from `{}`) -/
structure Inv (c : Cfg) (s : St) : Prop where
  /-- an event accepted before the close call is pending, in flight or finished -/
  sub : ∀ i ∈ s.beforeClose, i ∈ s.pending ∨ i ∈ s.inflight ∨ i ∈ s.finished
  /-- the streams are only told to end (with nothing pending) inside a close or after an end signal, and after everything
      accepted before the close / the signal left the channel -/
  canc : s.cancelled = true → (s.closing = true ∨ s.signalled = true) ∧ ∀ i ∈ s.beforeClose, i ∈ s.inflight ∨ i ∈ s.finished
  /-- an outstanding close call means a close was called -/
  cl : 0 < s.closes → s.closing = true
  /-- the stream is dropped only after the cancel; with `for_each` (limit ≤ 1) nothing is in flight from then on -/
  drop : s.dropped = true → s.cancelled = true ∧ (c.limit ≤ 1 → s.inflight = [])
  clos : s.closed = true → s.dropped = true ∧ s.closing = true
  /-- without item futures nothing is ever in flight -/
  nofut : c.futures = false → s.inflight = []
  cb : s.callbacks ≤ 1
  /-- the machine never has more item futures in flight than the limit -/
  lim : s.inflight.length ≤ max c.limit 1

theorem inv_init (c : Cfg) : Inv c {} := by
  constructor <;> simp

theorem inv_settle {c : Cfg} {s : St} (h : Inv c s) : Inv c (settle c s) := by
  obtain ⟨sub, canc, cl, drop, clos, nofut, cb, lim⟩ := h
  constructor
  · simpa using sub
  · intro hc
    rw [settle_cancelled] at hc
    simp only [settle_closing, settle_signalled, settle_beforeClose, settle_inflight, settle_finished]
    cases hcs : s.cancelled with
    | true => exact canc hcs
    | false =>
      simp only [hcs, Bool.false_or, Bool.and_eq_true, Bool.or_eq_true, List.isEmpty_iff] at hc
      refine ⟨hc.1, fun i hi => ?_⟩
      rcases sub i hi with h1 | h1
      · rw [hc.2] at h1; cases h1
      · exact h1
  · simpa using cl
  · intro hd
    rw [settle_dropped] at hd
    simp only [settle_inflight]
    cases hds : s.dropped with
    | true =>
      refine ⟨?_, (drop hds).2⟩
      rw [settle_cancelled, (drop hds).1]; rfl
    | false =>
      simp only [hds, Bool.false_or, Bool.and_eq_true, Bool.or_eq_true, decide_eq_true_eq, List.isEmpty_iff] at hd
      refine ⟨hd.1.1, fun hl => ?_⟩
      rcases hd.2 with h1 | h1
      · omega
      · exact h1
  · intro hc
    simp only [settle_closed] at hc
    simp only [settle_closing]
    refine ⟨?_, (clos hc).2⟩
    rw [settle_dropped, (clos hc).1]; rfl
  · simpa using nofut
  · simpa using cb
  · simpa using lim

theorem inv_step {c : Cfg} {s s' : St} {e : Ev} (h : Inv c s) (hs : stepEv c s e = some s') : Inv c s' := by
  obtain ⟨sub, canc, cl, drop, clos, nofut, cb, lim⟩ := h
  rcases stepEv_cases hs with ⟨i, -, rfl⟩ | ⟨i, rest, -, hp, hd, hf, hl, rfl⟩ | ⟨i, rest, -, hp, hd, hf, rfl⟩ |
      ⟨i, -, hi, rfl⟩ | ⟨-, rfl⟩ | ⟨-, hcs, hc, hd, rfl⟩ | ⟨-, hd, hi, hcb, rfl⟩ | ⟨-, rfl⟩ | ⟨-, hcs, rfl⟩
  · -- accepted
    apply inv_settle
    constructor <;> simp only [acceptSt]
    · intro j hj
      cases hc : (s.closing || s.signalled) with
      | true =>
        simp only [hc, if_true] at hj
        rcases sub j hj with h1 | h1
        · exact Or.inl (List.mem_append_left _ h1)
        · exact Or.inr h1
      | false =>
        simp only [hc, Bool.false_eq_true, if_false, List.mem_append, List.mem_singleton] at hj
        rcases hj with hj | hj
        · rcases sub j hj with h1 | h1
          · exact Or.inl (List.mem_append_left _ h1)
          · exact Or.inr h1
        · exact Or.inl (by simp [hj])
    · intro hcn
      have := canc hcn
      have hcs : (s.closing || s.signalled) = true := by
        rcases this.1 with h1 | h1 <;> simp [h1]
      simpa [hcs] using this
    · exact cl
    · exact drop
    · exact clos
    · exact nofut
    · exact cb
    · exact lim
  · -- yielded, item future
    apply inv_settle
    constructor <;> simp only []
    · intro j hj
      rcases sub j hj with h1 | h1 | h1
      · rw [hp] at h1
        rcases List.mem_cons.1 h1 with h2 | h2
        · exact Or.inr (Or.inl (by simp [h2]))
        · exact Or.inl h2
      · exact Or.inr (Or.inl (List.mem_append_left _ h1))
      · exact Or.inr (Or.inr h1)
    · intro hcn
      refine ⟨(canc hcn).1, fun j hj => ?_⟩
      rcases (canc hcn).2 j hj with h1 | h1
      · exact Or.inl (List.mem_append_left _ h1)
      · exact Or.inr h1
    · exact cl
    · intro hd'; rw [hd] at hd'; cases hd'
    · exact clos
    · intro hf'; rw [hf] at hf'; cases hf'
    · exact cb
    · simp only [List.length_append, List.length_singleton]; omega
  · -- yielded, processed inside the poll
    apply inv_settle
    constructor <;> simp only []
    · intro j hj
      rcases sub j hj with h1 | h1 | h1
      · rw [hp] at h1
        rcases List.mem_cons.1 h1 with h2 | h2
        · exact Or.inr (Or.inr (by simp [h2]))
        · exact Or.inl h2
      · exact Or.inr (Or.inl h1)
      · exact Or.inr (Or.inr (List.mem_append_left _ h1))
    · intro hcn
      refine ⟨(canc hcn).1, fun j hj => ?_⟩
      rcases (canc hcn).2 j hj with h1 | h1
      · exact Or.inl h1
      · exact Or.inr (List.mem_append_left _ h1)
    · exact cl
    · intro hd'; rw [hd] at hd'; cases hd'
    · exact clos
    · exact nofut
    · exact cb
    · exact lim
  · -- finished
    apply inv_settle
    have move : ∀ j, j ∈ s.inflight → j ∈ s.inflight.erase i ∨ j ∈ s.finished ++ [i] := by
      intro j hj
      by_cases hji : j = i
      · exact Or.inr (by simp [hji])
      · exact Or.inl ((List.mem_erase_of_ne hji).2 hj)
    constructor <;> simp only []
    · intro j hj
      rcases sub j hj with h1 | h1 | h1
      · exact Or.inl h1
      · exact Or.inr (move j h1)
      · exact Or.inr (Or.inr (List.mem_append_left _ h1))
    · intro hcn
      refine ⟨(canc hcn).1, fun j hj => ?_⟩
      rcases (canc hcn).2 j hj with h1 | h1
      · exact move j h1
      · exact Or.inr (List.mem_append_left _ h1)
    · exact cl
    · intro hd'
      refine ⟨(drop hd').1, fun hl => ?_⟩
      rw [(drop hd').2 hl]; rfl
    · exact clos
    · intro hf'; rw [nofut hf']; rfl
    · exact cb
    · have := List.length_erase_le (a := i) (l := s.inflight); omega
  · -- closeCalled
    apply inv_settle
    constructor <;> simp only []
    · exact sub
    · intro hcn; exact ⟨Or.inl trivial, (canc hcn).2⟩
    · intro _; trivial
    · exact drop
    · intro hcl; exact ⟨(clos hcl).1, trivial⟩
    · exact nofut
    · exact cb
    · exact lim
  · -- closeReturned
    constructor <;> simp only []
    · exact sub
    · exact canc
    · intro _; exact hc
    · exact drop
    · intro _; exact ⟨hd, hc⟩
    · exact nofut
    · exact cb
    · exact lim
  · -- callback
    constructor <;> simp only []
    · exact sub
    · exact canc
    · exact cl
    · exact drop
    · exact clos
    · exact nofut
    · exact Nat.le_refl 1
    · exact lim
  · -- cancelAll
    apply inv_settle
    constructor <;> simp only []
    · exact sub
    · intro hcn; exact ⟨Or.inr trivial, (canc hcn).2⟩
    · exact cl
    · exact drop
    · exact clos
    · exact nofut
    · exact cb
    · exact lim
  · -- closeExpired
    apply inv_settle
    constructor <;> simp only []
    · exact sub
    · intro hcn; exact ⟨Or.inr trivial, (canc hcn).2⟩
    · intro _; exact cl hcs
    · exact drop
    · exact clos
    · exact nofut
    · exact cb
    · exact lim

/-- every state reachable from the initial one satisfies the invariant -/
theorem inv_run {c : Cfg} {es : List Ev} {s : St} (h : runEv c {} es = some s) : Inv c s :=
  runEv_induct (P := Inv c) (fun _ _ _ hp hs => inv_step hp hs) (inv_init c) h

/-! ### graceful close (C06) -/

theorem closeOk_iff (s : St) :
    closeOk s = true ↔ (s.closed = true → ∀ i ∈ s.beforeClose, i ∈ s.finished) := by
  cases h : s.closed <;> simp [closeOk, h, List.all_eq_true]

/-- with `for_each` (limit ≤ 1) or without item futures: when close returned everything accepted before is processed -/
theorem inv_close_sequential {c : Cfg} {s : St} (h : Inv c s) (hc : c.limit ≤ 1 ∨ c.futures = false)
    (hcl : s.closed = true) :
    (∀ i ∈ s.beforeClose, i ∈ s.finished) ∧ s.inflight = [] ∧ s.dropped = true ∧ s.cancelled = true ∧
      s.closing = true := by
  have hd := (h.clos hcl).1
  have hcn := (h.drop hd).1
  have hin : s.inflight = [] := by
    rcases hc with hc | hc
    · exact (h.drop hd).2 hc
    · exact h.nofut hc
  refine ⟨fun i hi => ?_, hin, hd, hcn, (h.clos hcl).2⟩
  rcases (h.canc hcn).2 i hi with h1 | h1
  · rw [hin] at h1; cases h1
  · exact h1

/-- whatever the configuration: once the stream is dropped and nothing is in flight (the guard of the close
    callback), everything accepted before the close call is processed -/
theorem inv_dropped_idle {c : Cfg} {s : St} (h : Inv c s) (hd : s.dropped = true) (hin : s.inflight = []) :
    ∀ i ∈ s.beforeClose, i ∈ s.finished := by
  intro i hi
  rcases (h.canc (h.drop hd).1).2 i hi with h1 | h1
  · rw [hin] at h1; cases h1
  · exact h1

/-! ### conservation of accepted ids -/

/-- ids of the `accepted` events of a log -/
def acceptedIds : List Ev → List Nat
  | [] => []
  | .accepted i :: es => i :: acceptedIds es
  | _ :: es => acceptedIds es

/-- everything the machine holds: pending, in flight, finished -/
def held (s : St) : List Nat := s.pending ++ s.inflight ++ s.finished

@[simp] theorem held_settle (c : Cfg) (s : St) : held (settle c s) = held s := by simp [held]

theorem acceptedIds_cons (e : Ev) (es : List Ev) : acceptedIds (e :: es) = acceptedIds [e] ++ acceptedIds es := by
  cases e <;> simp [acceptedIds]

theorem perm_step {c : Cfg} {s s' : St} {e : Ev} (hs : stepEv c s e = some s') :
    (held s').Perm (held s ++ acceptedIds [e]) := by
  rcases stepEv_cases hs with ⟨i, rfl, rfl⟩ | ⟨i, rest, rfl, hp, hd, hf, hl, rfl⟩ | ⟨i, rest, rfl, hp, hd, hf, rfl⟩ |
      ⟨i, rfl, hi, rfl⟩ | ⟨rfl, rfl⟩ | ⟨rfl, hcs, hc, hd, rfl⟩ | ⟨rfl, hd, hi, hcb, rfl⟩ | ⟨rfl, rfl⟩ | ⟨rfl, hcs, rfl⟩
  · rw [held_settle, List.perm_iff_count]; intro a
    simp only [held, acceptSt, acceptedIds, List.count_append]; omega
  · rw [held_settle, List.perm_iff_count]; intro a
    simp only [held, hp, acceptedIds, List.count_append, List.count_cons, List.count_nil]; omega
  · rw [held_settle, List.perm_iff_count]; intro a
    simp only [held, hp, acceptedIds, List.count_append, List.count_cons, List.count_nil]; omega
  · rw [held_settle, List.perm_iff_count]; intro a
    have hpos : i == a → 0 < List.count a s.inflight := by
      intro hia; have : i = a := by simpa using hia
      subst this; exact List.count_pos_iff.2 hi
    simp only [held, acceptedIds, List.count_append, List.count_cons, List.count_nil, List.count_erase]
    by_cases hia : (i == a) = true
    · have := hpos hia; simp only [hia, if_true]; omega
    · simp only [hia]; simp
  · simp [held, acceptedIds]
  · simp [held, acceptedIds]
  · simp [held, acceptedIds]
  · simp [held, acceptedIds]
  · simp [held, acceptedIds]

/-- no accepted event is ever discarded or duplicated: at any time, pending ++ in flight ++ finished is a
    permutation of the ids accepted so far (events only move `pending → inflight → finished`) -/
theorem perm_run {c : Cfg} {es : List Ev} : ∀ {s s' : St}, runEv c s es = some s' →
    (held s').Perm (held s ++ acceptedIds es) := by
  induction es with
  | nil => intro s s' h; cases h; simp [acceptedIds]
  | cons e es ih =>
    intro s s' h
    obtain ⟨s1, h1, h2⟩ := runEv_cons h
    rw [acceptedIds_cons, ← List.append_assoc]
    exact (ih h2).trans (List.Perm.append_right _ (perm_step h1))

/-! ### the ghost fields, as functions of the log -/

/-- ids accepted before the first `closeCalled` / end signal of the log -/
def acceptedBeforeClose : List Ev → List Nat
  | [] => []
  | .closeCalled :: _ => []
  | .cancelAll :: _ => []
  | .closeExpired :: _ => []
  | .accepted i :: es => i :: acceptedBeforeClose es
  | _ :: es => acceptedBeforeClose es

/-- ids whose processing completed, in order: `finished i`, and `yielded i` when items are not futures -/
def processedIds (c : Cfg) : List Ev → List Nat
  | [] => []
  | .finished i :: es => i :: processedIds c es
  | .yielded i :: es => if c.futures then processedIds c es else i :: processedIds c es
  | _ :: es => processedIds c es

/-- the events that give the end signal -/
def isSignal : Ev → Bool
  | .closeCalled | .cancelAll | .closeExpired => true
  | _ => false

theorem ghost_step {c : Cfg} {s s' : St} {e : Ev} (hs : stepEv c s e = some s') :
    s'.finished = s.finished ++ processedIds c [e] ∧
    s'.beforeClose = s.beforeClose ++ (if s.closing || s.signalled then [] else acceptedBeforeClose [e]) ∧
    (s'.closing || s'.signalled) = (s.closing || s.signalled || isSignal e) ∧
    s'.callbacks = s.callbacks + [e].count .callback := by
  rcases stepEv_cases hs with ⟨i, rfl, rfl⟩ | ⟨i, rest, rfl, hp, hd, hf, hl, rfl⟩ | ⟨i, rest, rfl, hp, hd, hf, rfl⟩ |
      ⟨i, rfl, hi, rfl⟩ | ⟨rfl, rfl⟩ | ⟨rfl, hcs, hc, hd, rfl⟩ | ⟨rfl, hd, hi, hcb, rfl⟩ | ⟨rfl, rfl⟩ | ⟨rfl, hcs, rfl⟩
  · cases hc : (s.closing || s.signalled) <;> simp [acceptSt, processedIds, acceptedBeforeClose, isSignal, hc]
  · simp [processedIds, acceptedBeforeClose, isSignal, hf]
  · simp [processedIds, acceptedBeforeClose, isSignal, hf]
  · simp [processedIds, acceptedBeforeClose, isSignal]
  · simp [processedIds, acceptedBeforeClose, isSignal]
  · simp [processedIds, acceptedBeforeClose, isSignal, hc]
  · simp [processedIds, acceptedBeforeClose, isSignal, hcb]
  · simp [processedIds, acceptedBeforeClose, isSignal]
  · simp [processedIds, acceptedBeforeClose, isSignal]

/-- `finished`, `beforeClose`, "the end signal was given", `callbacks` are what their names say, in terms of the log alone -/
theorem ghost_run {c : Cfg} {es : List Ev} : ∀ {s s' : St}, runEv c s es = some s' →
    s'.finished = s.finished ++ processedIds c es ∧
    s'.beforeClose = s.beforeClose ++ (if s.closing || s.signalled then [] else acceptedBeforeClose es) ∧
    (s'.closing || s'.signalled) = (s.closing || s.signalled || es.any isSignal) ∧
    s'.callbacks = s.callbacks + es.count .callback := by
  induction es with
  | nil => intro s s' h; cases h; simp [processedIds, acceptedBeforeClose]
  | cons e es ih =>
    intro s s' h
    obtain ⟨s1, h1, h2⟩ := runEv_cons h
    obtain ⟨a1, a2, a3, a4⟩ := ghost_step h1
    obtain ⟨b1, b2, b3, b4⟩ := ih h2
    rw [b1, b2, b3, b4, a1, a2, a3, a4]
    cases hc : (s.closing || s.signalled) <;> cases e <;>
      simp [processedIds, acceptedBeforeClose, isSignal] <;> (first | omega | (split <;> simp) | skip)

/-! ### after the close callback (C12) -/

/-- the state from the close callback on: stream dropped, nothing in flight, callback ran -/
def Done (s : St) : Prop := s.dropped = true ∧ s.inflight = [] ∧ s.callbacks = 1

theorem settle_dropped_of {c : Cfg} {s : St} (h : s.dropped = true) : (settle c s).dropped = true := by
  rw [settle_dropped, h]; rfl

/-- the `callback` step is enabled only with the stream dropped and nothing in flight, and leads to `Done` -/
theorem done_of_callback {c : Cfg} {s s' : St} (hs : stepEv c s .callback = some s') :
    s.dropped = true ∧ s.inflight = [] ∧ s.callbacks = 0 ∧ Done s' := by
  rcases stepEv_cases hs with ⟨i, h, -⟩ | ⟨i, rest, h, -⟩ | ⟨i, rest, h, -⟩ | ⟨i, h, -⟩ | ⟨h, -⟩ | ⟨h, -⟩ |
      ⟨-, hd, hi, hcb, rfl⟩ | ⟨h, -⟩ | ⟨h, -⟩
  all_goals first | cases h | skip
  exact ⟨hd, hi, hcb, hd, hi, rfl⟩

/-- `Done` is stable, and from then on no `yielded` / `finished` / `callback` event is enabled -/
theorem done_step {c : Cfg} {s s' : St} {e : Ev} (hd : Done s) (hs : stepEv c s e = some s') :
    Done s' ∧ (∀ i, e ≠ .yielded i) ∧ (∀ i, e ≠ .finished i) ∧ e ≠ .callback := by
  obtain ⟨h1, h2, h3⟩ := hd
  rcases stepEv_cases hs with ⟨i, rfl, rfl⟩ | ⟨i, rest, rfl, hp, hd, hf, hl, rfl⟩ | ⟨i, rest, rfl, hp, hd, hf, rfl⟩ |
      ⟨i, rfl, hi, rfl⟩ | ⟨rfl, rfl⟩ | ⟨rfl, hcs, hc, hd, rfl⟩ | ⟨rfl, hd, hi, hcb, rfl⟩ | ⟨rfl, rfl⟩ | ⟨rfl, hcs, rfl⟩
  · exact ⟨⟨settle_dropped_of (by simpa [acceptSt] using h1), by simpa [acceptSt] using h2,
      by simpa [acceptSt] using h3⟩, by simp⟩
  · rw [h1] at hd; cases hd
  · rw [h1] at hd; cases hd
  · rw [h2] at hi; cases hi
  · exact ⟨⟨settle_dropped_of h1, by simpa using h2, by simpa using h3⟩, by simp⟩
  · exact ⟨⟨h1, h2, h3⟩, by simp⟩
  · rw [h3] at hcb; cases hcb
  · exact ⟨⟨settle_dropped_of h1, by simpa using h2, by simpa using h3⟩, by simp⟩
  · exact ⟨⟨settle_dropped_of h1, by simpa using h2, by simpa using h3⟩, by simp⟩

theorem done_run {c : Cfg} {es : List Ev} : ∀ {s s' : St}, Done s → runEv c s es = some s' →
    Done s' ∧ ∀ e ∈ es, (∀ i, e ≠ .yielded i) ∧ (∀ i, e ≠ .finished i) ∧ e ≠ .callback := by
  induction es with
  | nil => intro s s' hd h; cases h; exact ⟨hd, by simp⟩
  | cons e es ih =>
    intro s s' hd h
    obtain ⟨s1, h1, h2⟩ := runEv_cons h
    obtain ⟨d1, hne⟩ := done_step hd h1
    obtain ⟨d2, hall⟩ := ih d1 h2
    refine ⟨d2, fun e' he' => ?_⟩
    rcases List.mem_cons.1 he' with rfl | he'
    · exact hne
    · exact hall e' he'

/-- from any start: at a `callback` in an accepted log the stream is dropped and nothing is in flight, and nothing
    is processed afterwards -/
theorem run_callback_split {c : Cfg} {es₁ es₂ : List Ev} {s0 s : St}
    (h : runEv c s0 (es₁ ++ .callback :: es₂) = some s) :
    (∃ s1, runEv c s0 es₁ = some s1 ∧ s1.dropped = true ∧ s1.inflight = [] ∧ s1.callbacks = 0) ∧ Done s ∧
    ∀ e ∈ es₂, (∀ i, e ≠ .yielded i) ∧ (∀ i, e ≠ .finished i) ∧ e ≠ .callback := by
  obtain ⟨s1, h1, h2⟩ := runEv_append h
  obtain ⟨s2, h3, h4⟩ := runEv_cons h2
  obtain ⟨a, b, d, hdone⟩ := done_of_callback h3
  obtain ⟨hd, hall⟩ := done_run hdone h4
  exact ⟨⟨s1, h1, a, b, d⟩, hd, hall⟩

/-! ### two executors, the second one spawned inside the first one's close callback (C12) -/

/-- the log of one of the two executors (`false` = the old one, `true` = the new one) inside a combined log -/
def proj (b : Bool) (comb : List (Bool × Ev)) : List Ev := (comb.filter (fun x => x.1 == b)).map (·.2)

/-- events that are (part of) the processing of an item -/
def isProcessing : Ev → Bool
  | .yielded _ | .finished _ => true
  | _ => false

theorem proj_append (b : Bool) (xs ys : List (Bool × Ev)) : proj b (xs ++ ys) = proj b xs ++ proj b ys := by
  simp [proj]

theorem mem_proj {b : Bool} {e : Ev} {comb : List (Bool × Ev)} (h : (b, e) ∈ comb) : e ∈ proj b comb := by
  simp only [proj, List.mem_map, List.mem_filter]
  exact ⟨(b, e), ⟨h, by simp⟩, rfl⟩

/-- in a combined log whose old-executor part is accepted, no old item is processed after the old close callback -/
theorem seq_split {c : Cfg} {pre post : List (Bool × Ev)}
    (hacc : accepts c (proj false (pre ++ (false, .callback) :: post)) = true) :
    ∀ e, (false, e) ∈ post → isProcessing e = false := by
  intro e he
  rw [proj_append] at hacc
  have hcons : proj false ((false, Ev.callback) :: post) = .callback :: proj false post := by simp [proj]
  rw [hcons] at hacc
  simp only [accepts, Option.isSome_iff_exists] at hacc
  obtain ⟨s, hs⟩ := hacc
  have := (run_callback_split hs).2.2 e (mem_proj he)
  cases e <;> simp_all [isProcessing]

/-! ### status word (C12) -/

/-- `report_scheduled_to_finish`: an unconditional `store(ScheduledToFinish)` on the status word (proof-side definition,
    not part of the replayed model) -/
def reportScheduled (_ : Status) : Status := .scheduledToFinish

/-! ### latch (C12) -/

/-- closed form: the callback fired once iff at least `n ≥ 1` calls were made -/
theorem latchFires_eq (n k : Nat) : latchFires n k = if 1 ≤ n ∧ n ≤ k then 1 else 0 := by
  induction k with
  | zero => simp only [latchFires]; split <;> omega
  | succ k ih =>
    simp only [latchFires, ih, beq_iff_eq]
    repeat' split
    all_goals omega

/-- the latch counter after `k` calls of `latch`, starting from `n` -/
def latchRemaining (n : Nat) : Nat → Nat
  | 0 => n
  | k + 1 => (latch (latchRemaining n k)).1

theorem latchRemaining_eq (n k : Nat) : latchRemaining n k = n - k := by
  induction k with
  | zero => rfl
  | succ k ih => simp only [latchRemaining, latch, ih]; omega

/-- `latchFires` is the fold of `latch`: call number `k + 1` fires iff `latch` says so on the counter left by the
    `k` calls before -/
theorem latchFires_succ (n k : Nat) :
    latchFires n (k + 1) = (if (latch (latchRemaining n k)).2 then 1 else 0) + latchFires n k := by
  simp only [latchFires, latch, latchRemaining_eq]

end Mutiny.Exec
