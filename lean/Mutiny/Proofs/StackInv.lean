import Mutiny.Model.Stack

/-!
# Inductive invariant of the `Stack` model (flag-guarded bounded stack + parking-lot variant)
-/

namespace Mutiny.Stack

/-! ## projection lemmas -/

@[simp, grind =] theorem thr_setThr (s : St) (t : Nat) (l : Loc) (u : Nat) :
    (setThr s t l).thr u = if u = t then l else s.thr u := rfl
@[simp, grind =] theorem N_setThr (s : St) (t : Nat) (l : Loc) : (setThr s t l).N = s.N := rfl
@[simp, grind =] theorem flag_setThr (s : St) (t : Nat) (l : Loc) : (setThr s t l).flag = s.flag := rfl
@[simp, grind =] theorem items_setThr (s : St) (t : Nat) (l : Loc) : (setThr s t l).items = s.items := rfl
@[simp, grind =] theorem hist_setThr (s : St) (t : Nat) (l : Loc) : (setThr s t l).hist = s.hist := rfl

/-! ## the critical regions -/

theorem pushCrit_ok (s : St) (t v : Nat) (h : s.items.length < s.N) :
    pushCrit s t v = ({ s with items := s.items ++ [v], hist := s.hist ++ [(t, .inl v)] }, true) := by
  simp only [pushCrit]; rw [if_neg (by omega)]

theorem pushCrit_full (s : St) (t v : Nat) (h : s.N ≤ s.items.length) : pushCrit s t v = (s, false) := by
  simp only [pushCrit]; rw [if_pos h]

theorem popCrit_some (s : St) (t v : Nat) (h : s.items.getLast? = some v) :
    popCrit s t = ({ s with items := s.items.dropLast, hist := s.hist ++ [(t, .inr v)] }, some v) := by
  simp only [popCrit, h]

theorem popCrit_none (s : St) (t : Nat) (h : s.items = []) : popCrit s t = (s, none) := by
  simp only [popCrit, h, List.getLast?_nil]

@[simp] theorem pushCrit_thr (s : St) (t v : Nat) : (pushCrit s t v).1.thr = s.thr := by
  simp only [pushCrit]; split <;> rfl
@[simp] theorem pushCrit_flag (s : St) (t v : Nat) : (pushCrit s t v).1.flag = s.flag := by
  simp only [pushCrit]; split <;> rfl
@[simp] theorem pushCrit_N (s : St) (t v : Nat) : (pushCrit s t v).1.N = s.N := by
  simp only [pushCrit]; split <;> rfl
@[simp] theorem popCrit_thr (s : St) (t : Nat) : (popCrit s t).1.thr = s.thr := by
  simp only [popCrit]; split <;> rfl
@[simp] theorem popCrit_flag (s : St) (t : Nat) : (popCrit s t).1.flag = s.flag := by
  simp only [popCrit]; split <;> rfl
@[simp] theorem popCrit_N (s : St) (t : Nat) : (popCrit s t).1.N = s.N := by
  simp only [popCrit]; split <;> rfl

theorem getLast?_eq_some_iff_snoc {l : List Nat} {v : Nat} : l.getLast? = some v ↔ l = l.dropLast ++ [v] := by
  constructor
  · intro h
    obtain ⟨ys, rfl⟩ := List.getLast?_eq_some_iff.1 h
    simp
  · intro h; rw [h]; simp

/-! ## replaying a history on the abstract bounded stack -/

theorem replay_eq (n : Nat) (h : List (Nat × (Nat ⊕ Nat))) : replay n h = replay.go n [] h := by
  cases h <;> rfl

theorem go_append (n : Nat) (st : List Nat) (h1 h2 : List (Nat × (Nat ⊕ Nat))) :
    replay.go n st (h1 ++ h2) = (replay.go n st h1).bind (fun st' => replay.go n st' h2) := by
  induction h1 generalizing st with
  | nil => simp [replay.go]
  | cons e h1 ih =>
    obtain ⟨t, v | v⟩ := e
    · simp only [List.cons_append, replay.go]
      split
      · exact ih _
      · rfl
    · simp only [List.cons_append, replay.go]
      split
      · exact ih _
      · rfl

theorem go_push (n : Nat) (st : List Nat) (t v : Nat) (h : st.length < n) :
    replay.go n st [(t, .inl v)] = some (st ++ [v]) := by
  simp [replay.go, h]

theorem go_pop (n : Nat) (st : List Nat) (t v : Nat) (h : st.getLast? = some v) :
    replay.go n st [(t, .inr v)] = some st.dropLast := by
  simp [replay.go, h]

/-- values pushed successfully, in linearization order -/
def pushes (h : List (Nat × (Nat ⊕ Nat))) : List Nat :=
  h.filterMap (fun e => match e.2 with | .inl v => some v | .inr _ => none)

/-- values popped, in linearization order -/
def pops (h : List (Nat × (Nat ⊕ Nat))) : List Nat :=
  h.filterMap (fun e => match e.2 with | .inl _ => none | .inr v => some v)

@[simp] theorem pushes_nil : pushes [] = [] := rfl
@[simp] theorem pops_nil : pops [] = [] := rfl
@[simp] theorem pushes_cons_inl (t v : Nat) (h) : pushes ((t, .inl v) :: h) = v :: pushes h := rfl
@[simp] theorem pushes_cons_inr (t v : Nat) (h) : pushes ((t, .inr v) :: h) = pushes h := rfl
@[simp] theorem pops_cons_inl (t v : Nat) (h) : pops ((t, .inl v) :: h) = pops h := rfl
@[simp] theorem pops_cons_inr (t v : Nat) (h) : pops ((t, .inr v) :: h) = v :: pops h := rfl

/-- A legal replay conserves values: what was there + what was pushed = what was popped + what is left. -/
theorem go_count (n : Nat) (st st' : List Nat) (h : List (Nat × (Nat ⊕ Nat)))
    (hgo : replay.go n st h = some st') (v : Nat) :
    st.count v + (pushes h).count v = (pops h).count v + st'.count v := by
  induction h generalizing st with
  | nil => simp only [replay.go, Option.some.injEq] at hgo; subst hgo; simp
  | cons e h ih =>
    obtain ⟨t, w | w⟩ := e
    · simp only [replay.go] at hgo
      split at hgo
      · have := ih _ hgo
        simp only [pushes_cons_inl, pops_cons_inl, List.count_cons, List.count_append, List.count_nil] at this ⊢
        omega
      · cases hgo
    · simp only [replay.go] at hgo
      split at hgo
      · rename_i hl
        have := ih _ hgo
        have e := getLast?_eq_some_iff_snoc.1 hl
        have hc : st.count v = st.dropLast.count v + (if w == v then 1 else 0) := by
          conv => lhs; rw [e]
          simp [List.count_cons]
        simp only [pushes_cons_inr, pops_cons_inr, List.count_cons] at this ⊢
        omega
      · cases hgo

/-- In a legal replay the abstract stack never exceeds the bound. -/
theorem go_length_le (n : Nat) (st st' : List Nat) (h : List (Nat × (Nat ⊕ Nat)))
    (hgo : replay.go n st h = some st') (hst : st.length ≤ n) : st'.length ≤ n := by
  induction h generalizing st with
  | nil => simp only [replay.go, Option.some.injEq] at hgo; subst hgo; exact hst
  | cons e h ih =>
    obtain ⟨t, w | w⟩ := e
    · simp only [replay.go] at hgo
      split at hgo
      · exact ih _ hgo (by simp; omega)
      · cases hgo
    · simp only [replay.go] at hgo
      split at hgo
      · exact ih _ hgo (by simp; omega)
      · cases hgo

/-! ## the invariant -/

/-- Program points inside the flag-guarded region. -/
def holder : Loc → Prop
  | .pCrit _ | .pUnlock _ | .cCrit | .cUnlock _ => True
  | _ => False

instance : DecidablePred holder := fun l => by
  cases l <;> simp only [holder] <;> infer_instance

/-- the part of the invariant about the flag and the program points -/
structure LockInv (s : St) : Prop where
  flagIff : s.flag = true ↔ ∃ t, holder (s.thr t)
  mutex   : ∀ t u, holder (s.thr t) → holder (s.thr u) → t = u

/-- the part of the invariant about the content and the ghost history -/
structure DataInv (n : Nat) (s : St) : Prop where
  Neq : s.N = n
  cap : s.items.length ≤ s.N
  lin : replay.go n [] s.hist = some s.items

structure Inv (n : Nat) (s : St) : Prop extends LockInv s, DataInv n s

theorem inv_init (n : Nat) : Inv n (init n) := by
  refine ⟨⟨?_, ?_⟩, ⟨rfl, ?_, rfl⟩⟩ <;> simp [init, holder]

/-! ### data part -/

theorem dataInv_congr {n : Nat} {s s' : St} (h : DataInv n s) (h1 : s'.N = s.N) (h2 : s'.items = s.items)
    (h3 : s'.hist = s.hist) : DataInv n s' := by
  obtain ⟨a, b, c⟩ := h
  exact ⟨by rw [h1, a], by rw [h1, h2]; exact b, by rw [h2, h3]; exact c⟩

theorem dataInv_pushCrit {n : Nat} (s : St) (t v : Nat) (h : DataInv n s) : DataInv n (pushCrit s t v).1 := by
  obtain ⟨a, b, c⟩ := h
  by_cases hf : s.items.length < s.N
  · rw [pushCrit_ok s t v hf]
    refine ⟨a, by simp; omega, ?_⟩
    simp only
    rw [go_append, c, Option.bind_some, go_push]
    omega
  · rw [pushCrit_full s t v (by omega)]
    exact ⟨a, b, c⟩

theorem dataInv_popCrit {n : Nat} (s : St) (t : Nat) (h : DataInv n s) : DataInv n (popCrit s t).1 := by
  obtain ⟨a, b, c⟩ := h
  cases hl : s.items.getLast? with
  | none =>
    rw [popCrit_none s t (by simpa using hl)]
    exact ⟨a, b, c⟩
  | some v =>
    rw [popCrit_some s t v hl]
    refine ⟨a, by simp; omega, ?_⟩
    simp only
    rw [go_append, c, Option.bind_some, go_pop _ _ _ _ hl]

/-! ### lock part -/

/-- Moving a thread between two non-holder points. -/
theorem lockInv_free (s : St) (t : Nat) (l : Loc) (h : LockInv s)
    (h1 : ¬ holder (s.thr t)) (h2 : ¬ holder l) : LockInv (setThr s t l) := by
  obtain ⟨flagIff, mutex⟩ := h
  constructor <;> simp only [thr_setThr, flag_setThr]
  · rw [flagIff]
    constructor
    · rintro ⟨u, hu⟩; exact ⟨u, by grind⟩
    · rintro ⟨u, hu⟩; exact ⟨u, by grind⟩
  · intro a b ha hb; exact mutex a b (by grind) (by grind)

/-- Acquiring the free flag. -/
theorem lockInv_acquire (s : St) (t : Nat) (l : Loc) (h : LockInv s) (hf : s.flag = false) (h2 : holder l) :
    LockInv (setThr { s with flag := true } t l) := by
  obtain ⟨flagIff, mutex⟩ := h
  have nobody : ∀ u, ¬ holder (s.thr u) := fun u hu => by
    have := flagIff.2 ⟨u, hu⟩; simp [hf] at this
  constructor <;> simp only [thr_setThr, flag_setThr]
  · simp only [true_iff]; exact ⟨t, by simp [h2]⟩
  · intro a b ha hb
    have := nobody a; have := nobody b; grind

/-- The holder moves to another point inside the region. -/
theorem lockInv_move (s : St) (t : Nat) (l : Loc) (h : LockInv s) (h1 : holder (s.thr t)) (h2 : holder l) :
    LockInv (setThr s t l) := by
  obtain ⟨flagIff, mutex⟩ := h
  have only : ∀ u, holder (s.thr u) → u = t := fun u hu => mutex u t hu h1
  constructor <;> simp only [thr_setThr, flag_setThr]
  · rw [flagIff]
    constructor
    · rintro ⟨u, hu⟩; exact ⟨t, by simp [h2]⟩
    · rintro ⟨u, hu⟩; exact ⟨t, h1⟩
  · intro a b ha hb; have := only a; have := only b; grind

/-- Releasing the flag. -/
theorem lockInv_release (s : St) (t : Nat) (l : Loc) (h : LockInv s) (h1 : holder (s.thr t)) (h2 : ¬ holder l) :
    LockInv (setThr { s with flag := false } t l) := by
  obtain ⟨flagIff, mutex⟩ := h
  have only : ∀ u, holder (s.thr u) → u = t := fun u hu => mutex u t hu h1
  constructor <;> simp only [thr_setThr, flag_setThr]
  · simp only [Bool.false_eq_true, false_iff, not_exists]
    intro u; have := only u; grind
  · intro a b ha hb; have := only a; have := only b; grind

theorem lockInv_congr {s s' : St} (h : LockInv s) (h1 : s'.flag = s.flag) (h2 : s'.thr = s.thr) : LockInv s' := by
  obtain ⟨a, b⟩ := h
  exact ⟨by rw [h1, h2]; exact a, by rw [h2]; exact b⟩

/-! ### preservation -/

theorem inv_setThr_free {n : Nat} (s : St) (t : Nat) (l : Loc) (h : Inv n s)
    (h1 : ¬ holder (s.thr t)) (h2 : ¬ holder l) : Inv n (setThr s t l) :=
  ⟨lockInv_free s t l h.toLockInv h1 h2, dataInv_congr h.toDataInv rfl rfl rfl⟩

theorem inv_step {n : Nat} (s : St) (t : Nat) (h : Inv n s) : Inv n (step s t) := by
  cases ht : s.thr t with
  | idle => simp only [step, ht]; exact h
  | done r => simp only [step, ht]; exact h
  | pSwap v =>
    simp only [step, ht]
    split
    · exact h
    · exact ⟨lockInv_acquire s t _ h.toLockInv (by simpa using ‹¬ s.flag = true›) (by simp [holder]),
        dataInv_congr h.toDataInv rfl rfl rfl⟩
  | cSwap =>
    simp only [step, ht]
    split
    · exact h
    · exact ⟨lockInv_acquire s t _ h.toLockInv (by simpa using ‹¬ s.flag = true›) (by simp [holder]),
        dataInv_congr h.toDataInv rfl rfl rfl⟩
  | pCrit v =>
    simp only [step, ht]
    have hl : LockInv (pushCrit s t v).1 := lockInv_congr h.toLockInv (by simp) (by simp)
    exact ⟨lockInv_move _ t _ hl (by simp [ht, holder]) (by simp [holder]),
      dataInv_congr (dataInv_pushCrit s t v h.toDataInv) rfl rfl rfl⟩
  | cCrit =>
    simp only [step, ht]
    have hl : LockInv (popCrit s t).1 := lockInv_congr h.toLockInv (by simp) (by simp)
    exact ⟨lockInv_move _ t _ hl (by simp [ht, holder]) (by simp [holder]),
      dataInv_congr (dataInv_popCrit s t h.toDataInv) rfl rfl rfl⟩
  | pUnlock ok =>
    simp only [step, ht]
    exact ⟨lockInv_release s t _ h.toLockInv (by simp [ht, holder]) (by simp [holder]),
      dataInv_congr h.toDataInv rfl rfl rfl⟩
  | cUnlock r =>
    simp only [step, ht]
    exact ⟨lockInv_release s t _ h.toLockInv (by simp [ht, holder]) (by simp [holder]),
      dataInv_congr h.toDataInv rfl rfl rfl⟩
  | plPush v =>
    simp only [step, ht]
    have hl : LockInv (pushCrit s t v).1 := lockInv_congr h.toLockInv (by simp) (by simp)
    exact ⟨lockInv_free _ t _ hl (by simp [ht, holder]) (by simp [holder]),
      dataInv_congr (dataInv_pushCrit s t v h.toDataInv) rfl rfl rfl⟩
  | plPop =>
    simp only [step, ht]
    have hl : LockInv (popCrit s t).1 := lockInv_congr h.toLockInv (by simp) (by simp)
    exact ⟨lockInv_free _ t _ hl (by simp [ht, holder]) (by simp [holder]),
      dataInv_congr (dataInv_popCrit s t h.toDataInv) rfl rfl rfl⟩

theorem inv_apply {n : Nat} (s : St) (a : Act) (h : Inv n s) : Inv n (apply s a) := by
  cases a with
  | push t v =>
    simp only [apply]; split
    · exact inv_setThr_free s t _ h (by simp [*, holder]) (by simp [holder])
    · exact h
  | pop t =>
    simp only [apply]; split
    · exact inv_setThr_free s t _ h (by simp [*, holder]) (by simp [holder])
    · exact h
  | plPush t v =>
    simp only [apply]; split
    · exact inv_setThr_free s t _ h (by simp [*, holder]) (by simp [holder])
    · exact h
  | plPop t =>
    simp only [apply]; split
    · exact inv_setThr_free s t _ h (by simp [*, holder]) (by simp [holder])
    · exact h
  | step t => exact inv_step s t h
  | ack t =>
    simp only [apply]; split
    · exact inv_setThr_free s t _ h (by simp [*, holder]) (by simp [holder])
    · exact h

theorem inv_run {n : Nat} (s : St) (as : List Act) (h : Inv n s) : Inv n (run s as) := by
  induction as generalizing s with
  | nil => exact h
  | cons a as ih => exact ih (apply s a) (inv_apply s a h)

theorem reachable_inv {n : Nat} {s : St} (h : Reachable n s) : Inv n s := by
  obtain ⟨as, rfl⟩ := h
  exact inv_run _ as (inv_init n)

theorem reachable_apply {n : Nat} {s : St} (h : Reachable n s) (a : Act) : Reachable n (apply s a) := by
  obtain ⟨as, rfl⟩ := h
  exact ⟨as ++ [a], by simp [run, List.foldl_append]⟩

theorem run_append (s : St) (as bs : List Act) : run s (as ++ bs) = run (run s as) bs := by
  simp [run, List.foldl_append]

/-! ## frame: what the non-critical steps leave alone -/

/-- program points whose step is a linearization point (touches `items` / `hist`) -/
def critical : Loc → Prop
  | .pCrit _ | .cCrit | .plPush _ | .plPop => True
  | _ => False

theorem step_frame (s : St) (t : Nat) (h : ¬ critical (s.thr t)) :
    (step s t).items = s.items ∧ (step s t).hist = s.hist ∧ (step s t).N = s.N := by
  cases ht : s.thr t <;> simp only [ht, critical, not_true_eq_false] at h <;> simp only [step, ht] <;>
    (try split) <;> simp

theorem apply_frame (s : St) (a : Act) (h : ∀ t, a = .step t → ¬ critical (s.thr t)) :
    (apply s a).items = s.items ∧ (apply s a).hist = s.hist ∧ (apply s a).N = s.N := by
  cases a with
  | push t v => simp only [apply]; split <;> simp
  | pop t => simp only [apply]; split <;> simp
  | plPush t v => simp only [apply]; split <;> simp
  | plPop t => simp only [apply]; split <;> simp
  | step t => exact step_frame s t (h t rfl)
  | ack t => simp only [apply]; split <;> simp

theorem step_other (s : St) (t u : Nat) (h : u ≠ t) : (step s t).thr u = s.thr u := by
  cases ht : s.thr t <;> simp only [step, ht] <;> (try split) <;> simp [h]

theorem holder_iff (l : Loc) :
    holder l ↔ (∃ v, l = .pCrit v) ∨ (∃ ok, l = .pUnlock ok) ∨ l = .cCrit ∨ ∃ r, l = .cUnlock r := by
  cases l <;> simp [holder]

/-! ## the critical regions, result-wise -/

theorem pushCrit_snd (s : St) (t v : Nat) : (pushCrit s t v).2 = decide (s.items.length < s.N) := by
  simp only [pushCrit]; split <;> simp <;> omega

theorem popCrit_snd (s : St) (t : Nat) : (popCrit s t).2 = s.items.getLast? := by
  simp only [popCrit]; split <;> simp [*]

/-- A critical step either changes nothing of `items` / `hist` (full / empty) or appends exactly one event of `t`. -/
theorem pushCrit_event (s : St) (t v : Nat) :
    ((pushCrit s t v).1.items = s.items ∧ (pushCrit s t v).1.hist = s.hist)
    ∨ (pushCrit s t v).1.hist = s.hist ++ [(t, .inl v)] := by
  simp only [pushCrit]; split <;> simp

theorem popCrit_event (s : St) (t : Nat) :
    ((popCrit s t).1.items = s.items ∧ (popCrit s t).1.hist = s.hist)
    ∨ ∃ v, (popCrit s t).1.hist = s.hist ++ [(t, .inr v)] := by
  simp only [popCrit]; split <;> simp

theorem step_event (s : St) (t : Nat) :
    ((step s t).items = s.items ∧ (step s t).hist = s.hist) ∨ ∃ e, (step s t).hist = s.hist ++ [(t, e)] := by
  cases ht : s.thr t <;> simp only [step, ht] <;> (try split) <;> (try simp; done)
  · rcases pushCrit_event s t ‹Nat› with h | h
    · left; simpa using h
    · right; exact ⟨_, by simpa using h⟩
  · rcases popCrit_event s t with h | ⟨v, h⟩
    · left; simpa using h
    · right; exact ⟨_, by simpa using h⟩
  · rcases pushCrit_event s t ‹Nat› with h | h
    · left; simpa using h
    · right; exact ⟨_, by simpa using h⟩
  · rcases popCrit_event s t with h | ⟨v, h⟩
    · left; simpa using h
    · right; exact ⟨_, by simpa using h⟩

/-! ## solo progress -/

theorem run_steps_succ (s : St) (t k : Nat) :
    run s (List.replicate (k + 1) (.step t)) = run (step s t) (List.replicate k (.step t)) := rfl

theorem step_pUnlock_thr (s : St) (t : Nat) (ok : Bool) (ht : s.thr t = .pUnlock ok) :
    (step s t).thr t = .done (.pushed ok) := by simp [step, ht]

theorem step_cUnlock_thr (s : St) (t : Nat) (r : Option Nat) (ht : s.thr t = .cUnlock r) :
    (step s t).thr t = .done (.popped r) := by simp [step, ht]

/-- From inside the region (or from a one-step parking-lot operation) the thread finishes on its own. -/
theorem finish_from_region (s : St) (t : Nat)
    (h : holder (s.thr t) ∨ (∃ v, s.thr t = .plPush v) ∨ s.thr t = .plPop) :
    ∃ k, k ≤ 2 ∧ ∃ r, (run s (List.replicate k (.step t))).thr t = .done r := by
  cases ht : s.thr t <;> simp only [ht, holder, reduceCtorEq, exists_false, or_self, false_or, or_false] at h
  case pCrit v =>
    refine ⟨2, by omega, ?_⟩
    rw [run_steps_succ, run_steps_succ]
    have h1 : (step s t).thr t = .pUnlock (pushCrit s t v).2 := by simp [step, ht]
    exact ⟨_, step_pUnlock_thr (step s t) t _ h1⟩
  case cCrit =>
    refine ⟨2, by omega, ?_⟩
    rw [run_steps_succ, run_steps_succ]
    have h1 : (step s t).thr t = .cUnlock (popCrit s t).2 := by simp [step, ht]
    exact ⟨_, step_cUnlock_thr (step s t) t _ h1⟩
  case pUnlock ok => exact ⟨1, by omega, _, step_pUnlock_thr s t ok ht⟩
  case cUnlock r => exact ⟨1, by omega, _, step_cUnlock_thr s t r ht⟩
  case plPush v =>
    exact ⟨1, by omega, .pushed (pushCrit s t v).2, by rw [run_steps_succ]; simp [run, step, ht]⟩
  case plPop =>
    exact ⟨1, by omega, .popped (popCrit s t).2, by rw [run_steps_succ]; simp [run, step, ht]⟩

theorem solo_progress_of_inv {n : Nat} {s : St} {t : Nat} (h : Inv n s)
    (ho : ∀ u, u ≠ t → s.thr u = .idle) (ht : s.thr t ≠ .idle) :
    ∃ k, k ≤ 3 ∧ ∃ r, (run s (List.replicate k (.step t))).thr t = .done r := by
  have free : ¬ holder (s.thr t) → s.flag = false := by
    intro hh
    cases hf : s.flag with
    | false => rfl
    | true =>
      obtain ⟨u, hu⟩ := h.flagIff.1 hf
      by_cases hut : u = t
      · subst hut; exact absurd hu hh
      · rw [ho u hut] at hu; simp [holder] at hu
  cases hl : s.thr t with
  | idle => exact absurd hl ht
  | done r => exact ⟨0, by omega, r, by simp [run, hl]⟩
  | pSwap v =>
    have hf := free (by simp [hl, holder])
    obtain ⟨k, hk, r, hr⟩ := finish_from_region (step s t) t (Or.inl (by simp [step, hl, hf, holder]))
    exact ⟨k + 1, by omega, r, by rw [run_steps_succ]; exact hr⟩
  | cSwap =>
    have hf := free (by simp [hl, holder])
    obtain ⟨k, hk, r, hr⟩ := finish_from_region (step s t) t (Or.inl (by simp [step, hl, hf, holder]))
    exact ⟨k + 1, by omega, r, by rw [run_steps_succ]; exact hr⟩
  | pCrit v =>
    obtain ⟨k, hk, r⟩ := finish_from_region s t (Or.inl (by simp [hl, holder])); exact ⟨k, by omega, r⟩
  | cCrit =>
    obtain ⟨k, hk, r⟩ := finish_from_region s t (Or.inl (by simp [hl, holder])); exact ⟨k, by omega, r⟩
  | pUnlock ok =>
    obtain ⟨k, hk, r⟩ := finish_from_region s t (Or.inl (by simp [hl, holder])); exact ⟨k, by omega, r⟩
  | cUnlock r =>
    obtain ⟨k, hk, r⟩ := finish_from_region s t (Or.inl (by simp [hl, holder])); exact ⟨k, by omega, r⟩
  | plPush v =>
    obtain ⟨k, hk, r⟩ := finish_from_region s t (Or.inr (Or.inl ⟨v, hl⟩)); exact ⟨k, by omega, r⟩
  | plPop =>
    obtain ⟨k, hk, r⟩ := finish_from_region s t (Or.inr (Or.inr hl)); exact ⟨k, by omega, r⟩

end Mutiny.Stack
