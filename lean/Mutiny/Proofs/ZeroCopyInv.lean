import Mutiny.Proofs.RingInv
import Mutiny.Proofs.RingProps
import Mutiny.Model.ZeroCopy

/-!
# M4 `ZeroCopy` (pool + free-list ring + ring of ids): the component rings satisfy the ring invariant in every reachable state

Every step of the composed machine performs actions of ring model M1 on its two component rings — never an index-based
publish / cancel.  Hence both components are cancel-free runs of M1 (the free list from the full ring `0..N-1`, the
queue from the empty ring), `Ring.Inv` holds for both in every reachable state of the container, and every theorem about M1
(exactly-once, FIFO, capacity, witnesses of `full` / `empty`, progress) applies to the free list and to the queue of ids
inside `AtomicZeroCopy` / the atomic pool allocator / the atomic `NonBlockingQueue`.
-/

namespace Mutiny.ZeroCopy
open Mutiny

theorem run_append (s : Ring.St) (as bs : List Ring.Act) : Ring.run s (as ++ bs) = Ring.run (Ring.run s as) bs := by
  simp [Ring.run, List.foldl_append]

theorem noCancel_append {as bs : List Ring.Act} (ha : Ring.NoCancel as) (hb : Ring.NoCancel bs) : Ring.NoCancel (as ++ bs) := by
  intro t h
  rcases List.mem_append.mp h with h | h
  · exact ha t h
  · exact hb t h

/-- the component rings as cancel-free M1 runs -/
def Hist (n : Nat) (s : St) : Prop :=
  ∃ fa qa : List Ring.Act, Ring.NoCancel fa ∧ Ring.NoCancel qa ∧ s.free = Ring.run (fullRing n) fa ∧ s.q = Ring.run (Ring.init n) qa

theorem hist_init (n : Nat) : Hist n (init n) := ⟨[], [], (by intro t h; cases h), (by intro t h; cases h), rfl, rfl⟩

/-- extend the free list's history -/
theorem Hist.free {n : Nat} {s : St} (h : Hist n s) (bs : List Ring.Act) (hb : Ring.NoCancel bs) (s' : St)
    (hf : s'.free = Ring.run s.free bs) (hq : s'.q = s.q) : Hist n s' := by
  obtain ⟨fa, qa, h1, h2, h3, h4⟩ := h
  exact ⟨fa ++ bs, qa, noCancel_append h1 hb, h2, by rw [hf, h3, run_append], by rw [hq, h4]⟩

theorem Hist.q {n : Nat} {s : St} (h : Hist n s) (bs : List Ring.Act) (hb : Ring.NoCancel bs) (s' : St)
    (hf : s'.free = s.free) (hq : s'.q = Ring.run s.q bs) : Hist n s' := by
  obtain ⟨fa, qa, h1, h2, h3, h4⟩ := h
  exact ⟨fa, qa ++ bs, h1, noCancel_append h2 hb, by rw [hf, h3], by rw [hq, h4, run_append]⟩

theorem Hist.both {n : Nat} {s : St} (h : Hist n s) (bf bq : List Ring.Act) (hbf : Ring.NoCancel bf) (hbq : Ring.NoCancel bq)
    (s' : St) (hf : s'.free = Ring.run s.free bf) (hq : s'.q = Ring.run s.q bq) : Hist n s' :=
  (h.free bf hbf { s with free := Ring.run s.free bf } rfl rfl).q bq hbq s' hf hq

macro "nocan" : tactic => `(tactic| (intro t h; simp at h))

theorem hist_step (n : Nat) (s : St) (t : Nat) (h : Hist n s) : Hist n (step s t) := by
  unfold step
  split
  · exact h
  · exact h
  · -- eAlloc
    dsimp only
    split
    · exact h.both [.step t, .ack t] [.send t _] (by nocan) (by nocan) _ rfl rfl
    · exact h.free [.step t, .ack t] (by nocan) _ rfl rfl
    · exact h.free [.step t] (by nocan) _ rfl rfl
  · -- ePub
    dsimp only
    split
    · exact h.q [.step t] (by nocan) _ rfl rfl
    · exact h.q [.step t, .ack t] (by nocan) _ rfl rfl
    · exact h.q [.step t] (by nocan) _ rfl rfl
  · -- ePubLen
    dsimp only
    split
    · exact h.q [.step t, .ack t] (by nocan) _ rfl rfl
    · exact h.q [.step t] (by nocan) _ rfl rfl
  · -- dCons
    dsimp only
    split
    · exact h.q [.step t, .ack t] (by nocan) _ rfl rfl
    · exact h.q [.step t, .ack t] (by nocan) _ rfl rfl
    · exact h.q [.step t] (by nocan) _ rfl rfl
  · exact h.free [] (by nocan) _ rfl rfl
  · exact h.free [] (by nocan) _ rfl rfl
  · exact h.free [] (by nocan) _ rfl rfl
  · exact h.free [.send t _] (by nocan) _ rfl rfl
  · -- dFree
    dsimp only
    split
    · exact h.free [.step t] (by nocan) _ rfl rfl
    · exact h.free [.step t, .ack t] (by nocan) _ rfl rfl
    · exact h.free [.step t] (by nocan) _ rfl rfl
  · -- dFreeLen
    dsimp only
    split
    · exact h.free [.step t, .ack t] (by nocan) _ rfl rfl
    · exact h.free [.step t] (by nocan) _ rfl rfl
  · exact h.free [] (by nocan) _ rfl rfl
  · exact h.free [] (by nocan) _ rfl rfl

theorem hist_apply (n : Nat) (s : St) (a : Act) (h : Hist n s) : Hist n (apply s a) := by
  cases a with
  | step t => exact hist_step n s t h
  | enqueue t v =>
    simp only [apply]; split
    · exact h.free [.recv t] (by nocan) _ rfl rfl
    · exact h
  | dequeue t =>
    simp only [apply]; split
    · exact h.q [.recv t] (by nocan) _ rfl rfl
    · exact h
  | len t => simp only [apply]; split <;> first | exact h | exact h.free [] (by nocan) _ rfl rfl
  | ack t => simp only [apply]; split <;> first | exact h | exact h.free [] (by nocan) _ rfl rfl

theorem hist_reachable {n : Nat} {s : St} (h : Reachable n s) : Hist n s := by
  obtain ⟨as, rfl⟩ := h
  suffices ∀ s0, Hist n s0 → Hist n (run s0 as) from this _ (hist_init n)
  induction as with
  | nil => intro s0 h0; exact h0
  | cons a as ih => intro s0 h0; exact ih _ (hist_apply n s0 a h0)

/-! ## the full ring satisfies the ring invariant -/

theorem noCan_fullRing (n : Nat) : Ring.NoCan (fullRing n) := by intro t id idx g; simp [fullRing, Ring.init]

theorem inv_fullRing (n : Nat) (hn : 0 < n) : Ring.Inv (fullRing n) := by
  constructor <;> simp [fullRing, Ring.init, Ring.holdsP, Ring.holdsC, Ring.passedP, Ring.passedC]
  · exact hn
  · intro k hk
    rw [List.getElem?_range hk, Nat.mod_eq_of_lt hk]

/-- **Z1**: in every reachable state of the zero-copy container both component rings satisfy the ring invariant -/
theorem components_inv {n : Nat} (hn : 0 < n) {s : St} (h : Reachable n s) : Ring.Inv s.free ∧ Ring.Inv s.q := by
  obtain ⟨fa, qa, h1, h2, h3, h4⟩ := hist_reachable h
  constructor
  · rw [h3]; exact Ring.inv_run _ _ (inv_fullRing n hn) (Ring.runOk_of_noCancel _ _ (noCan_fullRing n) h1)
  · rw [h4]; exact Ring.inv_run _ _ (Ring.inv_init n hn) (Ring.runOk_of_noCancel _ _ (Ring.noCan_init n) h2)

end Mutiny.ZeroCopy
