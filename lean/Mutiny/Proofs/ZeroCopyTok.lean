import Mutiny.Proofs.ZeroCopyInv

/-!
# M4 `ZeroCopy`: what one ring step does to the pending content, and token (pool-slot) bookkeeping lemmas
-/

namespace Mutiny.ZeroCopy
open Mutiny

/-- consumer-side program points of M1 (an operation in progress, result not yet produced) -/
def ConsLoc : Ring.Loc → Prop
  | .cFetch | .cLoadTail _ | .cRecede _ | .cChkHead | .cChkTail _ _ | .cRead _ | .cRelease _ _ => True
  | _ => False

/-- producer-side program points of a plain `publish_movable(v)` in progress -/
def ProdLoc (v : Nat) : Ring.Loc → Prop
  | .pFetch v' false => v' = v
  | .pLoadHead v' _ false => v' = v
  | .pRecede v' _ false _ => v' = v
  | .pWrite v' _ _ => v' = v
  | .pPublish v' _ _ => v' = v
  | _ => False

/-- one step of a consumer: it takes the front element, or answers `empty`, or is still inside the operation; the pending
    content changes only in the first case -/
theorem consumer_step (s : Ring.St) (t : Nat) (h : Ring.Inv s) (hc : ConsLoc (s.thr t)) :
    (∃ id, (Ring.step s t).thr t = .done (.got id) ∧ Ring.abs s = id :: Ring.abs (Ring.step s t)) ∨
    ((Ring.step s t).thr t = .done .empty ∧ Ring.abs (Ring.step s t) = Ring.abs s) ∨
    (ConsLoc ((Ring.step s t).thr t) ∧ Ring.abs (Ring.step s t) = Ring.abs s) := by
  have := h.hHT; have := h.accLen
  cases hl : s.thr t <;> simp only [hl, ConsLoc] at hc
  case cRelease id v =>
    have me2 := h.cOk t id (by simp [hl, Ring.passedC])
    have me3 := h.relOk t id v hl
    by_cases he : s.head = id
    · left
      refine ⟨v, by simp [Ring.step, hl, he], ?_⟩
      simp only [Ring.step, hl, he, if_true, Ring.abs, Ring.acc_setThr, Ring.head_setThr]
      rw [List.drop_eq_getElem_cons (by omega)]
      congr 1
      rw [List.getElem?_eq_getElem (by omega)] at me3
      exact Option.some.inj me3
    · right; right
      simp [Ring.step, hl, he, ConsLoc]
  case cFetch => right; right; simp only [Ring.step, hl]; exact ⟨by simp [ConsLoc], Ring.abs_congr rfl rfl⟩
  case cLoadTail id =>
    right; right; simp only [Ring.step, hl]
    split <;> exact ⟨by simp [ConsLoc], Ring.abs_congr rfl rfl⟩
  case cRecede id =>
    right; right; simp only [Ring.step, hl]
    split <;> exact ⟨by simp [ConsLoc], Ring.abs_congr rfl rfl⟩
  case cChkHead => right; right; simp only [Ring.step, hl]; exact ⟨by simp [ConsLoc], Ring.abs_congr rfl rfl⟩
  case cChkTail hh w =>
    simp only [Ring.step, hl]
    split
    · right; left; exact ⟨by simp, Ring.abs_congr rfl rfl⟩
    · right; right; exact ⟨by simp [ConsLoc], Ring.abs_congr rfl rfl⟩
  case cRead id => right; right; simp only [Ring.step, hl]; exact ⟨by simp [ConsLoc], Ring.abs_congr rfl rfl⟩

/-- the step after a publication (`len_after_publishing`): the call returns, the pending content is untouched -/
theorem plen_step (s : Ring.St) (t sid : Nat) (hl : s.thr t = .pLen sid) :
    (∃ len, (Ring.step s t).thr t = .done (.sent len)) ∧ Ring.abs (Ring.step s t) = Ring.abs s := by
  simp only [Ring.step, hl]
  exact ⟨⟨max 1 (sid + 1 - s.head), by simp⟩, Ring.abs_congr rfl rfl⟩

/-- one step of a plain producer of `v`: it publishes `v` at the back (then there was room), or answers `full`, or is still
    inside the operation -/
theorem producer_step (s : Ring.St) (t v : Nat) (h : Ring.Inv s) (hp : ProdLoc v (s.thr t)) :
    (∃ sid, (Ring.step s t).thr t = .pLen sid ∧ Ring.abs (Ring.step s t) = Ring.abs s ++ [v]) ∨
    ((Ring.step s t).thr t = .done .full ∧ Ring.abs (Ring.step s t) = Ring.abs s ∧
        ∃ w id b, s.thr t = .pRecede w id false b ∧ s.enqTail = id + 1) ∨
    (ProdLoc v ((Ring.step s t).thr t) ∧ Ring.abs (Ring.step s t) = Ring.abs s) := by
  have := h.hHT; have := h.accLen
  cases hl : s.thr t <;> simp only [hl, ProdLoc] at hp
  case pPublish v' id len =>
    subst hp
    by_cases he : s.tail = id
    · left
      refine ⟨id, by simp [Ring.step, hl, he], ?_⟩
      simp only [Ring.step, hl, he, if_true, Ring.abs, Ring.acc_setThr, Ring.head_setThr]
      rw [List.drop_append_of_le_length (by omega)]
    · right; right
      simp [Ring.step, hl, he, ProdLoc]
  case pFetch v' rsv =>
    cases rsv <;> simp only [ProdLoc] at hp
    subst hp
    right; right
    simp only [Ring.step, hl]
    exact ⟨by simp [ProdLoc], Ring.abs_congr rfl rfl⟩
  case pLoadHead v' id rsv =>
    cases rsv <;> simp only [ProdLoc] at hp
    subst hp
    right; right
    simp only [Ring.step, hl]
    split
    · simp only [Bool.false_eq_true, if_false]; exact ⟨by simp [ProdLoc], Ring.abs_congr rfl rfl⟩
    · exact ⟨by simp [ProdLoc], Ring.abs_congr rfl rfl⟩
  case pRecede v' id rsv b =>
    cases rsv <;> simp only [ProdLoc] at hp
    subst hp
    simp only [Ring.step, hl]
    split
    · next he => right; left; exact ⟨by simp, Ring.abs_congr rfl rfl, v', id, b, rfl, he⟩
    · right; right; exact ⟨by simp [ProdLoc], Ring.abs_congr rfl rfl⟩
  case pWrite v' id len =>
    subst hp
    right; right
    simp only [Ring.step, hl]
    exact ⟨by simp [ProdLoc], Ring.abs_congr rfl rfl⟩

/-- token bookkeeping: `L` = the ids inside the two rings, `H t id` = thread `t` holds `id` outside the rings -/
structure Tok (L : List Nat) (H : Nat → Nat → Prop) (N : Nat) : Prop where
  nodup : L.Nodup
  range : ∀ x, x ∈ L → x < N
  hRange : ∀ t id, H t id → id < N
  hFresh : ∀ t id, H t id → id ∉ L
  hUniq : ∀ t t' id, H t id → H t' id → t = t'

theorem Tok.same {L L' : List Nat} {H H' : Nat → Nat → Prop} {N : Nat} (h : Tok L H N) (hp : L'.Perm L)
    (hh : ∀ t id, H' t id → H t id) : Tok L' H' N :=
  ⟨hp.nodup_iff.mpr h.nodup, fun x hx => h.range x (hp.mem_iff.mp hx), fun t id hi => h.hRange t id (hh t id hi),
   fun t id hi hm => h.hFresh t id (hh t id hi) (hp.mem_iff.mp hm),
   fun t t' id h1 h2 => h.hUniq t t' id (hh t id h1) (hh t' id h2)⟩

/-- thread `t` (holding nothing) takes `id` out of the rings -/
theorem Tok.take {L L' : List Nat} {H H' : Nat → Nat → Prop} {N : Nat} (h : Tok L H N) (t id : Nat)
    (hp : L.Perm (id :: L')) (hh : ∀ u x, H' u x → H u x ∨ (u = t ∧ x = id)) (hnone : ∀ x, ¬ H t x) : Tok L' H' N := by
  have hnd : (id :: L').Nodup := hp.nodup_iff.mp h.nodup
  have hidL : id ∈ L := hp.mem_iff.mpr (by simp)
  refine ⟨(List.nodup_cons.mp hnd).2, fun x hx => h.range x (hp.mem_iff.mpr (by simp [hx])), ?_, ?_, ?_⟩
  · intro u x hx
    rcases hh u x hx with h1 | ⟨_, rfl⟩
    · exact h.hRange u x h1
    · exact h.range _ hidL
  · intro u x hx hm
    rcases hh u x hx with h1 | ⟨_, rfl⟩
    · exact h.hFresh u x h1 (hp.mem_iff.mpr (by simp [hm]))
    · exact (List.nodup_cons.mp hnd).1 hm
  · intro u u' x h1 h2
    rcases hh u x h1 with a | ⟨e1, e2⟩ <;> rcases hh u' x h2 with b | ⟨e3, e4⟩
    · exact h.hUniq u u' x a b
    · exact absurd (e4 ▸ hidL) (h.hFresh u _ a)
    · exact absurd (e2 ▸ hidL) (h.hFresh u' _ b)
    · rw [e1, e3]

/-- thread `t`, holding `id`, puts it into a ring and holds nothing afterwards -/
theorem Tok.put {L L' : List Nat} {H H' : Nat → Nat → Prop} {N : Nat} (h : Tok L H N) (t id : Nat)
    (hp : L'.Perm (id :: L)) (ht : H t id) (hh : ∀ u x, H' u x → H u x ∧ u ≠ t) : Tok L' H' N := by
  have hnd : (id :: L).Nodup := List.nodup_cons.mpr ⟨h.hFresh t id ht, h.nodup⟩
  refine ⟨hp.nodup_iff.mpr hnd, ?_, fun u x hx => h.hRange u x (hh u x hx).1, ?_, fun u u' x h1 h2 => h.hUniq u u' x (hh u x h1).1 (hh u' x h2).1⟩
  · intro x hx
    rcases List.mem_cons.mp (hp.mem_iff.mp hx) with rfl | hx
    · exact h.hRange t _ ht
    · exact h.range x hx
  · intro u x hx hm
    rcases List.mem_cons.mp (hp.mem_iff.mp hm) with rfl | hm
    · exact (hh u _ hx).2 (h.hUniq u t _ (hh u _ hx).1 ht)
    · exact h.hFresh u x (hh u x hx).1 hm
end Mutiny.ZeroCopy
