import Mutiny.Proofs.RingInv

/-!
# Lemmas behind the property theorems C01 / C02 / C16 of the `Ring` model
-/

namespace Mutiny.Ring

set_option maxHeartbeats 1000000

/-! ## frame lemmas -/

/-- the thread an action belongs to -/
def Act.thread : Act → Nat
  | .send t _ | .recv t | .len t | .reserve t | .fill t _ | .pubIdx t | .canIdx t | .step t | .ack t => t

theorem apply_thr_ne (s : St) (a : Act) (u : Nat) (h : u ≠ a.thread) : (apply s a).thr u = s.thr u := by
  cases a <;> simp only [Act.thread] at h
  case step t => exact step_thr_ne s t u h
  all_goals (simp only [apply]; split <;> simp [h])

/-- actions other than `step` touch neither the counters nor the history -/
theorem apply_frame (s : St) (a : Act) (h : ∀ t, a ≠ .step t) :
    (apply s a).head = s.head ∧ (apply s a).tail = s.tail ∧ (apply s a).enqTail = s.enqTail ∧
    (apply s a).deqHead = s.deqHead ∧ (apply s a).accepted = s.accepted ∧ (apply s a).delivered = s.delivered ∧
    (apply s a).N = s.N := by
  cases a
  case step t => exact absurd rfl (h t)
  all_goals (simp only [apply]; split <;> simp)

theorem abs_congr {s s' : St} (h1 : s'.accepted = s.accepted) (h2 : s'.head = s.head) : abs s' = abs s := by
  simp [abs, h1, h2]

theorem abs_length (s : St) (h : Inv s) : (abs s).length = s.tail - s.head := by
  simp [abs, h.accLen]

theorem abs_eq_nil_iff (s : St) (h : Inv s) : abs s = [] ↔ s.head = s.tail := by
  rw [← List.length_eq_zero_iff, abs_length s h]; have := h.hHT; omega

theorem step_N (s : St) (t : Nat) : (step s t).N = s.N := by
  unfold step
  split <;> (repeat' split) <;> simp

theorem apply_N (s : St) (a : Act) : (apply s a).N = s.N := by
  cases a
  case step t => exact step_N s t
  all_goals (simp only [apply]; split <;> simp)

theorem run_N (s : St) (as : List Act) : (run s as).N = s.N := by
  induction as generalizing s with
  | nil => rfl
  | cons a as ih => rw [run_cons, ih, apply_N]

theorem reachable_N {n : Nat} {s : St} (h : Reachable n s) : s.N = n := by
  obtain ⟨as, rfl⟩ := h; rw [run_N]; rfl

/-! ## abstraction: which micro-steps are the linearization points -/

/-- which abstract operation a micro-step performs -/
theorem step_abs (s : St) (t : Nat) (h : Inv s) :
    abs (step s t) = abs s
    ∨ (∃ v id len, s.thr t = .pPublish v id len ∧ abs (step s t) = abs s ++ [v] ∧ (abs s).length < s.N
          ∧ (step s t).thr t = .pLen id)
    ∨ (∃ id idx g, s.thr t = .rPub id idx g ∧ abs (step s t) = abs s ++ [s.buf idx] ∧ (abs s).length < s.N
          ∧ (step s t).thr t = .rLen g)
    ∨ (∃ id v, s.thr t = .cRelease id v ∧ abs s = v :: abs (step s t) ∧ (step s t).thr t = .done (.got v)) := by
  have hlen := abs_length s h
  have := h.hHT; have := h.accLen
  cases hl : s.thr t with
  | pPublish v id len =>
    have me2 := h.pOk t id (by simp [hl, passedP])
    by_cases he : s.tail = id
    · right; left
      refine ⟨v, id, len, rfl, ?_, by omega, ?_⟩
      · simp only [step, hl, he, if_true, abs, acc_setThr, head_setThr]
        rw [List.drop_append_of_le_length (by omega)]
      · simp [step, hl, he]
    · left; simp [step, hl, he]
  | rPub id idx g =>
    have me := h.pRange t id (by simp [hl, holdsP])
    have me2 := h.pOk t id (by simp [hl, passedP])
    by_cases he : s.tail = g
    · right; right; left
      refine ⟨id, idx, g, rfl, ?_, ?_, ?_⟩
      · simp only [step, hl, he, if_true, abs, acc_setThr, head_setThr]
        rw [List.drop_append_of_le_length (by omega)]
      · have := h.hTN
        have me3 := h.idxOk t id idx g (Or.inl hl)
        have hg : g = id :=
          eq_of_mod_eq_of_window (a := s.tail) (N := s.N) (by omega) (by omega) (by omega) (by omega) (by omega)
        omega
      · simp [step, hl, he]
    · left
      simp only [step, hl, he, if_false]
      split <;> exact abs_congr rfl rfl
  | cRelease id v =>
    have me2 := h.cOk t id (by simp [hl, passedC])
    have me3 := h.relOk t id v hl
    by_cases he : s.head = id
    · right; right; right
      refine ⟨id, v, rfl, ?_, by simp [step, hl, he]⟩
      simp only [step, hl, he, if_true, abs, acc_setThr, head_setThr]
      rw [List.drop_eq_getElem_cons (by omega)]
      congr 1
      rw [List.getElem?_eq_getElem (by omega)] at me3
      exact Option.some.inj me3
    · left; simp [step, hl, he]
  | _ =>
    left
    simp only [step, hl]
    try ((repeat' split) <;> exact abs_congr rfl rfl)

/-! ## where results come from -/

/-- a result is only ever produced at these program points, under these conditions -/
theorem step_done_origin (s : St) (t : Nat) (r : Res) (h : (step s t).thr t = .done r) :
    s.thr t = .done r ∨
    (∃ v id rsv w, s.thr t = .pRecede v id rsv w ∧ s.enqTail = id + 1 ∧ r = .full) ∨
    (∃ id, s.thr t = .pLen id ∧ r = .sent (max 1 (id + 1 - s.head))) ∨
    (∃ g, s.thr t = .rLen g ∧ r = .pubIdx (some (max 1 (U32.wsub (U32.wrap g) (U32.wrap s.head))))) ∨
    (∃ id idx g, s.thr t = .rCan id idx g ∧ s.enqTail = g + 1 ∧ r = .canIdx true) ∨
    (∃ hh w, s.thr t = .cChkTail hh w ∧ s.tail = hh ∧ r = .empty) ∨
    (∃ id v, s.thr t = .cRelease id v ∧ s.head = id ∧ r = .got v) ∨
    (∃ tl, s.thr t = .lLenH tl ∧ r = .len (U32.wsub (U32.wrap tl) (U32.wrap s.head))) := by
  cases hl : s.thr t <;> simp only [step, hl] at h <;> (repeat' split at h) <;>
    simp_all
  all_goals (subst h; first | exact ⟨_, _, _, ⟨rfl, rfl, rfl⟩, rfl, rfl⟩ | exact ⟨_, _, ⟨rfl, rfl⟩, rfl, rfl⟩)

theorem apply_done_origin (s : St) (a : Act) (u : Nat) (r : Res) (h : (apply s a).thr u = .done r) :
    s.thr u = .done r ∨ (a = .step u ∧ (step s u).thr u = .done r) := by
  by_cases hu : u = a.thread
  · cases a <;> simp only [Act.thread] at hu <;> subst hu
    case step => exact Or.inr ⟨rfl, h⟩
    all_goals (simp only [apply] at h; split at h <;> simp_all)
  · rw [apply_thr_ne s a u hu] at h; exact Or.inl h


theorem step_chkTail_origin (s : St) (t hh : Nat) (w : Bool) (h : (step s t).thr t = .cChkTail hh w) :
    s.thr t = .cChkTail hh w ∨ (s.thr t = .cChkHead ∧ hh = s.head ∧ w = decide (s.head = s.tail)) := by
  cases hl : s.thr t <;> simp only [step, hl] at h <;> (repeat' split at h) <;> simp_all
  obtain ⟨rfl, rfl⟩ := h; rfl

theorem apply_chkTail_origin (s : St) (a : Act) (u hh : Nat) (w : Bool) (h : (apply s a).thr u = .cChkTail hh w) :
    s.thr u = .cChkTail hh w ∨ (a = .step u ∧ s.thr u = .cChkHead ∧ hh = s.head ∧ w = decide (s.head = s.tail)) := by
  by_cases hu : u = a.thread
  · cases a <;> simp only [Act.thread] at hu <;> subst hu
    case step =>
      rcases step_chkTail_origin s _ hh w h with h' | h'
      · exact Or.inl h'
      · exact Or.inr ⟨rfl, h'⟩
    all_goals (simp only [apply] at h; split at h <;> simp_all)
  · rw [apply_thr_ne s a u hu] at h; exact Or.inl h

/-- what a producer that finds the ring full has seen -/
theorem full_witness (s : St) (h : Inv s) (t v id : Nat) (rsv : Bool) (ht : s.thr t = .pLoadHead v id rsv)
    (hfull : ¬ (id - s.head < s.N)) :
    (step s t).thr t = .pRecede v id rsv true ∧
    ∀ k, s.head ≤ k → k < s.head + s.N → k < s.tail ∨ ∃ u, u ≠ t ∧ holdsP (s.thr u) k := by
  have me := h.pRange t id (by simp [ht, holdsP])
  constructor
  · simp only [step, ht, hfull, if_false, thr_setThr, if_true]
    congr 1
    have := h.hHT; have := h.hTE
    simp; omega
  · intro k hk1 hk2
    by_cases hk : k < s.tail
    · exact Or.inl hk
    · right
      obtain ⟨u, hu⟩ := h.pCover k (by omega) (by omega)
      refine ⟨u, ?_, hu⟩
      intro e; subst e
      simp [ht, holdsP] at hu
      omega

theorem delivered_getElem? (s : St) (h : Inv s) (i t k v : Nat) (hi : s.delivered[i]? = some (t, k, v)) :
    k = i ∧ i < s.head ∧ s.accepted[i]? = some v := by
  have h1 : (s.delivered.map (·.2.1))[i]? = some k := by simp [hi]
  have h2 : (s.delivered.map (·.2.2))[i]? = some v := by simp [hi]
  rw [h.delIds] at h1
  rw [h.delVals] at h2
  have hlt : i < s.head := by
    rcases List.getElem?_eq_some_iff.mp h1 with ⟨hlt, _⟩
    simpa using hlt
  rw [List.getElem?_range hlt] at h1
  rw [List.getElem?_take] at h2
  simp [hlt] at h2
  exact ⟨(Option.some.inj h1).symm, hlt, h2⟩

theorem delivered_was_accepted (s : St) (h : Inv s) (t k v : Nat) (hm : (t, k, v) ∈ s.delivered) :
    s.accepted[k]? = some v ∧ k < s.head := by
  obtain ⟨i, hi⟩ := List.mem_iff_getElem?.mp hm
  obtain ⟨rfl, h2, h3⟩ := delivered_getElem? s h i t k v hi
  exact ⟨h3, h2⟩

theorem released_mem_delivered (s : St) (h : Inv s) (k : Nat) (hk : k < s.head) :
    ∃ t v, (t, k, v) ∈ s.delivered := by
  have : k ∈ s.delivered.map (·.2.1) := by rw [h.delIds]; exact List.mem_range.mpr hk
  obtain ⟨⟨t, k', v⟩, hm, rfl⟩ := List.mem_map.mp this
  exact ⟨t, v, hm⟩


/-! ## solo executions (C16) -/

theorem quiescent_counters (s : St) (h : Inv s) (hid : ∀ t, s.thr t = .idle) :
    s.enqTail = s.tail ∧ s.deqHead = s.head := by
  constructor
  · have := h.hTE
    by_cases e : s.enqTail = s.tail
    · exact e
    · obtain ⟨u, hu⟩ := h.pCover s.tail (Nat.le_refl _) (by omega)
      simp [hid u, holdsP] at hu
  · have := h.hHD
    by_cases e : s.deqHead = s.head
    · exact e
    · obtain ⟨u, hu⟩ := h.cCover s.head (Nat.le_refl _) (by omega)
      simp [hid u, holdsC] at hu

/-- the six actions of a solo `send` (call, claim, load `head`, write, publish, load `head` again for the length) -/
def sendSolo (t v : Nat) : List Act := [.send t v, .step t, .step t, .step t, .step t, .step t]

theorem solo_send_ok (s : St) (t v : Nat) (hid : ∀ u, s.thr u = .idle) (he : s.enqTail = s.tail)
    (hroom : s.tail - s.head < s.N) :
    let s' := run s (sendSolo t v)
    (∀ u, s'.thr u = if u = t then .done (.sent (s.tail - s.head + 1)) else .idle) ∧
    s'.accepted = s.accepted ++ [v] ∧ s'.head = s.head ∧ s'.tail = s.tail + 1 ∧ s'.enqTail = s.enqTail + 1 ∧
    s'.deqHead = s.deqHead ∧ s'.delivered = s.delivered ∧ s'.N = s.N ∧
    s'.buf = (fun j => if j = s.tail % s.N then v else s.buf j) := by
  simp [sendSolo, run, apply, step, hid, he, hroom, setBuf]
  refine ⟨?_, rfl⟩
  intro u; split <;> simp [*]
  omega

/-- a solo `send` on a full ring: rejected after 3 own steps (the others are no-ops), nothing changed -/
theorem solo_send_full (s : St) (t v : Nat) (hid : ∀ u, s.thr u = .idle) (he : s.enqTail = s.tail)
    (hfull : ¬ (s.tail - s.head < s.N)) :
    let s3 := run s [.send t v, .step t, .step t, .step t]
    let s' := run s (sendSolo t v)
    s' = s3 ∧
    (∀ u, s'.thr u = if u = t then .done .full else .idle) ∧
    s'.accepted = s.accepted ∧ s'.head = s.head ∧ s'.tail = s.tail ∧ s'.enqTail = s.enqTail ∧
    s'.deqHead = s.deqHead ∧ s'.delivered = s.delivered ∧ s'.N = s.N ∧ s'.buf = s.buf := by
  simp [sendSolo, run, apply, step, hid, he, hfull]
  intro u; split <;> simp [*]

/-- the five actions of a solo `recv` -/
def recvSolo (t : Nat) : List Act := [.recv t, .step t, .step t, .step t, .step t]

theorem solo_recv_ok (s : St) (t : Nat) (hid : ∀ u, s.thr u = .idle) (he : s.deqHead = s.head)
    (hne : s.head < s.tail) :
    let s' := run s (recvSolo t)
    (∀ u, s'.thr u = if u = t then .done (.got (s.buf (s.head % s.N))) else .idle) ∧
    s'.accepted = s.accepted ∧ s'.head = s.head + 1 ∧ s'.tail = s.tail ∧ s'.enqTail = s.enqTail ∧
    s'.deqHead = s.deqHead + 1 ∧ s'.delivered = s.delivered ++ [(t, s.head, s.buf (s.head % s.N))] ∧ s'.N = s.N ∧
    s'.buf = s.buf := by
  simp [recvSolo, run, apply, step, hid, he, hne]
  intro u; split <;> simp [*]

/-- a solo `recv` on an empty ring: `empty` after 5 own steps, nothing changed -/
theorem solo_recv_empty (s : St) (t : Nat) (hid : ∀ u, s.thr u = .idle) (he : s.deqHead = s.head)
    (hemp : s.head = s.tail) :
    let s' := run s (recvSolo t ++ [.step t])
    (∀ u, s'.thr u = if u = t then .done .empty else .idle) ∧
    s'.accepted = s.accepted ∧ s'.head = s.head ∧ s'.tail = s.tail ∧ s'.enqTail = s.enqTail ∧
    s'.deqHead = s.deqHead ∧ s'.delivered = s.delivered ∧ s'.N = s.N ∧ s'.buf = s.buf := by
  simp [recvSolo, run, apply, step, hid, he, hemp]
  intro u; split <;> simp [*]

theorem noCan_of_idle (s : St) (hid : ∀ u, s.thr u = .idle) : NoCan s := by
  intro t id idx g; simp [hid t]

theorem noCancel_sendSolo (t v : Nat) : NoCancel (sendSolo t v ++ [.ack t]) := by
  intro u; simp [sendSolo]

theorem noCancel_recvSolo (t : Nat) : NoCancel (recvSolo t ++ [.step t, .ack t]) := by
  intro u; simp [recvSolo]

/-- `send; step×4; ack` for every value, collecting what each call returned -/
def fillSolo (t : Nat) : St → List Nat → St × List Loc
  | s, [] => (s, [])
  | s, v :: vs =>
    let s1 := run s (sendSolo t v)
    let r := fillSolo t (apply s1 (.ack t)) vs
    (r.1, s1.thr t :: r.2)

theorem fillSolo_spec {n : Nat} (hn : 0 < n) (t : Nat) (vs : List Nat) (s : St) (hr : ReachableX n s)
    (hid : ∀ u, s.thr u = .idle) (hk : (abs s).length + vs.length ≤ s.N) :
    (fillSolo t s vs).2 = (List.range' ((abs s).length + 1) vs.length).map (fun l => Loc.done (.sent l)) ∧
    abs (fillSolo t s vs).1 = abs s ++ vs ∧ (∀ u, (fillSolo t s vs).1.thr u = .idle) ∧
    ReachableX n (fillSolo t s vs).1 ∧ (fillSolo t s vs).1.N = s.N := by
  induction vs generalizing s with
  | nil => simp [fillSolo, hid, hr]
  | cons v vs ih =>
    have hi := reachable_inv hn hr
    have hq := quiescent_counters s hi hid
    have hlen := abs_length s hi
    have hHT := hi.hHT
    have hacc := hi.accLen
    simp only [List.length_cons] at hk
    obtain ⟨h1, h2, h3, h4, h5, h6, h7, h8, h9⟩ := solo_send_ok s t v hid hq.1 (by omega)
    have hrun : run s (sendSolo t v ++ [.ack t]) = apply (run s (sendSolo t v)) (.ack t) := by
      rw [run_append]; rfl
    have hr2 : ReachableX n (apply (run s (sendSolo t v)) (.ack t)) := by
      rw [← hrun]
      exact hr.run _ (runOk_of_noCancel _ _ (noCan_of_idle s hid) (noCancel_sendSolo t v))
    have hid2 : ∀ u, (apply (run s (sendSolo t v)) (.ack t)).thr u = .idle := by
      intro u
      by_cases hu : u = t
      · subst hu; simp [apply, h1]
      · rw [apply_thr_ne _ _ _ (by simpa [Act.thread] using hu), h1]; simp [hu]
    have hfr := apply_frame (run s (sendSolo t v)) (.ack t) (by intro u; simp)
    have habs2 : abs (apply (run s (sendSolo t v)) (.ack t)) = abs s ++ [v] := by
      simp only [abs, hfr.1, hfr.2.2.2.2.1, h2, h3]
      rw [List.drop_append_of_le_length (by omega)]
    have hN2 : (apply (run s (sendSolo t v)) (.ack t)).N = s.N := by rw [hfr.2.2.2.2.2.2, h8]
    obtain ⟨i1, i2, i3, i4, i5⟩ := ih _ hr2 hid2 (by rw [habs2, hN2]; simp; omega)
    simp only [fillSolo]
    refine ⟨?_, ?_, i3, i4, by rw [i5, hN2]⟩
    · rw [i1, habs2, h1]
      simp [List.range', hlen]
    · rw [i2, habs2]; simp


/-! ## witness executions used by the non-vacuity examples -/

/-- two producers fill a ring of size 2 (thread 1 publishes only after thread 0), a third finds it full -/
def fullRun : List Act :=
  [.send 0 5, .send 1 6, .step 1, .step 0, .step 0, .step 1, .step 1, .step 0, .step 1, .step 0, .step 1,
   .send 2 7, .step 2, .step 2]


end Mutiny.Ring
