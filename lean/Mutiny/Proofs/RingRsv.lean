import Mutiny.Proofs.RingProps

/-!
# Lemmas for the reservation API (C08) and for blocking / progress (C20) of the `Ring` model
-/

namespace Mutiny.Ring

set_option maxHeartbeats 1000000

/-! ## exactness of publish / cancel by index -/

/-- a successful index-based publish CAS is on the caller's own sequence number -/
theorem rPub_exact (s : St) (h : Inv s) (t id idx g : Nat) (ht : s.thr t = .rPub id idx g) (he : s.tail = g) :
    g = id ∧ idx = id % s.N := by
  have me := h.pRange t id (by simp [ht, holdsP])
  have me2 := h.pOk t id (by simp [ht, passedP])
  have me3 := h.idxOk t id idx g (Or.inl ht)
  have := h.hTN; have := h.hHT
  exact ⟨eq_of_mod_eq_of_window (a := s.tail) (N := s.N) (by omega) (by omega) (by omega) (by omega) (by omega), me3.1⟩

/-- every producer-side holder is already admitted -/
def AllAdmitted (s : St) : Prop := ∀ u k, holdsP (s.thr u) k → passedP (s.thr u) k

/-- producer-side *call* points (a call of `send` / `reserve` / `pubIdx` / `canIdx` is in progress) -/
def callP : Loc → Prop
  | .pFetch _ _ | .pLoadHead _ _ _ | .pRecede _ _ _ _ | .pWrite _ _ _ | .pPublish _ _ _ | .rPub _ _ _ | .rCan _ _ _ => True
  | _ => False

/-- producer-side calls are sequential: at most one thread is inside a producer-side call (other producer-side holders
    are parked reservations `rHold` / `rRet`; consumers are unrestricted) -/
def SeqP (s : St) : Prop := ∀ t u, callP (s.thr t) → callP (s.thr u) → t = u

/-- the action starts a producer-side call -/
def startsP : Act → Prop
  | .send _ _ | .reserve _ | .pubIdx _ | .canIdx _ => True
  | _ => False

theorem allAdmitted_of_seqP (s : St) (hs : SeqP s) (t id idx g : Nat) (ht : s.thr t = .rCan id idx g) :
    AllAdmitted s := by
  intro u k hu
  by_cases hut : u = t
  · subst hut; simp_all [holdsP, passedP]
  · have hc : callP (s.thr t) := by simp [ht, callP]
    have key : ¬ callP (s.thr u) := fun hcu => hut (hs u t hcu hc)
    cases hl : s.thr u <;> simp_all [holdsP, passedP, callP]

theorem canExact_of_seqP (s : St) (a : Act) (h : Inv s) (hs : SeqP s) : CanExact s a := by
  intro t id idx g ha ht he
  exact canExact_of_allAdmitted s a h (allAdmitted_of_seqP s hs t id idx g ht) t id idx g ha ht he

/-- every state along the run has sequential producer-side calls -/
def RunSeqP (s : St) : List Act → Prop
  | [] => True
  | a :: as => SeqP s ∧ RunSeqP (apply s a) as

theorem runOk_of_runSeqP (s : St) (as : List Act) (h : Inv s) (hs : RunSeqP s as) : RunOk s as := by
  induction as generalizing s with
  | nil => trivial
  | cons a as ih =>
    have hex := canExact_of_seqP s a h hs.1
    exact ⟨hex, ih _ (inv_apply s a h hex) hs.2⟩

theorem reachableX_of_runSeqP {n : Nat} (hn : 0 < n) (as : List Act) (hs : RunSeqP (init n) as) :
    ReachableX n (run (init n) as) :=
  ⟨as, runOk_of_runSeqP _ _ (inv_init n hn) hs, rfl⟩

theorem step_callP_origin (s : St) (t : Nat) (h : callP ((step s t).thr t)) : callP (s.thr t) := by
  cases hl : s.thr t <;> simp only [step, hl] at h <;> (repeat' split at h) <;> simp_all [callP]

theorem apply_callP_origin (s : St) (a : Act) (u : Nat) (h : callP ((apply s a).thr u)) :
    callP (s.thr u) ∨ (startsP a ∧ u = a.thread) := by
  by_cases hu : u = a.thread
  · cases a <;> simp only [Act.thread] at hu <;> subst hu
    case step => exact Or.inl (step_callP_origin s _ h)
    all_goals (simp only [apply] at h; split at h <;> simp_all [callP, startsP, Act.thread])
  · rw [apply_thr_ne s a u hu] at h; exact Or.inl h

/-- sequentiality is kept as long as the environment starts a producer-side call only when none is in progress -/
theorem seqP_apply (s : St) (a : Act) (h : SeqP s) (ha : startsP a → ∀ u, ¬ callP (s.thr u)) : SeqP (apply s a) := by
  intro t u ht hu
  rcases apply_callP_origin s a t ht with ht' | ⟨hs, rfl⟩ <;> rcases apply_callP_origin s a u hu with hu' | ⟨hs', rfl⟩
  · exact h t u ht' hu'
  · exact absurd ht' (ha hs' t)
  · exact absurd hu' (ha hs u)
  · rfl

/-! ## the slot of an admitted holder is private -/

theorem step_buf_other (s : St) (h : Inv s) (t id u : Nat) (hp : passedP (s.thr t) id) (hu : u ≠ t) :
    (step s u).buf (id % s.N) = s.buf (id % s.N) := by
  have r1 := h.pRange t id (passedP_holdsP hp)
  have r2 := h.pOk t id hp
  have := h.hHT
  cases hl : s.thr u with
  | pWrite v id' len =>
    have q1 := h.pRange u id' (by simp [hl, holdsP])
    have q2 := h.pOk u id' (by simp [hl, passedP])
    have ne : id ≠ id' := by
      intro e; subst e
      exact hu (h.pUniq u t id (by simp [hl, holdsP]) (passedP_holdsP hp))
    have := mod_ne_of_window' (a := s.head) (x := id) (y := id') (by omega) (by omega) ne r2 q2
    simp [step, hl, this]
  | _ => simp only [step, hl] <;> (repeat' split) <;> simp

theorem apply_buf_other (s : St) (h : Inv s) (t id : Nat) (a : Act) (hp : passedP (s.thr t) id) (hu : a.thread ≠ t) :
    (apply s a).buf (id % s.N) = s.buf (id % s.N) := by
  have r1 := h.pRange t id (passedP_holdsP hp)
  have r2 := h.pOk t id hp
  have := h.hHT
  cases a <;> simp only [Act.thread] at hu
  case step u => exact step_buf_other s h t id u hp hu
  case fill u v =>
    simp only [apply]
    split
    · rename_i id' hl
      have q1 := h.pRange u id' (by simp [hl, holdsP])
      have q2 := h.pOk u id' (by simp [hl, passedP])
      have ne : id ≠ id' := by
        intro e; subst e
        exact hu (h.pUniq u t id (by simp [hl, holdsP]) (passedP_holdsP hp))
      have := mod_ne_of_window' (a := s.head) (x := id) (y := id') (by omega) (by omega) ne r2 q2
      simp [this]
    · rfl
  all_goals (simp only [apply]; split <;> simp)

/-- the owner's own actions other than `fill` (and other than its `pWrite` step) do not touch the buffer at all -/
theorem apply_buf_own (s : St) (a : Act) (t : Nat) (hf : ∀ u v, a ≠ .fill u v)
    (hw : a = .step t → ∀ v id len, s.thr t ≠ .pWrite v id len) (ha : a.thread = t) : (apply s a).buf = s.buf := by
  cases a <;> simp only [Act.thread] at ha <;> subst ha
  case fill u v => exact absurd rfl (hf _ v)
  case step u =>
    have := hw rfl
    show (step s u).buf = s.buf
    cases hl : s.thr u <;> simp only [step, hl] <;> (repeat' split) <;> simp_all
  all_goals (simp only [apply]; split <;> simp)

theorem fill_buf (s : St) (t id v : Nat) (ht : s.thr t = .rHold id) : (apply s (.fill t v)).buf (id % s.N) = v := by
  simp [apply, ht]


/-! ## cancel by index -/

theorem rCan_success (s : St) (t id idx g : Nat) (ht : s.thr t = .rCan id idx g) (he : s.enqTail = g + 1) :
    step s t = setThr { s with enqTail := g } t (.done (.canIdx true)) := by
  simp [step, ht, he]

/-- a cancel step never touches the public side -/
theorem rCan_frame (s : St) (t id idx g : Nat) (ht : s.thr t = .rCan id idx g) :
    (step s t).accepted = s.accepted ∧ (step s t).delivered = s.delivered ∧ (step s t).tail = s.tail ∧
    (step s t).head = s.head ∧ (step s t).deqHead = s.deqHead ∧ (step s t).buf = s.buf ∧
    (∀ u, u ≠ t → (step s t).thr u = s.thr u) := by
  refine ⟨?_, ?_, ?_, ?_, ?_, ?_, fun u hu => step_thr_ne s t u hu⟩ <;>
    (simp only [step, ht]; (repeat' split) <;> simp)

/-- a cancel step that does not succeed keeps the reservation and `enqTail` -/
theorem rCan_fail (s : St) (t id idx g : Nat) (ht : s.thr t = .rCan id idx g) (he : s.enqTail ≠ g + 1) :
    (step s t).enqTail = s.enqTail ∧
    (((s.enqTail - 1) / s.N > g / s.N ∧ (step s t).thr t = .rCan id idx (idx + ((s.enqTail - 1) / s.N) * s.N)) ∨
     (¬ (s.enqTail - 1) / s.N > g / s.N ∧ (step s t).thr t = .rRet id (.canIdx false))) := by
  simp only [step, ht, he, if_false]
  split
  · rename_i hc; exact ⟨rfl, Or.inl ⟨hc, by simp⟩⟩
  · rename_i hc; exact ⟨rfl, Or.inr ⟨hc, by simp⟩⟩

theorem reguess_div (idx q N : Nat) (h : idx < N) : (idx + q * N) / N = q := by
  have hN : 0 < N := by omega
  rw [Nat.add_mul_div_right _ _ hN, Nat.div_eq_of_lt h, Nat.zero_add]

/-- cancelling out of order (a higher sequence number is still claimed) is refused, within two own steps -/
theorem rCan_out_of_order (s : St) (h : Inv s) (hadm : AllAdmitted s) (t id idx g : Nat)
    (ht : s.thr t = .rCan id idx g) (hhi : ∃ u k, holdsP (s.thr u) k ∧ id < k) :
    s.enqTail ≠ g + 1 ∧ (step s t).enqTail = s.enqTail ∧ holdsP ((step s t).thr t) id ∧
    ((step s t).thr t = .rRet id (.canIdx false) ∨ (step (step s t) t).thr t = .rRet id (.canIdx false)) := by
  obtain ⟨u, k, hu, hk⟩ := hhi
  have hku := h.pRange u k hu
  have me3 := h.idxOk t id idx g (Or.inr ht)
  have hne : s.enqTail ≠ g + 1 := by
    intro he
    have := canExact_of_allAdmitted s (.step t) h hadm t id idx g rfl ht he
    omega
  obtain ⟨f1, f2⟩ := rCan_fail s t id idx g ht hne
  refine ⟨hne, f1, ?_, ?_⟩
  · rcases f2 with ⟨_, e⟩ | ⟨_, e⟩ <;> simp [e, holdsP]
  · rcases f2 with ⟨hc, e⟩ | ⟨_, e⟩
    · right
      -- second own step: same `enqTail`, guess now in the lap of `enqTail - 1`
      have hex : CanExact s (.step t) := canExact_of_allAdmitted s (.step t) h hadm
      have h1 : Inv (step s t) := step_inv s t h hex
      have hadm1 : AllAdmitted (step s t) := by
        intro w k' hw
        by_cases hwt : w = t
        · subst hwt; rw [e] at hw ⊢; simpa [holdsP, passedP] using hw
        · rw [step_thr_ne s t w hwt] at hw ⊢; exact hadm w k' hw
      have hu1 : holdsP ((step s t).thr u) k := by
        by_cases hut : u = t
        · subst hut; rw [ht] at hu; simp [holdsP] at hu; omega
        · rw [step_thr_ne s t u hut]; exact hu
      have hne1 : (step s t).enqTail ≠ (idx + ((s.enqTail - 1) / s.N) * s.N) + 1 := by
        intro he
        have := canExact_of_allAdmitted (step s t) (.step t) h1 hadm1 t id idx _ rfl e he
        have := (h1.pRange u k hu1).2
        omega
      obtain ⟨_, g2⟩ := rCan_fail (step s t) t id idx _ e hne1
      rcases g2 with ⟨hc2, _⟩ | ⟨_, e2⟩
      · exfalso
        have hidx : idx < s.N := by rw [me3.1]; exact Nat.mod_lt _ h.npos
        rw [step_N, f1, reguess_div _ _ _ hidx] at hc2
        omega
      · exact e2
    · exact Or.inl e


theorem pFetch_step (s : St) (u v : Nat) (rsv : Bool) (hu : s.thr u = .pFetch v rsv) :
    (step s u).thr u = .pLoadHead v s.enqTail rsv := by
  simp [step, hu]

/-! ## an executable criterion for `RunSeqP` (used for non-vacuity examples) -/

def callPb : Loc → Bool
  | .pFetch _ _ | .pLoadHead _ _ _ | .pRecede _ _ _ _ | .pWrite _ _ _ | .pPublish _ _ _ | .rPub _ _ _ | .rCan _ _ _ => true
  | _ => false

theorem callPb_iff (l : Loc) : callPb l = true ↔ callP l := by
  cases l <;> simp [callPb, callP]

theorem eq_of_filter_length_le_one {p : Nat → Bool} : ∀ (l : List Nat), l.Nodup → (l.filter p).length ≤ 1 →
    ∀ a b, a ∈ l → b ∈ l → p a = true → p b = true → a = b
  | [], _, _, a, _, ha, _, _, _ => by simp at ha
  | x :: l, hnd, hlen, a, b, ha, hb, pa, pb => by
    rw [List.nodup_cons] at hnd
    by_cases px : p x = true
    · simp only [List.filter_cons, px, if_true, List.length_cons] at hlen
      have hnil : l.filter p = [] := List.length_eq_zero_iff.mp (by omega)
      have hno : ∀ c, c ∈ l → p c = true → False := by
        intro c hc pc
        have : c ∈ l.filter p := List.mem_filter.mpr ⟨hc, pc⟩
        rw [hnil] at this; simp at this
      rcases List.mem_cons.mp ha with rfl | ha' <;> rcases List.mem_cons.mp hb with rfl | hb'
      · rfl
      · exact (hno b hb' pb).elim
      · exact (hno a ha' pa).elim
      · exact (hno a ha' pa).elim
    · have hlen' : (l.filter p).length ≤ 1 := by simpa [List.filter_cons, px] using hlen
      rcases List.mem_cons.mp ha with rfl | ha' <;> rcases List.mem_cons.mp hb with rfl | hb'
      · rfl
      · exact absurd pa px
      · exact absurd pb px
      · exact eq_of_filter_length_le_one l hnd.2 hlen' a b ha' hb' pa pb

/-- only threads of `ts` act, and in every state at most one of them is inside a producer-side call -/
def seqCheck (ts : List Nat) : St → List Act → Bool
  | _, [] => true
  | s, a :: as =>
    decide ((ts.filter (fun t => callPb (s.thr t))).length ≤ 1) && ts.contains a.thread && seqCheck ts (apply s a) as

theorem runSeqP_of_check (ts : List Nat) (hnd : ts.Nodup) (s : St) (as : List Act)
    (hout : ∀ u, u ∉ ts → ¬ callP (s.thr u)) (h : seqCheck ts s as = true) : RunSeqP s as := by
  induction as generalizing s with
  | nil => trivial
  | cons a as ih =>
    simp only [seqCheck, Bool.and_eq_true, decide_eq_true_eq, List.contains_iff_mem] at h
    obtain ⟨⟨h1, h2⟩, h3⟩ := h
    refine ⟨?_, ih _ ?_ h3⟩
    · intro t u ht hu
      have mt : t ∈ ts := Classical.byContradiction fun hm => hout t hm ht
      have mu : u ∈ ts := Classical.byContradiction fun hm => hout u hm hu
      exact eq_of_filter_length_le_one ts hnd h1 t u mt mu ((callPb_iff _).mpr ht) ((callPb_iff _).mpr hu)
    · intro u hu
      have : u ≠ a.thread := fun e => hu (e ▸ h2)
      rw [apply_thr_ne s a u this]; exact hout u hu

theorem runSeqP_init_of_check (n : Nat) (ts : List Nat) (hnd : ts.Nodup) (as : List Act)
    (h : seqCheck ts (init n) as = true) : RunSeqP (init n) as :=
  runSeqP_of_check ts hnd _ as (by intro u _; simp [init, callP]) h


theorem runSeqP_append (s : St) (as bs : List Act) : RunSeqP s (as ++ bs) ↔ RunSeqP s as ∧ RunSeqP (run s as) bs := by
  induction as generalizing s with
  | nil => simp [RunSeqP]
  | cons a as ih => simp [RunSeqP, ih, and_assoc]

theorem seqP_of_runSeqP_snoc (s : St) (as : List Act) (a : Act) (h : RunSeqP s (as ++ [a])) : SeqP (run s as) :=
  ((runSeqP_append s as [a]).mp h).2.1

/-! ## blocking behind a suspended reservation, solo progress (C20) -/

/-- no action of the list is by thread `u` -/
def NotBy (u : Nat) (as : List Act) : Prop := ∀ a ∈ as, a.thread ≠ u

/-- a publisher whose turn has not come does not move, whatever is asked of it -/
theorem apply_pPublish_stuck (s : St) (a : Act) (t v id' len : Nat) (ht : s.thr t = .pPublish v id' len)
    (hne : s.tail ≠ id') (ha : a.thread = t) : apply s a = s := by
  cases a <;> simp only [Act.thread] at ha <;> subst ha <;> simp [apply, step, ht, hne]

theorem blocked_by_rHold (s : St) (h : Inv s) (u id t v id' len : Nat) (hu : s.thr u = .rHold id)
    (ht : s.thr t = .pPublish v id' len) (hlt : id < id') (as : List Act) (hnb : NotBy u as) (hok : RunOk s as) :
    (run s as).thr u = .rHold id ∧ (run s as).thr t = .pPublish v id' len ∧ (run s as).tail ≤ id ∧ Inv (run s as) := by
  induction as generalizing s with
  | nil => exact ⟨hu, ht, (h.pRange u id (by simp [hu, holdsP])).1, h⟩
  | cons a as ih =>
    have hau : a.thread ≠ u := hnb a (by simp)
    have hi' := inv_apply s a h hok.1
    have hu' : (apply s a).thr u = .rHold id := by rw [apply_thr_ne s a u (Ne.symm hau)]; exact hu
    have ht' : (apply s a).thr t = .pPublish v id' len := by
      by_cases hat : a.thread = t
      · have := (h.pRange u id (by simp [hu, holdsP])).1
        rw [apply_pPublish_stuck s a t v id' len ht (by omega) hat]; exact ht
      · rw [apply_thr_ne s a t (Ne.symm hat)]; exact ht
    exact ih (apply s a) hi' hu' ht' (fun b hb => hnb b (by simp [hb])) hok.2

/-- solo `recv`, other threads arbitrary but no consumer-side claim outstanding (`deqHead = head`) -/
theorem solo_recv_ok' (s : St) (t : Nat) (ht : s.thr t = .idle) (he : s.deqHead = s.head) (hne : s.head < s.tail) :
    let s' := run s (recvSolo t)
    s'.thr t = .done (.got (s.buf (s.head % s.N))) ∧ (∀ u, u ≠ t → s'.thr u = s.thr u) ∧
    s'.accepted = s.accepted ∧ s'.head = s.head + 1 ∧ s'.tail = s.tail ∧ s'.enqTail = s.enqTail ∧
    s'.deqHead = s.deqHead + 1 ∧ s'.delivered = s.delivered ++ [(t, s.head, s.buf (s.head % s.N))] ∧ s'.buf = s.buf := by
  simp [recvSolo, run, apply, step, ht, he, hne]
  intro u hu; simp [hu]

theorem solo_recv_empty' (s : St) (t : Nat) (ht : s.thr t = .idle) (he : s.deqHead = s.head) (hemp : s.head = s.tail) :
    let s' := run s (recvSolo t ++ [.step t])
    s'.thr t = .done .empty ∧ (∀ u, u ≠ t → s'.thr u = s.thr u) ∧
    s'.accepted = s.accepted ∧ s'.head = s.head ∧ s'.tail = s.tail ∧ s'.enqTail = s.enqTail ∧
    s'.deqHead = s.deqHead ∧ s'.delivered = s.delivered ∧ s'.buf = s.buf := by
  simp [recvSolo, run, apply, step, ht, he, hemp]
  intro u hu; simp [hu]

/-- a length query nothing overlaps answers `tail - head` (the two loads see one state; the window `tail - head ≤ N < 2^32`
    of the invariant makes the `u32` difference exact) -/
theorem solo_len (s : St) (t : Nat) (ht : s.thr t = .idle) (h1 : s.head ≤ s.tail) (h2 : s.tail - s.head < 4294967296) :
    (run s [.len t, .step t, .step t]).thr t = .done (.len (s.tail - s.head)) := by
  simp [run, apply, step, ht, U32.wsub, U32.wrap]
  omega

theorem solo_reserve_ok (s : St) (t : Nat) (ht : s.thr t = .idle) (he : s.enqTail = s.tail)
    (hroom : s.tail - s.head < s.N) :
    (run s [.reserve t, .step t, .step t]).thr t = .rRet s.tail (.reserved (s.tail % s.N) (s.tail - s.head)) := by
  simp [run, apply, step, ht, he, hroom]

theorem solo_reserve_full (s : St) (t : Nat) (ht : s.thr t = .idle) (he : s.enqTail = s.tail)
    (hfull : ¬ (s.tail - s.head < s.N)) :
    let s' := run s [.reserve t, .step t, .step t, .step t]
    s'.thr t = .done .full ∧ s'.enqTail = s.enqTail ∧ s'.tail = s.tail ∧ s'.buf = s.buf := by
  simp [run, apply, step, ht, he, hfull]

/-- consumer-side claim counter of a state without consumer-side holders -/
theorem deqHead_eq_head (s : St) (h : Inv s) (hc : ∀ u k, ¬ holdsC (s.thr u) k) : s.deqHead = s.head := by
  have := h.hHD
  by_cases e : s.deqHead = s.head
  · exact e
  · obtain ⟨u, hu⟩ := h.cCover s.head (Nat.le_refl _) (by omega)
    exact absurd hu (hc u _)


/-! ## the stand-alone queue API (C18): only `send` / `recv` / `len` calls -/

/-- actions of the stand-alone non-blocking queue (`publish_movable` / `consume_movable` / `available_elements_count`) -/
def queueAct : Act → Prop
  | .send _ _ | .recv _ | .len _ | .step _ | .ack _ => True
  | _ => False

theorem reachableX_of_queueActs (n : Nat) (as : List Act) (h : ∀ a ∈ as, queueAct a) : ReachableX n (run (init n) as) :=
  reachableX_of_noCancel n as (fun t hm => by simpa [queueAct] using h _ hm)

end Mutiny.Ring
