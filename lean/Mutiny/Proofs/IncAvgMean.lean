import Mathlib.Tactic.FieldSimp
import Mathlib.Tactic.Ring
import Mathlib.Data.Rat.Defs

/-!
# The recurrence of `AtomicIncrementalAverage64::inc` computes the arithmetic mean (exactly, over `ℚ`)

Pure arithmetic; independent of the concurrency model.  Floating-point rounding is outside the model (checked
numerically by the harness).
-/

namespace Mutiny.IncAvg

/-- the recurrence of `inc` over the rationals: `(n, a) ↦ (n + 1, n / (n + 1) * a + x / (n + 1))` -/
def incAvg : ℚ × ℚ → ℚ → ℚ × ℚ := fun (n, a) x => (n + 1, n / (n + 1) * a + x / (n + 1))

theorem incAvg_mk (n a x : ℚ) : incAvg (n, a) x = (n + 1, n / (n + 1) * a + x / (n + 1)) := rfl

/-- Started from any `(n, a)` with a natural weight `n`: the result is the weighted mean. -/
theorem foldl_incAvg (xs : List ℚ) (n : ℕ) (a : ℚ) (h : n + xs.length ≠ 0) :
    xs.foldl incAvg ((n : ℚ), a) = ((n : ℚ) + xs.length, (n * a + xs.sum) / (n + xs.length)) := by
  induction xs generalizing n a with
  | nil =>
    have hn : (n : ℚ) ≠ 0 := by
      have : n ≠ 0 := by simpa using h
      exact_mod_cast this
    simp only [List.foldl_nil, List.length_nil, Nat.cast_zero, add_zero, List.sum_nil, Prod.mk.injEq, true_and]
    field_simp
  | cons x xs ih =>
    have hn : ((n : ℚ) + 1) ≠ 0 := by exact_mod_cast Nat.succ_ne_zero n
    have hl : ((n : ℚ) + 1 + xs.length) ≠ 0 := by
      have : n + 1 + xs.length ≠ 0 := by omega
      exact_mod_cast this
    have := ih (n + 1) (n / (n + 1) * a + x / (n + 1)) (by omega)
    rw [List.foldl_cons, incAvg_mk]
    push_cast at this
    rw [this]
    simp only [List.length_cons, List.sum_cons, Nat.cast_add, Nat.cast_one, Prod.mk.injEq]
    constructor
    · ring
    · have hl' : ((n : ℚ) + (xs.length + 1)) ≠ 0 := by exact_mod_cast Nat.succ_ne_zero (n + xs.length)
      field_simp
      ring

theorem mean_exact (xs : List ℚ) (h : xs ≠ []) :
    xs.foldl incAvg (0, 0) = ((xs.length : ℚ), xs.sum / xs.length) := by
  have hl : 0 + xs.length ≠ 0 := by
    cases xs with
    | nil => exact absurd rfl h
    | cons => simp
  have := foldl_incAvg xs 0 0 hl
  simpa using this

end Mutiny.IncAvg
