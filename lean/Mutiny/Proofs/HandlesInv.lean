import Mutiny.Model.Handles

/-!
# Inductive invariant of the `Handles` model (M3 + M5)

`Inv s` is ONE structure (destructure by field name); `inv_init`, `inv_apply`, `inv_run`, `reachable_inv`.  Unlike the ring
model, `Inv` holds in *every* `Reachable` state — no side condition.

Vocabulary
* `getCB s i`          : control block `i` (`dflt` — freed, all counters 0 — outside `cbs`);
* `pointOf (thr t) = some i` : `t` is inside a call that borrowed/consumed a handle of `i` (`clone`, `inc`, `dDec`, `count`);
* `tailOf (thr t) = some i`  : `t` saw the counter of `i` reach 0 and is at `dDealloc i` or `dFree i`;
* `Parked thr i k`     : exactly `k` threads are at a point of `i` (∃ duplicate-free list of them, of length `k`);
* `Owns s i`           : `i < cbs.length`, slot `id` is alive and carries the generation of control block `i`
                         (data-only; `HandlesProps.owns_iff` : `Owns s i ↔ rc > 0 ∨ ∃ t, thr t = dDealloc i`).

Fields
* pool          : `freeNodup`, `freeLt` (free ids distinct, `< N`); `uniqNodup`, `uniqOk` (`u < N`, `u ∉ free`, `alive u`);
* counters      : `rcSum` (`rc = live + lent + owed`), `freedZero` (`freed → rc = 0`),
                  `lentCount` (`Parked s.thr i lent` — the census of calls in progress is exact);
* ownership     : `rcOwns` (`rc > 0 → Owns`), `ddOwns` (`thr t = dDealloc i → Owns`), `ownRc` (converse: `Owns ∧ rc = 0 →` some thread
                  is at `dDealloc i`), `ownOk` (`Owns → ¬freed ∧ id < N ∧ id ∉ free ∧ id ∉ uniques ∧ slot id = val`),
                  `ownInj` (two owning control blocks have different slots);
* drop tail     : `tailOk` (`dDealloc i`/`dFree i` → `i < cbs.length ∧ ¬freed ∧ rc = 0`), `tailUniq` (at most one such thread per `i`);
* generations   : `genLt`, `slotGenLt` (below the allocation clock), `genInj` (alive slots carry distinct generations);
* destructor log: `logNodup` (each generation at most once), `logLt`, `aliveNotLogged` (the value in an alive slot was not
                  destroyed), `deadLogged` (a control block that no longer owns has its `(id, gen, val)` in the log);
* counting      : `count` (∃ duplicate-free list `own` of exactly the owning control blocks with
                  `own.length + uniques.length + free.length = N`).
-/

namespace Mutiny.Handles

/-! ## projection lemmas -/

/-- the control block read at an index outside `cbs` -/
def dflt : CB := { id := 0, rc := 0, live := 0, lent := 0, owed := 0, freed := true, val := 0, gen := 0 }

theorem getCB_eq (s : St) (i : Nat) : getCB s i = s.cbs.getD i dflt := rfl

theorem getCB_of_ge {s : St} {i : Nat} (h : s.cbs.length ≤ i) : getCB s i = dflt := by
  simp [getCB_eq, List.getD_eq_getElem?_getD, List.getElem?_eq_none h]

@[simp, grind =] theorem thr_setThr (s : St) (t u : Nat) (l : Loc) :
    (setThr s t l).thr u = if u = t then l else s.thr u := rfl
@[simp, grind =] theorem N_setThr (s : St) (t : Nat) (l : Loc) : (setThr s t l).N = s.N := rfl
@[simp, grind =] theorem free_setThr (s : St) (t : Nat) (l : Loc) : (setThr s t l).free = s.free := rfl
@[simp, grind =] theorem slot_setThr (s : St) (t : Nat) (l : Loc) : (setThr s t l).slot = s.slot := rfl
@[simp, grind =] theorem alive_setThr (s : St) (t : Nat) (l : Loc) : (setThr s t l).alive = s.alive := rfl
@[simp, grind =] theorem slotGen_setThr (s : St) (t : Nat) (l : Loc) : (setThr s t l).slotGen = s.slotGen := rfl
@[simp, grind =] theorem nextGen_setThr (s : St) (t : Nat) (l : Loc) : (setThr s t l).nextGen = s.nextGen := rfl
@[simp, grind =] theorem cbs_setThr (s : St) (t : Nat) (l : Loc) : (setThr s t l).cbs = s.cbs := rfl
@[simp, grind =] theorem uniques_setThr (s : St) (t : Nat) (l : Loc) : (setThr s t l).uniques = s.uniques := rfl
@[simp, grind =] theorem dropLog_setThr (s : St) (t : Nat) (l : Loc) : (setThr s t l).dropLog = s.dropLog := rfl
@[simp, grind =] theorem getCB_setThr (s : St) (t : Nat) (l : Loc) (i : Nat) : getCB (setThr s t l) i = getCB s i := rfl

@[simp, grind =] theorem thr_updCB (s : St) (i : Nat) (f : CB → CB) : (updCB s i f).thr = s.thr := rfl
@[simp, grind =] theorem N_updCB (s : St) (i : Nat) (f : CB → CB) : (updCB s i f).N = s.N := rfl
@[simp, grind =] theorem free_updCB (s : St) (i : Nat) (f : CB → CB) : (updCB s i f).free = s.free := rfl
@[simp, grind =] theorem slot_updCB (s : St) (i : Nat) (f : CB → CB) : (updCB s i f).slot = s.slot := rfl
@[simp, grind =] theorem alive_updCB (s : St) (i : Nat) (f : CB → CB) : (updCB s i f).alive = s.alive := rfl
@[simp, grind =] theorem slotGen_updCB (s : St) (i : Nat) (f : CB → CB) : (updCB s i f).slotGen = s.slotGen := rfl
@[simp, grind =] theorem nextGen_updCB (s : St) (i : Nat) (f : CB → CB) : (updCB s i f).nextGen = s.nextGen := rfl
@[simp, grind =] theorem uniques_updCB (s : St) (i : Nat) (f : CB → CB) : (updCB s i f).uniques = s.uniques := rfl
@[simp, grind =] theorem dropLog_updCB (s : St) (i : Nat) (f : CB → CB) : (updCB s i f).dropLog = s.dropLog := rfl
@[simp, grind =] theorem length_updCB (s : St) (i : Nat) (f : CB → CB) : (updCB s i f).cbs.length = s.cbs.length := by
  simp [updCB]

theorem getCB_updCB (s : St) (i : Nat) (f : CB → CB) (j : Nat) :
    getCB (updCB s i f) j = if j = i ∧ i < s.cbs.length then f (getCB s i) else getCB s j := by
  simp only [getCB_eq, updCB, List.getD_eq_getElem?_getD, List.getElem?_modify]
  by_cases hj : j = i
  · subst hj
    by_cases hl : j < s.cbs.length
    · simp [hl]
    · simp [hl]
  · have : ¬ i = j := fun h => hj h.symm
    simp [hj, this]

@[simp, grind =] theorem thr_dealloc (s : St) (id : Nat) : (dealloc s id).thr = s.thr := rfl
@[simp, grind =] theorem N_dealloc (s : St) (id : Nat) : (dealloc s id).N = s.N := rfl
@[simp, grind =] theorem free_dealloc (s : St) (id : Nat) : (dealloc s id).free = s.free ++ [id] := rfl
@[simp, grind =] theorem slot_dealloc (s : St) (id : Nat) : (dealloc s id).slot = s.slot := rfl
@[simp, grind =] theorem alive_dealloc (s : St) (id j : Nat) :
    (dealloc s id).alive j = if j = id then false else s.alive j := rfl
@[simp, grind =] theorem slotGen_dealloc (s : St) (id : Nat) : (dealloc s id).slotGen = s.slotGen := rfl
@[simp, grind =] theorem nextGen_dealloc (s : St) (id : Nat) : (dealloc s id).nextGen = s.nextGen := rfl
@[simp, grind =] theorem cbs_dealloc (s : St) (id : Nat) : (dealloc s id).cbs = s.cbs := rfl
@[simp, grind =] theorem uniques_dealloc (s : St) (id : Nat) : (dealloc s id).uniques = s.uniques := rfl
@[simp, grind =] theorem dropLog_dealloc (s : St) (id : Nat) :
    (dealloc s id).dropLog = s.dropLog ++ [(id, s.slotGen id, s.slot id)] := rfl
@[simp, grind =] theorem getCB_dealloc (s : St) (id i : Nat) : getCB (dealloc s id) i = getCB s i := rfl

/-- appending a control block -/
theorem getD_snoc (l : List CB) (c : CB) (j : Nat) :
    (l ++ [c]).getD j dflt = if j = l.length then c else l.getD j dflt := by
  simp only [List.getD_eq_getElem?_getD]
  by_cases h1 : j < l.length
  · rw [List.getElem?_append_left h1]; simp [Nat.ne_of_lt h1]
  · by_cases h2 : j = l.length
    · subst h2; simp
    · have : l.length + 1 ≤ j := by omega
      rw [List.getElem?_eq_none (by simpa using this), List.getElem?_eq_none (by omega)]; simp [h2]


/-! ## named state transformers for the record updates inside `apply` -/

def withUniques (s : St) (u : List Nat) : St := { s with uniques := u }
def pushCB (s : St) (c : CB) : St := { s with cbs := s.cbs ++ [c] }
def allocSt (s : St) (v id : Nat) (rest : List Nat) : St :=
  { s with free := rest,
           slot := fun j => if j = id then v else s.slot j,
           alive := fun j => if j = id then true else s.alive j,
           slotGen := fun j => if j = id then s.nextGen else s.slotGen j,
           nextGen := s.nextGen + 1 }

theorem allocWrite_nil {s : St} (v : Nat) (hf : s.free = []) : allocWrite s v = none := by
  unfold allocWrite; rw [hf]
theorem allocWrite_cons {s : St} (v : Nat) {id : Nat} {rest : List Nat} (hf : s.free = id :: rest) :
    allocWrite s v = some (allocSt s v id rest, id) := by
  unfold allocWrite; rw [hf]; rfl

@[simp, grind =] theorem thr_withUniques (s : St) (u : List Nat) : (withUniques s u).thr = s.thr := rfl
@[simp, grind =] theorem N_withUniques (s : St) (u : List Nat) : (withUniques s u).N = s.N := rfl
@[simp, grind =] theorem free_withUniques (s : St) (u : List Nat) : (withUniques s u).free = s.free := rfl
@[simp, grind =] theorem slot_withUniques (s : St) (u : List Nat) : (withUniques s u).slot = s.slot := rfl
@[simp, grind =] theorem alive_withUniques (s : St) (u : List Nat) : (withUniques s u).alive = s.alive := rfl
@[simp, grind =] theorem slotGen_withUniques (s : St) (u : List Nat) : (withUniques s u).slotGen = s.slotGen := rfl
@[simp, grind =] theorem nextGen_withUniques (s : St) (u : List Nat) : (withUniques s u).nextGen = s.nextGen := rfl
@[simp, grind =] theorem cbs_withUniques (s : St) (u : List Nat) : (withUniques s u).cbs = s.cbs := rfl
@[simp, grind =] theorem uniques_withUniques (s : St) (u : List Nat) : (withUniques s u).uniques = u := rfl
@[simp, grind =] theorem dropLog_withUniques (s : St) (u : List Nat) : (withUniques s u).dropLog = s.dropLog := rfl
@[simp, grind =] theorem getCB_withUniques (s : St) (u : List Nat) (i : Nat) : getCB (withUniques s u) i = getCB s i := rfl

@[simp, grind =] theorem thr_pushCB (s : St) (c : CB) : (pushCB s c).thr = s.thr := rfl
@[simp, grind =] theorem N_pushCB (s : St) (c : CB) : (pushCB s c).N = s.N := rfl
@[simp, grind =] theorem free_pushCB (s : St) (c : CB) : (pushCB s c).free = s.free := rfl
@[simp, grind =] theorem slot_pushCB (s : St) (c : CB) : (pushCB s c).slot = s.slot := rfl
@[simp, grind =] theorem alive_pushCB (s : St) (c : CB) : (pushCB s c).alive = s.alive := rfl
@[simp, grind =] theorem slotGen_pushCB (s : St) (c : CB) : (pushCB s c).slotGen = s.slotGen := rfl
@[simp, grind =] theorem nextGen_pushCB (s : St) (c : CB) : (pushCB s c).nextGen = s.nextGen := rfl
@[simp, grind =] theorem uniques_pushCB (s : St) (c : CB) : (pushCB s c).uniques = s.uniques := rfl
@[simp, grind =] theorem dropLog_pushCB (s : St) (c : CB) : (pushCB s c).dropLog = s.dropLog := rfl
@[simp, grind =] theorem length_pushCB (s : St) (c : CB) : (pushCB s c).cbs.length = s.cbs.length + 1 := by
  simp [pushCB]
theorem getCB_pushCB (s : St) (c : CB) (j : Nat) :
    getCB (pushCB s c) j = if j = s.cbs.length then c else getCB s j := getD_snoc s.cbs c j

@[simp, grind =] theorem thr_allocSt (s : St) (v id : Nat) (r : List Nat) : (allocSt s v id r).thr = s.thr := rfl
@[simp, grind =] theorem N_allocSt (s : St) (v id : Nat) (r : List Nat) : (allocSt s v id r).N = s.N := rfl
@[simp, grind =] theorem free_allocSt (s : St) (v id : Nat) (r : List Nat) : (allocSt s v id r).free = r := rfl
@[simp, grind =] theorem slot_allocSt (s : St) (v id : Nat) (r : List Nat) (j : Nat) :
    (allocSt s v id r).slot j = if j = id then v else s.slot j := rfl
@[simp, grind =] theorem alive_allocSt (s : St) (v id : Nat) (r : List Nat) (j : Nat) :
    (allocSt s v id r).alive j = if j = id then true else s.alive j := rfl
@[simp, grind =] theorem slotGen_allocSt (s : St) (v id : Nat) (r : List Nat) (j : Nat) :
    (allocSt s v id r).slotGen j = if j = id then s.nextGen else s.slotGen j := rfl
@[simp, grind =] theorem nextGen_allocSt (s : St) (v id : Nat) (r : List Nat) :
    (allocSt s v id r).nextGen = s.nextGen + 1 := rfl
@[simp, grind =] theorem cbs_allocSt (s : St) (v id : Nat) (r : List Nat) : (allocSt s v id r).cbs = s.cbs := rfl
@[simp, grind =] theorem uniques_allocSt (s : St) (v id : Nat) (r : List Nat) : (allocSt s v id r).uniques = s.uniques := rfl
@[simp, grind =] theorem dropLog_allocSt (s : St) (v id : Nat) (r : List Nat) : (allocSt s v id r).dropLog = s.dropLog := rfl
@[simp, grind =] theorem getCB_allocSt (s : St) (v id : Nat) (r : List Nat) (i : Nat) :
    getCB (allocSt s v id r) i = getCB s i := rfl

/-! ## the invariant -/

/-- program points at which the thread's call holds (borrowed or consumed) one handle of control block `i` -/
def pointOf : Loc → Option Nat
  | .clone i => some i
  | .inc i _ => some i
  | .dDec i => some i
  | .count i => some i
  | _ => none

/-- program points of the thread that saw the counter reach 0 -/
def tailOf : Loc → Option Nat
  | .dDealloc i => some i
  | .dFree i => some i
  | _ => none

/-- control block `i` owns its pool slot: the value it was created for is still alive in slot `id`
    (data-only formulation; `owns_iff` shows it is `¬freed ∧ (rc > 0 ∨ some thread is at dDealloc i)`) -/
def Owns (s : St) (i : Nat) : Prop :=
  i < s.cbs.length ∧ s.alive (getCB s i).id = true ∧ s.slotGen (getCB s i).id = (getCB s i).gen

/-- exactly `n` threads are parked at a point of control block `i` -/
def Parked (thr : Nat → Loc) (i n : Nat) : Prop :=
  ∃ ts : List Nat, ts.Nodup ∧ (∀ t, t ∈ ts ↔ pointOf (thr t) = some i) ∧ ts.length = n

structure Inv (s : St) : Prop where
  freeNodup : s.free.Nodup
  freeLt : ∀ x ∈ s.free, x < s.N
  uniqNodup : s.uniques.Nodup
  uniqOk : ∀ u ∈ s.uniques, u < s.N ∧ u ∉ s.free ∧ s.alive u = true
  rcSum : ∀ i, (getCB s i).rc = (getCB s i).live + (getCB s i).lent + (getCB s i).owed
  freedZero : ∀ i, (getCB s i).freed = true → (getCB s i).rc = 0
  rcOwns : ∀ i, (getCB s i).rc > 0 → Owns s i
  ddOwns : ∀ t i, s.thr t = .dDealloc i → Owns s i
  ownOk : ∀ i, Owns s i → (getCB s i).freed = false ∧ (getCB s i).id < s.N ∧ (getCB s i).id ∉ s.free ∧
            (getCB s i).id ∉ s.uniques ∧ s.slot (getCB s i).id = (getCB s i).val
  ownInj : ∀ i j, Owns s i → Owns s j → (getCB s i).id = (getCB s j).id → i = j
  ownRc : ∀ i, Owns s i → (getCB s i).rc = 0 → ∃ t, s.thr t = .dDealloc i
  lentCount : ∀ i, Parked s.thr i (getCB s i).lent
  tailOk : ∀ t i, tailOf (s.thr t) = some i → i < s.cbs.length ∧ (getCB s i).freed = false ∧ (getCB s i).rc = 0
  tailUniq : ∀ t u i, tailOf (s.thr t) = some i → tailOf (s.thr u) = some i → t = u
  genLt : ∀ i, i < s.cbs.length → (getCB s i).gen < s.nextGen
  slotGenLt : ∀ j, s.slotGen j < s.nextGen
  genInj : ∀ j k, s.alive j = true → s.alive k = true → s.slotGen j = s.slotGen k → j = k
  logNodup : (s.dropLog.map (·.2.1)).Nodup
  logLt : ∀ e ∈ s.dropLog, e.2.1 < s.nextGen
  aliveNotLogged : ∀ j, s.alive j = true → s.slotGen j ∉ s.dropLog.map (·.2.1)
  deadLogged : ∀ i, i < s.cbs.length → ¬ Owns s i →
                 ((getCB s i).id, (getCB s i).gen, (getCB s i).val) ∈ s.dropLog
  count : ∃ own : List Nat, own.Nodup ∧ (∀ i, i ∈ own ↔ Owns s i) ∧
            own.length + s.uniques.length + s.free.length = s.N

theorem dflt_rc : dflt.rc = 0 := rfl

theorem nodup_snoc {α : Type} {l : List α} {a : α} : (l ++ [a]).Nodup ↔ l.Nodup ∧ a ∉ l := by
  rw [List.nodup_append]; simp only [List.nodup_cons, List.not_mem_nil, not_false_eq_true, List.nodup_nil, and_self,
    true_and, List.mem_singleton]
  constructor
  · rintro ⟨h1, h2⟩; exact ⟨h1, fun h => h2 a h a rfl rfl⟩
  · rintro ⟨h1, h2⟩; exact ⟨h1, fun x hx b hb e => h2 (hb ▸ e ▸ hx)⟩

theorem Parked.cast {thr : Nat → Loc} {j n m : Nat} (h : Parked thr j n) (e : n = m) : Parked thr j m := e ▸ h

theorem parked_same {s : St} {t j n : Nat} {l : Loc} (h : Parked s.thr j n)
    (h1 : pointOf (s.thr t) ≠ some j) (h2 : pointOf l ≠ some j) : Parked (setThr s t l).thr j n := by
  obtain ⟨ts, hn, hm, hl⟩ := h
  refine ⟨ts, hn, fun u => ?_, hl⟩
  rw [hm u, thr_setThr]
  by_cases hu : u = t
  · subst hu; simp [h1, h2]
  · simp [hu]

theorem parked_add {s : St} {t j n : Nat} {l : Loc} (h : Parked s.thr j n)
    (h1 : pointOf (s.thr t) ≠ some j) (h2 : pointOf l = some j) : Parked (setThr s t l).thr j (n + 1) := by
  obtain ⟨ts, hn, hm, hl⟩ := h
  have hnot : t ∉ ts := fun hmem => h1 ((hm t).1 hmem)
  refine ⟨t :: ts, List.nodup_cons.2 ⟨hnot, hn⟩, fun u => ?_, by simp [hl]⟩
  rw [thr_setThr, List.mem_cons, hm u]
  by_cases hu : u = t
  · subst hu; simp [h2]
  · simp [hu]

theorem parked_remove {s : St} {t j n : Nat} {l : Loc} (h : Parked s.thr j n)
    (h1 : pointOf (s.thr t) = some j) (h2 : pointOf l ≠ some j) : Parked (setThr s t l).thr j (n - 1) := by
  obtain ⟨ts, hn, hm, hl⟩ := h
  have hmem : t ∈ ts := (hm t).2 h1
  refine ⟨ts.erase t, hn.erase t, fun u => ?_, by rw [List.length_erase_of_mem hmem, hl]⟩
  rw [thr_setThr, hn.mem_erase_iff, hm u]
  by_cases hu : u = t
  · subst hu; simp [h2]
  · simp [hu]

/-- a thread parked at a point of `i` holds one of the lent handles -/
theorem Inv.lent_pos {s : St} (h : Inv s) {t i : Nat} (ht : pointOf (s.thr t) = some i) :
    1 ≤ (getCB s i).lent := by
  obtain ⟨ts, _, hm, hl⟩ := h.lentCount i
  have : t ∈ ts := (hm t).2 ht
  rw [← hl]; exact List.length_pos_of_mem this

theorem Inv.point_lt {s : St} (h : Inv s) {t i : Nat} (ht : pointOf (s.thr t) = some i) :
    i < s.cbs.length ∧ 1 ≤ (getCB s i).rc := by
  have h1 := h.lent_pos ht
  have h2 := h.rcSum i
  have h3 : (getCB s i).rc > 0 := by omega
  exact ⟨(h.rcOwns i h3).1, h3⟩

/-- projections of updated states -/
macro "hsimp" : tactic => `(tactic| simp only [lend, Owns, thr_setThr, N_setThr, free_setThr, slot_setThr, alive_setThr,
    slotGen_setThr, nextGen_setThr, cbs_setThr, uniques_setThr, dropLog_setThr, getCB_setThr, thr_updCB, N_updCB,
    free_updCB, slot_updCB, alive_updCB, slotGen_updCB, nextGen_updCB, uniques_updCB, dropLog_updCB, length_updCB,
    getCB_updCB, thr_dealloc, N_dealloc, free_dealloc, slot_dealloc, alive_dealloc, slotGen_dealloc, nextGen_dealloc,
    cbs_dealloc, uniques_dealloc, dropLog_dealloc, getCB_dealloc,
    thr_withUniques, N_withUniques, free_withUniques, slot_withUniques, alive_withUniques, slotGen_withUniques,
    nextGen_withUniques, cbs_withUniques, uniques_withUniques, dropLog_withUniques, getCB_withUniques,
    thr_pushCB, N_pushCB, free_pushCB, slot_pushCB, alive_pushCB, slotGen_pushCB, nextGen_pushCB, uniques_pushCB,
    dropLog_pushCB, length_pushCB, getCB_pushCB,
    thr_allocSt, N_allocSt, free_allocSt, slot_allocSt, alive_allocSt, slotGen_allocSt, nextGen_allocSt, cbs_allocSt,
    uniques_allocSt, dropLog_allocSt, getCB_allocSt])

/-- default per-field tactics (`h : Inv s`); `lentCount` and `count` are left to the caller, as is whatever fails -/
macro "hfields" h:term:max : tactic => `(tactic| (
  constructor <;> hsimp
  try (case freeNodup => first | exact Inv.freeNodup $h | (have := Inv.freeNodup $h; grind [nodup_snoc, List.nodup_cons]))
  try (case freeLt => first | exact Inv.freeLt $h | (intro x hx; have := Inv.freeLt $h x; grind))
  try (case uniqNodup => first | exact Inv.uniqNodup $h | (have := Inv.uniqNodup $h; grind [List.Nodup.erase, List.nodup_cons]))
  try (case uniqOk => first | exact Inv.uniqOk $h | (intro u hu; have := Inv.uniqOk $h u; grind [List.Nodup.mem_erase_iff]))
  try (case rcSum => intro j; have := Inv.rcSum $h j; grind [pointOf, tailOf])
  try (case freedZero => intro j; have := Inv.freedZero $h j; have := Inv.rcSum $h j; grind [pointOf, tailOf])
  try (case rcOwns => intro j; have := Inv.rcOwns $h j; simp only [Owns] at this; grind [pointOf, tailOf])
  try (case ddOwns => intro u j; have := Inv.ddOwns $h u j; simp only [Owns] at this; grind [pointOf, tailOf])
  try (case ownOk => intro j; have := Inv.ownOk $h j; simp only [Owns] at this; grind [pointOf, tailOf])
  try (case ownInj => intro j k; have := Inv.ownInj $h j k; simp only [Owns] at this; grind [pointOf, tailOf])
  try (case ownRc => intro j; have := Inv.ownRc $h j; simp only [Owns] at this; grind [pointOf, tailOf])
  try (case tailOk => intro u j; have := Inv.tailOk $h u j; grind [pointOf, tailOf])
  try (case tailUniq => intro u w j; have := Inv.tailUniq $h u w j; grind [pointOf, tailOf])
  try (case genLt => intro j; have := Inv.genLt $h j; grind [pointOf, tailOf])
  try (case slotGenLt => first | exact Inv.slotGenLt $h | (intro j; have := Inv.slotGenLt $h j; grind))
  try (case genInj => first | exact Inv.genInj $h |
    (intro j k; have := Inv.genInj $h j k; have := Inv.slotGenLt $h j; have := Inv.slotGenLt $h k; grind))
  try (case logNodup => first | exact Inv.logNodup $h |
    (have := Inv.logNodup $h; try simp only [List.map_append, List.map_cons, List.map_nil]
     grind [nodup_snoc]))
  try (case logLt => first | exact Inv.logLt $h | (intro e he; have := Inv.logLt $h e; have := Inv.slotGenLt $h; grind))
  try (case aliveNotLogged => first | exact Inv.aliveNotLogged $h |
    (intro j hj; have := Inv.aliveNotLogged $h j; have := Inv.slotGenLt $h j
     try simp only [List.map_append, List.map_cons, List.map_nil, List.mem_append, List.mem_singleton]
     grind))
  try (case deadLogged => intro j; have := Inv.deadLogged $h j; simp only [Owns] at this; grind [pointOf, tailOf])))

/-- `count` when ownership did not change -/
macro "hcount_same" h:term:max : tactic => `(tactic| (
  refine Exists.elim (Inv.count $h) (fun own hown => ⟨own, hown.1, fun j => ?_, hown.2.2⟩)
  rw [hown.2.1 j]; first | exact Iff.rfl | (simp only [Owns]; grind [pointOf, tailOf])))

theorem inv_lend (s : St) (t i : Nat) (l : Loc) (hl : pointOf l = some i) (htl : tailOf l = none) (h : Inv s)
    (ht : s.thr t = .idle) (hu : usable s i = true) : Inv (setThr (lend s i) t l) := by
  simp only [usable, Bool.and_eq_true, decide_eq_true_eq] at hu
  obtain ⟨hlen, hlive⟩ := hu
  hfields h
  case lentCount =>
    intro j
    by_cases hj : j = i
    · subst hj; simp only [hlen, and_self, if_true]
      exact parked_add (h.lentCount j) (by simp [ht, pointOf]) hl
    · simp only [hj, false_and, if_false]
      exact parked_same (h.lentCount j) (by simp [ht, pointOf]) (by simp [hl]; omega)
  case count => hcount_same h


/-- a thread moves between points that hold nothing -/
theorem inv_setThr (s : St) (t : Nat) (l : Loc) (h : Inv s) (h1 : pointOf (s.thr t) = none)
    (h2 : tailOf (s.thr t) = none) (h3 : pointOf l = none) (h4 : tailOf l = none) : Inv (setThr s t l) := by
  hfields h
  case lentCount => intro j; exact parked_same (h.lentCount j) (by simp [h1]) (by simp [h3])
  case count => hcount_same h

theorem inv_rawCopy (s : St) (t i : Nat) (h : Inv s) (ht : s.thr t = .idle) (hlen : i < s.cbs.length)
    (ho : (getCB s i).owed > 0) :
    Inv (setThr (updCB s i fun c => { c with owed := c.owed - 1, live := c.live + 1 }) t (.done (.arc i))) := by
  hfields h
  case lentCount =>
    intro j
    have : (if j = i ∧ i < s.cbs.length then
        { (getCB s i) with owed := (getCB s i).owed - 1, live := (getCB s i).live + 1 } else getCB s j).lent
        = (getCB s j).lent := by grind
    rw [this]
    exact parked_same (h.lentCount j) (by simp [ht, pointOf]) (by simp [pointOf])
  case count => hcount_same h

theorem inv_step_clone (s : St) (t i : Nat) (h : Inv s) (ht : s.thr t = .clone i) : Inv (step s t) := by
  have me := h.point_lt (t := t) (i := i) (by simp [ht, pointOf])
  have me2 := h.lent_pos (t := t) (i := i) (by simp [ht, pointOf])
  simp only [step, ht]
  hfields h
  case lentCount =>
    intro j
    by_cases hj : j = i
    · subst hj; simp only [me.1, and_self, if_true]
      exact parked_remove (h.lentCount j) (by simp [ht, pointOf]) (by simp [pointOf])
    · simp only [hj, false_and, if_false]
      exact parked_same (h.lentCount j) (by simp [ht, pointOf]; omega) (by simp [pointOf])
  case count => hcount_same h


theorem inv_step_inc (s : St) (t i k : Nat) (h : Inv s) (ht : s.thr t = .inc i k) : Inv (step s t) := by
  have me := h.point_lt (t := t) (i := i) (by simp [ht, pointOf])
  have me2 := h.lent_pos (t := t) (i := i) (by simp [ht, pointOf])
  simp only [step, ht]
  hfields h
  case lentCount =>
    intro j
    by_cases hj : j = i
    · subst hj; simp only [me.1, and_self, if_true]
      exact parked_remove (h.lentCount j) (by simp [ht, pointOf]) (by simp [pointOf])
    · simp only [hj, false_and, if_false]
      exact parked_same (h.lentCount j) (by simp [ht, pointOf]; omega) (by simp [pointOf])
  case count => hcount_same h

theorem inv_step_count (s : St) (t i : Nat) (h : Inv s) (ht : s.thr t = .count i) : Inv (step s t) := by
  have me := h.point_lt (t := t) (i := i) (by simp [ht, pointOf])
  have me2 := h.lent_pos (t := t) (i := i) (by simp [ht, pointOf])
  simp only [step, ht]
  hfields h
  case lentCount =>
    intro j
    by_cases hj : j = i
    · subst hj; simp only [me.1, and_self, if_true]
      exact parked_remove (h.lentCount j) (by simp [ht, pointOf]) (by simp [pointOf])
    · simp only [hj, false_and, if_false]
      exact parked_same (h.lentCount j) (by simp [ht, pointOf]; omega) (by simp [pointOf])
  case count => hcount_same h

theorem inv_step_dDec (s : St) (t i : Nat) (h : Inv s) (ht : s.thr t = .dDec i) : Inv (step s t) := by
  have me := h.point_lt (t := t) (i := i) (by simp [ht, pointOf])
  have me2 := h.lent_pos (t := t) (i := i) (by simp [ht, pointOf])
  have me3 := h.rcSum i
  have me4 := h.rcOwns i (by omega)
  have me5 := fun u => h.tailOk u i
  have me6 := h.freedZero i
  simp only [Owns] at me4
  simp only [step, ht]
  split
  · hfields h
    case lentCount =>
      intro j
      by_cases hj : j = i
      · subst hj; simp only [me.1, and_self, if_true]
        exact parked_remove (h.lentCount j) (by simp [ht, pointOf]) (by simp [pointOf])
      · simp only [hj, false_and, if_false]
        exact parked_same (h.lentCount j) (by simp [ht, pointOf]; omega) (by simp [pointOf])
    case count => hcount_same h
  · hfields h
    case lentCount =>
      intro j
      by_cases hj : j = i
      · subst hj; simp only [me.1, and_self, if_true]
        exact parked_remove (h.lentCount j) (by simp [ht, pointOf]) (by simp [pointOf])
      · simp only [hj, false_and, if_false]
        exact parked_same (h.lentCount j) (by simp [ht, pointOf]; omega) (by simp [pointOf])
    case count => hcount_same h


theorem inv_step_dFree (s : St) (t i : Nat) (h : Inv s) (ht : s.thr t = .dFree i) : Inv (step s t) := by
  have me := h.tailOk t i (by simp [ht, tailOf])
  have me2 := fun u => h.tailUniq t u i (by simp [ht, tailOf])
  have me3 := h.rcSum i
  have me4 := h.ownRc i
  simp only [Owns] at me4
  simp only [step, ht]
  hfields h
  case lentCount =>
    intro j
    have : (if j = i ∧ i < s.cbs.length then { (getCB s i) with freed := true } else getCB s j).lent
        = (getCB s j).lent := by grind
    rw [this]
    exact parked_same (h.lentCount j) (by simp [ht, pointOf]) (by simp [pointOf])
  case count => hcount_same h

theorem inv_step_dDealloc (s : St) (t i : Nat) (h : Inv s) (ht : s.thr t = .dDealloc i) : Inv (step s t) := by
  have me := h.tailOk t i (by simp [ht, tailOf])
  have me2 := fun u => h.tailUniq t u i (by simp [ht, tailOf])
  have me3 := h.ddOwns t i ht
  have me4 := h.ownOk i me3
  have me5 := fun j => h.ownInj i j me3
  have me6 := h.aliveNotLogged (getCB s i).id me3.2.1
  have me7 := fun j => h.genInj j (getCB s i).id
  simp only [Owns] at me3 me5
  simp only [step, ht]
  hfields h
  case lentCount => intro j; exact parked_same (h.lentCount j) (by simp [ht, pointOf]) (by simp [pointOf])
  case count =>
    obtain ⟨own, hn, hm, hc⟩ := h.count
    have hi : i ∈ own := (hm i).2 (by simpa only [Owns] using me3)
    refine ⟨own.erase i, hn.erase i, fun j => ?_, ?_⟩
    · rw [hn.mem_erase_iff, hm j]; simp only [Owns]; grind
    · rw [List.length_erase_of_mem hi]; have := List.length_pos_of_mem hi
      simp only [List.length_append, List.length_singleton]; omega


theorem inv_dropUnique (s : St) (t id : Nat) (h : Inv s) (ht : s.thr t = .idle) (hm : id ∈ s.uniques) :
    Inv (setThr (withUniques (dealloc s id) (s.uniques.erase id)) t (.done .unit)) := by
  have me := h.uniqOk id hm
  have me2 := h.uniqNodup
  have me3 := h.aliveNotLogged id me.2.2
  have me4 := fun j => h.genInj j id
  have me5 := fun j hj => (h.ownOk j hj).2.2.2.1
  simp only [Owns] at me5
  hfields h
  case lentCount => intro j; exact parked_same (h.lentCount j) (by simp [ht, pointOf]) (by simp [pointOf])
  case count =>
    obtain ⟨own, hn, hmm, hc⟩ := h.count
    refine ⟨own, hn, fun j => ?_, ?_⟩
    · rw [hmm j]; simp only [Owns]; grind
    · rw [List.length_erase_of_mem hm]; have := List.length_pos_of_mem hm
      simp only [List.length_append, List.length_singleton]; omega


theorem inv_intoArc (s : St) (t id : Nat) (h : Inv s) (ht : s.thr t = .idle) (hm : id ∈ s.uniques) :
    Inv (setThr (pushCB (withUniques s (s.uniques.erase id))
      { id := id, rc := 1, live := 1, lent := 0, owed := 0, freed := false, val := s.slot id, gen := s.slotGen id })
      t (.done (.arc s.cbs.length))) := by
  have me := h.uniqOk id hm
  have me2 := h.uniqNodup
  have me4 := h.slotGenLt id
  have me5 := fun j hj => (h.ownOk j hj).2.2.2.1
  have me6 : getCB s s.cbs.length = dflt := getCB_of_ge (Nat.le_refl _)
  simp only [Owns] at me5
  hfields h
  case lentCount =>
    intro j
    exact (parked_same (h.lentCount j) (by simp [ht, pointOf]) (by simp [pointOf])).cast (by grind [dflt])
  case count =>
    obtain ⟨own, hn, hmm, hc⟩ := h.count
    have hnot : s.cbs.length ∉ own := fun hx => Nat.lt_irrefl _ ((hmm _).1 hx).1
    refine ⟨own ++ [s.cbs.length], nodup_snoc.2 ⟨hn, hnot⟩, fun j => ?_, ?_⟩
    · rw [List.mem_append, List.mem_singleton, hmm j]; simp only [Owns]; grind
    · rw [List.length_erase_of_mem hm]; have := List.length_pos_of_mem hm
      simp only [List.length_append, List.length_singleton]; omega


theorem inv_newUnique (s : St) (t v id : Nat) (rest : List Nat) (h : Inv s) (ht : s.thr t = .idle)
    (hf : s.free = id :: rest) :
    Inv (setThr (withUniques (allocSt s v id rest) (id :: s.uniques)) t (.done (.unique id))) := by
  have me := h.freeNodup
  have me1 := h.freeLt id
  have me2 := fun u hu => (h.uniqOk u hu).2.1
  have me3 := fun j hj => (h.ownOk j hj).2.2.1
  have me4 := h.genLt
  have me5 := h.logLt
  have me7 : s.nextGen ∉ s.dropLog.map (·.2.1) := by
    intro hx; obtain ⟨e, he, hee⟩ := List.mem_map.1 hx; have := h.logLt e he; omega
  simp only [Owns] at me3
  rw [hf] at me me1 me2 me3
  hfields h
  case lentCount => intro j; exact parked_same (h.lentCount j) (by simp [ht, pointOf]) (by simp [pointOf])
  case count =>
    obtain ⟨own, hn, hmm, hc⟩ := h.count
    refine ⟨own, hn, fun j => ?_, ?_⟩
    · rw [hmm j]; simp only [Owns]; grind
    · rw [hf] at hc; simp only [List.length_cons] at hc ⊢; omega

theorem inv_newArc (s : St) (t v k id : Nat) (rest : List Nat) (h : Inv s) (ht : s.thr t = .idle) (hk : k > 0)
    (hf : s.free = id :: rest) :
    Inv (setThr (pushCB (allocSt s v id rest)
      { id := id, rc := k, live := k, lent := 0, owed := 0, freed := false, val := v, gen := s.nextGen })
      t (.done (.arc s.cbs.length))) := by
  have me := h.freeNodup
  have me1 := h.freeLt id
  have me2 := fun u hu => (h.uniqOk u hu).2.1
  have me3 := fun j hj => (h.ownOk j hj).2.2.1
  have me4 := h.genLt
  have me5 := h.logLt
  have me7 : s.nextGen ∉ s.dropLog.map (·.2.1) := by
    intro hx; obtain ⟨e, he, hee⟩ := List.mem_map.1 hx; have := h.logLt e he; omega
  have me6 : getCB s s.cbs.length = dflt := getCB_of_ge (Nat.le_refl _)
  simp only [Owns] at me3
  rw [hf] at me me1 me2 me3
  hfields h
  case lentCount =>
    intro j
    exact (parked_same (h.lentCount j) (by simp [ht, pointOf]) (by simp [pointOf])).cast (by grind [dflt])
  case count =>
    obtain ⟨own, hn, hmm, hc⟩ := h.count
    have hnot : s.cbs.length ∉ own := fun hx => Nat.lt_irrefl _ ((hmm _).1 hx).1
    refine ⟨own ++ [s.cbs.length], nodup_snoc.2 ⟨hn, hnot⟩, fun j => ?_, ?_⟩
    · rw [List.mem_append, List.mem_singleton, hmm j]; simp only [Owns]; grind
    · rw [hf] at hc; simp only [List.length_cons, List.length_append, List.length_nil] at hc ⊢; omega


/-! ## assembling -/

theorem getCB_init (n i : Nat) : getCB (init n) i = dflt := getCB_of_ge (Nat.zero_le _)

theorem inv_init (n : Nat) : Inv (init n) := by
  constructor <;> (try simp only [getCB_init, Owns])
  case freeNodup => exact List.nodup_range
  case freeLt => intro x hx; exact List.mem_range.1 hx
  case uniqNodup => exact List.nodup_nil
  case uniqOk => intro u hu; cases hu
  case rcSum => intro i; rfl
  case freedZero => intro i _; rfl
  case rcOwns => intro i hi; exact absurd hi (by decide)
  case ddOwns => intro t i hi; cases hi
  case ownOk => intro i hi; exact absurd hi.1 (Nat.not_lt_zero _)
  case ownInj => intro i j hi; exact absurd hi.1 (Nat.not_lt_zero _)
  case ownRc => intro i hi; exact absurd hi.1 (Nat.not_lt_zero _)
  case lentCount => intro i; exact ⟨[], List.nodup_nil, fun t => by simp [init, pointOf], rfl⟩
  case tailOk => intro t i hi; simp [init, tailOf] at hi
  case tailUniq => intro t u i hi; simp [init, tailOf] at hi
  case genLt => intro i hi; exact absurd hi (Nat.not_lt_zero _)
  case slotGenLt => intro j; exact Nat.zero_lt_one
  case genInj => intro j k hj; cases hj
  case logNodup => exact List.nodup_nil
  case logLt => intro e he; cases he
  case aliveNotLogged => intro j hj; cases hj
  case deadLogged => intro i hi; exact absurd hi (Nat.not_lt_zero _)
  case count => exact ⟨[], List.nodup_nil, fun i => by simp [init], by simp [init]⟩

theorem inv_step (s : St) (t : Nat) (h : Inv s) : Inv (step s t) := by
  cases ht : s.thr t with
  | idle => simp only [step, ht]; exact h
  | done r => simp only [step, ht]; exact h
  | clone i => exact inv_step_clone s t i h ht
  | inc i k => exact inv_step_inc s t i k h ht
  | dDec i => exact inv_step_dDec s t i h ht
  | dDealloc i => exact inv_step_dDealloc s t i h ht
  | dFree i => exact inv_step_dFree s t i h ht
  | count i => exact inv_step_count s t i h ht

theorem inv_apply (s : St) (a : Act) (h : Inv s) : Inv (apply s a) := by
  cases a with
  | newArc t v k =>
    simp only [apply]
    split
    · next hc =>
      cases hf : s.free with
      | nil =>
        rw [allocWrite_nil v hf]
        exact inv_setThr s t _ h (by simp [hc.1, pointOf]) (by simp [hc.1, tailOf]) rfl rfl
      | cons id rest =>
        rw [allocWrite_cons v hf]
        exact inv_newArc s t v k id rest h hc.1 hc.2 hf
    · exact h
  | clone t i =>
    simp only [apply]
    split
    · next hc => exact inv_lend s t i _ rfl rfl h hc.1 hc.2
    · exact h
  | incRefs t i k =>
    simp only [apply]
    split
    · next hc => exact inv_lend s t i _ rfl rfl h hc.1 hc.2
    · exact h
  | rawCopy t i =>
    simp only [apply]
    split
    · next hc => exact inv_rawCopy s t i h hc.1 hc.2.1 hc.2.2
    · exact h
  | dropArc t i =>
    simp only [apply]
    split
    · next hc => exact inv_lend s t i _ rfl rfl h hc.1 hc.2
    · exact h
  | count t i =>
    simp only [apply]
    split
    · next hc => exact inv_lend s t i _ rfl rfl h hc.1 hc.2
    · exact h
  | deref t i =>
    simp only [apply]
    split
    · next hc => exact inv_setThr s t _ h (by simp [hc.1, pointOf]) (by simp [hc.1, tailOf]) rfl rfl
    · exact h
  | newUnique t v =>
    simp only [apply]
    split
    · next hc =>
      cases hf : s.free with
      | nil =>
        rw [allocWrite_nil v hf]
        exact inv_setThr s t _ h (by simp [hc, pointOf]) (by simp [hc, tailOf]) rfl rfl
      | cons id rest =>
        rw [allocWrite_cons v hf]
        exact inv_newUnique s t v id rest h hc hf
    · exact h
  | dropUnique t id =>
    simp only [apply]
    split
    · next hc => exact inv_dropUnique s t id h hc.1 hc.2
    · exact h
  | derefUnique t id =>
    simp only [apply]
    split
    · next hc => exact inv_setThr s t _ h (by simp [hc.1, pointOf]) (by simp [hc.1, tailOf]) rfl rfl
    · exact h
  | intoArc t id =>
    simp only [apply]
    split
    · next hc => exact inv_intoArc s t id h hc.1 hc.2
    · exact h
  | step t => exact inv_step s t h
  | ack t =>
    simp only [apply]
    split
    · next r hr => exact inv_setThr s t _ h (by simp [hr, pointOf]) (by simp [hr, tailOf]) rfl rfl
    · exact h

theorem inv_run (s : St) (as : List Act) (h : Inv s) : Inv (run s as) := by
  induction as generalizing s with
  | nil => exact h
  | cons a as ih => exact ih (apply s a) (inv_apply s a h)

theorem reachable_inv {n : Nat} {s : St} (h : Reachable n s) : Inv s := by
  obtain ⟨as, rfl⟩ := h
  exact inv_run _ as (inv_init n)

#print axioms reachable_inv

end Mutiny.Handles
