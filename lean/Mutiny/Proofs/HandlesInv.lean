import Mutiny.Model.Handles

/-!
# Inductive invariant of the `Handles` model (M3 + M5)

`Inv s` is ONE structure (destructure by field name); `inv_init`, `inv_apply`, `inv_run`, `reachable_inv`.  Unlike the ring
model, `Inv` holds in *every* `Reachable` state — no side condition.

Vocabulary
* `getCB s i`          : control block `i` (`dflt` — freed, all counters 0 — outside `cbs`);
* `pointOf (thr t) = some i` : `t` is inside a call that borrowed/consumed a handle of `i` (`clone`, `inc`, `dDec`, `count`);
* `tailOf (thr t) = some i`  : `t` saw the counter of `i` reach 0: `dDealloc i`, `dDestroy i`, `dRelease i` or `dFree i`;
* `ownTail (thr t) = some i` : … and the payload's destructor has not run yet (`dDealloc i`, `dDestroy i`);
* `uOf (thr t) = some x`     : `t` is inside `dealloc_id` for the slot `x` of a unique handle (`uDestroy x`, `uRelease x`);
* `transLoc (thr t)`         : `dRelease _`, `uDestroy _`, `uRelease _` — the slot is counted under no owner and not free;
* `Parked thr i k`     : exactly `k` threads are at a point of `i` (∃ duplicate-free list of them, of length `k`);
* `Transit thr k`      : exactly `k` threads are at a `transLoc` point;   `Owned s k` : exactly `k` control blocks `Owns`;
* `Owns s i`           : `i < cbs.length`, slot `id` is alive and carries the generation of control block `i`
                         (data-only; `HandlesProps.owns_iff` : `Owns s i ↔ rc > 0 ∨ ∃ t, thr t = dDealloc i ∨ thr t = dDestroy i`).

Fields
* pool          : `freeNodup`, `freeLt` (free ids distinct, `< N`); `uniqNodup`, `uniqOk` (`u < N`, `u ∉ free`, `alive u`);
* counters      : `rcSum` (`rc = live + lent + owed`), `freedZero` (`freed → rc = 0`),
                  `lentCount` (`Parked s.thr i lent` — the census of calls in progress is exact);
* ownership     : `rcOwns` (`rc > 0 → Owns`), `ddOwns` (`ownTail (thr t) = some i → Owns`), `ownRc` (converse: `Owns ∧ rc = 0 →` some
                  thread has `ownTail = some i`), `ownOk` (`Owns → ¬freed ∧ id < N ∧ id ∉ free ∧ id ∉ uniques ∧ slot id = val`),
                  `ownInj` (two owning control blocks have different slots);
* drop tail     : `tailOk` (`tailOf (thr t) = some i → i < cbs.length ∧ ¬freed ∧ rc = 0`), `tailUniq` (one such thread per `i`);
* in transit    : `relOk` (`dRelease i`: `id < N`, `id ∉ free`, `id ∉ uniques`, not alive), `uOk` (`uDestroy/uRelease x`: `x < N`,
                  `x ∉ free`, `x ∉ uniques`), `uDesOk` (alive), `uRelOk` (not alive, `(x, slotGen x, slot x)` logged),
                  `uOwn` (no owning control block has slot `x`), `relRel`, `relU`, `uU` (distinct threads in transit hold
                  distinct slots);  the facts for `dDestroy i` are those of `Owns` (`ddOwns`);
* generations   : `genLt`, `slotGenLt` (below the allocation clock), `genInj` (alive slots carry distinct generations);
* destructor log: `logNodup` (each generation at most once), `logLt`, `aliveNotLogged` (the value in an alive slot was not
                  destroyed), `deadLogged` (a control block that no longer `Owns` has its `(id, gen, val)` in the log);
* counting      : `count` (`∃ a b, Owned s a ∧ Transit s.thr b ∧ a + uniques.length + b + free.length = N`;
                  `HandlesProps.pool_partition` re-sorts `dDestroy` from "owned" to "in transit" and gives the permutation).
-/

namespace Mutiny.Handles

/-! ## projection lemmas -/

/-- the control block read at an index outside `cbs` -/
def dflt : CB := { id := 0, rc := 0, live := 0, lent := 0, owed := 0, freed := true, val := 0, gen := 0 }

theorem getCB_eq (s : St) (i : Nat) : getCB s i = s.cbs.getD i dflt := rfl

theorem getCB_of_ge {s : St} {i : Nat} (h : s.cbs.length ≤ i) : getCB s i = dflt := by
  simp [getCB_eq, List.getD_eq_getElem?_getD, List.getElem?_eq_none h]

@[simp, grind =] theorem thr_setThr (s : St) (t u : Nat) (l : Loc) :
    (setThr s t l).thr u = if u = t then l else s.thr u := rfl
@[simp, grind =] theorem N_setThr (s : St) (t : Nat) (l : Loc) : (setThr s t l).N = s.N := rfl
@[simp, grind =] theorem free_setThr (s : St) (t : Nat) (l : Loc) : (setThr s t l).free = s.free := rfl
@[simp, grind =] theorem slot_setThr (s : St) (t : Nat) (l : Loc) : (setThr s t l).slot = s.slot := rfl
@[simp, grind =] theorem alive_setThr (s : St) (t : Nat) (l : Loc) : (setThr s t l).alive = s.alive := rfl
@[simp, grind =] theorem slotGen_setThr (s : St) (t : Nat) (l : Loc) : (setThr s t l).slotGen = s.slotGen := rfl
@[simp, grind =] theorem nextGen_setThr (s : St) (t : Nat) (l : Loc) : (setThr s t l).nextGen = s.nextGen := rfl
@[simp, grind =] theorem cbs_setThr (s : St) (t : Nat) (l : Loc) : (setThr s t l).cbs = s.cbs := rfl
@[simp, grind =] theorem uniques_setThr (s : St) (t : Nat) (l : Loc) : (setThr s t l).uniques = s.uniques := rfl
@[simp, grind =] theorem dropLog_setThr (s : St) (t : Nat) (l : Loc) : (setThr s t l).dropLog = s.dropLog := rfl
@[simp, grind =] theorem getCB_setThr (s : St) (t : Nat) (l : Loc) (i : Nat) : getCB (setThr s t l) i = getCB s i := rfl

@[simp, grind =] theorem thr_updCB (s : St) (i : Nat) (f : CB → CB) : (updCB s i f).thr = s.thr := rfl
@[simp, grind =] theorem N_updCB (s : St) (i : Nat) (f : CB → CB) : (updCB s i f).N = s.N := rfl
@[simp, grind =] theorem free_updCB (s : St) (i : Nat) (f : CB → CB) : (updCB s i f).free = s.free := rfl
@[simp, grind =] theorem slot_updCB (s : St) (i : Nat) (f : CB → CB) : (updCB s i f).slot = s.slot := rfl
@[simp, grind =] theorem alive_updCB (s : St) (i : Nat) (f : CB → CB) : (updCB s i f).alive = s.alive := rfl
@[simp, grind =] theorem slotGen_updCB (s : St) (i : Nat) (f : CB → CB) : (updCB s i f).slotGen = s.slotGen := rfl
@[simp, grind =] theorem nextGen_updCB (s : St) (i : Nat) (f : CB → CB) : (updCB s i f).nextGen = s.nextGen := rfl
@[simp, grind =] theorem uniques_updCB (s : St) (i : Nat) (f : CB → CB) : (updCB s i f).uniques = s.uniques := rfl
@[simp, grind =] theorem dropLog_updCB (s : St) (i : Nat) (f : CB → CB) : (updCB s i f).dropLog = s.dropLog := rfl
@[simp, grind =] theorem length_updCB (s : St) (i : Nat) (f : CB → CB) : (updCB s i f).cbs.length = s.cbs.length := by
  simp [updCB]

theorem getCB_updCB (s : St) (i : Nat) (f : CB → CB) (j : Nat) :
    getCB (updCB s i f) j = if j = i ∧ i < s.cbs.length then f (getCB s i) else getCB s j := by
  simp only [getCB_eq, updCB, List.getD_eq_getElem?_getD, List.getElem?_modify]
  by_cases hj : j = i
  · subst hj
    by_cases hl : j < s.cbs.length
    · simp [hl]
    · simp [hl]
  · have : ¬ i = j := fun h => hj h.symm
    simp [hj, this]

@[simp, grind =] theorem thr_destroy (s : St) (id : Nat) : (destroy s id).thr = s.thr := rfl
@[simp, grind =] theorem N_destroy (s : St) (id : Nat) : (destroy s id).N = s.N := rfl
@[simp, grind =] theorem free_destroy (s : St) (id : Nat) : (destroy s id).free = s.free := rfl
@[simp, grind =] theorem slot_destroy (s : St) (id : Nat) : (destroy s id).slot = s.slot := rfl
@[simp, grind =] theorem alive_destroy (s : St) (id j : Nat) :
    (destroy s id).alive j = if j = id then false else s.alive j := rfl
@[simp, grind =] theorem slotGen_destroy (s : St) (id : Nat) : (destroy s id).slotGen = s.slotGen := rfl
@[simp, grind =] theorem nextGen_destroy (s : St) (id : Nat) : (destroy s id).nextGen = s.nextGen := rfl
@[simp, grind =] theorem cbs_destroy (s : St) (id : Nat) : (destroy s id).cbs = s.cbs := rfl
@[simp, grind =] theorem uniques_destroy (s : St) (id : Nat) : (destroy s id).uniques = s.uniques := rfl
@[simp, grind =] theorem dropLog_destroy (s : St) (id : Nat) :
    (destroy s id).dropLog = s.dropLog ++ [(id, s.slotGen id, s.slot id)] := rfl
@[simp, grind =] theorem getCB_destroy (s : St) (id i : Nat) : getCB (destroy s id) i = getCB s i := rfl

@[simp, grind =] theorem thr_release (s : St) (id : Nat) : (release s id).thr = s.thr := rfl
@[simp, grind =] theorem N_release (s : St) (id : Nat) : (release s id).N = s.N := rfl
@[simp, grind =] theorem free_release (s : St) (id : Nat) : (release s id).free = s.free ++ [id] := rfl
@[simp, grind =] theorem slot_release (s : St) (id : Nat) : (release s id).slot = s.slot := rfl
@[simp, grind =] theorem alive_release (s : St) (id : Nat) : (release s id).alive = s.alive := rfl
@[simp, grind =] theorem slotGen_release (s : St) (id : Nat) : (release s id).slotGen = s.slotGen := rfl
@[simp, grind =] theorem nextGen_release (s : St) (id : Nat) : (release s id).nextGen = s.nextGen := rfl
@[simp, grind =] theorem cbs_release (s : St) (id : Nat) : (release s id).cbs = s.cbs := rfl
@[simp, grind =] theorem uniques_release (s : St) (id : Nat) : (release s id).uniques = s.uniques := rfl
@[simp, grind =] theorem dropLog_release (s : St) (id : Nat) : (release s id).dropLog = s.dropLog := rfl
@[simp, grind =] theorem getCB_release (s : St) (id i : Nat) : getCB (release s id) i = getCB s i := rfl

/-- appending a control block -/
theorem getD_snoc (l : List CB) (c : CB) (j : Nat) :
    (l ++ [c]).getD j dflt = if j = l.length then c else l.getD j dflt := by
  simp only [List.getD_eq_getElem?_getD]
  by_cases h1 : j < l.length
  · rw [List.getElem?_append_left h1]; simp [Nat.ne_of_lt h1]
  · by_cases h2 : j = l.length
    · subst h2; simp
    · have : l.length + 1 ≤ j := by omega
      rw [List.getElem?_eq_none (by simpa using this), List.getElem?_eq_none (by omega)]; simp [h2]


/-! ## named state transformers for the record updates inside `apply` -/

def withUniques (s : St) (u : List Nat) : St := { s with uniques := u }
def pushCB (s : St) (c : CB) : St := { s with cbs := s.cbs ++ [c] }
def allocSt (s : St) (v id : Nat) (rest : List Nat) : St :=
  { s with free := rest,
           slot := fun j => if j = id then v else s.slot j,
           alive := fun j => if j = id then true else s.alive j,
           slotGen := fun j => if j = id then s.nextGen else s.slotGen j,
           nextGen := s.nextGen + 1 }

theorem allocWrite_nil {s : St} (v : Nat) (hf : s.free = []) : allocWrite s v = none := by
  unfold allocWrite; rw [hf]
theorem allocWrite_cons {s : St} (v : Nat) {id : Nat} {rest : List Nat} (hf : s.free = id :: rest) :
    allocWrite s v = some (allocSt s v id rest, id) := by
  unfold allocWrite; rw [hf]; rfl

@[simp, grind =] theorem thr_withUniques (s : St) (u : List Nat) : (withUniques s u).thr = s.thr := rfl
@[simp, grind =] theorem N_withUniques (s : St) (u : List Nat) : (withUniques s u).N = s.N := rfl
@[simp, grind =] theorem free_withUniques (s : St) (u : List Nat) : (withUniques s u).free = s.free := rfl
@[simp, grind =] theorem slot_withUniques (s : St) (u : List Nat) : (withUniques s u).slot = s.slot := rfl
@[simp, grind =] theorem alive_withUniques (s : St) (u : List Nat) : (withUniques s u).alive = s.alive := rfl
@[simp, grind =] theorem slotGen_withUniques (s : St) (u : List Nat) : (withUniques s u).slotGen = s.slotGen := rfl
@[simp, grind =] theorem nextGen_withUniques (s : St) (u : List Nat) : (withUniques s u).nextGen = s.nextGen := rfl
@[simp, grind =] theorem cbs_withUniques (s : St) (u : List Nat) : (withUniques s u).cbs = s.cbs := rfl
@[simp, grind =] theorem uniques_withUniques (s : St) (u : List Nat) : (withUniques s u).uniques = u := rfl
@[simp, grind =] theorem dropLog_withUniques (s : St) (u : List Nat) : (withUniques s u).dropLog = s.dropLog := rfl
@[simp, grind =] theorem getCB_withUniques (s : St) (u : List Nat) (i : Nat) : getCB (withUniques s u) i = getCB s i := rfl

@[simp, grind =] theorem thr_pushCB (s : St) (c : CB) : (pushCB s c).thr = s.thr := rfl
@[simp, grind =] theorem N_pushCB (s : St) (c : CB) : (pushCB s c).N = s.N := rfl
@[simp, grind =] theorem free_pushCB (s : St) (c : CB) : (pushCB s c).free = s.free := rfl
@[simp, grind =] theorem slot_pushCB (s : St) (c : CB) : (pushCB s c).slot = s.slot := rfl
@[simp, grind =] theorem alive_pushCB (s : St) (c : CB) : (pushCB s c).alive = s.alive := rfl
@[simp, grind =] theorem slotGen_pushCB (s : St) (c : CB) : (pushCB s c).slotGen = s.slotGen := rfl
@[simp, grind =] theorem nextGen_pushCB (s : St) (c : CB) : (pushCB s c).nextGen = s.nextGen := rfl
@[simp, grind =] theorem uniques_pushCB (s : St) (c : CB) : (pushCB s c).uniques = s.uniques := rfl
@[simp, grind =] theorem dropLog_pushCB (s : St) (c : CB) : (pushCB s c).dropLog = s.dropLog := rfl
@[simp, grind =] theorem length_pushCB (s : St) (c : CB) : (pushCB s c).cbs.length = s.cbs.length + 1 := by
  simp [pushCB]
theorem getCB_pushCB (s : St) (c : CB) (j : Nat) :
    getCB (pushCB s c) j = if j = s.cbs.length then c else getCB s j := getD_snoc s.cbs c j

@[simp, grind =] theorem thr_allocSt (s : St) (v id : Nat) (r : List Nat) : (allocSt s v id r).thr = s.thr := rfl
@[simp, grind =] theorem N_allocSt (s : St) (v id : Nat) (r : List Nat) : (allocSt s v id r).N = s.N := rfl
@[simp, grind =] theorem free_allocSt (s : St) (v id : Nat) (r : List Nat) : (allocSt s v id r).free = r := rfl
@[simp, grind =] theorem slot_allocSt (s : St) (v id : Nat) (r : List Nat) (j : Nat) :
    (allocSt s v id r).slot j = if j = id then v else s.slot j := rfl
@[simp, grind =] theorem alive_allocSt (s : St) (v id : Nat) (r : List Nat) (j : Nat) :
    (allocSt s v id r).alive j = if j = id then true else s.alive j := rfl
@[simp, grind =] theorem slotGen_allocSt (s : St) (v id : Nat) (r : List Nat) (j : Nat) :
    (allocSt s v id r).slotGen j = if j = id then s.nextGen else s.slotGen j := rfl
@[simp, grind =] theorem nextGen_allocSt (s : St) (v id : Nat) (r : List Nat) :
    (allocSt s v id r).nextGen = s.nextGen + 1 := rfl
@[simp, grind =] theorem cbs_allocSt (s : St) (v id : Nat) (r : List Nat) : (allocSt s v id r).cbs = s.cbs := rfl
@[simp, grind =] theorem uniques_allocSt (s : St) (v id : Nat) (r : List Nat) : (allocSt s v id r).uniques = s.uniques := rfl
@[simp, grind =] theorem dropLog_allocSt (s : St) (v id : Nat) (r : List Nat) : (allocSt s v id r).dropLog = s.dropLog := rfl
@[simp, grind =] theorem getCB_allocSt (s : St) (v id : Nat) (r : List Nat) (i : Nat) :
    getCB (allocSt s v id r) i = getCB s i := rfl

/-! ## the invariant -/

/-- program points at which the thread's call holds (borrowed or consumed) one handle of control block `i` -/
def pointOf : Loc → Option Nat
  | .clone i => some i
  | .inc i _ => some i
  | .dDec i => some i
  | .count i => some i
  | _ => none

/-- program points of the thread that saw the counter of control block `i` reach 0 -/
def tailOf : Loc → Option Nat
  | .dDealloc i => some i
  | .dDestroy i => some i
  | .dRelease i => some i
  | .dFree i => some i
  | _ => none

/-- … of which those where the payload is still intact (the destructor has not run yet) -/
def ownTail : Loc → Option Nat
  | .dDealloc i => some i
  | .dDestroy i => some i
  | _ => none

/-- program points of a thread releasing the slot of a unique handle / raw allocation -/
def uOf : Loc → Option Nat
  | .uDestroy x => some x
  | .uRelease x => some x
  | _ => none

/-- program points whose slot is counted neither under a control block (`Owns`) nor under `uniques` nor under `free` -/
def transLoc : Loc → Bool
  | .dRelease _ => true
  | .uDestroy _ => true
  | .uRelease _ => true
  | _ => false

/-- control block `i` owns its pool slot: the value it was created for is still alive in slot `id`
    (data-only formulation; `HandlesProps.owns_iff` : `rc > 0 ∨ some thread is at dDealloc i / dDestroy i`) -/
def Owns (s : St) (i : Nat) : Prop :=
  i < s.cbs.length ∧ s.alive (getCB s i).id = true ∧ s.slotGen (getCB s i).id = (getCB s i).gen

/-- exactly `n` threads are parked at a point of control block `i` -/
def Parked (thr : Nat → Loc) (i n : Nat) : Prop :=
  ∃ ts : List Nat, ts.Nodup ∧ (∀ t, t ∈ ts ↔ pointOf (thr t) = some i) ∧ ts.length = n

/-- exactly `n` threads hold a slot in transit (`dRelease`, `uDestroy`, `uRelease`) -/
def Transit (thr : Nat → Loc) (n : Nat) : Prop :=
  ∃ ts : List Nat, ts.Nodup ∧ (∀ t, t ∈ ts ↔ transLoc (thr t) = true) ∧ ts.length = n

/-- exactly `n` control blocks own their slot -/
def Owned (s : St) (n : Nat) : Prop :=
  ∃ own : List Nat, own.Nodup ∧ (∀ i, i ∈ own ↔ Owns s i) ∧ own.length = n

structure Inv (s : St) : Prop where
  freeNodup : s.free.Nodup
  freeLt : ∀ x ∈ s.free, x < s.N
  uniqNodup : s.uniques.Nodup
  uniqOk : ∀ u ∈ s.uniques, u < s.N ∧ u ∉ s.free ∧ s.alive u = true
  rcSum : ∀ i, (getCB s i).rc = (getCB s i).live + (getCB s i).lent + (getCB s i).owed
  freedZero : ∀ i, (getCB s i).freed = true → (getCB s i).rc = 0
  rcOwns : ∀ i, (getCB s i).rc > 0 → Owns s i
  ddOwns : ∀ t i, ownTail (s.thr t) = some i → Owns s i
  ownOk : ∀ i, Owns s i → (getCB s i).freed = false ∧ (getCB s i).id < s.N ∧ (getCB s i).id ∉ s.free ∧
            (getCB s i).id ∉ s.uniques ∧ s.slot (getCB s i).id = (getCB s i).val
  ownInj : ∀ i j, Owns s i → Owns s j → (getCB s i).id = (getCB s j).id → i = j
  ownRc : ∀ i, Owns s i → (getCB s i).rc = 0 → ∃ t, ownTail (s.thr t) = some i
  lentCount : ∀ i, Parked s.thr i (getCB s i).lent
  tailOk : ∀ t i, tailOf (s.thr t) = some i → i < s.cbs.length ∧ (getCB s i).freed = false ∧ (getCB s i).rc = 0
  tailUniq : ∀ t u i, tailOf (s.thr t) = some i → tailOf (s.thr u) = some i → t = u
  relOk : ∀ t i, s.thr t = .dRelease i → (getCB s i).id < s.N ∧ (getCB s i).id ∉ s.free ∧
            (getCB s i).id ∉ s.uniques ∧ s.alive (getCB s i).id = false
  uOk : ∀ t x, uOf (s.thr t) = some x → x < s.N ∧ x ∉ s.free ∧ x ∉ s.uniques
  uDesOk : ∀ t x, s.thr t = .uDestroy x → s.alive x = true
  uRelOk : ∀ t x, s.thr t = .uRelease x → s.alive x = false ∧ (x, s.slotGen x, s.slot x) ∈ s.dropLog
  uOwn : ∀ t x i, uOf (s.thr t) = some x → Owns s i → (getCB s i).id ≠ x
  relRel : ∀ t u i j, s.thr t = .dRelease i → s.thr u = .dRelease j → (getCB s i).id = (getCB s j).id → t = u
  relU : ∀ t u i x, s.thr t = .dRelease i → uOf (s.thr u) = some x → (getCB s i).id ≠ x
  uU : ∀ t u x, uOf (s.thr t) = some x → uOf (s.thr u) = some x → t = u
  genLt : ∀ i, i < s.cbs.length → (getCB s i).gen < s.nextGen
  slotGenLt : ∀ j, s.slotGen j < s.nextGen
  genInj : ∀ j k, s.alive j = true → s.alive k = true → s.slotGen j = s.slotGen k → j = k
  logNodup : (s.dropLog.map (·.2.1)).Nodup
  logLt : ∀ e ∈ s.dropLog, e.2.1 < s.nextGen
  aliveNotLogged : ∀ j, s.alive j = true → s.slotGen j ∉ s.dropLog.map (·.2.1)
  deadLogged : ∀ i, i < s.cbs.length → ¬ Owns s i →
                 ((getCB s i).id, (getCB s i).gen, (getCB s i).val) ∈ s.dropLog
  count : ∃ a b, Owned s a ∧ Transit s.thr b ∧ a + s.uniques.length + b + s.free.length = s.N

theorem dflt_rc : dflt.rc = 0 := rfl

theorem nodup_snoc {α : Type} {l : List α} {a : α} : (l ++ [a]).Nodup ↔ l.Nodup ∧ a ∉ l := by
  rw [List.nodup_append]; simp only [List.nodup_cons, List.not_mem_nil, not_false_eq_true, List.nodup_nil, and_self,
    true_and, List.mem_singleton]
  constructor
  · rintro ⟨h1, h2⟩; exact ⟨h1, fun h => h2 a h a rfl rfl⟩
  · rintro ⟨h1, h2⟩; exact ⟨h1, fun x hx b hb e => h2 (hb ▸ e ▸ hx)⟩

theorem Parked.cast {thr : Nat → Loc} {j n m : Nat} (h : Parked thr j n) (e : n = m) : Parked thr j m := e ▸ h

theorem parked_same {s : St} {t j n : Nat} {l : Loc} (h : Parked s.thr j n)
    (h1 : pointOf (s.thr t) ≠ some j) (h2 : pointOf l ≠ some j) : Parked (setThr s t l).thr j n := by
  obtain ⟨ts, hn, hm, hl⟩ := h
  refine ⟨ts, hn, fun u => ?_, hl⟩
  rw [hm u, thr_setThr]
  by_cases hu : u = t
  · subst hu; simp [h1, h2]
  · simp [hu]

theorem parked_add {s : St} {t j n : Nat} {l : Loc} (h : Parked s.thr j n)
    (h1 : pointOf (s.thr t) ≠ some j) (h2 : pointOf l = some j) : Parked (setThr s t l).thr j (n + 1) := by
  obtain ⟨ts, hn, hm, hl⟩ := h
  have hnot : t ∉ ts := fun hmem => h1 ((hm t).1 hmem)
  refine ⟨t :: ts, List.nodup_cons.2 ⟨hnot, hn⟩, fun u => ?_, by simp [hl]⟩
  rw [thr_setThr, List.mem_cons, hm u]
  by_cases hu : u = t
  · subst hu; simp [h2]
  · simp [hu]

theorem parked_remove {s : St} {t j n : Nat} {l : Loc} (h : Parked s.thr j n)
    (h1 : pointOf (s.thr t) = some j) (h2 : pointOf l ≠ some j) : Parked (setThr s t l).thr j (n - 1) := by
  obtain ⟨ts, hn, hm, hl⟩ := h
  have hmem : t ∈ ts := (hm t).2 h1
  refine ⟨ts.erase t, hn.erase t, fun u => ?_, by rw [List.length_erase_of_mem hmem, hl]⟩
  rw [thr_setThr, hn.mem_erase_iff, hm u]
  by_cases hu : u = t
  · subst hu; simp [h2]
  · simp [hu]

theorem transit_same {s : St} {t n : Nat} {l : Loc} (h : Transit s.thr n)
    (h1 : transLoc (s.thr t) = transLoc l) : Transit (setThr s t l).thr n := by
  obtain ⟨ts, hn, hm, hl⟩ := h
  refine ⟨ts, hn, fun u => ?_, hl⟩
  rw [hm u, thr_setThr]
  by_cases hu : u = t
  · subst hu; simp [h1]
  · simp [hu]

theorem transit_add {s : St} {t n : Nat} {l : Loc} (h : Transit s.thr n)
    (h1 : transLoc (s.thr t) = false) (h2 : transLoc l = true) : Transit (setThr s t l).thr (n + 1) := by
  obtain ⟨ts, hn, hm, hl⟩ := h
  have hnot : t ∉ ts := fun hmem => by have := (hm t).1 hmem; rw [h1] at this; cases this
  refine ⟨t :: ts, List.nodup_cons.2 ⟨hnot, hn⟩, fun u => ?_, by simp [hl]⟩
  rw [thr_setThr, List.mem_cons, hm u]
  by_cases hu : u = t
  · subst hu; simp [h2]
  · simp [hu]

theorem transit_remove {s : St} {t n : Nat} {l : Loc} (h : Transit s.thr n)
    (h1 : transLoc (s.thr t) = true) (h2 : transLoc l = false) :
    Transit (setThr s t l).thr (n - 1) ∧ 1 ≤ n := by
  obtain ⟨ts, hn, hm, hl⟩ := h
  have hmem : t ∈ ts := (hm t).2 h1
  refine ⟨⟨ts.erase t, hn.erase t, fun u => ?_, by rw [List.length_erase_of_mem hmem, hl]⟩,
    hl ▸ List.length_pos_of_mem hmem⟩
  rw [thr_setThr, hn.mem_erase_iff, hm u]
  by_cases hu : u = t
  · subst hu; simp [h2]
  · simp [hu]

theorem owned_same {s s' : St} {n : Nat} (h : Owned s n) (hiff : ∀ i, Owns s' i ↔ Owns s i) : Owned s' n := by
  obtain ⟨own, hn, hm, hl⟩ := h
  exact ⟨own, hn, fun i => (hm i).trans (hiff i).symm, hl⟩

theorem owned_add {s s' : St} {n k : Nat} (h : Owned s n) (hk : ¬ Owns s k)
    (hiff : ∀ i, Owns s' i ↔ (Owns s i ∨ i = k)) : Owned s' (n + 1) := by
  obtain ⟨own, hn, hm, hl⟩ := h
  have hnot : k ∉ own := fun hx => hk ((hm k).1 hx)
  refine ⟨own ++ [k], nodup_snoc.2 ⟨hn, hnot⟩, fun i => ?_, by simp [hl]⟩
  rw [List.mem_append, List.mem_singleton, hm i, hiff i]

theorem owned_remove {s s' : St} {n k : Nat} (h : Owned s n) (hk : Owns s k)
    (hiff : ∀ i, Owns s' i ↔ (Owns s i ∧ i ≠ k)) : Owned s' (n - 1) ∧ 1 ≤ n := by
  obtain ⟨own, hn, hm, hl⟩ := h
  have hmem : k ∈ own := (hm k).2 hk
  refine ⟨⟨own.erase k, hn.erase k, fun i => ?_, by rw [List.length_erase_of_mem hmem, hl]⟩,
    hl ▸ List.length_pos_of_mem hmem⟩
  rw [hn.mem_erase_iff, hm i, hiff i, and_comm]

/-- a thread parked at a point of `i` holds one of the lent handles -/
theorem Inv.lent_pos {s : St} (h : Inv s) {t i : Nat} (ht : pointOf (s.thr t) = some i) :
    1 ≤ (getCB s i).lent := by
  obtain ⟨ts, _, hm, hl⟩ := h.lentCount i
  have : t ∈ ts := (hm t).2 ht
  rw [← hl]; exact List.length_pos_of_mem this

theorem Inv.point_lt {s : St} (h : Inv s) {t i : Nat} (ht : pointOf (s.thr t) = some i) :
    i < s.cbs.length ∧ 1 ≤ (getCB s i).rc := by
  have h1 := h.lent_pos ht
  have h2 := h.rcSum i
  have h3 : (getCB s i).rc > 0 := by omega
  exact ⟨(h.rcOwns i h3).1, h3⟩

theorem point_others {l : Loc} {i : Nat} (h : pointOf l = some i) :
    tailOf l = none ∧ ownTail l = none ∧ uOf l = none ∧ transLoc l = false := by
  cases l <;> simp_all [pointOf, tailOf, ownTail, uOf, transLoc]

theorem ownTail_tail {l : Loc} {i : Nat} (h : ownTail l = some i) : tailOf l = some i := by
  cases l <;> simp_all [tailOf, ownTail]

theorem quiet_others {l : Loc} (h1 : tailOf l = none) (h2 : uOf l = none) :
    ownTail l = none ∧ transLoc l = false := by
  cases l <;> simp_all [tailOf, ownTail, uOf, transLoc]

/-- projections of updated states -/
macro "hsimp" : tactic => `(tactic| simp only [lend, Owns, thr_setThr, N_setThr, free_setThr, slot_setThr, alive_setThr,
    slotGen_setThr, nextGen_setThr, cbs_setThr, uniques_setThr, dropLog_setThr, getCB_setThr, thr_updCB, N_updCB,
    free_updCB, slot_updCB, alive_updCB, slotGen_updCB, nextGen_updCB, uniques_updCB, dropLog_updCB, length_updCB,
    getCB_updCB, thr_destroy, N_destroy, free_destroy, slot_destroy, alive_destroy, slotGen_destroy, nextGen_destroy,
    cbs_destroy, uniques_destroy, dropLog_destroy, getCB_destroy, thr_release, N_release, free_release, slot_release,
    alive_release, slotGen_release, nextGen_release, cbs_release, uniques_release, dropLog_release, getCB_release,
    thr_withUniques, N_withUniques, free_withUniques, slot_withUniques, alive_withUniques, slotGen_withUniques,
    nextGen_withUniques, cbs_withUniques, uniques_withUniques, dropLog_withUniques, getCB_withUniques,
    thr_pushCB, N_pushCB, free_pushCB, slot_pushCB, alive_pushCB, slotGen_pushCB, nextGen_pushCB, uniques_pushCB,
    dropLog_pushCB, length_pushCB, getCB_pushCB,
    thr_allocSt, N_allocSt, free_allocSt, slot_allocSt, alive_allocSt, slotGen_allocSt, nextGen_allocSt, cbs_allocSt,
    uniques_allocSt, dropLog_allocSt, getCB_allocSt])

macro "hgrind" : tactic => `(tactic| grind [pointOf, tailOf, ownTail, uOf, transLoc, List.mem_of_mem_erase])

/-- default per-field tactics (`h : Inv s`); `lentCount` and `count` are left to the caller, as is whatever fails -/
macro "hfields" h:term:max : tactic => `(tactic| (
  constructor <;> hsimp
  try (case freeNodup => first | exact Inv.freeNodup $h | (have := Inv.freeNodup $h; grind [nodup_snoc, List.nodup_cons]))
  try (case freeLt => first | exact Inv.freeLt $h | (intro x hx; have := Inv.freeLt $h x; grind))
  try (case uniqNodup => first | exact Inv.uniqNodup $h | (have := Inv.uniqNodup $h; grind [List.Nodup.erase, List.nodup_cons]))
  try (case uniqOk => first | exact Inv.uniqOk $h | (intro u hu; have := Inv.uniqOk $h u; grind [List.Nodup.mem_erase_iff]))
  try (case rcSum => intro j; have := Inv.rcSum $h j; hgrind)
  try (case freedZero => intro j; have := Inv.freedZero $h j; have := Inv.rcSum $h j; hgrind)
  try (case rcOwns => intro j; have := Inv.rcOwns $h j; simp only [Owns] at this; hgrind)
  try (case ddOwns => intro u j; have := Inv.ddOwns $h u j; simp only [Owns] at this; hgrind)
  try (case ownOk => intro j; have := Inv.ownOk $h j; simp only [Owns] at this; hgrind)
  try (case ownInj => intro j k; have := Inv.ownInj $h j k; simp only [Owns] at this; hgrind)
  try (case ownRc => intro j; have := Inv.ownRc $h j; simp only [Owns] at this; hgrind)
  try (case tailOk => intro u j; have := Inv.tailOk $h u j; hgrind)
  try (case tailUniq => intro u w j; have := Inv.tailUniq $h u w j; hgrind)
  try (case relOk => intro u j; have := Inv.relOk $h u j; hgrind)
  try (case uOk => intro u x; have := Inv.uOk $h u x; hgrind)
  try (case uDesOk => intro u x; have := Inv.uDesOk $h u x; hgrind)
  try (case uRelOk => intro u x; have := Inv.uRelOk $h u x; have := Inv.uOk $h u x
                      try simp only [List.mem_append, List.mem_singleton]
                      hgrind)
  try (case uOwn => intro u x j; have := Inv.uOwn $h u x j; simp only [Owns] at this; hgrind)
  try (case relRel => intro u w j k; have := Inv.relRel $h u w j k; hgrind)
  try (case relU => intro u w j x; have := Inv.relU $h u w j x; hgrind)
  try (case uU => intro u w x; have := Inv.uU $h u w x; hgrind)
  try (case genLt => intro j; have := Inv.genLt $h j; hgrind)
  try (case slotGenLt => first | exact Inv.slotGenLt $h | (intro j; have := Inv.slotGenLt $h j; grind))
  try (case genInj => first | exact Inv.genInj $h |
    (intro j k; have := Inv.genInj $h j k; have := Inv.slotGenLt $h j; have := Inv.slotGenLt $h k; grind))
  try (case logNodup => first | exact Inv.logNodup $h |
    (have := Inv.logNodup $h; try simp only [List.map_append, List.map_cons, List.map_nil]
     grind [nodup_snoc]))
  try (case logLt => first | exact Inv.logLt $h | (intro e he; have := Inv.logLt $h e; have := Inv.slotGenLt $h; grind))
  try (case aliveNotLogged => first | exact Inv.aliveNotLogged $h |
    (intro j hj; have := Inv.aliveNotLogged $h j; have := Inv.slotGenLt $h j
     try simp only [List.map_append, List.map_cons, List.map_nil, List.mem_append, List.mem_singleton]
     grind))
  try (case deadLogged => intro j; have := Inv.deadLogged $h j; simp only [Owns] at this
                          try simp only [List.mem_append, List.mem_singleton]
                          hgrind)))

/-- `Owns` is unchanged -/
macro "howns_same" : tactic => `(tactic| (intro j; first | exact Iff.rfl | (simp only [Owns]; hsimp; hgrind)))

/-- `count` when neither ownership nor the set of threads in transit changed -/
macro "hcount_same" h:term:max t:term:max : tactic => `(tactic| (
  refine Exists.elim (Inv.count $h) (fun a ha => Exists.elim ha (fun b hab => ⟨a, b, owned_same hab.1 ?_,
    transit_same (t := $t) hab.2.1 ?_, hab.2.2⟩))
  · howns_same
  · first | rfl | (simp only [lend, thr_updCB, thr_destroy, thr_release, thr_withUniques, thr_pushCB, thr_allocSt, *] <;> rfl)))

theorem inv_lend (s : St) (t i : Nat) (l : Loc) (hl : pointOf l = some i) (htl : tailOf l = none) (h : Inv s)
    (ht : s.thr t = .idle) (hu : usable s i = true) : Inv (setThr (lend s i) t l) := by
  simp only [usable, Bool.and_eq_true, decide_eq_true_eq] at hu
  obtain ⟨hlen, hlive⟩ := hu
  obtain ⟨-, hl2, hl3, hl4⟩ := point_others hl
  hfields h
  case lentCount =>
    intro j
    by_cases hj : j = i
    · subst hj; simp only [hlen, and_self, if_true]
      exact parked_add (h.lentCount j) (by simp [ht, pointOf]) hl
    · simp only [hj, false_and, if_false]
      exact parked_same (h.lentCount j) (by simp [ht, pointOf]) (by simp [hl]; omega)
  case count => hcount_same h t


/-- a thread moves between points that hold nothing -/
theorem inv_setThr (s : St) (t : Nat) (l : Loc) (h : Inv s) (h1 : pointOf (s.thr t) = none)
    (h2 : tailOf (s.thr t) = none) (h3 : pointOf l = none) (h4 : tailOf l = none)
    (h5 : uOf (s.thr t) = none) (h6 : uOf l = none) : Inv (setThr s t l) := by
  obtain ⟨h7, h8⟩ := quiet_others h2 h5
  obtain ⟨h9, h10⟩ := quiet_others h4 h6
  hfields h
  case lentCount => intro j; exact parked_same (h.lentCount j) (by simp [h1]) (by simp [h3])
  case count => hcount_same h t

theorem inv_rawCopy (s : St) (t i : Nat) (h : Inv s) (ht : s.thr t = .idle) (hlen : i < s.cbs.length)
    (ho : (getCB s i).owed > 0) :
    Inv (setThr (updCB s i fun c => { c with owed := c.owed - 1, live := c.live + 1 }) t (.done (.arc i))) := by
  hfields h
  case lentCount =>
    intro j
    have : (if j = i ∧ i < s.cbs.length then
        { (getCB s i) with owed := (getCB s i).owed - 1, live := (getCB s i).live + 1 } else getCB s j).lent
        = (getCB s j).lent := by grind
    rw [this]
    exact parked_same (h.lentCount j) (by simp [ht, pointOf]) (by simp [pointOf])
  case count => hcount_same h t

theorem inv_step_clone (s : St) (t i : Nat) (h : Inv s) (ht : s.thr t = .clone i) : Inv (step s t) := by
  have me := h.point_lt (t := t) (i := i) (by simp [ht, pointOf])
  have me2 := h.lent_pos (t := t) (i := i) (by simp [ht, pointOf])
  simp only [step, ht]
  hfields h
  case lentCount =>
    intro j
    by_cases hj : j = i
    · subst hj; simp only [me.1, and_self, if_true]
      exact parked_remove (h.lentCount j) (by simp [ht, pointOf]) (by simp [pointOf])
    · simp only [hj, false_and, if_false]
      exact parked_same (h.lentCount j) (by simp [ht, pointOf]; omega) (by simp [pointOf])
  case count => hcount_same h t


theorem inv_step_inc (s : St) (t i k : Nat) (h : Inv s) (ht : s.thr t = .inc i k) : Inv (step s t) := by
  have me := h.point_lt (t := t) (i := i) (by simp [ht, pointOf])
  have me2 := h.lent_pos (t := t) (i := i) (by simp [ht, pointOf])
  simp only [step, ht]
  hfields h
  case lentCount =>
    intro j
    by_cases hj : j = i
    · subst hj; simp only [me.1, and_self, if_true]
      exact parked_remove (h.lentCount j) (by simp [ht, pointOf]) (by simp [pointOf])
    · simp only [hj, false_and, if_false]
      exact parked_same (h.lentCount j) (by simp [ht, pointOf]; omega) (by simp [pointOf])
  case count => hcount_same h t

theorem inv_step_count (s : St) (t i : Nat) (h : Inv s) (ht : s.thr t = .count i) : Inv (step s t) := by
  have me := h.point_lt (t := t) (i := i) (by simp [ht, pointOf])
  have me2 := h.lent_pos (t := t) (i := i) (by simp [ht, pointOf])
  simp only [step, ht]
  hfields h
  case lentCount =>
    intro j
    by_cases hj : j = i
    · subst hj; simp only [me.1, and_self, if_true]
      exact parked_remove (h.lentCount j) (by simp [ht, pointOf]) (by simp [pointOf])
    · simp only [hj, false_and, if_false]
      exact parked_same (h.lentCount j) (by simp [ht, pointOf]; omega) (by simp [pointOf])
  case count => hcount_same h t

theorem inv_step_dDec (s : St) (t i : Nat) (h : Inv s) (ht : s.thr t = .dDec i) : Inv (step s t) := by
  have me := h.point_lt (t := t) (i := i) (by simp [ht, pointOf])
  have me2 := h.lent_pos (t := t) (i := i) (by simp [ht, pointOf])
  have me3 := h.rcSum i
  have me4 := h.rcOwns i (by omega)
  have me5 := fun u => h.tailOk u i
  have me6 := h.freedZero i
  simp only [Owns] at me4
  simp only [step, ht]
  split
  · hfields h
    case lentCount =>
      intro j
      by_cases hj : j = i
      · subst hj; simp only [me.1, and_self, if_true]
        exact parked_remove (h.lentCount j) (by simp [ht, pointOf]) (by simp [pointOf])
      · simp only [hj, false_and, if_false]
        exact parked_same (h.lentCount j) (by simp [ht, pointOf]; omega) (by simp [pointOf])
    case count => hcount_same h t
  · hfields h
    case lentCount =>
      intro j
      by_cases hj : j = i
      · subst hj; simp only [me.1, and_self, if_true]
        exact parked_remove (h.lentCount j) (by simp [ht, pointOf]) (by simp [pointOf])
      · simp only [hj, false_and, if_false]
        exact parked_same (h.lentCount j) (by simp [ht, pointOf]; omega) (by simp [pointOf])
    case count => hcount_same h t


theorem inv_step_dFree (s : St) (t i : Nat) (h : Inv s) (ht : s.thr t = .dFree i) : Inv (step s t) := by
  have me := h.tailOk t i (by simp [ht, tailOf])
  have me2 := fun u => h.tailUniq t u i (by simp [ht, tailOf])
  have me3 := h.rcSum i
  have me4 : ¬ Owns s i := by
    intro ho
    obtain ⟨u, hu⟩ := h.ownRc i ho me.2.2
    have := me2 u (ownTail_tail hu)
    subst this
    simp [ht, ownTail] at hu
  simp only [Owns] at me4
  simp only [step, ht]
  hfields h
  case lentCount =>
    intro j
    exact (parked_same (h.lentCount j) (by simp [ht, pointOf]) (by simp [pointOf])).cast (by grind)
  case count => hcount_same h t

/-- `oa.drop.dealloc`: pure control step into `dealloc_id` -/
theorem inv_step_dDealloc (s : St) (t i : Nat) (h : Inv s) (ht : s.thr t = .dDealloc i) : Inv (step s t) := by
  simp only [step, ht]
  hfields h
  case lentCount => intro j; exact parked_same (h.lentCount j) (by simp [ht, pointOf]) (by simp [pointOf])
  case count => hcount_same h t

/-- `pa.dealloc.drop` on behalf of a control block: the destructor runs, the slot goes in transit -/
theorem inv_step_dDestroy (s : St) (t i : Nat) (h : Inv s) (ht : s.thr t = .dDestroy i) : Inv (step s t) := by
  have me := h.tailOk t i (by simp [ht, tailOf])
  have me2 := fun u => h.tailUniq t u i (by simp [ht, tailOf])
  have me3 := h.ddOwns t i (by simp [ht, ownTail])
  have me4 := h.ownOk i me3
  have me5 := fun j => h.ownInj i j me3
  have me6 := h.aliveNotLogged (getCB s i).id me3.2.1
  have me7 := fun j => h.genInj j (getCB s i).id
  have me8 := fun u x => h.uOwn u x i
  have me9 := fun u j => h.relOk u j
  have me10 := fun u x => h.uDesOk u x
  have me11 : ∀ u, ownTail (s.thr u) = some i → t = u := fun u hu => me2 u (ownTail_tail hu)
  have hown := me3
  simp only [Owns] at me3 me5 me8
  simp only [step, ht]
  hfields h
  case lentCount => intro j; exact parked_same (h.lentCount j) (by simp [ht, pointOf]) (by simp [pointOf])
  case count =>
    obtain ⟨a, b, ho, htr, hc⟩ := h.count
    obtain ⟨ho', ha⟩ := owned_remove (s' := setThr (destroy s (getCB s i).id) t (.dRelease i)) (k := i) ho hown
      (by intro j; simp only [Owns]; hsimp; hgrind)
    exact ⟨a - 1, b + 1, ho', transit_add (t := t) htr (by simp [ht, transLoc]) rfl, by omega⟩

/-- `pa.dealloc.free` on behalf of a control block: the slot id goes back to the free list -/
theorem inv_step_dRelease (s : St) (t i : Nat) (h : Inv s) (ht : s.thr t = .dRelease i) : Inv (step s t) := by
  have me := h.tailOk t i (by simp [ht, tailOf])
  have me2 := fun u => h.tailUniq t u i (by simp [ht, tailOf])
  have me3 := h.relOk t i ht
  have me4 := fun u j => h.relRel t u i j ht
  have me5 := fun u x => h.relU t u i x ht
  have me6 := fun j hj => (h.ownOk j hj)
  have me7 := fun u hu => (h.uniqOk u hu)
  simp only [Owns] at me6
  simp only [step, ht]
  hfields h
  case lentCount => intro j; exact parked_same (h.lentCount j) (by simp [ht, pointOf]) (by simp [pointOf])
  case count =>
    obtain ⟨a, b, ho, htr, hc⟩ := h.count
    obtain ⟨htr', hb⟩ := transit_remove (t := t) (l := .dFree i) htr (by simp [ht, transLoc]) rfl
    exact ⟨a, b - 1, owned_same ho (by howns_same), htr', by simp only [List.length_append, List.length_cons, List.length_nil]; omega⟩

/-- `pa.dealloc.drop` of a unique handle's slot -/
theorem inv_step_uDestroy (s : St) (t x : Nat) (h : Inv s) (ht : s.thr t = .uDestroy x) : Inv (step s t) := by
  have me := h.uOk t x (by simp [ht, uOf])
  have me2 := fun u => h.uU t u x (by simp [ht, uOf])
  have me3 := h.uDesOk t x ht
  have me4 := fun j => h.uOwn t x j (by simp [ht, uOf])
  have me6 := h.aliveNotLogged x me3
  have me7 := fun j => h.genInj j x
  have me8 := fun u j hu => h.relU u t j x hu (by simp [ht, uOf])
  simp only [Owns] at me4
  simp only [step, ht]
  hfields h
  case lentCount => intro j; exact parked_same (h.lentCount j) (by simp [ht, pointOf]) (by simp [pointOf])
  case count => hcount_same h t

/-- `pa.dealloc.free` of a unique handle's slot -/
theorem inv_step_uRelease (s : St) (t x : Nat) (h : Inv s) (ht : s.thr t = .uRelease x) : Inv (step s t) := by
  have me := h.uOk t x (by simp [ht, uOf])
  have me2 := fun u => h.uU t u x (by simp [ht, uOf])
  have me3 := h.uRelOk t x ht
  have me4 := fun j => h.uOwn t x j (by simp [ht, uOf])
  have me8 := fun u j hu => h.relU u t j x hu (by simp [ht, uOf])
  simp only [Owns] at me4
  simp only [step, ht]
  hfields h
  case lentCount => intro j; exact parked_same (h.lentCount j) (by simp [ht, pointOf]) (by simp [pointOf])
  case count =>
    obtain ⟨a, b, ho, htr, hc⟩ := h.count
    obtain ⟨htr', hb⟩ := transit_remove (t := t) (l := .done .unit) htr (by simp [ht, transLoc]) rfl
    exact ⟨a, b - 1, owned_same ho (by howns_same), htr', by simp only [List.length_append, List.length_cons, List.length_nil]; omega⟩

/-- `drop(OgreUnique)` / raw `dealloc`: the caller gives the slot up and enters `dealloc_id` -/
theorem inv_dropUnique (s : St) (t id : Nat) (h : Inv s) (ht : s.thr t = .idle) (hm : id ∈ s.uniques) :
    Inv (setThr (withUniques s (s.uniques.erase id)) t (.uDestroy id)) := by
  have me := h.uniqOk id hm
  have me2 := h.uniqNodup
  have me5 := fun j hj => (h.ownOk j hj).2.2.2.1
  have me6 := fun u j hu => (h.relOk u j hu).2.2.1
  have me7 := fun u x hu => (h.uOk u x hu).2.2
  simp only [Owns] at me5
  hfields h
  case lentCount => intro j; exact parked_same (h.lentCount j) (by simp [ht, pointOf]) (by simp [pointOf])
  case count =>
    obtain ⟨a, b, ho, htr, hc⟩ := h.count
    refine ⟨a, b + 1, owned_same ho (by howns_same), transit_add (t := t) htr (by simp [ht, transLoc]) rfl, ?_⟩
    rw [List.length_erase_of_mem hm]; have := List.length_pos_of_mem hm; omega

theorem inv_intoArc (s : St) (t id : Nat) (h : Inv s) (ht : s.thr t = .idle) (hm : id ∈ s.uniques) :
    Inv (setThr (pushCB (withUniques s (s.uniques.erase id))
      { id := id, rc := 1, live := 1, lent := 0, owed := 0, freed := false, val := s.slot id, gen := s.slotGen id })
      t (.done (.arc s.cbs.length))) := by
  have me := h.uniqOk id hm
  have me2 := h.uniqNodup
  have me4 := h.slotGenLt id
  have me5 := fun j hj => (h.ownOk j hj).2.2.2.1
  have me6 : getCB s s.cbs.length = dflt := getCB_of_ge (Nat.le_refl _)
  have me7 := fun u x hu => (h.uOk u x hu).2.2
  have me8 : ¬ Owns s s.cbs.length := fun hx => Nat.lt_irrefl _ hx.1
  have me9 : ∀ u j, s.thr u = .dRelease j → j < s.cbs.length := fun u j hu => (h.tailOk u j (by simp [hu, tailOf])).1
  simp only [Owns] at me5
  hfields h
  case lentCount =>
    intro j
    exact (parked_same (h.lentCount j) (by simp [ht, pointOf]) (by simp [pointOf])).cast (by grind [dflt])
  case count =>
    obtain ⟨a, b, ho, htr, hc⟩ := h.count
    refine ⟨a + 1, b, owned_add (k := s.cbs.length) ho me8 ?_, transit_same (t := t) htr (by simp [ht, transLoc]), ?_⟩
    · intro j; simp only [Owns]; hsimp; hgrind
    · rw [List.length_erase_of_mem hm]; have := List.length_pos_of_mem hm; omega

theorem inv_newUnique (s : St) (t v id : Nat) (rest : List Nat) (h : Inv s) (ht : s.thr t = .idle)
    (hf : s.free = id :: rest) :
    Inv (setThr (withUniques (allocSt s v id rest) (id :: s.uniques)) t (.done (.unique id))) := by
  have me := h.freeNodup
  have me1 := h.freeLt id
  have me2 := fun u hu => (h.uniqOk u hu).2.1
  have me3 := fun j hj => (h.ownOk j hj).2.2.1
  have me4 := h.genLt
  have me5 := h.logLt
  have me7 : s.nextGen ∉ s.dropLog.map (·.2.1) := by
    intro hx; obtain ⟨e, he, hee⟩ := List.mem_map.1 hx; have := h.logLt e he; omega
  have me8 := fun u j hu => (h.relOk u j hu).2.1
  have me9 := fun u x hu => (h.uOk u x hu).2.1
  simp only [Owns] at me3
  rw [hf] at me me1 me2 me3 me8 me9
  hfields h
  case lentCount => intro j; exact parked_same (h.lentCount j) (by simp [ht, pointOf]) (by simp [pointOf])
  case count =>
    obtain ⟨a, b, ho, htr, hc⟩ := h.count
    refine ⟨a, b, owned_same ho ?_, transit_same (t := t) htr (by simp [ht, transLoc]), ?_⟩
    · intro j; simp only [Owns]; hsimp; hgrind
    · rw [hf] at hc; simp only [List.length_cons] at hc ⊢; omega

theorem inv_newArc (s : St) (t v k id : Nat) (rest : List Nat) (h : Inv s) (ht : s.thr t = .idle) (hk : k > 0)
    (hf : s.free = id :: rest) :
    Inv (setThr (pushCB (allocSt s v id rest)
      { id := id, rc := k, live := k, lent := 0, owed := 0, freed := false, val := v, gen := s.nextGen })
      t (.done (.arc s.cbs.length))) := by
  have me := h.freeNodup
  have me1 := h.freeLt id
  have me2 := fun u hu => (h.uniqOk u hu).2.1
  have me3 := fun j hj => (h.ownOk j hj).2.2.1
  have me4 := h.genLt
  have me5 := h.logLt
  have me7 : s.nextGen ∉ s.dropLog.map (·.2.1) := by
    intro hx; obtain ⟨e, he, hee⟩ := List.mem_map.1 hx; have := h.logLt e he; omega
  have me6 : getCB s s.cbs.length = dflt := getCB_of_ge (Nat.le_refl _)
  have me8 := fun u j hu => (h.relOk u j hu).2.1
  have me9 := fun u x hu => (h.uOk u x hu).2.1
  have me10 : ¬ Owns s s.cbs.length := fun hx => Nat.lt_irrefl _ hx.1
  have me11 : ∀ u j, s.thr u = .dRelease j → j < s.cbs.length := fun u j hu => (h.tailOk u j (by simp [hu, tailOf])).1
  simp only [Owns] at me3
  rw [hf] at me me1 me2 me3 me8 me9
  hfields h
  case lentCount =>
    intro j
    exact (parked_same (h.lentCount j) (by simp [ht, pointOf]) (by simp [pointOf])).cast (by grind [dflt])
  case count =>
    obtain ⟨a, b, ho, htr, hc⟩ := h.count
    refine ⟨a + 1, b, owned_add (k := s.cbs.length) ho me10 ?_, transit_same (t := t) htr (by simp [ht, transLoc]), ?_⟩
    · intro j; simp only [Owns]; hsimp; hgrind
    · rw [hf] at hc; simp only [List.length_cons] at hc; omega

/-! ## assembling -/

theorem getCB_init (n i : Nat) : getCB (init n) i = dflt := getCB_of_ge (Nat.zero_le _)

theorem inv_init (n : Nat) : Inv (init n) := by
  constructor <;> (try simp only [getCB_init, Owns])
  case freeNodup => exact List.nodup_range
  case freeLt => intro x hx; exact List.mem_range.1 hx
  case uniqNodup => exact List.nodup_nil
  case uniqOk => intro u hu; cases hu
  case rcSum => intro i; rfl
  case freedZero => intro i _; rfl
  case rcOwns => intro i hi; exact absurd hi (by decide)
  case ddOwns => intro t i hi; simp [init, ownTail] at hi
  case ownOk => intro i hi; exact absurd hi.1 (Nat.not_lt_zero _)
  case ownInj => intro i j hi; exact absurd hi.1 (Nat.not_lt_zero _)
  case ownRc => intro i hi; exact absurd hi.1 (Nat.not_lt_zero _)
  case lentCount => intro i; exact ⟨[], List.nodup_nil, fun t => by simp [init, pointOf], rfl⟩
  case tailOk => intro t i hi; simp [init, tailOf] at hi
  case tailUniq => intro t u i hi; simp [init, tailOf] at hi
  case relOk => intro t i hi; cases hi
  case uOk => intro t x hi; simp [init, uOf] at hi
  case uDesOk => intro t x hi; cases hi
  case uRelOk => intro t x hi; cases hi
  case uOwn => intro t x i hi; simp [init, uOf] at hi
  case relRel => intro t u i j hi; cases hi
  case relU => intro t u i x hi; cases hi
  case uU => intro t u x hi; simp [init, uOf] at hi
  case genLt => intro i hi; exact absurd hi (Nat.not_lt_zero _)
  case slotGenLt => intro j; exact Nat.zero_lt_one
  case genInj => intro j k hj; cases hj
  case logNodup => exact List.nodup_nil
  case logLt => intro e he; cases he
  case aliveNotLogged => intro j hj; cases hj
  case deadLogged => intro i hi; exact absurd hi (Nat.not_lt_zero _)
  case count =>
    exact ⟨0, 0, ⟨[], List.nodup_nil, fun i => by simp [init, Owns], rfl⟩,
      ⟨[], List.nodup_nil, fun t => by simp [init, transLoc], rfl⟩, by simp [init]⟩

theorem inv_step (s : St) (t : Nat) (h : Inv s) : Inv (step s t) := by
  cases ht : s.thr t with
  | idle => simp only [step, ht]; exact h
  | done r => simp only [step, ht]; exact h
  | clone i => exact inv_step_clone s t i h ht
  | inc i k => exact inv_step_inc s t i k h ht
  | dDec i => exact inv_step_dDec s t i h ht
  | dDealloc i => exact inv_step_dDealloc s t i h ht
  | dDestroy i => exact inv_step_dDestroy s t i h ht
  | dRelease i => exact inv_step_dRelease s t i h ht
  | uDestroy x => exact inv_step_uDestroy s t x h ht
  | uRelease x => exact inv_step_uRelease s t x h ht
  | dFree i => exact inv_step_dFree s t i h ht
  | count i => exact inv_step_count s t i h ht

theorem inv_apply (s : St) (a : Act) (h : Inv s) : Inv (apply s a) := by
  cases a with
  | newArc t v k =>
    simp only [apply]
    split
    · next hc =>
      cases hf : s.free with
      | nil =>
        rw [allocWrite_nil v hf]
        exact inv_setThr s t _ h (by simp [hc.1, pointOf]) (by simp [hc.1, tailOf]) rfl rfl (by simp [hc.1, uOf]) rfl
      | cons id rest =>
        rw [allocWrite_cons v hf]
        exact inv_newArc s t v k id rest h hc.1 hc.2 hf
    · exact h
  | clone t i =>
    simp only [apply]
    split
    · next hc => exact inv_lend s t i _ rfl rfl h hc.1 hc.2
    · exact h
  | incRefs t i k =>
    simp only [apply]
    split
    · next hc => exact inv_lend s t i _ rfl rfl h hc.1 hc.2
    · exact h
  | rawCopy t i =>
    simp only [apply]
    split
    · next hc => exact inv_rawCopy s t i h hc.1 hc.2.1 hc.2.2
    · exact h
  | dropArc t i =>
    simp only [apply]
    split
    · next hc => exact inv_lend s t i _ rfl rfl h hc.1 hc.2
    · exact h
  | count t i =>
    simp only [apply]
    split
    · next hc => exact inv_lend s t i _ rfl rfl h hc.1 hc.2
    · exact h
  | deref t i =>
    simp only [apply]
    split
    · next hc => exact inv_setThr s t _ h (by simp [hc.1, pointOf]) (by simp [hc.1, tailOf]) rfl rfl (by simp [hc.1, uOf]) rfl
    · exact h
  | newUnique t v =>
    simp only [apply]
    split
    · next hc =>
      cases hf : s.free with
      | nil =>
        rw [allocWrite_nil v hf]
        exact inv_setThr s t _ h (by simp [hc, pointOf]) (by simp [hc, tailOf]) rfl rfl (by simp [hc, uOf]) rfl
      | cons id rest =>
        rw [allocWrite_cons v hf]
        exact inv_newUnique s t v id rest h hc hf
    · exact h
  | dropUnique t id =>
    simp only [apply]
    split
    · next hc => exact inv_dropUnique s t id h hc.1 hc.2
    · exact h
  | derefUnique t id =>
    simp only [apply]
    split
    · next hc => exact inv_setThr s t _ h (by simp [hc.1, pointOf]) (by simp [hc.1, tailOf]) rfl rfl (by simp [hc.1, uOf]) rfl
    · exact h
  | intoArc t id =>
    simp only [apply]
    split
    · next hc => exact inv_intoArc s t id h hc.1 hc.2
    · exact h
  | step t => exact inv_step s t h
  | ack t =>
    simp only [apply]
    split
    · next r hr => exact inv_setThr s t _ h (by simp [hr, pointOf]) (by simp [hr, tailOf]) rfl rfl (by simp [hr, uOf]) rfl
    · exact h

theorem inv_run (s : St) (as : List Act) (h : Inv s) : Inv (run s as) := by
  induction as generalizing s with
  | nil => exact h
  | cons a as ih => exact ih (apply s a) (inv_apply s a h)

theorem reachable_inv {n : Nat} {s : St} (h : Reachable n s) : Inv s := by
  obtain ⟨as, rfl⟩ := h
  exact inv_run _ as (inv_init n)

#print axioms reachable_inv

end Mutiny.Handles
