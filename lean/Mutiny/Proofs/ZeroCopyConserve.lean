import Mutiny.Proofs.ZeroCopyTok
import Mutiny.Proofs.Pigeon

/-!
# M4 `ZeroCopy`: slot conservation — every pool slot is in exactly one place (free list, queue, or one thread's hands)
-/

namespace Mutiny.ZeroCopy
open Mutiny

/-- the pool slot a thread holds outside the two rings -/
def held : ZLoc → Nat → Prop
  | .ePub _ id, k => id = k
  | .dLen id, k => id = k
  | .dLenH id, k => id = k
  | .dDrop id _, k => id = k
  | .dFreeHook id _, k => id = k
  | .dFree id _, k => id = k
  | _, _ => False

/-- which ring a thread is working on in each phase, and at what kind of program point -/
def phaseOk : ZLoc → Ring.Loc → Ring.Loc → Prop
  | .eAlloc _, f, q => ConsLoc f ∧ q = .idle
  | .ePub _ id, f, q => f = .idle ∧ ProdLoc id q
  | .ePubLen _, f, q => f = .idle ∧ ∃ sid, q = .pLen sid
  | .dCons, f, q => f = .idle ∧ ConsLoc q
  | .dFree id _, f, q => ProdLoc id f ∧ q = .idle
  | .dFreeLen _, f, q => (∃ sid, f = .pLen sid) ∧ q = .idle
  | _, f, q => f = .idle ∧ q = .idle

structure ZInv (s : St) : Prop where
  nF : s.free.N = s.N
  nQ : s.q.N = s.N
  fInv : Ring.Inv s.free
  qInv : Ring.Inv s.q
  phase : ∀ t, phaseOk (s.thr t) (s.free.thr t) (s.q.thr t)
  tok : Tok (Ring.abs s.free ++ Ring.abs s.q) (fun t id => held (s.thr t) id) s.N

/-! ## ring-level helpers -/

theorem ring_ack_thr (s : Ring.St) (t : Nat) (r : Ring.Res) (h : s.thr t = .done r) : (Ring.apply s (.ack t)).thr t = .idle := by
  simp [Ring.apply, h]
theorem ring_send_thr (s : Ring.St) (t v : Nat) (h : s.thr t = .idle) : (Ring.apply s (.send t v)).thr t = .pFetch v false := by
  simp [Ring.apply, h]
theorem ring_recv_thr (s : Ring.St) (t : Nat) (h : s.thr t = .idle) : (Ring.apply s (.recv t)).thr t = .cFetch := by
  simp [Ring.apply, h]
theorem ring_abs_apply (s : Ring.St) (a : Ring.Act) (h : ∀ t, a ≠ .step t) : Ring.abs (Ring.apply s a) = Ring.abs s := by
  have := Ring.apply_frame s a h
  exact Ring.abs_congr this.2.2.2.2.1 this.1
theorem ring_other (s : Ring.St) (a : Ring.Act) (u : Nat) (h : u ≠ a.thread) : (Ring.apply s a).thr u = s.thr u :=
  Ring.apply_thr_ne s a u h

theorem consLoc_noCan {l : Ring.Loc} (h : ConsLoc l) : ∀ id idx g, l ≠ .rCan id idx g := by
  intro id idx g e; subst e; exact h
theorem prodLoc_noCan {v : Nat} {l : Ring.Loc} (h : ProdLoc v l) : ∀ id idx g, l ≠ .rCan id idx g := by
  intro id idx g e; subst e; exact h

theorem phase_noCan (s : St) (h : ∀ t, phaseOk (s.thr t) (s.free.thr t) (s.q.thr t)) : Ring.NoCan s.free ∧ Ring.NoCan s.q := by
  constructor <;> intro t id idx g e <;> have := h t <;> cases hz : s.thr t <;> simp only [hz, phaseOk] at this
  all_goals first
    | (rw [this.1] at e; cases e)
    | (rw [this.2] at e; cases e)
    | exact consLoc_noCan this.1 _ _ _ e
    | exact consLoc_noCan this.2 _ _ _ e
    | exact prodLoc_noCan this.1 _ _ _ e
    | exact prodLoc_noCan this.2 _ _ _ e
    | (obtain ⟨sid, hs⟩ := this.1; rw [hs] at e; cases e)
    | (obtain ⟨sid, hs⟩ := this.2; rw [hs] at e; cases e)

/-- Ring invariant after `step t` then any further non-step actions -/
theorem inv_step_then (s : Ring.St) (t : Nat) (h : Ring.Inv s) (hn : Ring.NoCan s) : Ring.Inv (Ring.step s t) :=
  Ring.inv_apply s (.step t) h (Ring.canExact_of_noCan hn _)
theorem inv_nonstep (s : Ring.St) (a : Ring.Act) (h : Ring.Inv s) (ha : ∀ t, a ≠ .step t) : Ring.Inv (Ring.apply s a) :=
  Ring.inv_apply s a h (Ring.canExact_of_not_step ha)


/-! ## preservation -/

theorem zinv_of (s s' : St) (t : Nat) (h : ZInv s) (hN : s'.N = s.N) (hnF : s'.free.N = s.free.N) (hnQ : s'.q.N = s.q.N)
    (hfI : Ring.Inv s'.free) (hqI : Ring.Inv s'.q)
    (hoth : ∀ u, u ≠ t → s'.thr u = s.thr u ∧ s'.free.thr u = s.free.thr u ∧ s'.q.thr u = s.q.thr u)
    (hpt : phaseOk (s'.thr t) (s'.free.thr t) (s'.q.thr t))
    (htok : Tok (Ring.abs s'.free ++ Ring.abs s'.q) (fun u id => held (s'.thr u) id) s.N) : ZInv s' := by
  refine ⟨by rw [hnF, h.nF, hN], by rw [hnQ, h.nQ, hN], hfI, hqI, ?_, by rw [hN]; exact htok⟩
  intro u
  by_cases hu : u = t
  · subst hu; exact hpt
  · obtain ⟨a, b, c⟩ := hoth u hu
    rw [a, b, c]; exact h.phase u

@[simp] theorem thr_setThr (s : St) (t u : Nat) (l : ZLoc) : (setThr s t l).thr u = if u = t then l else s.thr u := rfl
@[simp] theorem free_setThr (s : St) (t : Nat) (l : ZLoc) : (setThr s t l).free = s.free := rfl
@[simp] theorem q_setThr (s : St) (t : Nat) (l : ZLoc) : (setThr s t l).q = s.q := rfl
@[simp] theorem N_setThr (s : St) (t : Nat) (l : ZLoc) : (setThr s t l).N = s.N := rfl

/-- holdings after thread `t` changed its phase: everybody else holds what it held -/
theorem held_cases (s s' : St) (t : Nat) (hoth : ∀ u, u ≠ t → s'.thr u = s.thr u) (u x : Nat) (hx : held (s'.thr u) x) :
    (u ≠ t ∧ held (s.thr u) x) ∨ (u = t ∧ held (s'.thr t) x) := by
  by_cases hu : u = t
  · subst hu; exact Or.inr ⟨rfl, hx⟩
  · rw [hoth u hu] at hx; exact Or.inl ⟨hu, hx⟩

theorem zinv_step_eAlloc (s : St) (t v : Nat) (h : ZInv s) (hz : s.thr t = .eAlloc v) : ZInv (step s t) := by
  have hnc := phase_noCan s h.phase
  have hph := h.phase t
  simp only [hz, phaseOk] at hph
  have hfI := inv_step_then s.free t h.fInv hnc.1
  have hnone : ∀ x, ¬ held (s.thr t) x := by intro x; simp [hz, held]
  rcases consumer_step s.free t h.fInv hph.1 with ⟨id, hd, ha⟩ | ⟨hd, ha⟩ | ⟨hc, ha⟩
  · -- allocated `id`
    simp only [step, hz, hd]
    apply zinv_of s _ t h
    · rfl
    · simp [Ring.apply_N, Ring.step_N]
    · simp [Ring.apply_N]
    · exact inv_nonstep _ (.ack t) hfI (by intro u e; cases e)
    · exact inv_nonstep _ (.send t id) h.qInv (by intro u e; cases e)
    · intro u hu
      refine ⟨by simp [hu], ?_, ?_⟩
      · simp only [free_setThr]; rw [ring_other _ _ u (by simpa [Ring.Act.thread] using hu), Ring.step_thr_ne _ _ _ hu]
      · simp only [q_setThr]; rw [ring_other _ _ u (by simpa [Ring.Act.thread] using hu)]
    · simp only [thr_setThr, if_true, free_setThr, q_setThr, phaseOk]
      exact ⟨ring_ack_thr _ t _ hd, by rw [ring_send_thr _ t id hph.2]; simp [ProdLoc]⟩
    · simp only [free_setThr, q_setThr]
      rw [ring_abs_apply _ _ (by intro u e; cases e), ring_abs_apply _ _ (by intro u e; cases e)]
      refine h.tok.take t id (by rw [ha]; exact List.Perm.refl _) ?_ hnone
      intro u x hx
      rcases held_cases s _ t (fun u hu => by simp [hu]) u x hx with ⟨hu, hx⟩ | ⟨hu, hx⟩
      · exact Or.inl hx
      · right; refine ⟨hu, ?_⟩
        have : id = x := by simpa [held] using hx
        exact this.symm
  · -- pool exhausted
    simp only [step, hz, hd]
    apply zinv_of s _ t h
    · rfl
    · simp [Ring.apply_N, Ring.step_N]
    · rfl
    · exact inv_nonstep _ (.ack t) hfI (by intro u e; cases e)
    · exact h.qInv
    · intro u hu
      refine ⟨by simp [hu], ?_, rfl⟩
      simp only [free_setThr]; rw [ring_other _ _ u (by simpa [Ring.Act.thread] using hu), Ring.step_thr_ne _ _ _ hu]
    · simp only [thr_setThr, if_true, free_setThr, q_setThr, phaseOk]
      exact ⟨ring_ack_thr _ t _ hd, hph.2⟩
    · simp only [free_setThr, q_setThr]
      rw [ring_abs_apply _ _ (by intro u e; cases e), ha]
      refine h.tok.same (List.Perm.refl _) ?_
      intro u x hx
      rcases held_cases s _ t (fun u hu => by simp [hu]) u x hx with ⟨hu, hx⟩ | ⟨hu, hx⟩
      · exact hx
      · simp [held] at hx
  · -- still inside `free.consume`
    have hnd : ∀ r, (Ring.step s.free t).thr t ≠ .done r := by intro r e; rw [e] at hc; exact hc
    simp only [step, hz]
    split
    · next id e => exact absurd e (hnd _)
    · next e => exact absurd e (hnd _)
    · apply zinv_of s _ t h
      · rfl
      · simp [Ring.step_N]
      · rfl
      · exact hfI
      · exact h.qInv
      · intro u hu
        exact ⟨rfl, Ring.step_thr_ne _ _ _ hu, rfl⟩
      · simp only [hz, phaseOk]; exact ⟨hc, hph.2⟩
      · show Tok (Ring.abs (Ring.step s.free t) ++ Ring.abs s.q) _ _
        rw [ha]; exact h.tok


theorem zinv_step_ePub (s : St) (t v id : Nat) (h : ZInv s) (hz : s.thr t = .ePub v id) : ZInv (step s t) := by
  have hnc := phase_noCan s h.phase
  have hph := h.phase t
  simp only [hz, phaseOk] at hph
  have hqI := inv_step_then s.q t h.qInv hnc.2
  have hheld : held (s.thr t) id := by simp [hz, held]
  rcases producer_step s.q t id h.qInv hph.2 with ⟨sid, hd, ha⟩ | ⟨hd, ha, -⟩ | ⟨hc, ha⟩
  · -- published
    simp only [step, hz, hd]
    apply zinv_of s _ t h
    · rfl
    · rfl
    · simp [Ring.step_N]
    · exact h.fInv
    · exact hqI
    · intro u hu
      exact ⟨by simp [hu], rfl, by simp only [q_setThr]; exact Ring.step_thr_ne _ _ _ hu⟩
    · simp only [thr_setThr, if_true, free_setThr, q_setThr, phaseOk]
      exact ⟨hph.1, sid, hd⟩
    · simp only [free_setThr, q_setThr]
      rw [ha]
      refine h.tok.put t id ?_ hheld ?_
      · rw [← List.append_assoc]; exact List.perm_append_singleton _ _
      · intro u x hx
        rcases held_cases s _ t (fun u hu => by simp [hu]) u x hx with ⟨hu, hx⟩ | ⟨hu, hx⟩
        · exact ⟨hx, hu⟩
        · simp [held] at hx
  · -- (the queue answered `full`: shown unreachable in `never_full`; the slot would be lost, the invariant stands)
    simp only [step, hz, hd]
    apply zinv_of s _ t h
    · rfl
    · rfl
    · simp [Ring.apply_N, Ring.step_N]
    · exact h.fInv
    · exact inv_nonstep _ (.ack t) hqI (by intro u e; cases e)
    · intro u hu
      refine ⟨by simp [hu], rfl, ?_⟩
      simp only [q_setThr]; rw [ring_other _ _ u (by simpa [Ring.Act.thread] using hu), Ring.step_thr_ne _ _ _ hu]
    · simp only [thr_setThr, if_true, free_setThr, q_setThr, phaseOk]
      exact ⟨hph.1, ring_ack_thr _ t _ hd⟩
    · simp only [free_setThr, q_setThr]
      rw [ring_abs_apply _ _ (by intro u e; cases e), ha]
      refine h.tok.same (List.Perm.refl _) ?_
      intro u x hx
      rcases held_cases s _ t (fun u hu => by simp [hu]) u x hx with ⟨hu, hx⟩ | ⟨hu, hx⟩
      · exact hx
      · simp [held] at hx
  · have hnd : ∀ r, (Ring.step s.q t).thr t ≠ .done r := by intro r e; rw [e] at hc; exact hc
    have hnl : ∀ k, (Ring.step s.q t).thr t ≠ .pLen k := by intro k e; rw [e] at hc; exact hc
    simp only [step, hz]
    split
    · next k e => exact absurd e (hnl _)
    · next e => exact absurd e (hnd _)
    · apply zinv_of s _ t h
      · rfl
      · rfl
      · simp [Ring.step_N]
      · exact h.fInv
      · exact hqI
      · intro u hu
        exact ⟨rfl, rfl, Ring.step_thr_ne _ _ _ hu⟩
      · simp only [hz, phaseOk]; exact ⟨hph.1, hc⟩
      · show Tok (Ring.abs s.free ++ Ring.abs (Ring.step s.q t)) _ _
        rw [ha]; exact h.tok

theorem zinv_step_dCons (s : St) (t : Nat) (h : ZInv s) (hz : s.thr t = .dCons) : ZInv (step s t) := by
  have hnc := phase_noCan s h.phase
  have hph := h.phase t
  simp only [hz, phaseOk] at hph
  have hqI := inv_step_then s.q t h.qInv hnc.2
  have hnone : ∀ x, ¬ held (s.thr t) x := by intro x; simp [hz, held]
  rcases consumer_step s.q t h.qInv hph.2 with ⟨id, hd, ha⟩ | ⟨hd, ha⟩ | ⟨hc, ha⟩
  · simp only [step, hz, hd]
    apply zinv_of s _ t h
    · rfl
    · rfl
    · simp [Ring.apply_N, Ring.step_N]
    · exact h.fInv
    · exact inv_nonstep _ (.ack t) hqI (by intro u e; cases e)
    · intro u hu
      refine ⟨by simp [hu], rfl, ?_⟩
      simp only [q_setThr]; rw [ring_other _ _ u (by simpa [Ring.Act.thread] using hu), Ring.step_thr_ne _ _ _ hu]
    · simp only [thr_setThr, if_true, free_setThr, q_setThr, phaseOk]
      exact ⟨hph.1, ring_ack_thr _ t _ hd⟩
    · simp only [free_setThr, q_setThr]
      rw [ring_abs_apply _ _ (by intro u e; cases e)]
      refine h.tok.take t id (by rw [ha]; exact List.perm_middle) ?_ hnone
      intro u x hx
      rcases held_cases s _ t (fun u hu => by simp [hu]) u x hx with ⟨hu, hx⟩ | ⟨hu, hx⟩
      · exact Or.inl hx
      · right; refine ⟨hu, ?_⟩
        have : id = x := by simpa [held] using hx
        exact this.symm
  · simp only [step, hz, hd]
    apply zinv_of s _ t h
    · rfl
    · rfl
    · simp [Ring.apply_N, Ring.step_N]
    · exact h.fInv
    · exact inv_nonstep _ (.ack t) hqI (by intro u e; cases e)
    · intro u hu
      refine ⟨by simp [hu], rfl, ?_⟩
      simp only [q_setThr]; rw [ring_other _ _ u (by simpa [Ring.Act.thread] using hu), Ring.step_thr_ne _ _ _ hu]
    · simp only [thr_setThr, if_true, free_setThr, q_setThr, phaseOk]
      exact ⟨hph.1, ring_ack_thr _ t _ hd⟩
    · simp only [free_setThr, q_setThr]
      rw [ring_abs_apply _ _ (by intro u e; cases e), ha]
      refine h.tok.same (List.Perm.refl _) ?_
      intro u x hx
      rcases held_cases s _ t (fun u hu => by simp [hu]) u x hx with ⟨hu, hx⟩ | ⟨hu, hx⟩
      · exact hx
      · simp [held] at hx
  · have hnd : ∀ r, (Ring.step s.q t).thr t ≠ .done r := by intro r e; rw [e] at hc; exact hc
    simp only [step, hz]
    split
    · next id e => exact absurd e (hnd _)
    · next e => exact absurd e (hnd _)
    · apply zinv_of s _ t h
      · rfl
      · rfl
      · simp [Ring.step_N]
      · exact h.fInv
      · exact hqI
      · intro u hu
        exact ⟨rfl, rfl, Ring.step_thr_ne _ _ _ hu⟩
      · simp only [hz, phaseOk]; exact ⟨hph.1, hc⟩
      · show Tok (Ring.abs s.free ++ Ring.abs (Ring.step s.q t)) _ _
        rw [ha]; exact h.tok

/-- a step that only renames the phase of thread `t` while it keeps holding the same slot (or keeps holding nothing) -/
theorem zinv_rephase (s : St) (t : Nat) (l : ZLoc) (dl : List Nat) (h : ZInv s)
    (hp : phaseOk l (s.free.thr t) (s.q.thr t)) (hh : ∀ x, held l x → held (s.thr t) x) :
    ZInv (setThr { s with deqLog := dl } t l) := by
  apply zinv_of s _ t h
  · rfl
  · rfl
  · rfl
  · exact h.fInv
  · exact h.qInv
  · intro u hu; exact ⟨by simp [hu], rfl, rfl⟩
  · simpa using hp
  · refine h.tok.same (List.Perm.refl _) ?_
    intro u x hx
    rcases held_cases s _ t (fun u hu => by simp [hu]) u x hx with ⟨hu, hx⟩ | ⟨hu, hx⟩
    · exact hx
    · subst hu; exact hh x (by simpa using hx)

theorem zinv_step_dFree (s : St) (t id v : Nat) (h : ZInv s) (hz : s.thr t = .dFree id v) : ZInv (step s t) := by
  have hnc := phase_noCan s h.phase
  have hph := h.phase t
  simp only [hz, phaseOk] at hph
  have hfI := inv_step_then s.free t h.fInv hnc.1
  have hheld : held (s.thr t) id := by simp [hz, held]
  rcases producer_step s.free t id h.fInv hph.1 with ⟨sid, hd, ha⟩ | ⟨hd, ha, -⟩ | ⟨hc, ha⟩
  · simp only [step, hz, hd]
    apply zinv_of s _ t h
    · rfl
    · simp [Ring.step_N]
    · rfl
    · exact hfI
    · exact h.qInv
    · intro u hu
      exact ⟨by simp [hu], by simp only [free_setThr]; exact Ring.step_thr_ne _ _ _ hu, rfl⟩
    · simp only [thr_setThr, if_true, free_setThr, q_setThr, phaseOk]
      exact ⟨⟨sid, hd⟩, hph.2⟩
    · simp only [free_setThr, q_setThr]
      rw [ha]
      refine h.tok.put t id ?_ hheld ?_
      · rw [List.append_assoc]
        exact (List.perm_middle (a := id) (l₁ := Ring.abs s.free) (l₂ := Ring.abs s.q))
      · intro u x hx
        rcases held_cases s _ t (fun u hu => by simp [hu]) u x hx with ⟨hu, hx⟩ | ⟨hu, hx⟩
        · exact ⟨hx, hu⟩
        · simp [held] at hx
  · simp only [step, hz, hd]
    apply zinv_of s _ t h
    · rfl
    · simp [Ring.apply_N, Ring.step_N]
    · rfl
    · exact inv_nonstep _ (.ack t) hfI (by intro u e; cases e)
    · exact h.qInv
    · intro u hu
      refine ⟨by simp [hu], ?_, rfl⟩
      simp only [free_setThr]; rw [ring_other _ _ u (by simpa [Ring.Act.thread] using hu), Ring.step_thr_ne _ _ _ hu]
    · simp only [thr_setThr, if_true, free_setThr, q_setThr, phaseOk]
      exact ⟨ring_ack_thr _ t _ hd, hph.2⟩
    · simp only [free_setThr, q_setThr]
      rw [ring_abs_apply _ _ (by intro u e; cases e), ha]
      refine h.tok.same (List.Perm.refl _) ?_
      intro u x hx
      rcases held_cases s _ t (fun u hu => by simp [hu]) u x hx with ⟨hu, hx⟩ | ⟨hu, hx⟩
      · exact hx
      · simp [held] at hx
  · have hnd : ∀ r, (Ring.step s.free t).thr t ≠ .done r := by intro r e; rw [e] at hc; exact hc
    have hnl : ∀ k, (Ring.step s.free t).thr t ≠ .pLen k := by intro k e; rw [e] at hc; exact hc
    simp only [step, hz]
    split
    · next k e => exact absurd e (hnl _)
    · next e => exact absurd e (hnd _)
    · apply zinv_of s _ t h
      · rfl
      · simp [Ring.step_N]
      · rfl
      · exact hfI
      · exact h.qInv
      · intro u hu
        exact ⟨rfl, Ring.step_thr_ne _ _ _ hu, rfl⟩
      · simp only [hz, phaseOk]; exact ⟨hc, hph.2⟩
      · show Tok (Ring.abs (Ring.step s.free t) ++ Ring.abs s.q) _ _
        rw [ha]; exact h.tok


theorem zinv_step_ePubLen (s : St) (t v : Nat) (h : ZInv s) (hz : s.thr t = .ePubLen v) : ZInv (step s t) := by
  have hnc := phase_noCan s h.phase
  have hph := h.phase t
  simp only [hz, phaseOk] at hph
  obtain ⟨hf, sid, hq⟩ := hph
  have hqI := inv_step_then s.q t h.qInv hnc.2
  obtain ⟨⟨len, hd⟩, ha⟩ := plen_step s.q t sid hq
  simp only [step, hz, hd]
  apply zinv_of s _ t h
  · rfl
  · rfl
  · simp [Ring.apply_N, Ring.step_N]
  · exact h.fInv
  · exact inv_nonstep _ (.ack t) hqI (by intro u e; cases e)
  · intro u hu
    refine ⟨by simp [hu], rfl, ?_⟩
    simp only [q_setThr]; rw [ring_other _ _ u (by simpa [Ring.Act.thread] using hu), Ring.step_thr_ne _ _ _ hu]
  · simp only [thr_setThr, if_true, free_setThr, q_setThr, phaseOk]
    exact ⟨hf, ring_ack_thr _ t _ hd⟩
  · simp only [free_setThr, q_setThr]
    rw [ring_abs_apply _ _ (by intro u e; cases e), ha]
    refine h.tok.same (List.Perm.refl _) ?_
    intro u x hx
    rcases held_cases s _ t (fun u hu => by simp [hu]) u x hx with ⟨hu, hx⟩ | ⟨hu, hx⟩
    · exact hx
    · simp [held] at hx

theorem zinv_step_dFreeLen (s : St) (t v : Nat) (h : ZInv s) (hz : s.thr t = .dFreeLen v) : ZInv (step s t) := by
  have hnc := phase_noCan s h.phase
  have hph := h.phase t
  simp only [hz, phaseOk] at hph
  obtain ⟨⟨sid, hf⟩, hq⟩ := hph
  have hfI := inv_step_then s.free t h.fInv hnc.1
  obtain ⟨⟨len, hd⟩, ha⟩ := plen_step s.free t sid hf
  simp only [step, hz, hd]
  apply zinv_of s _ t h
  · rfl
  · simp [Ring.apply_N, Ring.step_N]
  · rfl
  · exact inv_nonstep _ (.ack t) hfI (by intro u e; cases e)
  · exact h.qInv
  · intro u hu
    refine ⟨by simp [hu], ?_, rfl⟩
    simp only [free_setThr]; rw [ring_other _ _ u (by simpa [Ring.Act.thread] using hu), Ring.step_thr_ne _ _ _ hu]
  · simp only [thr_setThr, if_true, free_setThr, q_setThr, phaseOk]
    exact ⟨ring_ack_thr _ t _ hd, hq⟩
  · simp only [free_setThr, q_setThr]
    rw [ring_abs_apply _ _ (by intro u e; cases e), ha]
    refine h.tok.same (List.Perm.refl _) ?_
    intro u x hx
    rcases held_cases s _ t (fun u hu => by simp [hu]) u x hx with ⟨hu, hx⟩ | ⟨hu, hx⟩
    · exact hx
    · simp [held] at hx

theorem zinv_step (s : St) (t : Nat) (h : ZInv s) : ZInv (step s t) := by
  have hph := h.phase t
  cases hz : s.thr t with
  | idle => simp only [step, hz]; exact h
  | done r => simp only [step, hz]; exact h
  | eAlloc v => exact zinv_step_eAlloc s t v h hz
  | ePub v id => exact zinv_step_ePub s t v id h hz
  | ePubLen v => exact zinv_step_ePubLen s t v h hz
  | dFreeLen v => exact zinv_step_dFreeLen s t v h hz
  | dCons => exact zinv_step_dCons s t h hz
  | dFree id v => exact zinv_step_dFree s t id v h hz
  | dLen id =>
    simp only [hz, phaseOk] at hph
    simp only [step, hz]
    have := zinv_rephase s t (.dLenH id) s.deqLog h (by simpa [phaseOk] using hph) (by intro x hx; simpa [hz, held] using hx)
    exact this
  | dLenH id =>
    simp only [hz, phaseOk] at hph
    simp only [step, hz]
    exact zinv_rephase s t _ _ h (by simpa [phaseOk] using hph) (by intro x hx; simpa [hz, held] using hx)
  | dDrop id v =>
    simp only [hz, phaseOk] at hph
    simp only [step, hz]
    have := zinv_rephase s t (.dFreeHook id v) s.deqLog h (by simpa [phaseOk] using hph) (by intro x hx; simpa [hz, held] using hx)
    exact this
  | dFreeHook id v =>
    simp only [hz, phaseOk] at hph
    simp only [step, hz]
    -- `free.publish_movable(id)` starts: the free list's thread goes from idle to its first producer point
    apply zinv_of s _ t h
    · rfl
    · simp [Ring.apply_N]
    · rfl
    · exact inv_nonstep _ (.send t id) h.fInv (by intro u e; cases e)
    · exact h.qInv
    · intro u hu
      refine ⟨by simp [hu], ?_, rfl⟩
      simp only [free_setThr]; rw [ring_other _ _ u (by simpa [Ring.Act.thread] using hu)]
    · simp only [thr_setThr, if_true, free_setThr, q_setThr, phaseOk]
      exact ⟨by rw [ring_send_thr _ t id hph.1]; simp [ProdLoc], hph.2⟩
    · simp only [free_setThr, q_setThr]
      rw [ring_abs_apply _ _ (by intro u e; cases e)]
      refine h.tok.same (List.Perm.refl _) ?_
      intro u x hx
      rcases held_cases s _ t (fun u hu => by simp [hu]) u x hx with ⟨hu, hx⟩ | ⟨hu, hx⟩
      · exact hx
      · subst hu; simpa [hz, held] using hx
  | lLen =>
    simp only [hz, phaseOk] at hph
    simp only [step, hz]
    have := zinv_rephase s t (.lLenH s.q.tail) s.deqLog h (by simpa [phaseOk] using hph) (by intro x hx; simp [held] at hx)
    exact this
  | lLenH tl =>
    simp only [hz, phaseOk] at hph
    simp only [step, hz]
    have := zinv_rephase s t (.done (.len (U32.wsub (U32.wrap tl) (U32.wrap s.q.head)))) s.deqLog h (by simpa [phaseOk] using hph) (by intro x hx; simp [held] at hx)
    exact this

theorem zinv_apply (s : St) (a : Act) (h : ZInv s) : ZInv (apply s a) := by
  cases a with
  | step t => exact zinv_step s t h
  | enqueue t v =>
    simp only [apply]
    split
    · next hi =>
      have hph := h.phase t
      simp only [hi, phaseOk] at hph
      apply zinv_of s _ t h
      · rfl
      · simp [Ring.apply_N]
      · rfl
      · exact inv_nonstep _ (.recv t) h.fInv (by intro u e; cases e)
      · exact h.qInv
      · intro u hu
        refine ⟨by simp [hu], ?_, rfl⟩
        simp only [free_setThr]; rw [ring_other _ _ u (by simpa [Ring.Act.thread] using hu)]
      · simp only [thr_setThr, if_true, free_setThr, q_setThr, phaseOk]
        exact ⟨by rw [ring_recv_thr _ t hph.1]; simp [ConsLoc], hph.2⟩
      · simp only [free_setThr, q_setThr]
        rw [ring_abs_apply _ _ (by intro u e; cases e)]
        refine h.tok.same (List.Perm.refl _) ?_
        intro u x hx
        rcases held_cases s _ t (fun u hu => by simp [hu]) u x hx with ⟨hu, hx⟩ | ⟨hu, hx⟩
        · exact hx
        · simp [held] at hx
    · exact h
  | dequeue t =>
    simp only [apply]
    split
    · next hi =>
      have hph := h.phase t
      simp only [hi, phaseOk] at hph
      apply zinv_of s _ t h
      · rfl
      · rfl
      · simp [Ring.apply_N]
      · exact h.fInv
      · exact inv_nonstep _ (.recv t) h.qInv (by intro u e; cases e)
      · intro u hu
        refine ⟨by simp [hu], rfl, ?_⟩
        simp only [q_setThr]; rw [ring_other _ _ u (by simpa [Ring.Act.thread] using hu)]
      · simp only [thr_setThr, if_true, free_setThr, q_setThr, phaseOk]
        exact ⟨hph.1, by rw [ring_recv_thr _ t hph.2]; simp [ConsLoc]⟩
      · simp only [free_setThr, q_setThr]
        rw [ring_abs_apply _ _ (by intro u e; cases e)]
        refine h.tok.same (List.Perm.refl _) ?_
        intro u x hx
        rcases held_cases s _ t (fun u hu => by simp [hu]) u x hx with ⟨hu, hx⟩ | ⟨hu, hx⟩
        · exact hx
        · simp [held] at hx
    · exact h
  | len t =>
    simp only [apply]
    split
    · next hi =>
      have hph := h.phase t
      simp only [hi, phaseOk] at hph
      exact zinv_rephase s t .lLen s.deqLog h (by simpa [phaseOk] using hph) (by intro x hx; simp [held] at hx)
    · exact h
  | ack t =>
    simp only [apply]
    split
    · next r hd =>
      have hph := h.phase t
      simp only [hd, phaseOk] at hph
      exact zinv_rephase s t .idle s.deqLog h (by simpa [phaseOk] using hph) (by intro x hx; simp [held] at hx)
    · exact h

theorem abs_fullRing (n : Nat) : Ring.abs (fullRing n) = List.range n := by
  simp [Ring.abs, fullRing, Ring.init]

theorem zinv_init (n : Nat) (hn : 0 < n) : ZInv (init n) := by
  refine ⟨rfl, rfl, inv_fullRing n hn, Ring.inv_init n hn, fun t => by simp [init, phaseOk, fullRing, Ring.init], ?_⟩
  show Tok (Ring.abs (fullRing n) ++ Ring.abs (Ring.init n)) _ _
  rw [abs_fullRing]
  have : Ring.abs (Ring.init n) = [] := by simp [Ring.abs, Ring.init]
  rw [this, List.append_nil]
  refine ⟨List.nodup_range, fun x hx => List.mem_range.mp hx, ?_, ?_, ?_⟩ <;> intro t <;> simp [init, held]

/-- **slot conservation** holds in every reachable state of the zero-copy container -/
theorem zinv_reachable {n : Nat} (hn : 0 < n) {s : St} (h : Reachable n s) : ZInv s := by
  obtain ⟨as, rfl⟩ := h
  suffices ∀ s0, ZInv s0 → ZInv (run s0 as) from this _ (zinv_init n hn)
  induction as with
  | nil => intro s0 h0; exact h0
  | cons a as ih => intro s0 h0; exact ih _ (zinv_apply s0 a h0)

end Mutiny.ZeroCopy
