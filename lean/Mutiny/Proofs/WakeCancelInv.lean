import Mutiny.Proofs.WakeInv

/-!
# The invariant behind C07 (`cancel_stream` terminates the targeted stream) for the `Wake` model (M8)

Arbitrary executions (sends of every flavour, asynchronous sends, cancels, drops, spurious polls), under the one
assumption that tokens are task identities: a spurious poll never hands a stream the token that another existing stream
currently owns (`TokRun`).  Without it the claim fails (`Mutiny/Props/C07.lean`, `c07_shared_token_counterexample`).
-/

namespace Mutiny.Wake

/-- a poll with a new token does not reuse the current token of another existing stream -/
def tokFresh (s : St) : Act → Prop
  | .poll j (some n) => ∀ i, i < s.k → i ≠ j → s.tok i ≠ n
  | _ => True

/-- tokens stay task identities along the execution -/
def TokRun (s : St) : List Act → Prop
  | [] => True
  | a :: as => tokFresh s a ∧ TokRun (apply s a) as

/-- executions whose polls never change the token are `TokRun`s -/
def noNewTok : Act → Prop
  | .poll _ (some _) => False
  | _ => True

instance : DecidablePred noNewTok := fun a => by
  cases a <;> simp only [noNewTok] <;> first | infer_instance | (split <;> infer_instance)

theorem tokRun_of_noNewTok (s : St) (as : List Act) (h : ∀ a ∈ as, noNewTok a) : TokRun s as := by
  induction as generalizing s with
  | nil => trivial
  | cons a as ih =>
    refine ⟨?_, ih _ (fun b hb => h b (by simp [hb]))⟩
    have := h a (by simp)
    cases a <;> simp only [tokFresh]
    case poll j nt => cases nt <;> simp_all [noNewTok]

/-- stream `j` cannot be stranded: wherever it is, it ends, or is notified, or will notify itself -/
def safe7 (s : St) (j : Nat) : Prop :=
  match s.sloc j with
  | .parked => s.notified (s.tok j) = true
  | .sCmp => s.notified (s.tok j) = true ∨ s.waker j ≠ some (s.tok j)
  | _ => True

structure CInv (s : St) : Prop where
  tokInj : ∀ i j, i < s.k → j < s.k → i ≠ j → s.tok i ≠ s.tok j
  /-- (W2), for arbitrary executions -/
  w2     : ∀ j, s.sloc j = .parked ∨ s.sloc j = .sSelfWake → s.waker j = some (s.tok j)
  c7     : ∀ j, j < s.k → s.keep j = false → safe7 s j ∨ ∃ t, inWake (s.thr t) j

theorem cinv_init (n mx k : Nat) (rule : Rule) (zc : Bool) : CInv (init n mx k rule zc) := by
  constructor <;> simp [init, safe7]

theorem cinv_stepS (s : St) (j : Nat) (h : CInv s) : CInv (stepS s j) := by
  have h0 := h
  obtain ⟨tokInj, w2, c7⟩ := h
  have w2j := w2 j
  cases hl : s.sloc j <;> simp only [stepS, hl]
  case ready => exact h0
  case parked => exact h0
  case ended => exact h0
  case dropped => exact h0
  all_goals
    (repeat' split) <;>
    (refine ⟨tokInj, ?_, ?_⟩
     · simp only [setS, notify]; grind
     · intro i hi hk
       simp only [setS, notify] at hi hk
       rcases c7 i hi hk with h | h
       · left; simp only [safe7, setS, notify] at h ⊢; grind
       · right; exact h)

/-- a producer that is not inside a `wake_stream` moves anywhere, changing queue / reservations / pool count / ghost -/
theorem cinv_setThr_q (s : St) (t : Nat) (l : PLoc) (q' acc : List Nat) (rs : List (Nat × Nat)) (hd : Nat) (h : CInv s)
    (hnw : ∀ i, ¬ inWake (s.thr t) i) :
    CInv (setThr { s with q := q', resv := rs, accepted := acc, held := hd } t l) := by
  obtain ⟨tokInj, w2, c7⟩ := h
  refine ⟨tokInj, w2, ?_⟩
  intro i hi hk
  rcases c7 i hi hk with h | ⟨t', h⟩
  · left; exact h
  · right; refine ⟨t', ?_⟩; simp only [setThr]; grind

set_option hygiene false in
/-- producer `t` performs the `wake()` of `wake_stream(j)` (or finds no waker) and is done: stream `j` is safe -/
local macro "cwake_done" : tactic => `(tactic| (
  refine ⟨tokInj, w2, ?_⟩
  intro i hi hk
  simp only [setThr, notify] at hi hk
  rcases c7 i hi hk with h | ⟨t', h⟩
  · left; simp only [safe7, setThr, notify] at h ⊢; grind
  · by_cases e : t' = t
    · subst e; rw [hl] at h; simp only [inWake] at h; subst h
      left; simp only [safe7, setThr, notify]
      cases hs : s.sloc j <;> grind
    · right; exact ⟨t', by simp only [setThr, notify]; grind⟩))

set_option hygiene false in
/-- a producer moves inside `wake_stream(j)` -/
local macro "cwake_move" : tactic => `(tactic| (
  refine ⟨tokInj, w2, ?_⟩
  intro i hi hk
  simp only [setThr] at hi hk
  rcases c7 i hi hk with h | ⟨t', h⟩
  · left; exact h
  · right; refine ⟨t', ?_⟩; simp only [setThr]; grind [inWake]))

theorem cinv_stepP (s : St) (t : Nat) (h : CInv s) : CInv (stepP s t) := by
  have h0 := h
  obtain ⟨tokInj, w2, c7⟩ := h
  cases hl : s.thr t <;> simp only [stepP, hl]
  case idle => exact h0
  case done => exact h0
  case aSusp => exact h0
  case zSusp => exact h0
  case pClm v slot r =>
    have hnw : ∀ i, ¬ inWake (s.thr t) i := by intro i; rw [hl]; simp [inWake]
    split
    · split
      · exact cinv_setThr_q s t _ _ _ _ s.held h0 hnw
      · exact h0
    · exact h0
  case pSmp slot r =>
    have hnw : ∀ i, ¬ inWake (s.thr t) i := by intro i; rw [hl]; simp [inWake]
    simp only [afterPublishR]
    split <;> exact cinv_setThr_q s t _ s.q s.accepted s.resv s.held h0 hnw
  case cCancel j =>
    refine ⟨tokInj, w2, ?_⟩
    intro i hi hk
    simp only [setThr] at hi hk
    by_cases e : i = j
    · right; exact ⟨t, by simp [setThr, inWake, e]⟩
    · rcases c7 i hi (by simpa [e] using hk) with h | ⟨t', h⟩
      · left; exact h
      · right; refine ⟨t', ?_⟩; simp only [setThr]; grind [inWake]
  case wWake j r =>
    have w2j := w2 j
    split
    · cwake_done
    · cwake_move
  case wLock j r => split <;> cwake_move
  case wSpin j r => split <;> cwake_move
  case wRetry j r =>
    have w2j := w2 j
    split <;> cwake_done

theorem cinv_publish (s : St) (t v : Nat) (acc : List Nat) (hd : Nat) (r : Rule) (len : Nat) (h : CInv s)
    (hnw : ∀ i, ¬ inWake (s.thr t) i) :
    CInv (afterPublishR { s with q := s.q ++ [v], accepted := acc, held := hd } r t len) := by
  simp only [afterPublishR]
  split <;> exact cinv_setThr_q s t _ _ _ s.resv _ h hnw

theorem cinv_poll (s : St) (j : Nat) (newTok : Option Nat) (h : CInv s) (hf : tokFresh s (.poll j newTok)) :
    CInv (apply s (.poll j newTok)) := by
  have h0 := h
  obtain ⟨tokInj, w2, c7⟩ := h
  simp only [apply]
  split
  · rename_i hj
    split
    · refine ⟨tokInj, ?_, ?_⟩
      · simp only [setS]; grind
      · intro i hi hk
        simp only [setS] at hi hk
        have := tokInj i j hi hj
        rcases c7 i hi hk with h | h
        · left; simp only [safe7, setS] at h ⊢; grind
        · right; exact h
    · cases newTok with
      | none =>
        refine ⟨?_, ?_, ?_⟩
        · simp only [setS]; grind
        · simp only [setS]; grind
        · intro i hi hk
          simp only [setS] at hi hk
          have := tokInj i j hi hj
          rcases c7 i hi hk with h | h
          · left; simp only [safe7, setS] at h ⊢; grind
          · right; exact h
      | some n =>
        simp only [tokFresh] at hf
        refine ⟨?_, ?_, ?_⟩
        · simp only [setS]; grind
        · simp only [setS]; grind
        · intro i hi hk
          simp only [setS] at hi hk
          have := hf i hi
          rcases c7 i hi hk with h | h
          · left; simp only [safe7, setS] at h ⊢; grind
          · right; exact h
    · exact h0
  · exact h0

theorem cinv_apply (s : St) (a : Act) (h : CInv s) (hf : tokFresh s a) : CInv (apply s a) := by
  cases a
  case poll j newTok => exact cinv_poll s j newTok h hf
  case stepP t => exact cinv_stepP s t h
  case stepS j => exact cinv_stepS s j h
  case send t v =>
    simp only [apply]
    split
    · rename_i ht
      split
      · rw [afterPublish_eq]; exact cinv_publish s t v _ s.held _ _ h (not_inWake_idle ht)
      · split <;> exact cinv_setThr_q s t _ s.q s.accepted s.resv s.held h (not_inWake_idle ht)
    · exact h
  case sendWith t v =>
    simp only [apply]
    split
    · rename_i ht
      split
      · rw [afterPublish_eq]; exact cinv_publish s t v _ s.held _ _ h (not_inWake_idle ht)
      · exact cinv_setThr_q s t _ s.q s.accepted s.resv s.held h (not_inWake_idle ht)
    · exact h
  case sendRsv t v =>
    simp only [apply]
    split
    · rename_i ht
      split
      · exact cinv_publish s t v _ s.held _ _ h (not_inWake_idle ht)
      · exact cinv_setThr_q s t _ s.q s.accepted s.resv s.held h (not_inWake_idle ht)
    · exact h
  case asyncMov t v =>
    simp only [apply]
    split
    · rename_i ht
      split
      · exact cinv_setThr_q s t _ s.q s.accepted _ s.held h (not_inWake_idle ht)
      · exact cinv_setThr_q s t _ s.q s.accepted s.resv s.held h (not_inWake_idle ht)
    · exact h
  case claim t v =>
    simp only [apply]
    split
    · rename_i ht
      split
      · exact cinv_setThr_q s t _ s.q s.accepted _ s.held h (not_inWake_idle ht)
      · exact cinv_setThr_q s t _ s.q s.accepted s.resv s.held h (not_inWake_idle ht)
    · exact h
  case asyncZc t v =>
    simp only [apply]
    split
    · rename_i ht
      split
      · exact cinv_setThr_q s t _ s.q s.accepted s.resv _ h (not_inWake_idle ht)
      · exact cinv_setThr_q s t _ s.q s.accepted s.resv s.held h (not_inWake_idle ht)
    · exact h
  case resume t =>
    simp only [apply]
    split
    · rename_i v lb ht
      have hnw : ∀ i, ¬ inWake (s.thr t) i := by intro i; rw [ht]; simp [inWake]
      split
      · exact cinv_setThr_q s t _ s.q s.accepted s.resv s.held h hnw
      · split
        · split
          · split <;> exact cinv_setThr_q s t _ _ _ _ s.held h hnw
          · exact h
        · exact h
    · rename_i v ht
      split
      · exact cinv_setThr_q s t _ s.q s.accepted _ _ h (by intro i; rw [ht]; simp [inWake])
      · rw [afterPublish_eq]
        exact cinv_publish s t v _ _ _ _ h (by intro i; rw [ht]; simp [inWake])
    · exact h
  case cancel t j =>
    simp only [apply]
    split
    · rename_i ht
      exact cinv_setThr_q s t _ s.q s.accepted s.resv s.held h (not_inWake_idle ht.1)
    · exact h
  case release =>
    simp only [apply]
    split
    · obtain ⟨a, b, c⟩ := h; exact ⟨a, b, c⟩
    · exact h
  case dropS j =>
    simp only [apply]
    split
    · rename_i hj
      obtain ⟨tokInj, w2, c7⟩ := h
      refine ⟨tokInj, ?_, ?_⟩
      · simp only [setS]; grind
      · intro i hi hk
        simp only [setS] at hi hk
        rcases c7 i hi hk with h | h
        · left; simp only [safe7, setS] at h ⊢; grind
        · right; exact h
    · exact h
  case ack t =>
    simp only [apply]
    split
    · rename_i r ht
      exact cinv_setThr_q s t _ s.q s.accepted s.resv s.held h (by intro i; rw [ht]; simp [inWake])
    · exact h

theorem cinv_run (s : St) (as : List Act) (h : CInv s) (hf : TokRun s as) : CInv (run s as) := by
  induction as generalizing s with
  | nil => exact h
  | cons a as ih =>
    simp only [run, List.foldl_cons]
    exact ih _ (cinv_apply s a h hf.1) hf.2

/-! ## constants of an execution -/

theorem k_stepP (s : St) (t : Nat) : (stepP s t).k = s.k := by
  unfold stepP; split
  case h_6 => unfold afterPublishR; split <;> rfl
  all_goals ((repeat' split) <;> rfl)

theorem k_stepS (s : St) (j : Nat) : (stepS s j).k = s.k := by
  unfold stepS; split <;> (try split) <;> rfl

theorem k_afterPublishR (s : St) (r : Rule) (t len : Nat) : (afterPublishR s r t len).k = s.k := by
  unfold afterPublishR; split <;> rfl

theorem k_apply (s : St) (a : Act) : (apply s a).k = s.k := by
  cases a <;> simp only [apply, afterPublish_eq]
  case stepP t => exact k_stepP s t
  case stepS j => exact k_stepS s j
  all_goals (repeat' split) <;> first | rfl | (rw [k_afterPublishR])

theorem k_run (s : St) (as : List Act) : (run s as).k = s.k := by
  induction as generalizing s with
  | nil => rfl
  | cons a as ih => simp only [run, List.foldl_cons]; exact (ih (apply s a)).trans (k_apply s a)

/-! ## `keep_streams_running[j]` is only ever cleared -/

theorem keep_stepP_false (s : St) (t j : Nat) (h : s.keep j = false) : (stepP s t).keep j = false := by
  unfold stepP; split
  case h_6 => unfold afterPublishR; split <;> simp [setThr, h]
  all_goals ((repeat' split) <;> simp [setThr, notify, h])

theorem keep_stepS (s : St) (j : Nat) : (stepS s j).keep = s.keep := by
  unfold stepS; split <;> (try split) <;> rfl

theorem keep_afterPublishR (s : St) (r : Rule) (t len : Nat) : (afterPublishR s r t len).keep = s.keep := by
  unfold afterPublishR; split <;> rfl

theorem keep_apply_false (s : St) (a : Act) (j : Nat) (h : s.keep j = false) : (apply s a).keep j = false := by
  cases a <;> simp only [apply, afterPublish_eq]
  case stepP t => exact keep_stepP_false s t j h
  case stepS i => rw [keep_stepS]; exact h
  all_goals (repeat' split) <;> first | exact h | (rw [keep_afterPublishR]; exact h)

theorem keep_run_false (s : St) (as : List Act) (j : Nat) (h : s.keep j = false) : (run s as).keep j = false := by
  induction as generalizing s with
  | nil => exact h
  | cons a as ih => simp only [run, List.foldl_cons]; exact ih (apply s a) (keep_apply_false s a j h)

end Mutiny.Wake
