import Mutiny.Proofs.RingInv

/-! # Pigeonhole lemma used to bound the number of outstanding claims / held pool slots -/

namespace Mutiny.Ring

/-- pigeonhole: an injection of `n` consecutive numbers into `[0, T)` needs `n ≤ T` -/
theorem pigeon : ∀ (T n a : Nat) (f : Nat → Nat), (∀ i, i < n → f (a + i) < T) →
    (∀ i j, i < n → j < n → f (a + i) = f (a + j) → i = j) → n ≤ T := by
  intro T
  induction T with
  | zero =>
    intro n a f hlt _
    rcases Nat.eq_zero_or_pos n with h | h
    · omega
    · exact absurd (hlt 0 h) (by omega)
  | succ T ih =>
    intro n a f hlt hinj
    rcases Nat.eq_zero_or_pos n with h | h
    · omega
    · let v := f (a + (n - 1))
      let g : Nat → Nat := fun k => if f k = T then v else f k
      have hg : n - 1 ≤ T := by
        apply ih (n - 1) a g
        · intro i hi
          show (if f (a + i) = T then v else f (a + i)) < T
          split
          · next he =>
            have hv : v ≠ T := by
              intro hv
              have := hinj i (n - 1) (by omega) (by omega) (by rw [he]; exact hv.symm)
              omega
            have := hlt (n - 1) (by omega)
            show f (a + (n - 1)) < T
            have hv' : f (a + (n - 1)) ≠ T := hv
            omega
          · next he => have := hlt i (by omega); omega
        · intro i j hi hj hij
          have hij' : (if f (a + i) = T then v else f (a + i)) = (if f (a + j) = T then v else f (a + j)) := hij
          by_cases h1 : f (a + i) = T <;> by_cases h2 : f (a + j) = T
          · exact hinj i j (by omega) (by omega) (by rw [h1, h2])
          · rw [if_pos h1, if_neg h2] at hij'
            have := hinj (n - 1) j (by omega) (by omega) hij'
            omega
          · rw [if_neg h1, if_pos h2] at hij'
            have := hinj i (n - 1) (by omega) (by omega) hij'
            omega
          · rw [if_neg h1, if_neg h2] at hij'
            exact hinj i j (by omega) (by omega) hij'
      omega

theorem holdsP_fun {l : Loc} {k k' : Nat} (h : holdsP l k) (h' : holdsP l k') : k = k' := by
  cases l <;> simp_all [holdsP]
theorem holdsC_fun {l : Loc} {k k' : Nat} (h : holdsC l k) (h' : holdsC l k') : k = k' := by
  cases l <;> simp_all [holdsC]


end Mutiny.Ring
