import Mutiny.Proofs.ZeroCopyRoom

/-!
# M4 `ZeroCopy`: value level — payload exactness and FIFO of the VALUES
-/

namespace Mutiny.ZeroCopy
open Mutiny

/-- value-level invariant: a slot being published holds the value of its enqueue, and the accepted values are the dequeued
    ones (in queue order) followed by the values of the slots now in the queue -/
structure VInv (s : St) : Prop where
  wr : ∀ t v id, s.thr t = .ePub v id → s.pool id = v
  fifo : ∃ d, s.enqLog = d ++ (Ring.abs s.q).map s.pool

/-- nothing relevant changed: same pool, same log, same queue content, and whoever is in `ePub` was so before -/
theorem vinv_same (s s' : St) (v : VInv s) (hp : s'.pool = s.pool) (hl : s'.enqLog = s.enqLog) (ha : Ring.abs s'.q = Ring.abs s.q)
    (he : ∀ t w id, s'.thr t = .ePub w id → s.thr t = .ePub w id) : VInv s' :=
  ⟨fun t w id h => by rw [hp]; exact v.wr t w id (he t w id h), by rw [hl, ha, hp]; exact v.fifo⟩

theorem vinv_step (s : St) (t : Nat) (h : ZInv s) (v : VInv s) : VInv (step s t) := by
  have hph := h.phase t
  cases hz : s.thr t with
  | idle => simp only [step, hz]; exact v
  | done r => simp only [step, hz]; exact v
  | eAlloc w =>
    simp only [hz, phaseOk] at hph
    rcases consumer_step s.free t h.fInv hph.1 with ⟨id, hd, ha⟩ | ⟨hd, ha⟩ | ⟨hc, ha⟩
    · -- the slot `id` leaves the free list and is written: nobody else holds it, it is not in the queue
      simp only [step, hz, hd]
      have hidf : id ∈ Ring.abs s.free := by rw [ha]; simp
      have hnq : id ∉ Ring.abs s.q := by
        intro hq
        have := (List.nodup_append.mp h.tok.nodup).2.2 id hidf id hq
        exact this rfl
      refine ⟨?_, ?_⟩
      · intro u w' id' hu
        simp only [thr_setThr] at hu
        by_cases hut : u = t
        · subst hut; simp only [if_true, ZLoc.ePub.injEq] at hu; obtain ⟨rfl, rfl⟩ := hu; simp [setThr]
        · simp only [hut, if_false] at hu
          have hne : id' ≠ id := by
            intro e; subst e
            exact h.tok.hFresh u id' (by simp [hu, held]) (List.mem_append_left _ hidf)
          have := v.wr u w' id' hu
          simp [setThr, hne, this]
      · obtain ⟨d, hd'⟩ := v.fifo
        refine ⟨d, ?_⟩
        show s.enqLog = d ++ (Ring.abs (Ring.apply s.q (.send t id))).map (fun j => if j = id then w else s.pool j)
        rw [ring_abs_apply _ _ (by intro u e; cases e), hd']
        congr 1
        apply List.map_congr_left
        intro x hx
        have : x ≠ id := fun e => hnq (e ▸ hx)
        simp [this]
    · simp only [step, hz, hd]
      exact vinv_same s _ v rfl rfl rfl (by intro u w' id' hu; simp only [thr_setThr] at hu; split at hu <;> simp_all)
    · have hnd : ∀ r, (Ring.step s.free t).thr t ≠ .done r := by intro r e; rw [e] at hc; exact hc
      simp only [step, hz]
      split
      · next id e => exact absurd e (hnd _)
      · next e => exact absurd e (hnd _)
      · exact vinv_same s _ v rfl rfl rfl (fun _ _ _ hu => hu)
  | ePub w id =>
    simp only [hz, phaseOk] at hph
    rcases producer_step s.q t id h.qInv hph.2 with ⟨len, hd, ha⟩ | ⟨hd, ha, -⟩ | ⟨hc, ha⟩
    · simp only [step, hz, hd]
      refine ⟨?_, ?_⟩
      · intro u w' id' hu
        simp only [thr_setThr] at hu
        split at hu
        · cases hu
        · exact v.wr u w' id' hu
      · obtain ⟨d, hd'⟩ := v.fifo
        refine ⟨d, ?_⟩
        show s.enqLog ++ [w] = d ++ (Ring.abs (Ring.step s.q t)).map s.pool
        rw [ha, hd', List.map_append, List.map_singleton, v.wr t w id hz, List.append_assoc]
    · simp only [step, hz, hd]
      refine vinv_same s _ v rfl rfl ?_ (by intro u w' id' hu; simp only [thr_setThr] at hu; split at hu <;> simp_all)
      show Ring.abs (Ring.apply (Ring.step s.q t) (.ack t)) = Ring.abs s.q
      rw [ring_abs_apply _ _ (by intro u e; cases e), ha]
    · have hnd : ∀ r, (Ring.step s.q t).thr t ≠ .done r := by intro r e; rw [e] at hc; exact hc
      have hnl : ∀ k, (Ring.step s.q t).thr t ≠ .pLen k := by intro k e; rw [e] at hc; exact hc
      simp only [step, hz]
      split
      · next k e => exact absurd e (hnl _)
      · next e => exact absurd e (hnd _)
      · exact vinv_same s _ v rfl rfl ha (fun _ _ _ hu => hu)
  | ePubLen w =>
    simp only [hz, phaseOk] at hph
    obtain ⟨_, sid, hq⟩ := hph
    obtain ⟨⟨len, hd⟩, ha⟩ := plen_step s.q t sid hq
    simp only [step, hz, hd]
    refine vinv_same s _ v rfl rfl ?_ (by intro u w' id' hu; simp only [thr_setThr] at hu; split at hu <;> simp_all)
    show Ring.abs (Ring.apply (Ring.step s.q t) (.ack t)) = Ring.abs s.q
    rw [ring_abs_apply _ _ (by intro u e; cases e), ha]
  | dFreeLen w =>
    simp only [step, hz]
    split <;> first
      | exact vinv_same s _ v rfl rfl rfl (by intro u w' id' hu; simp only [thr_setThr] at hu; split at hu <;> simp_all)
      | exact vinv_same s _ v rfl rfl rfl (fun _ _ _ hu => hu)
  | dCons =>
    simp only [hz, phaseOk] at hph
    rcases consumer_step s.q t h.qInv hph.2 with ⟨id, hd, ha⟩ | ⟨hd, ha⟩ | ⟨hc, ha⟩
    · simp only [step, hz, hd]
      refine ⟨?_, ?_⟩
      · intro u w' id' hu
        simp only [thr_setThr] at hu
        split at hu
        · cases hu
        · exact v.wr u w' id' hu
      · obtain ⟨d, hd'⟩ := v.fifo
        refine ⟨d ++ [s.pool id], ?_⟩
        show s.enqLog = (d ++ [s.pool id]) ++ (Ring.abs (Ring.apply (Ring.step s.q t) (.ack t))).map s.pool
        rw [ring_abs_apply _ _ (by intro u e; cases e), hd', ha, List.map_cons, List.append_assoc, List.singleton_append]
    · simp only [step, hz, hd]
      refine vinv_same s _ v rfl rfl ?_ (by intro u w' id' hu; simp only [thr_setThr] at hu; split at hu <;> simp_all)
      show Ring.abs (Ring.apply (Ring.step s.q t) (.ack t)) = Ring.abs s.q
      rw [ring_abs_apply _ _ (by intro u e; cases e), ha]
    · have hnd : ∀ r, (Ring.step s.q t).thr t ≠ .done r := by intro r e; rw [e] at hc; exact hc
      simp only [step, hz]
      split
      · next id e => exact absurd e (hnd _)
      · next e => exact absurd e (hnd _)
      · exact vinv_same s _ v rfl rfl ha (fun _ _ _ hu => hu)
  | dLen id =>
    simp only [step, hz]
    exact vinv_same s _ v rfl rfl rfl (by intro u w' id' hu; simp only [thr_setThr] at hu; split at hu <;> simp_all)
  | dLenH id =>
    simp only [step, hz]
    exact vinv_same s _ v rfl rfl rfl (by intro u w' id' hu; simp only [thr_setThr] at hu; split at hu <;> simp_all)
  | dDrop id w =>
    simp only [step, hz]
    exact vinv_same s _ v rfl rfl rfl (by intro u w' id' hu; simp only [thr_setThr] at hu; split at hu <;> simp_all)
  | dFreeHook id w =>
    simp only [step, hz]
    exact vinv_same s _ v rfl rfl rfl (by intro u w' id' hu; simp only [thr_setThr] at hu; split at hu <;> simp_all)
  | dFree id w =>
    simp only [step, hz]
    split <;> first
      | exact vinv_same s _ v rfl rfl rfl (by intro u w' id' hu; simp only [thr_setThr] at hu; split at hu <;> simp_all)
      | exact vinv_same s _ v rfl rfl rfl (fun _ _ _ hu => hu)
  | lLen =>
    simp only [step, hz]
    exact vinv_same s _ v rfl rfl rfl (by intro u w' id' hu; simp only [thr_setThr] at hu; split at hu <;> simp_all)
  | lLenH tl =>
    simp only [step, hz]
    exact vinv_same s _ v rfl rfl rfl (by intro u w' id' hu; simp only [thr_setThr] at hu; split at hu <;> simp_all)

theorem vinv_apply (s : St) (a : Act) (h : ZInv s) (v : VInv s) : VInv (apply s a) := by
  cases a with
  | step t => exact vinv_step s t h v
  | enqueue t w =>
    simp only [apply]; split
    · exact vinv_same s _ v rfl rfl rfl (by intro u w' id' hu; simp only [thr_setThr] at hu; split at hu <;> simp_all)
    · exact v
  | dequeue t =>
    simp only [apply]; split
    · refine vinv_same s _ v rfl rfl ?_ (by intro u w' id' hu; simp only [thr_setThr] at hu; split at hu <;> simp_all)
      exact ring_abs_apply _ _ (by intro u e; cases e)
    · exact v
  | len t =>
    simp only [apply]; split
    · exact vinv_same s _ v rfl rfl rfl (by intro u w' id' hu; simp only [thr_setThr] at hu; split at hu <;> simp_all)
    · exact v
  | ack t =>
    simp only [apply]; split
    · exact vinv_same s _ v rfl rfl rfl (by intro u w' id' hu; simp only [thr_setThr] at hu; split at hu <;> simp_all)
    · exact v

theorem vinv_reachable {n : Nat} (hn : 0 < n) {s : St} (h : Reachable n s) : ZInv s ∧ VInv s := by
  obtain ⟨as, rfl⟩ := h
  suffices ∀ s0, (ZInv s0 ∧ VInv s0) → (ZInv (run s0 as) ∧ VInv (run s0 as)) from
    this _ ⟨zinv_init n hn, ⟨by intro t v id h; simp [init] at h, ⟨[], by simp [init, Ring.abs, Ring.init]⟩⟩⟩
  induction as with
  | nil => intro s0 h0; exact h0
  | cons a as ih => intro s0 h0; exact ih _ ⟨zinv_apply s0 a h0.1, vinv_apply s0 a h0.1 h0.2⟩

end Mutiny.ZeroCopy
