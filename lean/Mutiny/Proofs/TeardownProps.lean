import Mutiny.Model.Teardown

/-!
# Teardown (drop order) lemmas for C05

`handleCount fields` : number of handle-holding fields; `lateHandles fields` : those declared after the first allocator.
`teardown fields k` reports `k * lateHandles fields` errors and `k * handleCount fields` destroyed handles;
`orderOk fields` says `lateHandles fields = 0`.
-/

namespace Mutiny.Teardown

def handleCount (fields : List Role) : Nat := fields.count .handles

/-- handle-holding fields declared (= dropped) after the first allocator field -/
def lateHandles : List Role → Nat
  | [] => 0
  | .allocator :: rest => handleCount rest
  | _ :: rest => lateHandles rest

theorem foldl_freed (k : Nat) (fields : List Role) : ∀ st : TState, st.poolFreed = true →
    (fields.foldl (dropField k) st).errors = st.errors + k * handleCount fields ∧
    (fields.foldl (dropField k) st).dropped = st.dropped + k * handleCount fields := by
  induction fields with
  | nil => intro st _; simp [handleCount]
  | cons r rest ih =>
    intro st hst
    cases r with
    | allocator =>
      have := ih (dropField k st .allocator) rfl
      simp only [List.foldl_cons, handleCount] at this ⊢
      rw [this.1, this.2]; simp [dropField]
    | handles =>
      have := ih (dropField k st .handles) hst
      simp only [List.foldl_cons, handleCount] at this ⊢
      rw [this.1, this.2]; simp [dropField, hst, Nat.mul_add]; omega
    | other =>
      have := ih (dropField k st .other) hst
      simp only [List.foldl_cons, handleCount] at this ⊢
      rw [this.1, this.2]; simp [dropField]

theorem foldl_notFreed (k : Nat) (fields : List Role) : ∀ st : TState, st.poolFreed = false →
    (fields.foldl (dropField k) st).errors = st.errors + k * lateHandles fields ∧
    (fields.foldl (dropField k) st).dropped = st.dropped + k * handleCount fields := by
  induction fields with
  | nil => intro st _; simp [handleCount, lateHandles]
  | cons r rest ih =>
    intro st hst
    cases r with
    | allocator =>
      have := foldl_freed k rest (dropField k st .allocator) rfl
      simp only [List.foldl_cons, handleCount, lateHandles] at this ⊢
      rw [this.1, this.2]; simp [dropField]
    | handles =>
      have := ih (dropField k st .handles) hst
      simp only [List.foldl_cons, handleCount, lateHandles] at this ⊢
      rw [this.1, this.2]; simp [dropField, hst, Nat.mul_add]; omega
    | other =>
      have := ih (dropField k st .other) hst
      simp only [List.foldl_cons, handleCount, lateHandles] at this ⊢
      rw [this.1, this.2]; simp [dropField]

theorem teardown_errors (fields : List Role) (k : Nat) : (teardown fields k).errors = k * lateHandles fields := by
  have := (foldl_notFreed k fields {} rfl).1
  simpa [teardown] using this

theorem teardown_dropped (fields : List Role) (k : Nat) : (teardown fields k).dropped = k * handleCount fields := by
  have := (foldl_notFreed k fields {} rfl).2
  simpa [teardown] using this

theorem orderOk_iff (fields : List Role) : orderOk fields = true ↔ lateHandles fields = 0 := by
  induction fields with
  | nil => simp [orderOk, lateHandles]
  | cons r rest ih =>
    cases r with
    | allocator => simp [orderOk, lateHandles, handleCount, List.count_eq_zero]
    | handles => simpa [orderOk, lateHandles] using ih
    | other => simpa [orderOk, lateHandles] using ih

/-- no pool access after the pool was freed, whatever number of handles is still buffered, iff no handle-holding
    field is declared after the allocator -/
theorem teardown_safe_iff (fields : List Role) : (∀ k, (teardown fields k).errors = 0) ↔ orderOk fields = true := by
  rw [orderOk_iff]
  constructor
  · intro h; have := h 1; rw [teardown_errors] at this; omega
  · intro h k; rw [teardown_errors, h]; rfl

end Mutiny.Teardown
