import Mutiny.Model.Multi

/-!
# `Multi` model (M6 + M7): completed operations, sequential histories, the bookkeeping invariant `WF`

* `stepN`, per-location step equations, the `sync` loop, the two fan-out loops run to completion;
* completed operations `callCreate`/`opCreate`, `callDrop`/`opDrop`, `callSend`/`opSend`, `callPoll`/`opPoll` as
  action lists given to `run` (one call on one thread, nobody interleaving) and their closed forms `spec…`;
* `WF` (quiescent well-formedness) and its preservation by every completed operation;
* `Fresh` (vacant ids have empty queues — needs `drains = true`) and the delivery accounting behind `c10_lifetime`.
-/

namespace Mutiny.Multi

attribute [ext] St

/-! ## plumbing -/

@[simp] theorem thr_setThr (s : St) (t : Nat) (l : Loc) (u : Nat) :
    (setThr s t l).thr u = if u = t then l else s.thr u := rfl
@[simp] theorem MAX_setThr (s : St) (t : Nat) (l : Loc) : (setThr s t l).MAX = s.MAX := rfl
@[simp] theorem N_setThr (s : St) (t : Nat) (l : Loc) : (setThr s t l).N = s.N := rfl
@[simp] theorem flavor_setThr (s : St) (t : Nat) (l : Loc) : (setThr s t l).flavor = s.flavor := rfl
@[simp] theorem drains_setThr (s : St) (t : Nat) (l : Loc) : (setThr s t l).drains = s.drains := rfl
@[simp] theorem vacant_setThr (s : St) (t : Nat) (l : Loc) : (setThr s t l).vacant = s.vacant := rfl
@[simp] theorem used_setThr (s : St) (t : Nat) (l : Loc) : (setThr s t l).used = s.used := rfl
@[simp] theorem count_setThr (s : St) (t : Nat) (l : Loc) : (setThr s t l).count = s.count := rfl
@[simp] theorem keep_setThr (s : St) (t : Nat) (l : Loc) : (setThr s t l).keep = s.keep := rfl
@[simp] theorem queues_setThr (s : St) (t : Nat) (l : Loc) : (setThr s t l).queues = s.queues := rfl
@[simp] theorem slock_setThr (s : St) (t : Nat) (l : Loc) : (setThr s t l).slock = s.slock := rfl
@[simp] theorem live_setThr (s : St) (t : Nat) (l : Loc) : (setThr s t l).live = s.live := rfl
@[simp] theorem inc_setThr (s : St) (t : Nat) (l : Loc) : (setThr s t l).inc = s.inc := rfl
@[simp] theorem delivered_setThr (s : St) (t : Nat) (l : Loc) : (setThr s t l).delivered = s.delivered := rfl
@[simp] theorem pubs_setThr (s : St) (t : Nat) (l : Loc) : (setThr s t l).pubs = s.pubs := rfl
@[simp] theorem refs_setThr (s : St) (t : Nat) (l : Loc) : (setThr s t l).refs = s.refs := rfl
@[simp] theorem sent_setThr (s : St) (t : Nat) (l : Loc) : (setThr s t l).sent = s.sent := rfl
@[simp] theorem started_setThr (s : St) (t : Nat) (l : Loc) : (setThr s t l).started = s.started := rfl

/-- close a goal `s₁ = s₂` between states built from record updates and `setThr` -/
macro "st_eq" : tactic =>
  `(tactic| (apply St.ext <;> (try simp) <;> (try (first | (simp_all; done) | (funext u; (try simp only [thr_setThr]); split <;> simp_all)))))


@[simp] theorem MAX_publish (s : St) (ev id : Nat) : (publish s ev id).MAX = s.MAX := rfl
@[simp] theorem N_publish (s : St) (ev id : Nat) : (publish s ev id).N = s.N := rfl
@[simp] theorem flavor_publish (s : St) (ev id : Nat) : (publish s ev id).flavor = s.flavor := rfl
@[simp] theorem drains_publish (s : St) (ev id : Nat) : (publish s ev id).drains = s.drains := rfl
@[simp] theorem vacant_publish (s : St) (ev id : Nat) : (publish s ev id).vacant = s.vacant := rfl
@[simp] theorem used_publish (s : St) (ev id : Nat) : (publish s ev id).used = s.used := rfl
@[simp] theorem count_publish (s : St) (ev id : Nat) : (publish s ev id).count = s.count := rfl
@[simp] theorem keep_publish (s : St) (ev id : Nat) : (publish s ev id).keep = s.keep := rfl
@[simp] theorem slock_publish (s : St) (ev id : Nat) : (publish s ev id).slock = s.slock := rfl
@[simp] theorem thr_publish (s : St) (ev id : Nat) : (publish s ev id).thr = s.thr := rfl
@[simp] theorem live_publish (s : St) (ev id : Nat) : (publish s ev id).live = s.live := rfl
@[simp] theorem inc_publish (s : St) (ev id : Nat) : (publish s ev id).inc = s.inc := rfl
@[simp] theorem delivered_publish (s : St) (ev id : Nat) : (publish s ev id).delivered = s.delivered := rfl
@[simp] theorem refs_publish (s : St) (ev id : Nat) : (publish s ev id).refs = s.refs := rfl
@[simp] theorem sent_publish (s : St) (ev id : Nat) : (publish s ev id).sent = s.sent := rfl
@[simp] theorem started_publish (s : St) (ev id : Nat) : (publish s ev id).started = s.started := rfl
@[simp] theorem queues_publish (s : St) (ev id : Nat) :
    (publish s ev id).queues = fun j => if j = id then s.queues j ++ [ev] else s.queues j := rfl
@[simp] theorem pubs_publish (s : St) (ev id : Nat) : (publish s ev id).pubs = s.pubs ++ [(ev, id)] := rfl

theorem setThr_setThr (s : St) (t : Nat) (a b : Loc) : setThr (setThr s t a) t b = setThr s t b := by
  ext <;> simp
  split <;> rfl

theorem setThr_self (s : St) (t : Nat) (a : Loc) (h : s.thr t = a) : setThr s t a = s := by
  ext <;> simp
  rintro rfl; exact h.symm

theorem run_append (s : St) (as bs : List Act) : run s (as ++ bs) = run (run s as) bs := by
  simp [run, List.foldl_append]

@[simp] theorem run_nil (s : St) : run s [] = s := rfl
@[simp] theorem run_cons (s : St) (a : Act) (as : List Act) : run s (a :: as) = run (apply s a) as := rfl

/-- `k` consecutive steps of thread `t` -/
def stepN (t : Nat) : Nat → St → St
  | 0, s => s
  | k + 1, s => stepN t k (step s t)

@[simp] theorem stepN_zero (t : Nat) (s : St) : stepN t 0 s = s := rfl
theorem stepN_succ (t k : Nat) (s : St) : stepN t (k + 1) s = stepN t k (step s t) := rfl

theorem run_replicate_step (t : Nat) : ∀ (k : Nat) (s : St), run s (List.replicate k (.step t)) = stepN t k s
  | 0, _ => rfl
  | k + 1, s => by simp [List.replicate_succ, stepN_succ, apply, run_replicate_step t k]

theorem stepN_add (t : Nat) : ∀ (a b : Nat) (s : St), stepN t (a + b) s = stepN t b (stepN t a s)
  | 0, b, s => by simp
  | a + 1, b, s => by rw [show a + 1 + b = (a + b) + 1 by omega, stepN_succ, stepN_succ, stepN_add t a b]

theorem step_idle {s : St} {t : Nat} (h : s.thr t = .idle) : step s t = s := by simp only [step, h]
theorem step_done {s : St} {t : Nat} {r : Res} (h : s.thr t = .done r) : step s t = s := by simp only [step, h]

theorem stepN_done {s : St} {t : Nat} {r : Res} (h : s.thr t = .done r) : ∀ k, stepN t k s = s
  | 0 => rfl
  | k + 1 => by rw [stepN_succ, step_done h, stepN_done h k]

/-- run `a` steps to reach a `done` state: any larger number of steps gives the same state -/
theorem stepN_of_done {s s' : St} {t a : Nat} {r : Res} (h : stepN t a s = s') (hd : s'.thr t = .done r)
    (k : Nat) (hk : a ≤ k) : stepN t k s = s' := by
  obtain ⟨b, rfl⟩ : ∃ b, k = a + b := ⟨k - a, by omega⟩
  rw [stepN_add, h, stepN_done hd]

/-! ## `sync_vacant_and_used_streams` run to completion -/

/-- the non-vacant ids, ascending -/
def usedIds (mx : Nat) (vacant : List Nat) : List Nat := (List.range mx).filter (fun i => !vacant.contains i)

theorem syncPlan_eq (mx : Nat) (v : List Nat) :
    syncPlan mx v = usedIds mx v ++ List.replicate (mx - (usedIds mx v).length) mx := rfl

theorem usedIds_length_le (mx : Nat) (v : List Nat) : (usedIds mx v).length ≤ mx := by
  have := List.length_filter_le (fun i => !v.contains i) (List.range mx)
  simpa [usedIds] using this

@[simp] theorem syncPlan_length (mx : Nat) (v : List Nat) : (syncPlan mx v).length = mx := by
  have := usedIds_length_le mx v
  simp [syncPlan_eq]; omega

theorem mem_usedIds {mx : Nat} {v : List Nat} {i : Nat} : i ∈ usedIds mx v ↔ i < mx ∧ i ∉ v := by
  simp [usedIds]

theorem usedIds_nodup (mx : Nat) (v : List Nat) : (usedIds mx v).Nodup :=
  List.Nodup.sublist List.filter_sublist List.nodup_range

theorem take_succ_set {l : List Nat} {i x : Nat} (h : i < l.length) :
    (l.set i x).take (i + 1) = l.take i ++ [x] := by
  rw [List.set_eq_take_append_cons_drop, if_pos h, List.take_append, List.take_take]
  simp [Nat.min_eq_left (Nat.le_of_lt h)]

theorem stepN_yWrite (t : Nat) (r : Res) : ∀ (rest : List Nat) (s : St) (i : Nat),
    s.thr t = .yWrite r i rest → rest ≠ [] → i + rest.length = s.used.length →
    stepN t rest.length s = setThr { s with used := s.used.take i ++ rest, slock := false } t (.done r) := by
  intro rest
  induction rest with
  | nil => intro s i _ h; exact absurd rfl h
  | cons x more ih =>
    intro s i ht _ hl
    cases more with
    | nil =>
      simp only [List.length_cons, List.length_nil, Nat.zero_add, stepN_succ, stepN_zero, step, ht]
      have : s.used.set i x = s.used.take i ++ [x] := by
        rw [List.set_eq_take_append_cons_drop]
        simp at hl
        simp [show i < s.used.length by omega, show s.used.length ≤ i + 1 by omega]
      rw [this]
    | cons y more =>
      rw [List.length_cons, stepN_succ]
      have hs : step s t = setThr { s with used := s.used.set i x } t (.yWrite r (i + 1) (y :: more)) := by
        simp only [step, ht]
      rw [hs, ih _ (i + 1) (by simp) (by simp) (by simp at hl ⊢; omega)]
      simp at hl
      apply St.ext <;> simp
      · rw [take_succ_set (by omega)]; simp
      · funext u; simp only [thr_setThr]; split <;> rfl

theorem stepN_sync {s : St} {t : Nat} {r : Res} (ht : s.thr t = .yLock r) (hl : s.slock = false)
    (hu : s.used.length = s.MAX) (hm : 0 < s.MAX) (k : Nat) (hk : s.MAX + 2 ≤ k) :
    stepN t k s = setThr { s with used := syncPlan s.MAX s.vacant, slock := false } t (.done r) := by
  refine stepN_of_done (a := s.MAX + 2) (r := r) ?_ (by simp) k hk
  rw [show s.MAX + 2 = 1 + (1 + s.MAX) by omega, stepN_add, stepN_add]
  have h1 : stepN t 1 s = setThr { s with slock := true } t (.yPeek r) := by
    simp [stepN_succ, step, ht, hl]
  have hp : syncPlan s.MAX s.vacant ≠ [] := by
    intro h; have := syncPlan_length s.MAX s.vacant; rw [h] at this; simp at this; omega
  have h2 : stepN t 1 (setThr { s with slock := true } t (.yPeek r)) =
      setThr { s with slock := true } t (.yWrite r 0 (syncPlan s.MAX s.vacant)) := by
    simp only [stepN_succ, stepN_zero, step, thr_setThr, if_pos, MAX_setThr, vacant_setThr]
    cases h : syncPlan s.MAX s.vacant with
    | nil => exact absurd h hp
    | cons x xs => simp [setThr_setThr]
  rw [h1, h2]
  have h3 := stepN_yWrite t r (syncPlan s.MAX s.vacant)
    (setThr { s with slock := true } t (.yWrite r 0 (syncPlan s.MAX s.vacant))) 0 (by simp) hp (by simp [hu])
  rw [syncPlan_length] at h3
  rw [h3]
  apply St.ext <;> simp
  funext u; simp only [thr_setThr]; split <;> rfl

/-! ## completed operations -/

/-- one `create_stream_id` call run to completion on thread `t` (fuel `MAX + 6` ≥ the `MAX + 5` steps of the call) -/
def callCreate (t : Nat) (s : St) : St := run s (.create t :: List.replicate (s.MAX + 6) (.step t))
/-- … and acknowledged -/
def opCreate (t : Nat) (s : St) : St := apply (callCreate t s) (.ack t)

def callDrop (t id : Nat) (s : St) : St := run s (.drop t id :: List.replicate (s.MAX + 6) (.step t))
def opDrop (t id : Nat) (s : St) : St := apply (callDrop t id s) (.ack t)

def callSend (t ev : Nat) (s : St) : St := run s (.send t ev :: List.replicate (s.MAX + 6) (.step t))
def opSend (t ev : Nat) (s : St) : St := apply (callSend t ev s) (.ack t)

def callPoll (t id : Nat) (s : St) : St := run s (.poll t id :: List.replicate (s.MAX + 6) (.step t))
def opPoll (t id : Nat) (s : St) : St := apply (callPoll t id s) (.ack t)

theorem opCreate_eq_run (t : Nat) (s : St) :
    opCreate t s = run s ([.create t] ++ List.replicate (s.MAX + 6) (.step t) ++ [.ack t]) := by
  simp [opCreate, callCreate, run_append]

def specCreate (s : St) (j : Nat) (rest : List Nat) : St :=
  { s with count := s.count + 1, vacant := rest, keep := fun i => if i = j then true else s.keep i,
           live := s.live ++ [j], inc := fun i => if i = j then s.inc i + 1 else s.inc i,
           used := syncPlan s.MAX rest, slock := false }

theorem callCreate_eq {s : St} {t j : Nat} {rest : List Nat} (hi : s.thr t = .idle) (hl : s.slock = false)
    (hu : s.used.length = s.MAX) (hv : s.vacant = j :: rest) (hm : 0 < s.MAX) :
    callCreate t s = setThr (specCreate s j rest) t (.done (.id j)) := by
  simp only [callCreate, run_cons, run_replicate_step, apply, hi, if_pos]
  rw [show s.MAX + 6 = 3 + (s.MAX + 3) by omega, stepN_add]
  have e : stepN t 3 (setThr s t .cCount) =
      setThr { s with count := s.count + 1, vacant := rest, keep := fun i => if i = j then true else s.keep i,
                      live := s.live ++ [j], inc := fun i => if i = j then s.inc i + 1 else s.inc i }
        t (.yLock (.id j)) := by
    simp only [stepN_succ, stepN_zero, step, thr_setThr, if_pos, vacant_setThr, hv]
    st_eq
  rw [e, stepN_sync (r := .id j) (by simp) (by simpa using hl) (by simpa using hu) (by simpa using hm) _
    (by simp)]
  simp only [specCreate]
  st_eq

def specDrop (s : St) (id : Nat) : St :=
  { s with live := s.live.erase id, count := s.count - 1, vacant := s.vacant ++ [id],
           used := syncPlan s.MAX (s.vacant ++ [id]), slock := false,
           queues := if s.drains then (fun j => if j = id then [] else s.queues j) else s.queues,
           refs := if s.drains then (fun e => s.refs e - (s.queues id).count e) else s.refs }

theorem callDrop_eq {s : St} {t id : Nat} (hi : s.thr t = .idle) (hl : s.slock = false)
    (hu : s.used.length = s.MAX) (hid : id ∈ s.live) (hm : 0 < s.MAX) :
    callDrop t id s = setThr (specDrop s id) t (.done .unit) := by
  simp only [callDrop, run_cons, run_replicate_step, apply, hi, hid, and_self, if_pos]
  rcases Bool.eq_false_or_eq_true s.drains with hd | hd
  · rw [show s.MAX + 6 = 3 + (s.MAX + 3) by omega, stepN_add]
    have e : stepN t 3 (setThr { s with live := s.live.erase id } t (if s.drains = true then .dDrain id else .dCount id)) =
        setThr { s with live := s.live.erase id, count := s.count - 1, vacant := s.vacant ++ [id],
                        queues := fun j => if j = id then [] else s.queues j,
                        refs := fun e => s.refs e - (s.queues id).count e } t (.yLock .unit) := by
      simp only [stepN_succ, stepN_zero, step, thr_setThr, if_pos, hd]
      st_eq
    rw [e, stepN_sync (r := .unit) (by simp) (by simpa using hl) (by simpa using hu) (by simpa using hm) _
      (by simp)]
    simp only [specDrop, hd]
    st_eq
  · rw [show s.MAX + 6 = 2 + (s.MAX + 4) by omega, stepN_add]
    have e : stepN t 2 (setThr { s with live := s.live.erase id } t (if s.drains = true then .dDrain id else .dCount id)) =
        setThr { s with live := s.live.erase id, count := s.count - 1, vacant := s.vacant ++ [id] }
          t (.yLock .unit) := by
      simp only [stepN_succ, stepN_zero, step, thr_setThr, if_pos, hd]
      st_eq
    rw [e, stepN_sync (r := .unit) (by simp) (by simpa using hl) (by simpa using hu) (by simpa using hm) _
      (by simp)]
    simp only [specDrop, hd]
    st_eq

def specPoll (s : St) (id : Nat) : St :=
  match s.queues id with
  | ev :: rest => { s with queues := fun j => if j = id then rest else s.queues j,
                           delivered := s.delivered ++ [(id, s.inc id, ev)] }
  | [] => s

theorem callPoll_eq {s : St} {t id : Nat} (hi : s.thr t = .idle) :
    callPoll t id s = setThr (specPoll s id) t (.done (.item (s.queues id).head?)) := by
  simp only [callPoll, run_cons, run_replicate_step, apply, hi, if_pos]
  refine stepN_of_done (a := 1) (r := .item (s.queues id).head?) ?_ (by simp) _ (by omega)
  simp only [stepN_succ, stepN_zero, step, thr_setThr, if_pos, queues_setThr, specPoll]
  cases s.queues id <;> simp <;> st_eq

/-! ### fan-out -/

/-- publish `ev` into the queue of every id of `l` (in the order of `l`) -/
def pubAll (s : St) (ev : Nat) (l : List Nat) : St :=
  { s with queues := fun j => s.queues j ++ List.replicate (l.count j) ev,
           pubs := s.pubs ++ l.map (fun id => (ev, id)) }

@[simp] theorem MAX_pubAll (s : St) (ev : Nat) (l : List Nat) : (pubAll s ev l).MAX = s.MAX := rfl
@[simp] theorem N_pubAll (s : St) (ev : Nat) (l : List Nat) : (pubAll s ev l).N = s.N := rfl
@[simp] theorem flavor_pubAll (s : St) (ev : Nat) (l : List Nat) : (pubAll s ev l).flavor = s.flavor := rfl
@[simp] theorem drains_pubAll (s : St) (ev : Nat) (l : List Nat) : (pubAll s ev l).drains = s.drains := rfl
@[simp] theorem vacant_pubAll (s : St) (ev : Nat) (l : List Nat) : (pubAll s ev l).vacant = s.vacant := rfl
@[simp] theorem used_pubAll (s : St) (ev : Nat) (l : List Nat) : (pubAll s ev l).used = s.used := rfl
@[simp] theorem count_pubAll (s : St) (ev : Nat) (l : List Nat) : (pubAll s ev l).count = s.count := rfl
@[simp] theorem keep_pubAll (s : St) (ev : Nat) (l : List Nat) : (pubAll s ev l).keep = s.keep := rfl
@[simp] theorem slock_pubAll (s : St) (ev : Nat) (l : List Nat) : (pubAll s ev l).slock = s.slock := rfl
@[simp] theorem thr_pubAll (s : St) (ev : Nat) (l : List Nat) : (pubAll s ev l).thr = s.thr := rfl
@[simp] theorem live_pubAll (s : St) (ev : Nat) (l : List Nat) : (pubAll s ev l).live = s.live := rfl
@[simp] theorem inc_pubAll (s : St) (ev : Nat) (l : List Nat) : (pubAll s ev l).inc = s.inc := rfl
@[simp] theorem delivered_pubAll (s : St) (ev : Nat) (l : List Nat) : (pubAll s ev l).delivered = s.delivered := rfl
@[simp] theorem refs_pubAll (s : St) (ev : Nat) (l : List Nat) : (pubAll s ev l).refs = s.refs := rfl
@[simp] theorem sent_pubAll (s : St) (ev : Nat) (l : List Nat) : (pubAll s ev l).sent = s.sent := rfl
@[simp] theorem started_pubAll (s : St) (ev : Nat) (l : List Nat) : (pubAll s ev l).started = s.started := rfl
@[simp] theorem queues_pubAll (s : St) (ev : Nat) (l : List Nat) :
    (pubAll s ev l).queues = fun j => s.queues j ++ List.replicate (l.count j) ev := rfl
@[simp] theorem pubs_pubAll (s : St) (ev : Nat) (l : List Nat) :
    (pubAll s ev l).pubs = s.pubs ++ l.map (fun id => (ev, id)) := rfl

theorem pubAll_nil (s : St) (ev : Nat) : pubAll s ev [] = s := by
  simp only [pubAll]; st_eq

theorem pubAll_cons (s : St) (ev x : Nat) (l : List Nat) : pubAll (publish s ev x) ev l = pubAll s ev (x :: l) := by
  simp only [pubAll, publish]
  apply St.ext <;> simp
  funext j
  by_cases h : j = x
  · subst h; simp [List.replicate_succ]
  · simp [h, Ne.symm h]

theorem getD_of_drop {l : List Nat} {i x d : Nat} {r : List Nat} (h : l.drop i = x :: r) : l.getD i d = x := by
  have := List.getElem?_drop (xs := l) (i := i) (j := 0)
  rw [h] at this
  simp at this
  simp [List.getD_eq_getElem?_getD, ← this]

theorem getD_of_drop_replicate {l : List Nat} {i m d : Nat} (h : l.drop i = List.replicate m d) : l.getD i d = d := by
  cases m with
  | zero =>
    have : l.length ≤ i := by simpa [List.drop_eq_nil_iff] using h
    simp [List.getD_eq_getElem?_getD, List.getElem?_eq_none this]
  | succ m => exact getD_of_drop (by rw [h, List.replicate_succ])

theorem stepN_fArc (t ev : Nat) : ∀ (l : List Nat) (s : St) (i m : Nat),
    s.thr t = .fArc ev i (s.used.getD i s.MAX) → s.used.drop i = l ++ List.replicate m s.MAX →
    (∀ x ∈ l, x ≠ s.MAX) → s.used.length = s.MAX →
    stepN t (l.length + 1) s = setThr { pubAll s ev l with sent := s.sent ++ [ev] } t (.done .unit) := by
  intro l
  induction l with
  | nil =>
    intro s i m ht hd _ _
    rw [getD_of_drop_replicate (by simpa using hd)] at ht
    simp only [List.length_nil, Nat.zero_add, stepN_succ, stepN_zero, step, ht, if_pos, pubAll_nil]
  | cons x l ih =>
    intro s i m ht hd hx hu
    rw [getD_of_drop hd] at ht
    have hxm : x ≠ s.MAX := hx x (by simp)
    have hd' : s.used.drop (i + 1) = l ++ List.replicate m s.MAX := by
      rw [← List.tail_drop, hd]; rfl
    rw [List.length_cons, stepN_succ]
    by_cases hi : i + 1 < s.MAX
    · have hs : step s t = setThr (publish s ev x) t (.fArc ev (i + 1) (s.used.getD (i + 1) s.MAX)) := by
        simp only [step, ht, if_neg hxm, if_pos hi]
      rw [hs, ih _ (i + 1) m (by simp [publish]) (by simpa [publish] using hd')
        (by intro y hy; simpa [publish] using hx y (by simp [hy])) (by simpa [publish] using hu)]
      rw [← pubAll_cons]
      st_eq
    · have hl : l = [] ∧ m = 0 := by
        have : s.used.drop (i + 1) = [] := List.drop_eq_nil_of_le (by omega)
        rw [this] at hd'
        have := congrArg List.length hd'
        simp at this
        exact ⟨List.eq_nil_of_length_eq_zero (by omega), by omega⟩
      obtain ⟨rfl, rfl⟩ := hl
      have hs : step s t = setThr { pubAll s ev [x] with sent := s.sent ++ [ev] } t (.done .unit) := by
        simp only [step, ht, if_neg hxm, if_neg hi, ← pubAll_cons, pubAll_nil]
        st_eq
      rw [hs, stepN_done (r := .unit) (by simp)]

theorem stepN_fOgre (t ev cnt : Nat) : ∀ (l : List Nat) (s : St) (i : Nat) (rest : List Nat),
    s.thr t = .fOgre ev i cnt → s.used.drop i = l ++ rest → (∀ x ∈ l, x ≠ s.MAX) → l ≠ [] → i + l.length = cnt →
    stepN t l.length s =
      setThr { pubAll s ev l with refs := fun e => if e = ev then s.refs e - 1 else s.refs e,
                                  sent := s.sent ++ [ev] } t (.done .unit) := by
  intro l
  induction l with
  | nil => intro s i rest _ _ _ h; exact absurd rfl h
  | cons x l ih =>
    intro s i rest ht hd hx _ hc
    have hg : s.used.getD i s.MAX = x := getD_of_drop hd
    have hxm : x ≠ s.MAX := hx x (by simp)
    have hd' : s.used.drop (i + 1) = l ++ rest := by
      rw [← List.tail_drop, hd]; rfl
    rw [List.length_cons, stepN_succ]
    by_cases hl : l = []
    · subst hl
      simp only [List.length_nil, stepN_zero, step, ht, hg, if_neg hxm]
      rw [if_neg (by simp at hc; omega), ← pubAll_cons, pubAll_nil]
      st_eq
    · have hpos : 0 < l.length := List.length_pos_iff.2 hl
      have hs : step s t = setThr (publish s ev x) t (.fOgre ev (i + 1) cnt) := by
        simp only [step, ht, hg, if_neg hxm]
        rw [if_pos (by simp at hc; omega)]
      rw [hs, ih _ (i + 1) rest (by simp) (by simpa using hd')
        (by intro z hz; simpa using hx z (by simp [hz])) hl (by simp at hc ⊢; omega)]
      rw [← pubAll_cons]
      st_eq

theorem usedIds_ne_max {mx : Nat} {v : List Nat} : ∀ x ∈ usedIds mx v, x ≠ mx := by
  intro x hx; have := (mem_usedIds.1 hx).1; omega

theorem usedIds_zero (v : List Nat) : usedIds 0 v = [] := by simp [usedIds]

/-- the `ogre_arc` fan-out from `fCount` on, in a state whose `used`/`count` are in sync with `vacant` -/
theorem stepN_fCount {s : St} {t ev : Nat} (ht : s.thr t = .fCount ev) (hu : s.used = syncPlan s.MAX s.vacant)
    (hc : s.count = (usedIds s.MAX s.vacant).length) :
    stepN t (1 + (usedIds s.MAX s.vacant).length) s =
      setThr { pubAll s ev (usedIds s.MAX s.vacant) with
                 refs := fun e => if e = ev then s.refs e + s.count - 1 else s.refs e,
                 sent := s.sent ++ [ev] } t (.done .unit) := by
  by_cases h0 : s.count = 0
  · have hn : usedIds s.MAX s.vacant = [] := List.eq_nil_of_length_eq_zero (by omega)
    simp only [hn, List.length_nil, stepN_succ, stepN_zero, step, ht, h0, if_pos, pubAll_nil]
    st_eq
  · rw [stepN_add]
    have e : stepN t 1 s = setThr { s with refs := fun e => if e = ev then s.refs e + s.count else s.refs e }
        t (.fOgre ev 0 s.count) := by
      simp only [stepN_succ, stepN_zero, step, ht, if_neg h0]
    rw [e, stepN_fOgre t ev s.count (usedIds s.MAX s.vacant) _ 0
      (List.replicate (s.MAX - (usedIds s.MAX s.vacant).length) s.MAX) (by simp)
      (by simp [hu, syncPlan_eq]) (by simpa using usedIds_ne_max)
      (by intro h; rw [h] at hc; exact h0 (by simpa using hc)) (by omega)]
    st_eq

/-- whether `send` finds a free payload slot (`arc` has no pool) -/
def accepts (s : St) : Bool :=
  match s.flavor with
  | .arc => true
  | .ogreArc => decide ((s.started.filter (fun e => s.refs e > 0)).length < s.N)

def specSend (s : St) (ev : Nat) : St :=
  match s.flavor with
  | .arc => { pubAll s ev (usedIds s.MAX s.vacant) with sent := s.sent ++ [ev] }
  | .ogreArc =>
      if (s.started.filter (fun e => s.refs e > 0)).length < s.N then
        { pubAll s ev (usedIds s.MAX s.vacant) with
            refs := fun e => if e = ev then s.count else s.refs e,
            started := s.started ++ [ev], sent := s.sent ++ [ev] }
      else s

def sendRes (s : St) : Res := if accepts s then .unit else .full

/-! projections of `specSend` -/

@[simp] theorem MAX_specSend (s : St) (ev : Nat) : (specSend s ev).MAX = s.MAX := by
  simp only [specSend]; split <;> (try split) <;> rfl
@[simp] theorem N_specSend (s : St) (ev : Nat) : (specSend s ev).N = s.N := by
  simp only [specSend]; split <;> (try split) <;> rfl
@[simp] theorem flavor_specSend (s : St) (ev : Nat) : (specSend s ev).flavor = s.flavor := by
  simp only [specSend]; split <;> (try split) <;> rfl
@[simp] theorem drains_specSend (s : St) (ev : Nat) : (specSend s ev).drains = s.drains := by
  simp only [specSend]; split <;> (try split) <;> rfl
@[simp] theorem vacant_specSend (s : St) (ev : Nat) : (specSend s ev).vacant = s.vacant := by
  simp only [specSend]; split <;> (try split) <;> rfl
@[simp] theorem used_specSend (s : St) (ev : Nat) : (specSend s ev).used = s.used := by
  simp only [specSend]; split <;> (try split) <;> rfl
@[simp] theorem count_specSend (s : St) (ev : Nat) : (specSend s ev).count = s.count := by
  simp only [specSend]; split <;> (try split) <;> rfl
@[simp] theorem keep_specSend (s : St) (ev : Nat) : (specSend s ev).keep = s.keep := by
  simp only [specSend]; split <;> (try split) <;> rfl
@[simp] theorem slock_specSend (s : St) (ev : Nat) : (specSend s ev).slock = s.slock := by
  simp only [specSend]; split <;> (try split) <;> rfl
@[simp] theorem thr_specSend (s : St) (ev : Nat) : (specSend s ev).thr = s.thr := by
  simp only [specSend]; split <;> (try split) <;> rfl
@[simp] theorem live_specSend (s : St) (ev : Nat) : (specSend s ev).live = s.live := by
  simp only [specSend]; split <;> (try split) <;> rfl
@[simp] theorem inc_specSend (s : St) (ev : Nat) : (specSend s ev).inc = s.inc := by
  simp only [specSend]; split <;> (try split) <;> rfl
@[simp] theorem delivered_specSend (s : St) (ev : Nat) : (specSend s ev).delivered = s.delivered := by
  simp only [specSend]; split <;> (try split) <;> rfl
theorem queues_specSend (s : St) (ev : Nat) :
    (specSend s ev).queues =
      if accepts s then fun j => s.queues j ++ List.replicate ((usedIds s.MAX s.vacant).count j) ev else s.queues := by
  have hfl : s.flavor = .arc ∨ s.flavor = .ogreArc := by cases s.flavor <;> simp
  rcases hfl with hf | hf <;> simp only [specSend, accepts, hf] <;> (try split) <;> simp_all <;> omega
theorem pubs_specSend (s : St) (ev : Nat) :
    (specSend s ev).pubs =
      if accepts s then s.pubs ++ (usedIds s.MAX s.vacant).map (fun id => (ev, id)) else s.pubs := by
  have hfl : s.flavor = .arc ∨ s.flavor = .ogreArc := by cases s.flavor <;> simp
  rcases hfl with hf | hf <;> simp only [specSend, accepts, hf] <;> (try split) <;> simp_all <;> omega
theorem sent_specSend (s : St) (ev : Nat) :
    (specSend s ev).sent = if accepts s then s.sent ++ [ev] else s.sent := by
  have hfl : s.flavor = .arc ∨ s.flavor = .ogreArc := by cases s.flavor <;> simp
  rcases hfl with hf | hf <;> simp only [specSend, accepts, hf] <;> (try split) <;> simp_all <;> omega

theorem callSend_eq {s : St} {t ev : Nat} (hi : s.thr t = .idle) (hu : s.used = syncPlan s.MAX s.vacant)
    (hc : s.count = (usedIds s.MAX s.vacant).length) :
    callSend t ev s = setThr (specSend s ev) t (.done (sendRes s)) := by
  simp only [callSend, run_cons, run_replicate_step, apply, hi, if_pos]
  have hfl : s.flavor = .arc ∨ s.flavor = .ogreArc := by cases s.flavor <;> simp
  rcases hfl with hf | hf
  · simp only [hf]
    simp only [specSend, sendRes, accepts, hf, if_pos]
    by_cases hm : s.MAX = 0
    · simp only [hm, if_pos]
      rw [stepN_done (r := .unit) (by simp), usedIds_zero, pubAll_nil]
      st_eq
    · simp only [if_neg hm]
      refine stepN_of_done (a := (usedIds s.MAX s.vacant).length + 1) (r := .unit) ?_ (by simp) _
        (by have := usedIds_length_le s.MAX s.vacant; omega)
      rw [stepN_fArc t ev (usedIds s.MAX s.vacant) _ 0 (s.MAX - (usedIds s.MAX s.vacant).length) (by simp)
        (by simp [hu, syncPlan_eq]) (by simpa using usedIds_ne_max) (by simp [hu])]
      st_eq
  · simp only [hf]
    simp only [specSend, sendRes, accepts, hf]
    by_cases ha : (s.started.filter (fun e => s.refs e > 0)).length < s.N
    · simp only [if_pos ha, decide_eq_true ha, if_pos]
      refine stepN_of_done (a := 1 + (usedIds s.MAX s.vacant).length) (r := .unit) ?_ (by simp) _
        (by have := usedIds_length_le s.MAX s.vacant; omega)
      have h := stepN_fCount (s := setThr { s with refs := fun e => if e = ev then 1 else s.refs e,
                                                    started := s.started ++ [ev] } t (.fCount ev))
        (t := t) (ev := ev) (by simp) (by simpa using hu) (by simpa using hc)
      simp only [MAX_setThr, vacant_setThr, hf] at h
      rw [h]
      st_eq
    · simp only [if_neg ha, decide_eq_false ha]
      rw [stepN_done (r := .full) (by simp)]
      simp

theorem ack_setThr_done {s : St} {t : Nat} {r : Res} (h : s.thr t = .idle) :
    apply (setThr s t (.done r)) (.ack t) = s := by
  simp only [apply, thr_setThr, if_pos, setThr_setThr]
  exact setThr_self s t .idle h

/-! ## quiescent well-formedness -/

structure WF (s : St) : Prop where
  idle     : ∀ t, s.thr t = .idle
  unlocked : s.slock = false
  liveND   : s.live.Nodup
  vacND    : s.vacant.Nodup
  vacLt    : ∀ i ∈ s.vacant, i < s.MAX
  liveLt   : ∀ i ∈ s.live, i < s.MAX
  /-- `vacant` and `live` partition `0..MAX-1` -/
  part     : ∀ i, i < s.MAX → (i ∈ s.vacant ↔ i ∉ s.live)
  countEq  : s.count = s.live.length
  /-- `used` = the live ids ascending, then sentinels; `MAX` entries -/
  usedEq   : s.used = syncPlan s.MAX s.vacant

theorem wf_init (mx n : Nat) (f : Flavor) (d : Bool) : WF (init mx n f d) := by
  constructor <;> simp [init]
  · exact List.nodup_range
  · have : usedIds mx (List.range mx) = [] := by
      simp [usedIds]
    simp [syncPlan_eq, this]

namespace WF

theorem mem_usedIds' {s : St} (h : WF s) {i : Nat} : i ∈ usedIds s.MAX s.vacant ↔ i ∈ s.live := by
  rw [mem_usedIds]
  constructor
  · rintro ⟨h1, h2⟩
    exact Classical.not_not.1 (fun hn => h2 ((h.part i h1).2 hn))
  · intro hl
    exact ⟨h.liveLt i hl, fun hv => (h.part i (h.liveLt i hl)).1 hv hl⟩

theorem usedIds_perm {s : St} (h : WF s) : (usedIds s.MAX s.vacant).Perm s.live :=
  (List.perm_ext_iff_of_nodup (usedIds_nodup _ _) h.liveND).2 (fun _ => h.mem_usedIds')

theorem usedIds_length {s : St} (h : WF s) : (usedIds s.MAX s.vacant).length = s.live.length :=
  h.usedIds_perm.length_eq

theorem lenSum {s : St} (h : WF s) : s.vacant.length + s.live.length = s.MAX := by
  have hnd : (s.vacant ++ s.live).Nodup := by
    rw [List.nodup_append]
    refine ⟨h.vacND, h.liveND, ?_⟩
    intro a ha b hb hab
    subst hab
    exact (h.part a (h.vacLt a ha)).1 ha hb
  have hp : (s.vacant ++ s.live).Perm (List.range s.MAX) := by
    refine (List.perm_ext_iff_of_nodup hnd List.nodup_range).2 (fun a => ?_)
    simp only [List.mem_append, List.mem_range]
    constructor
    · rintro (ha | ha)
      · exact h.vacLt a ha
      · exact h.liveLt a ha
    · intro ha
      by_cases hl : a ∈ s.live
      · exact .inr hl
      · exact .inl ((h.part a ha).2 hl)
  simpa using hp.length_eq

/-- ids are never exhausted by churn -/
theorem vacant_ne_nil {s : St} (h : WF s) (hl : s.live.length < s.MAX) : s.vacant ≠ [] := by
  intro hv
  have := h.lenSum
  simp [hv] at this
  omega

theorem count_le {s : St} (h : WF s) : s.count ≤ s.MAX := by
  have := h.lenSum; have := h.countEq; omega

theorem used_length {s : St} (h : WF s) : s.used.length = s.MAX := by
  rw [h.usedEq, syncPlan_length]

end WF

/-! ### each completed operation preserves `WF` -/

theorem wf_specCreate {s : St} {j : Nat} {rest : List Nat} (h : WF s) (hv : s.vacant = j :: rest) :
    WF (specCreate s j rest) := by
  have hj : j ∈ s.vacant := by simp [hv]
  have hjm := h.vacLt j hj
  have hjl : j ∉ s.live := (h.part j hjm).1 hj
  have hnd := h.vacND
  rw [hv, List.nodup_cons] at hnd
  constructor <;> simp only [specCreate]
  · exact h.idle
  · exact List.nodup_append.2 ⟨h.liveND, by simp, by simp; rintro a ha rfl; exact hjl ha⟩
  · exact hnd.2
  · intro i hi; exact h.vacLt i (by simp [hv, hi])
  · intro i hi
    rcases List.mem_append.1 hi with hi | hi
    · exact h.liveLt i hi
    · simp at hi; omega
  · intro i hi
    have := h.part i hi
    simp only [hv, List.mem_cons, List.mem_append] at this ⊢
    constructor
    · intro hr
      have hne : i ≠ j := by rintro rfl; exact hnd.1 hr
      have := this.1 (.inr hr)
      simp [this, hne]
    · intro hn
      rcases this.2 (fun hl => hn (.inl hl)) with rfl | hr
      · exact absurd (.inr (.inl rfl)) hn
      · exact hr
  · simp [h.countEq]

theorem wf_specDrop {s : St} {id : Nat} (h : WF s) (hid : id ∈ s.live) : WF (specDrop s id) := by
  have hidm := h.liveLt id hid
  have hidv : id ∉ s.vacant := fun hv => (h.part id hidm).1 hv hid
  constructor <;> simp only [specDrop]
  · exact h.idle
  · exact h.liveND.erase id
  · exact List.nodup_append.2 ⟨h.vacND, by simp, by simp; rintro a ha rfl; exact hidv ha⟩
  · intro i hi
    rcases List.mem_append.1 hi with hi | hi
    · exact h.vacLt i hi
    · simp at hi; omega
  · intro i hi; exact h.liveLt i (List.mem_of_mem_erase hi)
  · intro i hi
    have := h.part i hi
    rw [h.liveND.mem_erase_iff]
    simp only [List.mem_append, List.mem_singleton]
    constructor
    · rintro (hv | rfl)
      · simp [this.1 hv]
      · simp
    · intro hn
      by_cases hid' : i = id
      · exact .inr hid'
      · exact .inl (this.2 (fun hl => hn ⟨hid', hl⟩))
  · rw [List.length_erase_of_mem hid, h.countEq]

theorem wf_pubAll {s : St} {ev : Nat} {l : List Nat} (h : WF s) : WF (pubAll s ev l) := by
  obtain ⟨a, b, c, d, e, f, g, i, j⟩ := h
  constructor <;> simp <;> assumption

theorem wf_specSend {s : St} {ev : Nat} (h : WF s) : WF (specSend s ev) := by
  have hp := wf_pubAll (ev := ev) (l := usedIds s.MAX s.vacant) h
  obtain ⟨a, b, c, d, e, f, g, i, j⟩ := hp
  simp only [specSend]
  split
  · constructor <;> simp_all
  · split
    · constructor <;> simp_all
    · exact h

theorem wf_specPoll {s : St} {id : Nat} (h : WF s) : WF (specPoll s id) := by
  obtain ⟨a, b, c, d, e, f, g, i, j⟩ := h
  simp only [specPoll]
  split
  · constructor <;> simp <;> assumption
  · constructor <;> assumption

theorem wf_release {s : St} {ev : Nat} (h : WF s) : WF (apply s (.release ev)) := by
  obtain ⟨a, b, c, d, e, f, g, i, j⟩ := h
  constructor <;> simp [apply] <;> assumption

/-- `cancel_stream(id)` only clears `keep id` -/
theorem wf_cancel {s : St} {id : Nat} (h : WF s) : WF (apply s (.cancel id)) := by
  obtain ⟨a, b, c, d, e, f, g, i, j⟩ := h
  constructor <;> simp [apply] <;> assumption

/-! ### the completed operations in a `WF` state -/

theorem opCreate_spec {s : St} (t : Nat) (h : WF s) (hl : s.live.length < s.MAX) :
    ∃ j rest, s.vacant = j :: rest ∧ callCreate t s = setThr (specCreate s j rest) t (.done (.id j)) ∧
      opCreate t s = specCreate s j rest := by
  obtain ⟨j, rest, hv⟩ := List.exists_cons_of_ne_nil (h.vacant_ne_nil hl)
  have hc := callCreate_eq (t := t) (h.idle t) h.unlocked h.used_length hv (by omega)
  refine ⟨j, rest, hv, hc, ?_⟩
  rw [opCreate, hc]
  exact ack_setThr_done (by simpa [specCreate] using h.idle t)

theorem opDrop_spec {s : St} (t : Nat) {id : Nat} (h : WF s) (hid : id ∈ s.live) :
    callDrop t id s = setThr (specDrop s id) t (.done .unit) ∧ opDrop t id s = specDrop s id := by
  have hc := callDrop_eq (t := t) (h.idle t) h.unlocked h.used_length hid (by have := h.liveLt id hid; omega)
  refine ⟨hc, ?_⟩
  rw [opDrop, hc]
  exact ack_setThr_done (by simpa [specDrop] using h.idle t)

theorem opSend_spec {s : St} (t ev : Nat) (h : WF s) :
    callSend t ev s = setThr (specSend s ev) t (.done (sendRes s)) ∧ opSend t ev s = specSend s ev := by
  have hc := callSend_eq (t := t) (ev := ev) (h.idle t) h.usedEq (by rw [h.usedIds_length, h.countEq])
  refine ⟨hc, ?_⟩
  rw [opSend, hc]
  exact ack_setThr_done (by rw [thr_specSend]; exact h.idle t)

theorem specPoll_thr (s : St) (id : Nat) : (specPoll s id).thr = s.thr := by
  simp only [specPoll]; split <;> rfl

theorem opPoll_spec {s : St} (t id : Nat) (h : WF s) :
    callPoll t id s = setThr (specPoll s id) t (.done (.item (s.queues id).head?)) ∧
      opPoll t id s = specPoll s id := by
  have hc := callPoll_eq (t := t) (id := id) (h.idle t)
  refine ⟨hc, ?_⟩
  rw [opPoll, hc]
  exact ack_setThr_done (by rw [specPoll_thr]; exact h.idle t)

/-! ## sequential histories -/

inductive Op where
  | create
  | drop (id : Nat)
  | send (ev : Nat)
  | poll (id : Nat)
  | release (ev : Nat)
  /-- `cancel_stream(id)`: tell listener `id` to end (it may still be polled, and is dropped later) -/
  | cancel (id : Nat)
  deriving DecidableEq, Repr

/-- one completed operation on thread 0 -/
def exec1 (s : St) : Op → St
  | .create => opCreate 0 s
  | .drop id => opDrop 0 id s
  | .send ev => opSend 0 ev s
  | .poll id => opPoll 0 id s
  | .release ev => apply s (.release ev)
  | .cancel id => apply s (.cancel id)

def exec (s : St) (h : List Op) : St := h.foldl exec1 s

@[simp] theorem exec_nil (s : St) : exec s [] = s := rfl
@[simp] theorem exec_cons (s : St) (op : Op) (h : List Op) : exec s (op :: h) = exec (exec1 s op) h := rfl
theorem exec_append (s : St) (h₁ h₂ : List Op) : exec s (h₁ ++ h₂) = exec (exec s h₁) h₂ := by
  simp [exec, List.foldl_append]

/-- `create` needs a free id (the source panics otherwise), `drop` and `cancel` a live listener -/
def Legal (s : St) : Op → Prop
  | .create => s.live.length < s.MAX
  | .drop id => id ∈ s.live
  | .cancel id => id ∈ s.live
  | _ => True

def LegalH : St → List Op → Prop
  | _, [] => True
  | s, op :: h => Legal s op ∧ LegalH (exec1 s op) h

instance (s : St) (op : Op) : Decidable (Legal s op) := by
  cases op <;> simp only [Legal] <;> infer_instance

instance : (s : St) → (h : List Op) → Decidable (LegalH s h)
  | _, [] => isTrue trivial
  | s, op :: h =>
    have := instDecidableLegalH (exec1 s op) h
    by simp only [LegalH]; infer_instance

theorem legalH_append {s : St} {h₁ h₂ : List Op} :
    LegalH s (h₁ ++ h₂) ↔ LegalH s h₁ ∧ LegalH (exec s h₁) h₂ := by
  induction h₁ generalizing s with
  | nil => simp [LegalH]
  | cons op h ih => simp [LegalH, ih, and_assoc]

theorem wf_exec1 {s : St} {op : Op} (h : WF s) (hl : Legal s op) : WF (exec1 s op) := by
  cases op with
  | create =>
    obtain ⟨j, rest, hv, _, he⟩ := opCreate_spec 0 h hl
    simp only [exec1, he]; exact wf_specCreate h hv
  | drop id => simp only [exec1, (opDrop_spec 0 h hl).2]; exact wf_specDrop h hl
  | send ev => simp only [exec1, (opSend_spec 0 ev h).2]; exact wf_specSend h
  | poll id => simp only [exec1, (opPoll_spec 0 id h).2]; exact wf_specPoll h
  | release ev => exact wf_release h
  | cancel id => exact wf_cancel h

theorem wf_exec {s : St} {hs : List Op} (h : WF s) (hl : LegalH s hs) : WF (exec s hs) := by
  induction hs generalizing s with
  | nil => exact h
  | cons op hs ih => exact ih (wf_exec1 h hl.1) hl.2

/-! ### sequential histories are executions of the model -/

theorem step_MAX (s : St) (t : Nat) : (step s t).MAX = s.MAX := by
  unfold step
  split <;> (try split) <;> (try split) <;> simp <;> split <;> simp

theorem apply_MAX (s : St) (a : Act) : (apply s a).MAX = s.MAX := by
  cases a <;> simp only [apply]
  · split <;> simp
  · split <;> simp
  · split
    · split
      · split <;> simp
      · split <;> simp
    · rfl
  · split <;> simp
  · exact step_MAX s _
  · split <;> simp

theorem run_MAX (s : St) (as : List Act) : (run s as).MAX = s.MAX := by
  induction as generalizing s with
  | nil => rfl
  | cons a as ih => rw [run_cons, ih, apply_MAX]

/-- the actions of one completed operation -/
def opActs (mx : Nat) : Op → List Act
  | .create => .create 0 :: List.replicate (mx + 6) (.step 0) ++ [.ack 0]
  | .drop id => .drop 0 id :: List.replicate (mx + 6) (.step 0) ++ [.ack 0]
  | .send ev => .send 0 ev :: List.replicate (mx + 6) (.step 0) ++ [.ack 0]
  | .poll id => .poll 0 id :: List.replicate (mx + 6) (.step 0) ++ [.ack 0]
  | .release ev => [.release ev]
  | .cancel id => [.cancel id]

theorem exec1_eq_run (s : St) (op : Op) : exec1 s op = run s (opActs s.MAX op) := by
  cases op <;>
    simp [exec1, opActs, opCreate, callCreate, opDrop, callDrop, opSend, callSend, opPoll, callPoll, run_append]

theorem exec1_MAX (s : St) (op : Op) : (exec1 s op).MAX = s.MAX := by rw [exec1_eq_run, run_MAX]

theorem exec_eq_run (s : St) (h : List Op) : exec s h = run s (h.flatMap (opActs s.MAX)) := by
  induction h generalizing s with
  | nil => rfl
  | cons op h ih => rw [exec_cons, ih, exec1_MAX, List.flatMap_cons, run_append, exec1_eq_run]

theorem reachable_exec (mx n : Nat) (f : Flavor) (d : Bool) (h : List Op) :
    Reachable mx n f d (exec (init mx n f d) h) :=
  ⟨_, exec_eq_run _ h⟩

/-! ## vacant ids have empty queues (`drains = true`) -/

def Fresh (s : St) : Prop := ∀ i ∈ s.vacant, s.queues i = []

theorem exec1_drains {s : St} {op : Op} (h : WF s) (hl : Legal s op) : (exec1 s op).drains = s.drains := by
  cases op with
  | create =>
    obtain ⟨j, rest, hv, _, he⟩ := opCreate_spec 0 h hl
    simp only [exec1, he, specCreate]
  | drop id => simp only [exec1, (opDrop_spec 0 h hl).2, specDrop]
  | send ev => simp only [exec1, (opSend_spec 0 ev h).2, drains_specSend]
  | poll id => simp only [exec1, (opPoll_spec 0 id h).2, specPoll]; split <;> rfl
  | release ev => rfl
  | cancel id => rfl

theorem fresh_exec1 {s : St} {op : Op} (h : WF s) (hd : s.drains = true) (hf : Fresh s) (hl : Legal s op) :
    Fresh (exec1 s op) := by
  cases op with
  | create =>
    obtain ⟨j, rest, hv, _, he⟩ := opCreate_spec 0 h hl
    simp only [exec1, he, specCreate]
    intro i hi
    exact hf i (by simp [hv, hi])
  | drop id =>
    simp only [exec1, (opDrop_spec 0 h hl).2, specDrop, hd]
    intro i hi
    simp only [List.mem_append, List.mem_singleton] at hi
    simp only [if_pos]
    split
    · rfl
    · exact hf i (by simpa [*] using hi)
  | send ev =>
    simp only [exec1, (opSend_spec 0 ev h).2, specSend]
    have key : Fresh (pubAll s ev (usedIds s.MAX s.vacant)) := by
      intro i hi
      have hi' : i ∈ s.vacant := hi
      have : i ∉ usedIds s.MAX s.vacant := fun hu => (mem_usedIds.1 hu).2 hi'
      simp [hf i hi', List.count_eq_zero_of_not_mem this]
    split
    · exact key
    · split
      · exact key
      · exact hf
  | poll id =>
    simp only [exec1, (opPoll_spec 0 id h).2, specPoll]
    split
    · rename_i ev rest hq
      intro i hi
      have hi' : i ∈ s.vacant := hi
      have := hf i hi'
      show (if i = id then rest else s.queues i) = []
      split
      · subst_vars; rw [this] at hq; cases hq
      · exact this
    · exact hf
  | release ev => exact hf
  | cancel id => exact hf

theorem fresh_init (mx n : Nat) (f : Flavor) (d : Bool) : Fresh (init mx n f d) := fun _ _ => rfl

theorem fresh_exec {s : St} {hs : List Op} (h : WF s) (hd : s.drains = true) (hf : Fresh s) (hl : LegalH s hs) :
    Fresh (exec s hs) := by
  induction hs generalizing s with
  | nil => exact hf
  | cons op hs ih =>
    exact ih (wf_exec1 h hl.1) (by rw [exec1_drains h hl.1, hd]) (fresh_exec1 h hd hf hl.1) hl.2

/-- sequential set-up: `k` listeners `0..k-1` created one after the other on thread 0 (`drains = true`, pool of 8) -/
def setup (mx k : Nat) (f : Flavor) : St := exec (init mx 8 f true) (List.replicate k .create)

theorem wf_setup (mx k : Nat) (f : Flavor) (h : LegalH (init mx 8 f true) (List.replicate k .create)) :
    WF (setup mx k f) := wf_exec (wf_init _ _ _ _) h

/-! ## delivery accounting per incarnation -/

/-- every delivery is stamped with an incarnation that exists (`inc` only grows) -/
def DI (s : St) : Prop := ∀ x ∈ s.delivered, x.2.1 ≤ s.inc x.1

theorem di_init (mx n : Nat) (f : Flavor) (d : Bool) : DI (init mx n f d) := by
  intro x hx; simp [init] at hx

theorem di_exec1 {s : St} {op : Op} (h : WF s) (hd : DI s) (hl : Legal s op) : DI (exec1 s op) := by
  cases op with
  | create =>
    obtain ⟨j, rest, hv, _, he⟩ := opCreate_spec 0 h hl
    simp only [exec1, he, specCreate]
    intro x hx
    have := hd x hx
    show x.2.1 ≤ (if x.1 = j then s.inc x.1 + 1 else s.inc x.1)
    split <;> omega
  | drop id => simp only [exec1, (opDrop_spec 0 h hl).2, specDrop]; exact hd
  | send ev =>
    simp only [exec1, (opSend_spec 0 ev h).2, specSend]
    split
    · exact hd
    · split
      · exact hd
      · exact hd
  | poll id =>
    simp only [exec1, (opPoll_spec 0 id h).2, specPoll]
    split
    · intro x hx
      simp only [List.mem_append, List.mem_singleton] at hx
      rcases hx with hx | rfl
      · exact hd x hx
      · exact Nat.le_refl _
    · exact hd
  | release ev => exact hd
  | cancel id => exact hd

theorem di_exec {s : St} {hs : List Op} (h : WF s) (hd : DI s) (hl : LegalH s hs) : DI (exec s hs) := by
  induction hs generalizing s with
  | nil => exact hd
  | cons op hs ih => exact ih (wf_exec1 h hl.1) (di_exec1 h hd hl.1) hl.2

/-- the events delivered to incarnation `k` of stream id `id`, in delivery order -/
def dlv (s : St) (id k : Nat) : List Nat :=
  (s.delivered.filter (fun x => decide (x.1 = id ∧ x.2.1 = k))).map (fun x => x.2.2)

/-- what an operation publishes: the event of a `send` that was accepted (answered `unit`, not `full`) -/
def sentBy (s : St) : Op → List Nat
  | .send ev => if accepts s then [ev] else []
  | _ => []

/-- the events of the accepted `send` operations of a history, in order -/
def sendsIn : St → List Op → List Nat
  | _, [] => []
  | s, op :: h => sentBy s op ++ sendsIn (exec1 s op) h

theorem sendsIn_append (s : St) (h₁ h₂ : List Op) :
    sendsIn s (h₁ ++ h₂) = sendsIn s h₁ ++ sendsIn (exec s h₁) h₂ := by
  induction h₁ generalizing s with
  | nil => rfl
  | cons op h ih => simp [sendsIn, ih]

theorem sendsIn_sublist (s : St) (h : List Op) :
    (sendsIn s h).Sublist (h.filterMap (fun op => match op with | .send ev => some ev | _ => none)) := by
  induction h generalizing s with
  | nil => exact .slnil
  | cons op h ih =>
    cases op <;> simp only [sendsIn, sentBy, List.filterMap_cons, List.nil_append]
    any_goals exact ih _
    split
    · exact (ih _).cons_cons _
    · exact (ih _).cons _

theorem sendsIn_arc (s : St) (h : List Op) (hw : WF s) (hl : LegalH s h) (hf : s.flavor = .arc) :
    sendsIn s h = h.filterMap (fun op => match op with | .send ev => some ev | _ => none) := by
  induction h generalizing s with
  | nil => rfl
  | cons op h ih =>
    have hfl : (exec1 s op).flavor = .arc := by
      cases op with
      | create =>
        obtain ⟨j, rest, hv, _, he⟩ := opCreate_spec 0 hw hl.1
        simpa only [exec1, he, specCreate] using hf
      | drop id => simpa only [exec1, (opDrop_spec 0 hw hl.1).2, specDrop] using hf
      | send ev => simp only [exec1, (opSend_spec 0 ev hw).2, flavor_specSend, hf]
      | poll id => simp only [exec1, (opPoll_spec 0 id hw).2, specPoll]; split <;> exact hf
      | release ev => exact hf
      | cancel id => exact hf
    have := ih (exec1 s op) (wf_exec1 hw hl.1) hl.2 hfl
    cases op <;> simp only [sendsIn, sentBy, List.filterMap_cons, List.nil_append, this]
    simp [accepts, hf]

/-- one operation other than `drop id`, in a `WF` state where `id` is live -/
theorem acct_exec1 {s : St} {op : Op} {id : Nat} (h : WF s) (hid : id ∈ s.live) (hl : Legal s op)
    (hne : op ≠ .drop id) :
    id ∈ (exec1 s op).live ∧ (exec1 s op).inc id = s.inc id ∧
      dlv (exec1 s op) id (s.inc id) ++ (exec1 s op).queues id =
        dlv s id (s.inc id) ++ s.queues id ++ sentBy s op := by
  cases op with
  | create =>
    obtain ⟨j, rest, hv, _, he⟩ := opCreate_spec 0 h hl
    have hj : j ≠ id := by
      rintro rfl
      exact (h.part j (h.liveLt j hid)).1 (by simp [hv]) hid
    simp only [exec1, he, specCreate, sentBy, dlv, List.append_nil]
    exact ⟨by simp [hid], by simp [Ne.symm hj], trivial⟩
  | drop id' =>
    have hj : id ≠ id' := by rintro rfl; exact hne rfl
    simp only [exec1, (opDrop_spec 0 h hl).2, specDrop, sentBy, dlv, List.append_nil]
    refine ⟨(List.mem_erase_of_ne hj).2 hid, trivial, ?_⟩
    split <;> simp [hj]
  | send ev =>
    have hc : (usedIds s.MAX s.vacant).count id = 1 := by
      rw [(usedIds_nodup _ _).count, if_pos (h.mem_usedIds'.2 hid)]
    simp only [exec1, (opSend_spec 0 ev h).2, sentBy, dlv, live_specSend, inc_specSend, delivered_specSend,
      queues_specSend]
    refine ⟨hid, trivial, ?_⟩
    split <;> simp [hc]
  | poll id' =>
    simp only [exec1, (opPoll_spec 0 id' h).2, specPoll, sentBy, List.append_nil]
    split
    · rename_i ev rest hq
      refine ⟨hid, rfl, ?_⟩
      by_cases hj : id = id'
      · subst hj
        simp [dlv, List.filter_append, hq]
      · simp [dlv, List.filter_append, hj, Ne.symm hj]
    · exact ⟨hid, rfl, rfl⟩
  | release ev =>
    simp only [exec1, apply, sentBy, dlv, List.append_nil]
    exact ⟨hid, trivial, trivial⟩
  | cancel id' =>
    simp only [exec1, apply, sentBy, dlv, List.append_nil]
    exact ⟨hid, trivial, trivial⟩

/-- a history without `drop id`, from a `WF` state where `id` is live: everything delivered to the current incarnation
    of `id`, followed by what is still queued for it, is what was there at the start followed by the events of the
    accepted sends — in order, each once -/
theorem acct_exec {s : St} {hs : List Op} {id : Nat} (h : WF s) (hid : id ∈ s.live) (hl : LegalH s hs)
    (hne : Op.drop id ∉ hs) :
    id ∈ (exec s hs).live ∧ (exec s hs).inc id = s.inc id ∧
      dlv (exec s hs) id (s.inc id) ++ (exec s hs).queues id =
        dlv s id (s.inc id) ++ s.queues id ++ sendsIn s hs := by
  induction hs generalizing s with
  | nil => simp [sendsIn, hid]
  | cons op hs ih =>
    obtain ⟨a1, a2, a3⟩ := acct_exec1 h hid hl.1 (fun e => hne (by simp [e]))
    obtain ⟨b1, b2, b3⟩ := ih (wf_exec1 h hl.1) a1 hl.2 (fun e => hne (by simp [e]))
    rw [a2] at b2 b3
    refine ⟨b1, b2, ?_⟩
    rw [exec_cons, b3, a3, sendsIn]
    simp [List.append_assoc]

end Mutiny.Multi
