import Mutiny.Proofs.LockRingInv

/-!
# Lemmas behind the `C01 / C02 / C16 / C20` property theorems of the `LockRing` model
-/

namespace Mutiny.LockRing

/-! ## `step` equations, one per program point -/

theorem step_idle {s : St} {t : Nat} (ht : s.thr t = .idle) : step s t = s := by simp only [step, ht]
theorem step_done {s : St} {t : Nat} {r : Res} (ht : s.thr t = .done r) : step s t = s := by simp only [step, ht]
theorem step_pLock {s : St} {t v : Nat} (ht : s.thr t = .pLock v) :
    step s t = if s.locked then setThr s t (.pSpin v) else setThr { s with locked := true } t (.pCheck v) := by
  simp only [step, ht]
theorem step_pSpin {s : St} {t v : Nat} (ht : s.thr t = .pSpin v) :
    step s t = if s.locked then setThr s t (.pSpin v) else setThr { s with locked := true } t (.pCheck v) := by
  simp only [step, ht]
theorem step_pCheck {s : St} {t v : Nat} (ht : s.thr t = .pCheck v) :
    step s t = if s.tail - s.head < s.N then setThr s t (.pWrite v (s.tail - s.head + 1))
               else setThr { s with locked := false } t .pFullUnlocked := by
  simp only [step, ht]
theorem step_pFullUnlocked {s : St} {t : Nat} (ht : s.thr t = .pFullUnlocked) :
    step s t = setThr s t (.done .full) := by simp only [step, ht]
theorem step_pWrite {s : St} {t v len : Nat} (ht : s.thr t = .pWrite v len) :
    step s t = setThr (setBuf s (s.tail % s.N) v) t (.pPublish v len) := by simp only [step, ht]
theorem step_pPublish {s : St} {t v len : Nat} (ht : s.thr t = .pPublish v len) :
    step s t = setThr { s with tail := s.tail + 1, locked := false, accepted := s.accepted ++ [v] } t
      (.pUnlocked len) := by simp only [step, ht]
theorem step_pUnlocked {s : St} {t len : Nat} (ht : s.thr t = .pUnlocked len) :
    step s t = setThr s t (.done (.sent len)) := by simp only [step, ht]
theorem step_cLock {s : St} {t : Nat} (ht : s.thr t = .cLock) :
    step s t = if s.locked then setThr s t .cSpin else setThr { s with locked := true } t .cLenT := by
  simp only [step, ht]
theorem step_cSpin {s : St} {t : Nat} (ht : s.thr t = .cSpin) :
    step s t = if s.locked then setThr s t .cSpin else setThr { s with locked := true } t .cLenT := by
  simp only [step, ht]
theorem step_cLenT {s : St} {t : Nat} (ht : s.thr t = .cLenT) : step s t = setThr s t .cLen := by simp only [step, ht]
theorem step_cLen {s : St} {t : Nat} (ht : s.thr t = .cLen) :
    step s t = if s.tail - s.head > 0 then setThr s t .cRead
               else setThr { s with locked := false } t .cEmptyUnlocked := by
  simp only [step, ht]
theorem step_cEmptyUnlocked {s : St} {t : Nat} (ht : s.thr t = .cEmptyUnlocked) :
    step s t = setThr s t (.done .empty) := by simp only [step, ht]
theorem step_cRead {s : St} {t : Nat} (ht : s.thr t = .cRead) :
    step s t = setThr s t (.cRelease (s.buf (s.head % s.N))) := by simp only [step, ht]
theorem step_cRelease {s : St} {t v : Nat} (ht : s.thr t = .cRelease v) :
    step s t = setThr { s with head := s.head + 1, locked := false,
                               delivered := s.delivered ++ [(t, s.head, v)] } t (.cUnlocked v) := by
  simp only [step, ht]
theorem step_cUnlocked {s : St} {t v : Nat} (ht : s.thr t = .cUnlocked v) :
    step s t = setThr s t (.done (.got v)) := by simp only [step, ht]
theorem step_lLen {s : St} {t : Nat} (ht : s.thr t = .lLen) :
    step s t = setThr s t (.lLenH s.tail) := by simp only [step, ht]
theorem step_lLenH {s : St} {t tl : Nat} (ht : s.thr t = .lLenH tl) :
    step s t = setThr s t (.done (.len (U32.wsub (U32.wrap tl) (U32.wrap s.head)))) := by simp only [step, ht]

/-- A step of thread `t` never changes the program point of another thread. -/
theorem step_thr_other (s : St) {t u : Nat} (h : u ≠ t) : (step s t).thr u = s.thr u := by
  cases ht : s.thr t <;> simp only [step, ht] <;> (try split) <;> simp [h]

/-- `N` is a constant. -/
theorem step_N (s : St) (t : Nat) : (step s t).N = s.N := by
  cases ht : s.thr t <;> simp only [step, ht] <;> (try split) <;> simp

theorem apply_N (s : St) (a : Act) : (apply s a).N = s.N := by
  cases a <;> simp only [apply, step_N] <;> split <;> simp

theorem run_append (s : St) (as bs : List Act) : run s (as ++ bs) = run (run s as) bs := by
  simp [run, List.foldl_append]

theorem run_cons (s : St) (a : Act) (as : List Act) : run s (a :: as) = run (apply s a) as := rfl
theorem run_nil (s : St) : run s [] = s := rfl

theorem reachable_run {n : Nat} {s : St} (h : Reachable n s) (as : List Act) : Reachable n (run s as) := by
  obtain ⟨bs, rfl⟩ := h
  exact ⟨bs ++ as, (run_append _ _ _).symm⟩

theorem reachable_apply {n : Nat} {s : St} (h : Reachable n s) (a : Act) : Reachable n (apply s a) :=
  reachable_run h [a]

theorem reachable_step {n : Nat} {s : St} (h : Reachable n s) (t : Nat) : Reachable n (step s t) :=
  reachable_apply h (.step t)

/-! ## `abs` -/

theorem abs_length_of_inv {s : St} (h : Inv s) : (abs s).length = s.tail - s.head := by
  simp [abs, h.accLen]

theorem abs_eq_nil_iff {s : St} (h : Inv s) : abs s = [] ↔ s.tail = s.head := by
  rw [← List.length_eq_zero_iff, abs_length_of_inv h]; have := h.ht; omega

theorem capacity_of_inv {s : St} (h : Inv s) : s.tail - s.head ≤ s.N ∧ (abs s).length ≤ s.N := by
  rw [abs_length_of_inv h]; have := h.cap; omega

/-- Exact effect of one step on the abstract queue: the only linearization points are `pPublish` and `cRelease`. -/
theorem step_abs_exact {s : St} (h : Inv s) (t : Nat) :
    match s.thr t with
    | .pPublish v len => abs (step s t) = abs s ++ [v] ∧ (abs s).length < s.N ∧ len = (abs s).length + 1
    | .cRelease v => abs s = v :: abs (step s t)
    | _ => abs (step s t) = abs s := by
  cases ht : s.thr t with
  | pPublish v len =>
    obtain ⟨h1, _, h3⟩ := h.pP t v len ht
    have := h.ht; have := h.accLen
    simp only [step_pPublish ht, abs_length_of_inv h]
    refine ⟨?_, h1, h3⟩
    simp only [abs, head_setThr, accepted_setThr]
    rw [List.drop_append_of_le_length (by omega)]
  | cRelease v =>
    obtain ⟨h1, h2⟩ := h.cRel t v ht
    have hl : s.head < s.accepted.length := by have := h.accLen; omega
    simp only [step_cRelease ht, abs, head_setThr, accepted_setThr]
    rw [List.drop_eq_getElem_cons hl]
    rw [List.getElem?_eq_getElem hl] at h2
    simp only [Option.some.injEq] at h2
    rw [h2]
  | _ => simp only [step, ht] <;> (try split) <;> rfl

theorem step_abs_of_inv {s : St} (h : Inv s) (t : Nat) :
    abs (step s t) = abs s
    ∨ (∃ v len, s.thr t = .pPublish v len ∧ abs (step s t) = abs s ++ [v] ∧ (abs s).length < s.N
          ∧ len = (abs s).length + 1)
    ∨ (∃ v, s.thr t = .cRelease v ∧ abs s = v :: abs (step s t)) := by
  have := step_abs_exact h t
  cases ht : s.thr t with
  | pPublish v len => rw [ht] at this; exact Or.inr (Or.inl ⟨v, len, rfl, this⟩)
  | cRelease v => rw [ht] at this; exact Or.inr (Or.inr ⟨v, rfl, this⟩)
  | _ => rw [ht] at this; exact Or.inl this

theorem call_abs (s : St) (a : Act) (ha : ∀ t, a ≠ .step t) : abs (apply s a) = abs s := by
  cases a with
  | step t => exact absurd rfl (ha t)
  | _ => simp only [apply] <;> split <;> rfl

/-! ## witnesses for `empty` / `full` -/

theorem empty_witness_of_inv {s : St} (h : Inv s) {t : Nat} (ht : s.thr t = .cLen) :
    (step s t).thr t = .cEmptyUnlocked ↔ abs s = [] := by
  rw [abs_eq_nil_iff h, step_cLen ht]
  have := h.ht
  split <;> simp <;> omega

theorem full_witness_of_inv {s : St} (h : Inv s) {t v : Nat} (ht : s.thr t = .pCheck v) :
    (step s t).thr t = .pFullUnlocked ↔ (abs s).length = s.N := by
  rw [abs_length_of_inv h, step_pCheck ht]
  have := h.cap
  split <;> simp <;> omega

/-- The program point of `t` can only be changed by an action of `t`. -/
def actor : Act → Nat
  | .send t _ | .recv t | .len t | .step t | .ack t => t

theorem apply_thr_other (s : St) (a : Act) {t : Nat} (h : actor a ≠ t) : (apply s a).thr t = s.thr t := by
  cases a with
  | step u => exact step_thr_other s (by simpa [actor] using Ne.symm h)
  | _ => simp only [apply] <;> split <;> simp_all [actor] <;> grind

theorem done_empty_only_from (s : St) (a : Act) (t : Nat)
    (h1 : (apply s a).thr t = .done .empty) (h2 : s.thr t ≠ .done .empty) :
    a = .step t ∧ s.thr t = .cEmptyUnlocked := by
  by_cases hat : actor a = t
  · cases a with
    | step u =>
      simp only [actor] at hat; subst hat
      refine ⟨rfl, ?_⟩
      simp only [apply] at h1
      cases ht : s.thr u <;> simp only [step, ht] at h1 <;> (try split at h1) <;> simp_all
    | _ => simp only [actor] at hat; subst hat; simp only [apply] at h1; split at h1 <;> simp_all
  · rw [apply_thr_other s a hat] at h1; exact absurd h1 h2

theorem cEmptyUnlocked_only_from (s : St) (a : Act) (t : Nat)
    (h1 : (apply s a).thr t = .cEmptyUnlocked) (h2 : s.thr t ≠ .cEmptyUnlocked) :
    a = .step t ∧ s.thr t = .cLen := by
  by_cases hat : actor a = t
  · cases a with
    | step u =>
      simp only [actor] at hat; subst hat
      refine ⟨rfl, ?_⟩
      simp only [apply] at h1
      cases ht : s.thr u <;> simp only [step, ht] at h1 <;> (try split at h1) <;> simp_all
    | _ => simp only [actor] at hat; subst hat; simp only [apply] at h1; split at h1 <;> simp_all
  · rw [apply_thr_other s a hat] at h1; exact absurd h1 h2

theorem done_full_only_from (s : St) (a : Act) (t : Nat)
    (h1 : (apply s a).thr t = .done .full) (h2 : s.thr t ≠ .done .full) :
    a = .step t ∧ s.thr t = .pFullUnlocked := by
  by_cases hat : actor a = t
  · cases a with
    | step u =>
      simp only [actor] at hat; subst hat
      refine ⟨rfl, ?_⟩
      simp only [apply] at h1
      cases ht : s.thr u <;> simp only [step, ht] at h1 <;> (try split at h1) <;> simp_all
    | _ => simp only [actor] at hat; subst hat; simp only [apply] at h1; split at h1 <;> simp_all
  · rw [apply_thr_other s a hat] at h1; exact absurd h1 h2

theorem pFullUnlocked_only_from (s : St) (a : Act) (t : Nat)
    (h1 : (apply s a).thr t = .pFullUnlocked) (h2 : s.thr t ≠ .pFullUnlocked) :
    a = .step t ∧ ∃ v, s.thr t = .pCheck v := by
  by_cases hat : actor a = t
  · cases a with
    | step u =>
      simp only [actor] at hat; subst hat
      refine ⟨rfl, ?_⟩
      simp only [apply] at h1
      cases ht : s.thr u <;> simp only [step, ht] at h1 <;> (try split at h1) <;> simp_all
    | _ => simp only [actor] at hat; subst hat; simp only [apply] at h1; split at h1 <;> simp_all
  · rw [apply_thr_other s a hat] at h1; exact absurd h1 h2

/-! ## C01: no loss, no duplication, no invention -/

theorem delivered_distinct_of_inv {s : St} (h : Inv s) : (s.delivered.map (·.2.1)).Nodup := by
  rw [h.delIdx]; exact List.nodup_range

theorem delivered_entry_of_inv {s : St} (h : Inv s) {t k v : Nat} (hm : (t, k, v) ∈ s.delivered) :
    k < s.head ∧ s.accepted[k]? = some v ∧ s.delivered[k]? = some (t, k, v) := by
  obtain ⟨i, hi, heq⟩ := List.getElem_of_mem hm
  have hi? : s.delivered[i]? = some (t, k, v) := by rw [List.getElem?_eq_getElem hi, heq]
  have e1 : (s.delivered.map (·.2.1))[i]? = some k := by simp [hi?]
  have e2 : (s.delivered.map (·.2.2))[i]? = some v := by simp [hi?]
  rw [h.delIdx] at e1
  rw [h.delVal] at e2
  have hlen : i < s.head := by
    have := congrArg List.length h.delIdx; simp at this; omega
  rw [List.getElem?_range hlen] at e1
  simp only [Option.some.injEq] at e1
  subst e1
  rw [List.getElem?_take] at e2
  simp only [hlen, if_true] at e2
  exact ⟨hlen, e2, hi?⟩

theorem delivered_was_accepted_of_inv {s : St} (h : Inv s) {t k v : Nat} (hm : (t, k, v) ∈ s.delivered) :
    s.accepted[k]? = some v := (delivered_entry_of_inv h hm).2.1

theorem no_loss_of_inv {s : St} (h : Inv s) (k : Nat) (hk : k < s.tail) :
    (∃ t v, (t, k, v) ∈ s.delivered) ∨ (s.head ≤ k ∧ s.accepted[k]? = some (s.buf (k % s.N))) := by
  by_cases hkh : k < s.head
  · left
    have : k ∈ s.delivered.map (·.2.1) := by rw [h.delIdx]; exact List.mem_range.2 hkh
    obtain ⟨⟨t, k', v⟩, hx, rfl⟩ := List.mem_map.1 this
    exact ⟨t, v, hx⟩
  · right; exact ⟨by omega, h.bufAcc k (by omega) hk⟩

theorem accept_only_by_publish (s : St) (t : Nat) :
    (step s t).accepted = s.accepted
    ∨ (∃ v len, s.thr t = .pPublish v len ∧ (step s t).accepted = s.accepted ++ [v]) := by
  cases ht : s.thr t with
  | pPublish v len => right; exact ⟨v, len, rfl, by simp [step_pPublish ht]⟩
  | _ => left; simp only [step, ht] <;> (try split) <;> rfl

theorem reject_untouched (s : St) (t : Nat)
    (ht : (∃ v, s.thr t = .pLock v) ∨ (∃ v, s.thr t = .pSpin v) ∨ (∃ v, s.thr t = .pCheck v)
          ∨ s.thr t = .pFullUnlocked) :
    (step s t).buf = s.buf ∧ (step s t).accepted = s.accepted ∧ (step s t).tail = s.tail
    ∧ (step s t).head = s.head ∧ (step s t).delivered = s.delivered := by
  rcases ht with ⟨v, ht⟩ | ⟨v, ht⟩ | ⟨v, ht⟩ | ht <;> simp only [step, ht] <;> (try split) <;>
    exact ⟨rfl, rfl, rfl, rfl, rfl⟩

/-! ## C16: sequential (solo) behaviour -/

theorem St.ext' {a b : St} (h1 : a.N = b.N) (h2 : a.head = b.head) (h3 : a.tail = b.tail) (h4 : a.locked = b.locked)
    (h5 : ∀ j, a.buf j = b.buf j) (h6 : ∀ u, a.thr u = b.thr u) (h7 : a.accepted = b.accepted)
    (h8 : a.delivered = b.delivered) : a = b := by
  cases a; cases b; simp only [St.mk.injEq] at *
  exact ⟨h1, h2, h3, h4, funext h5, funext h6, h7, h8⟩

/-- State after a successful solo `send`. -/
def sentState (s : St) (t v : Nat) : St :=
  { s with tail := s.tail + 1, locked := false, accepted := s.accepted ++ [v],
           buf := fun j => if j = s.tail % s.N then v else s.buf j,
           thr := fun u => if u = t then .done (.sent (s.tail - s.head + 1)) else s.thr u }

/-- State after a successful solo `recv`. -/
def gotState (s : St) (t : Nat) : St :=
  { s with head := s.head + 1, locked := false,
           delivered := s.delivered ++ [(t, s.head, s.buf (s.head % s.N))],
           thr := fun u => if u = t then .done (.got (s.buf (s.head % s.N))) else s.thr u }

def soloSendOk (t v : Nat) : List Act := [.send t v, .step t, .step t, .step t, .step t, .step t]
def soloSendFull (t v : Nat) : List Act := [.send t v, .step t, .step t, .step t]
def soloRecvOk (t : Nat) : List Act := [.recv t, .step t, .step t, .step t, .step t, .step t, .step t]
def soloRecvEmpty (t : Nat) : List Act := [.recv t, .step t, .step t, .step t, .step t]

theorem solo_send_ok_run {s : St} {t : Nat} (v : Nat) (ht : s.thr t = .idle) (hl : s.locked = false)
    (hroom : s.tail - s.head < s.N) : run s (soloSendOk t v) = sentState s t v := by
  apply St.ext' <;> simp [soloSendOk, run, apply, step, ht, hl, hroom, sentState]
  intro u; split <;> simp [*]

theorem solo_send_full_run {s : St} {t : Nat} (v : Nat) (ht : s.thr t = .idle) (hl : s.locked = false)
    (hfull : ¬ s.tail - s.head < s.N) : run s (soloSendFull t v) = setThr s t (.done .full) := by
  apply St.ext' <;> simp [soloSendFull, run, apply, step, ht, hl, hfull]
  intro u; split <;> simp [*]

theorem solo_recv_ok_run {s : St} {t : Nat} (ht : s.thr t = .idle) (hl : s.locked = false)
    (hne : s.tail - s.head > 0) : run s (soloRecvOk t) = gotState s t := by
  apply St.ext' <;> simp [soloRecvOk, run, apply, step, ht, hl, hne, gotState]
  intro u; split <;> simp [*]

theorem solo_recv_empty_run {s : St} {t : Nat} (ht : s.thr t = .idle) (hl : s.locked = false)
    (hemp : ¬ s.tail - s.head > 0) : run s (soloRecvEmpty t) = setThr s t (.done .empty) := by
  apply St.ext' <;> simp [soloRecvEmpty, run, apply, step, ht, hl, hemp]
  intro u; split <;> simp [*]

theorem unlocked_of_others_idle {s : St} (h : Inv s) {t : Nat} (ho : ∀ u, u ≠ t → s.thr u = .idle)
    (ht : ¬ holder (s.thr t)) : s.locked = false := by
  cases hl : s.locked with
  | false => rfl
  | true =>
    obtain ⟨u, hu⟩ := h.lockIff.1 hl
    by_cases hut : u = t
    · subst hut; exact absurd hu ht
    · rw [ho u hut] at hu; simp [holder] at hu

theorem quiescent_of_inv {s : St} (h : Inv s) (hidle : ∀ t, s.thr t = .idle) : s.locked = false :=
  unlocked_of_others_idle (t := 0) h (fun u _ => hidle u) (by simp [hidle, holder])

theorem solo_send_ok_of_inv {s : St} (h : Inv s) (t v : Nat) (ho : ∀ u, u ≠ t → s.thr u = .idle)
    (ht : s.thr t = .idle) (hroom : (abs s).length < s.N) :
    run s (soloSendOk t v) = sentState s t v
    ∧ (sentState s t v).thr t = .done (.sent ((abs s).length + 1))
    ∧ abs (sentState s t v) = abs s ++ [v] := by
  have hl := unlocked_of_others_idle h ho (by simp [ht, holder])
  rw [abs_length_of_inv h] at hroom
  refine ⟨solo_send_ok_run v ht hl hroom, by simp [sentState, abs_length_of_inv h], ?_⟩
  have := h.ht; have := h.accLen
  simp only [abs, sentState]
  rw [List.drop_append_of_le_length (by omega)]

theorem solo_send_full_of_inv {s : St} (h : Inv s) (t v : Nat) (ho : ∀ u, u ≠ t → s.thr u = .idle)
    (ht : s.thr t = .idle) (hfull : (abs s).length = s.N) :
    run s (soloSendFull t v) = setThr s t (.done .full) := by
  have hl := unlocked_of_others_idle h ho (by simp [ht, holder])
  rw [abs_length_of_inv h] at hfull
  exact solo_send_full_run v ht hl (by omega)

theorem solo_recv_ok_of_inv {s : St} (h : Inv s) (t : Nat) (ho : ∀ u, u ≠ t → s.thr u = .idle)
    (ht : s.thr t = .idle) {x : Nat} {xs : List Nat} (hne : abs s = x :: xs) :
    run s (soloRecvOk t) = gotState s t
    ∧ (gotState s t).thr t = .done (.got x)
    ∧ abs (gotState s t) = xs := by
  have hl := unlocked_of_others_idle h ho (by simp [ht, holder])
  have hlen := abs_length_of_inv h
  rw [hne] at hlen
  simp only [List.length_cons] at hlen
  have hlt : s.head < s.tail := by omega
  have hacc : s.head < s.accepted.length := by have := h.accLen; omega
  have hb := h.bufAcc s.head (Nat.le_refl _) hlt
  have hd : abs s = s.accepted[s.head] :: s.accepted.drop (s.head + 1) := List.drop_eq_getElem_cons hacc
  rw [hne] at hd
  rw [List.getElem?_eq_getElem hacc] at hb
  simp only [Option.some.injEq, List.cons.injEq] at hb hd
  refine ⟨solo_recv_ok_run ht hl (by omega), by simp [gotState, ← hb, hd.1], ?_⟩
  simp only [abs, gotState]; exact hd.2.symm

theorem solo_recv_empty_of_inv {s : St} (h : Inv s) (t : Nat) (ho : ∀ u, u ≠ t → s.thr u = .idle)
    (ht : s.thr t = .idle) (hemp : abs s = []) :
    run s (soloRecvEmpty t) = setThr s t (.done .empty) := by
  have hl := unlocked_of_others_idle h ho (by simp [ht, holder])
  rw [abs_eq_nil_iff h] at hemp
  exact solo_recv_empty_run ht hl (by omega)

/-! ### fill / drain -/

/-- The schedule of one complete solo `send` call of thread `t` (5 own steps suffice on both paths). -/
def sendActs (t v : Nat) : List Act := [.send t v, .step t, .step t, .step t, .step t, .step t]
/-- The schedule of one complete solo `recv` call of thread `t`. -/
def recvActs (t : Nat) : List Act := [.recv t, .step t, .step t, .step t, .step t, .step t, .step t]

/-- One solo `send`: run the call to completion, record the result point, acknowledge. -/
def soloSend (s : St) (t v : Nat) : St × Loc :=
  let s' := run s (sendActs t v)
  (apply s' (.ack t), s'.thr t)

/-- One solo `recv`: run the call to completion, record the result point, acknowledge. -/
def soloRecv (s : St) (t : Nat) : St × Loc :=
  let s' := run s (recvActs t)
  (apply s' (.ack t), s'.thr t)

/-- Solo sends of the values `vs`, one after the other; returns the final state and the result points. -/
def fill (t : Nat) : St → List Nat → St × List Loc
  | s, [] => (s, [])
  | s, v :: vs => ((fill t (soloSend s t v).1 vs).1, (soloSend s t v).2 :: (fill t (soloSend s t v).1 vs).2)

/-- `k` solo receives, one after the other; returns the final state and the result points. -/
def drain (t : Nat) : St → Nat → St × List Loc
  | s, 0 => (s, [])
  | s, k + 1 => ((drain t (soloRecv s t).1 k).1, (soloRecv s t).2 :: (drain t (soloRecv s t).1 k).2)

def fillActs (t : Nat) : List Nat → List Act
  | [] => []
  | v :: vs => sendActs t v ++ [.ack t] ++ fillActs t vs

def drainActs (t : Nat) : Nat → List Act
  | 0 => []
  | k + 1 => recvActs t ++ [.ack t] ++ drainActs t k

theorem soloSend_fst (s : St) (t v : Nat) : (soloSend s t v).1 = run s (sendActs t v ++ [.ack t]) := by
  simp [soloSend, run_append, run_cons, run_nil]

theorem soloRecv_fst (s : St) (t : Nat) : (soloRecv s t).1 = run s (recvActs t ++ [.ack t]) := by
  simp [soloRecv, run_append, run_cons, run_nil]

/-- `fill` is an execution of the model. -/
theorem fill_eq_run (t : Nat) (s : St) (vs : List Nat) : (fill t s vs).1 = run s (fillActs t vs) := by
  induction vs generalizing s with
  | nil => rfl
  | cons v vs ih => simp only [fill, fillActs, ih, soloSend_fst, run_append]

/-- `drain` is an execution of the model. -/
theorem drain_eq_run (t : Nat) (s : St) (k : Nat) : (drain t s k).1 = run s (drainActs t k) := by
  induction k generalizing s with
  | zero => rfl
  | succ k ih => simp only [drain, drainActs, ih, soloRecv_fst, run_append]

theorem sendActs_ok (t v : Nat) : sendActs t v = soloSendOk t v := rfl
theorem sendActs_full (t v : Nat) : sendActs t v = soloSendFull t v ++ [.step t, .step t] := rfl
theorem recvActs_ok (t : Nat) : recvActs t = soloRecvOk t := rfl
theorem recvActs_empty (t : Nat) : recvActs t = soloRecvEmpty t ++ [.step t, .step t] := rfl

theorem soloSend_ok_of_inv {s : St} (h : Inv s) (t v : Nat) (hidle : ∀ u, s.thr u = .idle)
    (hroom : (abs s).length < s.N) :
    (soloSend s t v).2 = .done (.sent ((abs s).length + 1))
    ∧ abs (soloSend s t v).1 = abs s ++ [v]
    ∧ (∀ u, (soloSend s t v).1.thr u = .idle)
    ∧ (soloSend s t v).1.N = s.N := by
  obtain ⟨e, h1, h2⟩ := solo_send_ok_of_inv h t v (fun u _ => hidle u) (hidle t) hroom
  simp only [soloSend, sendActs_ok, e, h1, apply, abs_setThr, h2, true_and]
  refine ⟨?_, by simp [sentState]⟩
  intro u; by_cases hu : u = t <;> simp [hu, sentState, hidle]

theorem soloSend_full_of_inv {s : St} (h : Inv s) (t v : Nat) (hidle : ∀ u, s.thr u = .idle)
    (hfull : (abs s).length = s.N) :
    (soloSend s t v).2 = .done .full ∧ (soloSend s t v).1 = s := by
  have e := solo_send_full_of_inv h t v (fun u _ => hidle u) (hidle t) hfull
  have e2 : run s (sendActs t v) = setThr s t (.done .full) := by
    rw [sendActs_full, run_append, e]; simp [run, apply, step]
  simp only [soloSend, e2, apply, thr_setThr, if_true, true_and]
  apply St.ext' <;> simp
  intro u; split <;> simp [*]

theorem soloRecv_ok_of_inv {s : St} (h : Inv s) (t : Nat) (hidle : ∀ u, s.thr u = .idle)
    {x : Nat} {xs : List Nat} (hne : abs s = x :: xs) :
    (soloRecv s t).2 = .done (.got x)
    ∧ abs (soloRecv s t).1 = xs
    ∧ (∀ u, (soloRecv s t).1.thr u = .idle)
    ∧ (soloRecv s t).1.N = s.N := by
  obtain ⟨e, h1, h2⟩ := solo_recv_ok_of_inv h t (fun u _ => hidle u) (hidle t) hne
  simp only [soloRecv, recvActs_ok, e, h1, apply, abs_setThr, h2, true_and]
  refine ⟨?_, by simp [gotState]⟩
  intro u; by_cases hu : u = t <;> simp [hu, gotState, hidle]

theorem soloRecv_empty_of_inv {s : St} (h : Inv s) (t : Nat) (hidle : ∀ u, s.thr u = .idle)
    (hemp : abs s = []) :
    (soloRecv s t).2 = .done .empty ∧ (soloRecv s t).1 = s := by
  have e := solo_recv_empty_of_inv h t (fun u _ => hidle u) (hidle t) hemp
  have e2 : run s (recvActs t) = setThr s t (.done .empty) := by
    rw [recvActs_empty, run_append, e]; simp [run, apply, step]
  simp only [soloRecv, e2, apply, thr_setThr, if_true, true_and]
  apply St.ext' <;> simp
  intro u; split <;> simp [*]

theorem inv_soloSend {s : St} (h : Inv s) (t v : Nat) : Inv (soloSend s t v).1 := by
  rw [soloSend_fst]; exact inv_run _ _ h

theorem inv_soloRecv {s : St} (h : Inv s) (t : Nat) : Inv (soloRecv s t).1 := by
  rw [soloRecv_fst]; exact inv_run _ _ h

/-- Filling a quiescent ring that has room for all of `vs`: every call is accepted and reports the exact length. -/
theorem fill_of_inv (t : Nat) {s : St} (h : Inv s) (hidle : ∀ u, s.thr u = .idle) (vs : List Nat)
    (hk : (abs s).length + vs.length ≤ s.N) :
    (fill t s vs).2 = (List.range vs.length).map (fun i => Loc.done (.sent ((abs s).length + i + 1)))
    ∧ abs (fill t s vs).1 = abs s ++ vs
    ∧ (∀ u, (fill t s vs).1.thr u = .idle)
    ∧ (fill t s vs).1.N = s.N := by
  induction vs generalizing s with
  | nil => simp [fill, hidle]
  | cons v vs ih =>
    simp only [List.length_cons] at hk
    obtain ⟨h1, h2, h3, h4⟩ := soloSend_ok_of_inv h t v hidle (by omega)
    obtain ⟨i1, i2, i3, i4⟩ := ih (inv_soloSend h t v) h3 (by rw [h2, h4]; simp; omega)
    simp only [fill]
    refine ⟨?_, by rw [i2, h2]; simp, i3, by rw [i4, h4]⟩
    rw [i1, h1, h2, List.length_cons, List.range_succ_eq_map]
    simp only [List.map_cons, List.map_map, List.length_append, List.length_cons, List.length_nil,
      List.cons.injEq]
    refine ⟨by simp, List.map_congr_left (fun i _ => ?_)⟩
    simp only [Function.comp]; congr 2; omega

/-- Draining a quiescent ring whose abstract content starts with `xs` returns exactly `xs`, in order. -/
theorem drain_of_inv (t : Nat) {s : St} (h : Inv s) (hidle : ∀ u, s.thr u = .idle) (xs ys : List Nat)
    (hxs : abs s = xs ++ ys) :
    (drain t s xs.length).2 = xs.map (fun x => Loc.done (.got x))
    ∧ abs (drain t s xs.length).1 = ys
    ∧ (∀ u, (drain t s xs.length).1.thr u = .idle)
    ∧ (drain t s xs.length).1.N = s.N := by
  induction xs generalizing s with
  | nil => simpa [drain, hidle] using hxs
  | cons x xs ih =>
    obtain ⟨h1, h2, h3, h4⟩ := soloRecv_ok_of_inv h t hidle (x := x) (xs := xs ++ ys) (by simpa using hxs)
    obtain ⟨i1, i2, i3, i4⟩ := ih (inv_soloRecv h t) h3 h2
    simp only [List.length_cons, drain, List.map_cons]
    exact ⟨by rw [i1, h1], i2, i3, by rw [i4, h4]⟩

/-! ## C20: a suspended flag holder blocks everybody; without one, a solo thread finishes -/

/-- `a` is not an action of thread `u`. -/
def notBy (u : Nat) (a : Act) : Prop := actor a ≠ u

instance (u : Nat) (a : Act) : Decidable (notBy u a) := by unfold notBy; infer_instance

/-- Producer `t` is waiting for the flag with payload `w`. -/
def waitingP (w : Nat) (l : Loc) : Prop := l = .pLock w ∨ l = .pSpin w
/-- A consumer is waiting for the flag. -/
def waitingC (l : Loc) : Prop := l = .cLock ∨ l = .cSpin

/-- The ring (everything but the program points and the flag) is the same in `s` and `s'`. -/
def sameRing (s s' : St) : Prop :=
  s'.N = s.N ∧ s'.head = s.head ∧ s'.tail = s.tail ∧ s'.buf = s.buf ∧ s'.accepted = s.accepted
  ∧ s'.delivered = s.delivered

theorem sameRing_refl (s : St) : sameRing s s := ⟨rfl, rfl, rfl, rfl, rfl, rfl⟩
theorem sameRing_trans {a b c : St} (h1 : sameRing a b) (h2 : sameRing b c) : sameRing a c := by
  obtain ⟨a1, a2, a3, a4, a5, a6⟩ := h1
  obtain ⟨b1, b2, b3, b4, b5, b6⟩ := h2
  exact ⟨b1.trans a1, b2.trans a2, b3.trans a3, b4.trans a4, b5.trans a5, b6.trans a6⟩

/-- While the flag is held, a step of a non-holder changes neither the ring nor the flag, and a waiting thread keeps
waiting. -/
theorem blocked_step {s : St} (hl : s.locked = true) {t : Nat} (hnh : ¬ holder (s.thr t)) :
    (step s t).locked = true ∧ sameRing s (step s t)
    ∧ (∀ w, waitingP w (s.thr t) → waitingP w ((step s t).thr t))
    ∧ (waitingC (s.thr t) → waitingC ((step s t).thr t))
    ∧ ¬ holder ((step s t).thr t) := by
  cases ht : s.thr t <;> simp only [ht, holder, not_true_eq_false] at hnh <;>
    simp [step, ht, hl, sameRing, waitingP, waitingC, holder]

theorem blocked_apply {s : St} (h : Inv s) {u v len : Nat} (hu : s.thr u = .pWrite v len)
    (a : Act) (ha : notBy u a) :
    (apply s a).thr u = .pWrite v len ∧ (apply s a).locked = true ∧ sameRing s (apply s a)
    ∧ (∀ t w, waitingP w (s.thr t) → waitingP w ((apply s a).thr t))
    ∧ (∀ t, waitingC (s.thr t) → waitingC ((apply s a).thr t))
    ∧ (∀ t, ¬ holder (s.thr t) → ¬ holder ((apply s a).thr t)) := by
  have hl : s.locked = true := h.lockIff.2 ⟨u, by simp [hu, holder]⟩
  refine ⟨by rw [apply_thr_other s a ha, hu], ?_⟩
  cases a with
  | step t =>
    have htu : t ≠ u := ha
    have hnh : ¬ holder (s.thr t) := fun hh => htu (h.mutex t u hh (by simp [hu, holder]))
    obtain ⟨b1, b2, b3, b4, b5⟩ := blocked_step hl hnh
    refine ⟨b1, b2, ?_, ?_, ?_⟩
    · intro t' w hw
      by_cases e : t' = t
      · subst e; exact b3 w hw
      · simp only [apply]; rw [step_thr_other s e]; exact hw
    · intro t' hw
      by_cases e : t' = t
      · subst e; exact b4 hw
      · simp only [apply]; rw [step_thr_other s e]; exact hw
    · intro t' hw
      by_cases e : t' = t
      · subst e; exact b5
      · simp only [apply]; rw [step_thr_other s e]; exact hw
  | send t w =>
    simp only [apply]; split
    · refine ⟨hl, sameRing_refl _, ?_, ?_, ?_⟩ <;> intro t' <;> by_cases e : t' = t <;>
        simp_all [waitingP, waitingC, holder]
    · exact ⟨hl, sameRing_refl _, fun _ _ h => h, fun _ h => h, fun _ h => h⟩
  | recv t =>
    simp only [apply]; split
    · refine ⟨hl, sameRing_refl _, ?_, ?_, ?_⟩ <;> intro t' <;> by_cases e : t' = t <;>
        simp_all [waitingP, waitingC, holder]
    · exact ⟨hl, sameRing_refl _, fun _ _ h => h, fun _ h => h, fun _ h => h⟩
  | len t =>
    simp only [apply]; split
    · refine ⟨hl, sameRing_refl _, ?_, ?_, ?_⟩ <;> intro t' <;> by_cases e : t' = t <;>
        simp_all [waitingP, waitingC, holder]
    · exact ⟨hl, sameRing_refl _, fun _ _ h => h, fun _ h => h, fun _ h => h⟩
  | ack t =>
    simp only [apply]; split
    · refine ⟨hl, sameRing_refl _, ?_, ?_, ?_⟩ <;> intro t' <;> by_cases e : t' = t <;>
        simp_all [waitingP, waitingC, holder]
    · exact ⟨hl, sameRing_refl _, fun _ _ h => h, fun _ h => h, fun _ h => h⟩

theorem blocked_run {s : St} (h : Inv s) {u v len : Nat} (hu : s.thr u = .pWrite v len)
    (as : List Act) (hnb : ∀ a ∈ as, notBy u a) :
    (run s as).thr u = .pWrite v len ∧ (run s as).locked = true ∧ sameRing s (run s as)
    ∧ (∀ t w, waitingP w (s.thr t) → waitingP w ((run s as).thr t))
    ∧ (∀ t, waitingC (s.thr t) → waitingC ((run s as).thr t))
    ∧ (∀ t, t ≠ u → ¬ holder ((run s as).thr t)) := by
  induction as generalizing s with
  | nil =>
    refine ⟨hu, h.lockIff.2 ⟨u, by simp [hu, holder]⟩, sameRing_refl _, fun _ _ h => h, fun _ h => h, ?_⟩
    intro t htu hh; exact htu (h.mutex t u hh (by simp [hu, holder]))
  | cons a as ih =>
    obtain ⟨a1, _, a3, a4, a5, _⟩ := blocked_apply h hu a (hnb a (by simp))
    obtain ⟨b1, b2, b3, b4, b5, b6⟩ := ih (inv_apply s a h) a1 (fun b hb => hnb b (by simp [hb]))
    rw [run_cons]
    exact ⟨b1, b2, sameRing_trans a3 b3, fun t w hw => b4 t w (a4 t w hw), fun t hw => b5 t (a5 t hw), b6⟩

/-- Program points a `send`/`recv`-calling thread can be at without ever having held the flag since it was idle:
idle, waiting for the flag, or inside the lock-free `len`. -/
def blockedLoc : Loc → Prop
  | .idle | .pLock _ | .pSpin _ | .cLock | .cSpin | .lLen | .lLenH _ | .done (.len _) => True
  | _ => False

theorem blockedLoc_apply {s : St} (hl : s.locked = true) (a : Act) (t : Nat) (hb : blockedLoc (s.thr t)) :
    blockedLoc ((apply s a).thr t) := by
  by_cases hat : actor a = t
  · cases a with
    | step u =>
      simp only [actor] at hat; subst hat
      simp only [apply]
      cases ht : s.thr u <;> simp only [ht, blockedLoc] at hb <;> simp [step, ht, hl, blockedLoc]
      all_goals (rename_i r; cases r <;> simp_all)
    | _ =>
      simp only [actor] at hat; subst hat; simp only [apply]; split <;> simp_all [blockedLoc]
  · rw [apply_thr_other s a hat]; exact hb

theorem blockedLoc_run {s : St} (h : Inv s) {u v len : Nat} (hu : s.thr u = .pWrite v len)
    (as : List Act) (hnb : ∀ a ∈ as, notBy u a) (t : Nat) (hb : blockedLoc (s.thr t)) :
    blockedLoc ((run s as).thr t) := by
  induction as generalizing s with
  | nil => exact hb
  | cons a as ih =>
    have hl : s.locked = true := h.lockIff.2 ⟨u, by simp [hu, holder]⟩
    obtain ⟨a1, _⟩ := blocked_apply h hu a (hnb a (by simp))
    rw [run_cons]
    exact ih (inv_apply s a h) a1 (fun b hb => hnb b (by simp [hb])) (blockedLoc_apply hl a t hb)

/-- Thread `t` reaches a `done` point within `b` of its own steps. -/
def FinishesIn (s : St) (t b : Nat) : Prop :=
  ∃ k, k ≤ b ∧ ∃ r, (run s (List.replicate k (.step t))).thr t = .done r

theorem FinishesIn.mono {s : St} {t b b' : Nat} (h : FinishesIn s t b) (hb : b ≤ b') : FinishesIn s t b' := by
  obtain ⟨k, hk, r⟩ := h; exact ⟨k, by omega, r⟩

theorem finishesIn_done {s : St} {t : Nat} {r : Res} (h : s.thr t = .done r) : FinishesIn s t 0 :=
  ⟨0, Nat.le_refl _, r, h⟩

theorem finishesIn_step {s : St} {t b : Nat} (h : FinishesIn (step s t) t b) : FinishesIn s t (b + 1) := by
  obtain ⟨k, hk, r, hr⟩ := h
  exact ⟨k + 1, by omega, r, by simpa [List.replicate_succ, run_cons, apply] using hr⟩

theorem finishesIn_pUnlocked {s : St} {t len : Nat} (h : s.thr t = .pUnlocked len) : FinishesIn s t 1 :=
  finishesIn_step (finishesIn_done (r := .sent len) (by simp [step_pUnlocked h]))
theorem finishesIn_pFullUnlocked {s : St} {t : Nat} (h : s.thr t = .pFullUnlocked) : FinishesIn s t 1 :=
  finishesIn_step (finishesIn_done (r := .full) (by simp [step_pFullUnlocked h]))
theorem finishesIn_cUnlocked {s : St} {t v : Nat} (h : s.thr t = .cUnlocked v) : FinishesIn s t 1 :=
  finishesIn_step (finishesIn_done (r := .got v) (by simp [step_cUnlocked h]))
theorem finishesIn_cEmptyUnlocked {s : St} {t : Nat} (h : s.thr t = .cEmptyUnlocked) : FinishesIn s t 1 :=
  finishesIn_step (finishesIn_done (r := .empty) (by simp [step_cEmptyUnlocked h]))
theorem finishesIn_lLenH {s : St} {t tl : Nat} (h : s.thr t = .lLenH tl) : FinishesIn s t 1 :=
  finishesIn_step (finishesIn_done (r := .len (U32.wsub (U32.wrap tl) (U32.wrap s.head))) (by simp [step_lLenH h]))
theorem finishesIn_lLen {s : St} {t : Nat} (h : s.thr t = .lLen) : FinishesIn s t 2 :=
  finishesIn_step (finishesIn_lLenH (tl := s.tail) (by simp [step_lLen h]))
theorem finishesIn_pPublish {s : St} {t v len : Nat} (h : s.thr t = .pPublish v len) : FinishesIn s t 2 :=
  finishesIn_step (finishesIn_pUnlocked (len := len) (by simp [step_pPublish h]))
theorem finishesIn_pWrite {s : St} {t v len : Nat} (h : s.thr t = .pWrite v len) : FinishesIn s t 3 :=
  finishesIn_step (finishesIn_pPublish (v := v) (len := len) (by simp [step_pWrite h]))
theorem finishesIn_pCheck {s : St} {t v : Nat} (h : s.thr t = .pCheck v) : FinishesIn s t 4 := by
  apply finishesIn_step
  by_cases hc : s.tail - s.head < s.N
  · exact finishesIn_pWrite (v := v) (len := s.tail - s.head + 1) (by simp [step_pCheck h, hc])
  · exact (finishesIn_pFullUnlocked (by simp [step_pCheck h, hc])).mono (by omega)
theorem finishesIn_cRelease {s : St} {t v : Nat} (h : s.thr t = .cRelease v) : FinishesIn s t 2 :=
  finishesIn_step (finishesIn_cUnlocked (v := v) (by simp [step_cRelease h]))
theorem finishesIn_cRead {s : St} {t : Nat} (h : s.thr t = .cRead) : FinishesIn s t 3 :=
  finishesIn_step (finishesIn_cRelease (v := s.buf (s.head % s.N)) (by simp [step_cRead h]))
theorem finishesIn_cLen {s : St} {t : Nat} (h : s.thr t = .cLen) : FinishesIn s t 4 := by
  apply finishesIn_step
  by_cases hc : s.tail - s.head > 0
  · exact finishesIn_cRead (by simp only [step_cLen h, hc, if_true]; simp)
  · exact (finishesIn_cEmptyUnlocked (by simp only [step_cLen h, hc, if_false]; simp)).mono (by omega)
theorem finishesIn_cLenT {s : St} {t : Nat} (h : s.thr t = .cLenT) : FinishesIn s t 5 :=
  finishesIn_step (finishesIn_cLen (by simp [step_cLenT h]))
theorem finishesIn_pLock {s : St} {t v : Nat} (hl : s.locked = false)
    (h : s.thr t = .pLock v ∨ s.thr t = .pSpin v) : FinishesIn s t 5 := by
  apply finishesIn_step
  rcases h with h | h
  · exact finishesIn_pCheck (v := v) (by simp [step_pLock h, hl])
  · exact finishesIn_pCheck (v := v) (by simp [step_pSpin h, hl])
theorem finishesIn_cLock {s : St} {t : Nat} (hl : s.locked = false)
    (h : s.thr t = .cLock ∨ s.thr t = .cSpin) : FinishesIn s t 6 := by
  apply finishesIn_step
  rcases h with h | h
  · exact finishesIn_cLenT (by simp [step_cLock h, hl])
  · exact finishesIn_cLenT (by simp [step_cSpin h, hl])

/-- With every other thread idle, any pending operation of `t` completes within 6 of its own steps. -/
theorem solo_progress_of_inv {s : St} (h : Inv s) {t : Nat} (ho : ∀ u, u ≠ t → s.thr u = .idle)
    (ht : s.thr t ≠ .idle) : FinishesIn s t 6 := by
  cases e : s.thr t with
  | idle => exact absurd e ht
  | done r => exact (finishesIn_done e).mono (by omega)
  | pLock v => exact (finishesIn_pLock (unlocked_of_others_idle h ho (by simp [e, holder])) (Or.inl e)).mono (by omega)
  | pSpin v => exact (finishesIn_pLock (unlocked_of_others_idle h ho (by simp [e, holder])) (Or.inr e)).mono (by omega)
  | pCheck v => exact (finishesIn_pCheck e).mono (by omega)
  | pFullUnlocked => exact (finishesIn_pFullUnlocked e).mono (by omega)
  | pWrite v len => exact (finishesIn_pWrite e).mono (by omega)
  | pPublish v len => exact (finishesIn_pPublish e).mono (by omega)
  | pUnlocked len => exact (finishesIn_pUnlocked e).mono (by omega)
  | cLock => exact finishesIn_cLock (unlocked_of_others_idle h ho (by simp [e, holder])) (Or.inl e)
  | cSpin => exact finishesIn_cLock (unlocked_of_others_idle h ho (by simp [e, holder])) (Or.inr e)
  | cLenT => exact (finishesIn_cLenT e).mono (by omega)
  | cLen => exact (finishesIn_cLen e).mono (by omega)
  | cEmptyUnlocked => exact (finishesIn_cEmptyUnlocked e).mono (by omega)
  | cRead => exact (finishesIn_cRead e).mono (by omega)
  | cRelease v => exact (finishesIn_cRelease e).mono (by omega)
  | cUnlocked v => exact (finishesIn_cUnlocked e).mono (by omega)
  | lLen => exact (finishesIn_lLen e).mono (by omega)
  | lLenH tl => exact (finishesIn_lLenH e).mono (by omega)

end Mutiny.LockRing
