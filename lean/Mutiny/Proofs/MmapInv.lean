import Mutiny.Model.MmapLog

/-!
# Inductive invariant of the `MmapLog` model (M9)

`Inv s` (ONE structure, destructure by field name):

* counters   : `hCP : consTail ≤ pubTail`
* publishers : `pRange pUniq pCover` (threads at `pWrite _ pos` / `pPublish pos` hold exactly `[consTail, pubTail)`)
* write-once : `wLow wHigh wWrite wPub slotW`
* log        : `logLen logOk` (`log[p]? = some (p, v)` with `slots p = some v`, for every `p < consTail`)
* deliveries : `delVal delIdx`
* subscribers: `fixedPair pollLt pollUniq pendOk idleOk loadDyn readOk recOk`

A subscriber's *logical cursor* `cur s i` is its `head`, minus one while its poller is between the `fetch_add` and the
end of the call (`pending`: `cLoadTail`/`cRecede`/`cRead`).  `SubOk s i c` says: `start ≤ c`, `c` is within the
subscriber's bound, and the positions delivered through `i` are exactly `start, start+1, …, c-1`, in order, each once.

## IMPORTANT: `Inv` needs ONE poller per subscriber (`PollOk`, theorem `two_pollers_skip`)

`consume` does `head.fetch_add(1)` first and gives the increment back (CAS `head+1 → head`) when there is nothing to
read.  With two threads polling the same subscriber the second increment can be served while the first one is about to be
given back: a position is skipped for ever and the first poller spins for ever.  Therefore

* `PollOk s a`  : side condition of one action (`poll t i` starts only while nobody is inside a poll of `i`);
* `inv_apply`   : `Inv s → PollOk s a → Inv (apply s a)`;
* `RunOk`, `inv_run`, `ReachableX`, `reachable_inv`;
* `runOk_of_owner` : every run in which each subscriber is polled by one fixed thread qualifies;
* `two_pollers_skip` : the concrete counterexample.
-/

namespace Mutiny.MmapLog

/-! ## named state transformers (the inline record updates of `step`) -/

def incPub (s : St) : St := { s with pubTail := s.pubTail + 1 }
def wrSlot (s : St) (pos v : Nat) : St :=
  { s with slots := fun p => if p = pos then some v else s.slots p,
           writes := fun p => if p = pos then s.writes p + 1 else s.writes p }
def pubLog (s : St) (pos : Nat) : St :=
  { s with consTail := pos + 1, log := s.log ++ [(pos, (s.slots pos).getD 0)] }
def addSubs (s : St) (l : List Sub) : St := { s with subs := s.subs ++ l }
def deliver (s : St) (x : Nat × Nat × Nat) : St := { s with delivered := s.delivered ++ [x] }

/-- the default subscriber of `getSub` -/
def dflt : Sub := { kind := .dyn, head := 0, start := 0 }

theorem getSub_eq (s : St) (i : Nat) : getSub s i = s.subs.getD i dflt := rfl

/-! ## projection lemmas -/

section proj
variable (s : St) (t u i j h pos v p : Nat) (l : Loc) (ls : List Sub) (x : Nat × Nat × Nat)

@[simp, grind =] theorem thr_setThr : (setThr s t l).thr u = if u = t then l else s.thr u := rfl
@[simp, grind =] theorem pubTail_setThr : (setThr s t l).pubTail = s.pubTail := rfl
@[simp, grind =] theorem consTail_setThr : (setThr s t l).consTail = s.consTail := rfl
@[simp] theorem slots_setThr : (setThr s t l).slots = s.slots := rfl
@[grind =] theorem slots_setThr' : (setThr s t l).slots p = s.slots p := rfl
@[simp, grind =] theorem subs_setThr : (setThr s t l).subs = s.subs := rfl
@[simp, grind =] theorem log_setThr : (setThr s t l).log = s.log := rfl
@[simp, grind =] theorem delivered_setThr : (setThr s t l).delivered = s.delivered := rfl
@[simp] theorem writes_setThr : (setThr s t l).writes = s.writes := rfl
@[grind =] theorem writes_setThr' : (setThr s t l).writes p = s.writes p := rfl
@[simp, grind =] theorem getSub_setThr : getSub (setThr s t l) i = getSub s i := rfl

@[simp] theorem thr_setHead : (setHead s i h).thr = s.thr := rfl
@[grind =] theorem thr_setHead' : (setHead s i h).thr u = s.thr u := rfl
@[simp, grind =] theorem pubTail_setHead : (setHead s i h).pubTail = s.pubTail := rfl
@[simp, grind =] theorem consTail_setHead : (setHead s i h).consTail = s.consTail := rfl
@[simp] theorem slots_setHead : (setHead s i h).slots = s.slots := rfl
@[grind =] theorem slots_setHead' : (setHead s i h).slots p = s.slots p := rfl
@[simp, grind =] theorem log_setHead : (setHead s i h).log = s.log := rfl
@[simp, grind =] theorem delivered_setHead : (setHead s i h).delivered = s.delivered := rfl
@[simp] theorem writes_setHead : (setHead s i h).writes = s.writes := rfl
@[grind =] theorem writes_setHead' : (setHead s i h).writes p = s.writes p := rfl
@[simp, grind =] theorem length_setHead : (setHead s i h).subs.length = s.subs.length := by simp [setHead]

@[simp] theorem thr_incPub : (incPub s).thr = s.thr := rfl
@[grind =] theorem thr_incPub' : (incPub s).thr u = s.thr u := rfl
@[simp, grind =] theorem pubTail_incPub : (incPub s).pubTail = s.pubTail + 1 := rfl
@[simp, grind =] theorem consTail_incPub : (incPub s).consTail = s.consTail := rfl
@[simp] theorem slots_incPub : (incPub s).slots = s.slots := rfl
@[grind =] theorem slots_incPub' : (incPub s).slots p = s.slots p := rfl
@[simp, grind =] theorem subs_incPub : (incPub s).subs = s.subs := rfl
@[simp, grind =] theorem log_incPub : (incPub s).log = s.log := rfl
@[simp, grind =] theorem delivered_incPub : (incPub s).delivered = s.delivered := rfl
@[simp] theorem writes_incPub : (incPub s).writes = s.writes := rfl
@[grind =] theorem writes_incPub' : (incPub s).writes p = s.writes p := rfl
@[simp, grind =] theorem getSub_incPub : getSub (incPub s) i = getSub s i := rfl

@[simp] theorem thr_wrSlot : (wrSlot s pos v).thr = s.thr := rfl
@[grind =] theorem thr_wrSlot' : (wrSlot s pos v).thr u = s.thr u := rfl
@[simp, grind =] theorem pubTail_wrSlot : (wrSlot s pos v).pubTail = s.pubTail := rfl
@[simp, grind =] theorem consTail_wrSlot : (wrSlot s pos v).consTail = s.consTail := rfl
@[simp, grind =] theorem slots_wrSlot : (wrSlot s pos v).slots p = if p = pos then some v else s.slots p := rfl
@[simp, grind =] theorem subs_wrSlot : (wrSlot s pos v).subs = s.subs := rfl
@[simp, grind =] theorem log_wrSlot : (wrSlot s pos v).log = s.log := rfl
@[simp, grind =] theorem delivered_wrSlot : (wrSlot s pos v).delivered = s.delivered := rfl
@[simp, grind =] theorem writes_wrSlot : (wrSlot s pos v).writes p = if p = pos then s.writes p + 1 else s.writes p := rfl
@[simp, grind =] theorem getSub_wrSlot : getSub (wrSlot s pos v) i = getSub s i := rfl

@[simp] theorem thr_pubLog : (pubLog s pos).thr = s.thr := rfl
@[grind =] theorem thr_pubLog' : (pubLog s pos).thr u = s.thr u := rfl
@[simp, grind =] theorem pubTail_pubLog : (pubLog s pos).pubTail = s.pubTail := rfl
@[simp, grind =] theorem consTail_pubLog : (pubLog s pos).consTail = pos + 1 := rfl
@[simp] theorem slots_pubLog : (pubLog s pos).slots = s.slots := rfl
@[grind =] theorem slots_pubLog' : (pubLog s pos).slots p = s.slots p := rfl
@[simp, grind =] theorem subs_pubLog : (pubLog s pos).subs = s.subs := rfl
@[simp, grind =] theorem log_pubLog : (pubLog s pos).log = s.log ++ [(pos, (s.slots pos).getD 0)] := rfl
@[simp, grind =] theorem delivered_pubLog : (pubLog s pos).delivered = s.delivered := rfl
@[simp] theorem writes_pubLog : (pubLog s pos).writes = s.writes := rfl
@[grind =] theorem writes_pubLog' : (pubLog s pos).writes p = s.writes p := rfl
@[simp, grind =] theorem getSub_pubLog : getSub (pubLog s pos) i = getSub s i := rfl

@[simp] theorem thr_addSubs : (addSubs s ls).thr = s.thr := rfl
@[grind =] theorem thr_addSubs' : (addSubs s ls).thr u = s.thr u := rfl
@[simp, grind =] theorem pubTail_addSubs : (addSubs s ls).pubTail = s.pubTail := rfl
@[simp, grind =] theorem consTail_addSubs : (addSubs s ls).consTail = s.consTail := rfl
@[simp] theorem slots_addSubs : (addSubs s ls).slots = s.slots := rfl
@[grind =] theorem slots_addSubs' : (addSubs s ls).slots p = s.slots p := rfl
@[simp, grind =] theorem log_addSubs : (addSubs s ls).log = s.log := rfl
@[simp, grind =] theorem delivered_addSubs : (addSubs s ls).delivered = s.delivered := rfl
@[simp] theorem writes_addSubs : (addSubs s ls).writes = s.writes := rfl
@[grind =] theorem writes_addSubs' : (addSubs s ls).writes p = s.writes p := rfl
@[simp, grind =] theorem length_addSubs : (addSubs s ls).subs.length = s.subs.length + ls.length := by
  simp [addSubs]

@[simp] theorem thr_deliver : (deliver s x).thr = s.thr := rfl
@[grind =] theorem thr_deliver' : (deliver s x).thr u = s.thr u := rfl
@[simp, grind =] theorem pubTail_deliver : (deliver s x).pubTail = s.pubTail := rfl
@[simp, grind =] theorem consTail_deliver : (deliver s x).consTail = s.consTail := rfl
@[simp] theorem slots_deliver : (deliver s x).slots = s.slots := rfl
@[grind =] theorem slots_deliver' : (deliver s x).slots p = s.slots p := rfl
@[simp, grind =] theorem subs_deliver : (deliver s x).subs = s.subs := rfl
@[simp, grind =] theorem log_deliver : (deliver s x).log = s.log := rfl
@[simp, grind =] theorem delivered_deliver : (deliver s x).delivered = s.delivered ++ [x] := rfl
@[simp] theorem writes_deliver : (deliver s x).writes = s.writes := rfl
@[grind =] theorem writes_deliver' : (deliver s x).writes p = s.writes p := rfl
@[simp, grind =] theorem getSub_deliver : getSub (deliver s x) i = getSub s i := rfl

/-! ### subscribers under `setHead` and `addSubs` -/

theorem getSub_setHead_ne (hne : j ≠ i) : getSub (setHead s i h) j = getSub s j := by
  simp only [getSub, setHead, List.getD_eq_getElem?_getD]
  rw [List.getElem?_modify_ne _ _ (Ne.symm hne)]

theorem getSub_setHead_eq (hi : i < s.subs.length) : getSub (setHead s i h) i = { getSub s i with head := h } := by
  simp only [getSub, setHead, List.getD_eq_getElem?_getD, List.getElem?_modify_eq]
  rw [List.getElem?_eq_getElem hi]; rfl

theorem getSub_setHead_ge (hi : s.subs.length ≤ i) : getSub (setHead s i h) j = getSub s j := by
  by_cases hne : j = i
  · subst hne
    simp only [getSub, setHead, List.getD_eq_getElem?_getD, List.getElem?_modify_eq]
    rw [List.getElem?_eq_none hi]; rfl
  · exact getSub_setHead_ne s i j h hne

@[simp, grind =] theorem kind_setHead : (getSub (setHead s i h) j).kind = (getSub s j).kind := by
  by_cases hi : i < s.subs.length
  · by_cases hne : j = i
    · subst hne; rw [getSub_setHead_eq s j h hi]
    · rw [getSub_setHead_ne s i j h hne]
  · rw [getSub_setHead_ge s i j h (by omega)]

@[simp, grind =] theorem start_setHead : (getSub (setHead s i h) j).start = (getSub s j).start := by
  by_cases hi : i < s.subs.length
  · by_cases hne : j = i
    · subst hne; rw [getSub_setHead_eq s j h hi]
    · rw [getSub_setHead_ne s i j h hne]
  · rw [getSub_setHead_ge s i j h (by omega)]

@[simp, grind =] theorem head_setHead :
    (getSub (setHead s i h) j).head = if j = i ∧ i < s.subs.length then h else (getSub s j).head := by
  by_cases hi : i < s.subs.length
  · by_cases hne : j = i
    · subst hne; rw [getSub_setHead_eq s j h hi]; simp [hi]
    · rw [getSub_setHead_ne s i j h hne]; simp [hne]
  · rw [getSub_setHead_ge s i j h (by omega)]; simp [hi]

theorem getSub_addSubs_lt (hj : j < s.subs.length) : getSub (addSubs s ls) j = getSub s j := by
  simp only [getSub, addSubs, List.getD_eq_getElem?_getD]
  rw [List.getElem?_append_left hj]

theorem getSub_addSubs_ge (hj : s.subs.length ≤ j) : getSub (addSubs s ls) j = ls.getD (j - s.subs.length) dflt := by
  simp only [getSub, addSubs, List.getD_eq_getElem?_getD]
  rw [List.getElem?_append_right hj]; rfl

@[grind =] theorem getSub_addSubs1 (x : Sub) : getSub (addSubs s [x]) j =
    if j < s.subs.length then getSub s j else if j = s.subs.length then x else dflt := by
  split
  · rename_i hj; exact getSub_addSubs_lt s j _ hj
  · rename_i hj
    rw [getSub_addSubs_ge s j _ (by omega)]
    split
    · rename_i e; subst e; simp
    · rename_i e
      have : j - s.subs.length = (j - s.subs.length - 1) + 1 := by omega
      rw [this]; simp

@[grind =] theorem getSub_addSubs2 (x y : Sub) : getSub (addSubs s [x, y]) j =
    if j < s.subs.length then getSub s j else if j = s.subs.length then x
    else if j = s.subs.length + 1 then y else dflt := by
  split
  · rename_i hj; exact getSub_addSubs_lt s j _ hj
  · rename_i hj
    rw [getSub_addSubs_ge s j _ (by omega)]
    split
    · rename_i e; subst e; simp
    · rename_i e
      split
      · rename_i e2; subst e2; simp
      · rename_i e2
        have : j - s.subs.length = (j - s.subs.length - 2) + 2 := by omega
        rw [this]; simp

end proj

/-! ## `step`, one equation per program point -/

section stepEq
variable (s : St) (t v pos i h : Nat)

theorem step_idle (ht : s.thr t = .idle) : step s t = s := by simp only [step, ht]
theorem step_done (r : Res) (ht : s.thr t = .done r) : step s t = s := by simp only [step, ht]

theorem step_pFetch (ht : s.thr t = .pFetch v) : step s t = setThr (incPub s) t (.pWrite v s.pubTail) := by
  simp only [step, ht]; rfl

theorem step_pWrite (ht : s.thr t = .pWrite v pos) : step s t = setThr (wrSlot s pos v) t (.pPublish pos) := by
  simp only [step, ht]; rfl

theorem step_pPublish (ht : s.thr t = .pPublish pos) :
    step s t = if s.consTail = pos then setThr (pubLog s pos) t (.done .unit) else s := by
  simp only [step, ht]; rfl

theorem step_sLoad_split (ht : s.thr t = .sLoad true) :
    step s t = setThr (addSubs s [{ kind := .fixed s.consTail, head := 0, start := 0 },
                                   { kind := .dyn, head := s.consTail, start := s.consTail }]) t
                 (.done (.subs s.subs.length (some (s.subs.length + 1)))) := by
  simp only [step, ht]; rfl

theorem step_sLoad_new (ht : s.thr t = .sLoad false) :
    step s t = setThr (addSubs s [{ kind := .dyn, head := s.consTail, start := s.consTail }]) t
                 (.done (.subs s.subs.length none)) := by
  simp only [step, ht]; rfl

theorem step_cFetch_dyn (ht : s.thr t = .cFetch i) (hk : (getSub s i).kind = .dyn) :
    step s t = setThr (setHead s i ((getSub s i).head + 1)) t (.cLoadTail i (getSub s i).head) := by
  simp only [step, ht, hk]

theorem step_cFetch_fixed (ft : Nat) (ht : s.thr t = .cFetch i) (hk : (getSub s i).kind = .fixed ft) :
    step s t = if (getSub s i).head ≥ ft then setThr (setHead s i ((getSub s i).head + 1)) t (.cRecede i (getSub s i).head)
               else setThr (setHead s i ((getSub s i).head + 1)) t (.cRead i (getSub s i).head) := by
  simp only [step, ht, hk]

theorem step_cLoadTail (ht : s.thr t = .cLoadTail i h) :
    step s t = if h ≥ s.consTail then setThr s t (.cRecede i h) else setThr s t (.cRead i h) := by
  simp only [step, ht]

theorem step_cRecede (ht : s.thr t = .cRecede i h) :
    step s t = if (getSub s i).head = h + 1 then setThr (setHead s i h) t (.done (.item none)) else s := by
  simp only [step, ht]

theorem step_cRead (ht : s.thr t = .cRead i h) :
    step s t = setThr (deliver s (i, h, (s.slots h).getD 0)) t (.done (.item (some ((s.slots h).getD 0)))) := by
  simp only [step, ht]; rfl

end stepEq

/-! ## who holds which position, who polls which subscriber -/

/-- publishers holding position `k` (between their `fetch_add` and their successful CAS on `consumer_tail`) -/
def holdsP : Loc → Nat → Prop
  | .pWrite _ pos, k => pos = k
  | .pPublish pos, k => pos = k
  | _, _ => False

/-- threads inside a `consume` call of subscriber `k` -/
def polls : Loc → Nat → Prop
  | .cFetch i, k => i = k
  | .cLoadTail i _, k => i = k
  | .cRecede i _, k => i = k
  | .cRead i _, k => i = k
  | _, _ => False

/-- threads inside a `consume` call of subscriber `k` that have incremented its cursor from `c` to `c + 1` and have
    neither given the increment back nor delivered position `c` yet -/
def pending : Loc → Nat → Nat → Prop
  | .cLoadTail i h, k, c => i = k ∧ h = c
  | .cRecede i h, k, c => i = k ∧ h = c
  | .cRead i h, k, c => i = k ∧ h = c
  | _, _, _ => False

theorem pending_polls {l : Loc} {k c : Nat} (h : pending l k c) : polls l k := by
  cases l <;> simp_all [pending, polls]

/-- how far a subscriber's cursor may go -/
def Bound (ct : Nat) : SubKind → Nat → Prop
  | .dyn, c => c ≤ ct
  | .fixed ft, c => c ≤ ft ∧ ft ≤ ct

theorem Bound.mono {ct ct' : Nat} {k : SubKind} {c : Nat} (h : Bound ct k c) (hle : ct ≤ ct') : Bound ct' k c := by
  cases k <;> simp_all [Bound] <;> omega

/-- the positions delivered through subscriber `i`, in delivery order -/
def delOf (s : St) (i : Nat) : List Nat := (s.delivered.filter (fun x => x.1 == i)).map (·.2.1)

section delOf
variable (s : St) (t i j h pos v : Nat) (l : Loc) (ls : List Sub)
@[simp, grind =] theorem delOf_setThr : delOf (setThr s t l) i = delOf s i := rfl
@[simp, grind =] theorem delOf_setHead : delOf (setHead s j h) i = delOf s i := rfl
@[simp, grind =] theorem delOf_incPub : delOf (incPub s) i = delOf s i := rfl
@[simp, grind =] theorem delOf_wrSlot : delOf (wrSlot s pos v) i = delOf s i := rfl
@[simp, grind =] theorem delOf_pubLog : delOf (pubLog s pos) i = delOf s i := rfl
@[simp, grind =] theorem delOf_addSubs : delOf (addSubs s ls) i = delOf s i := rfl
@[simp, grind =] theorem delOf_deliver (x : Nat × Nat × Nat) :
    delOf (deliver s x) i = if x.1 = i then delOf s i ++ [x.2.1] else delOf s i := by
  simp only [delOf, delivered_deliver, List.filter_append, List.map_append]
  by_cases e : x.1 = i <;> simp [e]
end delOf

/-- subscriber `i` with logical cursor `c`: `start ≤ c`, `c` within the subscriber's bound, and the positions delivered
    through `i` are exactly `start, …, c - 1`, in this order, each once -/
def SubOk (s : St) (i c : Nat) : Prop :=
  (getSub s i).start ≤ c ∧ Bound s.consTail (getSub s i).kind c ∧
  delOf s i = List.range' (getSub s i).start (c - (getSub s i).start)

/-! ## the invariant -/

structure Inv (s : St) : Prop where
  hCP : s.consTail ≤ s.pubTail
  pRange : ∀ t k, holdsP (s.thr t) k → s.consTail ≤ k ∧ k < s.pubTail
  pUniq : ∀ t1 t2 k, holdsP (s.thr t1) k → holdsP (s.thr t2) k → t1 = t2
  pCover : ∀ k, s.consTail ≤ k → k < s.pubTail → ∃ t, holdsP (s.thr t) k
  wLow : ∀ p, p < s.consTail → s.writes p = 1
  wHigh : ∀ p, s.pubTail ≤ p → s.writes p = 0
  wWrite : ∀ t v pos, s.thr t = .pWrite v pos → s.writes pos = 0
  wPub : ∀ t pos, s.thr t = .pPublish pos → s.writes pos = 1
  slotW : ∀ p, s.slots p = none ↔ s.writes p = 0
  logLen : s.log.length = s.consTail
  logOk : ∀ p, p < s.consTail → ∃ v, s.slots p = some v ∧ s.log[p]? = some (p, v)
  delVal : ∀ x, x ∈ s.delivered → s.log[x.2.1]? = some (x.2.1, x.2.2)
  delIdx : ∀ x, x ∈ s.delivered → x.1 < s.subs.length
  fixedPair : ∀ i ft, i < s.subs.length → (getSub s i).kind = .fixed ft →
    (getSub s i).start = 0 ∧ i + 1 < s.subs.length ∧ (getSub s (i + 1)).kind = .dyn ∧ (getSub s (i + 1)).start = ft
  pollLt : ∀ t i, polls (s.thr t) i → i < s.subs.length
  pollUniq : ∀ t1 t2 i, polls (s.thr t1) i → polls (s.thr t2) i → t1 = t2
  pendOk : ∀ t i h, pending (s.thr t) i h → (getSub s i).head = h + 1 ∧ SubOk s i h
  idleOk : ∀ i, i < s.subs.length → (∀ t h, ¬ pending (s.thr t) i h) → SubOk s i (getSub s i).head
  loadDyn : ∀ t i h, s.thr t = .cLoadTail i h → (getSub s i).kind = .dyn
  readOk : ∀ t i h, s.thr t = .cRead i h → h < s.consTail ∧ ∀ ft, (getSub s i).kind = .fixed ft → h < ft
  recOk : ∀ t i h ft, s.thr t = .cRecede i h → (getSub s i).kind = .fixed ft → ft ≤ h

theorem Inv.pendLt {s : St} (h : Inv s) (t i c : Nat) (hp : pending (s.thr t) i c) : i < s.subs.length :=
  h.pollLt t i (pending_polls hp)

theorem Inv.delOf_nil {s : St} (h : Inv s) (i : Nat) (hi : s.subs.length ≤ i) : delOf s i = [] := by
  simp only [delOf, List.map_eq_nil_iff, List.filter_eq_nil_iff]
  intro x hx
  have := h.delIdx x hx
  simp; omega

theorem inv_init : Inv init := by
  constructor <;> simp [init, holdsP, polls, pending]

/-! ## one case per program point -/

set_option maxHeartbeats 1000000

macro "mm_fields" h:term:max t:term:max : tactic => `(tactic| (
  have := Inv.hCP $h; have := Inv.logLen $h
  constructor
  all_goals (first | omega | skip)
  try (case hCP => grind)
  try (case pRange => intro u k; have := Inv.pRange $h u k; have := Inv.pUniq $h u $t k; grind [holdsP])
  try (case pUniq => intro t1 t2 k; have := Inv.pUniq $h t1 t2 k; have := Inv.pRange $h t1 k; have := Inv.pRange $h t2 k; grind [holdsP])
  try (case pCover => intro k hk1 hk2; refine Exists.elim (Inv.pCover $h k ?_ ?_) (fun u hu => ⟨u, ?_⟩) <;> grind [holdsP])
  try (case wLow => intro p; have := Inv.wLow $h p; grind)
  try (case wHigh => intro p; have := Inv.wHigh $h p; grind)
  try (case wWrite => intro u v pos; have := Inv.wWrite $h u v pos; have := Inv.wHigh $h pos; have := Inv.pUniq $h u $t pos; grind [holdsP])
  try (case wPub => intro u pos; have := Inv.wPub $h u pos; have := Inv.pUniq $h u $t pos; grind [holdsP])
  try (case slotW => intro p; have := Inv.slotW $h p; grind)
  try (case logLen => grind)
  try (case logOk => intro p; have := Inv.logOk $h p; grind)
  try (case delVal => intro x; have := Inv.delVal $h x; grind)
  try (case delIdx => intro x; have := Inv.delIdx $h x; grind)
  try (case fixedPair => intro i ft; have := Inv.fixedPair $h i ft; grind)
  try (case pollLt => intro u i; have := Inv.pollLt $h u i; grind [polls])
  try (case pollUniq => intro t1 t2 i; have := Inv.pollUniq $h t1 t2 i; grind [polls])
  try (case pendOk => intro u i c; have := Inv.pendOk $h u i c; have := Inv.pendLt $h u i c; grind [pending, SubOk, Bound.mono])
  try (case idleOk => intro i hi hp; have := Inv.idleOk $h i (by grind) (by intro u c hu; have := hp u c; grind [pending]); grind [SubOk, Bound.mono])
  try (case loadDyn => intro u i c; have := Inv.loadDyn $h u i c; have := Inv.pollLt $h u i; grind [polls])
  try (case readOk => intro u i c; have := Inv.readOk $h u i c; have := Inv.pollLt $h u i; grind [polls])
  try (case recOk => intro u i c ft; have := Inv.recOk $h u i c ft; have := Inv.pollLt $h u i; grind [polls])))

theorem apply_inv_send (s : St) (t v : Nat) (h : Inv s) : Inv (apply s (.send t v)) := by
  simp only [apply]
  split
  · rename_i ht; mm_fields h t
  · exact h

theorem step_inv_pFetch (s : St) (t v : Nat) (h : Inv s) (ht : s.thr t = .pFetch v) : Inv (step s t) := by
  rw [step_pFetch s t v ht]
  mm_fields h t
  · intro k hk1 hk2
    by_cases hk : k = s.pubTail
    · exact ⟨t, by simp [hk, holdsP]⟩
    · obtain ⟨u, hu⟩ := h.pCover k (by grind) (by grind)
      exact ⟨u, by grind [holdsP]⟩

theorem step_inv_pWrite (s : St) (t v pos : Nat) (h : Inv s) (ht : s.thr t = .pWrite v pos) : Inv (step s t) := by
  have me := h.pRange t pos (by simp [ht, holdsP])
  have me2 := h.wWrite t v pos ht
  rw [step_pWrite s t v pos ht]
  mm_fields h t

theorem step_inv_pPublish (s : St) (t pos : Nat) (h : Inv s) (ht : s.thr t = .pPublish pos) : Inv (step s t) := by
  have me := h.pRange t pos (by simp [ht, holdsP])
  have me2 := h.wPub t pos ht
  rw [step_pPublish s t pos ht]
  split
  · rename_i he
    mm_fields h t
    · intro p hp
      simp only [consTail_setThr, consTail_pubLog, slots_setThr, slots_pubLog, log_setThr, log_pubLog] at hp ⊢
      by_cases hk : p = pos
      · subst hk
        have hs : s.slots p ≠ none := by rw [Ne, h.slotW p]; omega
        obtain ⟨w, hw⟩ := Option.ne_none_iff_exists'.mp hs
        refine ⟨w, hw, ?_⟩
        have hl : s.log.length = p := by omega
        rw [← hl, List.getElem?_concat_length, hl, hw]; rfl
      · obtain ⟨w, hw1, hw2⟩ := h.logOk p (by omega)
        refine ⟨w, hw1, ?_⟩
        rw [List.getElem?_append_left (by omega)]; exact hw2
  · exact h

theorem step_inv_sLoad_split (s : St) (t : Nat) (h : Inv s) (ht : s.thr t = .sLoad true) : Inv (step s t) := by
  rw [step_sLoad_split s t ht]
  mm_fields h t
  · intro i hi hp
    have hn := h.delOf_nil
    by_cases hlt : i < s.subs.length
    · have := Inv.idleOk h i hlt (by intro u c hu; have := hp u c; grind [pending]); grind [SubOk, Bound.mono]
    · have := hn i (by omega)
      grind [SubOk, Bound]

theorem step_inv_sLoad_new (s : St) (t : Nat) (h : Inv s) (ht : s.thr t = .sLoad false) : Inv (step s t) := by
  rw [step_sLoad_new s t ht]
  mm_fields h t
  · intro i hi hp
    have hn := h.delOf_nil
    by_cases hlt : i < s.subs.length
    · have := Inv.idleOk h i hlt (by intro u c hu; have := hp u c; grind [pending]); grind [SubOk, Bound.mono]
    · have := hn i (by omega)
      grind [SubOk, Bound]

theorem step_inv_cLoadTail (s : St) (t i c : Nat) (h : Inv s) (ht : s.thr t = .cLoadTail i c) : Inv (step s t) := by
  have me := h.pendOk t i c (by simp [ht, pending])
  have me2 := h.loadDyn t i c ht
  rw [step_cLoadTail s t i c ht]
  split
  · mm_fields h t
  · mm_fields h t

theorem step_inv_cFetch (s : St) (t i : Nat) (h : Inv s) (ht : s.thr t = .cFetch i) : Inv (step s t) := by
  have lt := h.pollLt t i (by simp [ht, polls])
  have np : ∀ u c, ¬ pending (s.thr u) i c := by
    intro u c hu
    have := h.pollUniq u t i (pending_polls hu) (by simp [ht, polls])
    subst this; simp [ht, pending] at hu
  have me := h.idleOk i lt np
  cases hk : (getSub s i).kind with
  | dyn =>
    rw [step_cFetch_dyn s t i ht hk]
    mm_fields h t
    · intro j hj hp
      by_cases e : j = i
      · subst e; exact absurd (by simp [pending]) (hp t (getSub s j).head)
      · have := Inv.idleOk h j (by simpa using hj) (by intro u c hu; have := hp u c; grind [pending]); grind [SubOk, Bound.mono]
  | fixed ft =>
    rw [step_cFetch_fixed s t i ft ht hk]
    have me' : (getSub s i).head ≤ ft ∧ ft ≤ s.consTail := by simpa [SubOk, hk, Bound] using me.2.1
    split
    · mm_fields h t
      · intro j hj hp
        by_cases e : j = i
        · subst e; exact absurd (by simp [pending]) (hp t (getSub s j).head)
        · have := Inv.idleOk h j (by simpa using hj) (by intro u c hu; have := hp u c; grind [pending]); grind [SubOk, Bound.mono]
    · mm_fields h t
      · intro j hj hp
        by_cases e : j = i
        · subst e; exact absurd (by simp [pending]) (hp t (getSub s j).head)
        · have := Inv.idleOk h j (by simpa using hj) (by intro u c hu; have := hp u c; grind [pending]); grind [SubOk, Bound.mono]

theorem step_inv_cRecede (s : St) (t i c : Nat) (h : Inv s) (ht : s.thr t = .cRecede i c) : Inv (step s t) := by
  have lt := h.pollLt t i (by simp [ht, polls])
  have me := h.pendOk t i c (by simp [ht, pending])
  have np : ∀ u c', u ≠ t → ¬ pending (s.thr u) i c' := by
    intro u c' hne hu
    exact hne (h.pollUniq u t i (pending_polls hu) (by simp [ht, polls]))
  rw [step_cRecede s t i c ht]
  split
  · mm_fields h t
    · intro j hj hp
      by_cases e : j = i
      · subst e; have := me.2; grind [SubOk]
      · have := Inv.idleOk h j (by simpa using hj) (by intro u c hu; have := hp u c; grind [pending]); grind [SubOk, Bound.mono]
  · exact h

theorem step_inv_cRead (s : St) (t i c : Nat) (h : Inv s) (ht : s.thr t = .cRead i c) : Inv (step s t) := by
  have lt := h.pollLt t i (by simp [ht, polls])
  have me := h.pendOk t i c (by simp [ht, pending])
  have me2 := h.readOk t i c ht
  have np : ∀ u c', u ≠ t → ¬ pending (s.thr u) i c' := by
    intro u c' hne hu
    exact hne (h.pollUniq u t i (pending_polls hu) (by simp [ht, polls]))
  rw [step_cRead s t i c ht]
  obtain ⟨w, hw1, hw2⟩ := h.logOk c me2.1
  mm_fields h t
  · intro j hj hp
    by_cases e : j = i
    · subst e
      obtain ⟨m1, m2, m3⟩ := me.2
      refine ⟨by simp; omega, ?_, ?_⟩
      · simp only [consTail_setThr, consTail_deliver, getSub_setThr, getSub_deliver, me.1]
        cases hk : (getSub s j).kind with
        | dyn => simp only [Bound]; omega
        | fixed ft => have := me2.2 ft hk; rw [hk] at m2; simp only [Bound] at m2 ⊢; omega
      · simp only [delOf_setThr, delOf_deliver, getSub_setThr, getSub_deliver, if_true, me.1, m3]
        have : c + 1 - (getSub s j).start = (c - (getSub s j).start) + 1 := by omega
        rw [this, List.range'_1_concat]; congr 2; omega
    · have := Inv.idleOk h j (by simpa using hj) (by intro u c hu; have := hp u c; grind [pending]); grind [SubOk, Bound.mono]

/-! ## all of `step`, `apply`, `run` -/

theorem step_inv (s : St) (t : Nat) (h : Inv s) : Inv (step s t) := by
  cases hl : s.thr t with
  | idle => rw [step_idle s t hl]; exact h
  | done r => rw [step_done s t r hl]; exact h
  | pFetch v => exact step_inv_pFetch s t v h hl
  | pWrite v pos => exact step_inv_pWrite s t v pos h hl
  | pPublish pos => exact step_inv_pPublish s t pos h hl
  | sLoad b =>
    cases b with
    | true => exact step_inv_sLoad_split s t h hl
    | false => exact step_inv_sLoad_new s t h hl
  | cFetch i => exact step_inv_cFetch s t i h hl
  | cLoadTail i c => exact step_inv_cLoadTail s t i c h hl
  | cRecede i c => exact step_inv_cRecede s t i c h hl
  | cRead i c => exact step_inv_cRead s t i c h hl

theorem apply_inv_subNew (s : St) (t : Nat) (h : Inv s) : Inv (apply s (.subNew t)) := by
  simp only [apply]
  split
  · rename_i ht; mm_fields h t
  · exact h

theorem apply_inv_subSplit (s : St) (t : Nat) (h : Inv s) : Inv (apply s (.subSplit t)) := by
  simp only [apply]
  split
  · rename_i ht; mm_fields h t
  · exact h

theorem apply_subJoined (s : St) (t : Nat) :
    apply s (.subJoined t) = if s.thr t = .idle then
      setThr (addSubs s [{ kind := .dyn, head := 0, start := 0 }]) t (.done (.subs s.subs.length none)) else s := rfl

theorem apply_inv_subJoined (s : St) (t : Nat) (h : Inv s) : Inv (apply s (.subJoined t)) := by
  rw [apply_subJoined]
  split
  · rename_i ht
    mm_fields h t
    · intro i hi hp
      have hn := h.delOf_nil
      by_cases hlt : i < s.subs.length
      · have := Inv.idleOk h i hlt (by intro u c hu; have := hp u c; grind [pending]); grind [SubOk, Bound.mono]
      · have := hn i (by omega)
        grind [SubOk, Bound]
  · exact h

/-- the side condition of one action: a poll of subscriber `i` starts only while no thread is inside a poll of `i`
    (every subscriber has ONE consumer; see `two_pollers_skip` for what happens otherwise) -/
def PollOk (s : St) (a : Act) : Prop :=
  ∀ t i, a = .poll t i → s.thr t = .idle → ∀ u, ¬ polls (s.thr u) i

theorem apply_inv_poll (s : St) (t i : Nat) (h : Inv s) (hok : PollOk s (.poll t i)) : Inv (apply s (.poll t i)) := by
  simp only [apply]
  split
  · rename_i ht
    have np := hok t i rfl ht.1
    have lt := ht.2
    replace ht := ht.1
    mm_fields h t
  · exact h

theorem apply_inv_ack (s : St) (t : Nat) (h : Inv s) : Inv (apply s (.ack t)) := by
  simp only [apply]
  split
  · rename_i r ht; mm_fields h t
  · exact h

theorem inv_apply (s : St) (a : Act) (h : Inv s) (hok : PollOk s a) : Inv (apply s a) := by
  cases a with
  | send t v => exact apply_inv_send s t v h
  | subNew t => exact apply_inv_subNew s t h
  | subSplit t => exact apply_inv_subSplit s t h
  | subJoined t => exact apply_inv_subJoined s t h
  | poll t i => exact apply_inv_poll s t i h hok
  | step t => exact step_inv s t h
  | ack t => exact apply_inv_ack s t h

/-- every poll along the run starts while nobody else is inside a poll of the same subscriber -/
def RunOk (s : St) : List Act → Prop
  | [] => True
  | a :: as => PollOk s a ∧ RunOk (apply s a) as

@[simp] theorem run_nil (s : St) : run s [] = s := rfl
@[simp] theorem run_cons (s : St) (a : Act) (as : List Act) : run s (a :: as) = run (apply s a) as := rfl
theorem run_append (s : St) (as bs : List Act) : run s (as ++ bs) = run (run s as) bs := by
  simp [run, List.foldl_append]

theorem runOk_append (s : St) (as bs : List Act) : RunOk s (as ++ bs) ↔ RunOk s as ∧ RunOk (run s as) bs := by
  induction as generalizing s with
  | nil => simp [RunOk]
  | cons a as ih => simp [RunOk, ih, and_assoc]

theorem inv_run (s : St) (as : List Act) (h : Inv s) (hok : RunOk s as) : Inv (run s as) := by
  induction as generalizing s with
  | nil => exact h
  | cons a as ih => exact ih (apply s a) (inv_apply s a h hok.1) hok.2

/-- reachable by an execution in which every subscriber is polled by one thread at a time -/
def ReachableX (s : St) : Prop := ∃ as, RunOk init as ∧ s = run init as

theorem ReachableX.reachable {s : St} (h : ReachableX s) : Reachable s := by
  obtain ⟨as, _, e⟩ := h; exact ⟨as, e⟩

theorem reachable_inv {s : St} (h : ReachableX s) : Inv s := by
  obtain ⟨as, hok, rfl⟩ := h
  exact inv_run _ _ inv_init hok

theorem ReachableX.init : ReachableX init := ⟨[], trivial, rfl⟩

theorem ReachableX.apply {s : St} (h : ReachableX s) (a : Act) (hok : PollOk s a) : ReachableX (apply s a) := by
  obtain ⟨as, hr, rfl⟩ := h
  refine ⟨as ++ [a], ?_, ?_⟩
  · rw [runOk_append]; exact ⟨hr, hok, trivial⟩
  · rw [run_append]; rfl

theorem ReachableX.run {s : St} (h : ReachableX s) (as : List Act) (hok : RunOk s as) : ReachableX (run s as) := by
  induction as generalizing s with
  | nil => exact h
  | cons a as ih => exact ih (h.apply a hok.1) hok.2

theorem pollOk_of_not_poll {s : St} {a : Act} (h : ∀ t i, a ≠ .poll t i) : PollOk s a :=
  fun t i e _ _ => absurd e (h t i)

/-! ### one consumer per subscriber -/

theorem step_thr_ne (s : St) (t u : Nat) (h : u ≠ t) : (step s t).thr u = s.thr u := by
  cases hl : s.thr t with
  | idle => rw [step_idle s t hl]
  | done r => rw [step_done s t r hl]
  | pFetch v => rw [step_pFetch s t v hl]; simp [h]
  | pWrite v pos => rw [step_pWrite s t v pos hl]; simp [h]
  | pPublish pos => rw [step_pPublish s t pos hl]; split <;> simp [h]
  | sLoad b =>
    cases b with
    | true => rw [step_sLoad_split s t hl]; simp [h]
    | false => rw [step_sLoad_new s t hl]; simp [h]
  | cFetch j =>
    cases hk : (getSub s j).kind with
    | dyn => rw [step_cFetch_dyn s t j hl hk]; simp [h]
    | fixed ft => rw [step_cFetch_fixed s t j ft hl hk]; split <;> simp [h]
  | cLoadTail j c => rw [step_cLoadTail s t j c hl]; split <;> simp [h]
  | cRecede j c => rw [step_cRecede s t j c hl]; split <;> simp [h]
  | cRead j c => rw [step_cRead s t j c hl]; simp [h]

/-- a thread is inside a poll of `i` only if it was already, or the action is its `poll` of `i` -/
theorem polls_apply (s : St) (a : Act) (u i : Nat) (h : polls ((apply s a).thr u) i) :
    polls (s.thr u) i ∨ a = .poll u i := by
  cases a with
  | step t =>
    left
    by_cases hut : u = t
    · subst hut
      simp only [apply] at h
      cases hl : s.thr u with
      | idle => rw [step_idle s u hl, hl] at h; exact h
      | done r => rw [step_done s u r hl, hl] at h; exact h
      | pFetch v => rw [step_pFetch s u v hl] at h; simp [polls] at h
      | pWrite v pos => rw [step_pWrite s u v pos hl] at h; simp [polls] at h
      | pPublish pos =>
        rw [step_pPublish s u pos hl] at h
        split at h
        · simp [polls] at h
        · rw [hl] at h; exact h
      | sLoad b =>
        cases b with
        | true => rw [step_sLoad_split s u hl] at h; simp [polls] at h
        | false => rw [step_sLoad_new s u hl] at h; simp [polls] at h
      | cFetch j =>
        cases hk : (getSub s j).kind with
        | dyn => rw [step_cFetch_dyn s u j hl hk] at h; simpa [polls] using h
        | fixed ft =>
          rw [step_cFetch_fixed s u j ft hl hk] at h
          split at h <;> simpa [polls] using h
      | cLoadTail j c =>
        rw [step_cLoadTail s u j c hl] at h
        split at h <;> simpa [polls] using h
      | cRecede j c =>
        rw [step_cRecede s u j c hl] at h
        split at h
        · simp [polls] at h
        · rw [hl] at h; exact h
      | cRead j c => rw [step_cRead s u j c hl] at h; simp [polls] at h
    · simp only [apply] at h; rw [step_thr_ne s t u hut] at h; exact h
  | poll t j =>
    simp only [apply] at h
    split at h
    · by_cases hut : u = t
      · subst hut; simp [polls] at h; right; rw [h]
      · left; simpa [hut] using h
    · left; exact h
  | subJoined t =>
    left
    rw [apply_subJoined] at h
    split at h
    · by_cases hut : u = t
      · subst hut; simp [polls] at h
      · simpa [hut] using h
    · exact h
  | ack t =>
    left
    simp only [apply] at h
    split at h
    · by_cases hut : u = t
      · subst hut; simp [polls] at h
      · simpa [hut] using h
    · exact h
  | send t v =>
    left
    simp only [apply] at h
    split at h
    · by_cases hut : u = t
      · subst hut; simp [polls] at h
      · simpa [hut] using h
    · exact h
  | subNew t =>
    left
    simp only [apply] at h
    split at h
    · by_cases hut : u = t
      · subst hut; simp [polls] at h
      · simpa [hut] using h
    · exact h
  | subSplit t =>
    left
    simp only [apply] at h
    split at h
    · by_cases hut : u = t
      · subst hut; simp [polls] at h
      · simpa [hut] using h
    · exact h

/-- subscriber `i` is only ever polled by thread `owner i` -/
def Owned (owner : Nat → Nat) (as : List Act) : Prop := ∀ t i, Act.poll t i ∈ as → t = owner i

/-- boolean version of `Owned`, for concrete runs -/
def ownedCheck (owner : Nat → Nat) (as : List Act) : Bool :=
  as.all fun a => match a with
    | .poll t i => t == owner i
    | _ => true

theorem owned_of_check {owner : Nat → Nat} {as : List Act} (h : ownedCheck owner as = true) : Owned owner as := by
  intro t i hm
  have := List.all_eq_true.mp h _ hm
  simpa using this

theorem runOk_of_owned_aux (owner : Nat → Nat) (s : St) (as : List Act)
    (hs : ∀ u i, polls (s.thr u) i → u = owner i) (ho : Owned owner as) : RunOk s as := by
  induction as generalizing s with
  | nil => trivial
  | cons a as ih =>
    refine ⟨?_, ih _ ?_ ?_⟩
    · intro t i e hidle u hu
      have h1 := hs u i hu
      have h2 := ho t i (by simp [e])
      have : u = t := by omega
      subst this; rw [hidle] at hu; simp [polls] at hu
    · intro u i hu
      rcases polls_apply s a u i hu with h | h
      · exact hs u i h
      · exact ho u i (by simp [h])
    · intro t i hm; exact ho t i (by simp [hm])

/-- every run in which each subscriber has ONE consumer thread is a `RunOk` run -/
theorem runOk_of_owned (owner : Nat → Nat) (as : List Act) (ho : Owned owner as) : RunOk init as :=
  runOk_of_owned_aux owner init as (by intro u i h; simp [init, polls] at h) ho

theorem reachableX_of_owned (owner : Nat → Nat) (as : List Act) (ho : Owned owner as) : ReachableX (run init as) :=
  ⟨as, runOk_of_owned owner as ho, rfl⟩

/-! ### the reason for `PollOk`: two concurrent pollers of one subscriber lose an event and one of them spins for ever -/

/-- A joined subscriber (id 0) of an empty log is polled by threads 1 and 2 concurrently: thread 1 claims cursor 0, finds
    nothing and is about to give the claim back (CAS `1 → 0`); thread 2 claims cursor 1; two events are published; thread 2
    sees `1 < consumer_tail` and delivers position 1. -/
def skipRun : List Act :=
  [.subJoined 0, .ack 0, .poll 1 0, .step 1, .step 1, .poll 2 0, .step 2,
   .send 0 7, .step 0, .step 0, .step 0, .ack 0, .send 0 8, .step 0, .step 0, .step 0, .ack 0, .step 2, .step 2]

/-- … position 0 (value 7) was never delivered to the subscriber and never will be (its cursor is at 2), and thread 1
    waits for the cursor to become 1 again: its step is a no-op.  `Inv` does not hold. -/
theorem two_pollers_skip :
    let s := run init skipRun
    Reachable s ∧ s.log = [(0, 7), (1, 8)] ∧ s.delivered = [(0, 1, 8)] ∧ (getSub s 0).head = 2 ∧
      s.thr 1 = .cRecede 0 0 ∧ s.thr 2 = .done (.item (some 8)) ∧ step s 1 = s ∧ ¬ Inv s := by
  intro s
  have h1 : s.thr 1 = .cRecede 0 0 := by decide
  have hh : (getSub s 0).head = 2 := by decide
  refine ⟨⟨skipRun, rfl⟩, by decide, by decide, hh, h1, by decide, ?_, ?_⟩
  · rw [step_cRecede s 1 0 0 h1, if_neg (by rw [hh]; decide)]
  · intro hi
    have := (hi.pendOk 1 0 0 (by simp [h1, pending])).1
    omega

end Mutiny.MmapLog

#print axioms Mutiny.MmapLog.reachable_inv
#print axioms Mutiny.MmapLog.runOk_of_owned
#print axioms Mutiny.MmapLog.two_pollers_skip
