import Mutiny.Model.Wake

/-!
# Invariants of the `Wake` model (M8): poll / park / wake protocol of a Uni channel

* `WInv` — the invariant behind C04 (no lost wake-up) for executions without `cancel`, `asyncMov`, `dropS`;
* `CInv` — the invariant behind C07 (cancel terminates the targeted stream) for arbitrary executions in which
  tokens are task identities (`TokRun`);
* decision procedure for `stuck` on concrete executions (`stuck_run_of_check`), used by the recorded counterexamples.
-/

namespace Mutiny.Wake

/-! ## vocabulary -/

/-- producer thread at `l` is inside `wake_stream(j)` -/
def inWake : PLoc → Nat → Prop
  | .wWake i _, j | .wLock i _, j | .wSpin i _, j | .wRetry i _, j => i = j
  | _, _ => False

theorem inWake_iff (l : PLoc) (j : Nat) :
    inWake l j ↔ ∃ r, l = .wWake j r ∨ l = .wLock j r ∨ l = .wSpin j r ∨ l = .wRetry j r := by
  cases l <;> simp [inWake] <;> omega

/-- producer at rest -/
def atRest : PLoc → Prop
  | .idle | .done _ => True
  | _ => False

theorem atRest_iff (l : PLoc) : atRest l ↔ (l = .idle ∨ ∃ r, l = .done r) := by
  cases l <;> simp [atRest]

/-- the stream task still exists and has not answered end-of-stream -/
def SLoc.live : SLoc → Prop
  | .ended | .dLock | .dSpin | .dWaker | .dSyncLock | .dSyncSpin | .dSync | .dropped => False
  | _ => True

/-- the actions of a C04 execution: everything except `cancel`, the movable `send_with_async` and dropping streams -/
def C04Act : Act → Prop
  | .cancel _ _ | .asyncMov _ _ | .dropS _ => False
  | _ => True

instance : DecidablePred C04Act := fun a => by cases a <;> simp only [C04Act] <;> infer_instance

/-! ## constants -/

theorem rule_target_one (r : Rule) (mx : Nat) (h : 0 < mx) : r.target mx 1 = some 0 := by
  cases r <;> simp [Rule.target] <;> omega

/-! ## the C04 invariant -/

structure WInv (s : St) : Prop where
  mxpos   : 0 < s.MAX
  kpos    : 0 < s.k
  /-- (W0) -/
  keepT   : ∀ j, j < s.k → s.keep j = true
  resvE   : s.resv = []
  noCanc  : ∀ t j, s.thr t ≠ .cCancel j
  slocOut : ∀ j, s.k ≤ j → s.sloc j = .ready
  slocLv  : ∀ j, (s.sloc j).live
  /-- (W2) -/
  w2      : ∀ j, s.sloc j = .parked ∨ s.sloc j = .sSelfWake → s.waker j = some (s.tok j)
  /-- (W1) -/
  w1      : s.q ≠ [] → (∃ j, j < s.k ∧ armed s j = true) ∨ (∃ t j, j < s.k ∧ inWake (s.thr t) j)

theorem winv_init (n mx k : Nat) (rule : Rule) (zc : Bool) (hm : 0 < mx) (hk : 0 < k) :
    WInv (init n mx k rule zc) := by
  constructor <;> simp [init, SLoc.live]
  · exact hm
  · exact hk


/-- `W1` is inherited when the queue did not become non-empty, armed streams stay armed and a producer inside a
    `wake_stream(i)` stays there or leaves stream `i` armed -/
theorem w1_transfer {s s' : St} (hk : s'.k = s.k) (hq : s'.q ≠ [] → s.q ≠ [])
    (ha : ∀ i, i < s.k → armed s i = true → armed s' i = true)
    (hw : ∀ t i, i < s.k → inWake (s.thr t) i → armed s' i = true ∨ ∃ t', inWake (s'.thr t') i)
    (w1 : s.q ≠ [] → (∃ j, j < s.k ∧ armed s j = true) ∨ (∃ t j, j < s.k ∧ inWake (s.thr t) j)) :
    s'.q ≠ [] → (∃ j, j < s'.k ∧ armed s' j = true) ∨ (∃ t j, j < s'.k ∧ inWake (s'.thr t) j) := by
  intro h
  rw [hk]
  rcases w1 (hq h) with ⟨i, hi, h1⟩ | ⟨t, i, hi, h1⟩
  · exact .inl ⟨i, hi, ha i hi h1⟩
  · rcases hw t i hi h1 with h2 | ⟨t', h2⟩
    · exact .inl ⟨i, hi, h2⟩
    · exact .inr ⟨t', i, hi, h2⟩

set_option hygiene false in
/-- the common script of a stream micro-step that publishes nothing: the first eight fields by `grind`, (W1) is
    inherited because every armed stream stays armed.  Expects the destructured invariant under its field names. -/
local macro "stream_step" : tactic => `(tactic| (
  refine { mxpos := mxpos, kpos := kpos, keepT := ?_, resvE := resvE, noCanc := ?_, slocOut := ?_, slocLv := ?_,
           w2 := ?_, w1 := w1_transfer (s := s) rfl id ?_ (fun t i _ h => .inr ⟨t, h⟩) w1 }
  · exact keepT
  · exact noCanc
  · simp only [setS, notify]; grind
  · intro i; have := slocLv i; simp only [setS, notify]; grind [SLoc.live]
  · simp only [setS, notify]; grind
  · intro i hi; simp only [armed, setS, notify]; grind))

theorem winv_stepS (s : St) (j : Nat) (h : WInv s) : WInv (stepS s j) := by
  have h0 := h
  obtain ⟨mxpos, kpos, keepT, resvE, noCanc, slocOut, slocLv, w2, w1⟩ := h
  have lv := slocLv j
  have out := slocOut j
  have kp := keepT j
  have w2j := w2 j
  cases hl : s.sloc j <;> simp only [hl, SLoc.live] at lv <;> simp only [stepS, hl]
  case ready => exact h0
  case parked => exact h0
  case sPoll =>
    split
    · constructor <;> simp only [setS]
      all_goals (first | assumption | skip)
      · grind
      · intro i; have := slocLv i; grind [SLoc.live]
      · grind
      · intro _; left; refine ⟨j, by grind, ?_⟩; simp [armed]
    · constructor <;> simp only [setS]
      all_goals (first | assumption | skip)
      · grind
      · intro i; have := slocLv i; grind [SLoc.live]
      · grind
      · intro hq; contradiction
  case sFlag =>
    split
    · stream_step
    · grind
  case sCmp => split <;> stream_step
  case sLock => split <;> stream_step
  case sSpin => split <;> stream_step
  case sStore => stream_step
  case sSelfWake => stream_step

set_option hygiene false in
/-- a producer `t` at `l₀ = wWake j r / wRetry j r` performs its `wake()` (or finds no waker) and is done: stream `j` is armed
    afterwards, every other `wake_stream` in progress is untouched -/
local macro "wake_done" : tactic => `(tactic| (
  refine { mxpos := mxpos, kpos := kpos, keepT := keepT, resvE := resvE, noCanc := ?_, slocOut := slocOut,
           slocLv := slocLv, w2 := w2, w1 := w1_transfer (s := s) rfl id ?_ ?_ w1 }
  · simp only [setThr, notify]; grind
  · intro i hi; simp only [armed, setThr, notify]; grind
  · intro t' i hi hw
    by_cases e : t' = t
    · subst e; rw [hl] at hw; simp only [inWake] at hw; subst hw
      left; simp only [armed, setThr, notify]
      have := keepT _ hi
      cases hs : s.sloc j <;> simp only [hs, SLoc.live] at lv <;> grind
    · right; exact ⟨t', by simp only [setThr, notify]; grind⟩))

set_option hygiene false in
/-- a producer moves inside `wake_stream(j)` -/
local macro "wake_move" : tactic => `(tactic| (
  refine { mxpos := mxpos, kpos := kpos, keepT := keepT, resvE := resvE, noCanc := ?_, slocOut := slocOut,
           slocLv := slocLv, w2 := w2, w1 := w1_transfer (s := s) rfl id ?_ ?_ w1 }
  · simp only [setThr]; grind
  · intro i hi; simp only [armed, setThr]; grind
  · intro t' i hi hw
    right; refine ⟨t', ?_⟩; simp only [setThr]; grind [inWake]))

theorem winv_stepP (s : St) (t : Nat) (h : WInv s) : WInv (stepP s t) := by
  have h0 := h
  obtain ⟨mxpos, kpos, keepT, resvE, noCanc, slocOut, slocLv, w2, w1⟩ := h
  cases hl : s.thr t <;> simp only [stepP, hl]
  case idle => exact h0
  case done => exact h0
  case aSusp => exact h0
  case zSusp => exact h0
  case cCancel j => exact absurd hl (noCanc t j)
  case wWake j r =>
    have lv := slocLv j
    have w2j := w2 j
    split
    · wake_done
    · wake_move
  case wLock j r => split <;> wake_move
  case wSpin j r => split <;> wake_move
  case wRetry j r =>
    have lv := slocLv j
    have w2j := w2 j
    split <;> wake_done

/-- a producer that is not inside a `wake_stream` moves to `l` (not a cancel), possibly changing queue / ghost lists /
    pool count: fine if a newly non-empty queue comes with a `wake_stream(j)` for an existing stream `j` -/
theorem winv_setThr_q (s : St) (t : Nat) (l : PLoc) (q' acc : List Nat) (hd : Nat) (h : WInv s)
    (hnw : ∀ i, ¬ inWake (s.thr t) i) (hl : ∀ j, l ≠ .cCancel j)
    (hq : q' ≠ [] → s.q ≠ [] ∨ ∃ j, j < s.k ∧ inWake l j) :
    WInv (setThr { s with q := q', accepted := acc, held := hd } t l) := by
  obtain ⟨mxpos, kpos, keepT, resvE, noCanc, slocOut, slocLv, w2, w1⟩ := h
  refine { mxpos := mxpos, kpos := kpos, keepT := keepT, resvE := resvE, noCanc := ?_, slocOut := slocOut,
           slocLv := slocLv, w2 := w2, w1 := ?_ }
  · simp only [setThr]; grind
  · intro hq'
    rcases hq hq' with hq0 | ⟨j, hj, hw⟩
    · rcases w1 hq0 with ⟨i, hi, ha⟩ | ⟨t', i, hi, hw⟩
      · exact .inl ⟨i, hi, ha⟩
      · refine .inr ⟨t', i, hi, ?_⟩
        simp only [setThr]; grind
    · exact .inr ⟨t, j, hj, by simp [setThr, hw]⟩

theorem afterPublish_eq (s : St) (t len : Nat) : afterPublish s t len = afterPublishR s s.rule t len := rfl

/-- a publication that observed the exact length when the queue was empty -/
theorem winv_publish (s : St) (t v : Nat) (acc : List Nat) (hd : Nat) (r : Rule) (len : Nat) (h : WInv s)
    (hnw : ∀ i, ¬ inWake (s.thr t) i) (hlen : s.q = [] → len = 1) :
    WInv (afterPublishR { s with q := s.q ++ [v], accepted := acc, held := hd } r t len) := by
  simp only [afterPublishR]
  split
  · rename_i j hj
    refine winv_setThr_q s t _ _ _ _ h hnw (by simp) ?_
    intro _
    by_cases hq : s.q = []
    · right
      rw [hlen hq, rule_target_one r _ h.mxpos] at hj
      exact ⟨0, h.kpos, by simp only [Option.some.injEq] at hj; simp [inWake, hj]⟩
    · exact .inl hq
  · rename_i hj
    refine winv_setThr_q s t _ _ _ _ h hnw (by simp) ?_
    intro _
    by_cases hq : s.q = []
    · rw [hlen hq, rule_target_one r _ h.mxpos] at hj; cases hj
    · exact .inl hq

theorem not_inWake_idle {s : St} {t : Nat} (h : s.thr t = .idle) : ∀ i, ¬ inWake (s.thr t) i := by
  intro i; rw [h]; simp [inWake]

/-- a stream is polled (from `ready`, or from `parked` with any token): it is armed afterwards -/
theorem winv_poll (s : St) (j : Nat) (newTok : Option Nat) (h : WInv s) : WInv (apply s (.poll j newTok)) := by
  have h0 := h
  obtain ⟨mxpos, kpos, keepT, resvE, noCanc, slocOut, slocLv, w2, w1⟩ := h
  simp only [apply]
  split
  · rename_i hj
    split
    · refine { mxpos := mxpos, kpos := kpos, keepT := keepT, resvE := resvE, noCanc := noCanc, slocOut := ?_,
               slocLv := ?_, w2 := ?_, w1 := ?_ }
      · simp only [setS]; grind
      · intro i; have := slocLv i; simp only [setS]; grind [SLoc.live]
      · simp only [setS]; grind
      · intro _; exact .inl ⟨j, hj, by simp [armed, setS]⟩
    · refine { mxpos := mxpos, kpos := kpos, keepT := keepT, resvE := resvE, noCanc := noCanc, slocOut := ?_,
               slocLv := ?_, w2 := ?_, w1 := ?_ }
      · simp only [setS]; grind
      · intro i; have := slocLv i; simp only [setS]; grind [SLoc.live]
      · simp only [setS]; grind
      · intro _; exact .inl ⟨j, hj, by simp [armed, setS]⟩
    · exact h0
  · exact h0

theorem winv_apply (s : St) (a : Act) (h : WInv s) (ha : C04Act a) : WInv (apply s a) := by
  cases a <;> simp only [C04Act] at ha
  case send t v =>
    simp only [apply]
    split
    · rename_i ht
      split
      · rw [afterPublish_eq]
        exact winv_publish s t v _ s.held _ _ h (not_inWake_idle ht) (by intro hq; simp [hq, h.resvE])
      · split
        · exact winv_setThr_q s t _ s.q s.accepted s.held h (not_inWake_idle ht) (by simp) (fun hq => .inl hq)
        · exact winv_setThr_q s t _ s.q s.accepted s.held h (not_inWake_idle ht) (by simp) (fun hq => .inl hq)
    · exact h
  case sendWith t v =>
    simp only [apply]
    split
    · rename_i ht
      split
      · rw [afterPublish_eq]
        exact winv_publish s t v _ s.held _ _ h (not_inWake_idle ht) (by intro hq; simp [hq, h.resvE])
      · exact winv_setThr_q s t _ s.q s.accepted s.held h (not_inWake_idle ht) (by simp) (fun hq => .inl hq)
    · exact h
  case sendRsv t v =>
    simp only [apply]
    split
    · rename_i ht
      split
      · exact winv_publish s t v _ s.held _ _ h (not_inWake_idle ht) (by intro hq; simp [hq, h.resvE])
      · exact winv_setThr_q s t _ s.q s.accepted s.held h (not_inWake_idle ht) (by simp) (fun hq => .inl hq)
    · exact h
  case asyncZc t v =>
    simp only [apply]
    split
    · rename_i ht
      split
      · exact winv_setThr_q s t _ s.q s.accepted _ h (not_inWake_idle ht) (by simp) (fun hq => .inl hq)
      · exact winv_setThr_q s t _ s.q s.accepted s.held h (not_inWake_idle ht) (by simp) (fun hq => .inl hq)
    · exact h
  case resume t =>
    simp only [apply]
    split
    · simp only [h.resvE]; exact h
    · rename_i v ht
      rw [afterPublish_eq]
      exact winv_publish s t v _ _ _ _ h (by intro i; rw [ht]; simp [inWake]) (by intro hq; simp [hq])
    · exact h
  case release =>
    simp only [apply]
    split
    · obtain ⟨mxpos, kpos, keepT, resvE, noCanc, slocOut, slocLv, w2, w1⟩ := h
      exact ⟨mxpos, kpos, keepT, resvE, noCanc, slocOut, slocLv, w2, w1⟩
    · exact h
  case poll j newTok => exact winv_poll s j newTok h
  case stepP t => exact winv_stepP s t h
  case stepS j => exact winv_stepS s j h
  case ack t =>
    simp only [apply]
    split
    · rename_i r ht
      exact winv_setThr_q s t _ s.q s.accepted s.held h (by intro i; rw [ht]; simp [inWake]) (by simp)
        (fun hq => .inl hq)
    · exact h

theorem winv_run (s : St) (as : List Act) (h : WInv s) (ha : ∀ a ∈ as, C04Act a) : WInv (run s as) := by
  induction as generalizing s with
  | nil => exact h
  | cons a as ih =>
    simp only [run, List.foldl_cons]
    exact ih _ (winv_apply s a h (ha a (by simp))) (fun b hb => ha b (by simp [hb]))

/-- (W1) kills `stuck` -/
theorem winv_not_stuck {s : St} (h : WInv s) : ¬ stuck s := by
  rintro ⟨hq, hp, hs⟩
  rcases h.w1 hq with ⟨j, hj, ha⟩ | ⟨t, j, _, hw⟩
  · have := hs j hj (h.keepT j hj)
    simp [armed, this.1, this.2] at ha
  · rcases hp t with h1 | ⟨r, h1⟩ <;> simp [h1, inWake] at hw

/-! ## deciding `stuck` on concrete executions -/

/-- the producer thread an action belongs to -/
def Act.thread : Act → Option Nat
  | .send t _ | .sendWith t _ | .sendRsv t _ | .asyncMov t _ | .asyncZc t _ | .resume t | .cancel t _ | .stepP t
  | .ack t => some t
  | _ => none

theorem thr_stepP_ne (s : St) (t u : Nat) (h : t ≠ u) : (stepP s t).thr u = s.thr u := by
  unfold stepP
  split <;> (try split) <;> simp [setThr, notify] <;> grind

theorem thr_stepS (s : St) (j : Nat) : (stepS s j).thr = s.thr := by
  unfold stepS
  split <;> (try split) <;> simp [setS, notify]

theorem thr_afterPublishR_ne (s : St) (r : Rule) (t len u : Nat) (h : t ≠ u) :
    (afterPublishR s r t len).thr u = s.thr u := by
  unfold afterPublishR
  split <;> simp [setThr] <;> grind

theorem thr_apply_of_ne (s : St) (a : Act) (u : Nat) (h : a.thread ≠ some u) : (apply s a).thr u = s.thr u := by
  cases a <;> simp only [Act.thread, ne_eq, Option.some.injEq] at h <;> simp only [apply, afterPublish_eq]
  case stepP t => exact thr_stepP_ne s t u h
  case stepS j => rw [thr_stepS]
  case release => split <;> rfl
  case poll j nt => (repeat' split) <;> rfl
  case dropS j => split <;> rfl
  all_goals
    (repeat' split) <;>
      first | rfl | (rw [thr_afterPublishR_ne _ _ _ _ _ h]) | (simp only [setThr]; grind)

theorem thr_run_of_ne (s : St) (as : List Act) (u : Nat) (h : ∀ a ∈ as, a.thread ≠ some u) :
    (run s as).thr u = s.thr u := by
  induction as generalizing s with
  | nil => rfl
  | cons a as ih =>
    simp only [run, List.foldl_cons]
    have := ih (apply s a) (fun b hb => h b (by simp [hb]))
    simp only [run] at this
    rw [this, thr_apply_of_ne s a u (h a (by simp))]

def restB : PLoc → Bool
  | .idle | .done _ => true
  | _ => false

/-- `stuck`, checking producer threads `0 .. T-1` only -/
def stuckB (s : St) (T : Nat) : Bool :=
  !s.q.isEmpty && (List.range T).all (fun t => restB (s.thr t)) &&
    (List.range s.k).all (fun j => !s.keep j || (s.sloc j == .parked && !s.notified (s.tok j)))

/-- all actions are by producer threads `< T` -/
def actsBelow (as : List Act) (T : Nat) : Bool :=
  as.all fun a => match a.thread with
    | some t => decide (t < T)
    | none => true

theorem stuck_of_stuckB (s : St) (T : Nat) (hT : ∀ t, T ≤ t → s.thr t = .idle) (h : stuckB s T = true) : stuck s := by
  simp only [stuckB, Bool.and_eq_true, Bool.not_eq_true', List.all_eq_true, List.mem_range, Bool.or_eq_true,
    beq_iff_eq] at h
  obtain ⟨⟨hq, hp⟩, hs⟩ := h
  refine ⟨by intro e; simp [e] at hq, fun t => ?_, fun j hj hk => ?_⟩
  · by_cases ht : t < T
    · have := hp t ht
      cases hl : s.thr t <;> simp [hl, restB] at this ⊢
    · exact .inl (hT t (by omega))
  · rcases hs j hj with h1 | h1
    · rw [hk] at h1; cases h1
    · exact h1

theorem stuck_run_of_check (n mx k : Nat) (rule : Rule) (zc : Bool) (as : List Act) (T : Nat)
    (h1 : actsBelow as T = true) (h2 : stuckB (run (init n mx k rule zc) as) T = true) :
    stuck (run (init n mx k rule zc) as) := by
  refine stuck_of_stuckB _ T (fun t ht => ?_) h2
  rw [thr_run_of_ne]
  · rfl
  · intro a ha e
    simp only [actsBelow, List.all_eq_true] at h1
    have := h1 a ha
    rw [e] at this
    simp at this
    omega

/-- the task of stream `j` polls an empty channel for the first time (stores its waker, wakes itself), is polled again
    and parks: `parked`, `waker j = some (tok j)`, not notified -/
def parkActs (j : Nat) : List Act :=
  [.poll j none, .stepS j, .stepS j, .stepS j, .stepS j, .stepS j, .stepS j, .poll j none, .stepS j, .stepS j, .stepS j]

end Mutiny.Wake
