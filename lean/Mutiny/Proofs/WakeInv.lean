import Mutiny.Model.Wake

/-!
# Invariants of the `Wake` model (M8): poll / park / wake protocol of a Uni channel

* `WInv` — the invariant behind C04 (no lost wake-up) for executions without `cancel`, `dropS` (and `asyncMov` on the
  movable atomic channel only);
* `CInv` — the invariant behind C07 (cancel terminates the targeted stream) for arbitrary executions in which
  tokens are task identities (`TokRun`);
* decision procedure for `stuck` on concrete executions (`stuck_run_of_check`), used by the recorded counterexamples.
-/

namespace Mutiny.Wake

/-! ## vocabulary -/

/-- producer thread at `l` is inside `wake_stream(j)` -/
def inWake : PLoc → Nat → Prop
  | .wWake i _, j | .wLock i _, j | .wSpin i _, j | .wRetry i _, j => i = j
  | _, _ => False

theorem inWake_iff (l : PLoc) (j : Nat) :
    inWake l j ↔ ∃ r, l = .wWake j r ∨ l = .wLock j r ∨ l = .wSpin j r ∨ l = .wRetry j r := by
  cases l <;> simp [inWake] <;> omega

/-- producer at rest -/
def atRest : PLoc → Prop
  | .idle | .done _ => True
  | _ => False

theorem atRest_iff (l : PLoc) : atRest l ↔ (l = .idle ∨ ∃ r, l = .done r) := by
  cases l <;> simp [atRest]

/-- the stream task still exists and has not answered end-of-stream -/
def SLoc.live : SLoc → Prop
  | .ended | .dLock | .dSpin | .dWaker | .dSyncLock | .dSyncSpin | .dSync | .dropped => False
  | _ => True

/-- the actions of a C04 execution: everything except `cancel` and dropping streams; the movable `send_with_async` only on
    the movable ATOMIC channel (`rule = atomic`, where its wake decision uses the length measured after the publication —
    on the movable full-sync channel the call holds the queue-wide lock while suspended: finding D8b) -/
def C04Act (r : Rule) : Act → Prop
  | .cancel _ _ | .dropS _ => False
  | .asyncMov _ _ => r = .atomic
  | _ => True

instance (r : Rule) : DecidablePred (C04Act r) := fun a => by cases a <;> simp only [C04Act] <;> infer_instance

/-! ## constants -/

theorem rule_target_one (r : Rule) (mx : Nat) (h : 0 < mx) : r.target mx 1 = some 0 := by
  cases r <;> simp [Rule.target] <;> omega

/-! ## the C04 invariant -/

/-- (W1): some existing stream is armed, or some producer is inside a `wake_stream(j)` of an existing stream, or some
    producer has just published the OLDEST pending event (`slot = number of events taken so far`) and is about to measure the
    length — it will find `1` and wake stream 0 -/
def W1 (s : St) : Prop :=
  (∃ j, j < s.k ∧ armed s j = true) ∨ (∃ t j, j < s.k ∧ inWake (s.thr t) j) ∨ (∃ t r, s.thr t = .pSmp s.delivered.length r)

structure WInv (s : St) : Prop where
  mxpos   : 0 < s.MAX
  kpos    : 0 < s.k
  /-- (W0) -/
  keepT   : ∀ j, j < s.k → s.keep j = true
  /-- every accepted event is delivered or queued -/
  lenEq   : s.accepted.length = s.delivered.length + s.q.length
  /-- only the movable atomic channel's asynchronous sends are part of a C04 execution -/
  suspAt  : ∀ t v l, s.thr t = .aSusp v l → s.rule = .atomic
  noCanc  : ∀ t j, s.thr t ≠ .cCancel j
  slocOut : ∀ j, s.k ≤ j → s.sloc j = .ready
  slocLv  : ∀ j, (s.sloc j).live
  /-- (W2) -/
  w2      : ∀ j, s.sloc j = .parked ∨ s.sloc j = .sSelfWake → s.waker j = some (s.tok j)
  /-- (W1) -/
  w1      : s.q ≠ [] → W1 s

theorem winv_init (n mx k : Nat) (rule : Rule) (zc : Bool) (hm : 0 < mx) (hk : 0 < k) :
    WInv (init n mx k rule zc) := by
  constructor <;> simp [init, SLoc.live]
  · exact hm
  · exact hk


/-- `W1` is inherited when the queue did not become non-empty, armed streams stay armed, a producer inside a
    `wake_stream(i)` stays there or leaves stream `i` armed, and the producer about to measure the length of the oldest
    pending event is still there (or was replaced by something as good) -/
theorem w1_transfer {s s' : St} (hk : s'.k = s.k) (hq : s'.q ≠ [] → s.q ≠ [])
    (ha : ∀ i, i < s.k → armed s i = true → armed s' i = true)
    (hw : ∀ t i, i < s.k → inWake (s.thr t) i → armed s' i = true ∨ ∃ t', inWake (s'.thr t') i)
    (hs : ∀ t r, s.thr t = .pSmp s.delivered.length r → W1 s')
    (w1 : s.q ≠ [] → W1 s) :
    s'.q ≠ [] → W1 s' := by
  intro h
  unfold W1
  rw [hk]
  rcases w1 (hq h) with ⟨i, hi, h1⟩ | ⟨t, i, hi, h1⟩ | ⟨t, r, h1⟩
  · exact .inl ⟨i, hi, ha i hi h1⟩
  · rcases hw t i hi h1 with h2 | ⟨t', h2⟩
    · exact .inl ⟨i, hi, h2⟩
    · exact .inr (.inl ⟨t', i, hi, h2⟩)
  · have := hs t r h1; unfold W1 at this; rw [hk] at this; exact this

set_option hygiene false in
/-- the common script of a stream micro-step that publishes nothing: the first fields by `grind`, (W1) is
    inherited because every armed stream stays armed.  Expects the destructured invariant under its field names. -/
local macro "stream_step" : tactic => `(tactic| (
  refine { mxpos := mxpos, kpos := kpos, keepT := ?_, lenEq := lenEq, suspAt := suspAt, noCanc := ?_, slocOut := ?_, slocLv := ?_,
           w2 := ?_, w1 := w1_transfer (s := s) rfl id ?_ (fun t i _ h => .inr ⟨t, h⟩) (fun t r h => .inr (.inr ⟨t, r, h⟩)) w1 }
  · exact keepT
  · exact noCanc
  · simp only [setS, notify]; grind
  · intro i; have := slocLv i; simp only [setS, notify]; grind [SLoc.live]
  · simp only [setS, notify]; grind
  · intro i hi; simp only [armed, setS, notify]; grind))

theorem winv_stepS (s : St) (j : Nat) (h : WInv s) : WInv (stepS s j) := by
  have h0 := h
  obtain ⟨mxpos, kpos, keepT, lenEq, suspAt, noCanc, slocOut, slocLv, w2, w1⟩ := h
  have lv := slocLv j
  have out := slocOut j
  have kp := keepT j
  have w2j := w2 j
  cases hl : s.sloc j <;> simp only [hl, SLoc.live] at lv <;> simp only [stepS, hl]
  case ready => exact h0
  case parked => exact h0
  case sPoll =>
    split
    · rename_i v rest hq
      constructor <;> simp only [setS]
      all_goals (first | assumption | skip)
      · rw [hq] at lenEq; simp only [List.length_cons, List.length_append, List.length_nil] at lenEq ⊢; omega
      · grind
      · intro i; have := slocLv i; grind [SLoc.live]
      · grind
      · intro _; left; refine ⟨j, by grind, ?_⟩; simp [armed]
    · constructor <;> simp only [setS]
      all_goals (first | assumption | skip)
      · grind
      · intro i; have := slocLv i; grind [SLoc.live]
      · grind
      · intro hq; contradiction
  case sFlag =>
    split
    · stream_step
    · grind
  case sCmp => split <;> stream_step
  case sLock => split <;> stream_step
  case sSpin => split <;> stream_step
  case sStore => stream_step
  case sSelfWake => stream_step

set_option hygiene false in
/-- a producer `t` at `l₀ = wWake j r / wRetry j r` performs its `wake()` (or finds no waker) and is done: stream `j` is armed
    afterwards, every other `wake_stream` in progress is untouched -/
local macro "wake_done" : tactic => `(tactic| (
  refine { mxpos := mxpos, kpos := kpos, keepT := keepT, lenEq := lenEq, suspAt := ?_, noCanc := ?_, slocOut := slocOut,
           slocLv := slocLv, w2 := w2, w1 := w1_transfer (s := s) rfl id ?_ ?_ ?_ w1 }
  · simp only [setThr, notify]; grind
  · simp only [setThr, notify]; grind
  · intro i hi; simp only [armed, setThr, notify]; grind
  · intro t' i hi hw
    by_cases e : t' = t
    · subst e; rw [hl] at hw; simp only [inWake] at hw; subst hw
      left; simp only [armed, setThr, notify]
      have := keepT _ hi
      cases hs : s.sloc j <;> simp only [hs, SLoc.live] at lv <;> grind
    · right; exact ⟨t', by simp only [setThr, notify]; grind⟩
  · intro t' r' ht'; exact .inr (.inr ⟨t', r', by simp only [setThr, notify]; grind⟩)))

set_option hygiene false in
/-- a producer moves inside `wake_stream(j)` -/
local macro "wake_move" : tactic => `(tactic| (
  refine { mxpos := mxpos, kpos := kpos, keepT := keepT, lenEq := lenEq, suspAt := ?_, noCanc := ?_, slocOut := slocOut,
           slocLv := slocLv, w2 := w2, w1 := w1_transfer (s := s) rfl id ?_ ?_ ?_ w1 }
  · simp only [setThr]; grind
  · simp only [setThr]; grind
  · intro i hi; simp only [armed, setThr]; grind
  · intro t' i hi hw
    right; refine ⟨t', ?_⟩; simp only [setThr]; grind [inWake]
  · intro t' r' ht'; exact .inr (.inr ⟨t', r', by simp only [setThr]; grind⟩)))

/-- a producer that is neither inside a `wake_stream` nor about to measure a length moves to `l` (not a cancel), possibly
    changing queue / reservations / ghost lists / pool count: fine if a newly non-empty queue comes with a `wake_stream(j)` for an
    existing stream `j`, or with the measurement of the oldest pending event's length -/
theorem winv_setThr_q (s : St) (t : Nat) (l : PLoc) (q' acc : List Nat) (rv : List (Nat × Nat)) (hd : Nat) (h : WInv s)
    (hnw : ∀ i, ¬ inWake (s.thr t) i) (hns : ∀ d r, s.thr t ≠ .pSmp d r) (hl : ∀ j, l ≠ .cCancel j)
    (hsu : ∀ v lb, l = .aSusp v lb → s.rule = .atomic)
    (hlen : acc.length = s.delivered.length + q'.length)
    (hq : q' ≠ [] → s.q ≠ [] ∨ (∃ j, j < s.k ∧ inWake l j) ∨ ∃ r, l = .pSmp s.delivered.length r) :
    WInv (setThr { s with q := q', accepted := acc, resv := rv, held := hd } t l) := by
  obtain ⟨mxpos, kpos, keepT, lenEq, suspAt, noCanc, slocOut, slocLv, w2, w1⟩ := h
  refine { mxpos := mxpos, kpos := kpos, keepT := keepT, lenEq := hlen, suspAt := ?_, noCanc := ?_, slocOut := slocOut,
           slocLv := slocLv, w2 := w2, w1 := ?_ }
  · intro u v lb hu
    simp only [setThr] at hu
    by_cases e : u = t
    · subst e; simp only [if_true] at hu; exact hsu v lb hu
    · simp only [e, if_false] at hu; exact suspAt u v lb hu
  · simp only [setThr]; grind
  · intro hq'
    rcases hq hq' with hq0 | ⟨j, hj, hw⟩ | ⟨r, hs⟩
    · rcases w1 hq0 with ⟨i, hi, ha⟩ | ⟨t', i, hi, hw⟩ | ⟨t', r', ht'⟩
      · exact .inl ⟨i, hi, ha⟩
      · refine .inr (.inl ⟨t', i, hi, ?_⟩)
        simp only [setThr]; grind
      · refine .inr (.inr ⟨t', r', ?_⟩)
        have : t' ≠ t := fun e => hns _ _ (e ▸ ht')
        simp only [setThr, this, if_false]; exact ht'
    · exact .inr (.inl ⟨t, j, hj, by simp [setThr, hw]⟩)
    · exact .inr (.inr ⟨t, r, by simp [setThr, hs]⟩)

theorem afterPublish_eq (s : St) (t len : Nat) : afterPublish s t len = afterPublishR s s.rule t len := rfl

/-- a publication that observed the exact length when the queue was empty -/
theorem winv_publish (s : St) (t v : Nat) (hd : Nat) (r : Rule) (len : Nat) (h : WInv s)
    (hnw : ∀ i, ¬ inWake (s.thr t) i) (hns : ∀ d r, s.thr t ≠ .pSmp d r) (hlen : s.q = [] → len = 1) :
    WInv (afterPublishR { s with q := s.q ++ [v], accepted := s.accepted ++ [v], held := hd } r t len) := by
  have hl : (s.accepted ++ [v]).length = s.delivered.length + (s.q ++ [v]).length := by
    have := h.lenEq; simp only [List.length_append, List.length_cons, List.length_nil]; omega
  simp only [afterPublishR]
  split
  · rename_i j hj
    refine winv_setThr_q s t _ _ _ s.resv _ h hnw hns (by simp) (by simp) hl ?_
    intro _
    by_cases hq : s.q = []
    · right; left
      rw [hlen hq, rule_target_one r _ h.mxpos] at hj
      exact ⟨0, h.kpos, by simp only [Option.some.injEq] at hj; simp [inWake, hj]⟩
    · exact .inl hq
  · rename_i hj
    refine winv_setThr_q s t _ _ _ s.resv _ h hnw hns (by simp) (by simp) hl ?_
    intro _
    by_cases hq : s.q = []
    · rw [hlen hq, rule_target_one r _ h.mxpos] at hj; cases hj
    · exact .inl hq

/-- the producer measures the length after its publication and decides whom to wake -/
theorem winv_sample (s : St) (t slot : Nat) (r : Rule) (h : WInv s) (hl : s.thr t = .pSmp slot r) :
    WInv (afterPublishR s r t (max 1 (slot + 1 - s.delivered.length))) := by
  obtain ⟨mxpos, kpos, keepT, lenEq, suspAt, noCanc, slocOut, slocLv, w2, w1⟩ := h
  have key : ∀ l : PLoc, (∀ j, l ≠ .cCancel j) → (∀ v lb, l ≠ .aSusp v lb) →
      (slot = s.delivered.length → ∃ j, j < s.k ∧ inWake l j) → WInv (setThr s t l) := by
    intro l hc hsu hwk
    refine { mxpos := mxpos, kpos := kpos, keepT := keepT, lenEq := lenEq, suspAt := ?_, noCanc := ?_, slocOut := slocOut,
             slocLv := slocLv, w2 := w2, w1 := ?_ }
    · intro u v lb hu
      simp only [setThr] at hu
      by_cases e : u = t
      · subst e; simp only [if_true] at hu; exact absurd hu (hsu v lb)
      · simp only [e, if_false] at hu; exact suspAt u v lb hu
    · simp only [setThr]; grind
    · intro hq
      rcases w1 hq with ⟨i, hi, ha⟩ | ⟨t', i, hi, hw⟩ | ⟨t', r', ht'⟩
      · exact .inl ⟨i, hi, ha⟩
      · refine .inr (.inl ⟨t', i, hi, ?_⟩)
        simp only [setThr]; grind [inWake]
      · by_cases e : t' = t
        · subst e
          rw [hl] at ht'
          obtain ⟨j, hj, hw⟩ := hwk (by simp only [PLoc.pSmp.injEq] at ht'; exact ht'.1)
          exact .inr (.inl ⟨t', j, hj, by simp [setThr, hw]⟩)
        · exact .inr (.inr ⟨t', r', by simp only [setThr, e, if_false]; exact ht'⟩)
  simp only [afterPublishR]
  split
  · rename_i j hj
    refine key _ (by simp) (by simp) ?_
    intro e
    have : max 1 (slot + 1 - s.delivered.length) = 1 := by omega
    rw [this, rule_target_one _ _ mxpos] at hj
    exact ⟨0, kpos, by simp only [Option.some.injEq] at hj; simp [inWake, hj]⟩
  · rename_i hj
    refine key _ (by simp) (by simp) ?_
    intro e
    have : max 1 (slot + 1 - s.delivered.length) = 1 := by omega
    rw [this, rule_target_one _ _ mxpos] at hj; cases hj

theorem winv_stepP (s : St) (t : Nat) (h : WInv s) : WInv (stepP s t) := by
  have h0 := h
  obtain ⟨mxpos, kpos, keepT, lenEq, suspAt, noCanc, slocOut, slocLv, w2, w1⟩ := h
  cases hl : s.thr t <;> simp only [stepP, hl]
  case idle => exact h0
  case done => exact h0
  case aSusp => exact h0
  case zSusp => exact h0
  case cCancel j => exact absurd hl (noCanc t j)
  case pClm v slot r =>
    split
    · rename_i t' x rest hr
      split
      · -- the publication: into an empty queue it is the oldest pending event
        have hlen : (s.accepted ++ [v]).length = s.delivered.length + (s.q ++ [v]).length := by
          simp only [List.length_append, List.length_cons, List.length_nil]; omega
        refine winv_setThr_q s t _ _ _ rest s.held h0 (by intro i; rw [hl]; simp [inWake]) (by intro d r'; rw [hl]; simp)
          (by simp) (by simp) hlen ?_
        intro _
        by_cases hq : s.q = []
        · right; right
          have : s.accepted.length = s.delivered.length := by rw [lenEq, hq]; simp
          exact ⟨r, by rw [this]⟩
        · exact .inl hq
      · exact h0
    · exact h0
  case pSmp slot r => exact winv_sample s t slot r h0 hl
  case wWake j r =>
    have lv := slocLv j
    have w2j := w2 j
    split
    · wake_done
    · wake_move
  case wLock j r => split <;> wake_move
  case wSpin j r => split <;> wake_move
  case wRetry j r =>
    have lv := slocLv j
    have w2j := w2 j
    split <;> wake_done

theorem not_inWake_idle {s : St} {t : Nat} (h : s.thr t = .idle) : ∀ i, ¬ inWake (s.thr t) i := by
  intro i; rw [h]; simp [inWake]

theorem not_pSmp_idle {s : St} {t : Nat} (h : s.thr t = .idle) : ∀ d r, s.thr t ≠ .pSmp d r := by
  intro d r; rw [h]; simp

/-- a stream is polled (from `ready`, or from `parked` with any token): it is armed afterwards -/
theorem winv_poll (s : St) (j : Nat) (newTok : Option Nat) (h : WInv s) : WInv (apply s (.poll j newTok)) := by
  have h0 := h
  obtain ⟨mxpos, kpos, keepT, lenEq, suspAt, noCanc, slocOut, slocLv, w2, w1⟩ := h
  simp only [apply]
  split
  · rename_i hj
    split
    · refine { mxpos := mxpos, kpos := kpos, keepT := keepT, lenEq := lenEq, suspAt := suspAt, noCanc := noCanc, slocOut := ?_,
               slocLv := ?_, w2 := ?_, w1 := ?_ }
      · simp only [setS]; grind
      · intro i; have := slocLv i; simp only [setS]; grind [SLoc.live]
      · simp only [setS]; grind
      · intro _; exact .inl ⟨j, hj, by simp [armed, setS]⟩
    · refine { mxpos := mxpos, kpos := kpos, keepT := keepT, lenEq := lenEq, suspAt := suspAt, noCanc := noCanc, slocOut := ?_,
               slocLv := ?_, w2 := ?_, w1 := ?_ }
      · simp only [setS]; grind
      · intro i; have := slocLv i; simp only [setS]; grind [SLoc.live]
      · simp only [setS]; grind
      · intro _; exact .inl ⟨j, hj, by simp [armed, setS]⟩
    · exact h0
  · exact h0

theorem winv_apply (s : St) (a : Act) (h : WInv s) (ha : C04Act s.rule a) : WInv (apply s a) := by
  have hle := h.lenEq
  cases a <;> simp only [C04Act] at ha
  case send t v =>
    simp only [apply]
    split
    · rename_i ht
      split
      · rw [afterPublish_eq]
        exact winv_publish s t v s.held _ _ h (not_inWake_idle ht) (not_pSmp_idle ht) (by intro hq; simp [hq])
      · split
        · exact winv_setThr_q s t _ s.q s.accepted s.resv s.held h (not_inWake_idle ht) (not_pSmp_idle ht) (by simp) (by simp) hle (fun hq => .inl hq)
        · exact winv_setThr_q s t _ s.q s.accepted s.resv s.held h (not_inWake_idle ht) (not_pSmp_idle ht) (by simp) (by simp) hle (fun hq => .inl hq)
    · exact h
  case claim t v =>
    simp only [apply]
    split
    · rename_i ht
      split
      · exact winv_setThr_q s t _ s.q s.accepted _ s.held h (not_inWake_idle ht) (not_pSmp_idle ht) (by simp) (by simp) hle (fun hq => .inl hq)
      · exact winv_setThr_q s t _ s.q s.accepted s.resv s.held h (not_inWake_idle ht) (not_pSmp_idle ht) (by simp) (by simp) hle (fun hq => .inl hq)
    · exact h
  case sendWith t v =>
    simp only [apply]
    split
    · rename_i ht
      split
      · rw [afterPublish_eq]
        exact winv_publish s t v s.held _ _ h (not_inWake_idle ht) (not_pSmp_idle ht) (by intro hq; simp [hq])
      · exact winv_setThr_q s t _ s.q s.accepted s.resv s.held h (not_inWake_idle ht) (not_pSmp_idle ht) (by simp) (by simp) hle (fun hq => .inl hq)
    · exact h
  case sendRsv t v =>
    simp only [apply]
    split
    · rename_i ht
      split
      · exact winv_publish s t v s.held _ _ h (not_inWake_idle ht) (not_pSmp_idle ht) (by intro hq; simp [hq])
      · exact winv_setThr_q s t _ s.q s.accepted s.resv s.held h (not_inWake_idle ht) (not_pSmp_idle ht) (by simp) (by simp) hle (fun hq => .inl hq)
    · exact h
  case asyncMov t v =>
    simp only [apply]
    split
    · rename_i ht
      split
      · exact winv_setThr_q s t _ s.q s.accepted _ s.held h (not_inWake_idle ht) (not_pSmp_idle ht) (by simp) (fun _ _ _ => ha) hle (fun hq => .inl hq)
      · exact winv_setThr_q s t _ s.q s.accepted s.resv s.held h (not_inWake_idle ht) (not_pSmp_idle ht) (by simp) (by simp) hle (fun hq => .inl hq)
    · exact h
  case asyncZc t v =>
    simp only [apply]
    split
    · rename_i ht
      split
      · exact winv_setThr_q s t _ s.q s.accepted s.resv _ h (not_inWake_idle ht) (not_pSmp_idle ht) (by simp) (by simp) hle (fun hq => .inl hq)
      · exact winv_setThr_q s t _ s.q s.accepted s.resv s.held h (not_inWake_idle ht) (not_pSmp_idle ht) (by simp) (by simp) hle (fun hq => .inl hq)
    · exact h
  case resume t =>
    simp only [apply]
    split
    · rename_i v lb ht
      split
      · exact winv_setThr_q s t _ s.q s.accepted s.resv s.held h (by intro i; rw [ht]; simp [inWake]) (by intro d r'; rw [ht]; simp)
          (by simp) (by simp) hle (fun hq => .inl hq)
      · rename_i hr; exact absurd (h.suspAt t v lb ht) hr
    · rename_i v ht
      split
      · exact winv_setThr_q s t _ s.q s.accepted _ _ h (by intro i; rw [ht]; simp [inWake]) (by intro d r'; rw [ht]; simp)
          (by simp) (by simp) hle (fun hq => .inl hq)
      · rw [afterPublish_eq]
        exact winv_publish s t v _ _ _ h (by intro i; rw [ht]; simp [inWake]) (by intro d r'; rw [ht]; simp) (by intro hq; simp [hq])
    · exact h
  case release =>
    simp only [apply]
    split
    · obtain ⟨mxpos, kpos, keepT, lenEq, suspAt, noCanc, slocOut, slocLv, w2, w1⟩ := h
      exact ⟨mxpos, kpos, keepT, lenEq, suspAt, noCanc, slocOut, slocLv, w2, w1⟩
    · exact h
  case poll j newTok => exact winv_poll s j newTok h
  case stepP t => exact winv_stepP s t h
  case stepS j => exact winv_stepS s j h
  case ack t =>
    simp only [apply]
    split
    · rename_i r ht
      exact winv_setThr_q s t _ s.q s.accepted s.resv s.held h (by intro i; rw [ht]; simp [inWake]) (by intro d r'; rw [ht]; simp) (by simp)
        (by simp) hle (fun hq => .inl hq)
    · exact h

/-- the wake rule is a constant of the execution -/
theorem rule_stepP (s : St) (t : Nat) : (stepP s t).rule = s.rule := by
  unfold stepP
  (repeat' split) <;> simp [setThr, notify, afterPublishR] <;> (repeat' split) <;> rfl

theorem rule_stepS (s : St) (j : Nat) : (stepS s j).rule = s.rule := by
  unfold stepS
  (repeat' split) <;> simp [setS, notify]

theorem rule_apply (s : St) (a : Act) : (apply s a).rule = s.rule := by
  cases a <;> simp only [apply, afterPublish, afterPublishR]
  case stepP t => exact rule_stepP s t
  case stepS j => exact rule_stepS s j
  all_goals ((repeat' split) <;> simp [setThr, setS])

theorem winv_run (s : St) (as : List Act) (h : WInv s) (ha : ∀ a ∈ as, C04Act s.rule a) : WInv (run s as) := by
  induction as generalizing s with
  | nil => exact h
  | cons a as ih =>
    simp only [run, List.foldl_cons]
    exact ih _ (winv_apply s a h (ha a (by simp))) (fun b hb => by rw [rule_apply]; exact ha b (by simp [hb]))

/-- (W1) kills `stuck` -/
theorem winv_not_stuck {s : St} (h : WInv s) : ¬ stuck s := by
  rintro ⟨hq, hp, hs⟩
  rcases h.w1 hq with ⟨j, hj, ha⟩ | ⟨t, j, _, hw⟩ | ⟨t, ht⟩
  · have := hs j hj (h.keepT j hj)
    simp [armed, this.1, this.2] at ha
  · rcases hp t with h1 | ⟨r, h1⟩ <;> simp [h1, inWake] at hw
  · obtain ⟨r', ht⟩ := ht
    rcases hp t with h1 | ⟨r, h1⟩ <;> simp [h1] at ht

/-! ## deciding `stuck` on concrete executions -/

/-- the producer thread an action belongs to -/
def Act.thread : Act → Option Nat
  | .send t _ | .claim t _ | .sendWith t _ | .sendRsv t _ | .asyncMov t _ | .asyncZc t _ | .resume t | .cancel t _ | .stepP t
  | .ack t => some t
  | _ => none

theorem thr_afterPublishR_ne (s : St) (r : Rule) (t len u : Nat) (h : t ≠ u) :
    (afterPublishR s r t len).thr u = s.thr u := by
  unfold afterPublishR
  split <;> simp [setThr] <;> grind

theorem thr_stepP_ne (s : St) (t u : Nat) (h : t ≠ u) : (stepP s t).thr u = s.thr u := by
  have hne : u ≠ t := fun e => h e.symm
  unfold stepP
  split
  case h_6 => exact thr_afterPublishR_ne s _ t _ u h
  all_goals ((repeat' split) <;> simp [setThr, notify, hne])

theorem thr_stepS (s : St) (j : Nat) : (stepS s j).thr = s.thr := by
  unfold stepS
  split <;> (try split) <;> simp [setS, notify]

theorem thr_apply_of_ne (s : St) (a : Act) (u : Nat) (h : a.thread ≠ some u) : (apply s a).thr u = s.thr u := by
  cases a <;> simp only [Act.thread, ne_eq, Option.some.injEq] at h <;> simp only [apply, afterPublish_eq]
  case stepP t => exact thr_stepP_ne s t u h
  case stepS j => rw [thr_stepS]
  case release => split <;> rfl
  case poll j nt => (repeat' split) <;> rfl
  case dropS j => split <;> rfl
  all_goals
    (repeat' split) <;>
      first | rfl | (rw [thr_afterPublishR_ne _ _ _ _ _ h]) | (simp only [setThr]; grind)

theorem thr_run_of_ne (s : St) (as : List Act) (u : Nat) (h : ∀ a ∈ as, a.thread ≠ some u) :
    (run s as).thr u = s.thr u := by
  induction as generalizing s with
  | nil => rfl
  | cons a as ih =>
    simp only [run, List.foldl_cons]
    have := ih (apply s a) (fun b hb => h b (by simp [hb]))
    simp only [run] at this
    rw [this, thr_apply_of_ne s a u (h a (by simp))]

def restB : PLoc → Bool
  | .idle | .done _ => true
  | _ => false

/-- `stuck`, checking producer threads `0 .. T-1` only -/
def stuckB (s : St) (T : Nat) : Bool :=
  !s.q.isEmpty && (List.range T).all (fun t => restB (s.thr t)) &&
    (List.range s.k).all (fun j => !s.keep j || (s.sloc j == .parked && !s.notified (s.tok j)))

/-- all actions are by producer threads `< T` -/
def actsBelow (as : List Act) (T : Nat) : Bool :=
  as.all fun a => match a.thread with
    | some t => decide (t < T)
    | none => true

theorem stuck_of_stuckB (s : St) (T : Nat) (hT : ∀ t, T ≤ t → s.thr t = .idle) (h : stuckB s T = true) : stuck s := by
  simp only [stuckB, Bool.and_eq_true, Bool.not_eq_true', List.all_eq_true, List.mem_range, Bool.or_eq_true,
    beq_iff_eq] at h
  obtain ⟨⟨hq, hp⟩, hs⟩ := h
  refine ⟨by intro e; simp [e] at hq, fun t => ?_, fun j hj hk => ?_⟩
  · by_cases ht : t < T
    · have := hp t ht
      cases hl : s.thr t <;> simp [hl, restB] at this ⊢
    · exact .inl (hT t (by omega))
  · rcases hs j hj with h1 | h1
    · rw [hk] at h1; cases h1
    · exact h1

theorem stuck_run_of_check (n mx k : Nat) (rule : Rule) (zc : Bool) (as : List Act) (T : Nat)
    (h1 : actsBelow as T = true) (h2 : stuckB (run (init n mx k rule zc) as) T = true) :
    stuck (run (init n mx k rule zc) as) := by
  refine stuck_of_stuckB _ T (fun t ht => ?_) h2
  rw [thr_run_of_ne]
  · rfl
  · intro a ha e
    simp only [actsBelow, List.all_eq_true] at h1
    have := h1 a ha
    rw [e] at this
    simp at this
    omega

/-- the task of stream `j` polls an empty channel for the first time (stores its waker, wakes itself), is polled again
    and parks: `parked`, `waker j = some (tok j)`, not notified -/
def parkActs (j : Nat) : List Act :=
  [.poll j none, .stepS j, .stepS j, .stepS j, .stepS j, .stepS j, .stepS j, .poll j none, .stepS j, .stepS j, .stepS j]

end Mutiny.Wake
