import Mutiny.Proofs.MmapInv

/-!
# Consequences of the `MmapLog` invariant (used by `Props/C09.lean`)

* `Mono s s'` — what only ever grows: both tails, the subscriber list (kinds and starts of existing subscribers are
  fixed), the visibility log and the delivery log (`mono_apply`, `mono_run`);
* `log_pos`, `log_mem_lt`, `writes_le_one`, `slots_stable_apply`, `slots_stable_run`;
* `cur` — the logical cursor of a subscriber; `subOk_cur`; `delPV_eq`: what subscriber `i` delivered so far is
  *literally* the segment `[start, cur)` of the visibility log.
-/

namespace Mutiny.MmapLog

set_option maxHeartbeats 1000000

/-! ## monotone parts of the state -/

structure Mono (s s' : St) : Prop where
  cons : s.consTail ≤ s'.consTail
  pub : s.pubTail ≤ s'.pubTail
  len : s.subs.length ≤ s'.subs.length
  kind : ∀ i, i < s.subs.length → (getSub s' i).kind = (getSub s i).kind
  start : ∀ i, i < s.subs.length → (getSub s' i).start = (getSub s i).start
  log : ∃ l, s'.log = s.log ++ l
  del : ∃ l, s'.delivered = s.delivered ++ l

theorem Mono.refl (s : St) : Mono s s :=
  ⟨Nat.le_refl _, Nat.le_refl _, Nat.le_refl _, fun _ _ => rfl, fun _ _ => rfl, ⟨[], by simp⟩, ⟨[], by simp⟩⟩

theorem Mono.trans {a b c : St} (h1 : Mono a b) (h2 : Mono b c) : Mono a c := by
  obtain ⟨l1, e1⟩ := h1.log
  obtain ⟨l2, e2⟩ := h2.log
  obtain ⟨d1, f1⟩ := h1.del
  obtain ⟨d2, f2⟩ := h2.del
  refine ⟨Nat.le_trans h1.cons h2.cons, Nat.le_trans h1.pub h2.pub, Nat.le_trans h1.len h2.len, ?_, ?_,
    ⟨l1 ++ l2, by rw [e2, e1, List.append_assoc]⟩, ⟨d1 ++ d2, by rw [f2, f1, List.append_assoc]⟩⟩
  · intro i hi; rw [h2.kind i (Nat.lt_of_lt_of_le hi h1.len), h1.kind i hi]
  · intro i hi; rw [h2.start i (Nat.lt_of_lt_of_le hi h1.len), h1.start i hi]

macro "mono_fields" : tactic => `(tactic| (
  constructor
  all_goals (first | (exact ⟨_, rfl⟩) | (refine ⟨[], ?_⟩; simp; done) | grind)))

theorem mono_step (s : St) (t : Nat) : Mono s (step s t) := by
  cases hl : s.thr t with
  | idle => rw [step_idle s t hl]; exact Mono.refl s
  | done r => rw [step_done s t r hl]; exact Mono.refl s
  | pFetch v => rw [step_pFetch s t v hl]; mono_fields
  | pWrite v pos => rw [step_pWrite s t v pos hl]; mono_fields
  | pPublish pos =>
    rw [step_pPublish s t pos hl]; split
    · mono_fields
    · exact Mono.refl s
  | sLoad b =>
    cases b with
    | true => rw [step_sLoad_split s t hl]; mono_fields
    | false => rw [step_sLoad_new s t hl]; mono_fields
  | cFetch j =>
    cases hk : (getSub s j).kind with
    | dyn => rw [step_cFetch_dyn s t j hl hk]; mono_fields
    | fixed ft => rw [step_cFetch_fixed s t j ft hl hk]; split <;> mono_fields
  | cLoadTail j c => rw [step_cLoadTail s t j c hl]; split <;> mono_fields
  | cRecede j c => rw [step_cRecede s t j c hl]; split <;> first | exact Mono.refl s | mono_fields
  | cRead j c => rw [step_cRead s t j c hl]; mono_fields

theorem mono_apply (s : St) (a : Act) : Mono s (apply s a) := by
  cases a with
  | step t => exact mono_step s t
  | subJoined t => rw [apply_subJoined]; split <;> first | exact Mono.refl s | mono_fields
  | _ => simp only [apply] <;> split <;> first | exact Mono.refl s | mono_fields

theorem mono_run (s : St) (as : List Act) : Mono s (run s as) := by
  induction as generalizing s with
  | nil => exact Mono.refl s
  | cons a as ih => exact (mono_apply s a).trans (ih _)

/-! ## the visibility log -/

/-- positions become visible in position order -/
theorem log_pos {s : St} (h : Inv s) : s.log.map (·.1) = List.range s.consTail := by
  apply List.ext_getElem?
  intro p
  rw [List.getElem?_map]
  by_cases hp : p < s.consTail
  · obtain ⟨v, _, hv⟩ := h.logOk p hp
    simp [hv, hp]
  · rw [List.getElem?_eq_none (by rw [h.logLen]; omega)]; simp; omega

theorem log_mem_lt {s : St} (h : Inv s) {p v : Nat} (hm : (p, v) ∈ s.log) : p < s.consTail := by
  have : p ∈ s.log.map (·.1) := List.mem_map.mpr ⟨(p, v), hm, rfl⟩
  rw [log_pos h] at this
  exact List.mem_range.mp this

theorem log_getElem?_fst {s : St} (h : Inv s) {p q v : Nat} (hm : s.log[p]? = some (q, v)) :
    q = p ∧ p < s.consTail ∧ s.slots p = some v := by
  have hp : p < s.consTail := by
    rw [← h.logLen]; exact (List.getElem?_eq_some_iff.mp hm).1
  obtain ⟨w, hw1, hw2⟩ := h.logOk p hp
  rw [hw2] at hm
  simp only [Option.some.injEq, Prod.mk.injEq] at hm
  exact ⟨hm.1.symm, hp, by rw [hw1, hm.2]⟩

/-! ## write-once -/

theorem writes_le_one {s : St} (h : Inv s) (p : Nat) : s.writes p ≤ 1 := by
  by_cases h1 : p < s.consTail
  · rw [h.wLow p h1]; exact Nat.le_refl 1
  · by_cases h2 : s.pubTail ≤ p
    · rw [h.wHigh p h2]; exact Nat.zero_le 1
    · obtain ⟨t, ht⟩ := h.pCover p (by omega) (by omega)
      cases hl : s.thr t with
      | pWrite v pos =>
        rw [hl] at ht; simp only [holdsP] at ht; subst ht
        rw [h.wWrite t v pos hl]; exact Nat.zero_le 1
      | pPublish pos =>
        rw [hl] at ht; simp only [holdsP] at ht; subst ht
        rw [h.wPub t pos hl]; exact Nat.le_refl 1
      | _ => rw [hl] at ht; simp [holdsP] at ht

theorem slots_stable_step {s : St} (h : Inv s) (t : Nat) {p v : Nat} (hs : s.slots p = some v) :
    (step s t).slots p = some v := by
  cases hl : s.thr t with
  | idle => rw [step_idle s t hl]; exact hs
  | done r => rw [step_done s t r hl]; exact hs
  | pFetch w => rw [step_pFetch s t w hl]; exact hs
  | pWrite w pos =>
    rw [step_pWrite s t w pos hl]
    have hw := h.wWrite t w pos hl
    have hn := (h.slotW pos).mpr hw
    have : p ≠ pos := by intro e; subst e; rw [hs] at hn; cases hn
    simp [this, hs]
  | pPublish pos => rw [step_pPublish s t pos hl]; split <;> exact hs
  | sLoad b =>
    cases b with
    | true => rw [step_sLoad_split s t hl]; exact hs
    | false => rw [step_sLoad_new s t hl]; exact hs
  | cFetch j =>
    cases hk : (getSub s j).kind with
    | dyn => rw [step_cFetch_dyn s t j hl hk]; exact hs
    | fixed ft => rw [step_cFetch_fixed s t j ft hl hk]; split <;> exact hs
  | cLoadTail j c => rw [step_cLoadTail s t j c hl]; split <;> exact hs
  | cRecede j c => rw [step_cRecede s t j c hl]; split <;> exact hs
  | cRead j c => rw [step_cRead s t j c hl]; exact hs

/-- a slot, once written, is never rewritten -/
theorem slots_stable_apply {s : St} (h : Inv s) (a : Act) {p v : Nat} (hs : s.slots p = some v) :
    (apply s a).slots p = some v := by
  cases a with
  | step t => exact slots_stable_step h t hs
  | subJoined t => rw [apply_subJoined]; split <;> exact hs
  | _ => simp only [apply] <;> split <;> exact hs

theorem slots_stable_run {s : St} (h : Inv s) (as : List Act) (hok : RunOk s as) {p v : Nat}
    (hs : s.slots p = some v) : (run s as).slots p = some v := by
  induction as generalizing s with
  | nil => exact hs
  | cons a as ih => exact ih (inv_apply s a h hok.1) hok.2 (slots_stable_apply h a hs)

theorem slots_of_lt_consTail {s : St} (h : Inv s) {p : Nat} (hp : p < s.consTail) : ∃ v, s.slots p = some v := by
  obtain ⟨v, hv, _⟩ := h.logOk p hp; exact ⟨v, hv⟩

/-! ## the logical cursor -/

open Classical in
/-- the logical cursor of subscriber `i`: its `head`, minus the increment of a poll in progress that has not delivered
    (or given the increment back) yet -/
noncomputable def cur (s : St) (i : Nat) : Nat :=
  if ∃ t c, pending (s.thr t) i c then (getSub s i).head - 1 else (getSub s i).head

theorem cur_pending {s : St} (h : Inv s) {t i c : Nat} (hp : pending (s.thr t) i c) : cur s i = c := by
  have := (h.pendOk t i c hp).1
  simp only [cur]
  rw [if_pos ⟨t, c, hp⟩, this]; rfl

theorem cur_idle {s : St} {i : Nat} (hn : ∀ t c, ¬ pending (s.thr t) i c) : cur s i = (getSub s i).head := by
  simp only [cur]
  rw [if_neg]
  rintro ⟨t, c, hp⟩; exact hn t c hp

theorem subOk_cur {s : St} (h : Inv s) {i : Nat} (hi : i < s.subs.length) : SubOk s i (cur s i) := by
  by_cases hp : ∃ t c, pending (s.thr t) i c
  · obtain ⟨t, c, hp⟩ := hp
    rw [cur_pending h hp]; exact (h.pendOk t i c hp).2
  · have hn : ∀ t c, ¬ pending (s.thr t) i c := fun t c hq => hp ⟨t, c, hq⟩
    rw [cur_idle hn]; exact h.idleOk i hi hn

/-- what subscriber `i` received so far: `(position, value)` in delivery order -/
def delPV (s : St) (i : Nat) : List (Nat × Nat) := (s.delivered.filter (fun x => x.1 == i)).map (·.2)

theorem delOf_eq_delPV (s : St) (i : Nat) : delOf s i = (delPV s i).map (·.1) := by
  simp [delOf, delPV, List.map_map]

theorem mem_delPV {s : St} {i p v : Nat} : (p, v) ∈ delPV s i ↔ (i, p, v) ∈ s.delivered := by
  simp only [delPV, List.mem_map, List.mem_filter, beq_iff_eq]
  constructor
  · rintro ⟨⟨j, q, w⟩, ⟨hm, rfl⟩, e⟩
    simp only [Prod.mk.injEq] at e; obtain ⟨rfl, rfl⟩ := e; exact hm
  · intro hm; exact ⟨(i, p, v), ⟨hm, rfl⟩, rfl⟩

/-- what subscriber `i` received so far is *literally* the segment `[start, cur)` of the visibility log: every position
    from `start` on, each once, in position order, with the logged value -/
theorem delPV_eq {s : St} (h : Inv s) {i : Nat} (hi : i < s.subs.length) :
    delPV s i = (s.log.drop (getSub s i).start).take (cur s i - (getSub s i).start) := by
  obtain ⟨h1, _, h3⟩ := subOk_cur h hi
  rw [delOf_eq_delPV] at h3
  have hlen : (delPV s i).length = cur s i - (getSub s i).start := by
    have := congrArg List.length h3
    simpa using this
  apply List.ext_getElem?
  intro k
  rw [List.getElem?_take, List.getElem?_drop]
  by_cases hk : k < cur s i - (getSub s i).start
  · rw [if_pos hk]
    have hk' : k < (delPV s i).length := by omega
    have hx : (delPV s i)[k]? = some (delPV s i)[k] := List.getElem?_eq_getElem hk'
    have hmem : (delPV s i)[k] ∈ delPV s i := List.getElem_mem hk'
    have hfst : ((delPV s i).map (·.1))[k]? = some ((getSub s i).start + k) := by
      rw [h3, List.getElem?_range' hk]; simp
    rw [List.getElem?_map, hx] at hfst
    simp only [Option.map_some, Option.some.injEq] at hfst
    generalize (delPV s i)[k] = pv at hfst hmem hx
    obtain ⟨p, v⟩ := pv
    simp only at hfst; subst hfst
    have := h.delVal _ (mem_delPV.mp hmem)
    simp only at this
    rw [hx, this]
  · rw [if_neg hk, List.getElem?_eq_none (by omega)]

/-! ## the steps of a poll, under the invariant -/

section poll
variable {s : St} {t i c : Nat}

/-- `mm.c.fetch`: the cursor is claimed; a fixed subscriber decides here -/
theorem cFetch_facts (h : Inv s) (ht : s.thr t = .cFetch i) :
    i < s.subs.length ∧ cur s i = (getSub s i).head ∧
    ((getSub s i).kind = .dyn → (step s t).thr t = .cLoadTail i (cur s i)) ∧
    (∀ ft, (getSub s i).kind = .fixed ft →
      (cur s i = ft → (step s t).thr t = .cRecede i (cur s i)) ∧
      (cur s i ≠ ft → cur s i < ft ∧ (step s t).thr t = .cRead i (cur s i))) ∧
    (step s t).delivered = s.delivered ∧ (step s t).log = s.log := by
  have lt := h.pollLt t i (by simp [ht, polls])
  have np : ∀ u c, ¬ pending (s.thr u) i c := by
    intro u c hu
    have := h.pollUniq u t i (pending_polls hu) (by simp [ht, polls])
    subst this; simp [ht, pending] at hu
  have me := h.idleOk i lt np
  rw [cur_idle np]
  refine ⟨lt, rfl, ?_, ?_, ?_⟩
  · intro hk; rw [step_cFetch_dyn s t i ht hk]; simp
  · intro ft hk
    have me' : (getSub s i).head ≤ ft ∧ ft ≤ s.consTail := by simpa [SubOk, hk, Bound] using me.2.1
    rw [step_cFetch_fixed s t i ft ht hk]
    constructor
    · intro e; rw [if_pos (by omega)]; simp
    · intro e; rw [if_neg (by omega)]; exact ⟨by omega, by simp⟩
  · cases hk : (getSub s i).kind with
    | dyn => rw [step_cFetch_dyn s t i ht hk]; exact ⟨rfl, rfl⟩
    | fixed ft => rw [step_cFetch_fixed s t i ft ht hk]; split <;> exact ⟨rfl, rfl⟩

/-- `mm.c.loadtail` (dynamic subscriber): `none` is on its way iff nothing is visible at the cursor -/
theorem cLoadTail_facts (h : Inv s) (ht : s.thr t = .cLoadTail i c) :
    i < s.subs.length ∧ cur s i = c ∧ (getSub s i).kind = .dyn ∧ c ≤ s.consTail ∧
    (s.consTail ≤ c → (step s t).thr t = .cRecede i c) ∧ (c < s.consTail → (step s t).thr t = .cRead i c) ∧
    (step s t).delivered = s.delivered ∧ (step s t).log = s.log := by
  have hp : pending (s.thr t) i c := by simp [ht, pending]
  have hk := h.loadDyn t i c ht
  have hb := (h.pendOk t i c hp).2.2.1
  rw [hk] at hb; simp only [Bound] at hb
  refine ⟨h.pendLt t i c hp, cur_pending h hp, hk, hb, ?_, ?_, ?_⟩
  · intro hc; rw [step_cLoadTail s t i c ht, if_pos hc]; simp
  · intro hc; rw [step_cLoadTail s t i c ht, if_neg (by omega)]; simp
  · rw [step_cLoadTail s t i c ht]; split <;> exact ⟨rfl, rfl⟩

/-- `mm.c.recede`: with one poller the CAS succeeds at once; the call answers `none`, delivers nothing and leaves the
    cursor where it was; a fixed subscriber is then exhausted (`cur = fixedTail`) -/
theorem cRecede_facts (h : Inv s) (ht : s.thr t = .cRecede i c) :
    i < s.subs.length ∧ cur s i = c ∧ (∀ ft, (getSub s i).kind = .fixed ft → c = ft) ∧
    step s t = setThr (setHead s i c) t (.done (.item none)) := by
  have hp : pending (s.thr t) i c := by simp [ht, pending]
  have me := h.pendOk t i c hp
  refine ⟨h.pendLt t i c hp, cur_pending h hp, ?_, ?_⟩
  · intro ft hk
    have := h.recOk t i c ft ht hk
    have hb := me.2.2.1
    rw [hk] at hb; simp only [Bound] at hb; omega
  · rw [step_cRecede s t i c ht, if_pos me.1]

/-- `mm.c.read`: position `cur` is delivered with the value the log has for it -/
theorem cRead_facts (h : Inv s) (ht : s.thr t = .cRead i c) :
    i < s.subs.length ∧ cur s i = c ∧ ∃ v, s.log[c]? = some (c, v) ∧ s.slots c = some v ∧
    step s t = setThr (deliver s (i, c, v)) t (.done (.item (some v))) := by
  have hp : pending (s.thr t) i c := by simp [ht, pending]
  obtain ⟨v, hv1, hv2⟩ := h.logOk c (h.readOk t i c ht).1
  refine ⟨h.pendLt t i c hp, cur_pending h hp, v, hv2, hv1, ?_⟩
  rw [step_cRead s t i c ht, hv1]; rfl

end poll

/-! ## the steps of a send, under the invariant -/

theorem pPublish_facts {s : St} {t pos : Nat} (h : Inv s) (ht : s.thr t = .pPublish pos) :
    ∃ v, s.slots pos = some v ∧ s.consTail ≤ pos ∧ pos < s.pubTail ∧
      (s.consTail = pos → step s t = setThr (pubLog s pos) t (.done .unit) ∧ (step s t).log = s.log ++ [(pos, v)]) ∧
      (s.consTail ≠ pos → step s t = s) := by
  have me := h.pRange t pos (by simp [ht, holdsP])
  have hs : s.slots pos ≠ none := by rw [Ne, h.slotW pos, h.wPub t pos ht]; omega
  obtain ⟨v, hv⟩ := Option.ne_none_iff_exists'.mp hs
  refine ⟨v, hv, me.1, me.2, ?_, ?_⟩
  · intro e; rw [step_pPublish s t pos ht, if_pos e]; exact ⟨rfl, by simp [hv]⟩
  · intro e; rw [step_pPublish s t pos ht, if_neg e]

/-! ## what a subscriber has delivered -/

/-- subscriber `i` delivered `(p, v)` iff `p` lies in `[start, cur)` and `(p, v)` is the log's entry for `p` -/
theorem mem_delivered_iff {s : St} (h : Inv s) {i : Nat} (hi : i < s.subs.length) (p v : Nat) :
    (i, p, v) ∈ s.delivered ↔ (getSub s i).start ≤ p ∧ p < cur s i ∧ s.log[p]? = some (p, v) := by
  obtain ⟨h1, _, h3⟩ := subOk_cur h hi
  constructor
  · intro hm
    have hv := h.delVal _ hm
    have : p ∈ delOf s i := by
      rw [delOf_eq_delPV]; exact List.mem_map.mpr ⟨(p, v), mem_delPV.mpr hm, rfl⟩
    rw [h3, List.mem_range'_1] at this
    exact ⟨this.1, by omega, hv⟩
  · rintro ⟨hp1, hp2, hv⟩
    have : p ∈ delOf s i := by rw [h3, List.mem_range'_1]; omega
    rw [delOf_eq_delPV] at this
    obtain ⟨⟨q, w⟩, hm, e⟩ := List.mem_map.mp this
    simp only at e; subst e
    have hm' := mem_delPV.mp hm
    have hw := h.delVal _ hm'
    simp only at hw
    rw [hw] at hv
    simp only [Option.some.injEq, Prod.mk.injEq, true_and] at hv
    subst hv; exact hm'

theorem delOf_nodup {s : St} (h : Inv s) {i : Nat} (hi : i < s.subs.length) : (delOf s i).Nodup := by
  rw [(subOk_cur h hi).2.2]; exact List.nodup_range'

/-- a fixed subscriber is the old half of a split: its partner is the next subscriber -/
theorem fixed_facts {s : St} (h : Inv s) {i tl : Nat} (hi : i < s.subs.length) (hk : (getSub s i).kind = .fixed tl) :
    (getSub s i).start = 0 ∧ i + 1 < s.subs.length ∧ (getSub s (i + 1)).kind = .dyn ∧ (getSub s (i + 1)).start = tl ∧
    tl ≤ s.consTail ∧ cur s i ≤ tl ∧ tl ≤ cur s (i + 1) ∧ cur s (i + 1) ≤ s.consTail := by
  obtain ⟨f1, f2, f3, f4⟩ := h.fixedPair i tl hi hk
  obtain ⟨_, b1, _⟩ := subOk_cur h hi
  obtain ⟨a2, b2, _⟩ := subOk_cur h f2
  rw [hk] at b1; rw [f3] at b2; simp only [Bound] at b1 b2
  exact ⟨f1, f2, f3, f4, b1.2, b1.1, by omega, b2⟩

end Mutiny.MmapLog
