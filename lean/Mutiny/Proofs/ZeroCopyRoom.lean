import Mutiny.Proofs.ZeroCopyConserve

/-!
# M4 `ZeroCopy`: both rings always have room (pigeonhole over the conserved pool slots)
-/

namespace Mutiny.ZeroCopy
open Mutiny

theorem consLoc_not_holdsP {l : Ring.Loc} (h : ConsLoc l) (k : Nat) : ¬ Ring.holdsP l k := by
  cases l <;> simp_all [ConsLoc, Ring.holdsP]

/-- a ring whose pending entries and whose producers in flight all carry distinct tokens `< N` never has more than `N`
    sequence numbers claimed beyond `head`: its fullness test cannot fail -/
theorem ring_room (r : Ring.St) (hI : Ring.Inv r) (N : Nat) (H : Nat → Nat → Prop)
    (hnd : (Ring.abs r).Nodup) (hr : ∀ x, x ∈ Ring.abs r → x < N)
    (hHr : ∀ u id, H u id → id < N) (hHf : ∀ u id, H u id → id ∉ Ring.abs r)
    (hHu : ∀ u u' id, H u id → H u' id → u = u')
    (hold : ∀ u k, Ring.holdsP (r.thr u) k → ∃ id, H u id) : r.enqTail ≤ r.head + N := by
  have hlen := Ring.abs_length r hI
  have := hI.hHT; have := hI.hTE
  -- the token found at sequence number `k`
  have hc : ∀ k, ∃ id, r.tail ≤ k → k < r.enqTail → ∃ u, Ring.holdsP (r.thr u) k ∧ H u id := by
    intro k
    by_cases hk : r.tail ≤ k ∧ k < r.enqTail
    · obtain ⟨u, hu⟩ := hI.pCover k hk.1 hk.2
      obtain ⟨id, hid⟩ := hold u k hu
      exact ⟨id, fun _ _ => ⟨u, hu, hid⟩⟩
    · exact ⟨0, fun a b => absurd ⟨a, b⟩ hk⟩
  let g : Nat → Nat := fun k => Classical.choose (hc k)
  have hg : ∀ k, r.tail ≤ k → k < r.enqTail → ∃ u, Ring.holdsP (r.thr u) k ∧ H u (g k) := fun k => Classical.choose_spec (hc k)
  let f : Nat → Nat := fun k => if k < r.tail then (Ring.abs r).getD (k - r.head) 0 else g k
  have hmem : ∀ k, r.head ≤ k → k < r.tail → (Ring.abs r).getD (k - r.head) 0 ∈ Ring.abs r := by
    intro k h1 h2
    have hlt : k - r.head < (Ring.abs r).length := by omega
    rw [List.getD_eq_getElem?_getD, List.getElem?_eq_getElem hlt]
    exact List.getElem_mem hlt
  have := Ring.pigeon N (r.enqTail - r.head) r.head f
    (by intro i hi
        show (if r.head + i < r.tail then _ else _) < N
        split
        · next h2 => exact hr _ (hmem _ (by omega) h2)
        · next h2 => obtain ⟨u, _, hu⟩ := hg (r.head + i) (by omega) (by omega); exact hHr u _ hu)
    (by intro i j hi hj e
        have e' : (if r.head + i < r.tail then (Ring.abs r).getD (r.head + i - r.head) 0 else g (r.head + i)) =
                  (if r.head + j < r.tail then (Ring.abs r).getD (r.head + j - r.head) 0 else g (r.head + j)) := e
        by_cases h1 : r.head + i < r.tail <;> by_cases h2 : r.head + j < r.tail
        · rw [if_pos h1, if_pos h2] at e'
          have := (List.getD_inj (fallback := 0) (by omega) (by omega) hnd).mp e'
          omega
        · rw [if_pos h1, if_neg h2] at e'
          obtain ⟨u, _, hu⟩ := hg (r.head + j) (by omega) (by omega)
          exact absurd (e' ▸ hmem _ (by omega) h1) (hHf u _ hu)
        · rw [if_neg h1, if_pos h2] at e'
          obtain ⟨u, _, hu⟩ := hg (r.head + i) (by omega) (by omega)
          exact absurd (e'.symm ▸ hmem _ (by omega) h2) (hHf u _ hu)
        · rw [if_neg h1, if_neg h2] at e'
          obtain ⟨u, hu1, hu⟩ := hg (r.head + i) (by omega) (by omega)
          obtain ⟨u', hu1', hu'⟩ := hg (r.head + j) (by omega) (by omega)
          rw [e'] at hu
          have := hHu u u' _ hu hu'
          subst this
          have := Ring.holdsP_fun hu1 hu1'
          omega)
  omega

/-- holders of a sequence number of the QUEUE ring are threads in phase `ePub`, which hold a pool slot -/
theorem q_holder (s : St) (h : ZInv s) (u k : Nat) (hk : Ring.holdsP (s.q.thr u) k) : ∃ id, held (s.thr u) id := by
  have hp := h.phase u
  cases hz : s.thr u <;> simp only [hz, phaseOk] at hp
  case ePub v id => exact ⟨id, by simp [held]⟩
  case dCons => exact absurd hk (consLoc_not_holdsP hp.2 k)
  case ePubLen v => obtain ⟨sid, hs⟩ := hp.2; rw [hs] at hk; exact absurd hk (by simp [Ring.holdsP])
  all_goals (rw [hp.2] at hk; exact absurd hk (by simp [Ring.holdsP]))

/-- holders of a sequence number of the FREE-LIST ring are threads in phase `dFree`, which hold a pool slot -/
theorem f_holder (s : St) (h : ZInv s) (u k : Nat) (hk : Ring.holdsP (s.free.thr u) k) : ∃ id, held (s.thr u) id := by
  have hp := h.phase u
  cases hz : s.thr u <;> simp only [hz, phaseOk] at hp
  case dFree id v => exact ⟨id, by simp [held]⟩
  case eAlloc v => exact absurd hk (consLoc_not_holdsP hp.1 k)
  case dFreeLen v => obtain ⟨sid, hs⟩ := hp.1; rw [hs] at hk; exact absurd hk (by simp [Ring.holdsP])
  all_goals (rw [hp.1] at hk; exact absurd hk (by simp [Ring.holdsP]))

/-- **the queue of ids always has room**: `enqTail - head ≤ N`, so the admission test of `ring.publish(id)` never fails -/
theorem q_room (s : St) (h : ZInv s) : s.q.enqTail ≤ s.q.head + s.N := by
  have hnd := h.tok.nodup
  refine ring_room s.q h.qInv s.N (fun u id => held (s.thr u) id) (List.nodup_append.mp hnd).2.1 ?_ h.tok.hRange ?_ h.tok.hUniq
    (q_holder s h)
  · intro x hx; exact h.tok.range x (List.mem_append_right _ hx)
  · intro u id hu hm; exact h.tok.hFresh u id hu (List.mem_append_right _ hm)

/-- **the free list always has room**: a deallocation never finds it full -/
theorem f_room (s : St) (h : ZInv s) : s.free.enqTail ≤ s.free.head + s.N := by
  have hnd := h.tok.nodup
  refine ring_room s.free h.fInv s.N (fun u id => held (s.thr u) id) (List.nodup_append.mp hnd).1 ?_ h.tok.hRange ?_ h.tok.hUniq
    (f_holder s h)
  · intro x hx; exact h.tok.range x (List.mem_append_left _ hx)
  · intro u id hu hm; exact h.tok.hFresh u id hu (List.mem_append_left _ hm)


/-! ## consequently no producer of either ring ever gives a claim back -/

/-- no producer of the ring is giving its claim back (the fullness test never failed) -/
def NoRec (r : Ring.St) : Prop := ∀ u v k rsv w, r.thr u ≠ .pRecede v k rsv w

theorem noRec_step (r : Ring.St) (t : Nat) (hI : Ring.Inv r) (hroom : r.enqTail ≤ r.head + r.N) (h : NoRec r) :
    NoRec (Ring.step r t) := by
  intro u v k rsv w e
  by_cases hu : u = t
  · subst hu
    cases hl : r.thr u with
    | pLoadHead v' id rsv' =>
      have hr := hI.pRange u id (by simp [hl, Ring.holdsP])
      have := hI.hHT; have := hI.npos
      have hadm : id - r.head < r.N := by omega
      simp only [Ring.step, hl, hadm, if_true] at e
      split at e <;> simp at e
    | pRecede v' id rsv' w' => exact absurd hl (h u _ _ _ _)
    | _ => simp only [Ring.step, hl] at e <;> (repeat' split at e) <;> simp_all
  · rw [Ring.step_thr_ne r t u hu] at e; exact h u _ _ _ _ e

theorem noRec_nonstep (r : Ring.St) (a : Ring.Act) (ha : ∀ t, a ≠ .step t) (h : NoRec r) : NoRec (Ring.apply r a) := by
  intro u v k rsv w e
  have hu := h u v k rsv w
  cases a with
  | step t => exact absurd rfl (ha t)
  | _ => simp only [Ring.apply] at e <;> (try split at e) <;> (try simp only [Ring.thr_setThr, Ring.thr_setBuf] at e) <;> (try split at e) <;> simp_all

theorem norec_step (s : St) (t : Nat) (h : ZInv s) (hn : NoRec s.free ∧ NoRec s.q) :
    NoRec (step s t).free ∧ NoRec (step s t).q := by
  have hf := noRec_step s.free t h.fInv (by rw [h.nF]; exact f_room s h) hn.1
  have hq := noRec_step s.q t h.qInv (by rw [h.nQ]; exact q_room s h) hn.2
  have ack : ∀ r : Ring.St, NoRec r → NoRec (Ring.apply r (.ack t)) := fun r hr => noRec_nonstep r _ (by intro u e; cases e) hr
  unfold step
  split
  · exact hn
  · exact hn
  · dsimp only
    split
    · exact ⟨ack _ hf, noRec_nonstep _ _ (by intro u e; cases e) hn.2⟩
    · exact ⟨ack _ hf, hn.2⟩
    · exact ⟨hf, hn.2⟩
  · dsimp only
    split
    · exact ⟨hn.1, hq⟩
    · exact ⟨hn.1, ack _ hq⟩
    · exact ⟨hn.1, hq⟩
  · dsimp only
    split
    · exact ⟨hn.1, ack _ hq⟩
    · exact ⟨hn.1, hq⟩
  · dsimp only
    split
    · exact ⟨hn.1, ack _ hq⟩
    · exact ⟨hn.1, ack _ hq⟩
    · exact ⟨hn.1, hq⟩
  · exact hn
  · exact hn
  · exact hn
  · exact ⟨noRec_nonstep _ _ (by intro u e; cases e) hn.1, hn.2⟩
  · dsimp only
    split
    · exact ⟨hf, hn.2⟩
    · exact ⟨ack _ hf, hn.2⟩
    · exact ⟨hf, hn.2⟩
  · dsimp only
    split
    · exact ⟨ack _ hf, hn.2⟩
    · exact ⟨hf, hn.2⟩
  · exact hn
  · exact hn

theorem norec_apply (s : St) (a : Act) (h : ZInv s) (hn : NoRec s.free ∧ NoRec s.q) :
    NoRec (apply s a).free ∧ NoRec (apply s a).q := by
  cases a with
  | step t => exact norec_step s t h hn
  | enqueue t v => simp only [apply]; split <;> first | exact hn | exact ⟨noRec_nonstep _ _ (by intro u e; cases e) hn.1, hn.2⟩
  | dequeue t => simp only [apply]; split <;> first | exact hn | exact ⟨hn.1, noRec_nonstep _ _ (by intro u e; cases e) hn.2⟩
  | len t => simp only [apply]; split <;> exact hn
  | ack t => simp only [apply]; split <;> exact hn

/-- in every reachable state: slot conservation, and no producer of either ring ever found it full -/
theorem reachable_norec {n : Nat} (hn : 0 < n) {s : St} (h : Reachable n s) : ZInv s ∧ NoRec s.free ∧ NoRec s.q := by
  obtain ⟨as, rfl⟩ := h
  suffices ∀ s0, (ZInv s0 ∧ NoRec s0.free ∧ NoRec s0.q) → (ZInv (run s0 as) ∧ NoRec (run s0 as).free ∧ NoRec (run s0 as).q) from
    this _ ⟨zinv_init n hn, by intro u v k rsv w; simp [init, fullRing, Ring.init], by intro u v k rsv w; simp [init, Ring.init]⟩
  induction as with
  | nil => intro s0 h0; exact h0
  | cons a as ih => intro s0 h0; exact ih _ ⟨zinv_apply s0 a h0.1, norec_apply s0 a h0.1 h0.2⟩

end Mutiny.ZeroCopy
