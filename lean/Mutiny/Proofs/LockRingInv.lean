import Mutiny.Model.LockRing

/-!
# Inductive invariant of the `LockRing` model (`FullSyncMove` under one spin flag)
-/

namespace Mutiny.LockRing

/-! ## projection lemmas -/

@[simp, grind =] theorem thr_setThr (s : St) (t : Nat) (l : Loc) (u : Nat) :
    (setThr s t l).thr u = if u = t then l else s.thr u := rfl
@[simp, grind =] theorem N_setThr (s : St) (t : Nat) (l : Loc) : (setThr s t l).N = s.N := rfl
@[simp, grind =] theorem head_setThr (s : St) (t : Nat) (l : Loc) : (setThr s t l).head = s.head := rfl
@[simp, grind =] theorem tail_setThr (s : St) (t : Nat) (l : Loc) : (setThr s t l).tail = s.tail := rfl
@[simp, grind =] theorem locked_setThr (s : St) (t : Nat) (l : Loc) : (setThr s t l).locked = s.locked := rfl
@[simp, grind =] theorem buf_setThr (s : St) (t : Nat) (l : Loc) : (setThr s t l).buf = s.buf := rfl
@[simp, grind =] theorem accepted_setThr (s : St) (t : Nat) (l : Loc) : (setThr s t l).accepted = s.accepted := rfl
@[simp, grind =] theorem delivered_setThr (s : St) (t : Nat) (l : Loc) : (setThr s t l).delivered = s.delivered := rfl

@[simp, grind =] theorem thr_setBuf (s : St) (i v : Nat) : (setBuf s i v).thr = s.thr := rfl
@[simp, grind =] theorem N_setBuf (s : St) (i v : Nat) : (setBuf s i v).N = s.N := rfl
@[simp, grind =] theorem head_setBuf (s : St) (i v : Nat) : (setBuf s i v).head = s.head := rfl
@[simp, grind =] theorem tail_setBuf (s : St) (i v : Nat) : (setBuf s i v).tail = s.tail := rfl
@[simp, grind =] theorem locked_setBuf (s : St) (i v : Nat) : (setBuf s i v).locked = s.locked := rfl
@[simp, grind =] theorem buf_setBuf (s : St) (i v j : Nat) :
    (setBuf s i v).buf j = if j = i then v else s.buf j := rfl
@[simp, grind =] theorem accepted_setBuf (s : St) (i v : Nat) : (setBuf s i v).accepted = s.accepted := rfl
@[simp, grind =] theorem delivered_setBuf (s : St) (i v : Nat) : (setBuf s i v).delivered = s.delivered := rfl

@[simp] theorem abs_setThr (s : St) (t : Nat) (l : Loc) : abs (setThr s t l) = abs s := rfl
@[simp] theorem abs_setBuf (s : St) (i v : Nat) : abs (setBuf s i v) = abs s := rfl

/-! ## arithmetic -/

/-- Slot `y % N` is distinct from the slots of `[a, y)` when `y - a < N`. -/
theorem mod_ne_of_window {a x y N : Nat} (h1 : a ≤ x) (h2 : x < y) (h3 : y < a + N) : x % N ≠ y % N := by
  intro h
  have h0 : (y - x) % N = 0 := Nat.sub_mod_eq_zero_of_mod_eq h.symm
  have hd : N ∣ y - x := Nat.dvd_of_mod_eq_zero h0
  have := Nat.le_of_dvd (by omega) hd
  omega

/-! ## the invariant -/

/-- Program points at which the thread holds the spin flag. -/
def holder : Loc → Prop
  | .pCheck _ | .pWrite _ _ | .pPublish _ _ | .cLenT | .cLen | .cRead | .cRelease _ => True
  | _ => False

instance : DecidablePred holder := fun l => by
  cases l <;> simp only [holder] <;> infer_instance

structure Inv (s : St) : Prop where
  npos    : 0 < s.N
  ht      : s.head ≤ s.tail
  cap     : s.tail ≤ s.head + s.N
  lockIff : s.locked = true ↔ ∃ t, holder (s.thr t)
  mutex   : ∀ t u, holder (s.thr t) → holder (s.thr u) → t = u
  accLen  : s.accepted.length = s.tail
  bufAcc  : ∀ k, s.head ≤ k → k < s.tail → s.accepted[k]? = some (s.buf (k % s.N))
  pW      : ∀ t v len, s.thr t = .pWrite v len → s.tail - s.head < s.N ∧ len = s.tail - s.head + 1
  pP      : ∀ t v len, s.thr t = .pPublish v len →
              s.tail - s.head < s.N ∧ s.buf (s.tail % s.N) = v ∧ len = s.tail - s.head + 1
  cR      : ∀ t, s.thr t = .cRead → s.head < s.tail
  cRel    : ∀ t v, s.thr t = .cRelease v → s.head < s.tail ∧ s.accepted[s.head]? = some v
  delIdx  : s.delivered.map (·.2.1) = List.range s.head
  delVal  : s.delivered.map (·.2.2) = s.accepted.take s.head

theorem inv_init (n : Nat) (h : 0 < n) : Inv (init n) := by
  constructor <;> simp [init, holder]
  exact h

/-- Moving a thread between two non-holder points (nothing else changes) preserves `Inv`. -/
theorem inv_setThr_free (s : St) (t : Nat) (l : Loc) (h : Inv s)
    (h1 : ¬ holder (s.thr t)) (h2 : ¬ holder l) : Inv (setThr s t l) := by
  obtain ⟨npos, hht, cap, lockIff, mutex, accLen, bufAcc, pW, pP, cR, cRel, delIdx, delVal⟩ := h
  constructor <;> simp only [thr_setThr, N_setThr, head_setThr, tail_setThr, locked_setThr, buf_setThr,
    accepted_setThr, delivered_setThr]
  all_goals (first | assumption | skip)
  · rw [lockIff]
    constructor
    · rintro ⟨u, hu⟩; exact ⟨u, by grind⟩
    · rintro ⟨u, hu⟩; exact ⟨u, by grind⟩
  · intro a b ha hb; exact mutex a b (by grind) (by grind)
  · intro u v len hu; exact pW u v len (by grind [holder])
  · intro u v len hu; exact pP u v len (by grind [holder])
  · intro u hu; exact cR u (by grind [holder])
  · intro u v hu; exact cRel u v (by grind [holder])

/-- Acquiring the free flag (to `pCheck` or `cLenT`). -/
theorem inv_acquire (s : St) (t : Nat) (l : Loc) (h : Inv s) (hl : s.locked = false)
    (h2 : (∃ v, l = .pCheck v) ∨ l = .cLenT) : Inv (setThr { s with locked := true } t l) := by
  obtain ⟨npos, hht, cap, lockIff, mutex, accLen, bufAcc, pW, pP, cR, cRel, delIdx, delVal⟩ := h
  have nobody : ∀ u, ¬ holder (s.thr u) := fun u hu => by
    have := lockIff.2 ⟨u, hu⟩; simp [hl] at this
  have hl2 : holder l := by rcases h2 with ⟨v, rfl⟩ | rfl <;> simp [holder]
  constructor <;> simp only [thr_setThr, N_setThr, head_setThr, tail_setThr, locked_setThr, buf_setThr,
    accepted_setThr, delivered_setThr]
  all_goals (first | assumption | skip)
  · simp only [true_iff]; exact ⟨t, by simp [hl2]⟩
  · intro a b ha hb
    have := nobody a; have := nobody b; grind
  · intro u v len hu; exact pW u v len (by grind)
  · intro u v len hu; exact pP u v len (by grind)
  · intro u hu; exact cR u (by grind)
  · intro u v hu; exact cRel u v (by grind)

/-- Releasing the flag without touching the ring (full / empty paths). -/
theorem inv_release (s : St) (t : Nat) (l : Loc) (h : Inv s)
    (h1 : holder (s.thr t)) (h2 : ¬ holder l) : Inv (setThr { s with locked := false } t l) := by
  obtain ⟨npos, hht, cap, lockIff, mutex, accLen, bufAcc, pW, pP, cR, cRel, delIdx, delVal⟩ := h
  have only : ∀ u, holder (s.thr u) → u = t := fun u hu => mutex u t hu h1
  constructor <;> simp only [thr_setThr, N_setThr, head_setThr, tail_setThr, locked_setThr, buf_setThr,
    accepted_setThr, delivered_setThr]
  all_goals (first | assumption | skip)
  · simp only [Bool.false_eq_true, false_iff, not_exists]
    intro u; have := only u; grind
  · intro a b ha hb; have := only a; have := only b; grind
  · intro u v len hu; exact pW u v len (by grind [holder])
  · intro u v len hu; exact pP u v len (by grind [holder])
  · intro u hu; exact cR u (by grind [holder])
  · intro u v hu; exact cRel u v (by grind [holder])

/-! ## one lemma per program point -/

theorem step_inv_idle (s : St) (t : Nat) (h : Inv s) (ht : s.thr t = .idle) : Inv (step s t) := by
  simp only [step, ht]; exact h

theorem step_inv_done (s : St) (t : Nat) (r : Res) (h : Inv s) (ht : s.thr t = .done r) : Inv (step s t) := by
  simp only [step, ht]; exact h

theorem step_inv_pLock (s : St) (t v : Nat) (h : Inv s) (ht : s.thr t = .pLock v) : Inv (step s t) := by
  simp only [step, ht]
  split
  · exact inv_setThr_free s t _ h (by simp [ht, holder]) (by simp [holder])
  · exact inv_acquire s t _ h (by simpa using ‹¬ s.locked = true›) (Or.inl ⟨v, rfl⟩)

theorem step_inv_pSpin (s : St) (t v : Nat) (h : Inv s) (ht : s.thr t = .pSpin v) : Inv (step s t) := by
  simp only [step, ht]
  split
  · exact inv_setThr_free s t _ h (by simp [ht, holder]) (by simp [holder])
  · exact inv_acquire s t _ h (by simpa using ‹¬ s.locked = true›) (Or.inl ⟨v, rfl⟩)

theorem step_inv_cLock (s : St) (t : Nat) (h : Inv s) (ht : s.thr t = .cLock) : Inv (step s t) := by
  simp only [step, ht]
  split
  · exact inv_setThr_free s t _ h (by simp [ht, holder]) (by simp [holder])
  · exact inv_acquire s t _ h (by simpa using ‹¬ s.locked = true›) (Or.inr rfl)

theorem step_inv_cSpin (s : St) (t : Nat) (h : Inv s) (ht : s.thr t = .cSpin) : Inv (step s t) := by
  simp only [step, ht]
  split
  · exact inv_setThr_free s t _ h (by simp [ht, holder]) (by simp [holder])
  · exact inv_acquire s t _ h (by simpa using ‹¬ s.locked = true›) (Or.inr rfl)

theorem step_inv_pFullUnlocked (s : St) (t : Nat) (h : Inv s) (ht : s.thr t = .pFullUnlocked) :
    Inv (step s t) := by
  simp only [step, ht]; exact inv_setThr_free s t _ h (by simp [ht, holder]) (by simp [holder])

theorem step_inv_pUnlocked (s : St) (t len : Nat) (h : Inv s) (ht : s.thr t = .pUnlocked len) :
    Inv (step s t) := by
  simp only [step, ht]; exact inv_setThr_free s t _ h (by simp [ht, holder]) (by simp [holder])

theorem step_inv_cEmptyUnlocked (s : St) (t : Nat) (h : Inv s) (ht : s.thr t = .cEmptyUnlocked) :
    Inv (step s t) := by
  simp only [step, ht]; exact inv_setThr_free s t _ h (by simp [ht, holder]) (by simp [holder])

theorem step_inv_cUnlocked (s : St) (t v : Nat) (h : Inv s) (ht : s.thr t = .cUnlocked v) :
    Inv (step s t) := by
  simp only [step, ht]; exact inv_setThr_free s t _ h (by simp [ht, holder]) (by simp [holder])

theorem step_inv_lLen (s : St) (t : Nat) (h : Inv s) (ht : s.thr t = .lLen) : Inv (step s t) := by
  simp only [step, ht]; exact inv_setThr_free s t _ h (by simp [ht, holder]) (by simp [holder])

theorem step_inv_lLenH (s : St) (t tl : Nat) (h : Inv s) (ht : s.thr t = .lLenH tl) : Inv (step s t) := by
  simp only [step, ht]; exact inv_setThr_free s t _ h (by simp [ht, holder]) (by simp [holder])

/-- Moving the holder to another holder point; obligations about the new point are passed explicitly. -/
theorem inv_holder_move (s : St) (t : Nat) (l : Loc) (h : Inv s)
    (h1 : holder (s.thr t)) (h2 : holder l)
    (hW : ∀ v len, l = .pWrite v len → s.tail - s.head < s.N ∧ len = s.tail - s.head + 1)
    (hP : ∀ v len, l = .pPublish v len →
            s.tail - s.head < s.N ∧ s.buf (s.tail % s.N) = v ∧ len = s.tail - s.head + 1)
    (hR : l = .cRead → s.head < s.tail)
    (hRel : ∀ v, l = .cRelease v → s.head < s.tail ∧ s.accepted[s.head]? = some v) :
    Inv (setThr s t l) := by
  obtain ⟨npos, hht, cap, lockIff, mutex, accLen, bufAcc, pW, pP, cR, cRel, delIdx, delVal⟩ := h
  have only : ∀ u, holder (s.thr u) → u = t := fun u hu => mutex u t hu h1
  constructor <;> simp only [thr_setThr, N_setThr, head_setThr, tail_setThr, locked_setThr, buf_setThr,
    accepted_setThr, delivered_setThr]
  all_goals (first | assumption | skip)
  · rw [lockIff]
    constructor
    · rintro ⟨u, hu⟩; exact ⟨t, by simp [h2]⟩
    · rintro ⟨u, hu⟩; exact ⟨t, h1⟩
  · intro a b ha hb; have := only a; have := only b; grind
  · intro u v len hu
    by_cases hut : u = t
    · subst hut; simp only [if_true] at hu; exact hW v len hu
    · simp only [hut, if_false] at hu; exact pW u v len hu
  · intro u v len hu
    by_cases hut : u = t
    · subst hut; simp only [if_true] at hu; exact hP v len hu
    · simp only [hut, if_false] at hu; exact pP u v len hu
  · intro u hu
    by_cases hut : u = t
    · subst hut; simp only [if_true] at hu; exact hR hu
    · simp only [hut, if_false] at hu; exact cR u hu
  · intro u v hu
    by_cases hut : u = t
    · subst hut; simp only [if_true] at hu; exact hRel v hu
    · simp only [hut, if_false] at hu; exact cRel u v hu

theorem step_inv_pCheck (s : St) (t v : Nat) (h : Inv s) (ht : s.thr t = .pCheck v) : Inv (step s t) := by
  simp only [step, ht]
  split
  · apply inv_holder_move s t _ h (by simp [ht, holder]) (by simp [holder]) <;> grind
  · exact inv_release s t _ h (by simp [ht, holder]) (by simp [holder])

theorem step_inv_cLenT (s : St) (t : Nat) (h : Inv s) (ht : s.thr t = .cLenT) : Inv (step s t) := by
  simp only [step, ht]
  apply inv_holder_move s t _ h (by simp [ht, holder]) (by simp [holder]) <;> grind

theorem step_inv_cLen (s : St) (t : Nat) (h : Inv s) (ht : s.thr t = .cLen) : Inv (step s t) := by
  simp only [step, ht]
  split
  · apply inv_holder_move s t _ h (by simp [ht, holder]) (by simp [holder]) <;> grind
  · exact inv_release s t _ h (by simp [ht, holder]) (by simp [holder])

theorem step_inv_cRead (s : St) (t : Nat) (h : Inv s) (ht : s.thr t = .cRead) : Inv (step s t) := by
  simp only [step, ht]
  have hlt := h.cR t ht
  have hb := h.bufAcc s.head (Nat.le_refl _) hlt
  apply inv_holder_move s t _ h (by simp [ht, holder]) (by simp [holder]) <;> grind

theorem step_inv_pWrite (s : St) (t v len : Nat) (h : Inv s) (ht : s.thr t = .pWrite v len) :
    Inv (step s t) := by
  simp only [step, ht]
  obtain ⟨hlt, hlen⟩ := h.pW t v len ht
  have h' : Inv (setBuf s (s.tail % s.N) v) := by
    obtain ⟨npos, hht, cap, lockIff, mutex, accLen, bufAcc, pW, pP, cR, cRel, delIdx, delVal⟩ := h
    constructor <;> simp only [thr_setBuf, N_setBuf, head_setBuf, tail_setBuf, locked_setBuf, buf_setBuf,
      accepted_setBuf, delivered_setBuf]
    all_goals (first | assumption | skip)
    · intro k hk1 hk2
      have := mod_ne_of_window (N := s.N) hk1 hk2 (by omega)
      simp only [this, if_false]; exact bufAcc k hk1 hk2
    · intro u w l hu
      have : u = t := mutex u t (by simp [hu, holder]) (by simp [ht, holder])
      subst this; rw [ht] at hu; cases hu
  apply inv_holder_move _ t _ h' (by simp [ht, holder]) (by simp [holder]) <;>
    simp only [N_setBuf, head_setBuf, tail_setBuf, buf_setBuf, accepted_setBuf] <;> grind

theorem step_inv_pPublish (s : St) (t v len : Nat) (h : Inv s) (ht : s.thr t = .pPublish v len) :
    Inv (step s t) := by
  simp only [step, ht]
  obtain ⟨npos, hht, cap, lockIff, mutex, accLen, bufAcc, pW, pP, cR, cRel, delIdx, delVal⟩ := h
  obtain ⟨hlt, hbuf, hlen⟩ := pP t v len ht
  have h1 : holder (s.thr t) := by simp [ht, holder]
  have only : ∀ u, holder (s.thr u) → u = t := fun u hu => mutex u t hu h1
  constructor <;> simp only [thr_setThr, N_setThr, head_setThr, tail_setThr, locked_setThr, buf_setThr,
    accepted_setThr, delivered_setThr]
  all_goals (first | assumption | omega | skip)
  case lockIff =>
    simp only [Bool.false_eq_true, false_iff, not_exists]
    intro u; have := only u; grind [holder]
  case mutex => intro a b ha hb; have := only a; have := only b; grind [holder]
  case bufAcc =>
    intro k hk1 hk2
    by_cases hk : k < s.tail
    · rw [List.getElem?_append_left (by omega)]; exact bufAcc k hk1 hk
    · have : k = s.tail := by omega
      subst this
      rw [List.getElem?_append_right (by omega)]
      simp [accLen, hbuf]
  case pW => intro u w l hu; have := only u; grind [holder]
  case pP => intro u w l hu; have := only u; grind [holder]
  case accLen => simp [accLen]
  case cRel => intro u w hu; have := only u; grind [holder]
  case delVal => rw [delVal, List.take_append_of_le_length (by omega)]

theorem step_inv_cRelease (s : St) (t v : Nat) (h : Inv s) (ht : s.thr t = .cRelease v) :
    Inv (step s t) := by
  simp only [step, ht]
  obtain ⟨npos, hht, cap, lockIff, mutex, accLen, bufAcc, pW, pP, cR, cRel, delIdx, delVal⟩ := h
  obtain ⟨hlt, hacc⟩ := cRel t v ht
  have h1 : holder (s.thr t) := by simp [ht, holder]
  have only : ∀ u, holder (s.thr u) → u = t := fun u hu => mutex u t hu h1
  constructor <;> simp only [thr_setThr, N_setThr, head_setThr, tail_setThr, locked_setThr, buf_setThr,
    accepted_setThr, delivered_setThr]
  all_goals (first | assumption | omega | skip)
  · simp only [Bool.false_eq_true, false_iff, not_exists]
    intro u; have := only u; grind [holder]
  · intro a b ha hb; have := only a; have := only b; grind [holder]
  · intro k hk1 hk2; exact bufAcc k (by omega) hk2
  · intro u w l hu; have := only u; grind [holder]
  · intro u w l hu; have := only u; grind [holder]
  · intro u hu; have := only u; grind [holder]
  · intro u w hu; have := only u; grind [holder]
  · simp [delIdx, List.range_succ]
  · simp [delVal, List.take_add_one, hacc]

theorem inv_step (s : St) (t : Nat) (h : Inv s) : Inv (step s t) := by
  cases ht : s.thr t with
  | idle => exact step_inv_idle s t h ht
  | done r => exact step_inv_done s t r h ht
  | pLock v => exact step_inv_pLock s t v h ht
  | pSpin v => exact step_inv_pSpin s t v h ht
  | pCheck v => exact step_inv_pCheck s t v h ht
  | pFullUnlocked => exact step_inv_pFullUnlocked s t h ht
  | pWrite v len => exact step_inv_pWrite s t v len h ht
  | pPublish v len => exact step_inv_pPublish s t v len h ht
  | pUnlocked len => exact step_inv_pUnlocked s t len h ht
  | cLock => exact step_inv_cLock s t h ht
  | cSpin => exact step_inv_cSpin s t h ht
  | cLenT => exact step_inv_cLenT s t h ht
  | cLen => exact step_inv_cLen s t h ht
  | cEmptyUnlocked => exact step_inv_cEmptyUnlocked s t h ht
  | cRead => exact step_inv_cRead s t h ht
  | cRelease v => exact step_inv_cRelease s t v h ht
  | cUnlocked v => exact step_inv_cUnlocked s t v h ht
  | lLen => exact step_inv_lLen s t h ht
  | lLenH tl => exact step_inv_lLenH s t tl h ht

theorem inv_apply (s : St) (a : Act) (h : Inv s) : Inv (apply s a) := by
  cases a with
  | send t v =>
    simp only [apply]; split
    · exact inv_setThr_free s t _ h (by simp [*, holder]) (by simp [holder])
    · exact h
  | recv t =>
    simp only [apply]; split
    · exact inv_setThr_free s t _ h (by simp [*, holder]) (by simp [holder])
    · exact h
  | len t =>
    simp only [apply]; split
    · exact inv_setThr_free s t _ h (by simp [*, holder]) (by simp [holder])
    · exact h
  | step t => exact inv_step s t h
  | ack t =>
    simp only [apply]; split
    · exact inv_setThr_free s t _ h (by simp [*, holder]) (by simp [holder])
    · exact h

theorem inv_run (s : St) (as : List Act) (h : Inv s) : Inv (run s as) := by
  induction as generalizing s with
  | nil => exact h
  | cons a as ih => exact ih (apply s a) (inv_apply s a h)

theorem reachable_inv {n : Nat} {s : St} (hn : 0 < n) (h : Reachable n s) : Inv s := by
  obtain ⟨as, rfl⟩ := h
  exact inv_run _ as (inv_init n hn)

end Mutiny.LockRing
