import Mutiny.Model.U32

/-!
# Lemmas relating the `u32` arithmetic of the rings (`Mutiny/Model/U32.lean`) to free-running `Nat` counters
-/

namespace Mutiny.U32

theorem wrap_lt (x : Nat) : wrap x < M32 := Nat.mod_lt _ (by decide)

theorem wsub_lt (a b : Nat) : wsub a b < M32 := by unfold wsub; exact Nat.mod_lt _ (by decide)

/-- wrapping subtraction of the images of two counters less than `2^32` apart is their true difference -/
theorem wsub_wrap (a b : Nat) (h1 : b ≤ a) (h2 : a - b < M32) : wsub (wrap a) (wrap b) = a - b := by
  unfold wsub wrap; omega

/-- … and in the other direction it is `2^32 -` the difference (or `0`) -/
theorem wsub_wrap_neg (a b : Nat) (h1 : a < b) (h2 : b - a < M32) : wsub (wrap a) (wrap b) = M32 - (b - a) := by
  unfold wsub wrap; omega

theorem wadd_wrap_one (a : Nat) : wadd (wrap a) 1 = wrap (a + 1) := by
  unfold wadd wrap; omega

theorem wrap_eq_iff (a b : Nat) (h1 : a ≤ b) (h2 : b < a + M32) : wrap a = wrap b ↔ a = b := by
  unfold wrap; omega

/-- `wsub (wrap e) 1 = wrap (e - 1)` for `e ≥ 1` (the repaired cancel) -/
theorem wsub_wrap_one (e : Nat) (h : 1 ≤ e) : wsub (wrap e) 1 = wrap (e - 1) := by
  unfold wsub wrap; omega

/-- the CAS `enq32 == g32 + 1` of the cancel is a CAS `wrap (e - 1) == g32` -/
theorem cas_succ_iff (e g : Nat) (h : 1 ≤ e) (hg : g < M32) : wrap e = wadd g 1 ↔ wrap (e - 1) = g := by
  unfold wadd wrap; omega

theorem mod_wrap (x N : Nat) (hN : M32 % N = 0) : wrap x % N = x % N :=
  Nat.mod_mod_of_dvd x (Nat.dvd_of_mod_eq_zero hN)

/-- the lap arithmetic cannot overflow: `(x / N) * N + N ≤ 2^32` for `x < 2^32`, `N ∣ 2^32` -/
theorem lap_bound (x N : Nat) (hx : x < M32) (_hpos : 0 < N) (hN : M32 % N = 0) : (x / N) * N + N ≤ M32 := by
  have hM : M32 = (M32 / N) * N := (Nat.div_mul_cancel (Nat.dvd_of_mod_eq_zero hN)).symm
  have hlt : x / N < M32 / N := Nat.div_lt_of_lt_mul (by rw [Nat.mul_comm, ← hM]; exact hx)
  have : (x / N + 1) * N ≤ (M32 / N) * N := Nat.mul_le_mul_right N hlt
  rw [Nat.add_mul, Nat.one_mul, ← hM] at this
  exact this

theorem cmul_lap (x N : Nat) (hx : x < M32) (hpos : 0 < N) (hN : M32 % N = 0) :
    cmul (x / N) N = some ((x / N) * N) := by
  have := lap_bound x N hx hpos hN
  unfold cmul; rw [if_pos (by omega)]

theorem cadd_lap (idx x N : Nat) (hx : x < M32) (hidx : idx < N) (hN : M32 % N = 0) :
    cadd idx ((x / N) * N) = some (idx + (x / N) * N) := by
  have := lap_bound x N hx (by omega) hN
  unfold cadd; rw [if_pos (by omega)]

theorem reguess_div (idx q N : Nat) (h : idx < N) : (idx + q * N) / N = q := by
  have hN : 0 < N := by omega
  rw [Nat.add_mul_div_right _ _ hN, Nat.div_eq_of_lt h, Nat.zero_add]

theorem reguess_eq_iff (idx x N : Nat) (_h : idx < N) : x = idx + (x / N) * N ↔ x % N = idx := by
  have := Nat.div_add_mod x N
  rw [Nat.mul_comm] at this
  constructor <;> intro e <;> omega

/-! ## one iteration of the re-guess loops

Kernel note: never let a definitional unfolding meet `wsub e 1` with a symbolic `e` (`e + 2^32` makes the kernel's unary
`Nat.ble` run 2^32 steps); every lemma below first rewrites `wsub e 1` to an abstract `x`. -/

theorem pubReguess32_pos (idx g t N : Nat) (ht : t < M32) (hidx : idx < N) (hN : M32 % N = 0) (hc : t / N > g / N) :
    pubReguess32 idx g t N = some (some (idx + (t / N) * N)) := by
  unfold pubReguess32
  rw [if_pos hc, cmul_lap t N ht (by omega) hN]
  simp only [cadd_lap idx t N ht hidx hN]

theorem pubReguess32_neg (idx g t N : Nat) (hc : ¬ t / N > g / N) : pubReguess32 idx g t N = some none := by
  unfold pubReguess32
  rw [if_neg hc]

theorem canReguess32_pos (idx g e N x : Nat) (hw : wsub e 1 = x) (hx : x < M32) (hidx : idx < N) (hN : M32 % N = 0)
    (hc : x / N > g / N) : canReguess32 idx g e N = some (some (idx + (x / N) * N)) := by
  unfold canReguess32
  rw [hw]
  dsimp only
  rw [if_pos hc, cmul_lap x N hx (by omega) hN]
  simp only [cadd_lap idx x N hx hidx hN]

theorem canReguess32_neg (idx g e N x : Nat) (hw : wsub e 1 = x) (hc : ¬ x / N > g / N) :
    canReguess32 idx g e N = some none := by
  unfold canReguess32
  rw [hw]
  dsimp only
  rw [if_neg hc]

/-! ## one iteration of the whole calls (for an arbitrary re-guess function in the cancel case) -/

theorem pubIdx32_hit (idx t N fuel : Nat) : pubIdx32 idx t N (fuel + 1) t = some (some t) := by
  rw [pubIdx32, if_pos rfl]

theorem pubIdx32_giveup (idx t N fuel g : Nat) (h : t ≠ g) (hr : pubReguess32 idx g t N = some none) :
    pubIdx32 idx t N (fuel + 1) g = some none := by
  rw [pubIdx32, if_neg h, hr]

theorem pubIdx32_retry (idx t N fuel g g' : Nat) (h : t ≠ g) (hr : pubReguess32 idx g t N = some (some g')) :
    pubIdx32 idx t N (fuel + 1) g = pubIdx32 idx t N fuel g' := by
  rw [pubIdx32, if_neg h, hr]

theorem canIdx32_hit (r : Nat → Nat → Nat → Nat → Option (Option Nat)) (idx e N fuel g : Nat) (h : e = wadd g 1) :
    canIdx32 r idx e N (fuel + 1) g = some (some g) := by
  rw [canIdx32, if_pos h]

theorem canIdx32_giveup (r : Nat → Nat → Nat → Nat → Option (Option Nat)) (idx e N fuel g : Nat) (h : e ≠ wadd g 1)
    (hr : r idx g e N = some none) : canIdx32 r idx e N (fuel + 1) g = some none := by
  rw [canIdx32, if_neg h, hr]

theorem canIdx32_panic (r : Nat → Nat → Nat → Nat → Option (Option Nat)) (idx e N fuel g : Nat) (h : e ≠ wadd g 1)
    (hr : r idx g e N = none) : canIdx32 r idx e N (fuel + 1) g = none := by
  rw [canIdx32, if_neg h, hr]

theorem canIdx32_retry (r : Nat → Nat → Nat → Nat → Option (Option Nat)) (idx e N fuel g g' : Nat) (h : e ≠ wadd g 1)
    (hr : r idx g e N = some (some g')) : canIdx32 r idx e N (fuel + 1) g = canIdx32 r idx e N fuel g' := by
  rw [canIdx32, if_neg h, hr]

/-! ## the whole calls: try `idx`, re-guess once into the lap of the counter, give up -/

/-- the common result: CAS on the counter value itself iff its index is `idx` -/
def guess2 (idx x N : Nat) : Option (Option Nat) := if x % N = idx then some (some x) else some none

theorem pubIdx32_eq (idx t N : Nat) (ht : t < M32) (hidx : idx < N) (hN : M32 % N = 0) :
    pubIdx32 idx t N 3 idx = guess2 idx t N := by
  have hd0 : idx / N = 0 := Nat.div_eq_of_lt hidx
  have hre := reguess_eq_iff idx t N hidx
  have hdiv := reguess_div idx (t / N) N hidx
  unfold guess2
  by_cases h1 : t = idx
  · have : t % N = idx := by rw [h1]; exact Nat.mod_eq_of_lt hidx
    rw [if_pos this, ← h1]; exact pubIdx32_hit t t N 2
  · by_cases hlap : t / N > idx / N
    · rw [pubIdx32_retry idx t N 2 idx _ h1 (pubReguess32_pos idx idx t N ht hidx hN hlap)]
      by_cases h2 : t = idx + t / N * N
      · rw [if_pos (hre.mp h2), ← h2]; exact pubIdx32_hit idx t N 1
      · rw [if_neg (fun e => h2 (hre.mpr e))]
        exact pubIdx32_giveup idx t N 1 _ h2 (pubReguess32_neg idx _ t N (by rw [hdiv]; exact Nat.lt_irrefl _))
    · have : ¬ t % N = idx := by
        intro e
        have h0 : t / N = 0 := by rw [hd0] at hlap; exact Nat.eq_zero_of_not_pos hlap
        have := Nat.div_add_mod t N
        rw [h0, Nat.mul_zero] at this; omega
      rw [if_neg this]
      exact pubIdx32_giveup idx t N 2 idx h1 (pubReguess32_neg idx idx t N hlap)

/-- the CAS `enq32 == g32 + 1` (wrapping) of the cancel is the CAS `enq32 - 1 == g32` (wrapping) -/
theorem cas_succ_iff' (e g : Nat) (he : e < M32) (hg : g < M32) : e = wadd g 1 ↔ wsub e 1 = g := by
  unfold wadd wsub; omega

theorem canIdx32_eq (idx e N x : Nat) (he : e < M32) (hw : wsub e 1 = x) (hidx : idx < N) (hN : M32 % N = 0) :
    canIdx32 canReguess32 idx e N 3 idx = guess2 idx x N := by
  have hx : x < M32 := hw ▸ wsub_lt e 1
  have hM : N ≤ M32 := Nat.le_of_dvd (by decide) (Nat.dvd_of_mod_eq_zero hN)
  have hd0 : idx / N = 0 := Nat.div_eq_of_lt hidx
  have hre := reguess_eq_iff idx x N hidx
  have hdiv := reguess_div idx (x / N) N hidx
  have hlb := lap_bound x N hx (by omega) hN
  have cas : ∀ g, g < M32 → (e = wadd g 1 ↔ x = g) := fun g hg => hw ▸ cas_succ_iff' e g he hg
  unfold guess2
  by_cases h1 : x = idx
  · have : x % N = idx := by rw [h1]; exact Nat.mod_eq_of_lt hidx
    rw [if_pos this, h1]
    exact canIdx32_hit canReguess32 idx e N 2 idx ((cas idx (by omega)).mpr h1)
  · have h1' : e ≠ wadd idx 1 := fun h => h1 ((cas idx (by omega)).mp h)
    by_cases hlap : x / N > idx / N
    · rw [canIdx32_retry canReguess32 idx e N 2 idx _ h1' (canReguess32_pos idx idx e N x hw hx hidx hN hlap)]
      by_cases h2 : x = idx + x / N * N
      · rw [if_pos (hre.mp h2), ← h2]
        exact canIdx32_hit canReguess32 idx e N 1 x ((cas x hx).mpr rfl)
      · rw [if_neg (fun em => h2 (hre.mpr em))]
        have h2' : e ≠ wadd (idx + x / N * N) 1 := fun h => h2 ((cas _ (by omega)).mp h)
        exact canIdx32_giveup canReguess32 idx e N 1 _ h2'
          (canReguess32_neg idx _ e N x hw (by rw [hdiv]; exact Nat.lt_irrefl _))
    · have : ¬ x % N = idx := by
        intro em
        have h0 : x / N = 0 := by rw [hd0] at hlap; exact Nat.eq_zero_of_not_pos hlap
        have := Nat.div_add_mod x N
        rw [h0, Nat.mul_zero] at this; omega
      rw [if_neg this]
      exact canIdx32_giveup canReguess32 idx e N 2 idx h1' (canReguess32_neg idx idx e N x hw hlap)

/-- two counters inside one window of `N` with the same index are equal -/
theorem eq_of_mod_eq_window (a x N : Nat) (h1 : a ≤ x) (h2 : x < a + N) (h : a % N = x % N) : a = x := by
  have hd : (x - a) % N = 0 := Nat.sub_mod_eq_zero_of_mod_eq h.symm
  have hlt : x - a < N := by omega
  rw [Nat.mod_eq_of_lt hlt] at hd
  omega

theorem posI32_iff (x : Nat) : posI32 x = true ↔ 0 < x ∧ x < 2147483648 := by
  simp [posI32]

end Mutiny.U32
