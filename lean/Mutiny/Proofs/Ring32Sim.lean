import Mutiny.Proofs.RingInv
import Mutiny.Proofs.U32
import Mutiny.Model.Ring32
import Mutiny.Proofs.Pigeon

/-!
# `Ring32` (u32 arithmetic of the source) is the image of `Ring` (free-running naturals) — property C15

`sim_step`: from the image of any state that satisfies the ring invariant `Inv` and the window condition `Win`, one step
of the `u32` machine lands exactly on the image of the `Nat` machine's step, and never panics.
-/

namespace Mutiny.Ring32
open Mutiny.Ring Mutiny.U32

theorem St.ext' {a b : St} (hN : a.N = b.N) (hh : a.head = b.head) (ht : a.tail = b.tail) (he : a.enqTail = b.enqTail)
    (hd : a.deqHead = b.deqHead) (hb : ∀ i, a.buf i = b.buf i) (hthr : ∀ u, a.thr u = b.thr u)
    (hacc : a.accepted = b.accepted) (hdel : a.delivered = b.delivered) : a = b := by
  cases a; cases b
  simp only at hN hh ht he hd hacc hdel
  have hb' := funext hb
  have ht' := funext hthr
  simp only at hb' ht'
  subst hN hh ht he hd hacc hdel hb' ht'
  rfl

/-- the window condition: what "fewer than 2^31 claims outstanding, `N ≤ 2^31`, `N` a power of two" gives, plus the absence
    of a 2^32-event ABA between the two loads of the emptiness re-check -/
structure Win (s : St) : Prop where
  hN : M32 % s.N = 0
  hNs : s.N ≤ 2147483647
  hE : s.enqTail < s.head + 2147483648
  hD : s.deqHead ≤ s.head + 2147483648
  noABA : ∀ t h w, s.thr t = .cChkTail h w → s.tail < h + M32
  /-- fewer than 2^31 events were consumed past a producer's own between its publication and its length measurement
      (otherwise the `as i32` of `len_after_publishing` turns the negative distance into a large positive one) -/
  noLag : ∀ t id, s.thr t = .pLen id → s.head ≤ id + 1 + 2147483648

@[simp] theorem img_N (s : St) : (img s).N = s.N := rfl
@[simp] theorem img_head (s : St) : (img s).head = wrap s.head := rfl
@[simp] theorem img_tail (s : St) : (img s).tail = wrap s.tail := rfl
@[simp] theorem img_enq (s : St) : (img s).enqTail = wrap s.enqTail := rfl
@[simp] theorem img_deq (s : St) : (img s).deqHead = wrap s.deqHead := rfl
@[simp] theorem img_buf (s : St) : (img s).buf = s.buf := rfl
@[simp] theorem img_thr (s : St) (u : Nat) : (img s).thr u = imgLoc (s.thr u) := rfl
@[simp] theorem img_acc (s : St) : (img s).accepted = s.accepted := rfl
@[simp] theorem img_del (s : St) : (img s).delivered = s.delivered.map fun x => (x.1, wrap x.2.1, x.2.2) := rfl


/-! ## one lemma per program point -/


macro "close_thr" t:term:max : tactic => `(tactic| (intro u; by_cases hu : u = $t <;> simp [hu, imgLoc, setThr, setBuf]))
macro "close_st" t:term:max : tactic => `(tactic| (congr 1; apply St.ext' <;> simp [setThr, setBuf, wadd_wrap_one] <;> (try close_thr $t)))

theorem hasItem_wrap (tail id : Nat) (h1 : tail ≤ id + 2147483647) (h2 : id ≤ tail + 2147483648) :
    hasItem32 (wrap tail) (wrap id) = decide (id < tail) := by
  unfold hasItem32
  by_cases h : id < tail
  · rw [wsub_wrap tail id (by omega) (by omega), decide_eq_true h, posI32_iff]; omega
  · rw [decide_eq_false h]
    by_cases he : id = tail
    · subst he
      rw [wsub_wrap id id (Nat.le_refl _) (by omega)]
      simp [posI32]
    · rw [wsub_wrap_neg tail id (by omega) (by omega)]
      have : ¬ (posI32 (M32 - (id - tail)) = true) := by rw [posI32_iff]; omega
      simpa using this

theorem sim_pLoadHead (s : St) (t v id : Nat) (rsv : Bool) (h : Inv s) (w : Win s) (hl : s.thr t = .pLoadHead v id rsv) :
    step32 (img s) t = some (img (step s t)) := by
  have hr := h.pRange t id (by simp [hl, holdsP])
  have := h.hHT; have := w.hE; have := w.hNs; have hN := w.hN
  have e1 : wsub (wrap id) (wrap s.head) = id - s.head := wsub_wrap id s.head (by omega) (by omega)
  simp only [step32, step, img_thr, hl, imgLoc, admit32, lenBefore32, img_head, img_N, e1, index32, mod_wrap id s.N hN]
  by_cases hc : id - s.head < s.N
  · simp only [hc, decide_true, ↓reduceIte]
    cases rsv
    · simp only [Bool.false_eq_true, ↓reduceIte]
      close_st t
    · simp only [↓reduceIte]
      close_st t
  · have : decide (s.head + s.N ≤ s.enqTail) = true := by simp; omega
    simp only [hc, decide_false, Bool.false_eq_true, ↓reduceIte, this]
    close_st t

theorem sim_pFetch (s : St) (t v : Nat) (rsv : Bool) (hl : s.thr t = .pFetch v rsv) :
    step32 (img s) t = some (img (step s t)) := by
  simp only [step32, step, img_thr, hl, imgLoc]
  close_st t

theorem sim_pRecede (s : St) (t v id : Nat) (rsv wg : Bool) (h : Inv s) (w : Win s) (hl : s.thr t = .pRecede v id rsv wg) :
    step32 (img s) t = some (img (step s t)) := by
  have hr := h.pRange t id (by simp [hl, holdsP])
  have := h.hHT; have := w.hE
  have e : (wrap s.enqTail = wadd (wrap id) 1) ↔ s.enqTail = id + 1 := by
    rw [wadd_wrap_one, eq_comm, wrap_eq_iff (id + 1) s.enqTail (by omega) (by omega)]; omega
  simp only [step32, step, img_thr, hl, imgLoc, img_enq]
  by_cases hc : s.enqTail = id + 1
  · simp only [e.mpr hc, ↓reduceIte]
    simp only [hc, ↓reduceIte]
    close_st t
  · have : ¬ (wrap s.enqTail = wadd (wrap id) 1) := fun x => hc (e.mp x)
    simp only [hc, this, ↓reduceIte]
    close_st t

theorem sim_pWrite (s : St) (t v id len : Nat) (w : Win s) (hl : s.thr t = .pWrite v id len) :
    step32 (img s) t = some (img (step s t)) := by
  simp only [step32, step, img_thr, hl, imgLoc, index32, img_N, mod_wrap id s.N w.hN]
  close_st t

theorem sim_pPublish (s : St) (t v id len : Nat) (h : Inv s) (w : Win s) (hl : s.thr t = .pPublish v id len) :
    step32 (img s) t = some (img (step s t)) := by
  have hr := h.pRange t id (by simp [hl, holdsP])
  have := h.hHT; have := w.hE
  have e : (wrap s.tail = wrap id) ↔ s.tail = id := wrap_eq_iff s.tail id (by omega) (by omega)
  simp only [step32, step, img_thr, hl, imgLoc, img_tail]
  by_cases hc : s.tail = id
  · simp only [hc, ↓reduceIte]
    close_st t
  · have : ¬ (wrap s.tail = wrap id) := fun x => hc (e.mp x)
    simp only [hc, this, ↓reduceIte]

theorem lenAfter32_wrap (id hd : Nat) (h1 : id + 1 < hd + 2147483648) (h2 : hd ≤ id + 1 + 2147483648) :
    lenAfter32 (wrap id) (wrap hd) = max 1 (id + 1 - hd) := by
  unfold lenAfter32
  rw [wadd_wrap_one]
  by_cases hc : hd ≤ id + 1
  · rw [wsub_wrap (id + 1) hd hc (by omega)]
    by_cases hz : id + 1 - hd = 0
    · simp [posI32, hz]
    · have : posI32 (id + 1 - hd) = true := by rw [posI32_iff]; omega
      simp only [this, ↓reduceIte]; omega
  · rw [wsub_wrap_neg (id + 1) hd (by omega) (by omega)]
    have : posI32 (M32 - (hd - (id + 1))) = false := by
      cases hp : posI32 (M32 - (hd - (id + 1)))
      · rfl
      · rw [posI32_iff] at hp; omega
    simp only [this, Bool.false_eq_true, ↓reduceIte]; omega

theorem sim_pLen (s : St) (t id : Nat) (h : Inv s) (w : Win s) (hl : s.thr t = .pLen id) :
    step32 (img s) t = some (img (step s t)) := by
  have := h.lenOk t id hl
  have := h.hHT; have := h.hTN; have := w.hNs
  have e := lenAfter32_wrap id s.head (by omega) (w.noLag t id hl)
  simp only [step32, step, img_thr, hl, imgLoc, img_head, e]
  close_st t

/-- the length answered by an index-based publication: the `u32` machine computes the very `u32` expression the `Nat` model is defined by -/
theorem sim_rLen (s : St) (t g : Nat) (hl : s.thr t = .rLen g) :
    step32 (img s) t = some (img (step s t)) := by
  simp only [step32, step, img_thr, hl, imgLoc, img_head]
  close_st t

theorem sim_cFetch (s : St) (t : Nat) (hl : s.thr t = .cFetch) :
    step32 (img s) t = some (img (step s t)) := by
  simp only [step32, step, img_thr, hl, imgLoc]
  close_st t

theorem sim_cLoadTail (s : St) (t id : Nat) (h : Inv s) (w : Win s) (hl : s.thr t = .cLoadTail id) :
    step32 (img s) t = some (img (step s t)) := by
  have hr := h.cRange t id (by simp [hl, holdsC])
  have := h.hHT; have := h.hTN; have := w.hD; have := w.hNs
  have e := hasItem_wrap s.tail id (by omega) (by omega)
  simp only [step32, step, img_thr, hl, imgLoc, img_tail, e]
  by_cases hc : id < s.tail
  · simp only [hc, decide_true, ↓reduceIte]
    close_st t
  · simp only [hc, decide_false, Bool.false_eq_true, ↓reduceIte]
    close_st t

theorem sim_cRecede (s : St) (t id : Nat) (h : Inv s) (w : Win s) (hl : s.thr t = .cRecede id) :
    step32 (img s) t = some (img (step s t)) := by
  have hr := h.cRange t id (by simp [hl, holdsC])
  have := w.hD
  have e : (wrap s.deqHead = wadd (wrap id) 1) ↔ s.deqHead = id + 1 := by
    rw [wadd_wrap_one, eq_comm, wrap_eq_iff (id + 1) s.deqHead (by omega) (by omega)]; omega
  simp only [step32, step, img_thr, hl, imgLoc, img_deq]
  by_cases hc : s.deqHead = id + 1
  · simp only [e.mpr hc, ↓reduceIte]
    simp only [hc, ↓reduceIte]
    close_st t
  · have : ¬ (wrap s.deqHead = wadd (wrap id) 1) := fun x => hc (e.mp x)
    simp only [hc, this, ↓reduceIte]
    close_st t

theorem sim_cChkHead (s : St) (t : Nat) (h : Inv s) (w : Win s) (hl : s.thr t = .cChkHead) :
    step32 (img s) t = some (img (step s t)) := by
  have := h.hHT; have := h.hTN; have := w.hNs
  have e : (wrap s.head = wrap s.tail) ↔ s.head = s.tail := wrap_eq_iff s.head s.tail (by omega) (by omega)
  have e' : decide (wrap s.head = wrap s.tail) = decide (s.head = s.tail) := by
    by_cases hc : s.head = s.tail
    · simp [hc]
    · have : ¬ (wrap s.head = wrap s.tail) := fun x => hc (e.mp x)
      simp [hc, this]
  simp only [step32, step, img_thr, hl, imgLoc, img_head, img_tail]
  congr 1; apply St.ext' <;> simp [setThr]
  intro u; by_cases hu : u = t <;> simp [hu, imgLoc]
  exact decide_eq_decide.mpr e

theorem sim_cChkTail (s : St) (t hh : Nat) (wg : Bool) (h : Inv s) (w : Win s) (hl : s.thr t = .cChkTail hh wg) :
    step32 (img s) t = some (img (step s t)) := by
  have hc1 := h.chkOk t hh wg hl
  have := h.hHT; have := w.noABA t hh wg hl
  have e : (wrap s.tail = wrap hh) ↔ s.tail = hh := by
    rw [eq_comm, wrap_eq_iff hh s.tail (by omega) (by omega)]; omega
  simp only [step32, step, img_thr, hl, imgLoc, img_tail]
  by_cases hc : s.tail = hh
  · simp only [hc, ↓reduceIte]
    close_st t
  · have : ¬ (wrap s.tail = wrap hh) := fun x => hc (e.mp x)
    simp only [hc, this, ↓reduceIte]
    close_st t

theorem sim_cRead (s : St) (t id : Nat) (w : Win s) (hl : s.thr t = .cRead id) :
    step32 (img s) t = some (img (step s t)) := by
  simp only [step32, step, img_thr, hl, imgLoc, index32, img_N, img_buf, mod_wrap id s.N w.hN]
  close_st t

theorem sim_cRelease (s : St) (t id v : Nat) (h : Inv s) (w : Win s) (hl : s.thr t = .cRelease id v) :
    step32 (img s) t = some (img (step s t)) := by
  have hr := h.cRange t id (by simp [hl, holdsC])
  have := w.hD
  have e : (wrap s.head = wrap id) ↔ s.head = id := wrap_eq_iff s.head id (by omega) (by omega)
  simp only [step32, step, img_thr, hl, imgLoc, img_head]
  by_cases hc : s.head = id
  · simp only [hc, ↓reduceIte]
    close_st t
  · have : ¬ (wrap s.head = wrap id) := fun x => hc (e.mp x)
    simp only [hc, this, ↓reduceIte]

theorem sim_lLen (s : St) (t : Nat) (h : Inv s) (w : Win s) (hl : s.thr t = .lLen) :
    step32 (img s) t = some (img (step s t)) := by
  simp only [step32, step, img_thr, hl, imgLoc, img_tail]
  close_st t

/-- the second load of the length query: the `u32` machine answers the very `u32` difference the `Nat` model is defined to
    answer (no window hypothesis: the two loads are taken at two instants, the difference may wrap in both) -/
theorem sim_lLenH (s : St) (t tl : Nat) (h : Inv s) (w : Win s) (hl : s.thr t = .lLenH tl) :
    step32 (img s) t = some (img (step s t)) := by
  simp only [step32, step, img_thr, hl, imgLoc, img_head, len32]
  close_st t


/-! ## how many claims can be outstanding -/


/-- with at most `T` threads ever used, at most `T` producer-side and `T` consumer-side claims are outstanding -/
theorem claims_le_threads (s : St) (h : Inv s) (T : Nat) (hT : ∀ t, T ≤ t → s.thr t = .idle) :
    s.enqTail ≤ s.tail + T ∧ s.deqHead ≤ s.head + T := by
  constructor
  · have hc : ∀ k, ∃ t, s.tail ≤ k → k < s.enqTail → holdsP (s.thr t) k := by
      intro k
      by_cases hk : s.tail ≤ k ∧ k < s.enqTail
      · obtain ⟨t, ht⟩ := h.pCover k hk.1 hk.2; exact ⟨t, fun _ _ => ht⟩
      · exact ⟨0, fun a b => absurd ⟨a, b⟩ hk⟩
    let f : Nat → Nat := fun k => Classical.choose (hc k)
    have hf : ∀ k, s.tail ≤ k → k < s.enqTail → holdsP (s.thr (f k)) k := fun k => Classical.choose_spec (hc k)
    have := pigeon T (s.enqTail - s.tail) s.tail f
      (by intro i hi
          have := hf (s.tail + i) (by omega) (by omega)
          apply Nat.lt_of_not_le; intro hge
          rw [hT _ hge] at this; exact this)
      (by intro i j hi hj e
          have h1 := hf (s.tail + i) (by omega) (by omega)
          have h2 := hf (s.tail + j) (by omega) (by omega)
          rw [e] at h1
          have := holdsP_fun h1 h2; omega)
    have := h.hTE; omega
  · have hc : ∀ k, ∃ t, s.head ≤ k → k < s.deqHead → holdsC (s.thr t) k := by
      intro k
      by_cases hk : s.head ≤ k ∧ k < s.deqHead
      · obtain ⟨t, ht⟩ := h.cCover k hk.1 hk.2; exact ⟨t, fun _ _ => ht⟩
      · exact ⟨0, fun a b => absurd ⟨a, b⟩ hk⟩
    let f : Nat → Nat := fun k => Classical.choose (hc k)
    have hf : ∀ k, s.head ≤ k → k < s.deqHead → holdsC (s.thr (f k)) k := fun k => Classical.choose_spec (hc k)
    have := pigeon T (s.deqHead - s.head) s.head f
      (by intro i hi
          have := hf (s.head + i) (by omega) (by omega)
          apply Nat.lt_of_not_le; intro hge
          rw [hT _ hge] at this; exact this)
      (by intro i j hi hj e
          have h1 := hf (s.head + i) (by omega) (by omega)
          have h2 := hf (s.head + j) (by omega) (by omega)
          rw [e] at h1
          have := holdsC_fun h1 h2; omega)
    have := h.hHD; omega

/-! ## the assembled step / action / run simulation -/

/-- thread `t` is not inside an index-based publish / cancel call (those are related at call level, see below) -/
def NotIdx (l : Loc) : Prop := (∀ id idx g, l ≠ .rPub id idx g) ∧ (∀ id idx g, l ≠ .rCan id idx g)

theorem sim_step (s : St) (t : Nat) (h : Inv s) (w : Win s) (hni : NotIdx (s.thr t)) :
    step32 (img s) t = some (img (step s t)) := by
  cases hl : s.thr t with
  | idle => simp only [step32, step, img_thr, hl, imgLoc]
  | done r => simp only [step32, step, img_thr, hl, imgLoc]
  | rHold id => simp only [step32, step, img_thr, hl, imgLoc]
  | rRet id r => simp only [step32, step, img_thr, hl, imgLoc]
  | pFetch v rsv => exact sim_pFetch s t v rsv hl
  | pLoadHead v id rsv => exact sim_pLoadHead s t v id rsv h w hl
  | pRecede v id rsv wg => exact sim_pRecede s t v id rsv wg h w hl
  | pWrite v id len => exact sim_pWrite s t v id len w hl
  | pPublish v id len => exact sim_pPublish s t v id len h w hl
  | pLen id => exact sim_pLen s t id h w hl
  | rPub id idx g => exact absurd hl (hni.1 id idx g)
  | rLen g => exact sim_rLen s t g hl
  | rCan id idx g => exact absurd hl (hni.2 id idx g)
  | cFetch => exact sim_cFetch s t hl
  | cLoadTail id => exact sim_cLoadTail s t id h w hl
  | cRecede id => exact sim_cRecede s t id h w hl
  | cChkHead => exact sim_cChkHead s t h w hl
  | cChkTail hh wg => exact sim_cChkTail s t hh wg h w hl
  | cRead id => exact sim_cRead s t id w hl
  | cRelease id v => exact sim_cRelease s t id v h w hl
  | lLen => exact sim_lLen s t h w hl
  | lLenH tl => exact sim_lLenH s t tl h w hl

theorem imgLoc_idle_iff (l : Loc) : imgLoc l = .idle ↔ l = .idle := by cases l <;> simp [imgLoc]

/-- actions other than starting an index-based publish / cancel -/
def ActOk : Act → Prop
  | .pubIdx _ => False
  | .canIdx _ => False
  | _ => True

/-- no thread is inside an index-based publish / cancel -/
def NoIdx (s : St) : Prop := ∀ t, NotIdx (s.thr t)

theorem noIdx_step (s : St) (t : Nat) (h : NoIdx s) : NoIdx (step s t) := by
  intro u
  have hu := h u
  have ht := h t
  unfold NotIdx at *
  unfold step
  split <;> (try split) <;> (try split) <;> (try exact hu) <;>
    (simp only [thr_setThr, thr_setBuf]; split <;> simp_all)

theorem noIdx_apply (s : St) (a : Act) (h : NoIdx s) (ha : ActOk a) : NoIdx (apply s a) := by
  cases a with
  | pubIdx t => exact absurd ha id
  | canIdx t => exact absurd ha id
  | step t => exact noIdx_step s t h
  | send t v => intro u; have := h u; unfold NotIdx at *; simp only [apply]; split <;> (try exact this); simp only [thr_setThr]; split <;> simp_all
  | recv t => intro u; have := h u; unfold NotIdx at *; simp only [apply]; split <;> (try exact this); simp only [thr_setThr]; split <;> simp_all
  | len t => intro u; have := h u; unfold NotIdx at *; simp only [apply]; split <;> (try exact this); simp only [thr_setThr]; split <;> simp_all
  | reserve t => intro u; have := h u; unfold NotIdx at *; simp only [apply]; split <;> (try exact this); simp only [thr_setThr]; split <;> simp_all
  | fill t v => intro u; have := h u; unfold NotIdx at *; simp only [apply]; split <;> exact this
  | ack t => intro u; have := h u; unfold NotIdx at *; simp only [apply]; split <;> (try exact this) <;> (simp only [thr_setThr]; split <;> simp_all)

theorem sim_apply (s : St) (a : Act) (h : Inv s) (w : Win s) (hn : NoIdx s) (ha : ActOk a) :
    apply32 (img s) a = some (img (apply s a)) := by
  cases a with
  | pubIdx t => exact absurd ha id
  | canIdx t => exact absurd ha id
  | step t => exact sim_step s t h w (hn t)
  | send t v =>
    simp only [apply32, apply, img_thr, imgLoc_idle_iff]
    by_cases hi : s.thr t = .idle
    · simp only [hi, ↓reduceIte]
      close_st t
    · simp only [hi, ↓reduceIte]
  | recv t =>
    simp only [apply32, apply, img_thr, imgLoc_idle_iff]
    by_cases hi : s.thr t = .idle
    · simp only [hi, ↓reduceIte]
      close_st t
    · simp only [hi, ↓reduceIte]
  | len t =>
    simp only [apply32, apply, img_thr, imgLoc_idle_iff]
    by_cases hi : s.thr t = .idle
    · simp only [hi, ↓reduceIte]
      close_st t
    · simp only [hi, ↓reduceIte]
  | reserve t =>
    simp only [apply32, apply, img_thr, imgLoc_idle_iff]
    by_cases hi : s.thr t = .idle
    · simp only [hi, ↓reduceIte]
      close_st t
    · simp only [hi, ↓reduceIte]
  | fill t v =>
    simp only [apply32, apply, img_thr]
    cases hl : s.thr t with
    | rHold id =>
      simp only [imgLoc, index32, img_N, mod_wrap _ s.N w.hN]
      rfl
    | _ => simp only [imgLoc]
  | ack t =>
    simp only [apply32, apply, img_thr]
    cases hl : s.thr t with
    | done r => simp only [imgLoc]; close_st t
    | rRet id r => simp only [imgLoc]; close_st t
    | _ => simp only [imgLoc]

/-- the window condition holds along the whole run -/
def WinRun (s : St) : List Act → Prop
  | [] => True
  | a :: as => Win s ∧ WinRun (Ring.apply s a) as

def ActsOk : List Act → Prop
  | [] => True
  | a :: as => ActOk a ∧ ActsOk as

/-- **C15, machine level.**  Every run of the `u32` machine is, step for step, the image modulo 2^32 of the run of the
    free-running `Nat` machine M1, and never panics — whatever magnitude the counters have reached. -/
theorem sim_run (s : St) (as : List Act) (h : Inv s) (hn : NoIdx s) (hok : RunOk s as) (hw : WinRun s as) (ha : ActsOk as) :
    run32 (img s) as = some (img (Ring.run s as)) := by
  induction as generalizing s with
  | nil => rfl
  | cons a as ih =>
    obtain ⟨hex, hok'⟩ := hok
    obtain ⟨w, hw'⟩ := hw
    obtain ⟨ha1, ha'⟩ := ha
    simp only [run32, sim_apply s a h w hn ha1]
    exact ih (Ring.apply s a) (inv_apply s a h hex) (noIdx_apply s a hn ha1) hok' hw' ha'

end Mutiny.Ring32
