import Mutiny.Proofs.HandlesInv

/-!
# Consequences of the `Handles` invariant used by `Props/C05.lean`, `Props/C13.lean`, `Props/C14.lean`
-/

namespace Mutiny.Handles

/-! ## ownership -/

/-- control block `i` owns its pool slot: its counter is positive, or the thread that saw it reach 0 has not yet
    given the slot back (`oa.drop.dealloc` pending) -/
def Owning (s : St) (i : Nat) : Prop :=
  i < s.cbs.length ∧ ((getCB s i).rc > 0 ∨ ∃ t, s.thr t = .dDealloc i)

theorem owns_iff {s : St} (h : Inv s) (i : Nat) : Owns s i ↔ Owning s i := by
  constructor
  · intro ho
    refine ⟨ho.1, ?_⟩
    by_cases hz : (getCB s i).rc = 0
    · exact Or.inr (h.ownRc i ho hz)
    · exact Or.inl (Nat.pos_of_ne_zero hz)
  · rintro ⟨_, hr | ⟨t, ht⟩⟩
    · exact h.rcOwns i hr
    · exact h.ddOwns t i ht

theorem owning_not_freed {s : St} (h : Inv s) {i : Nat} (ho : Owning s i) : (getCB s i).freed = false :=
  (h.ownOk i ((owns_iff h i).2 ho)).1

/-- a held handle (alive, lent to a call, or announced) keeps the counter positive, hence the slot owned -/
theorem held_owning {s : St} (h : Inv s) {i : Nat}
    (hh : (getCB s i).live + (getCB s i).lent + (getCB s i).owed > 0) : Owning s i := by
  have := h.rcSum i
  have hr : (getCB s i).rc > 0 := by omega
  exact ⟨(h.rcOwns i hr).1, Or.inl hr⟩

/-- the user's recommended statement: every finite set of distinct threads parked at control block `i` is no larger
    than `lent` (hence `rc ≥` number of concurrent droppers) -/
theorem parked_le_lent {s : St} (h : Inv s) (i : Nat) (ts : List Nat) (hn : ts.Nodup)
    (hp : ∀ t ∈ ts, pointOf (s.thr t) = some i) : ts.length ≤ (getCB s i).lent := by
  obtain ⟨ps, _, hm, hl⟩ := h.lentCount i
  rw [← hl]
  exact hn.length_le_of_subset (fun t ht => (hm t).2 (hp t ht))

theorem parked_le_rc {s : St} (h : Inv s) (i : Nat) (ts : List Nat) (hn : ts.Nodup)
    (hp : ∀ t ∈ ts, pointOf (s.thr t) = some i) : ts.length ≤ (getCB s i).rc := by
  have := parked_le_lent h i ts hn hp
  have := h.rcSum i
  omega

/-- nobody parked at `i` means nothing is lent -/
theorem lent_zero_of_no_thread {s : St} (h : Inv s) (i : Nat) (hp : ∀ t, pointOf (s.thr t) ≠ some i) :
    (getCB s i).lent = 0 := by
  obtain ⟨ps, _, hm, hl⟩ := h.lentCount i
  rw [← hl]
  cases ps with
  | nil => rfl
  | cons p ps => exact absurd ((hm p).1 (List.mem_cons_self ..)) (hp p)

/-! ## counting the pool -/

theorem range_subset_of_nodup_full {l : List Nat} {n : Nat} (hn : l.Nodup) (hlt : ∀ x ∈ l, x < n)
    (hlen : l.length = n) : ∀ x, x < n → x ∈ l := by
  intro x hx
  apply Classical.byContradiction
  intro hnot
  have h1 : (x :: l).Nodup := List.nodup_cons.2 ⟨hnot, hn⟩
  have h2 : (x :: l) ⊆ List.range n := by
    intro y hy
    rcases List.mem_cons.1 hy with rfl | hy
    · exact List.mem_range.2 hx
    · exact List.mem_range.2 (hlt y hy)
  have := h1.length_le_of_subset h2
  simp only [List.length_cons, List.length_range] at this
  omega

/-- the ids owned by control blocks, the ids owned by unique handles and the free ids partition `0 .. N-1` -/
theorem pool_partition {s : St} (h : Inv s) :
    ∃ own : List Nat, own.Nodup ∧ (∀ i, i ∈ own ↔ Owning s i) ∧
      own.length + s.uniques.length + s.free.length = s.N ∧
      (own.map (fun i => (getCB s i).id) ++ s.uniques ++ s.free).Nodup ∧
      (∀ x ∈ own.map (fun i => (getCB s i).id) ++ s.uniques ++ s.free, x < s.N) ∧
      (own.map (fun i => (getCB s i).id) ++ s.uniques ++ s.free).Perm (List.range s.N) := by
  obtain ⟨own, hn, hm, hc⟩ := h.count
  have hmap : (own.map (fun i => (getCB s i).id)).Nodup := by
    unfold List.Nodup
    rw [List.pairwise_map]
    refine List.Pairwise.imp_of_mem ?_ hn
    intro a b ha hb hab e
    exact hab (h.ownInj a b ((hm a).1 ha) ((hm b).1 hb) e)
  have hnd : (own.map (fun i => (getCB s i).id) ++ s.uniques ++ s.free).Nodup := by
    rw [List.nodup_append, List.nodup_append]
    refine ⟨⟨hmap, h.uniqNodup, ?_⟩, h.freeNodup, ?_⟩
    · intro a ha b hb e
      obtain ⟨i, hi, rfl⟩ := List.mem_map.1 ha
      exact (h.ownOk i ((hm i).1 hi)).2.2.2.1 (e ▸ hb)
    · intro a ha b hb e
      rcases List.mem_append.1 ha with ha | ha
      · obtain ⟨i, hi, rfl⟩ := List.mem_map.1 ha
        exact (h.ownOk i ((hm i).1 hi)).2.2.1 (e ▸ hb)
      · exact (h.uniqOk a ha).2.1 (e ▸ hb)
  have hlt : ∀ x ∈ own.map (fun i => (getCB s i).id) ++ s.uniques ++ s.free, x < s.N := by
    intro x hx
    rcases List.mem_append.1 hx with hx | hx
    · rcases List.mem_append.1 hx with hx | hx
      · obtain ⟨i, hi, rfl⟩ := List.mem_map.1 hx
        exact (h.ownOk i ((hm i).1 hi)).2.1
      · exact (h.uniqOk x hx).1
    · exact h.freeLt x hx
  have hlen : (own.map (fun i => (getCB s i).id) ++ s.uniques ++ s.free).length = s.N := by
    simp only [List.length_append, List.length_map]; exact hc
  refine ⟨own, hn, fun i => (hm i).trans (owns_iff h i), hc, hnd, hlt, ?_⟩
  rw [List.perm_ext_iff_of_nodup hnd List.nodup_range]
  intro a
  constructor
  · intro ha; exact List.mem_range.2 (hlt a ha)
  · intro ha; exact range_subset_of_nodup_full hnd hlt hlen a (List.mem_range.1 ha)


/-! ## frame facts (hold in every state) -/

theorem slot_step (s : St) (t : Nat) : (step s t).slot = s.slot := by
  cases ht : s.thr t <;> simp only [step, ht] <;> (try split) <;> rfl

theorem alive_step_of_ne (s : St) (t : Nat) (hd : ∀ i, s.thr t ≠ .dDealloc i) : (step s t).alive = s.alive := by
  cases ht : s.thr t <;> simp only [step, ht] <;> (try split) <;> first | rfl | exact absurd ht (hd _)

theorem free_step_of_ne (s : St) (t : Nat) (hd : ∀ i, s.thr t ≠ .dDealloc i) : (step s t).free = s.free := by
  cases ht : s.thr t <;> simp only [step, ht] <;> (try split) <;> first | rfl | exact absurd ht (hd _)

theorem dropLog_step_of_ne (s : St) (t : Nat) (hd : ∀ i, s.thr t ≠ .dDealloc i) : (step s t).dropLog = s.dropLog := by
  cases ht : s.thr t <;> simp only [step, ht] <;> (try split) <;> first | rfl | exact absurd ht (hd _)

theorem N_step (s : St) (t : Nat) : (step s t).N = s.N := by
  cases ht : s.thr t <;> simp only [step, ht] <;> (try split) <;> rfl

/-- the capacity never changes -/
theorem N_apply (s : St) (a : Act) : (apply s a).N = s.N := by
  cases a with
  | newArc t v k =>
    simp only [apply]
    split
    · cases hf : s.free with
      | nil => rw [allocWrite_nil v hf]; rfl
      | cons x rest => rw [allocWrite_cons v hf]; rfl
    · rfl
  | newUnique t v =>
    simp only [apply]
    split
    · cases hf : s.free with
      | nil => rw [allocWrite_nil v hf]; rfl
      | cons x rest => rw [allocWrite_cons v hf]; rfl
    · rfl
  | step t => simp only [apply, N_step]
  | ack t => simp only [apply]; split <;> rfl
  | clone t i => simp only [apply]; split <;> rfl
  | incRefs t i k => simp only [apply]; split <;> rfl
  | rawCopy t i => simp only [apply]; split <;> rfl
  | dropArc t i => simp only [apply]; split <;> rfl
  | count t i => simp only [apply]; split <;> rfl
  | deref t i => simp only [apply]; split <;> rfl
  | dropUnique t i => simp only [apply]; split <;> rfl
  | derefUnique t i => simp only [apply]; split <;> rfl
  | intoArc t i => simp only [apply]; split <;> rfl

theorem N_reachable {n : Nat} {s : St} (hr : Reachable n s) : s.N = n := by
  obtain ⟨as, rfl⟩ := hr
  suffices ∀ s : St, (run s as).N = s.N from this (init n)
  induction as with
  | nil => intro s; rfl
  | cons a as ih => intro s; show (run (apply s a) as).N = s.N; rw [ih, N_apply]

/-- only a fresh allocation of that very id writes a slot; an id that is not free cannot be allocated -/
theorem slot_apply_of_not_free (s : St) (a : Act) (id : Nat) (h : id ∉ s.free) : (apply s a).slot id = s.slot id := by
  cases a with
  | newArc t v k =>
    simp only [apply]
    split
    · cases hf : s.free with
      | nil => rw [allocWrite_nil v hf]; rfl
      | cons x rest =>
        rw [allocWrite_cons v hf]
        have : id ≠ x := by rintro rfl; exact h (hf ▸ List.mem_cons_self ..)
        simp [this]
    · rfl
  | newUnique t v =>
    simp only [apply]
    split
    · cases hf : s.free with
      | nil => rw [allocWrite_nil v hf]; rfl
      | cons x rest =>
        rw [allocWrite_cons v hf]
        have : id ≠ x := by rintro rfl; exact h (hf ▸ List.mem_cons_self ..)
        show (allocSt s v x rest).slot id = s.slot id
        simp [this]
    · rfl
  | step t => simp only [apply, slot_step]
  | ack t => simp only [apply]; split <;> rfl
  | clone t i => simp only [apply]; split <;> rfl
  | incRefs t i k => simp only [apply]; split <;> rfl
  | rawCopy t i => simp only [apply]; split <;> rfl
  | dropArc t i => simp only [apply]; split <;> rfl
  | count t i => simp only [apply]; split <;> rfl
  | deref t i => simp only [apply]; split <;> rfl
  | dropUnique t i => simp only [apply]; split <;> rfl
  | derefUnique t i => simp only [apply]; split <;> rfl
  | intoArc t i => simp only [apply]; split <;> rfl

/-- the destructor log grows only at an `oa.drop.dealloc` step or a `dropUnique`, by the entry of that very slot -/
theorem dropLog_apply (s : St) (a : Act) :
    (apply s a).dropLog = s.dropLog ∨
    (∃ t i, a = .step t ∧ s.thr t = .dDealloc i ∧
        (apply s a).dropLog = s.dropLog ++ [((getCB s i).id, s.slotGen (getCB s i).id, s.slot (getCB s i).id)]) ∨
    (∃ t id, a = .dropUnique t id ∧ s.thr t = .idle ∧ id ∈ s.uniques ∧
        (apply s a).dropLog = s.dropLog ++ [(id, s.slotGen id, s.slot id)]) := by
  cases a with
  | newArc t v k =>
    left; simp only [apply]
    split
    · cases hf : s.free with
      | nil => rw [allocWrite_nil v hf]; rfl
      | cons x rest => rw [allocWrite_cons v hf]; rfl
    · rfl
  | newUnique t v =>
    left; simp only [apply]
    split
    · cases hf : s.free with
      | nil => rw [allocWrite_nil v hf]; rfl
      | cons x rest => rw [allocWrite_cons v hf]; rfl
    · rfl
  | step t =>
    by_cases hd : ∃ i, s.thr t = .dDealloc i
    · obtain ⟨i, hi⟩ := hd
      right; left; exact ⟨t, i, rfl, hi, by simp only [apply, step, hi]; rfl⟩
    · left; exact dropLog_step_of_ne s t (fun i hi => hd ⟨i, hi⟩)
  | dropUnique t id =>
    simp only [apply]
    split
    · next hc => right; right; exact ⟨t, id, rfl, hc.1, hc.2, rfl⟩
    · left; rfl
  | ack t => left; simp only [apply]; split <;> rfl
  | clone t i => left; simp only [apply]; split <;> rfl
  | incRefs t i k => left; simp only [apply]; split <;> rfl
  | rawCopy t i => left; simp only [apply]; split <;> rfl
  | dropArc t i => left; simp only [apply]; split <;> rfl
  | count t i => left; simp only [apply]; split <;> rfl
  | deref t i => left; simp only [apply]; split <;> rfl
  | derefUnique t i => left; simp only [apply]; split <;> rfl
  | intoArc t i => left; simp only [apply]; split <;> rfl


/-! ## state extensionality through `getCB` -/

theorem cbs_ext {l1 l2 : List CB} (hlen : l1.length = l2.length) (h : ∀ j, l1.getD j dflt = l2.getD j dflt) :
    l1 = l2 := by
  apply List.ext_getElem hlen
  intro j h1 h2
  have := h j
  simpa [List.getD_eq_getElem?_getD, List.getElem?_eq_getElem h1, List.getElem?_eq_getElem h2] using this

theorem St.ext' {s1 s2 : St} (hN : s1.N = s2.N) (hfree : s1.free = s2.free) (hslot : s1.slot = s2.slot)
    (halive : s1.alive = s2.alive) (hsg : s1.slotGen = s2.slotGen) (hng : s1.nextGen = s2.nextGen)
    (hlen : s1.cbs.length = s2.cbs.length) (hcb : ∀ j, getCB s1 j = getCB s2 j) (hu : s1.uniques = s2.uniques)
    (hthr : ∀ u, s1.thr u = s2.thr u) (hlog : s1.dropLog = s2.dropLog) : s1 = s2 := by
  have hcbs : s1.cbs = s2.cbs := cbs_ext hlen hcb
  have hthr' : s1.thr = s2.thr := funext hthr
  cases s1; cases s2; simp_all

theorem run_append (s : St) (as bs : List Act) : run s (as ++ bs) = run (run s as) bs := by
  simp [run, List.foldl_append]

theorem run_cons (s : St) (a : Act) (as : List Act) : run s (a :: as) = run (apply s a) as := rfl
theorem run_nil (s : St) : run s [] = s := rfl

/-! ## complete operations as single state transformers (C14 bulk) -/

theorem step_clone_eq {s : St} {t i : Nat} (h : s.thr t = .clone i) :
    apply s (.step t) = setThr (updCB s i fun c => { c with rc := c.rc + 1, lent := c.lent - 1, live := c.live + 2 }) t
      (.done (.arc i)) := by simp only [apply, step, h]
theorem step_inc_eq {s : St} {t i k : Nat} (h : s.thr t = .inc i k) :
    apply s (.step t) = setThr (updCB s i fun c =>
      { c with rc := c.rc + k, lent := c.lent - 1, live := c.live + 1, owed := c.owed + k }) t (.done .unit) := by
  simp only [apply, step, h]
theorem ack_eq {s : St} {t : Nat} {r : Res} (h : s.thr t = .done r) : apply s (.ack t) = setThr s t .idle := by
  simp only [apply, h]

macro "hsimp'" : tactic => `(tactic| simp only [lend, thr_setThr, N_setThr, free_setThr,
    slot_setThr, alive_setThr, slotGen_setThr, nextGen_setThr, cbs_setThr, uniques_setThr, dropLog_setThr, getCB_setThr,
    thr_updCB, N_updCB, free_updCB, slot_updCB, alive_updCB, slotGen_updCB, nextGen_updCB, uniques_updCB,
    dropLog_updCB, length_updCB, getCB_updCB])

/-- a complete `clone` (call, `fetch_add`, return) adds one to the counter and one live handle -/
theorem clone_complete (s : St) (t i : Nat) (ht : s.thr t = .idle) (hu : usable s i = true) :
    run s [.clone t i, .step t, .ack t] = updCB s i fun c => { c with rc := c.rc + 1, live := c.live + 1 } := by
  have hu' := hu
  simp only [usable, Bool.and_eq_true, decide_eq_true_eq] at hu'
  obtain ⟨hlen, hlive⟩ := hu'
  simp only [run_cons, run_nil]
  have e1 : apply s (.clone t i) = setThr (lend s i) t (.clone i) := by simp [apply, ht, hu]
  rw [e1, step_clone_eq (i := i) (by simp), ack_eq (r := .arc i) (by simp)]
  apply St.ext' <;> (try hsimp')
  case hcb => intro j; grind
  case hthr => intro u; grind

/-- a complete `increment_references(k)` adds `k` to the counter and announces `k` raw copies -/
theorem incRefs_complete (s : St) (t i k : Nat) (ht : s.thr t = .idle) (hu : usable s i = true) :
    run s [.incRefs t i k, .step t, .ack t] = updCB s i fun c => { c with rc := c.rc + k, owed := c.owed + k } := by
  have hu' := hu
  simp only [usable, Bool.and_eq_true, decide_eq_true_eq] at hu'
  obtain ⟨hlen, hlive⟩ := hu'
  simp only [run_cons, run_nil]
  have e1 : apply s (.incRefs t i k) = setThr (lend s i) t (.inc i k) := by simp [apply, ht, hu]
  rw [e1, step_inc_eq (i := i) (k := k) (by simp), ack_eq (r := .unit) (by simp)]
  apply St.ext' <;> (try hsimp')
  case hcb => intro j; grind
  case hthr => intro u; grind

/-- a complete `raw_copy` turns one announced copy into a live handle -/
theorem rawCopy_complete (s : St) (t i : Nat) (ht : s.thr t = .idle) (hlen : i < s.cbs.length)
    (ho : (getCB s i).owed > 0) :
    run s [.rawCopy t i, .ack t] = updCB s i fun c => { c with owed := c.owed - 1, live := c.live + 1 } := by
  simp only [run_cons, run_nil]
  have e1 : apply s (.rawCopy t i) =
      setThr (updCB s i fun c => { c with owed := c.owed - 1, live := c.live + 1 }) t (.done (.arc i)) := by
    simp [apply, ht, hlen, ho]
  rw [e1, ack_eq (r := .arc i) (by simp)]
  apply St.ext' <;> (try hsimp')
  case hcb => intro j; trivial
  case hthr => intro u; grind


theorem updCB_updCB_eq (s : St) (i : Nat) (f g k : CB → CB) (e : g (f (getCB s i)) = k (getCB s i)) :
    updCB (updCB s i f) i g = updCB s i k := by
  apply St.ext' <;> (try hsimp') <;> (try rfl)
  case hcb => intro j; grind
  case hthr => intro u; trivial

theorem updCB_self (s : St) (i : Nat) (f : CB → CB) (e : f (getCB s i) = getCB s i) : updCB s i f = s := by
  apply St.ext' <;> (try hsimp') <;> (try rfl)
  case hcb => intro j; grind
  case hthr => intro u; trivial

theorem rawCopy_loop (t i m : Nat) : ∀ s : St, s.thr t = .idle → i < s.cbs.length → m ≤ (getCB s i).owed →
    run s (List.replicate m [Act.rawCopy t i, Act.ack t]).flatten
      = updCB s i fun c => { c with owed := c.owed - m, live := c.live + m } := by
  induction m with
  | zero => intro s _ _ _; exact (updCB_self s i _ rfl).symm
  | succ m ih =>
    intro s ht hlen ho
    rw [List.replicate_succ, List.flatten_cons, run_append, rawCopy_complete s t i ht hlen (by omega)]
    rw [ih _ (by simpa using ht) (by simpa using hlen) (by rw [getCB_updCB]; simp [hlen]; omega)]
    apply updCB_updCB_eq
    dsimp only; grind

theorem clone_loop (t i m : Nat) : ∀ s : St, s.thr t = .idle → usable s i = true →
    run s (List.replicate m [Act.clone t i, Act.step t, Act.ack t]).flatten
      = updCB s i fun c => { c with rc := c.rc + m, live := c.live + m } := by
  induction m with
  | zero => intro s _ _; exact (updCB_self s i _ rfl).symm
  | succ m ih =>
    intro s ht hu
    have hu' := hu
    simp only [usable, Bool.and_eq_true, decide_eq_true_eq] at hu'
    rw [List.replicate_succ, List.flatten_cons, run_append, clone_complete s t i ht hu]
    rw [ih _ (by simpa using ht) (by simp [usable, getCB_updCB, hu'.1])]
    apply updCB_updCB_eq
    dsimp only; grind

/-- `increment_references(k)` followed by `k` `raw_copy` = `k` `clone`s: same final state -/
theorem bulk_eq_clones (s : St) (t i k : Nat) (ht : s.thr t = .idle) (hu : usable s i = true) :
    run s ([.incRefs t i k, .step t, .ack t] ++ (List.replicate k [Act.rawCopy t i, Act.ack t]).flatten)
      = run s (List.replicate k [Act.clone t i, Act.step t, Act.ack t]).flatten := by
  have hu' := hu
  simp only [usable, Bool.and_eq_true, decide_eq_true_eq] at hu'
  rw [run_append, incRefs_complete s t i k ht hu, clone_loop t i k s ht hu,
    rawCopy_loop t i k _ (by simpa using ht) (by simpa using hu'.1) (by rw [getCB_updCB]; simp [hu'.1])]
  apply updCB_updCB_eq
  dsimp only; grind


/-! ## FIFO reuse (C13) -/

theorem newUnique_eq {s : St} {t : Nat} (v : Nat) {x : Nat} {rest : List Nat} (ht : s.thr t = .idle)
    (hf : s.free = x :: rest) :
    apply s (.newUnique t v) = setThr (withUniques (allocSt s v x rest) (x :: s.uniques)) t (.done (.unique x)) := by
  simp only [apply, ht, if_true, allocWrite_cons v hf]; rfl

theorem newUnique_none {s : St} {t : Nat} (v : Nat) (ht : s.thr t = .idle) (hf : s.free = []) :
    apply s (.newUnique t v) = setThr s t (.done .none) := by
  simp only [apply, ht, if_true, allocWrite_nil v hf]

theorem newArc_eq {s : St} {t : Nat} (v : Nat) {k x : Nat} {rest : List Nat} (ht : s.thr t = .idle) (hk : k > 0)
    (hf : s.free = x :: rest) :
    apply s (.newArc t v k) = setThr (pushCB (allocSt s v x rest)
      { id := x, rc := k, live := k, lent := 0, owed := 0, freed := false, val := v, gen := s.nextGen }) t
      (.done (.arc s.cbs.length)) := by
  simp only [apply, ht, hk, and_self, if_true, allocWrite_cons v hf]; rfl

theorem newArc_none {s : St} {t : Nat} (v : Nat) {k : Nat} (ht : s.thr t = .idle) (hk : k > 0) (hf : s.free = []) :
    apply s (.newArc t v k) = setThr s t (.done .none) := by
  simp only [apply, ht, hk, and_self, if_true, allocWrite_nil v hf]

/-- a thread allocating alone pops the free list front to back -/
theorem solo_allocs (t : Nat) (vs : List Nat) : ∀ (s : St) (l rest : List Nat), s.thr t = .idle →
    s.free = l ++ rest → vs.length = l.length →
    (run s (vs.flatMap fun v => [Act.newUnique t v, Act.ack t])).thr t = .idle ∧
    (run s (vs.flatMap fun v => [Act.newUnique t v, Act.ack t])).free = rest ∧
    (run s (vs.flatMap fun v => [Act.newUnique t v, Act.ack t])).uniques = l.reverse ++ s.uniques := by
  induction vs with
  | nil =>
    intro s l rest ht hf hl
    have : l = [] := List.eq_nil_of_length_eq_zero hl.symm
    subst this
    exact ⟨ht, hf, rfl⟩
  | cons v vs ih =>
    intro s l rest ht hf hl
    cases l with
    | nil => simp at hl
    | cons x l =>
      have hf' : s.free = x :: (l ++ rest) := hf
      rw [List.flatMap_cons, run_append, run_cons, run_cons, run_nil, newUnique_eq v ht hf',
        ack_eq (r := .unique x) (by simp)]
      have := ih (setThr (setThr (withUniques (allocSt s v x (l ++ rest)) (x :: s.uniques)) t (.done (.unique x))) t .idle)
        l rest (by simp) (by simp) (by simpa using hl)
      refine ⟨this.1, this.2.1, ?_⟩
      rw [this.2.2]; simp

end Mutiny.Handles
